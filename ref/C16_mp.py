"""C16 reference: element -> Cartesian map and its first/second derivatives in 60-digit
arithmetic (mpmath), written independently of REBOUND's formulas.

  classical:  perifocal position/velocity rotated by Rz(Omega) Rx(inc) Rz(omega)
  Pal:        converted to classical elements (e, pomega, inc, Omega, M), Kepler's
              equation solved by Newton in 60 digits, then the classical map.
              (REBOUND uses Pal's direct formulas; nothing is shared.)

Derivatives are central finite differences with step 1e-18 at 60 digits (truncation
~1e-36, rounding ~1e-24 relative), i.e. exact to double precision.

stdin : JSON {"cases": [{"G":, "prim":[m,x,y,z,vx,vy,vz], "m":, "kind":"orb"|"pal", "el":[6 floats]}]}
stdout: JSON [{"cart":[6], "d1":{name:[6]}, "d2":{"p_q":[6]}}]   (names in family order)
Run with python3-vt (has mpmath).
"""
import json, sys
import mpmath as mp

mp.mp.dps = 60
ORB = ["m", "a", "e", "inc", "Omega", "omega", "f"]
PAL = ["m", "a", "lambda", "h", "k", "ix", "iy"]


def rot(v, ang, axis):
    c, s = mp.cos(ang), mp.sin(ang)
    x, y, z = v
    if axis == "z":
        return (c * x - s * y, s * x + c * y, z)
    return (x, c * y - s * z, s * y + c * z)


def orb_map(G, M0, m, a, e, inc, Om, om, f):
    mu = G * (M0 + m)
    p = a * (1 - e * e)
    r = p / (1 + e * mp.cos(f))
    pos = (r * mp.cos(f), r * mp.sin(f), mp.mpf(0))
    k = mp.sqrt(mu / p)
    vel = (-k * mp.sin(f), k * (e + mp.cos(f)), mp.mpf(0))
    out = []
    for v in (pos, vel):
        v = rot(v, om, "z")
        v = rot(v, inc, "x")
        v = rot(v, Om, "z")
        out += list(v)
    return out


def kepler(e, M):
    E = M + e * mp.sin(M)
    for _ in range(200):
        d = (E - e * mp.sin(E) - M) / (1 - e * mp.cos(E))
        E -= d
        if abs(d) < mp.mpf(10) ** (-55):
            break
    return E


def pal_map(G, M0, m, a, lam, h, k, ix, iy):
    e = mp.sqrt(h * h + k * k)
    pom = mp.atan2(h, k) if e != 0 else mp.mpf(0)
    s = mp.sqrt(ix * ix + iy * iy)
    inc = 2 * mp.asin(s / 2)
    Om = mp.atan2(iy, ix) if s != 0 else mp.mpf(0)
    om = pom - Om
    M = lam - pom
    E = kepler(e, M)
    f = 2 * mp.atan2(mp.sqrt(1 + e) * mp.sin(E / 2), mp.sqrt(1 - e) * mp.cos(E / 2))
    return orb_map(G, M0, m, a, e, inc, Om, om, f)


def main():
    req = json.load(sys.stdin)
    out = []
    hstep = mp.mpf(10) ** (-18)
    for c in req["cases"]:
        G = mp.mpf(c["G"]); M0 = mp.mpf(c["prim"][0])
        fn = orb_map if c["kind"] == "orb" else pal_map
        names = ORB if c["kind"] == "orb" else PAL
        x0 = [mp.mpf(c["m"])] + [mp.mpf(v) for v in c["el"]]

        def ev(shift):
            x = list(x0)
            for i, s in shift:
                x[i] += s * hstep
            return fn(G, M0, *x)

        base = ev([])
        cart = [float(base[i] + mp.mpf(c["prim"][1 + i])) for i in range(6)]
        plus = [ev([(i, 1)]) for i in range(7)]
        minus = [ev([(i, -1)]) for i in range(7)]
        d1 = {names[i]: [float((plus[i][q] - minus[i][q]) / (2 * hstep)) for q in range(6)] for i in range(7)}
        d2 = {}
        for i in range(7):
            d2[names[i] + "_" + names[i]] = [float((plus[i][q] - 2 * base[q] + minus[i][q]) / (hstep * hstep)) for q in range(6)]
            for j in range(i + 1, 7):
                pp = ev([(i, 1), (j, 1)]); pm = ev([(i, 1), (j, -1)])
                mp_ = ev([(i, -1), (j, 1)]); mm = ev([(i, -1), (j, -1)])
                d2[names[i] + "_" + names[j]] = [float((pp[q] - pm[q] - mp_[q] + mm[q]) / (4 * hstep * hstep)) for q in range(6)]
        out.append({"cart": cart, "d1": d1, "d2": d2})
    json.dump(out, sys.stdout)


if __name__ == "__main__":
    main()
