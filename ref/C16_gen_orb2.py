import sys
VT = ["m","a","e","inc","omega","Omega","f","k","h","lambda","ix","iy"]
ORBP = ["m","a","e","inc","Omega","omega","f"]
ARGS = ["G","m","M","a","e","inc","Om","om","f"]
arg_of = {"m":"m","a":"a","e":"e","inc":"inc","Omega":"Om","omega":"om","f":"f"}
def cname(p,q):
    if VT.index(q) < VT.index(p): p,q=q,p
    return p+"_"+q
mu="G * (m + M)"
V0="o.sqrt (%s / a / (1 - e * e))"%mu
def thm(X,Y):
    name=X+"_"+Y; same=X==Y
    hyps=["(hr : 1 + e * o.cos f ≠ 0)","(he : 1 - e * e ≠ 0)","(ha : a ≠ 0)","(hm : m + M ≠ 0)","(hV0 : %s ≠ 0)"%V0,
          "(hV2 : %s * %s = %s / a / (1 - e * e))"%(V0,V0,mu)]
    rew=[]
    pr=(X,Y)
    if "e" in pr:
        hyps += ["(hE : o.sqrt (1 - e * e) * o.sqrt (1 - e * e) = 1 - e * e)",
                 "(hA : o.sqrt (%s / a) = %s * o.sqrt (1 - e * e))"%(mu,V0)]
        rew.append("hA")
    if "a" in pr and "e" not in pr:
        hyps += ["(hA3 : o.sqrt (a * a * a) ≠ 0)", "(hY : o.sqrt (%s / (1 - e * e)) = %s / a * o.sqrt (a * a * a))"%(mu,V0)]
        rew.append("hY")
    if "m" in pr and "e" not in pr:
        hyps += ["(hTm : o.sqrt (m + M) ≠ 0)", "(hZ : o.sqrt (G / a / (1 - e * e)) = %s / (m + M) * o.sqrt (m + M))"%V0]
        rew.append("hZ")
    def dual(v):
        a=arg_of[v]
        if same and v==X: return "(v12 %s)"%a
        if v==X: return "(v1 %s)"%a
        if v==Y: return "(v2 %s)"%a
        return "(c2 %s)"%a
    args=["(c2 G)", dual("m") if "m" in pr else "(c2 m)", "(c2 M)"]+[dual(v) if v in pr else "(c2 %s)"%arg_of[v] for v in ["a","e","inc","Omega","omega","f"]]
    out=[]
    out.append("theorem deriv2_%s_is_eps (o : DOps K) (sgn : K → K) (%s : K)"%(name," ".join(ARGS)))
    out.append("    "+" ".join(hyps)+" :")
    out.append("    d_%s o %s"%(name," ".join(ARGS)))
    out.append("      = epsP72 (orbMap (lift2 o sgn) %s) := by"%(" ".join(args)))
    out.append("  have h2 : (2:K) ≠ 0 := by norm_num")
    out.append("  deriv2_unfold [d_%s]"%name)
    for r in rew: out.append("  try simp only [%s]"%r)
    out.append("  orb_gen_at")
    out.append("  generalize m + M = T at *")
    out.append("  generalize %s = V0 at *"%"o.sqrt (G * T / a / (1 - e * e))")
    if "e" in pr: out.append("  generalize o.sqrt (1 - e * e) = Eo at *")
    if "a" in pr and "e" not in pr: out.append("  generalize o.sqrt (a * a * a) = A3 at *")
    if "m" in pr and "e" not in pr: out.append("  generalize o.sqrt T = Tm at *")
    out.append("  have he' : (1:K) - e ^ 2 ≠ 0 := by rw [sq]; exact he")
    out.append("  refine ⟨?_, ?_, ?_, ?_, ?_, ?_, ?_⟩")
    out.append("  all_goals try (first | trivial | ring1 | (field_simp; ring1) | (field_simp; done))")
    if "e" in pr:
        out.append("  all_goals (")
        out.append("    have hEo : Eo ≠ 0 := by intro h0; rw [h0] at hE; simp at hE; exact he hE.symm")
        out.append("    rw [← hE] at hV2 ⊢")
        out.append("    have eG : G = V0 * V0 * a * (Eo * Eo) / T := by first | (field_simp at hV2 ⊢; linear_combination -hV2) | (field_simp at hV2 ⊢)")
        out.append("    subst eG")
        if same:
            out.append("    have e2 : e ^ 2 = 1 - Eo ^ 2 := by linear_combination hE")
            out.append("    have e3 : e ^ 3 = e * (1 - Eo ^ 2) := by rw [pow_succ, e2]; ring")
            out.append("    have e4 : e ^ 4 = (1 - Eo ^ 2) ^ 2 := by rw [show e ^ 4 = (e ^ 2) ^ 2 by ring, e2]")
            out.append("    first | trivial | ring1 | (field_simp; ring1) | (field_simp; ring_nf; simp only [e2, e3, e4]; ring1))")
        else:
            out.append("    first | trivial | ring1 | (field_simp; ring1) | (field_simp; done))")
    else:
        out.append("  all_goals (")
        out.append("    have eG : G = V0 * V0 * a * (1 - e * e) / T := by first | (field_simp at hV2 ⊢; linear_combination -hV2) | (field_simp at hV2 ⊢)")
        out.append("    subst eG")
        out.append("    first | trivial | ring1 | (field_simp; ring1) | (field_simp; done))")
    return "\n".join(out)
pairs=[]
for i,X in enumerate(ORBP):
    for Y in ORBP[i:]:
        n=cname(X,Y)
        if n in ("m_m","m_a","a_a"): continue
        pairs.append(tuple(n.split("_")))
only=sys.argv[1:]
print('''import RV.Proofs.VarDeriv
set_option linter.unusedVariables false
set_option linter.unusedSimpArgs false
set_option linter.unusedSectionVars false
set_option linter.unusedTactic false
set_option linter.unreachableTactic false
namespace RV.Var
open RV RV.Gen.C16Deriv
variable {K : Type} [Field K] [CharZero K]

set_option hygiene false in
macro "orb_gen_at" : tactic => `(tactic| (
  generalize o.sin Om = sO at *
  generalize o.cos Om = cO at *
  generalize o.sin om = so at *
  generalize o.cos om = co at *
  generalize o.sin inc = si at *
  generalize o.cos inc = ci at *
  generalize o.sin f = sf at *
  generalize o.cos f = cf at *))
''')
for a,b in pairs:
    if only and (a+"_"+b) not in only: continue
    print("set_option maxHeartbeats 1600000 in"); print(thm(a,b)); print()
print("end RV.Var")
