"""C01 reference solutions, independent of REBOUND: the Newtonian N-body equations (and Hill's equations for the
shearing sheet) written out here and integrated with SciPy's DOP853 at two tolerances; the difference of the two runs is
reported as the error estimate of the reference.  Run under python3-vt.  stdin: JSON list of jobs, stdout: JSON list.

job = {"kind": "nbody", "G": g, "m": [...], "active": n_active, "tp_type": 0|1, "y0": [[x,y,z,vx,vy,vz],...], "times": [t1, ...]}
      {"kind": "hill", "Omega": w, "G": g, "m": [...], "y0": [...], "times": [...]}    (mutual gravity if G != 0)
      {"kind": "nbody+sho", ...nbody..., "sho": {"k": k, "y0": [q, p], "coupled": bool}}   user ODE: q' = p, p' = -k q (coupled: k -> k*r01)
"""
import json, sys
import numpy as np
from scipy.integrate import solve_ivp


def nbody_rhs(G, m, n_active, tp_type, soft=0.0):
    m = np.asarray(m, dtype=float)
    N = len(m)
    src = np.zeros((N, N))          # src[i, j] = 1 if particle j exerts a force on particle i
    for i in range(N):
        for j in range(N):
            if i == j:
                continue
            if j < n_active:
                src[i, j] = 1.0                      # active particles act on everybody
            elif tp_type == 1 and i < n_active:
                src[i, j] = 1.0                      # semi-active test particles act on active ones only
    W = src * m[None, :]

    def f(t, y):
        p = y[:3 * N].reshape(N, 3)
        v = y[3 * N:6 * N]
        d = p[None, :, :] - p[:, None, :]            # d[i, j] = x_j - x_i
        r2 = (d * d).sum(axis=2) + soft * soft       # Plummer softening as in gravity.c
        np.fill_diagonal(r2, 1.0)
        inv3 = r2 ** -1.5
        a = G * (W * inv3)[:, :, None] * d
        return np.concatenate([v, a.sum(axis=1).ravel()])
    return f


def hill_rhs(Om, G, m):
    m = np.asarray(m, dtype=float)
    N = len(m)

    def f(t, y):
        p = y[:3 * N].reshape(N, 3)
        v = y[3 * N:].reshape(N, 3)
        a = np.zeros((N, 3))
        a[:, 0] = 2 * Om * v[:, 1] + 3 * Om * Om * p[:, 0]
        a[:, 1] = -2 * Om * v[:, 0]
        a[:, 2] = -Om * Om * p[:, 2]
        if G != 0:
            d = p[None, :, :] - p[:, None, :]
            r2 = (d * d).sum(axis=2)
            np.fill_diagonal(r2, 1.0)
            inv3 = r2 ** -1.5
            np.fill_diagonal(inv3, 0.0)
            a += G * ((m[None, :] * inv3)[:, :, None] * d).sum(axis=1)
        return np.concatenate([v.ravel(), a.ravel()])
    return f


def solve(job):
    y0 = np.asarray(job["y0"], dtype=float)
    N = len(y0)
    state = np.concatenate([y0[:, :3].ravel(), y0[:, 3:].ravel()])
    if job["kind"] in ("nbody", "nbody+sho"):
        base = nbody_rhs(job["G"], job["m"], job["active"], job["tp_type"], job.get("softening", 0.0))
    else:
        base = hill_rhs(job["Omega"], job["G"], job["m"])
    if job["kind"] == "nbody+sho":
        k, coupled = job["sho"]["k"], job["sho"]["coupled"]
        state = np.concatenate([state, np.asarray(job["sho"]["y0"], dtype=float)])

        def f(t, y):
            d = base(t, y[:6 * N])
            kk = k
            if coupled:
                p = y[:3 * N].reshape(N, 3)
                kk = k * np.sqrt(((p[1] - p[0]) ** 2).sum())
            return np.concatenate([d, [y[6 * N + 1], -kk * y[6 * N]]])
    else:
        f = base
    out = {"states": {}, "err_est": 0.0}
    for t in job["times"]:
        sols = []
        for tol in (3e-14, 3e-13):
            s = solve_ivp(f, (0.0, t), state, method="DOP853", rtol=tol, atol=tol * 1e-2)
            if not s.success:
                raise RuntimeError(s.message)
            sols.append(s.y[:, -1])
        out["states"][repr(t)] = sols[0].tolist()
        out["err_est"] = max(out["err_est"], float(np.max(np.abs(sols[0][:3 * N] - sols[1][:3 * N]))))
    return out


if __name__ == "__main__":
    jobs = json.load(sys.stdin)
    json.dump([solve(j) for j in jobs], sys.stdout)
