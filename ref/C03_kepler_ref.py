#!/usr/bin/env python3-vt
"""C03 reference: two-body propagation by classical elements in 50-digit arithmetic (mpmath).

Run with python3-vt (has mpmath).  stdin: one case per line
    <id> GM x y z vx vy vz dt  X Y Z VX VY VZ  [dx dy dz dvx dvy dvz  DX DY DZ DVX DVY DVZ]
all numbers as 16-hex-digit IEEE doubles ("nan" allowed for the results = the output of the
code under test; the optional 12 numbers are a tangent vector and the tested tangent-map
result: the reference tangent is a central difference of the 100-digit flow, relative step 1e-25).  The doubles are taken as exact inputs.  stdout: one JSON object per line with
the reference state (as doubles), orbit parameters and the relative errors of the tested result
computed in 50-digit arithmetic.

Algorithm (shares no algebra with REBOUND's universal-variable solver): state -> (a, e-vector,
h-vector) -> eccentric / hyperbolic anomaly E0 -> mean anomaly M0 -> M1 = M0 + n dt -> solve
Kepler's equation E - e sin E = M1 (resp. e sinh H - H = M1) by safeguarded Newton to 50 digits ->
position and velocity in the (P, Q) basis of the orbit plane.
"""
import sys, json, struct
from mpmath import mp, mpf, sqrt, sin, cos, sinh, cosh, atan2, asinh, pi, floor, fabs, isfinite

mp.dps = 50


def h2d(s):
    if s == "nan":
        return float("nan")
    return struct.unpack("<d", struct.pack("<Q", int(s, 16)))[0]


def d2h(x):
    if x != x:
        return "nan"
    return "%016x" % struct.unpack("<Q", struct.pack("<d", x))[0]


def dot(a, b):
    return a[0] * b[0] + a[1] * b[1] + a[2] * b[2]


def cross(a, b):
    return (a[1] * b[2] - a[2] * b[1], a[2] * b[0] - a[0] * b[2], a[0] * b[1] - a[1] * b[0])


def norm(a):
    return sqrt(dot(a, a))


def solve_ell(e, M):
    # E - e sin E = M, monotone; bracket [M-e, M+e]
    lo, hi = M - e, M + e
    E = M + e * sin(M)
    if not (lo <= E <= hi):
        E = M
    for _ in range(400):
        f = E - e * sin(E) - M
        if f > 0:
            hi = E
        else:
            lo = E
        d = 1 - e * cos(E)
        En = E - f / d if d != 0 else (lo + hi) / 2
        if not (lo <= En <= hi):
            En = (lo + hi) / 2
        if fabs(En - E) <= mpf(10) ** (-47) * (1 + fabs(En)):
            return En
        E = En
    return E


def solve_hyp(e, M):
    # e sinh H - H = M, monotone
    H = asinh(M / e)
    # bracket: f(H)=e sinh H - H - M ; at asinh(M/e): f = -H (sign opposite to M) -> root beyond
    lo, hi = (H, None) if M >= 0 else (None, H)
    step = 1 + fabs(H)
    # expand
    if M >= 0:
        hi = H + step
        while e * sinh(hi) - hi - M < 0:
            step *= 2
            hi = H + step
    else:
        lo = H - step
        while e * sinh(lo) - lo - M > 0:
            step *= 2
            lo = H - step
    for _ in range(600):
        f = e * sinh(H) - H - M
        if f > 0:
            hi = H
        else:
            lo = H
        d = e * cosh(H) - 1
        Hn = H - f / d if d != 0 else (lo + hi) / 2
        if not (lo <= Hn <= hi):
            Hn = (lo + hi) / 2
        if fabs(Hn - H) <= mpf(10) ** (-47) * (1 + fabs(Hn)):
            return Hn
        H = Hn
    return H


def propagate(GM, x, v, dt):
    """returns dict(x', v', a, e, n, kind)"""
    r0 = norm(x)
    v2 = dot(v, v)
    if GM == 0:
        return dict(x=[x[i] + v[i] * dt for i in range(3)], v=list(v), a=mpf("inf"), e=mpf("inf"), n=mpf(0),
                    kind="line", q=mpf(0))
    alpha = 2 / r0 - v2 / GM          # 1/a
    h = cross(x, v)
    hh = norm(h)
    vxh = cross(v, h)
    ev = tuple(vxh[i] / GM - x[i] / r0 for i in range(3))
    e = norm(ev)
    a = 1 / alpha
    if e == 0:
        Ph = tuple(x[i] / r0 for i in range(3))
    else:
        Ph = tuple(ev[i] / e for i in range(3))
    hhat = tuple(h[i] / hh for i in range(3))
    Qh = cross(hhat, Ph)
    eta = dot(x, v)
    if alpha > 0:
        n = sqrt(GM / a ** 3)
        ecos = 1 - r0 / a
        esin = eta / sqrt(GM * a)
        E0 = atan2(esin, ecos) if e != 0 else mpf(0)
        M0 = E0 - esin
        M1 = M0 + n * dt
        k = floor(M1 / (2 * pi) + mpf(1) / 2)
        Mr = M1 - 2 * pi * k
        E1 = solve_ell(e, Mr)
        b = a * sqrt(1 - e * e)
        X = a * (cos(E1) - e)
        Y = b * sin(E1)
        rn = a * (1 - e * cos(E1))
        fac = sqrt(GM * a) / rn
        VX = -fac * sin(E1)
        VY = fac * sqrt(1 - e * e) * cos(E1)
        kind = "ell"
        q = a * (1 - e)
    else:
        am = -a
        n = sqrt(GM / am ** 3)
        esinh = eta / sqrt(GM * am)
        H0 = asinh(esinh / e)
        M0 = esinh - H0
        M1 = M0 + n * dt
        H1 = solve_hyp(e, M1)
        X = am * (e - cosh(H1))          # at H=0 the body is at +q P
        Y = am * sqrt(e * e - 1) * sinh(H1)
        rn = am * (e * cosh(H1) - 1)
        fac = sqrt(GM * am) / rn
        VX = -fac * sinh(H1)
        VY = fac * sqrt(e * e - 1) * cosh(H1)
        kind = "hyp"
        q = am * (e - 1)
    xn = [X * Ph[i] + Y * Qh[i] for i in range(3)]
    vn = [VX * Ph[i] + VY * Qh[i] for i in range(3)]
    return dict(x=xn, v=vn, a=a, e=e, n=n, kind=kind, q=q)


def main():
    out = sys.stdout
    for line in sys.stdin:
        t = line.split()
        if not t:
            continue
        cid = t[0]
        vals = [h2d(s) for s in t[1:]]
        GM = mpf(vals[0]); x = tuple(mpf(c) for c in vals[1:4]); v = tuple(mpf(c) for c in vals[4:7]); dt = mpf(vals[7])
        res = vals[8:14]
        try:
            R = propagate(GM, x, v, dt)
        except Exception as ex:  # noqa
            out.write(json.dumps({"id": cid, "error": repr(ex)}) + "\n")
            continue
        xr, vr = R["x"], R["v"]
        rn, vn = norm(xr), norm(vr)
        o = {"id": cid, "kind": R["kind"], "ref": [d2h(float(c)) for c in xr + vr]}
        if R["kind"] != "line":
            r0 = norm(x); v2 = dot(v, v)
            beta = 2 * GM / r0 - v2
            kb = (2 * GM / r0 + v2) / fabs(beta)
            n = R["n"]
            o.update(a=float(R["a"]), e=float(R["e"]), q=float(R["q"]), ndt=float(n * fabs(dt)),
                     kbeta=float(kb),
                     amp_x=float(vn / (n * rn)) if rn != 0 else float("inf"),
                     amp_v=float(GM / (rn * rn * n * vn)) if vn != 0 else float("inf"),
                     hyp_s=float(sqrt(fabs(beta)) * fabs(dt) / R["q"]) if R["kind"] == "hyp" else 0.0)
        if len(res) == 6:
            if all(c == c and abs(c) != float("inf") for c in res):
                dx = norm(tuple(mpf(res[i]) - xr[i] for i in range(3)))
                dv = norm(tuple(mpf(res[3 + i]) - vr[i] for i in range(3)))
                o["errx"] = float(dx / rn) if rn != 0 else float(dx)
                o["errv"] = float(dv / vn) if vn != 0 else float(dv)
                o["finite"] = True
            else:
                o["finite"] = False
        if len(vals) >= 26 and R["kind"] != "line":
            d = [mpf(c) for c in vals[14:20]]
            dres = vals[20:26]
            sc = norm(x) / (norm(d[:3]) if norm(d[:3]) != 0 else 1)
            sv = norm(v) / (norm(d[3:]) if norm(d[3:]) != 0 else 1)
            try:
                # the classical-element route loses log10(1/e) digits for near-circular orbits and the
                # difference quotient another 25: work with 100 digits here
                mp.dps = 100
                h = mpf(10) ** (-25) * min(sc, sv)
                Rp = propagate(GM, tuple(x[i] + h * d[i] for i in range(3)), tuple(v[i] + h * d[3 + i] for i in range(3)), dt)
                Rm = propagate(GM, tuple(x[i] - h * d[i] for i in range(3)), tuple(v[i] - h * d[3 + i] for i in range(3)), dt)
                tx = [(Rp["x"][i] - Rm["x"][i]) / (2 * h) for i in range(3)]
                tv = [(Rp["v"][i] - Rm["v"][i]) / (2 * h) for i in range(3)]
                o["tref"] = [d2h(float(c)) for c in tx + tv]
                if all(c == c and abs(c) != float("inf") for c in dres):
                    # natural size of a tangent vector at the end point (pure position or pure velocity
                    # perturbations and tiny steps give components far below it)
                    rel = norm(d[:3]) / norm(x) + (norm(d[3:]) / norm(v) if norm(v) != 0 else 0)
                    ntx, ntv = max(norm(tx), rn * rel), max(norm(tv), vn * rel)
                    ex = norm(tuple(mpf(dres[i]) - tx[i] for i in range(3)))
                    ev = norm(tuple(mpf(dres[3 + i]) - tv[i] for i in range(3)))
                    o["terrx"] = float(ex / ntx) if ntx != 0 else float(ex)
                    o["terrv"] = float(ev / ntv) if ntv != 0 else float(ev)
                    o["tfinite"] = True
                else:
                    o["tfinite"] = False
            except Exception as ex:  # noqa
                o["terror"] = repr(ex)
            finally:
                mp.dps = 50
        out.write(json.dumps(o) + "\n")
    out.flush()


if __name__ == "__main__":
    main()
