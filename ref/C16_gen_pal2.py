import sys
VT = ["m","a","e","inc","omega","Omega","f","k","h","lambda","ix","iy"]
PALP = ["m","a","lambda","h","k","ix","iy"]
ARGS = ["G","m","M","a","lam","k","h","ix","iy","p","q"]
arg_of = {"m":"m","a":"a","lambda":"lam","h":"h","k":"k","ix":"ix","iy":"iy"}
S = "o.sin (lam + p)"; C = "o.cos (lam + p)"
dp1 = {"lambda": ("q / (1 - q)", "-p / (1 - q)"),
       "h": ("1 / (1 - q) * (-%s)" % C, "1 / (1 - q) * (%s - h)" % S),
       "k": ("1 / (1 - q) * %s" % S, "1 / (1 - q) * (%s - k)" % C)}
PQ2 = {"k_k","h_h","lambda_lambda","k_lambda","h_lambda","k_h"}
def cname(p,q):
    if VT.index(q) < VT.index(p): p,q=q,p
    return p+"_"+q
def thm(X,Y):
    name = X+"_"+Y
    same = X==Y
    hyps=[]
    imp = [v for v in (X,Y) if v in dp1]
    hyps.append("(hq : 1 - q ≠ 0)"); hyps.append("(hl : 2 - (1 - o.sqrt (1 - h * h - k * k)) ≠ 0)")
    if any(v in ("h","k") for v in (X,Y)): hyps.append("(hL : o.sqrt (1 - h * h - k * k) ≠ 0)")
    W="4 - ix * ix - iy * iy"
    if any(v in ("ix","iy") for v in (X,Y)):
        hyps += ["(hsgn : sgn (%s) = 1)"%W, "(hiz : o.sqrt (o.fabs (%s)) ≠ 0)"%W]
        if X in ("ix","iy") and Y in ("ix","iy"):
            hyps += ["(habs : o.fabs (%s) = %s)"%(W,W), "(hz2 : o.sqrt (%s) * o.sqrt (%s) = %s)"%(W,W,W)]
    mu="G * (m + M)"
    S1="o.sqrt (%s / a)"%mu
    rew=[]
    if any(v in ("m","a") for v in (X,Y)):
        hyps += ["(ha : a ≠ 0)", "(hm : m + M ≠ 0)", "(hS1 : %s ≠ 0)"%S1, "(hS : %s * %s = %s / a)"%(S1,S1,mu)]
        tbl = {"hS3": ("o.sqrt (%s / (a * a * a))"%mu, "%s / a"%S1),
               "hS5": ("o.sqrt (%s / (a * a * a * a * a))"%mu, "%s / (a * a)"%S1),
               "hSm": ("o.sqrt (G / (a * (m + M)))", "%s / (m + M)"%S1),
               "hSma": ("o.sqrt (G / (a * a * a * (m + M)))", "%s / (a * (m + M))"%S1),
               "hSmm": ("o.sqrt (G / (a * (m + M) * (m + M) * (m + M)))", "%s / ((m + M) * (m + M))"%S1)}
        need = {("a",):["hS3"], ("m",):["hSm"]}
        use=[]
        if name=="a_a": use=["hS3","hS5"]
        elif name=="m_a": use=["hSm","hS3","hSma"]
        elif name=="m_m": use=["hSm","hSmm"]
        elif X=="a" or Y=="a": use=["hS3"]
        elif X=="m" or Y=="m": use=["hSm"]
        for u in use:
            hyps.append("(%s : %s = %s)"%(u,tbl[u][0],tbl[u][1])); rew.append(u)
    def dual(v):
        a=arg_of[v]
        if same and v==X: return "(v12 %s)"%a
        if v==X: return "(v1 %s)"%a
        if v==Y: return "(v2 %s)"%a
        return "(c2 %s)"%a
    args=["(c2 G)"]+[dual(v) if v in (X,Y) else "(c2 %s)"%arg_of[v] for v in ["m"]]+["(c2 M)"]+[dual(v) if v in (X,Y) else "(c2 %s)"%arg_of[v] for v in ["a","lambda","k","h","ix","iy"]]
    dpX = dp1.get(X,("0","0")); dpY = dp1.get(Y,("0","0"))
    if name in PQ2:
        d12p="(pq2_%s o %s).1"%(name," ".join(ARGS)); d12q="(pq2_%s o %s).2"%(name," ".join(ARGS))
    else: d12p=d12q="0"
    if same:
        ph="⟨⟨p, %s⟩, ⟨%s, %s⟩⟩"%(dpX[0],dpX[0],d12p); qh="⟨⟨q, %s⟩, ⟨%s, %s⟩⟩"%(dpX[1],dpX[1],d12q)
    else:
        ph="⟨⟨p, %s⟩, ⟨%s, %s⟩⟩"%(dpX[0],dpY[0],d12p); qh="⟨⟨q, %s⟩, ⟨%s, %s⟩⟩"%(dpX[1],dpY[1],d12q)
    partial = "_partial" if imp else ""
    out=[]
    out.append("theorem deriv2_%s_is_eps%s (o : DOps K) (sgn : K → K) (%s : K)"%(name,partial," ".join(ARGS)))
    out.append("    "+" ".join(hyps)+" :")
    out.append("    d_%s o %s"%(name," ".join(ARGS)))
    out.append("      = epsP72 (palMap (lift2 o sgn) %s\n          %s %s) := by"%(" ".join(args),ph,qh))
    out.append("  have h2 : (2:K) ≠ 0 := by norm_num")
    unf="d_%s"%name + (", pq2_%s"%name if name in PQ2 else "")
    out.append("  deriv2_unfold [%s]"%unf)
    if "hsgn" in " ".join(hyps): out.append("  try rw [hsgn]")
    if "habs" in " ".join(hyps): out.append("  try simp only [habs] at *")
    for r in rew: out.append("  try simp only [%s]"%r)
    out.append("  generalize o.sin (lam + p) = s at *")
    out.append("  generalize o.cos (lam + p) = cc at *")
    out.append("  generalize o.sqrt (1 - h * h - k * k) = L at *")
    if "habs" in " ".join(hyps):
        out.append("  generalize o.sqrt (%s) = iz at *"%W)
    else:
        out.append("  generalize o.sqrt (o.fabs (%s)) = iz at *"%W)
    if "a" in (X,Y) and "m" not in (X,Y):
        out.append("  generalize G * (m + M) = μ at *")
        out.append("  generalize o.sqrt (μ / a) = S1 at *")
    else:
        out.append("  generalize %s = S1 at *"%S1)
    if "m" in (X,Y):
        out.append("  generalize m + M = T at *")
        out.append("  have eG : G = S1 * S1 * a / T := by field_simp at hS ⊢; linear_combination -hS")
        out.append("  subst eG")
    elif "a" in (X,Y):
        out.append("  have eμ : μ = S1 * S1 * a := by field_simp at hS ⊢; linear_combination -hS")
        out.append("  subst eμ")
    if "hz2" in " ".join(hyps):
        out.append("  have eiy : iy * iy = 4 - ix * ix - iz * iz := by linear_combination hz2")
    out.append("  deriv_finish")
    return "\n".join(out)
pairs=[]
for i,X in enumerate(PALP):
    for Y in PALP[i:]:
        n=cname(X,Y); a,b=n.split("_")
        pairs.append((a,b))
only=sys.argv[1:]
print('''import RV.Proofs.VarDeriv
set_option linter.unusedVariables false
set_option linter.unusedSimpArgs false
set_option linter.unusedSectionVars false
set_option linter.unusedTactic false
set_option linter.unreachableTactic false
namespace RV.Var
open RV RV.Gen.C16Deriv
variable {K : Type} [Field K] [CharZero K]
''')
for a,b in pairs:
    if only and (a+"_"+b) not in only: continue
    print(thm(a,b)); print()
print("end RV.Var")
