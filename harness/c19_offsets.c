/* C19: offsets the LD_PRELOAD shim needs, measured by the compiler from the scratch header */
#include <stdio.h>
#include <stddef.h>
#include "rebound.h"
int main(void){
    printf("{\"need_copy\": %zu, \"mutex\": %zu, \"ready\": %zu, \"locked_by_integrate\": %zu, \"server_data\": %zu, \"sizeof_particle\": %zu, \"sizeof_blob\": %zu}\n",
        offsetof(struct reb_server_data, need_copy), offsetof(struct reb_server_data, mutex),
        offsetof(struct reb_server_data, ready), offsetof(struct reb_server_data, mutex_locked_by_integrate),
        offsetof(struct reb_simulation, server_data), sizeof(struct reb_particle), sizeof(struct reb_simulationarchive_blob));
    return 0;
}
