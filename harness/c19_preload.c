/* C19 — LD_PRELOAD shim: logs, from the unmodified librebound, the events of the
 * integration-loop / web-server protocol that RV/Model/Conc.lean models, and injects random
 * delays at those program points.  No source hooks: everything is symbol interposition.
 *
 *   r->server_data              polled at every log append: the first time it is seen non-NULL an `xStart`
 *                               event is logged (the store happened after the previous logged event)
 *   pthread_mutex_lock/unlock   on the mutex of the CURRENT r->server_data only (re-read at every call)
 *   usleep(10)                  the need_copy wait loop of rebound.c:845-847
 *   reb_check_exit, reb_simulation_synchronize, reb_simulation_step,
 *   reb_simulation_save_to_stream
 *                               librebound calls them through its PLT (-fPIC, default
 *                               visibility), so the preloaded definitions win; the real ones are
 *                               taken from the library handle ($C19_LIB, RTLD_NOLOAD)
 *
 * The log is a total order: every append happens under one spin lock.  Lock events are
 * appended after the real lock returned, unlock events before the real unlock is called, so
 * the order of mutex events in the log is the order in which they took effect.  A spin
 * (usleep(10)) is only logged if need_copy still reads 1 under the log lock (see notes/C19.md).
 *
 * API for the driver process (ctypes): c19_register(&r->server_data, offsetof mutex, offsetof need_copy), c19_set_integrator, c19_mark,
 * c19_delays, c19_dump, c19_reset, c19_counts.
 */
#define _GNU_SOURCE
#include <dlfcn.h>
#include <pthread.h>
#include <sched.h>
#include <stdint.h>
#include <stdio.h>
#include <stdlib.h>
#include <string.h>
#include <time.h>
#include <unistd.h>
#include <sys/syscall.h>
#include <sys/stat.h>

enum { E_iEnter, E_iChkBegin, E_iChkSync, E_iChkEnd1, E_iChkEnd0, E_iSpin, E_iLock, E_iStepBegin,
       E_iStepEnd, E_iUnlock, E_iEpiSync, E_iLeave, E_sLock, E_sSerBegin, E_sSerEnd, E_sUnlock, E_xStart, E_xStop, E_sSent, E_sStatic, E_iShotUnlock, E_iShotLock, E_iHbBegin, E_iHbEnd, E_N };
static const char* NAMES[E_N] = {"iEnter", "iChkBegin", "iChkSync", "iChkEnd1", "iChkEnd0", "iSpin", "iLock",
    "iStepBegin", "iStepEnd", "iUnlock", "iEpiSync", "iLeave", "sLock", "sSerBegin", "sSerEnd", "sUnlock", "xStart", "xStop", "sSent", "sStatic", "iShotUnlock", "iShotLock", "iHbBegin", "iHbEnd"};

struct rec { unsigned char code; signed char nc; };

static int (*real_lock)(pthread_mutex_t*);
static int (*real_unlock)(pthread_mutex_t*);
static int (*real_usleep)(useconds_t);
static int (*real_check_exit)(void*, double, double*);
static void (*real_synchronize)(void*);
static void (*real_step)(void*);
static void (*real_save)(void*, char**, size_t*);
static void* lib_handle;
static const char** g_hdr;              /* &reb_server_header, &reb_server_header_png (the pointers live in the library) */
static const char** g_hdr_png;
static size_t (*real_fwrite)(const void*, size_t, size_t, FILE*);

static char* volatile* volatile g_sdp;  /* &r->server_data */
static long g_off_mutex, g_off_nc;
static volatile int g_up;               /* r->server_data has been seen non-NULL */
static volatile long g_itid;            /* integrator thread */
static volatile int g_active;
static volatile int g_loglock;
static struct rec* g_log;
static size_t g_cap, g_n;
static volatile long g_counts[E_N];
static volatile long g_late_spins;      /* usleep(10) whose need_copy had already been cleared */
static volatile long g_foreign_ser;     /* save_to_stream on the integrator thread (ignored) */

static volatile long g_double_close;    /* close(fd) right after fclose() of the stream on that fd, same thread (server.c:454-455) */
static int (*real_fclose)(FILE*);
static int (*real_close)(int);
static __thread int t_last_fclosed = -1;
static __thread int t_is_server;         /* this thread has taken the server mutex as the server */

static unsigned g_prob = 0, g_maxus = 0; /* delay injection: probability per 1000, max microseconds */
static uint64_t g_seed = 1;

static __thread int t_in_chk, t_in_step, t_in_int, t_pro, t_adj, t_in_hb, t_static;
static void (*real_heartbeat)(void*);
static int (*real_stat)(const char*, struct stat*);
static __thread uint64_t t_rng;

static long mytid(void) { return syscall(SYS_gettid); }

static void resolve(void) {
    if (!real_lock) real_lock = dlsym(RTLD_NEXT, "pthread_mutex_lock");
    if (!real_unlock) real_unlock = dlsym(RTLD_NEXT, "pthread_mutex_unlock");
    if (!real_usleep) real_usleep = dlsym(RTLD_NEXT, "usleep");
}
__attribute__((constructor)) static void init(void) { resolve(); }

static void resolve_lib(void) {
    if (lib_handle) return;
    const char* p = getenv("C19_LIB");
    if (!p) { fprintf(stderr, "c19_preload: C19_LIB not set\n"); abort(); }
    void* h = dlopen(p, RTLD_NOW | RTLD_NOLOAD);
    if (!h) { fprintf(stderr, "c19_preload: %s is not loaded\n", p); abort(); }
    real_check_exit = dlsym(h, "reb_check_exit");
    real_synchronize = dlsym(h, "reb_simulation_synchronize");
    real_step = dlsym(h, "reb_simulation_step");
    real_save = dlsym(h, "reb_simulation_save_to_stream");
    real_heartbeat = dlsym(h, "reb_run_heartbeat");
    if (!real_check_exit || !real_synchronize || !real_step || !real_save) {
        fprintf(stderr, "c19_preload: symbol missing in %s\n", p); abort();
    }
    g_hdr = dlsym(h, "reb_server_header");
    g_hdr_png = dlsym(h, "reb_server_header_png");
    lib_handle = h;
}

static void loglock(void) { int n = 0; while (__atomic_exchange_n(&g_loglock, 1, __ATOMIC_ACQUIRE)) { if (++n > 100) { sched_yield(); n = 0; } } }
static void logunlock(void) { __atomic_store_n(&g_loglock, 0, __ATOMIC_RELEASE); }

static char* cur_sd(void) { return g_sdp ? *g_sdp : NULL; }
static int is_srv_mutex(void* m) { char* sd = cur_sd(); return sd && (char*)m == sd + g_off_mutex; }
static int nc_now(void) { char* sd = cur_sd(); return sd ? *(volatile int*)(sd + g_off_nc) : 0; }

static void append_raw(int code, int nc);
static void append_locked(int code, int nc) {
    if (!g_up && code != E_xStart && cur_sd()) { g_up = 1; append_raw(E_xStart, -1); }
    else if (g_up && code != E_xStop && !cur_sd()) { g_up = 0; append_raw(E_xStop, -1); }
    append_raw(code, nc);
}
static void append_raw(int code, int nc) {
    if (g_n == g_cap) {
        g_cap = g_cap ? 2 * g_cap : (1 << 16);
        g_log = realloc(g_log, g_cap * sizeof(struct rec));
        if (!g_log) abort();
    }
    g_log[g_n].code = (unsigned char)code; g_log[g_n].nc = (signed char)nc; g_n++;
    g_counts[code]++;
}
static void append(int code, int nc) { loglock(); append_locked(code, nc); logunlock(); }

static void delay(void) {
    if (!g_prob) return;
    if (!t_rng) t_rng = g_seed * 0x9E3779B97F4A7C15ull ^ (uint64_t)mytid() * 0xBF58476D1CE4E5B9ull;
    t_rng ^= t_rng << 13; t_rng ^= t_rng >> 7; t_rng ^= t_rng << 17;
    if ((t_rng >> 20) % 1000 >= g_prob) return;
    uint64_t us = (t_rng >> 33) % (g_maxus + 1);
    /* mostly short, sometimes long */
    if (((t_rng >> 10) & 7) != 0) us = us / 16;
    struct timespec ts = { (time_t)(us / 1000000), (long)(us % 1000000) * 1000 };
    /* nanosleep is a cancellation point: the injected delay must not give reb_simulation_stop_server's pthread_cancel a
       place to kill the server thread where the library has none (e.g. inside its critical section) */
    int old;
    pthread_setcancelstate(PTHREAD_CANCEL_DISABLE, &old);
    nanosleep(&ts, NULL);
    pthread_setcancelstate(old, NULL);
}

/* ------------------------------------------------------------------ interposed: libc */
int pthread_mutex_lock(pthread_mutex_t* m) {
    if (!real_lock) { resolve(); if (!real_lock) return 0; }
    if (!g_active || !is_srv_mutex(m)) return real_lock(m);
    int isI = mytid() == g_itid;
    delay();
    int rc = real_lock(m);
    if (!isI) t_is_server = 1;
    /* inside a heartbeat the integrator only locks in reb_simulation_output_screenshot (output.c:304) */
    append(isI ? (t_in_hb ? E_iShotLock : E_iLock) : E_sLock, isI ? -1 : nc_now());
    delay();
    return rc;
}

int pthread_mutex_unlock(pthread_mutex_t* m) {
    if (!real_unlock) { resolve(); if (!real_unlock) return 0; }
    if (!g_active || !is_srv_mutex(m)) return real_unlock(m);
    int isI = mytid() == g_itid;
    delay();
    append(isI ? (t_in_hb ? E_iShotUnlock : E_iUnlock) : E_sUnlock, isI ? -1 : nc_now());
    int rc = real_unlock(m);
    delay();
    return rc;
}

int usleep(useconds_t us) {
    if (!real_usleep) resolve();
    if (g_active && us == 10 && t_in_int && !t_in_chk && !t_in_step && mytid() == g_itid && cur_sd()) {
        loglock();
        if (nc_now() == 1) append_locked(E_iSpin, 1); else g_late_spins++;
        logunlock();
        delay();
    }
    return real_usleep(us);
}

/* every response of the server starts with fwrite(reb_server_header, …): logged as sSent (the reply leaves the server) */
size_t fwrite(const void* ptr, size_t size, size_t n, FILE* f) {
    if (!real_fwrite) real_fwrite = dlsym(RTLD_NEXT, "fwrite");
    if (g_active && lib_handle && ptr && ((g_hdr && ptr == (const void*)*g_hdr) || (g_hdr_png && ptr == (const void*)*g_hdr_png))
        && mytid() != g_itid) {
        /* favicon (png header) and "/" (header right after stat("rebound.html")) never touch r: static reply */
        int is_static = (g_hdr_png && ptr == (const void*)*g_hdr_png) || t_static;
        t_static = 0;
        append(is_static ? E_sStatic : E_sSent, -1);
        delay();
    }
    return real_fwrite(ptr, size, n, f);
}

int stat(const char* path, struct stat* st) {
    if (!real_stat) real_stat = dlsym(RTLD_NEXT, "stat");
    int rc = real_stat(path, st);
    if (rc == 0 && g_active && path && !strcmp(path, "rebound.html") && mytid() != g_itid) t_static = 1;   /* server.c:383: route "/" */
    return rc;
}

/* fclose(stream) already closes the descriptor; a following close(fd) of the same number by the same thread closes
 * whatever another thread has opened in between.  Only counted here, nothing is changed. */
int fclose(FILE* f) {
    if (!real_fclose) real_fclose = dlsym(RTLD_NEXT, "fclose");
    int fd = f ? fileno(f) : -1;
    int rc = real_fclose(f);
    t_last_fclosed = fd;
    return rc;
}
int close(int fd) {
    if (!real_close) real_close = dlsym(RTLD_NEXT, "close");
    if (t_is_server && fd >= 0 && fd == t_last_fclosed) { __atomic_fetch_add(&g_double_close, 1, __ATOMIC_RELAXED); }
    t_last_fclosed = -1;
    return real_close(fd);
}

/* ------------------------------------------------------------------ interposed: librebound */
int reb_check_exit(void* r, double tmax, double* last_full_dt) {
    resolve_lib();
    int mine = g_active && t_in_int && mytid() == g_itid;
    if (!mine) return real_check_exit(r, tmax, last_full_dt);
    append(E_iChkBegin, -1);
    t_in_chk = 1; t_pro = 0; t_adj = 0;
    delay();
    int rc = real_check_exit(r, tmax, last_full_dt);
    delay();
    t_in_chk = 0; t_adj = 0;
    append(rc < 0 ? E_iChkEnd1 : E_iChkEnd0, -1);
    return rc;
}

void reb_simulation_synchronize(void* r) {
    resolve_lib();
    /* t_pro: the prologue (rebound.c:805-808) may synchronise before reversing dt; it is one unlocked write in the model */
    int mine = g_active && t_in_int && !t_in_step && !t_pro && mytid() == g_itid;
    if (!mine) { real_synchronize(r); return; }
    /* one unlocked-write region (last-step path of reb_check_exit / epilogue) may synchronise more than once: the model
       event is "the region begins" */
    if (!t_adj) { t_adj = 1; append(t_in_chk ? E_iChkSync : E_iEpiSync, -1); }
    delay();
    real_synchronize(r);
    delay();
}

void reb_simulation_step(void* r) {
    resolve_lib();
    int mine = g_active && t_in_int && mytid() == g_itid;
    if (!mine) { real_step(r); return; }
    append(E_iStepBegin, -1);
    t_in_step = 1;
    delay();
    real_step(r);
    delay();
    t_in_step = 0;
    append(E_iStepEnd, -1);
}

void reb_run_heartbeat(void* r) {
    resolve_lib();
    /* the per-step heartbeat (rebound.c:888); the one in the prologue (836) is part of the model's `pro` */
    int mine = g_active && t_in_int && !t_pro && mytid() == g_itid;
    if (mine) { t_in_hb = 1; append(E_iHbBegin, -1); delay(); }
    real_heartbeat(r);
    if (mine) { delay(); append(E_iHbEnd, -1); t_in_hb = 0; }
}

void reb_simulation_save_to_stream(void* r, char** bufp, size_t* sizep) {
    resolve_lib();
    if (!g_active) { real_save(r, bufp, sizep); return; }
    if (mytid() == g_itid) { g_foreign_ser++; real_save(r, bufp, sizep); return; }
    append(E_sSerBegin, -1);
    delay();
    real_save(r, bufp, sizep);
    delay();
    append(E_sSerEnd, -1);
}

/* ------------------------------------------------------------------ API */
/* sdp = &r->server_data (may still hold NULL: the server can be started later) */
void c19_register(void* sdp, long off_mutex, long off_nc) { g_off_mutex = off_mutex; g_off_nc = off_nc; g_sdp = (char* volatile*)sdp; g_up = 0; g_active = 1; }
void c19_set_integrator(void) { g_itid = mytid(); }
void c19_delays(uint64_t seed, unsigned prob_permille, unsigned max_us) { g_seed = seed ? seed : 1; g_prob = prob_permille; g_maxus = max_us; }
/* code 0: integrate() is about to be called by this thread; code 1: it returned */
void c19_mark(int code) {
    if (code == 0) { t_in_int = 1; t_pro = 1; t_adj = 0; append(E_iEnter, -1); }
    else { append(E_iLeave, -1); t_in_int = 0; }
}
void c19_stop(void) { g_active = 0; }
/* look at r->server_data now (called by the driver right after start/stop_server so that no start or stop is missed) */
void c19_poll(void) {
    if (!g_active) return;
    loglock();
    if (!g_up && cur_sd()) { g_up = 1; append_raw(E_xStart, -1); }
    else if (g_up && !cur_sd()) { g_up = 0; append_raw(E_xStop, -1); }
    logunlock();
}
void c19_reset(void) { loglock(); g_n = 0; memset((void*)g_counts, 0, sizeof(g_counts)); g_late_spins = 0; g_foreign_ser = 0; logunlock(); }
long c19_count(int code) { return code >= 0 && code < E_N ? g_counts[code] : (code == -1 ? g_late_spins : (code == -2 ? g_foreign_ser : g_double_close)); }
long c19_len(void) { return (long)g_n; }
int c19_dump(const char* path) {
    FILE* f = fopen(path, "w");
    if (!f) return -1;
    loglock();
    for (size_t i = 0; i < g_n; i++) {
        if (g_log[i].nc >= 0) fprintf(f, "%s:%d ", NAMES[g_log[i].code], (int)g_log[i].nc);
        else fprintf(f, "%s ", NAMES[g_log[i].code]);
    }
    fprintf(f, "\n");
    logunlock();
    fclose(f);
    return 0;
}
