/* C07 harness: restart from the last snapshot an archive exposes, advance, append (run under strace to
   observe the write pattern).  usage: c07_append <archive> <nsteps> [add]   |   c07_append --fresh <archive>  */
#include <stdio.h>
#include <stdlib.h>
#include <string.h>
#include "rebound.h"
int main(int argc, char** argv){
    if (argc<3) return 2;
    if (strcmp(argv[1],"--fresh")==0){
        struct reb_simulation* r = reb_simulation_create();
        reb_simulation_add_fmt(r, "m", 1.);
        reb_simulation_add_fmt(r, "m a", 1e-3, 1.);
        reb_simulation_add_fmt(r, "m a", 1e-3, 2.3);
        r->integrator = REB_INTEGRATOR_WHFAST; r->dt = 0.01;
        reb_simulation_save_to_file(r, argv[2]);
        reb_simulation_free(r);
        return 0;
    }
    struct reb_simulation* r = reb_simulation_create_from_file(argv[1], -1);
    if (!r) return 3;
    if (argc>3 && strcmp(argv[3],"add")==0){ /* change the size of the delta: one more particle */
        reb_simulation_add_fmt(r, "m a", 1e-4, 3.1 + 0.1*r->N);
    }
    reb_simulation_steps(r, atoi(argv[2]));
    reb_simulation_save_to_file(r, argv[1]);
    reb_simulation_free(r);
    return 0;
}
