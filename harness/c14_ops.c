/* C14 replay harness: runs add/remove/lookup histories through the real C functions.
 * Used (a) under valgrind against the normal scratch build (quick tier) and (b) linked against
 * the ASan+UBSan scratch build (thorough tier).  One answer line per operation:
 *   <rc> <N> <N_active> <N_allocated>
 * Protocol (see rv/c14.py asan_text):
 *   new tree box boundary integrator | add id hash xhex yhex zhex | rm i ks | rmh h ks | get h
 *   sethash i h | setactive k | setnvar k | rmall | integrate nsteps | tupd | addvar | end
 */
#include <stdio.h>
#include <stdlib.h>
#include <string.h>
#include <stdint.h>
#include "rebound.h"

static double h2d(const char* s){
    if (strcmp(s,"nan")==0) return nan("");
    unsigned long long u = strtoull(s, NULL, 16);
    double d; memcpy(&d, &u, 8); return d;
}

int main(void){
    struct reb_simulation* r = NULL;
    char line[4096];
    while (fgets(line, sizeof line, stdin)){
        char op[32]; long long a=0, b=0; char s1[64], s2[64], s3[64];
        int rc = -9;
        if (sscanf(line, "%31s", op)!=1) continue;
        if (!strcmp(op,"end")) break;
        if (!strcmp(op,"new")){
            int tree, box, bnd, integ;
            sscanf(line, "%*s %d %d %d %d", &tree, &box, &bnd, &integ);
            if (r) reb_simulation_free(r);
            r = reb_simulation_create();
            r->save_messages = 1;   /* keep stderr for the sanitizer */
            if (box) reb_simulation_configure_box(r, 16., 1, 1, 1);
            if (bnd) r->boundary = REB_BOUNDARY_OPEN;
            if (tree==1) r->gravity = REB_GRAVITY_TREE;
            if (tree==2) r->collision = REB_COLLISION_TREE;
            if (tree==3) r->collision = REB_COLLISION_LINETREE;
            r->integrator = integ;
            rc = 0;
        }else if (!r){
            continue;
        }else if (!strcmp(op,"add")){
            sscanf(line, "%*s %lld %lld %63s %63s %63s", &a, &b, s1, s2, s3);
            struct reb_particle p = {0};
            p.m = (double)a; p.hash = (uint32_t)b; p.x = h2d(s1); p.y = h2d(s2); p.z = h2d(s3);
            reb_simulation_add(r, p); rc = 0;
        }else if (!strcmp(op,"rm")){
            sscanf(line, "%*s %lld %lld", &a, &b);
            rc = reb_simulation_remove_particle(r, (int)a, (int)b);
        }else if (!strcmp(op,"rmh")){
            sscanf(line, "%*s %lld %lld", &a, &b);
            rc = reb_simulation_remove_particle_by_hash(r, (uint32_t)a, (int)b);
        }else if (!strcmp(op,"get")){
            sscanf(line, "%*s %lld", &a);
            struct reb_particle* p = reb_simulation_particle_by_hash(r, (uint32_t)a);
            rc = p ? (int)(p - r->particles) : -1;
            if (p){ volatile double m = p->m; (void)m; }   /* touch what was returned */
        }else if (!strcmp(op,"sethash")){
            sscanf(line, "%*s %lld %lld", &a, &b);
            if (a>=0 && a<(long long)r->N){ r->particles[a].hash = (uint32_t)b; rc = 0; } else rc = -2;
        }else if (!strcmp(op,"setactive")){
            sscanf(line, "%*s %lld", &a);
            if (a>=-1 && a<=(long long)r->N){ r->N_active = (int)a; rc = 0; } else rc = -2;
        }else if (!strcmp(op,"setnvar")){
            sscanf(line, "%*s %lld", &a); r->N_var = (int)a; rc = 0;
        }else if (!strcmp(op,"integrate")){
            /* integrate <steps>: a few steps with a tiny dt (lets MERCURIUS/TRACE allocate their private arrays) */
            sscanf(line, "%*s %lld", &a);
            r->dt = 1e-6;
            reb_simulation_steps(r, (unsigned int)a); rc = 0;
        }else if (!strcmp(op,"addvar")){
            rc = reb_simulation_add_variation_1st_order(r, -1);
        }else if (!strcmp(op,"tupd")){
            reb_simulation_update_tree(r); rc = 0;
        }else if (!strcmp(op,"rmall")){
            reb_simulation_remove_all_particles(r); rc = 0;
        }
        /* drain messages */
        char buf[4096];
        while (reb_simulation_get_next_message(r, buf)){}
        printf("%d %u %d %u\n", rc, r->N, r->N_active, r->N_allocated);
    }
    if (r) reb_simulation_free(r);
    return 0;
}
