/* C14 replay harness: runs add/remove/lookup histories through the real C functions.
 * Used (a) under valgrind against the normal scratch build (quick tier) and (b) linked against
 * the ASan+UBSan scratch build (thorough tier).  One answer line per operation:
 *   <rc> <N> <N_active> <N_allocated> <number of live particles not found under their own hash> <side-array allocation> <particles added so far from inside the collision callback>
 * Protocol (see rv/c14.py asan_text):
 *   new tree box boundary integrator | add id hash xhex yhex zhex | rm i ks | rmh h ks | get h
 *   sethash i h | setactive k | setnvar k | rmall | integrate nsteps | tupd | addvar |
 *   addo hash m r x y z vx vy vz | set name value | step n | ksprobe n index | ksadd n enc | addfmt hash m a | addplummer n | end
 */
#include <stdio.h>
#include <stdlib.h>
#include <string.h>
#include <stdint.h>
#include <math.h>
#include "rebound.h"

/* collision resolvers that change the particle number from inside a step (the callback runs mid-step: MERCURIUS mode 1,
   TRACE mode 1/3): merge, then add a light fragment far away from everything (hash 900000+k) */
static int n_frag = 0;
static int frag_hit[8] = {0};   /* fragment k took part in a later collision that was resolved (it may have been merged away) */
static void note_frag_hit(struct reb_simulation* const r, struct reb_collision c){
    uint32_t h1 = r->particles[c.p1].hash, h2 = r->particles[c.p2].hash;
    if (h1>=900000 && h1<900008) frag_hit[h1-900000] = 1;
    if (h2>=900000 && h2<900008) frag_hit[h2-900000] = 1;
}
static int resolve_merge_addfrag(struct reb_simulation* const r, struct reb_collision c){
    note_frag_hit(r, c);
    int ret = reb_collision_resolve_merge(r, c);
    if (ret && n_frag < 6){
        struct reb_particle f = {0};
        f.m = 1e-9; f.r = 1e-6; f.x = 9.0 + 0.37*n_frag; f.y = -7.0 - 0.21*n_frag; f.z = 0.3; f.vx = 0.05; f.vy = 0.2;
        f.hash = 900000 + n_frag;
        n_frag++;
        reb_simulation_add(r, f);
    }
    return ret;
}
/* add a fragment first (the array may move: the indices in c stay valid), then merge */
static int resolve_addfrag_merge(struct reb_simulation* const r, struct reb_collision c){
    if (r->particles[c.p1].last_collision==r->t || r->particles[c.p2].last_collision==r->t) return 0;
    note_frag_hit(r, c);
    if (n_frag < 6){
        struct reb_particle f = {0};
        f.m = 1e-9; f.r = 1e-6; f.x = -9.0 - 0.37*n_frag; f.y = 7.0 + 0.21*n_frag; f.z = -0.3; f.vx = -0.05; f.vy = -0.2;
        f.hash = 900000 + n_frag;
        n_frag++;
        reb_simulation_add(r, f);
    }
    return reb_collision_resolve_merge(r, c);
}

static double h2d(const char* s){
    if (strcmp(s,"nan")==0) return nan("");
    unsigned long long u = strtoull(s, NULL, 16);
    double d; memcpy(&d, &u, 8); return d;
}

int main(void){
    struct reb_simulation* r = NULL;
    char line[4096];
    while (fgets(line, sizeof line, stdin)){
        char op[32]; long long a=0, b=0; char s1[64], s2[64], s3[64];
        int rc = -9;
        if (sscanf(line, "%31s", op)!=1) continue;
        if (!strcmp(op,"end")) break;
        if (!strcmp(op,"new")){
            int tree, box, bnd, integ;
            sscanf(line, "%*s %d %d %d %d", &tree, &box, &bnd, &integ);
            if (r) reb_simulation_free(r);
            r = reb_simulation_create();
            r->save_messages = 1;   /* keep stderr for the sanitizer */
            n_frag = 0; for (int k=0;k<8;k++) frag_hit[k] = 0;
            if (box) reb_simulation_configure_box(r, 16., 1, 1, 1);
            if (bnd) r->boundary = REB_BOUNDARY_OPEN;
            if (tree==1) r->gravity = REB_GRAVITY_TREE;
            if (tree==2) r->collision = REB_COLLISION_TREE;
            if (tree==3) r->collision = REB_COLLISION_LINETREE;
            r->integrator = integ;
            rc = 0;
        }else if (!r){
            continue;
        }else if (!strcmp(op,"add")){
            sscanf(line, "%*s %lld %lld %63s %63s %63s", &a, &b, s1, s2, s3);
            struct reb_particle p = {0};
            p.m = (double)a; p.hash = (uint32_t)b; p.x = h2d(s1); p.y = h2d(s2); p.z = h2d(s3);
            reb_simulation_add(r, p); rc = 0;
        }else if (!strcmp(op,"addo")){
            /* addo hash m r x y z vx vy vz : a physically sensible particle (decimal doubles) */
            struct reb_particle p = {0};
            double m_, r_, x_, y_, z_, vx_, vy_, vz_;
            sscanf(line, "%*s %lld %lf %lf %lf %lf %lf %lf %lf %lf", &a, &m_, &r_, &x_, &y_, &z_, &vx_, &vy_, &vz_);
            p.hash = (uint32_t)a; p.m = m_; p.r = r_; p.x = x_; p.y = y_; p.z = z_; p.vx = vx_; p.vy = vy_; p.vz = vz_;
            reb_simulation_add(r, p); rc = 0;
        }else if (!strcmp(op,"set")){
            char name[32]; double val = 0;
            sscanf(line, "%*s %31s %lf", name, &val);
            rc = 0;
            if (!strcmp(name,"dt")) r->dt = val;
            else if (!strcmp(name,"nactive")) r->N_active = (int)val;
            else if (!strcmp(name,"tptype")) r->testparticle_type = (int)val;
            else if (!strcmp(name,"safemode")){ r->ri_whfast.safe_mode = (int)val; r->ri_mercurius.safe_mode = (int)val; r->ri_saba.safe_mode = (int)val; r->ri_eos.safe_mode = (int)val; }
            else if (!strcmp(name,"coords")) r->ri_whfast.coordinates = (int)val;
            else if (!strcmp(name,"collision")) r->collision = (int)val;
            else if (!strcmp(name,"merge")) r->collision_resolve = reb_collision_resolve_merge;
            else if (!strcmp(name,"hardsphere")) r->collision_resolve = reb_collision_resolve_hardsphere;
            else if (!strcmp(name,"merge_addfrag")){ r->collision_resolve = resolve_merge_addfrag; n_frag = 0; for (int k=0;k<8;k++) frag_hit[k] = 0; }
            else if (!strcmp(name,"addfrag_merge")){ r->collision_resolve = resolve_addfrag_merge; n_frag = 0; for (int k=0;k<8;k++) frag_hit[k] = 0; }
            else if (!strcmp(name,"keepsorted")) r->collision_resolve_keep_sorted = (int)val;
            else if (!strcmp(name,"trackenergy")) r->track_energy_offset = (int)val;
            else if (!strcmp(name,"box")) reb_simulation_configure_box(r, val, 1, 1, 1);
            else if (!strcmp(name,"boundary")) r->boundary = (int)val;
            else if (!strcmp(name,"gravity")) r->gravity = (int)val;
            else if (!strcmp(name,"integrator")) r->integrator = (int)val;
            else rc = -3;
        }else if (!strcmp(op,"step")){
            sscanf(line, "%*s %lld", &a);
            reb_simulation_steps(r, (unsigned int)a); rc = 0;
        }else if (!strcmp(op,"rm")){
            sscanf(line, "%*s %lld %lld", &a, &b);
            rc = reb_simulation_remove_particle(r, (int)a, (int)b);
        }else if (!strcmp(op,"rmh")){
            sscanf(line, "%*s %lld %lld", &a, &b);
            rc = reb_simulation_remove_particle_by_hash(r, (uint32_t)a, (int)b);
        }else if (!strcmp(op,"get")){
            sscanf(line, "%*s %lld", &a);
            struct reb_particle* p = reb_simulation_particle_by_hash(r, (uint32_t)a);
            rc = p ? (int)(p - r->particles) : -1;
            if (p){ volatile double m = p->m; (void)m; }   /* touch what was returned */
        }else if (!strcmp(op,"sethash")){
            sscanf(line, "%*s %lld %lld", &a, &b);
            if (a>=0 && a<(long long)r->N){ r->particles[a].hash = (uint32_t)b; rc = 0; } else rc = -2;
        }else if (!strcmp(op,"setactive")){
            sscanf(line, "%*s %lld", &a);
            if (a>=-1 && a<=(long long)r->N){ r->N_active = (int)a; rc = 0; } else rc = -2;
        }else if (!strcmp(op,"setnvar")){
            sscanf(line, "%*s %lld", &a); r->N_var = (int)a; rc = 0;
        }else if (!strcmp(op,"integrate")){
            /* integrate <steps>: a few steps with a tiny dt (lets MERCURIUS/TRACE allocate their private arrays) */
            sscanf(line, "%*s %lld", &a);
            r->dt = 1e-6;
            reb_simulation_steps(r, (unsigned int)a); rc = 0;
        }else if (!strcmp(op,"addfmt")){
            /* addfmt hash m a : the variadic public entry point (orbit around particle 0 / the centre of mass) */
            double m_, a_;
            sscanf(line, "%*s %lld %lf %lf", &a, &m_, &a_);
            if (r->N==0) reb_simulation_add_fmt(r, "m hash", m_, (uint32_t)a);
            else reb_simulation_add_fmt(r, "m a hash", m_, a_, (uint32_t)a);
            rc = 0;
        }else if (!strcmp(op,"addplummer")){
            sscanf(line, "%*s %lld", &a);
            reb_simulation_add_plummer(r, (int)a, 1., 1.); rc = 0;
        }else if (!strcmp(op,"ksadd")){
            /* ksadd n enc : TRACE mid-step state with current_Ks[k] = k+2 and the first `enc` particles in the encounter map,
               add one particle, print the whole (n+1)x(n+1) matrix the real reb_simulation_add leaves (cells it never wrote are
               pre-filled with -7 by over-allocating and filling before the call) */
            sscanf(line, "%*s %lld %lld", &a, &b);
            struct reb_simulation* q = reb_simulation_create();
            q->save_messages = 1;
            q->integrator = REB_INTEGRATOR_TRACE;
            int n = (int)a, enc = (int)b;
            for (int i=0;i<n;i++){ struct reb_particle p = {0}; p.m = i?1e-3:1.; p.x = i; p.vy = i?1./sqrt((double)i):0.; reb_simulation_add(q, p); }
            q->ri_trace.mode = 1;
            q->ri_trace.N_allocated = n+1;      /* large enough: no realloc inside add, our pre-fill stays visible */
            q->ri_trace.current_Ks = malloc(sizeof(int)*(n+1)*(n+1));
            q->ri_trace.encounter_map = malloc(sizeof(int)*(n+1));
            q->ri_trace.particles_backup = malloc(sizeof(struct reb_particle)*(n+1));
            q->ri_trace.particles_backup_kepler = malloc(sizeof(struct reb_particle)*(n+1));
            for (int k=0;k<(n+1)*(n+1);k++) q->ri_trace.current_Ks[k] = (k<n*n) ? k+2 : -7;
            for (int k=0;k<n+1;k++) q->ri_trace.encounter_map[k] = k;
            q->ri_trace.encounter_N = enc; q->ri_trace.encounter_N_active = enc;
            struct reb_particle p = {0}; p.m = 1e-6; p.x = n+3.; p.vy = 0.1;
            reb_simulation_add(q, p);
            printf("A %u %d", q->N, q->ri_trace.encounter_N);
            for (int k=0;k<(n+1)*(n+1);k++) printf(" %d", q->ri_trace.current_Ks[k]);
            printf("\n");
            q->ri_trace.mode = 0;
            reb_simulation_free(q);
            continue;
        }else if (!strcmp(op,"ksprobe")){
            /* ksprobe n index: TRACE mid-step state with current_Ks[k] = k, remove particle `index`, print the leading
               (n-1)x(n-1) block of the matrix as the real reb_simulation_remove_particle leaves it */
            sscanf(line, "%*s %lld %lld", &a, &b);
            struct reb_simulation* q = reb_simulation_create();
            q->save_messages = 1;
            q->integrator = REB_INTEGRATOR_TRACE;
            int n = (int)a;
            for (int i=0;i<n;i++){ struct reb_particle p = {0}; p.m = i?1e-3:1.; p.x = i; p.vy = i?1./sqrt((double)i):0.; reb_simulation_add(q, p); }
            q->ri_trace.mode = 1;
            q->ri_trace.N_allocated = n;
            q->ri_trace.current_Ks = malloc(sizeof(int)*n*n);
            q->ri_trace.encounter_map = malloc(sizeof(int)*n);
            for (int k=0;k<n*n;k++) q->ri_trace.current_Ks[k] = k;
            for (int k=0;k<n;k++) q->ri_trace.encounter_map[k] = k;
            q->ri_trace.encounter_N = n; q->ri_trace.encounter_N_active = n;
            int rr = reb_simulation_remove_particle(q, (int)b, 1);
            printf("K %d %u", rr, q->N);
            for (int k=0;k<(n-1)*(n-1);k++) printf(" %d", q->ri_trace.current_Ks[k]);
            printf("\n");
            q->ri_trace.mode = 0;
            reb_simulation_free(q);
            continue;
        }else if (!strcmp(op,"addvar")){
            rc = reb_simulation_add_variation_1st_order(r, -1);
        }else if (!strcmp(op,"tupd")){
            reb_simulation_update_tree(r); rc = 0;
        }else if (!strcmp(op,"rmall")){
            reb_simulation_remove_all_particles(r); rc = 0;
        }
        /* drain messages */
        char buf[4096];
        while (reb_simulation_get_next_message(r, buf)){}
        /* lookup consistency on the spot: every live particle with a non-zero hash is found under its hash, and what is
           found carries the hash and lies inside the array */
        int bad = 0;
        for (unsigned int i=0; i<r->N; i++){
            uint32_t h = r->particles[i].hash;
            if (h==0) continue;
            struct reb_particle* q = reb_simulation_particle_by_hash(r, h);
            if (q==NULL || q->hash!=h || q<r->particles || q>=r->particles+r->N) bad++;
        }
        /* the per-particle side array of the integrator in use: how many particles it is allocated for (-1: none) */
        long side = -1;
        switch (r->integrator){
            case REB_INTEGRATOR_WHFAST: case REB_INTEGRATOR_SABA: side = r->ri_whfast.N_allocated; break;
            case REB_INTEGRATOR_JANUS: side = r->ri_janus.N_allocated; break;
            case REB_INTEGRATOR_MERCURIUS: side = r->ri_mercurius.N_allocated_dcrit; break;
            case REB_INTEGRATOR_TRACE: side = r->ri_trace.N_allocated; break;
            case REB_INTEGRATOR_IAS15: side = r->ri_ias15.N_allocated/3; break;
            case REB_INTEGRATOR_BS: side = r->ri_bs.nbody_ode ? (long)(r->ri_bs.nbody_ode->length/6) : 0; break;
            default: break;
        }
        int nhit = 0; for (int k=0;k<8;k++) nhit += frag_hit[k];
        printf("%d %u %d %u %d %ld %d %d\n", rc, r->N, r->N_active, r->N_allocated, bad, side, n_frag, nhit);
    }
    if (r) reb_simulation_free(r);
    return 0;
}
