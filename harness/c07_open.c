/* C07 harness: open a (possibly damaged) archive with the public C API exactly as a client would,
   print what it exposes, compare every exposed snapshot with the same snapshot of a reference archive.

   one-shot:  c07_open <image> [<reference>]
   batch:     c07_open --batch        (stdin: one "<image> <reference|-> [mode]" per line; each image is opened in a
                                       forked child; after the child's lines the parent prints "status <n>",
                                       n = exit code, or -signal)
   child output:  open null | open error | open ok nblobs=<n>
                  blob <i> off=<offset> t=<16 hex> load=<ok|null> same=<1|0|-1|2>   (2: reference differs from a second load of itself, comparison unusable)
                  done
   The exit status / terminating signal is part of the output. */
#include <stdio.h>
#include <stdlib.h>
#include <string.h>
#include <stdint.h>
#include <unistd.h>
#include <sys/wait.h>
#include "rebound.h"

/* other public C entry points, same image:
     mode 1  reb_simulationarchive_create_from_file_with_messages on a caller-owned (zeroed) handle  (what Python uses)
     mode 2  reb_simulationarchive_init_from_buffer_with_messages on the file contents
     mode 3  reb_simulation_create_from_file(img, -1)
     mode 4  reb_simulation_create_from_file(img,-1), then reb_simulation_copy and reb_simulation_diff_char(sim, copy)
     mode 5  reb_simulationarchive_create_from_file_with_messages twice, the second time with the first handle as sa_index
   output:  entry <mode> warnings=<w> nblobs=<n> inf=<0|1>   |   entry 3 sim=<null|ok> t=<hex>
            entry 4 sim=<null|ok> t=<hex> copy=<null|ok> copy_t=<hex> difflen=<n> */
static int other(const char* img, int mode){
    enum reb_simulation_binary_error_codes w = REB_SIMULATION_BINARY_WARNING_NONE;
    if (mode==3){
        struct reb_simulation* r = reb_simulation_create_from_file((char*)img, -1);
        if (!r){ printf("entry 3 sim=null t=0\ndone\n"); return 0; }
        uint64_t tb; memcpy(&tb,&(r->t),8);
        printf("entry 3 sim=ok t=%016llx\n",(unsigned long long)tb);
        fflush(stdout);
        reb_simulation_free(r);
        printf("done\n");
        return 0;
    }
    if (mode==4){
        struct reb_simulation* r = reb_simulation_create_from_file((char*)img, -1);
        if (!r){ printf("entry 4 sim=null t=0 copy=null copy_t=0 difflen=0\ndone\n"); return 0; }
        uint64_t tb; memcpy(&tb,&(r->t),8);
        struct reb_simulation* cp = reb_simulation_copy(r);
        uint64_t tc = 0; long dl = -1;
        if (cp){
            memcpy(&tc,&(cp->t),8);
            char* txt = reb_simulation_diff_char(r, cp);
            if (txt){ dl = (long)strlen(txt); free(txt); }
        }
        printf("entry 4 sim=ok t=%016llx copy=%s copy_t=%016llx difflen=%ld\n",(unsigned long long)tb, cp?"ok":"null",(unsigned long long)tc, dl);
        fflush(stdout);
        if (cp) reb_simulation_free(cp);
        reb_simulation_free(r);
        printf("done\n");
        return 0;
    }
    struct reb_simulationarchive* sa = calloc(1,sizeof(struct reb_simulationarchive));
    struct reb_simulationarchive* sa0 = NULL;
    char* buf = NULL;
    if (mode==5){
        sa0 = calloc(1,sizeof(struct reb_simulationarchive));
        reb_simulationarchive_create_from_file_with_messages(sa0, img, NULL, &w);
        if (!(w & (REB_SIMULATION_BINARY_ERROR_NOFILE|REB_SIMULATION_BINARY_ERROR_SEEK|REB_SIMULATION_BINARY_ERROR_OLD))){
            w = REB_SIMULATION_BINARY_WARNING_NONE;
            reb_simulationarchive_create_from_file_with_messages(sa, img, sa0, &w);
        }
    }else if (mode==1){
        reb_simulationarchive_create_from_file_with_messages(sa, img, NULL, &w);
    }else{
        FILE* f = fopen(img,"rb"); if (!f) return 3;
        fseek(f,0,SEEK_END); long n = ftell(f); fseek(f,0,SEEK_SET);
        buf = malloc(n>0?n:1); if (n>0 && fread(buf,1,n,f)!=(size_t)n) return 3; fclose(f);
        reb_simulationarchive_init_from_buffer_with_messages(sa, buf, n, NULL, &w);
    }
    int err = (w & (REB_SIMULATION_BINARY_ERROR_NOFILE|REB_SIMULATION_BINARY_ERROR_SEEK|REB_SIMULATION_BINARY_ERROR_OLD)) != 0;
    printf("entry %d warnings=%d nblobs=%lld inf=%d\n", mode, (int)w, err?0LL:(long long)sa->nblobs, sa->inf!=NULL);
    fflush(stdout);
    if (!err){
        for (int64_t i=0;i<sa->nblobs;i++){
            struct reb_simulation* r = reb_simulation_create_from_simulationarchive(sa,i);
            printf("load %lld %s\n",(long long)i, r?"ok":"null");
            if (r) reb_simulation_free(r);
        }
    }
    reb_simulationarchive_free(sa);   /* the caller owns the handle in every case */
    if (sa0) reb_simulationarchive_free(sa0);
    free(buf);
    printf("done\n");
    return 0;
}

static int one(const char* img, const char* refname){
    /* reference first, so that a handle freed by the library is not silently re-used for it */
    struct reb_simulationarchive* ref = NULL;
    if (refname && strcmp(refname,"-")!=0) ref = reb_simulationarchive_create_from_file(refname);
    struct reb_simulationarchive* sa = reb_simulationarchive_create_from_file(img);
    if (sa==NULL){
        printf("open null\ndone\n");
        return 0;
    }
    if (sa->inf==NULL){ /* an error was reported through the message system; the client releases the handle */
        printf("open error\n");
        fflush(stdout);
        reb_simulationarchive_free(sa);
        printf("done\n");
        return 0;
    }
    printf("open ok nblobs=%lld\n",(long long)sa->nblobs);
    fflush(stdout);
    for (int64_t i=0;i<sa->nblobs;i++){
        uint64_t tb; memcpy(&tb,&(sa->t[i]),8);
        struct reb_simulation* r = reb_simulation_create_from_simulationarchive(sa,i);
        int same = -1;
        if (r && ref && i<ref->nblobs){
            struct reb_simulation* q = reb_simulation_create_from_simulationarchive(ref,i);
            if (q){
                same = (reb_simulation_diff(r,q,2)==0);
                if (!same){ /* control: is the reference equal to a second load of itself? (it is not when a
                               variational configuration embeds the owner's address: outside this property) */
                    struct reb_simulation* q2 = reb_simulation_create_from_simulationarchive(ref,i);
                    if (q2){ if (reb_simulation_diff(q,q2,2)!=0) same = 2; reb_simulation_free(q2); }
                }
                reb_simulation_free(q);
            }
        }
        printf("blob %lld off=%llu t=%016llx load=%s same=%d\n",(long long)i,(unsigned long long)sa->offset[i],(unsigned long long)tb, r?"ok":"null", same);
        fflush(stdout);
        if (r) reb_simulation_free(r);
    }
    if (ref) reb_simulationarchive_free(ref);
    reb_simulationarchive_free(sa);
    printf("done\n");
    return 0;
}

int main(int argc, char** argv){
    if (argc<2) return 2;
    if (strcmp(argv[1],"--batch")!=0) return one(argv[1], argc>2?argv[2]:NULL);
    char line[4096];
    while (fgets(line,sizeof(line),stdin)){
        char a[2048], b[2048]; int mode = 0;
        if (sscanf(line,"%2047s %2047s %d",a,b,&mode)<2) continue;
        fflush(stdout);
        pid_t pid = fork();
        if (pid==0){
            alarm(20);
            int rc = mode ? other(a,mode) : one(a,b);
            fflush(stdout);
            _exit(rc);
        }
        int st=0; waitpid(pid,&st,0);
        if (WIFSIGNALED(st)) printf("status %d\n",-WTERMSIG(st)); else printf("status %d\n",WEXITSTATUS(st));
        fflush(stdout);
    }
    return 0;
}
