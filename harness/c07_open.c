/* C07 harness: open a (possibly damaged) archive with the public C API exactly as a client would,
   print what it exposes, compare every exposed snapshot with the same snapshot of a reference archive.

   one-shot:  c07_open <image> [<reference>]
   batch:     c07_open --batch        (stdin: one "<image> <reference|->" per line; each image is opened in a
                                       forked child; after the child's lines the parent prints "status <n>",
                                       n = exit code, or -signal)
   child output:  open null | open error | open ok nblobs=<n>
                  blob <i> off=<offset> t=<16 hex> load=<ok|null> same=<1|0|-1|2>   (2: reference differs from a second load of itself, comparison unusable)
                  done
   The exit status / terminating signal is part of the output. */
#include <stdio.h>
#include <stdlib.h>
#include <string.h>
#include <stdint.h>
#include <unistd.h>
#include <sys/wait.h>
#include "rebound.h"

static int one(const char* img, const char* refname){
    /* reference first, so that a handle freed by the library is not silently re-used for it */
    struct reb_simulationarchive* ref = NULL;
    if (refname && strcmp(refname,"-")!=0) ref = reb_simulationarchive_create_from_file(refname);
    struct reb_simulationarchive* sa = reb_simulationarchive_create_from_file(img);
    if (sa==NULL){
        printf("open null\ndone\n");
        return 0;
    }
    if (sa->inf==NULL){ /* an error was reported through the message system; the client releases the handle */
        printf("open error\n");
        fflush(stdout);
        reb_simulationarchive_free(sa);
        printf("done\n");
        return 0;
    }
    printf("open ok nblobs=%lld\n",(long long)sa->nblobs);
    fflush(stdout);
    for (int64_t i=0;i<sa->nblobs;i++){
        uint64_t tb; memcpy(&tb,&(sa->t[i]),8);
        struct reb_simulation* r = reb_simulation_create_from_simulationarchive(sa,i);
        int same = -1;
        if (r && ref && i<ref->nblobs){
            struct reb_simulation* q = reb_simulation_create_from_simulationarchive(ref,i);
            if (q){
                same = (reb_simulation_diff(r,q,2)==0);
                if (!same){ /* control: is the reference equal to a second load of itself? (it is not when a
                               variational configuration embeds the owner's address: outside this property) */
                    struct reb_simulation* q2 = reb_simulation_create_from_simulationarchive(ref,i);
                    if (q2){ if (reb_simulation_diff(q,q2,2)!=0) same = 2; reb_simulation_free(q2); }
                }
                reb_simulation_free(q);
            }
        }
        printf("blob %lld off=%llu t=%016llx load=%s same=%d\n",(long long)i,(unsigned long long)sa->offset[i],(unsigned long long)tb, r?"ok":"null", same);
        fflush(stdout);
        if (r) reb_simulation_free(r);
    }
    if (ref) reb_simulationarchive_free(ref);
    reb_simulationarchive_free(sa);
    printf("done\n");
    return 0;
}

int main(int argc, char** argv){
    if (argc<2) return 2;
    if (strcmp(argv[1],"--batch")!=0) return one(argv[1], argc>2?argv[2]:NULL);
    char line[4096];
    while (fgets(line,sizeof(line),stdin)){
        char a[2048], b[2048];
        if (sscanf(line,"%2047s %2047s",a,b)!=2) continue;
        fflush(stdout);
        pid_t pid = fork();
        if (pid==0){
            alarm(20);
            int rc = one(a,b);
            fflush(stdout);
            _exit(rc);
        }
        int st=0; waitpid(pid,&st,0);
        if (WIFSIGNALED(st)) printf("status %d\n",-WTERMSIG(st)); else printf("status %d\n",WEXITSTATUS(st));
        fflush(stdout);
    }
    return 0;
}
