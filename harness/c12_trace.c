/* LD_PRELOAD shim: records (routine, N, N_active) of every call the library makes to a
 * reb_particles_transform_* routine (all internal calls go through the PLT, so they are
 * interposable), then forwards to the real routine.  Used by the C12 search to check that
 * the call sites of the integrators hand the same particle split to a transformation and
 * to its inverse. */
#define _GNU_SOURCE
#include <dlfcn.h>
#include <stdio.h>
#include <stdlib.h>
#include <string.h>
static void* H = NULL;
#define MAXLOG 65536
static char logbuf[MAXLOG];
static size_t loglen = 0;
static void* real(const char* n){
    if (!H){ H = dlopen(getenv("RBV_LIB"), RTLD_NOLOAD|RTLD_LAZY); }
    if (!H){ fprintf(stderr,"c12_trace: cannot find %s\n", getenv("RBV_LIB")); abort(); }
    void* f = dlsym(H, n);
    if (!f){ fprintf(stderr,"c12_trace: no symbol %s\n", n); abort(); }
    return f;
}
static void rec(const char* n, unsigned N, unsigned Na){
    int k = snprintf(logbuf+loglen, MAXLOG-loglen, "%s %u %u\n", n+24, N, Na); /* skip "reb_particles_transform_" */
    if (k>0 && loglen+k < MAXLOG) loglen += k;
}
void rbv_trace_reset(void){ loglen = 0; logbuf[0] = 0; }
const char* rbv_trace_get(void){ logbuf[loglen] = 0; return logbuf; }
#define W3(name) void name(void* a, void* b, void* c, unsigned N, unsigned Na){ \
    static void (*f)(void*,void*,void*,unsigned,unsigned) = NULL; if(!f) f = real(#name); rec(#name,N,Na); f(a,b,c,N,Na); }
#define W2(name) void name(void* a, void* b, unsigned N, unsigned Na){ \
    static void (*f)(void*,void*,unsigned,unsigned) = NULL; if(!f) f = real(#name); rec(#name,N,Na); f(a,b,N,Na); }
W3(reb_particles_transform_inertial_to_jacobi_posvel)
W3(reb_particles_transform_inertial_to_jacobi_posvelacc)
W3(reb_particles_transform_inertial_to_jacobi_acc)
W3(reb_particles_transform_jacobi_to_inertial_posvel)
W3(reb_particles_transform_jacobi_to_inertial_pos)
W3(reb_particles_transform_jacobi_to_inertial_acc)
W2(reb_particles_transform_inertial_to_whds_posvel)
W2(reb_particles_transform_whds_to_inertial_pos)
W2(reb_particles_transform_whds_to_inertial_posvel)
W2(reb_particles_transform_inertial_to_democraticheliocentric_posvel)
W2(reb_particles_transform_democraticheliocentric_to_inertial_pos)
W2(reb_particles_transform_democraticheliocentric_to_inertial_posvel)
W2(reb_particles_transform_barycentric_to_inertial_pos)
W2(reb_particles_transform_barycentric_to_inertial_acc)
W2(reb_particles_transform_barycentric_to_inertial_posvel)
W2(reb_particles_transform_inertial_to_barycentric_posvel)
