/* C15: read-only canonical pre-order dump of sim->tree_root, compiled against the scratch
 * copy of the headers (rebound.h, tree.h) so that a layout change of struct reb_treecell
 * or struct reb_particle is followed automatically.
 *   D[8*k..]  : x y z w m mx my mz
 *   I[8*k..]  : rootbox depth octant pt mask back remote nchild
 * back: leaf -> 1 if 0<=pt<N and particles[pt].c == cell, else 0; inner node -> -1.
 * returns the number of cells, -1 if cap is too small, -2 if depth > 4000 (cycle). */
#include <stddef.h>
#include <math.h>
#include "rebound.h"
#include "tree.h"

static int walk(struct reb_simulation* r, struct reb_treecell* n, int ri, int depth, int oct,
                double* D, int* I, int cap, int* cnt){
    if (depth > 4000) return -2;
    if (*cnt >= cap) return -1;
    int k = (*cnt)++;
    D[8*k+0] = n->x; D[8*k+1] = n->y; D[8*k+2] = n->z; D[8*k+3] = n->w;
    D[8*k+4] = n->m; D[8*k+5] = n->mx; D[8*k+6] = n->my; D[8*k+7] = n->mz;
    int mask = 0, nchild = 0;
    for (int o=0;o<8;o++){ if (n->oct[o]) { mask |= 1<<o; nchild++; } }
    I[8*k+0] = ri; I[8*k+1] = depth; I[8*k+2] = oct; I[8*k+3] = n->pt; I[8*k+4] = mask;
    if (n->pt >= 0){
        I[8*k+5] = (n->pt < (int)r->N && r->particles[n->pt].c == n) ? 1 : 0;
    }else{
        I[8*k+5] = -1;
    }
    I[8*k+6] = n->remote; I[8*k+7] = nchild;
    if (n->pt < 0){
        for (int o=0;o<8;o++){
            if (n->oct[o]){
                int rc = walk(r, n->oct[o], ri, depth+1, o, D, I, cap, cnt);
                if (rc < 0) return rc;
            }
        }
    }
    return 0;
}

int c15_dump(struct reb_simulation* r, double* D, int* I, int cap){
    int cnt = 0;
    if (r->tree_root == NULL) return 0;
    for (int i=0;i<r->N_root;i++){
        if (r->tree_root[i]){
            int rc = walk(r, r->tree_root[i], i, 0, 0, D, I, cap, &cnt);
            if (rc < 0) return rc;
        }
    }
    return cnt;
}

/* particle state as the C side sees it: P[6*i..] = x y z vx vy vz ; M[2*i..] = m r ; H[i] = hash */
int c15_particles(struct reb_simulation* r, double* P, double* M, unsigned int* H, int cap){
    int N = (int)r->N;
    if (N > cap) return -1;
    for (int i=0;i<N;i++){
        struct reb_particle* p = &r->particles[i];
        P[6*i+0]=p->x; P[6*i+1]=p->y; P[6*i+2]=p->z; P[6*i+3]=p->vx; P[6*i+4]=p->vy; P[6*i+5]=p->vz;
        M[2*i+0]=p->m; M[2*i+1]=p->r; H[i]=p->hash;
    }
    return N;
}

/* overwrite positions / velocities in place (used to place particles far outside the box
 * before calling reb_boundary_check directly) */
void c15_set(struct reb_simulation* r, const double* P, int n){
    for (int i=0;i<n && i<(int)r->N;i++){
        struct reb_particle* p = &r->particles[i];
        p->x=P[6*i+0]; p->y=P[6*i+1]; p->z=P[6*i+2]; p->vx=P[6*i+3]; p->vy=P[6*i+4]; p->vz=P[6*i+5];
    }
}

int c15_sizeof_treecell(void){ return (int)sizeof(struct reb_treecell); }

/* accelerations A[3*i..] = ax ay az */
int c15_acc(struct reb_simulation* r, double* A, int cap){
    int N = (int)r->N;
    if (N > cap) return -1;
    for (int i=0;i<N;i++){
        A[3*i+0]=r->particles[i].ax; A[3*i+1]=r->particles[i].ay; A[3*i+2]=r->particles[i].az;
    }
    return N;
}
