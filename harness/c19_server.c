/* C19 — the server scenario as a plain C program (for ThreadSanitizer, thorough tier):
 * one thread integrates in several reb_simulation_integrate calls, the library's server thread
 * answers, a client thread fetches /simulation `nreq` times.
 *   c19_server <whfast|whfast-unsafe|ias15|leapfrog>[-late] <port> <nreq>
 * mode "two": two simulations (WHFast and IAS15), each with its own server and client, integrate in two threads of one
 * process — any race ThreadSanitizer reports on a GLOBAL variable is shared state between independent simulations.
 * "-late": the integration runs in its own thread and is entered PAUSED; the server is started from the main thread
 * while it idles in reb_check_exit, then the simulation is resumed by writing r->status (what the space key does,
 * server.c:353-357) — the start order of seeded change C19-d.
 * prints "done steps=<n> bodies=<k> bytes=<total>"; exit 3 = could not connect (infrastructure).
 */
#define _GNU_SOURCE
#include <stdio.h>
#include <stdlib.h>
#include <string.h>
#include <unistd.h>
#include <pthread.h>
#include <sys/socket.h>
#include <netinet/in.h>
#include <arpa/inet.h>
#include "rebound.h"

static int g_port, g_nreq;
static int g_stop = 0;
static long g_bodies = 0, g_bytes = 0;
static int g_fail = 0;

static void* client(void* arg){
    (void)arg;
    char buf[1<<16];
    for (int k=0; k<g_nreq && !__atomic_load_n(&g_stop, __ATOMIC_SEQ_CST); k++){
        int fd = socket(AF_INET, SOCK_STREAM, 0);
        struct sockaddr_in a; memset(&a,0,sizeof(a));
        a.sin_family = AF_INET; a.sin_port = htons(g_port); a.sin_addr.s_addr = htonl(INADDR_LOOPBACK);
        if (connect(fd,(struct sockaddr*)&a,sizeof(a))<0){ close(fd); g_fail = 1; return NULL; }
        const char* req = "GET /simulation HTTP/1.0\r\nHost: localhost\r\n\r\n";
        if (write(fd, req, strlen(req))<0){ close(fd); g_fail = 1; return NULL; }
        ssize_t n; long tot = 0;
        while ((n = read(fd, buf, sizeof(buf)))>0) tot += n;
        close(fd);
        g_bodies++; g_bytes += tot;
        usleep(200 + (k*7919)%1500);
    }
    return NULL;
}

struct job { struct reb_simulation* r; int calls; double span; };
static void* integrate_thread(void* arg){
    struct job* j = (struct job*)arg;
    for (int k=1;k<=j->calls;k++){
        reb_simulation_integrate(j->r, j->span*k);
    }
    return NULL;
}

static int g_port2;
static void* client2(void* arg){
    int save = g_port; (void)save;
    char buf[1<<16];
    for (int k=0; k<g_nreq && !__atomic_load_n(&g_stop, __ATOMIC_SEQ_CST); k++){
        int fd = socket(AF_INET, SOCK_STREAM, 0);
        struct sockaddr_in a; memset(&a,0,sizeof(a));
        a.sin_family = AF_INET; a.sin_port = htons(g_port2); a.sin_addr.s_addr = htonl(INADDR_LOOPBACK);
        if (connect(fd,(struct sockaddr*)&a,sizeof(a))<0){ close(fd); return NULL; }
        const char* req = "GET /simulation HTTP/1.0\r\nHost: localhost\r\n\r\n";
        if (write(fd, req, strlen(req))<0){ close(fd); return NULL; }
        while (read(fd, buf, sizeof(buf))>0) {}
        close(fd);
        usleep(300 + (k*7919)%1500);
    }
    return NULL;
}
static struct reb_simulation* make(int integrator, int N){
    struct reb_simulation* r = reb_simulation_create();
    reb_simulation_add_fmt(r, "m", 1.0);
    for (int i=1;i<N;i++) reb_simulation_add_fmt(r, "m a e f", 1e-7, 1.0+0.02*i, 0.01*(i%5), 0.37*i);
    reb_simulation_move_to_com(r);
    r->dt = 0.01; r->integrator = integrator;
    return r;
}
static int two_simulations(int port, int nreq){
    g_port = port; g_port2 = port+1; g_nreq = nreq;
    struct reb_simulation* a = make(REB_INTEGRATOR_WHFAST, 60);
    struct reb_simulation* b = make(REB_INTEGRATOR_IAS15, 30);
    if (reb_simulation_start_server(a, g_port)!=0 || reb_simulation_start_server(b, g_port2)!=0) return 3;
    for (int w=0; w<1500 && (a->server_data->ready==0 || b->server_data->ready==0); w++) usleep(10000);
    struct job ja = { a, 12, 0.405 }, jb = { b, 12, 3.0 };
    pthread_t ta, tb, ca, cb;
    pthread_create(&ca, NULL, client, NULL); pthread_create(&cb, NULL, client2, NULL);
    pthread_create(&ta, NULL, integrate_thread, &ja); pthread_create(&tb, NULL, integrate_thread, &jb);
    pthread_join(ta, NULL); pthread_join(tb, NULL);
    __atomic_store_n(&g_stop, 1, __ATOMIC_SEQ_CST);
    pthread_join(ca, NULL); pthread_join(cb, NULL);
    reb_simulation_stop_server(a); reb_simulation_stop_server(b);
    printf("done steps=%llu bodies=%ld bytes=%ld\n", (unsigned long long)(a->steps_done+b->steps_done), g_bodies, g_bytes);
    reb_simulation_free(a); reb_simulation_free(b);
    return 0;
}

int main(int argc, char** argv){
    if (argc<4) return 2;
    if (!strcmp(argv[1], "two")) return two_simulations(atoi(argv[2]), atoi(argv[3]));
    char modebuf[64]; strncpy(modebuf, argv[1], 63); modebuf[63] = 0;
    int late = 0;
    char* dash = strstr(modebuf, "-late");
    if (dash){ late = 1; *dash = 0; }
    const char* mode = modebuf;
    g_port = atoi(argv[2]); g_nreq = atoi(argv[3]);
    struct reb_simulation* r = reb_simulation_create();
    int N = 60;
    if (!strcmp(mode,"whfast-unsafe")) N = 800;
    reb_simulation_add_fmt(r, "m", 1.0);
    for (int i=1;i<N;i++){
        reb_simulation_add_fmt(r, "m a e f", 1e-7, 1.0+0.02*i, 0.01*(i%5), 0.37*i);
    }
    reb_simulation_move_to_com(r);
    r->dt = 0.01;
    if (!strcmp(mode,"whfast")){ r->integrator = REB_INTEGRATOR_WHFAST; }
    else if (!strcmp(mode,"whfast-unsafe")){ r->integrator = REB_INTEGRATOR_WHFAST; r->ri_whfast.safe_mode = 0; }
    else if (!strcmp(mode,"ias15")){ r->integrator = REB_INTEGRATOR_IAS15; }
    else { r->integrator = REB_INTEGRATOR_LEAPFROG; }
    int calls = !strcmp(mode,"whfast-unsafe") ? 40 : 12;
    double span = !strcmp(mode,"ias15") ? 3.0 : (!strcmp(mode,"whfast-unsafe") ? 0.035 : 0.405);
    pthread_t th, it;
    struct job j = { r, calls, span };
    if (late){
        r->status = REB_STATUS_PAUSED;
        pthread_create(&it, NULL, integrate_thread, &j);
        usleep(20000);                       // the loop now idles in reb_check_exit
    }
    if (reb_simulation_start_server(r, g_port)!=0 || !r->server_data){
        fprintf(stderr,"server did not start\n"); if (late){ r->status = REB_STATUS_USER; pthread_join(it,NULL);} return 3;
    }
    for (int w=0; w<1500 && r->server_data->ready==0; w++) usleep(10000);
    if (r->server_data->ready!=1){
        fprintf(stderr,"server not ready\n"); if (late){ r->status = REB_STATUS_USER; pthread_join(it,NULL);} return 3;
    }
    pthread_create(&th, NULL, client, NULL);
    if (late){
        usleep(3000);
        r->status = REB_STATUS_RUNNING;      // resume (server.c:356 does the same plain store)
        pthread_join(it, NULL);
    }else{
        integrate_thread(&j);
    }
    __atomic_store_n(&g_stop, 1, __ATOMIC_SEQ_CST);
    pthread_join(th, NULL);
    reb_simulation_stop_server(r);
    printf("done steps=%llu bodies=%ld bytes=%ld\n", (unsigned long long)r->steps_done, g_bodies, g_bytes);
    reb_simulation_free(r);
    return g_fail ? 3 : 0;
}
