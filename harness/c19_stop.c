/* C19 — reb_simulation_stop_server while reb_simulation_integrate runs in another thread (finding F21), for AddressSanitizer:
 *   c19_stop <first port> <cycles>
 * one thread integrates a two-body LEAPFROG system (iterations of well under a microsecond, so a stop lands inside the
 * test-of-server_data .. last-dereference window of an iteration with high probability), the main thread starts and stops
 * the server `cycles` times.  Prints "done cycles=<n> steps=<k>" when it survives. */
#define _GNU_SOURCE
#include <stdio.h>
#include <stdlib.h>
#include <unistd.h>
#include <pthread.h>
#include "rebound.h"
static void* integ(void* a){ struct reb_simulation* r=a; reb_simulation_integrate(r, 1e9); return NULL; }
int main(int argc,char**argv){
    int port=atoi(argv[1]); int cycles=atoi(argv[2]);
    struct reb_simulation* r=reb_simulation_create();
    reb_simulation_add_fmt(r,"m",1.0); reb_simulation_add_fmt(r,"m a",1e-3,1.0);
    r->integrator=REB_INTEGRATOR_LEAPFROG; r->dt=0.01;
    pthread_t t; pthread_create(&t,NULL,integ,r);
    for(int k=0;k<cycles;k++){
        if (reb_simulation_start_server(r,port+k%50)!=0){fprintf(stderr,"start failed\n"); continue;}
        usleep(200+ (k*37)%900);
        reb_simulation_stop_server(r);
        usleep(100);
    }
    r->status=REB_STATUS_USER; pthread_join(t,NULL);
    printf("done cycles=%d steps=%llu\n",cycles,(unsigned long long)r->steps_done);
    return 0;
}
