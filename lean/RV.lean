import RV.Scalar
