import RV.Scalar
import RV.Props.C12
