import RV.Proofs.BinRepair
import RV.Proofs.Cadence
/-
  C07 — a crash during an archive write never loses completed snapshots.

  Model (RV/Model/Bin.lean): an append is `overwrite file (len-12) data` with
  `data = patched trailer ++ delta ++ END ++ new trailer` (`pendingData`; the write pattern is confirmed
  by strace and by byte diffs on every check run), a crash after `k` bytes is
  `crash file pos data k = file.take pos ++ data.take k ++ file.drop (pos+k)` (no truncation).
  `index v file` is what `reb_read_simulationarchive_from_stream_with_messages` exposes (offset and
  time of every accepted blob), mirrored loop by loop including short `fread`s and the offset check.

  `archI hdr fs0 ds` is the archive with first snapshot `fs0` and deltas `ds` (`ArchOK`: well-formed
  fields, 8-byte time fields, version ≥ 2, every blob < 2³¹ bytes).  All theorems hold for every source
  variant `v` (the three defects F1/F11/F19 do not touch them; F2 concerns the error path, below).
-/
set_option linter.unusedVariables false
namespace RV.Bin

/-- **every cut point**: for every `k` short of the last byte of the write, the crash image exposes
    exactly the snapshots that were complete before the append started (same offsets, same times) -/
theorem c07_crash_index (v : Variant) (hdr : Bytes) (fs0 : List Field) (ds : List (List Field)) (dn : List Field)
    (h : ArchOK hdr fs0 ds) (hdn : BlobOK dn) (hL : blobLen dn < 2147483648)
    (k : Nat) (hk : k < (pendingData ds dn).length) :
    index v (crash (archI hdr fs0 ds) ((archI hdr fs0 ds).length - 12) (pendingData ds dn) k)
      = index v (archI hdr fs0 ds) :=
  crash_index v hdr fs0 ds dn h hdn hL k hk

/-- `k = |data|`: one more snapshot, at the end of the old file -/
theorem c07_crash_complete_index (v : Variant) (hdr : Bytes) (fs0 : List Field) (ds : List (List Field))
    (dn : List Field) (h : ArchOK hdr fs0 ds) (hdn : BlobOK dn) (hL : blobLen dn < 2147483648) :
    index v (crash (archI hdr fs0 ds) ((archI hdr fs0 ds).length - 12) (pendingData ds dn) (pendingData ds dn).length)
      = fixTimes v (archEntries fs0 (ds ++ [dn])) ∧
    (archEntries fs0 (ds ++ [dn])).length = (archEntries fs0 ds).length + 1 := by
  refine ⟨append_index v hdr fs0 ds dn h hdn hL, ?_⟩
  simp [archEntries, chainEntries_length]

/-- the completed write is the well-formed archive with one more delta (trailer-chain invariant:
    `offset_next` of the old last trailer = `offset_prev` of the new one = size of the delta + 16) -/
theorem c07_append_shape (hdr : Bytes) (fs0 : List Field) (ds : List (List Field)) (dn : List Field) :
    overwrite (archI hdr fs0 ds) ((archI hdr fs0 ds).length - 12) (pendingData ds dn)
      = archI hdr fs0 (ds ++ [dn]) :=
  append_shape hdr fs0 ds dn

/-- the write whose prefixes the crash theorem quantifies over is the one the writer performs: on a
    well-formed archive `reb_simulation_save_to_file` finds nothing to repair, starts writing at the last
    trailer and writes patched trailer ++ delta ++ END ++ new trailer -/
theorem c07_append_plan (v : Variant) (cmp : Nat → Bytes → Bytes → Bool) (hdr : Bytes) (fs0 : List Field)
    (ds : List (List Field)) (h : ArchOK hdr fs0 ds) (h2 t2 : Bytes) (b : List Field) (hh2 : h2.length = 64)
    (hb : WFs b) (hL : blobLen (diffF v cmp fs0 b) < 2147483648) (hn : ds.length + 1 < 4294967296) :
    appendPlan v cmp (archI hdr fs0 ds) (h2 ++ (encFs b ++ (endBytes ++ t2)))
      = .plan ⟨(archI hdr fs0 ds).length - 12, pendingData ds (diffF v cmp fs0 b), false⟩ :=
  appendPlan_archI v cmp hdr fs0 ds h h2 t2 b hh2 hb hL hn

/-- **restart theorem**.  `Damaged hdr fs0 ds X` = everything of the archive up to its last intact trailer,
    followed by arbitrary bytes `X` of which only the first 8 (index, offset_prev of that trailer) are known to
    have survived — every crash image, with or without stale tails of earlier cycles, has this form.  Under
    **NoFakeTrailer** (`Recovers`: the writer's recovery logic — last 28 bytes, one earlier trailer, repair walk —
    ends at the last intact trailer with a clean END template; decidable, evaluated by the driver on every
    generated image) the restarted append writes, at that trailer, exactly what the append to the intact archive
    writes: `∃ tail, append damaged s' = append intact s' ++ tail`. -/
theorem c07_restart_append (v : Variant) (cmp : Nat → Bytes → Bytes → Bool) (hdr : Bytes) (fs0 : List Field)
    (ds : List (List Field)) (h : ArchOK hdr fs0 ds) (X : Bytes)
    (hX : X.take 8 = le32 ds.length ++ le32 (lastPrev 0 ds)) (hXl : 12 ≤ X.length)
    (hrec : Recovers (Damaged hdr fs0 ds X) ((archPre hdr fs0 ds).length + 12))
    (h2 t2 : Bytes) (b : List Field) (hh2 : h2.length = 64) (hb : WFs b)
    (hL : blobLen (diffF v cmp fs0 b) < 2147483648) (hn : ds.length + 1 < 4294967296) :
    append v cmp (Damaged hdr fs0 ds X) (h2 ++ (encFs b ++ (endBytes ++ t2)))
      = some (archI hdr fs0 (ds ++ [diffF v cmp fs0 b]) ++ X.drop (pendingData ds (diffF v cmp fs0 b)).length) :=
  append_damaged v cmp hdr fs0 ds h X hX hXl hrec h2 t2 b hh2 hb hL hn

/-- one crash/restart cycle on `archive ++ stale tail`, any cut point `k` of any pending delta `dn` -/
theorem c07_crash_restart (v : Variant) (cmp : Nat → Bytes → Bytes → Bool) (hdr : Bytes) (fs0 : List Field)
    (ds : List (List Field)) (h : ArchOK hdr fs0 ds) (tail0 : Bytes) (dn : List Field) (k : Nat)
    (hrec : Recovers (crash (archI hdr fs0 ds ++ tail0) (archPre hdr fs0 ds).length (pendingData ds dn) k)
              ((archPre hdr fs0 ds).length + 12))
    (h2 t2 : Bytes) (b : List Field) (hh2 : h2.length = 64) (hb : WFs b)
    (hL : blobLen (diffF v cmp fs0 b) < 2147483648) (hn : ds.length + 1 < 4294967296) :
    ∃ tail, append v cmp (crash (archI hdr fs0 ds ++ tail0) (archPre hdr fs0 ds).length (pendingData ds dn) k)
              (h2 ++ (encFs b ++ (endBytes ++ t2)))
      = some (archI hdr fs0 (ds ++ [diffF v cmp fs0 b]) ++ tail) :=
  crash_restart v cmp hdr fs0 ds h tail0 dn k hrec h2 t2 b hh2 hb hL hn

/-- **repeated crash/restart cycles** (induction over the run): the file is always the archive of the
    uninterrupted run followed by a stale tail -/
theorem c07_cycles (v : Variant) (cmp : Nat → Bytes → Bytes → Bool) (hdr : Bytes) (fs0 : List Field)
    (cs : List Cycle) (ds : List (List Field)) (h : ArchOK hdr fs0 ds) (tail0 : Bytes)
    (hok : CyclesOK v cmp hdr fs0 ds (archI hdr fs0 ds ++ tail0) cs) :
    ∃ tail, runCycles v cmp hdr fs0 ds (archI hdr fs0 ds ++ tail0) cs
      = some (archI hdr fs0 (ds ++ cs.map (fun c => diffF v cmp fs0 c.s.2.1)) ++ tail) :=
  cycles_archive v cmp hdr fs0 cs ds h tail0 hok

/-- the stale tail is invisible: index and every snapshot of `archive ++ tail` are those of the archive — so the
    restarted archive exposes exactly the snapshots of the uninterrupted run -/
theorem c07_stale_tail_invisible (v : Variant) (init : State) (hdr : Bytes) (fs0 : List Field)
    (ds : List (List Field)) (h : ArchOK hdr fs0 ds) (tail : Bytes) :
    index v (archI hdr fs0 ds ++ tail) = index v (archI hdr fs0 ds) ∧
    ∀ k, k < ds.length + 1 →
      snapshot init (archI hdr fs0 ds ++ tail) ((archEntries fs0 ds).map (·.off)) k
        = snapshot init (archI hdr fs0 ds) ((archEntries fs0 ds).map (·.off)) k :=
  ⟨index_tail v hdr fs0 ds h tail, fun k hk => snapshot_tail init hdr fs0 ds h tail k hk⟩

/-- **the recovery walk of the writer** (simulationarchive.c:555-580) on a complete trailer chain followed by ANY
    residual bytes ends at the end of the last valid snapshot (and leaves a clean END template): the walk only
    follows `offset_next` from the first trailer and stops at the trailer whose `offset_next` is 0 -/
theorem c07_repair_walk_any_tail (hdr : Bytes) (fs0 : List Field) (ds : List (List Field)) (h : ArchOK hdr fs0 ds)
    (tail : Bytes) (fuel : Nat) (hf : ds.length < fuel) (last : Nat) (fld : Bytes) :
    (repairWalk (archI hdr fs0 ds ++ tail) fuel (64 + blobLen fs0) last fld).1 = (archI hdr fs0 ds).length ∧
    (((repairWalk (archI hdr fs0 ds ++ tail) fuel (64 + blobLen fs0) last fld).2).drop 4).take 4 = [0, 0, 0, 0] :=
  repairWalk_archI_tail hdr fs0 ds h tail fuel hf last fld

/-- **append position = end of the last valid snapshot, for every tail**: whenever the corruption test fires on
    `archive ++ tail`, NoFakeTrailer holds (so `c07_restart_append` applies) — the only way to defeat the writer is
    to fool the 28-byte corruption test itself (the fake-trailer image) -/
theorem c07_append_position_any_tail (hdr : Bytes) (fs0 : List Field) (ds : List (List Field)) (h : ArchOK hdr fs0 ds)
    (tail : Bytes) (so last : Nat) (fld : Bytes)
    (hro : recoverOf (archI hdr fs0 ds ++ tail) = some (so, last, fld, true)) :
    Recovers (archI hdr fs0 ds ++ tail) (archI hdr fs0 ds).length :=
  recovers_tail_of_corrupt hdr fs0 ds h tail so last fld hro

/-- zero-filled tail of any length ≥ 12 behind an archive with at least one delta: the test fires, the next append
    lands at the end of the last valid snapshot — `append (archive ++ zeros) s' = append archive s' ++ tail` -/
theorem c07_append_zero_tail (v : Variant) (cmp : Nat → Bytes → Bytes → Bool) (hdr : Bytes) (fs0 : List Field)
    (d : List Field) (r : List (List Field)) (h : ArchOK hdr fs0 (d :: r)) (n : Nat) (hn : 12 ≤ n)
    (h2 t2 : Bytes) (b : List Field) (hh2 : h2.length = 64) (hb : WFs b)
    (hL : blobLen (diffF v cmp fs0 b) < 2147483648) (hcnt : (d :: r).length + 1 < 4294967296) :
    ∃ tail, append v cmp (archI hdr fs0 (d :: r) ++ List.replicate n 0) (h2 ++ (encFs b ++ (endBytes ++ t2)))
      = some (archI hdr fs0 ((d :: r) ++ [diffF v cmp fs0 b]) ++ tail) :=
  append_zero_tail v cmp hdr fs0 d r h n hn h2 t2 b hh2 hb hL hcnt

/-- exposed = completed for ANY number of completed snapshots: `c07_crash_index` has no bound on the number of
    deltas, and the reader's index arrays (1024 + k·1024 slots) always have slot `i` when blob `i` is recorded -/
theorem c07_index_capacity (i : Nat) : i < RV.Cadence.capAt i := RV.Cadence.cap_ok i

/-- **cadence bookkeeping survives a restart** (simulationarchive.c:417-449 heartbeat, 641-668 re-arming; the cadence
    state is part of every snapshot).  Uninterrupted run over the step boundaries `ts1 ++ t :: ts2`, snapshot k written by
    the heartbeat at `t` (less than one interval past its prescribed time — what `c06_cadence_interval_exact` gives for
    steps no longer than the interval).  Restart from snapshot k, `save_to_file(interval=d)` again, integrate on: no
    snapshot at `t` (no duplicate), afterwards exactly the uninterrupted run's snapshots (none skipped), same final state. -/
theorem c07_cadence_restart_interval (s d next0 t : Int) (ts1 ts2 : List Int) (hs : s = 1 ∨ s = -1)
    (hfire : s * (RV.Cadence.run RV.Cadence.intOps s d next0 ts1).2 ≤ s * t)
    (hnl : s * t < s * (RV.Cadence.run RV.Cadence.intOps s d next0 ts1).2 + d) :
    let n1 := (RV.Cadence.run RV.Cadence.intOps s d next0 ts1).2
    let rest := RV.Cadence.run RV.Cadence.intOps s d (n1 + s * d) ts2
    RV.Cadence.run RV.Cadence.intOps s d next0 (ts1 ++ t :: ts2)
        = ((RV.Cadence.run RV.Cadence.intOps s d next0 ts1).1 ++ true :: rest.1, rest.2) ∧
    RV.Cadence.restart RV.Cadence.intOps RV.Cadence.intNe s d (n1 + s * d) d t ts2 = (false :: rest.1, rest.2) :=
  RV.Cadence.restart_exact s d next0 t ts1 ts2 hs hfire hnl

/-- the same in step mode -/
theorem c07_cadence_restart_step (step next0 sk : Nat) (ts1 ts2 : List Nat)
    (hfire : (RV.Cadence.runStep step next0 ts1).2 ≤ sk) (hnl : sk < (RV.Cadence.runStep step next0 ts1).2 + step) :
    let n1 := (RV.Cadence.runStep step next0 ts1).2
    let rest := RV.Cadence.runStep step (n1 + step) ts2
    RV.Cadence.runStep step next0 (ts1 ++ sk :: ts2) = ((RV.Cadence.runStep step next0 ts1).1 ++ true :: rest.1, rest.2) ∧
    RV.Cadence.restartStep step (n1 + step) step sk ts2 = (false :: rest.1, rest.2) :=
  RV.Cadence.restartStep_exact step next0 sk ts1 ts2 hfire hnl

/-- re-arming with a DIFFERENT interval after the restart starts a new cadence at the restart time -/
theorem c07_cadence_restart_rearmed (s d d' pn t : Int) (ts2 : List Int) (h : d ≠ d') :
    RV.Cadence.restart RV.Cadence.intOps RV.Cadence.intNe s d pn d' t ts2
      = (true :: (RV.Cadence.run RV.Cadence.intOps s d' (t + s * d') ts2).1, (RV.Cadence.run RV.Cadence.intOps s d' (t + s * d') ts2).2) :=
  RV.Cadence.restart_rearmed s d d' pn t ts2 h

/-- the hypothesis `hnl` of `c07_cadence_restart_interval` is needed: with the prescribed time a whole interval or more
    behind `t` (interval shorter than a step) the restarted run writes snapshot k a second time.  The model follows
    the source here; the real code does the same (finding `cadence:lagging-next-duplicate`). -/
theorem c07_cadence_restart_lagging_duplicates (s d n1 t : Int) (ts2 : List Int) (hlag : s * (n1 + s * d) ≤ s * t) :
    (RV.Cadence.restart RV.Cadence.intOps RV.Cadence.intNe s d (n1 + s * d) d t ts2).1.head? = some true :=
  RV.Cadence.restart_lagging_duplicates s d n1 t ts2 hlag

/-- on the repaired source (`fixes/C06-cadence-skip-passed-output-times.diff`) the restart statement holds for EVERY ratio
    of step and interval: no `hnl` hypothesis -/
theorem c07_cadence_restart_interval_repaired (s d next0 t : Int) (ts1 ts2 : List Int) (hs : s = 1 ∨ s = -1) (hd : 0 < d)
    (hfire : s * (RV.Cadence.runR RV.Cadence.intOpsR s d next0 ts1).2 ≤ s * t) :
    let n1 := (RV.Cadence.hbR RV.Cadence.intOpsR s d (RV.Cadence.runR RV.Cadence.intOpsR s d next0 ts1).2 t).2
    let rest := RV.Cadence.runR RV.Cadence.intOpsR s d n1 ts2
    RV.Cadence.runR RV.Cadence.intOpsR s d next0 (ts1 ++ t :: ts2)
        = ((RV.Cadence.runR RV.Cadence.intOpsR s d next0 ts1).1 ++ true :: rest.1, rest.2) ∧
    RV.Cadence.restartR RV.Cadence.intOpsR RV.Cadence.intNe s d n1 d t ts2 = (false :: rest.1, rest.2) :=
  RV.Cadence.restartR_exact s d next0 t ts1 ts2 hs hd hfire

/-- wall-time mode is re-armed unconditionally, the restarted run writes a snapshot at once (documented at
    simulationarchive.c:654) -/
theorem c07_cadence_restart_walltime_fires (d w : Int) :
    (RV.Cadence.hbWall RV.Cadence.intOps d (RV.Cadence.armWall d w).2 w).1 = true :=
  RV.Cadence.wall_restart_fires d w

/-- prefix lemma: walking a strict prefix of an encoded blob ends in `read_error` — never in an accepted
    blob, never in an out-of-bounds read -/
theorem c07_prefix_read_error (v : Variant) (fs : List Field) (h : BlobOK fs) (m : Nat)
    (hm : m < blobLen fs) (fuel pos : Nat) (t : Option Bytes) :
    walkBlob v fuel pos ((encFs fs ++ endBytes).take m) t = .readError :=
  walkBlob_prefix v fs h m hm fuel pos t

/-- a complete blob whose trailer is cut is rejected by the offset check -/
theorem c07_short_trailer_rejected (v : Variant) (d : List Field) (hd : BlobOK d) (hdl : blobLen d < 2147483648)
    (x m : Nat) (hm : m < blobLen d + 12) (fuel i pos : Nat) (hi : i > 0) :
    (indexLoop v fuel i pos ((encFs d ++ (endBytes ++ trailerBytes x (blobLen d) 0)).take m)).entries = [] ∧
    (indexLoop v fuel i pos ((encFs d ++ (endBytes ++ trailerBytes x (blobLen d) 0)).take m)).undefinedB = false :=
  indexLoop_rejects_prefix v d hd hdl x m hm fuel i pos hi

/-- **first snapshot**: a fresh file cut anywhere before its END marker is complete is reported as an
    error (one of the reader's two error exits), exposes no snapshot, and the reader never reads out of
    bounds.  `errorSeek true` means the callee called `free` on the handle it was given. -/
theorem c07_first_snapshot_cut (v : Variant) (hdr : Bytes) (hh : HdrOK hdr) (fs0 : List Field) (h0 : BlobOK fs0)
    (s0 : ScanOK fs0) (T : Bytes) (k : Nat) (hk : k < 64 + blobLen fs0) :
    openArchive v ((firstFile hdr fs0 T).take k) = .errorOld ∨
    openArchive v ((firstFile hdr fs0 T).take k) = .errorSeek (!v.f2) :=
  open_first_prefix v hdr hh fs0 h0 s0 T k hk

/-- full statement, for the source with fixes/F2.diff: the error path never frees caller-owned memory -/
theorem c07_first_snapshot_error_owns_nothing (hdr : Bytes) (hh : HdrOK hdr) (fs0 : List Field) (h0 : BlobOK fs0)
    (s0 : ScanOK fs0) (T : Bytes) (k : Nat) (hk : k < 64 + blobLen fs0) :
    openArchive Variant.fixed ((firstFile hdr fs0 T).take k) = .errorOld ∨
    openArchive Variant.fixed ((firstFile hdr fs0 T).take k) = .errorSeek false :=
  open_first_prefix Variant.fixed hdr hh fs0 h0 s0 T k hk

/-- the same statement is **false of the pinned source** (F2, simulationarchive.c:317-332): a first
    snapshot cut after its version field makes the callee free the caller's handle -/
theorem c07_first_snapshot_current_frees_caller :
    ∃ (hdr : Bytes) (fs0 : List Field) (T : Bytes) (k : Nat), HdrOK hdr ∧ BlobOK fs0 ∧ ScanOK fs0 ∧
      k < 64 + blobLen fs0 ∧
      openArchive Variant.current ((firstFile hdr fs0 T).take k) = .errorSeek true := by
  refine ⟨[82, 69, 66, 79] ++ List.replicate 60 0, [⟨125, 4, [3, 0, 0, 0]⟩, ⟨0, 8, [0, 0, 0, 0, 0, 0, 0, 0]⟩], [], 90,
    ⟨rfl, by decide⟩, ⟨?_, ?_, ?_⟩, ⟨?_, ?_, ?_, ?_⟩, by decide, by decide +kernel⟩
  all_goals
    (intro f hf; simp only [List.mem_cons, List.not_mem_nil, or_false] at hf
     rcases hf with rfl | rfl <;> first | exact ⟨rfl, by decide, by decide, by decide⟩ | decide)

/-- non-vacuity: a two-blob archive satisfying `ArchOK`, and one crash image of a third append -/
example :
    let hdr : Bytes := [82, 69, 66, 79] ++ List.replicate 60 0
    let fs0 : List Field := [⟨0, 8, [0,0,0,0,0,0,0,0]⟩, ⟨125, 4, [3,0,0,0]⟩]
    let d1 : List Field := [⟨0, 8, [1,0,0,0,0,0,0,0]⟩]
    ArchOK hdr fs0 [d1] ∧ (archEntries fs0 [d1]).length = 2 ∧ (pendingData [d1] d1).length = 64 := by
  refine ⟨⟨⟨rfl, by decide⟩, ⟨?_, ?_, ?_⟩, ⟨?_, ?_, ?_, ?_⟩, by decide, ?_⟩, by decide, by decide⟩
  all_goals first
    | (intro f hf; simp only [List.mem_cons, List.not_mem_nil, or_false] at hf
       rcases hf with rfl | rfl <;> first | exact ⟨rfl, by decide, by decide, by decide⟩ | decide)
    | (intro d hd; simp only [List.mem_singleton] at hd; subst hd
       refine ⟨⟨?_, ?_, ?_⟩, by decide⟩ <;>
         (intro f hf; simp only [List.mem_singleton] at hf; subst hf
          first | exact ⟨rfl, by decide, by decide, by decide⟩ | decide))

end RV.Bin
