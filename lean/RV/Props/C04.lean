import RV.Proofs.Diag
import RV.Props.C02
import RV.Proofs.WHSteps
import RV.Proofs.WHKepler
import RV.Proofs.WHLink
import RV.Proofs.WHDH
import RV.Proofs.WHInt
import RV.Proofs.TraceCom
import RV.Proofs.WHJump
/-
  C04 — isolated systems conserve momentum, angular momentum and (as advertised) energy;
  the diagnostics return the defined quantities.

  Statements are about RV/Model/Diag.lean and RV/Model/Gravity.lean (the definitions that
  `drv_c04` runs on IEEE doubles against tools.c, collision.c and whole LEAPFROG steps),
  instantiated at an arbitrary field `K`: exact arithmetic, every number of particles, every
  number of steps.  `mOf/xOf/vOf ps i` are the mass, position, velocity of particle `i`;
  `mass`, `momentum`, `angmom`, `mxsum` are the defining sums `Σ m`, `Σ m v`, `Σ m x×v`, `Σ m x`.
-/
set_option linter.unusedTactic false
set_option linter.unreachableTactic false
set_option linter.unnecessarySeqFocus false
set_option linter.unusedVariables false
set_option linter.unusedSectionVars false
set_option linter.unusedSimpArgs false
namespace RV.Diag
open RV RV.Gravity
variable {K : Type} [Field K]

/-! ### the diagnostics return the defined quantities -/

/-- `reb_simulation_angular_momentum` = `Σ_i m_i x_i × v_i` over *all* particles (test particles
    included with whatever mass they carry) -/
theorem c04_angular_momentum_def (ps : Array (Part K)) : angularMomentum ps = angmom ps := by
  unfold angularMomentum angmom
  rw [forRange_add 0 ps.size _ (fun i => mOf ps i • V3.cross (xOf ps i) (vOf ps i))]
  · simp
  · intro L i _ hi
    simp only [mOf, xOf, vOf, Array.getElem?_eq_getElem hi, sc_hadd, sc_hsub, sc_hmul]
    ext <;> simp

/-- `reb_simulation_energy` = kinetic energy of the interacting particles
    (`N_interact = N_active` for testparticle_type 0, `N` for type 1) minus `G m_i m_j / r_ij` over
    the pairs `i < j` with `i` active and `j` interacting, plus `energy_offset`. -/
theorem c04_energy_def (sqrt : K → K) (G off : K) (nActive : Nat) (tp : Bool) (ps : Array (Part K))
    (hNa : nActive ≤ ps.size) :
    energy sqrt G off nActive tp ps
      = (∑ i ∈ Finset.Ico 0 (if tp then ps.size else nActive),
            (1 / 2 : K) * mOf ps i * ((vOf ps i).x * (vOf ps i).x + (vOf ps i).y * (vOf ps i).y + (vOf ps i).z * (vOf ps i).z))
        + (∑ i ∈ Finset.Ico 0 nActive, ∑ j ∈ Finset.Ico (i + 1) (if tp then ps.size else nActive),
            -(G * mOf ps j * mOf ps i / sqrt (((xOf ps i).x - (xOf ps j).x) * ((xOf ps i).x - (xOf ps j).x)
              + ((xOf ps i).y - (xOf ps j).y) * ((xOf ps i).y - (xOf ps j).y)
              + ((xOf ps i).z - (xOf ps j).z) * ((xOf ps i).z - (xOf ps j).z))))
        + off := by
  unfold energy
  have hint : (if tp = true then ps.size else nActive) ≤ ps.size := by split_ifs <;> omega
  simp only [sc_hadd]
  congr 1
  congr 1
  · rw [forRange_add 0 _ _ (fun i => (1 / 2 : K) * mOf ps i * ((vOf ps i).x * (vOf ps i).x
      + (vOf ps i).y * (vOf ps i).y + (vOf ps i).z * (vOf ps i).z))]
    · simp
    · intro L i _ hi
      have hi' : i < ps.size := by omega
      simp [mOf, vOf, Array.getElem?_eq_getElem hi', half]
  · rw [forRange_add 0 nActive _ (fun i => ∑ j ∈ Finset.Ico (i + 1) (if tp then ps.size else nActive),
      -(G * mOf ps j * mOf ps i / sqrt (((xOf ps i).x - (xOf ps j).x) * ((xOf ps i).x - (xOf ps j).x)
        + ((xOf ps i).y - (xOf ps j).y) * ((xOf ps i).y - (xOf ps j).y)
        + ((xOf ps i).z - (xOf ps j).z) * ((xOf ps i).z - (xOf ps j).z))))]
    · simp
    · intro L i _ hi
      have hi' : i < ps.size := by omega
      simp only [Array.getElem?_eq_getElem hi']
      rw [forRange_add]
      intro L j _ hj
      have hj' : j < ps.size := by omega
      simp [mOf, xOf, Array.getElem?_eq_getElem hi', Array.getElem?_eq_getElem hj', sub_eq_add_neg]

/-- change of inertial frame `x ↦ x − R`, `v ↦ v − V` (what `reb_simulation_move_to_com` does with
    `(R, V)` = centre of mass) -/
def shiftFrame (R V : V3 K) (ps : Array (Part K)) : Array (Part K) :=
  ps.map fun p => { p with x := p.x - R, v := p.v - V }

/-- **energy under a change of frame** (König): the value returned by `reb_simulation_energy` is
    invariant under translations, and under a boost by `V` it changes by `−V·P + ½ M V²`, where `P`,
    `M` are the momentum and mass of the interacting particles.  In particular after
    `move_to_com` (all particles active, `V = P/M`) the energy is `E − P²/(2M)`; the potential part
    and every pair term are untouched. -/
theorem c04_energy_frame_shift (sqrt : K → K) (G off : K) (nActive : Nat) (tp : Bool) (ps : Array (Part K))
    (hNa : nActive ≤ ps.size) (R V : V3 K) (h2 : (2 : K) ≠ 0) :
    energy sqrt G off nActive tp (shiftFrame R V ps)
      = energy sqrt G off nActive tp ps
        - (∑ i ∈ Finset.Ico 0 (if tp then ps.size else nActive), mOf ps i * V3.dot V (vOf ps i))
        + (1 / 2 : K) * (∑ i ∈ Finset.Ico 0 (if tp then ps.size else nActive), mOf ps i) * V3.dot V V := by
  have hs : (shiftFrame R V ps).size = ps.size := by simp [shiftFrame]
  have hint : (if tp = true then ps.size else nActive) ≤ ps.size := by split_ifs <;> omega
  have hm : ∀ i, mOf (shiftFrame R V ps) i = mOf ps i := by
    intro i; simp only [mOf, shiftFrame, Array.getElem?_map]; cases ps[i]? <;> simp
  have hx : ∀ i, i < ps.size → xOf (shiftFrame R V ps) i = xOf ps i - R := by
    intro i hi; simp [xOf, shiftFrame, Array.getElem?_eq_getElem hi]
  have hv : ∀ i, i < ps.size → vOf (shiftFrame R V ps) i = vOf ps i - V := by
    intro i hi; simp [vOf, shiftFrame, Array.getElem?_eq_getElem hi]
  rw [c04_energy_def sqrt G off nActive tp _ (by rw [hs]; exact hNa), c04_energy_def sqrt G off nActive tp ps hNa, hs]
  have e1 : ∀ i ∈ Finset.Ico 0 (if tp = true then ps.size else nActive),
      (1 / 2 : K) * mOf (shiftFrame R V ps) i * ((vOf (shiftFrame R V ps) i).x * (vOf (shiftFrame R V ps) i).x
        + (vOf (shiftFrame R V ps) i).y * (vOf (shiftFrame R V ps) i).y + (vOf (shiftFrame R V ps) i).z * (vOf (shiftFrame R V ps) i).z)
      = (1 / 2 : K) * mOf ps i * ((vOf ps i).x * (vOf ps i).x + (vOf ps i).y * (vOf ps i).y + (vOf ps i).z * (vOf ps i).z)
        - mOf ps i * V3.dot V (vOf ps i) + (1 / 2 : K) * mOf ps i * V3.dot V V := by
    intro i hi
    have := Finset.mem_Ico.mp hi
    rw [hm, hv i (by omega)]
    simp [V3.dot]; field_simp; ring
  have e2 : ∀ i ∈ Finset.Ico 0 nActive, ∀ j ∈ Finset.Ico (i + 1) (if tp = true then ps.size else nActive),
      -(G * mOf (shiftFrame R V ps) j * mOf (shiftFrame R V ps) i / sqrt (((xOf (shiftFrame R V ps) i).x - (xOf (shiftFrame R V ps) j).x) * ((xOf (shiftFrame R V ps) i).x - (xOf (shiftFrame R V ps) j).x)
        + ((xOf (shiftFrame R V ps) i).y - (xOf (shiftFrame R V ps) j).y) * ((xOf (shiftFrame R V ps) i).y - (xOf (shiftFrame R V ps) j).y)
        + ((xOf (shiftFrame R V ps) i).z - (xOf (shiftFrame R V ps) j).z) * ((xOf (shiftFrame R V ps) i).z - (xOf (shiftFrame R V ps) j).z)))
      = -(G * mOf ps j * mOf ps i / sqrt (((xOf ps i).x - (xOf ps j).x) * ((xOf ps i).x - (xOf ps j).x)
        + ((xOf ps i).y - (xOf ps j).y) * ((xOf ps i).y - (xOf ps j).y)
        + ((xOf ps i).z - (xOf ps j).z) * ((xOf ps i).z - (xOf ps j).z))) := by
    intro i hi j hj
    have := Finset.mem_Ico.mp hi
    have := Finset.mem_Ico.mp hj
    rw [hm, hm, hx i (by omega), hx j (by omega)]
    simp
  rw [Finset.sum_congr rfl e1, Finset.sum_congr rfl (fun i hi => Finset.sum_congr rfl (e2 i hi))]
  simp only [Finset.sum_add_distrib, Finset.sum_sub_distrib, ← Finset.mul_sum, ← Finset.sum_mul]
  ring

/-- running mass and mass-weighted sums of the first `n` particles -/
def preM (ps : Array (Part K)) (n : Nat) : K := ∑ i ∈ Finset.range n, mOf ps i

/-- `reb_simulation_com`: the returned particle carries the total mass, and (mass × its
    position / velocity) is `Σ m x` / `Σ m v`.  Hypothesis: at every stage of the running
    pairwise combination the `m > 0` test of `reb_particle_com_of_pair` succeeds on a
    non-zero mass, or fails with all masses so far equal to zero (true for non-negative
    masses over an ordered field, where the result is then the centre of mass itself). -/
theorem c04_com_def (gt0 : K → Bool) (ps : Array (Part K))
    (hpre : ∀ n, 1 ≤ n → n ≤ ps.size →
      (gt0 (preM ps n) = true ∧ preM ps n ≠ 0) ∨ (gt0 (preM ps n) = false ∧ ∀ i, i < n → mOf ps i = 0)) :
    (com gt0 ps).m = mass ps ∧ (com gt0 ps).m • (com gt0 ps).x = mxsum ps ∧
    (com gt0 ps).m • (com gt0 ps).v = momentum ps := by
  unfold com comRange forRange mass mxsum momentum
  simp only [Nat.sub_zero]
  -- invariant over the prefix length
  have key : ∀ n, n ≤ ps.size →
      let c := (List.range' 0 n).foldl (fun com i => match ps[i]? with
        | some p => comOfPair gt0 com p
        | none => com) (⟨Scalar.zero, V3.zero, V3.zero⟩ : Part K)
      c.m = ∑ i ∈ Finset.range n, mOf ps i ∧
      c.m • c.x = ∑ i ∈ Finset.range n, mOf ps i • xOf ps i ∧
      c.m • c.v = ∑ i ∈ Finset.range n, mOf ps i • vOf ps i := by
    intro n
    induction n with
    | zero => intro _; simp
    | succ n ih =>
      intro hn
      have hn' : n < ps.size := by omega
      obtain ⟨i1, i2, i3⟩ := ih (by omega)
      have hr : List.range' 0 (n + 1) = List.range' 0 n ++ [n] := by
        rw [List.range'_concat]; simp
      simp only [hr, List.foldl_append, List.foldl_cons, List.foldl_nil, Array.getElem?_eq_getElem hn']
      set c := (List.range' 0 n).foldl (fun com i => match ps[i]? with
        | some p => comOfPair gt0 com p
        | none => com) (⟨Scalar.zero, V3.zero, V3.zero⟩ : Part K) with hc
      have hm : mOf ps n = ps[n].m := by simp [mOf, Array.getElem?_eq_getElem hn']
      have hx : xOf ps n = ps[n].x := by simp [xOf, Array.getElem?_eq_getElem hn']
      have hv : vOf ps n = ps[n].v := by simp [vOf, Array.getElem?_eq_getElem hn']
      have hM : c.m + ps[n].m = preM ps (n + 1) := by
        simp only [preM, Finset.sum_range_succ, ← i1, hm]
      rcases hpre (n + 1) (by omega) hn with ⟨hg, hne⟩ | ⟨hg, hz⟩
      · rw [← hM] at hg hne
        simp only [comOfPair, sc_hadd, sc_hmul, sc_hdiv, hg, if_true, Finset.sum_range_succ, ← i1, ← i2, ← i3,
          hm, hx, hv]
        refine ⟨trivial, ?_, ?_⟩
        · ext <;> simp <;> field_simp <;> ring
        · ext <;> simp <;> field_simp <;> ring
      · rw [← hM] at hg
        have hz' : ∀ i, i < n + 1 → mOf ps i = 0 := hz
        have hcm : c.m = 0 := by rw [i1]; apply Finset.sum_eq_zero; intro i hi; exact hz' i (by have := Finset.mem_range.mp hi; omega)
        have hpn : ps[n].m = 0 := by rw [← hm]; exact hz' n (by omega)
        simp only [comOfPair, sc_hadd, sc_hmul, sc_hdiv, hg, Finset.sum_range_succ, ← i1, ← i2, ← i3,
          hm, hx, hv, hcm, hpn]
        refine ⟨by simp, ?_, ?_⟩
        · ext <;> simp
        · ext <;> simp
  exact key ps.size (le_refl _)

/-! ### primitives -/

/-- drift (`x += τ v`, here τ = dt/2 as in LEAPFROG part 1) preserves mass, momentum and
    angular momentum and moves `Σ m x` by `τ · P` -/
theorem c04_drift_conserves (dt : K) (ps : Array (Part K)) :
    mass (lfDrift dt ps) = mass ps ∧ momentum (lfDrift dt ps) = momentum ps ∧
    angmom (lfDrift dt ps) = angmom ps ∧
    mxsum (lfDrift dt ps) = mxsum ps + ((1 / 2 : K) * dt) • momentum ps :=
  ⟨mass_drift dt ps, momentum_drift dt ps, angmom_drift dt ps, mxsum_drift dt ps⟩

/-- kick (+ half drift, LEAPFROG part 2) with *any* accelerations satisfying Newton's third law
    (`Σ m a = 0`) and vanishing total torque (`Σ m x×a = 0`) preserves `P` and `L` -/
theorem c04_kick_conserves (dt : K) (ps : Array (Part K)) (acc : Acc K) (hs : acc.size = ps.size)
    (h3 : ∑ i ∈ Finset.range ps.size, mOf ps i • aOf acc i = 0)
    (ht : ∑ i ∈ Finset.range ps.size, mOf ps i • V3.cross (xOf ps i) (aOf acc i) = 0) :
    mass (lfKickDrift dt ps acc) = mass ps ∧
    momentum (lfKickDrift dt ps acc) = momentum ps ∧ angmom (lfKickDrift dt ps acc) = angmom ps ∧
    mxsum (lfKickDrift dt ps acc) = mxsum ps + ((1 / 2 : K) * dt) • momentum ps := by
  have hP : momentum (lfKickDrift dt ps acc) = momentum ps := by
    rw [momentum_kick dt ps acc hs, h3]; simp
  refine ⟨mass_kick dt ps acc hs, hP, ?_, ?_⟩
  · rw [angmom_kick dt ps acc hs, ht]; simp
  · rw [mxsum_kick dt ps acc hs, hP]

/-! ### LEAPFROG with the BASIC force routine of gravity.c -/

/-- one LEAPFROG step (drift – BASIC forces – kick – drift) of an isolated system in which every
    particle is active, without ghost boxes: `P' = P`, `L' = L`, `M' = M`, `Σ m x` advances by
    `dt · P`.  Uses C02's Newton-3 and torque theorems about the BASIC loop nest. -/
theorem c04_leapfrog_step (pref : K → Nat → Nat → K) (cfg : Cfg K) (dt : K) (ps : Array (Part K))
    (hall : cfg.nActive = ps.size) (h2 : (2 : K) ≠ 0) :
    (lfStep pref cfg [0] dt ps).size = ps.size ∧
    mass (lfStep pref cfg [0] dt ps) = mass ps ∧
    momentum (lfStep pref cfg [0] dt ps) = momentum ps ∧
    angmom (lfStep pref cfg [0] dt ps) = angmom ps ∧
    mxsum (lfStep pref cfg [0] dt ps) = mxsum ps + dt • momentum ps := by
  unfold lfStep
  set ps1 := lfDrift dt ps with hps1
  have hs1 : ps1.size = ps.size := lfDrift_size dt ps
  set acc := accBasic pref cfg [0] (bodies ps1) with hacc
  have hsz : acc.size = ps1.size := by
    rw [hacc, accBasic_size]; simp [bodies]
  have hget : ∀ k, k < ps1.size →
      (accBasic pref cfg [0] (mkPs ps1.size (mOf ps1) (xOf ps1)))[k]? = some (aOf acc k) := by
    intro k hk
    rw [← bodies_eq, ← hacc]
    have : k < acc.size := by omega
    simp [aOf, Array.getElem?_eq_getElem this]
  have h3 := c02_basic_newton3 pref cfg [0] ps1.size (mOf ps1) (xOf ps1) (by omega) (aOf acc) hget
  have ht := c02_basic_torque pref cfg ps1.size (mOf ps1) (xOf ps1) (by omega) (aOf acc) hget
  obtain ⟨k1, k2, k3, k4⟩ := c04_kick_conserves dt ps1 acc hsz h3 ht
  obtain ⟨d1, d2, d3, d4⟩ := c04_drift_conserves dt ps
  refine ⟨?_, ?_, ?_, ?_, ?_⟩
  · rw [lfKickDrift_size dt ps1 acc hsz, hs1]
  · rw [k1, d1]
  · rw [k2, d2]
  · rw [k3, d3]
  · rw [k4, d4, d2, add_assoc, ← add_smul]
    congr 2
    field_simp
    ring

/-- hence LEAPFROG conserves `M`, `P`, `L` exactly for *any number of steps*, and the centre of
    mass moves uniformly: `Σ m x` after `n` steps is `Σ m x + n·dt·P`. -/
theorem c04_leapfrog_steps (pref : K → Nat → Nat → K) (cfg : Cfg K) (dt : K) (h2 : (2 : K) ≠ 0)
    (n : Nat) (ps : Array (Part K)) (hall : cfg.nActive = ps.size) :
    (lfSteps pref cfg [0] dt n ps).size = ps.size ∧
    mass (lfSteps pref cfg [0] dt n ps) = mass ps ∧
    momentum (lfSteps pref cfg [0] dt n ps) = momentum ps ∧
    angmom (lfSteps pref cfg [0] dt n ps) = angmom ps ∧
    mxsum (lfSteps pref cfg [0] dt n ps) = mxsum ps + ((n : K) * dt) • momentum ps := by
  induction n generalizing ps with
  | zero => simp [lfSteps]
  | succ n ih =>
    obtain ⟨s1, s2, s3, s4, s5⟩ := c04_leapfrog_step pref cfg dt ps hall h2
    obtain ⟨t1, t2, t3, t4, t5⟩ := ih (lfStep pref cfg [0] dt ps) (by rw [s1]; exact hall)
    simp only [lfSteps]
    refine ⟨by rw [t1, s1], by rw [t2, s2], by rw [t3, s3], by rw [t4, s4], ?_⟩
    rw [t5, s5, s3, add_assoc, ← add_smul]
    congr 2
    push_cast
    ring

/-! ### the Wisdom–Holman family in Jacobi coordinates

  `eta m i = Σ_{k≤i} m_k`; `jacV N m x` = Jacobi coordinates of `x` (slot 0: centre of mass, slot
  `i ≥ 1`: `x_i −` centre of mass of bodies `0..i−1`, the map of `inertial_to_jacobi_*`);
  `muJ N m` = Jacobi masses (`M`, then `m_i η_{i−1}/η_i`).  `LJ`, `PJ` = angular momentum and
  momentum computed from a Jacobi state. -/
open RV.WH in
/-- Jacobi decomposition (∀ N): `Σ m_i v_i = M·V_0` and `Σ m_i x_i × v_i = M R×V + Σ_{i≥1} μ_i x'_i × v'_i`.
    So `PJ`, `LJ` of the Jacobi state held in `p_jh` *are* the inertial P and L.  Hypothesis: the
    running masses `η_i` the transformation divides by are non-zero. -/
theorem c04_jacobi_decomposition (N : Nat) (hN : 1 ≤ N) (m : Nat → K) (x v : Nat → V3 K)
    (h : ∀ i, i < N → eta m i ≠ 0) :
    (∑ i ∈ Finset.range N, m i • v i = PJ N m ⟨jacV N m x, jacV N m v⟩) ∧
    (∑ i ∈ Finset.range N, m i • V3.cross (x i) (v i) = LJ N m ⟨jacV N m x, jacV N m v⟩) :=
  ⟨momentum_jacobi N hN m v (h (N - 1) (by omega)), angmom_jacobi N hN m x v h⟩

open RV.WH RV.Transform in
/-- the declarative Jacobi map used above *is* the loop of `reb_particles_transform_inertial_to_jacobi_*`
    as modelled in RV/Model/Transform.lean (C12; tied bit for bit to transformations.c): for every
    Cartesian component, every number of (active) bodies, `jacFwd` returns the total mass and the
    mass-weighted mean in slot 0 and `jrel` — the component of `jacV` — in slot `i ≥ 1`.
    Hypothesis: the running masses the C code divides by are non-zero (`SumsNZ`). -/
theorem c04_jacobi_map_is_transformations_c (m0 x0 : K) (act : List (K × K)) (h : SumsNZ m0 act) :
    let l := (m0, x0) :: act
    (jacFwd m0 x0 act []).m0 = eta (mF l) act.length ∧
    (jacFwd m0 x0 act []).x0 = wsum (mF l) (fF l) act.length / eta (mF l) act.length ∧
    (jacFwd m0 x0 act []).act = (List.range act.length).map (fun k => jrel (mF l) (fF l) (k + 1)) :=
  jacFwd_decl m0 x0 act h

open RV.WH in
/-- components of the vector Jacobi coordinates are the scalar ones -/
theorem c04_jacV_components (N : Nat) (m : Nat → K) (x : Nat → V3 K) (i : Nat) (h1 : 1 ≤ i) :
    (jacV N m x i).x = jrel m (fun k => (x k).x) i ∧ (jacV N m x i).y = jrel m (fun k => (x k).y) i ∧
    (jacV N m x i).z = jrel m (fun k => (x k).z) i := by
  have hne : i ≠ 0 := by omega
  refine ⟨?_, ?_, ?_⟩ <;> simp [jacV, hne, jrel, wsumV_x, wsumV_y, wsumV_z] <;> ring

open RV.WH in
/-- `reb_whfast_com_step` conserves P and L and moves the centre of mass by `τ·V` -/
theorem c04_wh_com_step (N : Nat) (hN : 1 ≤ N) (m : Nat → K) (τ : K) (s : JS K) :
    LJ N m (comStep τ s) = LJ N m s ∧ PJ N m (comStep τ s) = PJ N m s ∧
    (comStep τ s).X 0 = s.X 0 + τ • s.V 0 :=
  com_conserves N hN m τ s

open RV.WH RV.Kepler in
/-- `reb_whfast_kepler_step` in Jacobi coordinates: if every Jacobi body `i ≥ 1` is advanced by the
    f-g update of RV/Model/Kepler.lean under the hypotheses of C03 (`KeplerStep`: the Stiefel
    relations hold and `X` solves the universal Kepler equation for that body's mass parameter), then
    P and L are conserved and the centre of mass is not moved.  Uses the f-g Wronskian (the statement
    of C03's `c03_fg_angular_momentum`, re-derived in RV/Proofs/WHKepler.lean from the lemmas of
    RV/Proofs/Kepler.lean). -/
theorem c04_wh_kepler_step (N : Nat) (hN : 1 ≤ N) (m : Nat → K) (s s' : JS K)
    (M dt : Nat → K) (r0 Xs : Nat → K) (g : Nat → Cs3 K)
    (h0 : s'.X 0 = s.X 0 ∧ s'.V 0 = s.V 0)
    (hk : ∀ i, 1 ≤ i → i < N →
      KeplerStep (M i) (dt i) (r0 i) (Xs i) ⟨(s.X i).x, (s.X i).y, (s.X i).z, (s.V i).x, (s.V i).y, (s.V i).z⟩ (g i) ∧
      newR (M i) (r0 i) ⟨(s.X i).x, (s.X i).y, (s.X i).z, (s.V i).x, (s.V i).y, (s.V i).z⟩ (g i) ≠ 0 ∧
      (let q := fgUpdate (M i) (1 / r0 i)
          (1 / newR (M i) (r0 i) ⟨(s.X i).x, (s.X i).y, (s.X i).z, (s.V i).x, (s.V i).y, (s.V i).z⟩ (g i))
          (dt i) (g i).c1 (g i).c2 (g i).c3 ⟨(s.X i).x, (s.X i).y, (s.X i).z, (s.V i).x, (s.V i).y, (s.V i).z⟩
       s'.X i = ⟨q.x, q.y, q.z⟩ ∧ s'.V i = ⟨q.vx, q.vy, q.vz⟩)) :
    LJ N m s' = LJ N m s ∧ PJ N m s' = PJ N m s ∧ s'.X 0 = s.X 0 := by
  apply kepler_conserves N hN m s s'
  refine ⟨h0.1, h0.2, ?_⟩
  intro i h1 h2
  obtain ⟨ks, rne, hx, hv⟩ := hk i h1 h2
  obtain ⟨l1, l2, l3⟩ := fg_angular_momentum' ks rne
  rw [hx, hv]
  ext
  · simpa [Lx] using l1
  · simpa [Ly] using l2
  · simpa [Lz] using l3

open RV.WH in
/-- `reb_whfast_interaction_step` in Jacobi coordinates (`p_j[i].v += dt·a'_i`, `a'` = the Jacobi
    transform of the inertial accelerations, plus the radial Jacobi term) with the forces of the BASIC
    loop nest of gravity.c, every particle active, any `gravity_ignore_terms` (WHFast uses 1): P and
    L are conserved, the centre of mass is not moved.  Chain: C02 Newton-3 + torque → Jacobi
    decomposition of `Σ m x×a` → `Σ_{i≥1} μ_i x'_i × a'_i = 0`. -/
theorem c04_wh_interaction_step (pref : K → Nat → Nat → K) (cfg : Cfg K) (N : Nat) (hN : 1 ≤ N)
    (m : Nat → K) (x : Nat → V3 K) (heta : ∀ i, i < N → eta m i ≠ 0) (hall : cfg.nActive = N)
    (a : Nat → V3 K) (ha : ∀ k, k < N → (accBasic pref cfg [0] (mkPs N m x))[k]? = some (a k))
    (τ : K) (c : Nat → K) (s s' : JS K) (h : InteractionLike N m τ x a c s s') :
    LJ N m s' = LJ N m s ∧ PJ N m s' = PJ N m s ∧ s'.X 0 = s.X 0 :=
  interaction_conserves N hN m heta τ x a c s s'
    (c02_basic_newton3 pref cfg [0] N m x hall a ha) (c02_basic_torque pref cfg N m x hall a ha) h

open RV.WH RV.WHInt RV.Transform in
/-- the executable model of `reb_whfast_interaction_step` (Jacobi coordinates; RV/Model/WHInt.lean, tied bit
    for bit to the exported C primitive) has exactly the shape `InteractionLike` postulates: the new
    velocity of Jacobi body `k+1` is `v + dt·(a' + c·x')`, where `a'` is the *declarative* Jacobi
    transform (`jrel`, the components of `jacV`) of the inertial accelerations and `c = rji·rj2i·G·η`
    (`0` for body 1) multiplies the body's own Jacobi position — a radial term that cannot change `x'×v'`.
    ∀ N; hypothesis: the running masses the acceleration transform divides by are non-zero. -/
theorem c04_wh_interaction_model (sqrt : K → K) (G soft dt m0 : K) (a0 : V3 K) (bodies : List (JB K))
    (as : List (V3 K)) (hlen : as.length = bodies.length)
    (hx : SumsNZ m0 ((bodies.map (·.m)).zip (as.map (·.x)))) (hy : SumsNZ m0 ((bodies.map (·.m)).zip (as.map (·.y))))
    (hz : SumsNZ m0 ((bodies.map (·.m)).zip (as.map (·.z)))) (k : Nat) (b : JB K) (hb : bodies[k]? = some b) :
    ∃ (A : V3 K) (c : K),
      (interactionJacobi sqrt G soft dt m0 a0 bodies as)[k]? = some (b.v + dt • (A + c • b.x)) ∧
      A.x = jrel (mF ((m0, a0.x) :: (bodies.map (·.m)).zip (as.map (·.x)))) (fF ((m0, a0.x) :: (bodies.map (·.m)).zip (as.map (·.x)))) (k + 1) ∧
      A.y = jrel (mF ((m0, a0.y) :: (bodies.map (·.m)).zip (as.map (·.y)))) (fF ((m0, a0.y) :: (bodies.map (·.m)).zip (as.map (·.y)))) (k + 1) ∧
      A.z = jrel (mF ((m0, a0.z) :: (bodies.map (·.m)).zip (as.map (·.z)))) (fF ((m0, a0.z) :: (bodies.map (·.m)).zip (as.map (·.z)))) (k + 1) ∧
      (k = 0 → c = 0) := by
  have hk : k < (bodies.map (·.m)).length := by
    rw [List.length_map]
    by_contra h
    have : bodies[k]? = none := by simp; omega
    rw [this] at hb; cases hb
  have hA := jacAcc_get m0 a0 (bodies.map (·.m)) as (by simpa using hlen) hx hy hz k hk
  refine ⟨⟨jrel (mF ((m0, a0.x) :: (bodies.map (·.m)).zip (as.map (·.x)))) (fF ((m0, a0.x) :: (bodies.map (·.m)).zip (as.map (·.x)))) (k + 1),
      jrel (mF ((m0, a0.y) :: (bodies.map (·.m)).zip (as.map (·.y)))) (fF ((m0, a0.y) :: (bodies.map (·.m)).zip (as.map (·.y)))) (k + 1),
      jrel (mF ((m0, a0.z) :: (bodies.map (·.m)).zip (as.map (·.z)))) (fF ((m0, a0.z) :: (bodies.map (·.m)).zip (as.map (·.z)))) (k + 1)⟩,
    coef sqrt G soft 1 m0 bodies k b, ?_, rfl, rfl, rfl, ?_⟩
  · exact kickLoop_get sqrt G soft dt bodies _ 1 m0 k b _ hb hA
  · intro h0; subst h0; simp [coef]

open RV.WH in
/-- hence **every schedule** made of Kepler steps (with or without the centre-of-mass step),
    interaction steps and force evaluations — the WHFast kernels and correctors, SABA, in Jacobi
    coordinates, as generated into RV/Gen/C01*.lean and replayed through the real primitives by
    C01/C09 — conserves P and L for any number of operators, keeps `V_com` and moves the centre
    of mass by (total centre-of-mass time)·`V_com`. -/
theorem c04_wh_schedule_conserves (N : Nat) (hN : 1 ≤ N) (m : Nat → K) (heta : ∀ i, i < N → eta m i ≠ 0)
    (ps : List (Prim K)) (s s' : JS K) (h : Runs N m ps s s') :
    LJ N m s' = LJ N m s ∧ PJ N m s' = PJ N m s ∧ s'.V 0 = s.V 0 ∧
    s'.X 0 = s.X 0 + comTime ps • s.V 0 :=
  runs_conserve N hN m heta ps s s' h

/-! ### democratic heliocentric coordinates (WHFast DH; frame of MERCURIUS / TRACE) -/

open RV.WH in
/-- DH decomposition (∀ N): `Σ m_i x_i × v_i = M R×V + Σ_{i≥1} m_i (x_i − x_0) × (v_i − V)` -/
theorem c04_dh_decomposition (N : Nat) (hN : 1 ≤ N) (m : Nat → K) (x v : Nat → V3 K) (hM : Mtot N m ≠ 0) :
    ∑ i ∈ Finset.range N, m i • V3.cross (x i) (v i)
      = LD N m ⟨Rcom N m x, Rcom N m v, fun i => x i - x 0, fun i => v i - Rcom N m v⟩ :=
  angmom_dh N hN m x v hM

open RV.WH in
/-- `reb_whfast_jump_step` in DH coordinates (every `Q_i += dt·(Σ_k m_k W_k)/m_0`) conserves L and P and
    does not touch the centre of mass: `Σ_i m_i δ × W_i = (dt/m_0) p × p = 0`. -/
theorem c04_dh_jump_step (N : Nat) (m : Nat → K) (τ : K) (s : DS K) :
    LD N m (jumpDH N m τ s) = LD N m s ∧ PD N m (jumpDH N m τ s) = PD N m s ∧
    (jumpDH N m τ s).R = s.R ∧ (jumpDH N m τ s).V = s.V :=
  jump_conserves N m τ s

open RV.WH in
/-- `reb_whfast_interaction_step` in DH coordinates (`W_i += dt·a_i`, `i ≥ 1`) with the forces of the
    BASIC loop nest for `gravity_ignore_terms = 2` (what WHFast-DH, MERCURIUS and TRACE request), every
    particle active: L and P are conserved and `Σ_{i≥1} m_i W_i` (hence the star's implicit velocity)
    is unchanged.  Uses `c02_basic_sources` (the star receives nothing), `c02_basic_newton3`,
    `c02_basic_torque`. -/
theorem c04_dh_interaction_step (kern : K → K) (soft : K) (tp : Bool) (N : Nat) (hN : 1 ≤ N)
    (m : Nat → K) (x : Nat → V3 K) (a : Nat → V3 K)
    (ha : ∀ k, k < N → (accBasic (fun s _ _ => kern s) ⟨N, tp, 2, soft⟩ [0] (mkPs N m x))[k]? = some (a k))
    (τ : K) (s : DS K) (hQ : ∀ i, s.Q i = x i - x 0) :
    LD N m (kickDH τ a s) = LD N m s ∧ PD N m (kickDH τ a s) = PD N m s ∧
    (∑ i ∈ Finset.Ico 1 N, m i • (kickDH τ a s).W i) = ∑ i ∈ Finset.Ico 1 N, m i • s.W i := by
  have ha0 : a 0 = 0 := by
    have h0 := ha 0 (by omega)
    rw [accBasic_declarative _ (fun _ _ _ => rfl) ⟨N, tp, 2, soft⟩ [0] (by intro G; simp) m x (le_refl N)
      (by simp) (by omega)] at h0
    rw [← Option.some.inj h0]
    simp [Src]
  exact kickDH_conserves N hN m τ x a s hQ ha0
    (c02_basic_newton3 _ ⟨N, tp, 2, soft⟩ [0] N m x rfl a ha)
    (c02_basic_torque _ ⟨N, tp, 2, soft⟩ N m x rfl a ha)

open RV.WH in
/-- Kepler step (each heliocentric body keeps its `Q×W`: f-g Wronskian) and com step in DH coordinates -/
theorem c04_dh_kepler_and_com (N : Nat) (m : Nat → K) (τ : K) (s s' : DS K) (hR : s'.R = s.R) (hV : s'.V = s.V)
    (h : ∀ i, 1 ≤ i → i < N → V3.cross (s'.Q i) (s'.W i) = V3.cross (s.Q i) (s.W i)) :
    (LD N m s' = LD N m s ∧ PD N m s' = PD N m s) ∧
    (LD N m { s with R := s.R + τ • s.V } = LD N m s ∧ PD N m { s with R := s.R + τ • s.V } = PD N m s) :=
  ⟨keplerDH_conserves N m s s' hR hV h, comDH_conserves N m τ s⟩

/-! ### merging collisions -/

/-! ### the executable jump and com steps of WHFast (tied bitwise to `reb_whfast_jump_step` / `reb_whfast_com_step`) -/

open RV.WH RV.WHJump in
/-- `reb_whfast_jump_step`, democratic heliocentric case, as modelled on the array `p_jh`
    (RV/Model/WHJump.lean, operation order of integrator_whfast.c:451-468; op `whjump dh` of drv_c04),
    for every `N_active ≤ N`, every `N_real`, masses incl. zero, test particles: the centre-of-mass slot,
    all masses and all velocities are untouched and every slot `1 ≤ i < N_real` is displaced by
    `(dt/m_0) Σ_{1 ≤ k < N_active} m_k W_k` — the momentum sum runs over the massive bodies only, the
    displacement reaches the test particles too. -/
theorem c04_dh_jump_model (N nAct nReal : Nat) (hN : 1 ≤ N) (hA : nAct ≤ N) (m : Nat → K) (τ : K) (s : DS K) :
    RV.WHJump.jumpDH τ nAct nReal (dsArr N m s)
      = dsArr N m { s with Q := fun i => if i < nReal then s.Q i + (τ / m 0) • ∑ k ∈ Finset.Ico 1 nAct, m k • s.W k
                                           else s.Q i } :=
  jumpDH_model N nAct nReal hN hA m τ s

open RV.WH RV.WHJump in
/-- with every particle active the executable jump step IS the declarative one of `c04_dh_jump_step`, so the
    code-level step conserves L and P and leaves the centre of mass alone. -/
theorem c04_dh_jump_model_conserves (N : Nat) (hN : 1 ≤ N) (m : Nat → K) (τ : K) (s : DS K) :
    RV.WHJump.jumpDH τ N N (dsArr N m s) = dsArr N m (RV.WH.jumpDH N m τ s)
    ∧ LD N m (RV.WH.jumpDH N m τ s) = LD N m s ∧ PD N m (RV.WH.jumpDH N m τ s) = PD N m s
    ∧ (RV.WH.jumpDH N m τ s).R = s.R ∧ (RV.WH.jumpDH N m τ s).V = s.V :=
  ⟨jumpDH_model_active N hN m τ s, jump_conserves N m τ s⟩

open RV.WH RV.WHJump in
/-- `reb_whfast_com_step` on the array (op `whjump com`) is `R += dt·V`; it conserves L and P. -/
theorem c04_wh_com_model (N : Nat) (hN : 1 ≤ N) (m : Nat → K) (τ : K) (s : DS K) :
    RV.WHJump.comStep τ (dsArr N m s) = dsArr N m { s with R := s.R + τ • s.V }
    ∧ LD N m { s with R := s.R + τ • s.V } = LD N m s ∧ PD N m { s with R := s.R + τ • s.V } = PD N m s :=
  ⟨comStep_model N hN m τ s, comDH_conserves N m τ s⟩

open RV.WH RV.WHJump in
/-- `reb_whfast_jump_step`, WHDS case (integrator_whfast.c:469-493; op `whjump whds`), in closed form for every
    `1 ≤ N_active ≤ N`, every `N_real`: with `p = Σ_{1≤k<N_active} m_k/(m_0+m_k) W_k` a massive body is displaced by
    `dt (p − m_i/(m_0+m_i) W_i)`, a test particle by `dt p`; slot 0, masses, velocities untouched.
    PARTIAL for conservation: that this displacement conserves L and P needs the WHDS canonical momenta
    (`W_i` = barycentric-scaled velocities) and their decomposition of L, which is not in the Lean development;
    for WHDS the conservation of the jump step remains asserted by the primitive-by-primitive search. -/
theorem c04_whds_jump_model_partial (N nAct nReal : Nat) (hN : 1 ≤ N) (hA1 : 1 ≤ nAct) (hA : nAct ≤ N)
    (m : Nat → K) (τ : K) (s : DS K) :
    RV.WHJump.jumpWHDS τ nAct nReal (dsArr N m s) = dsArr N m { s with Q := whdsQ nAct nReal m τ s } :=
  jumpWHDS_model N nAct nReal hN hA1 hA m τ s

open RV.WH RV.WHJump in
/-- non-vacuity: star + massive planet + one test particle (`N_active = 2 < N = 3`) over ℚ meets the
    hypotheses; the test particle (slot 2) is displaced by `(dt/m_0) m_1 W_1` although it is not in the sum. -/
example : ∃ (m : Nat → ℚ) (s : DS ℚ), (1 ≤ 3 ∧ 2 ≤ 3) ∧
    (RV.WHJump.jumpDH (1 : ℚ) 2 3 (dsArr 3 m s))[2]?
      = some ⟨m 2, s.Q 2 + ((1 : ℚ) / m 0) • ∑ k ∈ Finset.Ico 1 2, m k • s.W k, s.W 2⟩ := by
  refine ⟨fun i => if i = 0 then 1 else if i = 1 then 1 / 1000 else 0,
    ⟨0, 0, fun i => ⟨(i : ℚ), 0, 0⟩, fun i => ⟨0, (i : ℚ), 0⟩⟩, ⟨by decide, by decide⟩, ?_⟩
  rw [jumpDH_model 3 2 3 (by decide) (by decide)]
  rw [dsArr_get 3 _ _ (by decide : 2 < 3)]
  simp

/-! ### TRACE: the centre of mass across a rejected step -/

/-- centre-of-mass bookkeeping of `reb_integrator_trace_part2` (interaction/jump/Kepler/COM sequence):
    the stored centre of mass after the step is `com + dt·v_com` of the particles the step started
    from — the same for an accepted and for a rejected-and-redone step, and independent of what
    `ri_trace.com_pos` held before (a previous step, a restore, a new simulation, a user shift). -/
theorem c04_trace_rejected_step_com (dt : K) (nAct : Nat) (rejected : Bool) (stale : V3 K)
    (ps : Array (Part K)) :
    RV.TraceCom.part2Com dt nAct rejected stale ps = RV.TraceCom.comStep dt (RV.TraceCom.dhCom nAct ps) :=
  RV.TraceCom.part2Com_eq dt nAct rejected stale ps

/-- … and that is uniform motion: total mass × stored centre of mass = `Σ m x + dt Σ m v`, the
    stored velocity is `Σ m v / Σ m` (sums over the particles `inertial_to_dh` uses). -/
theorem c04_trace_step_com_uniform (dt : K) (nAct : Nat) (rejected : Bool) (stale : V3 K)
    (ps : Array (Part K)) (hM : ∑ i ∈ Finset.Ico 0 nAct, mOf ps i ≠ 0) :
    (∑ i ∈ Finset.Ico 0 nAct, mOf ps i) • (RV.TraceCom.part2Com dt nAct rejected stale ps).pos
      = ∑ i ∈ Finset.Ico 0 nAct, mOf ps i • xOf ps i + dt • ∑ i ∈ Finset.Ico 0 nAct, mOf ps i • vOf ps i
    ∧ (∑ i ∈ Finset.Ico 0 nAct, mOf ps i) • (RV.TraceCom.part2Com dt nAct rejected stale ps).vel
      = ∑ i ∈ Finset.Ico 0 nAct, mOf ps i • vOf ps i :=
  RV.TraceCom.part2Com_uniform dt nAct rejected stale ps hM

/-- `reb_collision_resolve_merge`: the survivor carries the summed mass, and its momentum and
    mass-weighted position are the sums of the pair's (so total `M`, `P`, `Σ m x` — hence the
    centre of mass — are unchanged).  `m_i + m_j ≠ 0` is the divisor of the C code. -/
theorem c04_merge_conserves (sqrt : K → K) (G : K) (pot : Bool) (vcom : V3 K) (pi pj : Part K)
    (hm : pi.m + pj.m ≠ 0) :
    (merge sqrt G pot vcom pi pj).p.m = pi.m + pj.m ∧
    (merge sqrt G pot vcom pi pj).p.m • (merge sqrt G pot vcom pi pj).p.v = pi.m • pi.v + pj.m • pj.v ∧
    (merge sqrt G pot vcom pi pj).p.m • (merge sqrt G pot vcom pi pj).p.x = pi.m • pi.x + pj.m • pj.x := by
  simp only [merge, sc_hadd, sc_hmul, sc_hdiv, sc_one]
  refine ⟨trivial, ?_, ?_⟩
  · ext <;> simp <;> field_simp <;> ring
  · ext <;> simp <;> field_simp <;> ring

/-- the energy bookkeeping of a merge: `dE` is (kinetic energy of the pair + its mutual potential
    energy when at least one of them is active) − (kinetic energy of the survivor), velocities
    taken in the frame shifted by `vcom` -/
theorem c04_merge_energy_offset (sqrt : K → K) (G : K) (pot : Bool) (vcom : V3 K) (pi pj : Part K) :
    (merge sqrt G pot vcom pi pj).dE
      = (1 / 2 : K) * pi.m * V3.dot (pi.v + vcom) (pi.v + vcom) + (1 / 2 : K) * pj.m * V3.dot (pj.v + vcom) (pj.v + vcom)
        + (if pot then -(G * pi.m * pj.m) / sqrt (V3.dot (pi.x - pj.x) (pi.x - pj.x)) else 0)
        - (1 / 2 : K) * (pi.m + pj.m) * V3.dot ((merge sqrt G pot vcom pi pj).p.v + vcom)
            ((merge sqrt G pot vcom pi pj).p.v + vcom) := by
  cases pot <;> simp [merge, half, V3.dot] <;> ring

/-! ### non-vacuity: two unit masses and a massless body over ℚ satisfy the hypotheses of
    `c04_com_def` with `gt0 = (· > 0)`, and `2 ≠ 0`. -/
example : (2 : ℚ) ≠ 0 ∧
    (let ps : Array (Part ℚ) := #[⟨0, ⟨1, 0, 0⟩, ⟨0, 1, 0⟩⟩, ⟨1, ⟨0, 2, 0⟩, ⟨0, 0, 1⟩⟩, ⟨1, ⟨0, 0, 3⟩, ⟨1, 0, 0⟩⟩]
     ∀ n, 1 ≤ n → n ≤ ps.size →
      (decide (preM ps n > 0) = true ∧ preM ps n ≠ 0) ∨ (decide (preM ps n > 0) = false ∧ ∀ i, i < n → mOf ps i = 0)) := by
  refine ⟨by norm_num, ?_⟩
  intro ps n h1 h2
  have : n = 1 ∨ n = 2 ∨ n = 3 := by simp [ps] at h2; omega
  rcases this with rfl | rfl | rfl
  · right; simp [preM, mOf, ps, Finset.sum_range_succ]
  · left; simp [preM, mOf, ps, Finset.sum_range_succ]
  · left; simp [preM, mOf, ps, Finset.sum_range_succ] <;> norm_num

end RV.Diag
