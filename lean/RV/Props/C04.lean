import RV.Proofs.Diag
import RV.Props.C02
/-
  C04 — isolated systems conserve momentum, angular momentum and (as advertised) energy;
  the diagnostics return the defined quantities.

  Statements are about RV/Model/Diag.lean and RV/Model/Gravity.lean (the definitions that
  `drv_c04` runs on IEEE doubles against tools.c, collision.c and whole LEAPFROG steps),
  instantiated at an arbitrary field `K`: exact arithmetic, every number of particles, every
  number of steps.  `mOf/xOf/vOf ps i` are the mass, position, velocity of particle `i`;
  `mass`, `momentum`, `angmom`, `mxsum` are the defining sums `Σ m`, `Σ m v`, `Σ m x×v`, `Σ m x`.
-/
set_option linter.unusedTactic false
set_option linter.unreachableTactic false
set_option linter.unnecessarySeqFocus false
set_option linter.unusedVariables false
set_option linter.unusedSectionVars false
set_option linter.unusedSimpArgs false
namespace RV.Diag
open RV RV.Gravity
variable {K : Type} [Field K]

/-! ### the diagnostics return the defined quantities -/

/-- `reb_simulation_angular_momentum` = `Σ_i m_i x_i × v_i` over *all* particles (test particles
    included with whatever mass they carry) -/
theorem c04_angular_momentum_def (ps : Array (Part K)) : angularMomentum ps = angmom ps := by
  unfold angularMomentum angmom
  rw [forRange_add 0 ps.size _ (fun i => mOf ps i • V3.cross (xOf ps i) (vOf ps i))]
  · simp
  · intro L i _ hi
    simp only [mOf, xOf, vOf, Array.getElem?_eq_getElem hi, sc_hadd, sc_hsub, sc_hmul]
    ext <;> simp

/-- `reb_simulation_energy` = kinetic energy of the interacting particles
    (`N_interact = N_active` for testparticle_type 0, `N` for type 1) minus `G m_i m_j / r_ij` over
    the pairs `i < j` with `i` active and `j` interacting, plus `energy_offset`. -/
theorem c04_energy_def (sqrt : K → K) (G off : K) (nActive : Nat) (tp : Bool) (ps : Array (Part K))
    (hNa : nActive ≤ ps.size) :
    energy sqrt G off nActive tp ps
      = (∑ i ∈ Finset.Ico 0 (if tp then ps.size else nActive),
            (1 / 2 : K) * mOf ps i * ((vOf ps i).x * (vOf ps i).x + (vOf ps i).y * (vOf ps i).y + (vOf ps i).z * (vOf ps i).z))
        + (∑ i ∈ Finset.Ico 0 nActive, ∑ j ∈ Finset.Ico (i + 1) (if tp then ps.size else nActive),
            -(G * mOf ps j * mOf ps i / sqrt (((xOf ps i).x - (xOf ps j).x) * ((xOf ps i).x - (xOf ps j).x)
              + ((xOf ps i).y - (xOf ps j).y) * ((xOf ps i).y - (xOf ps j).y)
              + ((xOf ps i).z - (xOf ps j).z) * ((xOf ps i).z - (xOf ps j).z))))
        + off := by
  unfold energy
  have hint : (if tp = true then ps.size else nActive) ≤ ps.size := by split_ifs <;> omega
  simp only [sc_hadd]
  congr 1
  congr 1
  · rw [forRange_add 0 _ _ (fun i => (1 / 2 : K) * mOf ps i * ((vOf ps i).x * (vOf ps i).x
      + (vOf ps i).y * (vOf ps i).y + (vOf ps i).z * (vOf ps i).z))]
    · simp
    · intro L i _ hi
      have hi' : i < ps.size := by omega
      simp [mOf, vOf, Array.getElem?_eq_getElem hi', half]
  · rw [forRange_add 0 nActive _ (fun i => ∑ j ∈ Finset.Ico (i + 1) (if tp then ps.size else nActive),
      -(G * mOf ps j * mOf ps i / sqrt (((xOf ps i).x - (xOf ps j).x) * ((xOf ps i).x - (xOf ps j).x)
        + ((xOf ps i).y - (xOf ps j).y) * ((xOf ps i).y - (xOf ps j).y)
        + ((xOf ps i).z - (xOf ps j).z) * ((xOf ps i).z - (xOf ps j).z))))]
    · simp
    · intro L i _ hi
      have hi' : i < ps.size := by omega
      simp only [Array.getElem?_eq_getElem hi']
      rw [forRange_add]
      intro L j _ hj
      have hj' : j < ps.size := by omega
      simp [mOf, xOf, Array.getElem?_eq_getElem hi', Array.getElem?_eq_getElem hj', sub_eq_add_neg]

/-- running mass and mass-weighted sums of the first `n` particles -/
def preM (ps : Array (Part K)) (n : Nat) : K := ∑ i ∈ Finset.range n, mOf ps i

/-- `reb_simulation_com`: the returned particle carries the total mass, and (mass × its
    position / velocity) is `Σ m x` / `Σ m v`.  Hypothesis: at every stage of the running
    pairwise combination the `m > 0` test of `reb_particle_com_of_pair` succeeds on a
    non-zero mass, or fails with all masses so far equal to zero (true for non-negative
    masses over an ordered field, where the result is then the centre of mass itself). -/
theorem c04_com_def (gt0 : K → Bool) (ps : Array (Part K))
    (hpre : ∀ n, 1 ≤ n → n ≤ ps.size →
      (gt0 (preM ps n) = true ∧ preM ps n ≠ 0) ∨ (gt0 (preM ps n) = false ∧ ∀ i, i < n → mOf ps i = 0)) :
    (com gt0 ps).m = mass ps ∧ (com gt0 ps).m • (com gt0 ps).x = mxsum ps ∧
    (com gt0 ps).m • (com gt0 ps).v = momentum ps := by
  unfold com comRange forRange mass mxsum momentum
  simp only [Nat.sub_zero]
  -- invariant over the prefix length
  have key : ∀ n, n ≤ ps.size →
      let c := (List.range' 0 n).foldl (fun com i => match ps[i]? with
        | some p => comOfPair gt0 com p
        | none => com) (⟨Scalar.zero, V3.zero, V3.zero⟩ : Part K)
      c.m = ∑ i ∈ Finset.range n, mOf ps i ∧
      c.m • c.x = ∑ i ∈ Finset.range n, mOf ps i • xOf ps i ∧
      c.m • c.v = ∑ i ∈ Finset.range n, mOf ps i • vOf ps i := by
    intro n
    induction n with
    | zero => intro _; simp
    | succ n ih =>
      intro hn
      have hn' : n < ps.size := by omega
      obtain ⟨i1, i2, i3⟩ := ih (by omega)
      have hr : List.range' 0 (n + 1) = List.range' 0 n ++ [n] := by
        rw [List.range'_concat]; simp
      simp only [hr, List.foldl_append, List.foldl_cons, List.foldl_nil, Array.getElem?_eq_getElem hn']
      set c := (List.range' 0 n).foldl (fun com i => match ps[i]? with
        | some p => comOfPair gt0 com p
        | none => com) (⟨Scalar.zero, V3.zero, V3.zero⟩ : Part K) with hc
      have hm : mOf ps n = ps[n].m := by simp [mOf, Array.getElem?_eq_getElem hn']
      have hx : xOf ps n = ps[n].x := by simp [xOf, Array.getElem?_eq_getElem hn']
      have hv : vOf ps n = ps[n].v := by simp [vOf, Array.getElem?_eq_getElem hn']
      have hM : c.m + ps[n].m = preM ps (n + 1) := by
        simp only [preM, Finset.sum_range_succ, ← i1, hm]
      rcases hpre (n + 1) (by omega) hn with ⟨hg, hne⟩ | ⟨hg, hz⟩
      · rw [← hM] at hg hne
        simp only [comOfPair, sc_hadd, sc_hmul, sc_hdiv, hg, if_true, Finset.sum_range_succ, ← i1, ← i2, ← i3,
          hm, hx, hv]
        refine ⟨trivial, ?_, ?_⟩
        · ext <;> simp <;> field_simp <;> ring
        · ext <;> simp <;> field_simp <;> ring
      · rw [← hM] at hg
        have hz' : ∀ i, i < n + 1 → mOf ps i = 0 := hz
        have hcm : c.m = 0 := by rw [i1]; apply Finset.sum_eq_zero; intro i hi; exact hz' i (by have := Finset.mem_range.mp hi; omega)
        have hpn : ps[n].m = 0 := by rw [← hm]; exact hz' n (by omega)
        simp only [comOfPair, sc_hadd, sc_hmul, sc_hdiv, hg, Finset.sum_range_succ, ← i1, ← i2, ← i3,
          hm, hx, hv, hcm, hpn]
        refine ⟨by simp, ?_, ?_⟩
        · ext <;> simp
        · ext <;> simp
  exact key ps.size (le_refl _)

/-! ### primitives -/

/-- drift (`x += τ v`, here τ = dt/2 as in LEAPFROG part 1) preserves mass, momentum and
    angular momentum and moves `Σ m x` by `τ · P` -/
theorem c04_drift_conserves (dt : K) (ps : Array (Part K)) :
    mass (lfDrift dt ps) = mass ps ∧ momentum (lfDrift dt ps) = momentum ps ∧
    angmom (lfDrift dt ps) = angmom ps ∧
    mxsum (lfDrift dt ps) = mxsum ps + ((1 / 2 : K) * dt) • momentum ps :=
  ⟨mass_drift dt ps, momentum_drift dt ps, angmom_drift dt ps, mxsum_drift dt ps⟩

/-- kick (+ half drift, LEAPFROG part 2) with *any* accelerations satisfying Newton's third law
    (`Σ m a = 0`) and vanishing total torque (`Σ m x×a = 0`) preserves `P` and `L` -/
theorem c04_kick_conserves (dt : K) (ps : Array (Part K)) (acc : Acc K) (hs : acc.size = ps.size)
    (h3 : ∑ i ∈ Finset.range ps.size, mOf ps i • aOf acc i = 0)
    (ht : ∑ i ∈ Finset.range ps.size, mOf ps i • V3.cross (xOf ps i) (aOf acc i) = 0) :
    mass (lfKickDrift dt ps acc) = mass ps ∧
    momentum (lfKickDrift dt ps acc) = momentum ps ∧ angmom (lfKickDrift dt ps acc) = angmom ps ∧
    mxsum (lfKickDrift dt ps acc) = mxsum ps + ((1 / 2 : K) * dt) • momentum ps := by
  have hP : momentum (lfKickDrift dt ps acc) = momentum ps := by
    rw [momentum_kick dt ps acc hs, h3]; simp
  refine ⟨mass_kick dt ps acc hs, hP, ?_, ?_⟩
  · rw [angmom_kick dt ps acc hs, ht]; simp
  · rw [mxsum_kick dt ps acc hs, hP]

/-! ### LEAPFROG with the BASIC force routine of gravity.c -/

/-- one LEAPFROG step (drift – BASIC forces – kick – drift) of an isolated system in which every
    particle is active, without ghost boxes: `P' = P`, `L' = L`, `M' = M`, `Σ m x` advances by
    `dt · P`.  Uses C02's Newton-3 and torque theorems about the BASIC loop nest. -/
theorem c04_leapfrog_step (pref : K → Nat → Nat → K) (cfg : Cfg K) (dt : K) (ps : Array (Part K))
    (hall : cfg.nActive = ps.size) (h2 : (2 : K) ≠ 0) :
    (lfStep pref cfg [0] dt ps).size = ps.size ∧
    mass (lfStep pref cfg [0] dt ps) = mass ps ∧
    momentum (lfStep pref cfg [0] dt ps) = momentum ps ∧
    angmom (lfStep pref cfg [0] dt ps) = angmom ps ∧
    mxsum (lfStep pref cfg [0] dt ps) = mxsum ps + dt • momentum ps := by
  unfold lfStep
  set ps1 := lfDrift dt ps with hps1
  have hs1 : ps1.size = ps.size := lfDrift_size dt ps
  set acc := accBasic pref cfg [0] (bodies ps1) with hacc
  have hsz : acc.size = ps1.size := by
    rw [hacc, accBasic_size]; simp [bodies]
  have hget : ∀ k, k < ps1.size →
      (accBasic pref cfg [0] (mkPs ps1.size (mOf ps1) (xOf ps1)))[k]? = some (aOf acc k) := by
    intro k hk
    rw [← bodies_eq, ← hacc]
    have : k < acc.size := by omega
    simp [aOf, Array.getElem?_eq_getElem this]
  have h3 := c02_basic_newton3 pref cfg [0] ps1.size (mOf ps1) (xOf ps1) (by omega) (aOf acc) hget
  have ht := c02_basic_torque pref cfg ps1.size (mOf ps1) (xOf ps1) (by omega) (aOf acc) hget
  obtain ⟨k1, k2, k3, k4⟩ := c04_kick_conserves dt ps1 acc hsz h3 ht
  obtain ⟨d1, d2, d3, d4⟩ := c04_drift_conserves dt ps
  refine ⟨?_, ?_, ?_, ?_, ?_⟩
  · rw [lfKickDrift_size dt ps1 acc hsz, hs1]
  · rw [k1, d1]
  · rw [k2, d2]
  · rw [k3, d3]
  · rw [k4, d4, d2, add_assoc, ← add_smul]
    congr 2
    field_simp
    ring

/-- hence LEAPFROG conserves `M`, `P`, `L` exactly for *any number of steps*, and the centre of
    mass moves uniformly: `Σ m x` after `n` steps is `Σ m x + n·dt·P`. -/
theorem c04_leapfrog_steps (pref : K → Nat → Nat → K) (cfg : Cfg K) (dt : K) (h2 : (2 : K) ≠ 0)
    (n : Nat) (ps : Array (Part K)) (hall : cfg.nActive = ps.size) :
    (lfSteps pref cfg [0] dt n ps).size = ps.size ∧
    mass (lfSteps pref cfg [0] dt n ps) = mass ps ∧
    momentum (lfSteps pref cfg [0] dt n ps) = momentum ps ∧
    angmom (lfSteps pref cfg [0] dt n ps) = angmom ps ∧
    mxsum (lfSteps pref cfg [0] dt n ps) = mxsum ps + ((n : K) * dt) • momentum ps := by
  induction n generalizing ps with
  | zero => simp [lfSteps]
  | succ n ih =>
    obtain ⟨s1, s2, s3, s4, s5⟩ := c04_leapfrog_step pref cfg dt ps hall h2
    obtain ⟨t1, t2, t3, t4, t5⟩ := ih (lfStep pref cfg [0] dt ps) (by rw [s1]; exact hall)
    simp only [lfSteps]
    refine ⟨by rw [t1, s1], by rw [t2, s2], by rw [t3, s3], by rw [t4, s4], ?_⟩
    rw [t5, s5, s3, add_assoc, ← add_smul]
    congr 2
    push_cast
    ring

/-! ### merging collisions -/

/-- `reb_collision_resolve_merge`: the survivor carries the summed mass, and its momentum and
    mass-weighted position are the sums of the pair's (so total `M`, `P`, `Σ m x` — hence the
    centre of mass — are unchanged).  `m_i + m_j ≠ 0` is the divisor of the C code. -/
theorem c04_merge_conserves (sqrt : K → K) (G : K) (pot : Bool) (vcom : V3 K) (pi pj : Part K)
    (hm : pi.m + pj.m ≠ 0) :
    (merge sqrt G pot vcom pi pj).p.m = pi.m + pj.m ∧
    (merge sqrt G pot vcom pi pj).p.m • (merge sqrt G pot vcom pi pj).p.v = pi.m • pi.v + pj.m • pj.v ∧
    (merge sqrt G pot vcom pi pj).p.m • (merge sqrt G pot vcom pi pj).p.x = pi.m • pi.x + pj.m • pj.x := by
  simp only [merge, sc_hadd, sc_hmul, sc_hdiv, sc_one]
  refine ⟨trivial, ?_, ?_⟩
  · ext <;> simp <;> field_simp <;> ring
  · ext <;> simp <;> field_simp <;> ring

/-- the energy bookkeeping of a merge: `dE` is (kinetic energy of the pair + its mutual potential
    energy when at least one of them is active) − (kinetic energy of the survivor), velocities
    taken in the frame shifted by `vcom` -/
theorem c04_merge_energy_offset (sqrt : K → K) (G : K) (pot : Bool) (vcom : V3 K) (pi pj : Part K) :
    (merge sqrt G pot vcom pi pj).dE
      = (1 / 2 : K) * pi.m * V3.dot (pi.v + vcom) (pi.v + vcom) + (1 / 2 : K) * pj.m * V3.dot (pj.v + vcom) (pj.v + vcom)
        + (if pot then -(G * pi.m * pj.m) / sqrt (V3.dot (pi.x - pj.x) (pi.x - pj.x)) else 0)
        - (1 / 2 : K) * (pi.m + pj.m) * V3.dot ((merge sqrt G pot vcom pi pj).p.v + vcom)
            ((merge sqrt G pot vcom pi pj).p.v + vcom) := by
  cases pot <;> simp [merge, half, V3.dot] <;> ring

/-! ### non-vacuity: two unit masses and a massless body over ℚ satisfy the hypotheses of
    `c04_com_def` with `gt0 = (· > 0)`, and `2 ≠ 0`. -/
example : (2 : ℚ) ≠ 0 ∧
    (let ps : Array (Part ℚ) := #[⟨0, ⟨1, 0, 0⟩, ⟨0, 1, 0⟩⟩, ⟨1, ⟨0, 2, 0⟩, ⟨0, 0, 1⟩⟩, ⟨1, ⟨0, 0, 3⟩, ⟨1, 0, 0⟩⟩]
     ∀ n, 1 ≤ n → n ≤ ps.size →
      (decide (preM ps n > 0) = true ∧ preM ps n ≠ 0) ∨ (decide (preM ps n > 0) = false ∧ ∀ i, i < n → mOf ps i = 0)) := by
  refine ⟨by norm_num, ?_⟩
  intro ps n h1 h2
  have : n = 1 ∨ n = 2 ∨ n = 3 := by simp [ps] at h2; omega
  rcases this with rfl | rfl | rfl
  · right; simp [preM, mOf, ps, Finset.sum_range_succ]
  · left; simp [preM, mOf, ps, Finset.sum_range_succ]
  · left; simp [preM, mOf, ps, Finset.sum_range_succ]; norm_num

end RV.Diag
