import RV.Proofs.Rotation
import RV.Proofs.RotationAxes
import RV.Proofs.RotationSlerp
import RV.Proofs.Frame
import RV.Proofs.Units
import RV.Proofs.UnitsState
import RV.Gen.C20UnitsFns
import Mathlib.Analysis.Real.Sqrt
import Mathlib.Analysis.SpecialFunctions.Trigonometric.Inverse
/-
  C20 — changes of units and of reference frame are exact symmetries.

  All statements are about the definitions in RV/Model/{Units,Rotation,Frame}.lean — the
  same ones `drv_c20` runs on IEEE doubles against rebound/units.py, src/rotations.c and
  src/tools.c — instantiated in exact arithmetic:
    * units: any field; the unit tables are the ones regenerated from rebound/units.py on
      every run (RV/Gen/C20Units.lean), compared with the committed independent reference;
    * rotations: any field for the algebra; a linearly ordered field with an abstract
      `sqrt`, `sin`, `cos` for the constructors, the hypotheses `SqrtSpec` / `TrigSpec`
      saying exactly what is used of them; section 7 instantiates them at ℝ with
      `Real.sqrt`, `Real.sin`, `Real.cos`;
    * frame shifts: any linearly ordered field, every number of particles.
-/
set_option linter.unusedTactic false
set_option linter.unreachableTactic false
set_option linter.unnecessarySeqFocus false
set_option linter.unusedVariables false
set_option linter.unusedSimpArgs false
set_option linter.unusedSectionVars false

namespace RV.C20
open RV RV.Units RV.Rot RV.Frame RV.Gen.C20 RV.Gen.C20Fns RV.UnitsState

/-! ## 1. units: algebra (any field, hence every unit triple) -/
section
variable {K : Type} [Field K]

/-- `convert_G` yields `G_SI · M · T² / L³` -/
theorem c20_convertG_formula (g L T M : K) : convertG g L T M = g * M * T ^ 2 / L ^ 3 := by
  simp only [convertG, p_powi, sc_hmul, sc_hdiv]

/-- the SI system itself has `G = G_SI` -/
theorem c20_convertG_SI (g : K) : convertG g 1 1 1 = g := by
  simp [convertG]

/-- consistency with SI (Newton's law is covariant): the acceleration `G m / r²` computed
    in the old system and converted equals `G' m' / r'²` computed from the converted mass
    and distance with the new system's `G' = convert_G`.  For every pair of unit triples. -/
theorem c20_newton_covariant (g m r L T M L' T' M' : K)
    (hL : L ≠ 0) (hT : T ≠ 0) (hM : M ≠ 0) (hL' : L' ≠ 0) (hT' : T' ≠ 0) (hM' : M' ≠ 0) (hr : r ≠ 0) :
    convertAcc (convertG g L T M * m / (r * r)) L T L' T' =
      convertG g L' T' M' * convertMass m M M' / (convertLength r L L' * convertLength r L L') := by
  simp only [convertAcc, convertG, convertMass, convertLength, p_powi, sc_hmul, sc_hdiv]
  field_simp

/-- conversion of particle data is transitive: a → b → c equals a → c -/
theorem c20_convert_transitive (p : PData K) (aL aT aM bL bT bM cL cT cM : K)
    (hL : bL ≠ 0) (hT : bT ≠ 0) (hM : bM ≠ 0) :
    convertParticle (convertParticle p aL aT aM bL bT bM) bL bT bM cL cT cM =
      convertParticle p aL aT aM cL cT cM := by
  simp only [convertParticle, convertMass, convertLength, convertVel, convertAcc, p_powi, sc_hmul, sc_hdiv]
  congr 1 <;> field_simp

/-- conversion of particle data is reversible: a → b → a is the identity -/
theorem c20_convert_reversible (p : PData K) (aL aT aM bL bT bM : K)
    (hL : bL ≠ 0) (hT : bT ≠ 0) (hM : bM ≠ 0) (hL' : aL ≠ 0) (hT' : aT ≠ 0) (hM' : aM ≠ 0) :
    convertParticle (convertParticle p aL aT aM bL bT bM) bL bT bM aL aT aM = p := by
  cases p
  simp only [convertParticle, convertMass, convertLength, convertVel, convertAcc, p_powi, sc_hmul, sc_hdiv]
  congr 1 <;> field_simp

/-- the orbital period in seconds, `2π √(a³/(G m)) · T`, does not depend on the unit system
    (stated without the square root: `a³/(G m) · T²` is invariant) -/
theorem c20_period_invariant (g a m L T M L' T' M' : K)
    (hg : g ≠ 0) (hm : m ≠ 0) (ha : a ≠ 0)
    (hL : L ≠ 0) (hT : T ≠ 0) (hM : M ≠ 0) (hL' : L' ≠ 0) (hT' : T' ≠ 0) (hM' : M' ≠ 0) :
    (convertLength a L L') ^ 3 / (convertG g L' T' M' * convertMass m M M') * T' ^ 2 =
      a ^ 3 / (convertG g L T M * m) * T ^ 2 := by
  simp only [convertG, convertMass, convertLength, p_powi, sc_hmul, sc_hdiv]
  field_simp

/-- the phase of an orbit given by a time of pericentre passage does not depend on the unit system: the squared
    mean anomaly `n² (t−T)² = G (M+m)/a³ · (t−T)²` computed from converted mass, semi-major axis and time difference
    with the new system's `G` equals the one computed in the old system; computed **without** `G` (Kepler's third
    law "for G = 1") it changes by the ratio of the two gravitational constants — what a formula that forgets
    `simulation.G` does in any unit system with `G ≠ 1` -/
theorem c20_mean_anomaly_from_T_invariant (g a mt dt L T M L' T' M' : K)
    (hg : g ≠ 0) (ha : a ≠ 0)
    (hL : L ≠ 0) (hT : T ≠ 0) (hM : M ≠ 0) (hL' : L' ≠ 0) (hT' : T' ≠ 0) (hM' : M' ≠ 0) :
    convertG g L' T' M' * convertMass mt M M' / (convertLength a L L') ^ 3 * (dt * T / T') ^ 2 =
      convertG g L T M * mt / a ^ 3 * dt ^ 2 ∧
    convertMass mt M M' / (convertLength a L L') ^ 3 * (dt * T / T') ^ 2 =
      (mt / a ^ 3 * dt ^ 2) * (convertG g L T M / convertG g L' T' M') := by
  constructor <;>
    simp only [convertG, convertMass, convertLength, p_powi, sc_hmul, sc_hdiv] <;> field_simp

/-- `yr2pi = √(au³/GM_sun)` and `msun = GM_sun/G_SI` give `G = 1` exactly with lengths in au
    (`s` is any square root of `au³/GM_sun`) -/
theorem c20_G_one_au_yr2pi_msun (g au gm s : K) (hg : g ≠ 0) (hau : au ≠ 0) (hgm : gm ≠ 0)
    (hs : s * s = au ^ 3 / gm) : convertG g au s (gm / g) = 1 := by
  simp only [convertG, p_powi, sc_hmul, sc_hdiv]
  rw [pow_two, hs]; field_simp
end

/-! ## 2. units: the tables of rebound/units.py (regenerated every run) -/

/-- the translator understood every expression, and the extracted tables name exactly the
    units of the reference (a unit that disappears from the extraction, or a new unit
    without a reference value, fails here) -/
theorem c20_units_extraction_complete :
    parseErrors = 0 ∧
    lengthsF64.length = lengthsCount ∧ timesF64.length = timesCount ∧ massesF64.length = massesCount ∧
    (∀ n ∈ refNames refLengths, n ∈ names lengthsF64) ∧ (∀ n ∈ names lengthsF64, n ∈ refNames refLengths) ∧
    (∀ n ∈ refNames refTimes, n ∈ names timesF64) ∧ (∀ n ∈ names timesF64, n ∈ refNames refTimes) ∧
    (∀ n ∈ refNames refMasses ++ refNames refGM, n ∈ names massesF64) ∧
    (∀ n ∈ names massesF64, n ∈ refNames refMasses ++ refNames refGM) ∧
    (∀ n ∈ names lengthsExact ++ names lengthsSqrt, n ∈ names lengthsF64) ∧
    (∀ n ∈ names lengthsF64, n ∈ names lengthsExact ++ names lengthsSqrt) ∧
    (∀ n ∈ names timesExact ++ names timesSqrt, n ∈ names timesF64) ∧
    (∀ n ∈ names timesF64, n ∈ names timesExact ++ names timesSqrt) ∧
    (∀ n ∈ names massesExact ++ names massesSqrt, n ∈ names massesF64) ∧
    (∀ n ∈ names massesF64, n ∈ names massesExact ++ names massesSqrt) := by
  decide +kernel

/-- every unit and `G_SI` is positive (so every divisor of the conversion formulas is non-zero) -/
theorem c20_units_positive :
    (∀ e ∈ lengthsF64 ++ timesF64 ++ massesF64, 0 < val e) ∧ 0 < toQ gF64 ∧
    (∀ e ∈ lengthsExact ++ timesExact ++ massesExact, 0 < val e) ∧ 0 < toQ gExact := by
  decide +kernel

/-- unit names are unique across the three tables (`check_units` and `hash_to_unit` identify a
    unit's kind by its name) -/
theorem c20_units_names_unique :
    (names lengthsF64 ++ names timesF64 ++ names massesF64).Nodup := by
  decide +kernel

/-- aliases have identical values -/
theorem c20_units_aliases_equal :
    ∀ g ∈ aliasGroups, ∀ a ∈ g, ∀ b ∈ g,
      (lookup (lengthsF64 ++ timesF64 ++ massesF64) a).isSome ∧
      lookup (lengthsF64 ++ timesF64 ++ massesF64) a = lookup (lengthsF64 ++ timesF64 ++ massesF64) b := by
  decide +kernel

/-- every entry agrees with the independent reference within the reference's tolerance:
    lengths, times, kg/g directly; the masses defined as GM/G_SI through `mass · G_SI = GM`;
    `G_SI` against CODATA -/
theorem c20_units_within_reference :
    AllWithin lengthsF64 1 refLengths ∧ AllWithin timesF64 1 refTimes ∧
    AllWithin (massesF64.filter (fun e => e.1 ∈ refNames refMasses)) 1 refMasses ∧
    AllWithin (massesF64.filter (fun e => e.1 ∉ refNames refMasses)) (toQ gF64) refGM ∧
    Within (toQ gF64) (toQ refG.1) (toQ refG.2) := by
  decide +kernel

/-- the doubles the module holds are the correctly evaluated expression texts: within 2⁻⁵⁰
    relative of the exact rational value of the text; for entries written `math.sqrt(r)` the
    square of the double is within 2⁻⁵⁰ of `r` -/
theorem c20_units_f64_matches_text :
    (∀ e ∈ lengthsExact, ∃ f ∈ lengthsF64, f.1 = e.1 ∧ Within (val f) (val e) ulp4) ∧
    (∀ e ∈ timesExact, ∃ f ∈ timesF64, f.1 = e.1 ∧ Within (val f) (val e) ulp4) ∧
    (∀ e ∈ massesExact, ∃ f ∈ massesF64, f.1 = e.1 ∧ Within (val f) (val e) ulp4) ∧
    (∀ e ∈ lengthsSqrt ++ timesSqrt ++ massesSqrt,
        ∃ f ∈ lengthsF64 ++ timesF64 ++ massesF64, f.1 = e.1 ∧ Within (val f * val f) (val e) ulp4) ∧
    Within (toQ gF64) (toQ gExact) ulp4 := by
  decide +kernel

/-- what the literals give for the advertised `G = 1` systems.
    (au, yr2pi, msun): exactly 1 from the texts (`G_SI · msun · yr2pi² = au³` as rationals, yr2pi²
    being the radicand), and within 10⁻¹⁴ of 1 from the doubles;
    (au, day, massist): within 10⁻¹² of 1; the Sun is 2.959122e-4 massist -/
theorem c20_units_G_one :
    (∃ au ∈ lookup lengthsExact "au", ∃ ms ∈ lookup massesExact "msun", ∃ r ∈ lookup timesSqrt "yr2pi",
        toQ gExact * ms * r = au ^ 3) ∧
    (∃ au ∈ lookup lengthsF64 "au", ∃ ms ∈ lookup massesF64 "msun", ∃ y ∈ lookup timesF64 "yr2pi",
        Within (toQ gF64 * ms * y ^ 2 / au ^ 3) 1 (1 / 100000000000000)) ∧
    (∃ au ∈ lookup lengthsF64 "au", ∃ ma ∈ lookup massesF64 "massist", ∃ d ∈ lookup timesF64 "day",
        Within (toQ gF64 * ma * d ^ 2 / au ^ 3) 1 (1 / 1000000000000)) ∧
    (∃ ms ∈ lookup massesF64 "msun", ∃ ma ∈ lookup massesF64 "massist",
        Within (ms / ma) (toQ refMsunInMassist.1) (toQ refMsunInMassist.2)) := by
  decide +kernel


/-! ## 2b. the conversion functions of rebound/units.py, translated from their source text on every run
    (RV/Gen/C20UnitsFns.lean), and the unit logic of rebound/simulation.py as a state machine -/

/-- the translator understood all six functions -/
theorem c20_units_functions_extracted :
    fnParseErrors = 0 ∧ fnTranslated = ["convert_mass", "convert_length", "convert_vel", "convert_acc",
      "convert_G", "units_convert_particle"] := by
  decide

section
variable {K : Type} [ScalarP K]
/-- the translated source *is* the model that `drv_c20` runs against the Python functions (for every
    scalar type, in particular IEEE doubles): statement-by-statement translation and hand-written
    model are definitionally equal.  A change of a formula in units.py breaks this theorem. -/
theorem c20_units_functions_are_the_model :
    (∀ x a b : K, genConvertMass x a b = convertMass x a b) ∧
    (∀ x a b : K, genConvertLength x a b = convertLength x a b) ∧
    (∀ x a b c d : K, genConvertVel x a b c d = convertVel x a b c d) ∧
    (∀ x a b c d : K, genConvertAcc x a b c d = convertAcc x a b c d) ∧
    (∀ g l t m : K, genConvertG g l t m = convertG g l t m) ∧
    (∀ (p : PData K) (a b c d e f : K), genConvertParticle p a b c d e f = convertParticle p a b c d e f) :=
  ⟨fun _ _ _ => rfl, fun _ _ _ => rfl, fun _ _ _ _ _ => rfl, fun _ _ _ _ _ => rfl, fun _ _ _ _ => rfl,
   fun _ _ _ _ _ _ _ => rfl⟩
end

section
variable {K : Type} [Field K]

/-- the monomial `L^a T^b M^c` with the dimension exponents `(a, b, c)` as data -/
def mono (e : ℤ × ℤ × ℤ) (rL rT rM : K) : K := rL ^ e.1 * rT ^ e.2.1 * rM ^ e.2.2

/-- dimension exponents (length, time, mass) of the particle fields `units_convert_particle` converts -/
def dimMass : ℤ × ℤ × ℤ := (0, 0, 1)
def dimLength : ℤ × ℤ × ℤ := (1, 0, 0)
def dimVel : ℤ × ℤ × ℤ := (1, -1, 0)
def dimAcc : ℤ × ℤ × ℤ := (1, -2, 0)
/-- G has dimension L³ T⁻² M⁻¹, so its numerical value scales with the *inverse* monomial of the units -/
def dimGinv : ℤ × ℤ × ℤ := (-3, 2, 1)

/-- each translated conversion function multiplies by the monomial of the unit ratios
    `old/new` with the exponents of its physical dimension; `convert_G` is `G_SI · L⁻³ T² M` -/
theorem c20_convert_is_monomial (x g L T M L' T' M' : K)
    (hL : L ≠ 0) (hT : T ≠ 0) (hM : M ≠ 0) (hL' : L' ≠ 0) (hT' : T' ≠ 0) (hM' : M' ≠ 0) :
    genConvertMass x M M' = x * mono dimMass (L / L') (T / T') (M / M') ∧
    genConvertLength x L L' = x * mono dimLength (L / L') (T / T') (M / M') ∧
    genConvertVel x L T L' T' = x * mono dimVel (L / L') (T / T') (M / M') ∧
    genConvertAcc x L T L' T' = x * mono dimAcc (L / L') (T / T') (M / M') ∧
    genConvertG g L T M = g * mono dimGinv L T M := by
  refine ⟨?_, ?_, ?_, ?_, ?_⟩ <;>
    simp only [genConvertMass, genConvertLength, genConvertVel, genConvertAcc, genConvertG, mono, dimMass,
      dimLength, dimVel, dimAcc, dimGinv, p_powi, sc_hmul, sc_hdiv, zpow_neg, zpow_ofNat, zpow_one, zpow_zero] <;>
    field_simp

/-- `units_convert_particle` converts every field with the exponents of its dimension:
    m ↦ M;  x, y, z, r ↦ L;  vx, vy, vz ↦ L T⁻¹;  ax, ay, az ↦ L T⁻² -/
theorem c20_convert_particle_dimensions (p : PData K) (L T M L' T' M' : K)
    (hL : L ≠ 0) (hT : T ≠ 0) (hM : M ≠ 0) (hL' : L' ≠ 0) (hT' : T' ≠ 0) (hM' : M' ≠ 0) :
    genConvertParticle p L T M L' T' M' =
      { m := p.m * mono dimMass (L / L') (T / T') (M / M'),
        x := p.x * mono dimLength (L / L') (T / T') (M / M'),
        y := p.y * mono dimLength (L / L') (T / T') (M / M'),
        z := p.z * mono dimLength (L / L') (T / T') (M / M'),
        r := p.r * mono dimLength (L / L') (T / T') (M / M'),
        vx := p.vx * mono dimVel (L / L') (T / T') (M / M'),
        vy := p.vy * mono dimVel (L / L') (T / T') (M / M'),
        vz := p.vz * mono dimVel (L / L') (T / T') (M / M'),
        ax := p.ax * mono dimAcc (L / L') (T / T') (M / M'),
        ay := p.ay * mono dimAcc (L / L') (T / T') (M / M'),
        az := p.az * mono dimAcc (L / L') (T / T') (M / M') } := by
  simp only [genConvertParticle]
  congr 1 <;> first
    | exact (c20_convert_is_monomial _ 0 L T M L' T' M' hL hT hM hL' hT' hM').1
    | exact (c20_convert_is_monomial _ 0 L T M L' T' M' hL hT hM hL' hT' hM').2.1
    | exact (c20_convert_is_monomial _ 0 L T M L' T' M' hL hT hM hL' hT' hM').2.2.1
    | exact (c20_convert_is_monomial _ 0 L T M L' T' M' hL hT hM hL' hT' hM').2.2.2.1

/-- unit conversion is linear in the particle data, field by field: a variational particle (the
    derivative of a particle) is converted correctly by the very same `units_convert_particle` —
    `convert (p + t·d) = convert p + t·convert d`.  (`convert_particle_units` loops over all N particles.) -/
theorem c20_convert_linear (p d : PData K) (t L T M L' T' M' : K) :
    let lin : PData K → PData K → PData K := fun a b =>
      ⟨a.m + t * b.m, a.x + t * b.x, a.y + t * b.y, a.z + t * b.z, a.r + t * b.r, a.vx + t * b.vx,
       a.vy + t * b.vy, a.vz + t * b.vz, a.ax + t * b.ax, a.ay + t * b.ay, a.az + t * b.az⟩
    genConvertParticle (lin p d) L T M L' T' M' =
      lin (genConvertParticle p L T M L' T' M') (genConvertParticle d L T M L' T' M') := by
  intro lin
  simp only [lin, genConvertParticle, genConvertMass, genConvertLength, genConvertVel, genConvertAcc, p_powi,
    sc_hmul, sc_hdiv]
  congr 1 <;> ring

/-! ### state machine of `Simulation.units`, `update_units`, `convert_particle_units`, `sim.G = …` -/

/-- setting units on an empty simulation always succeeds, stores the names, makes `G = convert_G`;
    doing it twice changes nothing; on a populated simulation it is refused; rejected unit tuples
    (`check_units` raises) change nothing -/
theorem c20_units_setter (gSI : K) (s : USim K) (u : UnitSys K) :
    (s.parts = [] →
      step gSI s (.setUnits (some u)) = .ok (updateUnits gSI s u) ∧
      step gSI (updateUnits gSI s u) (.setUnits (some u)) = .ok (updateUnits gSI s u) ∧
      (updateUnits gSI s u).units = some u ∧ Follows gSI (updateUnits gSI s u)) ∧
    (s.parts ≠ [] → step gSI s (.setUnits (some u)) = .error .populated) ∧
    step gSI s (.setUnits none) = .error .badUnits ∧
    (run gSI s [.setUnits none]).1 = s := by
  refine ⟨fun h => ⟨step_setUnits_ok gSI s u h, ?_, rfl, ?_⟩, fun h => ?_, rfl, rfl⟩
  · rw [step_setUnits_ok gSI _ u (by simpa [updateUnits] using h)]
    simp [updateUnits]
  · intro v hv
    simp only [updateUnits, Option.some.injEq] at hv
    subst hv; rfl
  · have : s.parts.length > 0 := List.length_pos_iff.mpr h
    simp [step, this]

/-- `G` follows the units: after a successful `convert_particle_units` the stored `G` is `convert_G` of
    the new units whatever it was before (a manually assigned `sim.G` is overwritten), the names are the
    new ones; without units it is refused -/
theorem c20_units_G_follows (gSI g : K) (s s1 : USim K) (u : UnitSys K) :
    (step gSI s (.convert (some u)) = .ok s1 → s1.units = some u ∧ Follows gSI s1) ∧
    (∀ s2, step gSI s (.setG g) = .ok s2 → step gSI s2 (.convert (some u)) = .ok s1 →
        s1.G = convertG gSI u.L u.T u.M) ∧
    (s.units = none → step gSI s (.convert (some u)) = .error .unitsNotSet) := by
  refine ⟨fun h => ?_, fun s2 h2 h => ?_, fun h => by simp [step, h]⟩
  · cases hu : s.units with
    | none => simp [step, hu] at h
    | some cur =>
      rw [step_convert_ok gSI s cur u hu] at h
      cases h
      refine ⟨rfl, ?_⟩
      intro v hv
      simp only [updateUnits, Option.some.injEq] at hv
      subst hv; rfl
  · simp only [step, Except.ok.injEq] at h2
    subst h2
    cases hu : s.units with
    | none => simp [step, hu] at h
    | some cur =>
      rw [step_convert_ok gSI _ cur u (by simpa using hu)] at h
      cases h; rfl

/-- converting A → B → A returns every particle, the units and `G = convert_G(A)`; converting to the
    units already in use changes nothing; A → B → C equals A → C (all unit values non-zero) -/
theorem c20_units_convert_roundtrip (gSI : K) (s : USim K) (a b c : UnitSys K) (hs : s.units = some a)
    (ha : a.L ≠ 0 ∧ a.T ≠ 0 ∧ a.M ≠ 0) (hb : b.L ≠ 0 ∧ b.T ≠ 0 ∧ b.M ≠ 0) :
    (∃ s1 s2, step gSI s (.convert (some b)) = .ok s1 ∧ step gSI s1 (.convert (some a)) = .ok s2 ∧
        s2.parts = s.parts ∧ s2.units = some a ∧ s2.G = convertG gSI a.L a.T a.M) ∧
    (∃ s1, step gSI s (.convert (some a)) = .ok s1 ∧ s1.parts = s.parts) ∧
    (∃ s1 s2 s3, step gSI s (.convert (some b)) = .ok s1 ∧ step gSI s1 (.convert (some c)) = .ok s2 ∧
        step gSI s (.convert (some c)) = .ok s3 ∧ s2.parts = s3.parts ∧ s2.units = s3.units ∧ s2.G = s3.G) := by
  refine ⟨⟨_, _, step_convert_ok gSI s a b hs, step_convert_ok gSI _ b a rfl, ?_, rfl, rfl⟩,
    ⟨_, step_convert_ok gSI s a a hs, ?_⟩,
    ⟨_, _, _, step_convert_ok gSI s a b hs, step_convert_ok gSI _ b c rfl, step_convert_ok gSI s a c hs, ?_, rfl, rfl⟩⟩
  · simp only [updateUnits, List.map_map, Function.comp_def]
    conv_rhs => rw [← List.map_id s.parts]
    apply List.map_congr_left; intro p _
    exact convertParticle_rev p _ _ _ _ _ _ hb.1 hb.2.1 hb.2.2 ha.1 ha.2.1 ha.2.2
  · simp only [updateUnits]
    conv_rhs => rw [← List.map_id s.parts]
    apply List.map_congr_left; intro p _
    exact convertParticle_same p _ _ _ ha.1 ha.2.1 ha.2.2
  · simp only [updateUnits, List.map_map, Function.comp_def]
    apply List.map_congr_left; intro p _
    exact convertParticle_trans p _ _ _ _ _ _ _ _ _ hb.1 hb.2.1 hb.2.2

end

/-! ## 3. quaternion algebra (any field) -/
section
variable {K : Type} [Field K]

/-- exact dot product of two rotated vectors for **any** quaternion `q`, `u = imag q`:
    `R v · R w = v · w + 4 (|q|² − 1) (u × v) · (u × w)` -/
theorem c20_rotate_dot_general (v w : V3 K) (q : Quat K) :
    dot (rotate v q) (rotate w q) =
      dot v w + 4 * (qlen2 q - 1) * dot (cross (imag q) v) (cross (imag q) w) :=
  rotate_dot_general v w q

/-- a unit quaternion preserves dot products — hence lengths, angles, relative geometry -/
theorem c20_rotate_preserves_dot (v w : V3 K) (q : Quat K) (h : qlen2 q = 1) :
    dot (rotate v q) (rotate w q) = dot v w := by
  rw [rotate_dot_general, h]; ring

/-- lengths and pairwise distances (hence kinetic and potential energy) are preserved -/
theorem c20_rotate_preserves_length_distance (v w : V3 K) (q : Quat K) (h : qlen2 q = 1) :
    len2 (rotate v q) = len2 v ∧
    len2 (V3.sub (rotate v q) (rotate w q)) = len2 (V3.sub v w) := by
  refine ⟨c20_rotate_preserves_dot v v q h, ?_⟩
  rw [← rotate_sub]; exact c20_rotate_preserves_dot _ _ q h

/-- rotations are linear -/
theorem c20_rotate_linear (v w : V3 K) (s : K) (q : Quat K) :
    rotate (vadd v w) q = vadd (rotate v q) (rotate w q) ∧ rotate (vmul v s) q = vmul (rotate v q) s :=
  ⟨rotate_add q v w, rotate_smul q v s⟩

/-- a unit quaternion commutes with the cross product (orientation preserved): angular
    momentum `m x × v` rotates as a vector, so its magnitude is preserved -/
theorem c20_rotate_cross (v w : V3 K) (q : Quat K) (h : qlen2 q = 1) :
    rotate (cross v w) q = cross (rotate v q) (rotate w q) ∧
    len2 (cross (rotate v q) (rotate w q)) = len2 (cross v w) := by
  refine ⟨rotate_cross q v w h, ?_⟩
  rw [← rotate_cross q v w h]; exact c20_rotate_preserves_dot _ _ q h

/-- composition: `rotate (p*q) v = rotate p (rotate q v)` -/
theorem c20_rotate_compose (p q : Quat K) (v : V3 K) (hp : qlen2 p = 1) (hq : qlen2 q = 1) :
    rotate v (qmul p q) = rotate (rotate v q) p := rotate_mul p q v hp hq

/-- the norm is multiplicative (products of unit quaternions are unit) -/
theorem c20_norm_multiplicative (p q : Quat K) : qlen2 (qmul p q) = qlen2 p * qlen2 q :=
  qlen2_mul p q

/-- `q * inverse q = inverse q * q = 1` for every non-zero quaternion; on unit quaternions the
    inverse is the conjugate -/
theorem c20_mul_inverse (q : Quat K) (h : qlen2 q ≠ 0) :
    qmul q (inverse q) = qid ∧ qmul (inverse q) q = qid ∧ (qlen2 q = 1 → inverse q = conj q) :=
  ⟨qmul_inverse q h, inverse_qmul q h, inverse_unit q⟩

/-- the identity rotates nothing; the inverse undoes the rotation -/
theorem c20_rotate_inverse (q : Quat K) (v : V3 K) (h : qlen2 q = 1) :
    rotate v (qid : Quat K) = v ∧ rotate (rotate v q) (inverse q) = v :=
  ⟨rotate_id v, rotate_inverse q v h⟩

/-- variational particles under `reb_simulation_irotate`: the rotation is linear, so the derivative of
    the rotated coordinates along a variation `d` is the rotated variation — `rotate (x + t d) = rotate x +
    t · rotate d` for every `t` (ε-part: `rotate d`), at first and (same linear map) second order.  The
    model rotates the whole particle array: real and variational particles alike, and nothing else. -/
theorem c20_rotate_variations (q : Quat K) (x d : V3 K) (t : K) (real var : List (V3 K × V3 K)) :
    rotate (vadd x (vmul d t)) q = vadd (rotate x q) (vmul (rotate d q) t) ∧
    rotateSim (real ++ var) q = rotateSim real q ++ rotateSim var q ∧
    (rotateSim (real ++ var) q).length = real.length + var.length ∧
    (∀ p ∈ var, (rotate p.1 q, rotate p.2 q) ∈ rotateSim (real ++ var) q) := by
  refine ⟨by rw [rotate_add, rotate_smul], by simp [rotateSim], by simp [rotateSim], ?_⟩
  intro p hp
  simp only [rotateSim, List.map_append, List.mem_append, List.mem_map, rotatePV]
  exact Or.inr ⟨p, hp, rfl⟩

/-- specific angular momentum `h = x × v` of a relative orbit -/
def hvec (x v : V3 K) : V3 K := cross x v
/-- Laplace–Runge–Lenz / eccentricity vector times μ: `v × h − μ x / r`, with `rinv = 1/|x|` -/
def lrl (mu rinv : K) (x v : V3 K) : V3 K := vadd (cross v (cross x v)) (vmul x (-(mu * rinv)))

/-- orbital elements are those of the rotated orbit: under a unit quaternion the angular momentum
    vector and the Laplace (eccentricity) vector of a two-body orbit rotate as vectors, so `|h|`,
    `e = |lrl|/μ`, the energy terms `|v|²` and `|x|²` (hence `a`), and the inclination measured
    from the rotated z axis (`h · z`) are unchanged -/
theorem c20_rotate_orbit_vectors (q : Quat K) (h : qlen2 q = 1) (x v z : V3 K) (mu rinv : K) :
    hvec (rotate x q) (rotate v q) = rotate (hvec x v) q ∧
    lrl mu rinv (rotate x q) (rotate v q) = rotate (lrl mu rinv x v) q ∧
    len2 (rotate x q) = len2 x ∧ len2 (rotate v q) = len2 v ∧
    len2 (hvec (rotate x q) (rotate v q)) = len2 (hvec x v) ∧
    len2 (lrl mu rinv (rotate x q) (rotate v q)) = len2 (lrl mu rinv x v) ∧
    dot (hvec (rotate x q) (rotate v q)) (rotate z q) = dot (hvec x v) z := by
  have hh : hvec (rotate x q) (rotate v q) = rotate (hvec x v) q := (rotate_cross q x v h).symm
  have hl : lrl mu rinv (rotate x q) (rotate v q) = rotate (lrl mu rinv x v) q := by
    simp only [lrl, rotate_add, rotate_smul, rotate_cross q _ _ h]
  refine ⟨hh, hl, c20_rotate_preserves_dot _ _ q h, c20_rotate_preserves_dot _ _ q h, ?_, ?_, ?_⟩
  · rw [hh]; exact c20_rotate_preserves_dot _ _ q h
  · rw [hl]; exact c20_rotate_preserves_dot _ _ q h
  · rw [hh]; exact c20_rotate_preserves_dot _ _ q h

/-- total angular momentum `Σ m (x × v)` of a particle list -/
def angMom : List K → List (V3 K × V3 K) → V3 K
  | m :: ms, p :: ps => vadd (vmul (cross p.1 p.2) m) (angMom ms ps)
  | _, _ => ⟨0, 0, 0⟩

/-- twice the kinetic energy `Σ m |v|²` -/
def kin2 : List K → List (V3 K × V3 K) → K
  | m :: ms, p :: ps => m * len2 p.2 + kin2 ms ps
  | _, _ => 0

/-- `reb_simulation_irotate` with a unit quaternion, every N: the kinetic energy is unchanged,
    the total angular momentum vector is rotated (so `|L|` is unchanged); pairwise
    distances — and with them the potential energy — by `c20_rotate_preserves_length_distance` -/
theorem c20_rotate_simulation (ms : List K) (ps : List (V3 K × V3 K)) (q : Quat K) (h : qlen2 q = 1) :
    kin2 ms (rotateSim ps q) = kin2 ms ps ∧
    angMom ms (rotateSim ps q) = rotate (angMom ms ps) q ∧
    len2 (angMom ms (rotateSim ps q)) = len2 (angMom ms ps) := by
  have hcons : ∀ (p : V3 K × V3 K) (ps : List (V3 K × V3 K)),
      rotateSim (p :: ps) q = (rotate p.1 q, rotate p.2 q) :: rotateSim ps q := fun _ _ => rfl
  have hnil : rotateSim ([] : List (V3 K × V3 K)) q = [] := rfl
  have hz : rotate (⟨0, 0, 0⟩ : V3 K) q = ⟨0, 0, 0⟩ := by
    ext <;> simp [rotate, cross, vadd, vmul, imag]
  have hK : ∀ (ms : List K) (ps : List (V3 K × V3 K)), kin2 ms (rotateSim ps q) = kin2 ms ps := by
    intro ms ps
    induction ms generalizing ps with
    | nil => cases ps <;> simp [kin2]
    | cons m ms ih =>
      cases ps with
      | nil => simp [kin2, hnil]
      | cons p ps =>
        rw [hcons]
        simp only [kin2, ih ps]
        rw [show len2 (rotate p.2 q) = len2 p.2 from c20_rotate_preserves_dot _ _ q h]
  have hL : ∀ (ms : List K) (ps : List (V3 K × V3 K)),
      angMom ms (rotateSim ps q) = rotate (angMom ms ps) q := by
    intro ms ps
    induction ms generalizing ps with
    | nil => cases ps <;> simp only [angMom, hz]
    | cons m ms ih =>
      cases ps with
      | nil => simp only [angMom, hnil, hz]
      | cons p ps =>
        rw [hcons]
        simp only [angMom, ih ps, rotate_add, rotate_smul, rotate_cross q _ _ h]
  exact ⟨hK ms ps, hL ms ps, by rw [hL]; exact c20_rotate_preserves_dot _ _ q h⟩

end

/-! ## 4. rotation constructors (linearly ordered field with abstract sqrt / sin / cos) -/
section
variable {K : Type} [Field K] [LinearOrder K] [IsStrictOrderedRing K] [RealFns K]

/-- `reb_vec3d_normalize` and `reb_rotation_normalize` return unit length for non-zero input
    (and leave unit vectors alone) -/
theorem c20_normalize (hs : SqrtSpec K) (v : V3 K) (q : Quat K) :
    (len2 v ≠ 0 → len2 (normalize v) = 1) ∧ (len2 v = 1 → normalize v = v) ∧
    (qlen2 q ≠ 0 → qlen2 (qnormalize q) = 1) := by
  refine ⟨normalize_unit hs v, normalize_of_unit hs v, fun hq => ?_⟩
  have hnn : 0 ≤ qlen2 q := by
    simp only [qlen2, sc_hadd, sc_hmul]
    nlinarith [mul_self_nonneg q.r, mul_self_nonneg q.ix, mul_self_nonneg q.iy, mul_self_nonneg q.iz]
  obtain ⟨h0, h1⟩ := hs (qlen2 q) hnn
  have hne := sqrt_ne_zero hs hnn hq
  simp only [qnormalize, r_sqrt, sc_hmul, sc_hdiv, sc_one]
  generalize RealFns.sqrt (qlen2 q) = s at *
  simp only [qlen2, sc_hadd, sc_hmul] at h1 ⊢
  field_simp
  linear_combination -h1

/-- angle-axis: for every non-zero axis the result is a unit quaternion and acts by Rodrigues'
    formula with `C = c² − s²`, `S = 2 s c` (`c`, `s` = cos, sin of half the angle; over ℝ these
    are cos, sin of the angle), in particular it fixes the axis -/
theorem c20_angle_axis (hs : SqrtSpec K) (ht : TrigSpec K) (angle : K) (axis v : V3 K)
    (h : len2 axis ≠ 0) :
    let a := normalize axis
    let c := RealFns.cos (angle / 2)
    let s := RealFns.sin (angle / 2)
    qlen2 (angleAxis angle axis) = 1 ∧
    rotate v (angleAxis angle axis) =
      vadd (vadd (vmul v (c * c - s * s)) (vmul (cross a v) (2 * s * c)))
        (vmul a ((1 - (c * c - s * s)) * dot a v)) ∧
    rotate a (angleAxis angle axis) = a := by
  intro a c s
  have ha : len2 a = 1 := normalize_unit hs axis h
  have htr : s * s + c * c = 1 := ht (angle / 2)
  rw [angleAxis_def]
  obtain ⟨u, m⟩ := rodrigues a v s c ha htr
  refine ⟨u, m, ?_⟩
  rw [(rodrigues a a s c ha htr).2]
  simp only [len2, dot, sc_hadd, sc_hmul] at ha
  ext <;> simp only [vadd, vmul, cross, dot, sc_hadd, sc_hsub, sc_hmul]
  · linear_combination ((1 - (c * c - s * s)) * a.x) * ha
  · linear_combination ((1 - (c * c - s * s)) * a.y) * ha
  · linear_combination ((1 - (c * c - s * s)) * a.z) * ha

/-- orbital constructor: unit, and it is the matrix `P₃ P₂ P₁` of Murray & Dermott (2.119-2.121)
    with `C· = c² − s²`, `S· = 2 s c` of the three half angles -/
theorem c20_orbit (hs : SqrtSpec K) (ht : TrigSpec K) (Om inc om : K) (v : V3 K) :
    let cO := RealFns.cos (Om / 2) * RealFns.cos (Om / 2) - RealFns.sin (Om / 2) * RealFns.sin (Om / 2)
    let sO := 2 * RealFns.sin (Om / 2) * RealFns.cos (Om / 2)
    let ci := RealFns.cos (inc / 2) * RealFns.cos (inc / 2) - RealFns.sin (inc / 2) * RealFns.sin (inc / 2)
    let si := 2 * RealFns.sin (inc / 2) * RealFns.cos (inc / 2)
    let co := RealFns.cos (om / 2) * RealFns.cos (om / 2) - RealFns.sin (om / 2) * RealFns.sin (om / 2)
    let so := 2 * RealFns.sin (om / 2) * RealFns.cos (om / 2)
    qlen2 (orbit Om inc om) = 1 ∧
    rotate v (orbit Om inc om) =
      ⟨(cO * co - sO * so * ci) * v.x + (-cO * so - sO * co * ci) * v.y + (sO * si) * v.z,
       (sO * co + cO * so * ci) * v.x + (-sO * so + cO * co * ci) * v.y + (-cO * si) * v.z,
       (so * si) * v.x + (co * si) * v.y + ci * v.z⟩ := by
  intro cO sO ci si co so
  rw [orbit_def hs]
  have h1 := ht (om / 2)
  have h2 := ht (inc / 2)
  have h3 := ht (Om / 2)
  obtain ⟨u1, _⟩ := rotZ v _ _ h1
  obtain ⟨u2, _⟩ := rotX v _ _ h2
  obtain ⟨u3, _⟩ := rotZ v _ _ h3
  have u21 : qlen2 (qmul (⟨RealFns.sin (inc / 2), 0, 0, RealFns.cos (inc / 2)⟩ : Quat K)
      ⟨0, 0, RealFns.sin (om / 2), RealFns.cos (om / 2)⟩) = 1 := by rw [qlen2_mul, u1, u2, one_mul]
  refine ⟨by rw [qlen2_mul, u21, u3, one_mul], ?_⟩
  rw [rotate_mul _ _ _ u3 u21, rotate_mul _ _ _ u2 u1, (rotZ v _ _ h1).2, (rotX _ _ _ h2).2,
    (rotZ _ _ _ h3).2]
  ext <;> simp only [cO, sO, ci, si, co, so] <;> ring

/-- the contract of `reb_rotation_init_from_to` ("returns a rotation that maps `from` to `to`"):
    for all non-zero vectors the result is a unit quaternion taking the direction of `from`
    to the direction of `to` — **including** parallel and antiparallel vectors -/
def FromToSpec (ft : V3 K → V3 K → Quat K) : Prop :=
  ∀ frm tov : V3 K, len2 frm ≠ 0 → len2 tov ≠ 0 →
    qlen2 (ft frm tov) = 1 ∧ rotate (normalize frm) (ft frm tov) = normalize tov

/-- full statement, true of the constructor with the repair of fixes/F7.diff (axis of the
    antiparallel branch normalised): all four branches -/
theorem c20_from_to_repaired_full (hs : SqrtSpec K) :
    FromToSpec (fromToFixed : V3 K → V3 K → Quat K) := by
  intro frm tov h1 h2
  exact fromToUnit_fixed_spec hs _ _ (normalize_unit hs frm h1) (normalize_unit hs tov h2)

/-- the constructor **as found**: the statement holds whenever the normalised vectors are not
    exactly antiparallel (first, second and fourth branch); the extra hypothesis is finding F7 -/
theorem c20_from_to_partial (hs : SqrtSpec K) (frm tov : V3 K) (h1 : len2 frm ≠ 0) (h2 : len2 tov ≠ 0)
    (hF7 : len2 (vadd (normalize frm) (normalize tov)) ≠ 0) :
    qlen2 (fromTo frm tov) = 1 ∧ rotate (normalize frm) (fromTo frm tov) = normalize tov :=
  fromToUnit_spec hs _ _ _ (normalize_unit hs frm h1) (normalize_unit hs tov h2) hF7

/-- the antiparallel branch **as found**, exactly: with `f` the direction of `from` and `m` its
    component of smallest absolute value,  `|q|² = 1 − m²`  and  `q` sends `f` to `(1 − 2m²) t`.
    So the result is a unit quaternion mapping from ↦ to iff `m = 0` (e.g. axis-aligned vectors) -/
theorem c20_from_to_antiparallel_as_found (hs : SqrtSpec K) (frm tov : V3 K) (h1 : len2 frm ≠ 0)
    (h0 : len2 (vadd (normalize frm) (normalize tov)) = 0) :
    let f := normalize frm
    let m := dot f (smallestAxis f)
    qlen2 (fromTo frm tov) = 1 - m * m ∧
    rotate f (fromTo frm tov) = vmul (normalize tov) (1 - 2 * (m * m)) :=
  fromToUnit_asfound_anti hs _ _ (normalize_unit hs frm h1) h0

/-- **F7**: the full statement is false of the source as found — `from = (1,1,1)`,
    `to = (−1,−1,−1)` gives a quaternion of squared norm 2/3 -/
theorem c20_from_to_F7_negation (hs : SqrtSpec K) :
    qlen2 (fromTo (⟨1, 1, 1⟩ : V3 K) ⟨-1, -1, -1⟩) = 2 / 3 ∧
    ¬ FromToSpec (fromTo : V3 K → V3 K → Quat K) := by
  have l1 : len2 (⟨1, 1, 1⟩ : V3 K) = 3 := by simp [len2, dot]; norm_num
  have l2 : len2 (⟨-1, -1, -1⟩ : V3 K) = 3 := by simp [len2, dot]; norm_num
  have n1 : len2 (⟨1, 1, 1⟩ : V3 K) ≠ 0 := by rw [l1]; norm_num
  have n2 : len2 (⟨-1, -1, -1⟩ : V3 K) ≠ 0 := by rw [l2]; norm_num
  have hsum : len2 (vadd (normalize (⟨1, 1, 1⟩ : V3 K)) (normalize ⟨-1, -1, -1⟩)) = 0 := by
    rw [normalize_def, normalize_def, l1, l2]
    simp [len2, dot, vadd]
  obtain ⟨a, _⟩ := c20_from_to_antiparallel_as_found hs _ _ n1 hsum
  obtain ⟨s0, s1⟩ := hs 3 (by norm_num)
  have sne : RealFns.sqrt (3 : K) ≠ 0 := sqrt_ne_zero hs (by norm_num) (by norm_num)
  have hm : dot (normalize (⟨1, 1, 1⟩ : V3 K)) (smallestAxis (normalize ⟨1, 1, 1⟩)) *
      dot (normalize (⟨1, 1, 1⟩ : V3 K)) (smallestAxis (normalize ⟨1, 1, 1⟩)) = 1 / 3 := by
    have comp : ∀ e : V3 K, (e = ex ∨ e = ey ∨ e = ez) →
        dot (normalize (⟨1, 1, 1⟩ : V3 K)) e = 1 / RealFns.sqrt 3 := by
      intro e he
      rw [normalize_def, l1]
      rcases he with h | h | h <;> rw [h] <;> simp [dot, ex, ey, ez]
    rw [comp _ (smallestAxis_spec _).1]
    field_simp
    linear_combination -s1
  have key : qlen2 (fromTo (⟨1, 1, 1⟩ : V3 K) ⟨-1, -1, -1⟩) = 2 / 3 := by
    rw [a, hm]; norm_num
  refine ⟨key, fun hspec => ?_⟩
  have := (hspec _ _ n1 n2).1
  rw [key] at this
  norm_num at this

end

/-! ### to_new_axes -/
section
variable {K : Type} [Field K] [LinearOrder K] [IsStrictOrderedRing K] [RealFns K]

/-- `reb_rotation_init_from_to` with fixes/C20-from-to-nearly-antiparallel.diff (antiparallel branch also when
    `|from × to|² < tau`, the sine of the angle below rounding level): always a unit quaternion; it maps the
    direction of `from` onto that of `to` exactly outside the band and to within `|error|² < 2 tau` inside it
    (with `tau = 1e-30`: 1.4e-15, the rounding error of the inputs).  As found (`tau = 0`, i.e. only an exactly
    vanishing half vector) the exact-arithmetic statement `c20_from_to_repaired_full` holds but the floating-point
    code returns the identity or NaN when the rounding residue is collinear with the vectors (known finding
    C20:from_to-antiparallel-collinear-residue, e.g. (1,1,1) → (−3,−3,−3)). -/
theorem c20_from_to_rounding_band (hs : SqrtSpec K) (tau : K) (htau : 0 < tau) (frm tov : V3 K)
    (h1 : len2 frm ≠ 0) (h2 : len2 tov ≠ 0) :
    qlen2 (fromToFixedTau tau frm tov) = 1 ∧
    len2 (V3.sub (rotate (normalize frm) (fromToFixedTau tau frm tov)) (normalize tov)) < 2 * tau ∧
    ((¬ (len2 (cross (normalize frm) (normalize tov)) < tau) ∨ 0 ≤ dot (normalize frm) (normalize tov)) →
      rotate (normalize frm) (fromToFixedTau tau frm tov) = normalize tov) := by
  have hf := normalize_unit hs frm h1
  have ht := normalize_unit hs tov h2
  have zero_lt : ∀ v : V3 K, len2 (V3.sub v v) < 2 * tau := by
    intro v
    have : len2 (V3.sub v v) = 0 := by simp [len2, dot, V3.sub]
    rw [this]; linarith
  by_cases hb : ¬ (len2 (cross (normalize frm) (normalize tov)) < tau) ∨ 0 ≤ dot (normalize frm) (normalize tov)
  · have e := fromToUnitTau_eq tau antiparallelFixed _ _ hb
    obtain ⟨u, m⟩ := fromToUnit_fixed_spec hs _ _ hf ht
    unfold fromToFixedTau
    rw [e]
    exact ⟨u, by rw [m]; exact zero_lt _, fun _ => m⟩
  · push Not at hb
    obtain ⟨u, _, b⟩ := fromToUnitTau_band hs tau _ _ hf ht hb.2 hb.1
    unfold fromToFixedTau
    exact ⟨u, b, fun h => absurd h (by push Not; exact hb)⟩

/-- the contract of `reb_rotation_init_to_new_axes` / `Rotation.to_new_axes`: a unit quaternion
    that takes the direction of `newz` to the z axis and the direction of the component of `newx`
    perpendicular to `newz` to the x axis ("this function will only take the component of newx
    that is perpendicular to newz") -/
def NewAxesSpec (f : V3 K → V3 K → Quat K) : Prop :=
  ∀ newz newx : V3 K, len2 newz ≠ 0 →
    len2 (vadd newx (vmul (normalize newz) (-(dot (normalize newz) newx)))) ≠ 0 →
    qlen2 (f newz newx) = 1 ∧ rotate (normalize newz) (f newz newx) = ez ∧
    rotate (normalize (vadd newx (vmul (normalize newz) (-(dot (normalize newz) newx))))) (f newz newx) = ex

/-- full statement, true with the repairs of fixes/F7.diff and fixes/C20-to-new-axes-orthogonalise.diff, including `newz`
    antiparallel to z and `newx` ending up antiparallel to x -/
theorem c20_to_new_axes_repaired_full (hs : SqrtSpec K) :
    NewAxesSpec (toNewAxesFixed : V3 K → V3 K → Quat K) := by
  intro newz newx hz hx
  exact toNewAxes_spec hs antiparallelFixed (antiAxes_fixed hs) newz newx hz hx

/-- as found: the statement holds when `newz` is a unit vector or `newx` is perpendicular to it
    (the extra hypothesis is finding F18).  The antiparallel branch of from_to (F7) is harmless
    here: to_new_axes only meets it with axis-aligned vectors -/
theorem c20_to_new_axes_partial (hs : SqrtSpec K) (newz newx : V3 K) (hz : len2 newz ≠ 0)
    (hx : len2 (vadd newx (vmul (normalize newz) (-(dot (normalize newz) newx)))) ≠ 0)
    (hF18 : len2 newz = 1 ∨ dot newz newx = 0) :
    qlen2 (toNewAxes newz newx) = 1 ∧ rotate (normalize newz) (toNewAxes newz newx) = ez ∧
    rotate (normalize (vadd newx (vmul (normalize newz) (-(dot (normalize newz) newx)))))
      (toNewAxes newz newx) = ex := by
  have e : toNewAxes newz newx = toNewAxesWith (ftOf antiparallelAsFound) true newz newx :=
    toNewAxesWith_dot_eq hs _ newz newx hF18
  rw [e]
  exact toNewAxes_spec hs antiparallelAsFound antiAxes_asFound newz newx hz hx

/-- **F18**: the full statement is false of the source as found — whenever the wrongly
    orthogonalised `newx − (newz·newx) ẑ` keeps a component along `newz`, `newz` is not taken to the
    z axis; witness `newz = (0,0,2)`, `newx = (1,0,1)` -/
theorem c20_to_new_axes_F18_negation (hs : SqrtSpec K) :
    (∀ newz newx : V3 K, len2 newz ≠ 0 →
      dot (vadd newx (vmul (normalize newz) (-(dot newz newx)))) (normalize newz) ≠ 0 →
      rotate (normalize newz) (toNewAxes newz newx) ≠ ez) ∧
    ¬ NewAxesSpec (toNewAxes : V3 K → V3 K → Quat K) := by
  have gen : ∀ newz newx : V3 K, len2 newz ≠ 0 →
      dot (vadd newx (vmul (normalize newz) (-(dot newz newx)))) (normalize newz) ≠ 0 →
      rotate (normalize newz) (toNewAxes newz newx) ≠ ez :=
    fun newz newx hz hw => toNewAxes_asfound_misses hs antiparallelAsFound antiAxes_asFound newz newx hz hw
  refine ⟨gen, fun hspec => ?_⟩
  have l : len2 (⟨0, 0, 2⟩ : V3 K) = 4 := by simp [len2, dot]; norm_num
  have hz : len2 (⟨0, 0, 2⟩ : V3 K) ≠ 0 := by rw [l]; norm_num
  have zn : normalize (⟨0, 0, 2⟩ : V3 K) = ⟨0, 0, 1⟩ := by
    rw [normalize_def, l, sqrt_four hs]; ext <;> simp
  have hw : dot (vadd (⟨1, 0, 1⟩ : V3 K) (vmul (normalize ⟨0, 0, 2⟩) (-(dot (⟨0, 0, 2⟩ : V3 K) ⟨1, 0, 1⟩))))
      (normalize ⟨0, 0, 2⟩) ≠ 0 := by
    rw [zn]; simp [dot, vadd, vmul]; norm_num
  have hx : len2 (vadd (⟨1, 0, 1⟩ : V3 K) (vmul (normalize ⟨0, 0, 2⟩)
      (-(dot (normalize (⟨0, 0, 2⟩ : V3 K)) ⟨1, 0, 1⟩)))) ≠ 0 := by
    rw [zn]; simp [len2, dot, vadd, vmul]
  exact gen _ _ hz hw (hspec _ _ hz hx).2.1

end

/-! ### slerp -/
section
variable {K : Type} [Field K] [LinearOrder K] [IsStrictOrderedRing K] [RealFns K]

/-- `reb_rotation_slerp`, general branch (`|q1·q2| < 1`, `|sin θ| ≥ eps`; θ = acos (q1·q2)): for unit
    `q1`, `q2` the result is a unit quaternion whose 4-d dot products with `q1` and `q2` are
    `cos (t θ)` and `cos ((1−t) θ)` — it moves along the great circle at constant angular speed.
    `AddSpec`: addition formulas and sin 0 = 0; `AcosSpec`: cos (acos c) = c, sin (acos c) ≥ 0. -/
theorem c20_slerp_general (hs : SqrtSpec K) (ht : TrigSpec K) (hadd : AddSpec K) (hac : AcosSpec K)
    (eps halfc : K) (q1 q2 : Quat K) (t : K) (h1 : qlen2 q1 = 1) (h2 : qlen2 q2 = 1)
    (heps : 0 < eps) (hc : |qdot q1 q2| < 1)
    (hgen : eps ≤ |RealFns.sqrt (1 - qdot q1 q2 * qdot q1 q2)|) :
    qlen2 (slerp eps halfc q1 q2 t) = 1 ∧
    qdot q1 (slerp eps halfc q1 q2 t) = RealFns.cos (t * RealFns.acos (qdot q1 q2)) ∧
    qdot q2 (slerp eps halfc q1 q2 t) = RealFns.cos ((1 - t) * RealFns.acos (qdot q1 q2)) :=
  slerp_general hs ht hadd hac eps halfc q1 q2 t h1 h2 heps hc hgen

/-- end points: `slerp q1 q2 0 = q1`, `slerp q1 q2 1 = q2` (general branch) -/
theorem c20_slerp_endpoints (hs : SqrtSpec K) (ht : TrigSpec K) (hadd : AddSpec K) (hac : AcosSpec K)
    (eps halfc : K) (q1 q2 : Quat K) (hc : |qdot q1 q2| < 1)
    (hgen : eps ≤ |RealFns.sqrt (1 - qdot q1 q2 * qdot q1 q2)|) (heps : 0 < eps) :
    slerp eps halfc q1 q2 0 = q1 ∧ slerp eps halfc q1 q2 1 = q2 :=
  slerp_endpoints hs ht hadd hac eps halfc q1 q2 hc hgen heps

/-- the two short-cut branches, exactly: `|q1·q2| ≥ 1` returns `q1` for every `t`; `|sin θ| < eps`
    (`QUATERNION_EPS = 1e-4`, "enough for visualizations") returns the mean `(q1+q2)/2` for every `t`,
    of squared norm `(1 + q1·q2)/2` — unit only in the limit `q1·q2 → 1`, and close to the zero
    quaternion for nearly antipodal inputs.  So "unit result for unit inputs" holds of slerp only
    with the hypothesis `hgen` of `c20_slerp_general` (documented limitation, not flagged). -/
theorem c20_slerp_shortcuts (eps : K) (q1 q2 : Quat K) (t : K) (h1 : qlen2 q1 = 1) (h2 : qlen2 q2 = 1) :
    (1 ≤ |qdot q1 q2| → slerp eps (1 / 2) q1 q2 t = q1) ∧
    (|qdot q1 q2| < 1 → |RealFns.sqrt (1 - qdot q1 q2 * qdot q1 q2)| < eps →
      qlen2 (slerp eps (1 / 2) q1 q2 t) = (1 + qdot q1 q2) / 2) :=
  slerp_degenerate eps q1 q2 t h1 h2

end

/-! ## 5. frame shifts, scaling, adding and subtracting simulations (every N) -/
section
variable {K : Type} [Field K] [LinearOrder K] [IsStrictOrderedRing K]

/-- `reb_simulation_com` (the running mean of `reb_particle_com_of_pair`, with its `m > 0`
    guard) returns total mass and mass-weighted mean, for non-negative masses;
    `(0, 0)` when all masses vanish -/
theorem c20_com_closed_form (ps : List (K × K)) (hm : ∀ p ∈ ps, 0 ≤ p.1) :
    com ps = (msum ps, if 0 < msum ps then mxsum ps / msum ps else 0) :=
  com_closed ps hm

/-- `move_to_com` is a uniform shift: masses untouched, all pairwise differences unchanged
    (no hypothesis on the masses) -/
theorem c20_move_to_com_differences (ps : List (K × K)) :
    (moveToCom ps).length = ps.length ∧
    (moveToCom ps).map (·.1) = ps.map (·.1) ∧
    ∀ i j (hi : i < ps.length) (hj : j < ps.length),
      ((moveToCom ps)[i]'(by simpa [moveToCom] using hi)).2 - ((moveToCom ps)[j]'(by simpa [moveToCom] using hj)).2
        = ps[i].2 - ps[j].2 := by
  refine ⟨by simp [moveToCom], by simp [moveToCom, List.map_map, Function.comp_def], ?_⟩
  intro i j hi hj
  simp [moveToCom]

/-- afterwards the centre of mass is at the origin (and, the velocity components obeying the
    same recurrence, at rest): the mass-weighted sum vanishes and `com` returns 0 -/
theorem c20_move_to_com_at_origin (ps : List (K × K)) (hm : ∀ p ∈ ps, 0 ≤ p.1) (hM : 0 < msum ps) :
    mxsum (moveToCom ps) = 0 ∧ com (moveToCom ps) = (msum ps, 0) := by
  have hc := com_closed ps hm
  have h1 : mxsum (moveToCom ps) = 0 := by
    simp only [moveToCom, hc, if_pos hM, sc_hsub]
    rw [mxsum_shift]
    have : msum ps ≠ 0 := ne_of_gt hM
    field_simp; ring
  have h2 : msum (moveToCom ps) = msum ps := by
    simp only [moveToCom]; exact msum_shift ps _
  refine ⟨h1, ?_⟩
  have hm' : ∀ p ∈ moveToCom ps, 0 ≤ p.1 := by
    intro p hp
    simp only [moveToCom, List.mem_map] at hp
    obtain ⟨a, ha, rfl⟩ := hp
    exact hm a ha
  rw [com_closed _ hm', h1, h2, if_pos hM]; simp

/-- `move_to_hel`: particle 0 at the origin, masses untouched, every other particle shifted by
    the same amount (pairwise differences unchanged) -/
theorem c20_move_to_hel (m0 x0 : K) (r : List (K × K)) :
    moveToHel ((m0, x0) :: r) = (m0, 0) :: r.map (fun p => (p.1, p.2 - x0)) ∧
    (∀ p ∈ r, ∀ p' ∈ r, (p.2 - x0) - (p'.2 - x0) = p.2 - p'.2) ∧
    (∀ p ∈ r, (p.2 - x0) - 0 = p.2 - x0) ∧
    moveToHel ([] : List (K × K)) = [] := by
  refine ⟨moveToHel_cons m0 x0 r, fun p _ p' _ => by ring, fun p _ => by ring, rfl⟩

/-- `imul`, `iadd`, `isub` are the documented linear maps on all N particles (variational
    particles included, which is how a derivative transforms under a linear map):
    size mismatch is rejected and changes nothing; `(a + b) − b = a`, `(a − b) + b = a`;
    scaling distributes over addition, composes multiplicatively, `1` is neutral -/
theorem c20_imul_iadd_isub (xs ys : List K) (s t : K) :
    (xs.length ≠ ys.length → iadd xs ys = .error .sizeMismatch ∧ isub xs ys = .error .sizeMismatch) ∧
    (xs.length = ys.length →
      iadd xs ys = .ok (List.zipWith (· + ·) xs ys) ∧ isub xs ys = .ok (List.zipWith (· - ·) xs ys) ∧
      isub (List.zipWith (· + ·) xs ys) ys = .ok xs ∧ iadd (List.zipWith (· - ·) xs ys) ys = .ok xs ∧
      imul (List.zipWith (· + ·) xs ys) s = List.zipWith (· + ·) (imul xs s) (imul ys s)) ∧
    imul (imul xs s) t = imul xs (s * t) ∧ imul xs 1 = xs ∧ (imul xs s).length = xs.length := by
  refine ⟨fun h => ⟨by simp [iadd, h], by simp [isub, h]⟩, fun h => ⟨?_, ?_, ?_, ?_, ?_⟩, ?_, ?_, ?_⟩
  · simp [iadd, h]
  · simp [isub, h]
  · have hl : (List.zipWith (· + ·) xs ys).length = ys.length := by simp [h]
    simp only [isub, hl, ne_eq, not_true_eq_false, if_false]
    have := zipWith_sub_add xs ys h
    simp only [sc_hadd, sc_hsub] at this ⊢
    rw [this]
  · have hl : (List.zipWith (· - ·) xs ys).length = ys.length := by simp [h]
    simp only [iadd, hl, ne_eq, not_true_eq_false, if_false]
    have := zipWith_add_sub xs ys h
    simp only [sc_hadd, sc_hsub] at this ⊢
    rw [this]
  · simp only [imul, sc_hmul]
    induction xs generalizing ys with
    | nil => simp
    | cons a r ih =>
      cases ys with
      | nil => simp
      | cons b u =>
        simp only [List.length_cons, add_left_inj] at h
        simp only [List.zipWith_cons_cons, List.map_cons, ih u h]
        congr 1; ring
  · simp only [imul, sc_hmul, List.map_map, Function.comp_def]
    apply List.map_congr_left; intro a _; ring
  · simp [imul]
  · simp [imul]

end

section
variable {K : Type} [Field K] [LinearOrder K]

/-- first-order variational particles under `move_to_com` transform as the derivative: the
    shift subtracted from every variational coordinate is the ε-coefficient of the centre
    of mass `Σ m̃ x̃ / Σ m̃` evaluated over the dual numbers on `(m + ε δm, x + ε δx)`, whose real
    part is the centre of mass itself; `Dual.div` is the true quotient of `K[ε]/(ε²)`.
    (`move_to_hel` leaves variational particles untouched: see notes/C20.md.) -/
theorem c20_var1_is_derivative (rows : List (Row1 K)) (hM : rowsMass rows ≠ 0) :
    moveToComVar1 (rowsMass rows) rows = rows.map (fun r => r.dx - (comDual rows).eps) ∧
    (comDual rows).re = (rows.map (fun r => r.m * r.x)).sum / rowsMass rows ∧
    (∀ a b : Dual K, b.re ≠ 0 → Dual.mul (Dual.div a b) b = a) := by
  refine ⟨?_, ?_, Dual.div_mul_cancel⟩
  · simp only [moveToComVar1, shift1_eq_dual rows hM, sc_hsub]
  · simp only [comDual, Dual.div, Dual.sum_re, List.map_map, Function.comp_def, Dual.mul, rowsMass]

/-- second-order variational particles under `move_to_com` transform as the mixed second
    derivative: the shift is the εa·εb coefficient of `Σ m̃ x̃ / Σ m̃` over `K[εa,εb]/(εa²,εb²)` on
    `m + εa mᵃ + εb mᵇ + εa εb m″` (likewise x); `D2.div` is the true quotient of that algebra -/
theorem c20_var2_is_second_derivative (rows : List (Row2 K)) (hM : rows2Mass rows ≠ 0) :
    moveToComVar2 (rows2Mass rows) rows = rows.map (fun r => r.ddx - (comD2 rows).cab) ∧
    (comD2 rows).c0 = (rows.map (fun r => r.m * r.x)).sum / rows2Mass rows ∧
    (∀ a b : D2 K, b.c0 ≠ 0 → D2.mul (D2.div a b) b = a) := by
  refine ⟨?_, ?_, D2.div_mul_cancel⟩
  · simp only [moveToComVar2, shift2_eq_d2 rows hM, sc_hsub]
  · simp only [comD2, D2.div, D2.mul, D2.inv, D2.sum_c0, List.map_map, Function.comp_def, rows2Mass]
    ring

end

section
variable {K : Type} [Field K] [LinearOrder K]

/-- what a consistent transformation of variational particles under `move_to_hel` is: run the
    model of `reb_simulation_move_to_hel` itself on dual numbers `(m + ε δm, x + ε δx)`
    (resp. on `K[εa,εb]/(εa²,εb²)` at second order).  Real parts: the shifted coordinates; ε-parts
    (εa·εb-parts): the variation of particle 0 subtracted from all others and set to zero —
    `moveToHelVar true`, which is what fixes/C20-move-to-hel-variations.diff implements. -/
theorem c20_move_to_hel_variations_repaired_full (rows : List (Row1 K)) (rows2 : List (Row2 K)) :
    (moveToHel (rows.map dualOf)).map (fun p => p.2.re) = (moveToHel (rows.map (fun r => (r.m, r.x)))).map (·.2) ∧
    (moveToHel (rows.map dualOf)).map (fun p => p.2.eps) = moveToHelVar true (rows.map (·.dx)) ∧
    (moveToHel (rows2.map d2Of)).map (fun p => p.2.cab) = moveToHelVar true (rows2.map (·.ddx)) :=
  ⟨(moveToHel_dual rows).1, (moveToHel_dual rows).2.1, (moveToHel_d2 rows2).2.1⟩

/-- **as found** (`// Note: Variational particles will not be affected.`): variational particles are
    left alone, which is the derivative only if particle 0 does not vary (hypothesis = the finding
    `C20:move_to_hel-variations`) … -/
theorem c20_move_to_hel_variations_partial (dx0 : K) (r : List K) (hfinding : dx0 = 0) :
    moveToHelVar false (dx0 :: r) = moveToHelVar true (dx0 :: r) := by
  subst hfinding
  simp [moveToHelVar]

/-- … and **not** the derivative otherwise: the full statement "frame shifts transform variational
    particles consistently" is false of `move_to_hel` as found whenever `δx₀ ≠ 0` -/
theorem c20_move_to_hel_variations_negation (dx0 : K) (r : List K) (h : dx0 ≠ 0) :
    moveToHelVar false (dx0 :: r) = dx0 :: r ∧
    moveToHelVar false (dx0 :: r) ≠ moveToHelVar true (dx0 :: r) := by
  refine ⟨moveToHelVar_asfound _, ?_⟩
  intro heq
  have : moveToHelVar false (dx0 :: r) = dx0 :: r := moveToHelVar_asfound _
  rw [this] at heq
  simp only [moveToHelVar, if_true, sc_zero, List.cons.injEq] at heq
  exact h heq.1

end

/-! ## 6. the hypotheses are satisfiable (non-vacuity) -/
/-- a three-body set with a massless particle in front meets the hypotheses of the COM theorems -/
example : (∀ p ∈ [((0:ℚ), (5:ℚ)), (1, 2), (1/1000, -7)], 0 ≤ p.1) ∧
    0 < msum [((0:ℚ), (5:ℚ)), (1, 2), (1/1000, -7)] := by
  refine ⟨?_, by norm_num [msum]⟩
  intro p hp; simp at hp; rcases hp with rfl | rfl | rfl <;> norm_num

/-! ## 7. the real numbers: `SqrtSpec` and `TrigSpec` hold for `Real.sqrt`, `Real.sin`, `Real.cos`,
    so every theorem of section 4 applies to ℝ; with the double-angle formulas the orbital
    constructor is literally Murray & Dermott's matrix -/

noncomputable instance realFns : RealFns ℝ := ⟨Real.sqrt, Real.sin, Real.cos, Real.arccos⟩

theorem c20_real_sqrt_spec : SqrtSpec ℝ := fun x hx => ⟨Real.sqrt_nonneg x, Real.mul_self_sqrt hx⟩

theorem c20_real_trig_spec : TrigSpec ℝ := fun a => by
  show Real.sin a * Real.sin a + Real.cos a * Real.cos a = 1
  have := Real.sin_sq_add_cos_sq a
  nlinarith [this]

theorem c20_real_add_spec : AddSpec ℝ :=
  ⟨fun a b => Real.sin_add a b, fun a b => Real.cos_add a b, Real.sin_zero⟩

theorem c20_real_acos_spec : AcosSpec ℝ := fun c hc => by
  have h := abs_le.mp hc
  exact ⟨Real.cos_arccos h.1 h.2,
    Real.sin_nonneg_of_nonneg_of_le_pi (Real.arccos_nonneg c) (Real.arccos_le_pi c)⟩

/-- the hypotheses of `c20_from_to_partial` / `c20_angle_axis` are satisfiable (x axis to x axis) -/
example : len2 (ex : V3 ℝ) ≠ 0 ∧ len2 (vadd (normalize (ex : V3 ℝ)) (normalize (ex : V3 ℝ))) ≠ 0 := by
  rw [normalize_ex c20_real_sqrt_spec]
  constructor <;> simp [len2, dot, vadd, ex] <;> norm_num

/-- over ℝ the repaired from-to constructor meets its contract for all non-zero vectors -/
theorem c20_from_to_repaired_full_real : FromToSpec (fromToFixed : V3 ℝ → V3 ℝ → Quat ℝ) :=
  c20_from_to_repaired_full c20_real_sqrt_spec

/-- over ℝ the constructor as found violates it (F7) -/
theorem c20_from_to_F7_negation_real : ¬ FromToSpec (fromTo : V3 ℝ → V3 ℝ → Quat ℝ) :=
  (c20_from_to_F7_negation c20_real_sqrt_spec).2

/-- over ℝ: to_new_axes repaired meets its contract; as found it does not (F18) -/
theorem c20_to_new_axes_real :
    NewAxesSpec (toNewAxesFixed : V3 ℝ → V3 ℝ → Quat ℝ) ∧ ¬ NewAxesSpec (toNewAxes : V3 ℝ → V3 ℝ → Quat ℝ) :=
  ⟨c20_to_new_axes_repaired_full c20_real_sqrt_spec, (c20_to_new_axes_F18_negation c20_real_sqrt_spec).2⟩

/-- Murray & Dermott (2.119)-(2.121) over ℝ, with the cosines and sines of Ω, i, ω themselves -/
theorem c20_orbit_real (Om inc om : ℝ) (v : V3 ℝ) :
    qlen2 (orbit Om inc om) = 1 ∧
    rotate v (orbit Om inc om) =
      ⟨(Real.cos Om * Real.cos om - Real.sin Om * Real.sin om * Real.cos inc) * v.x
          + (-Real.cos Om * Real.sin om - Real.sin Om * Real.cos om * Real.cos inc) * v.y
          + (Real.sin Om * Real.sin inc) * v.z,
       (Real.sin Om * Real.cos om + Real.cos Om * Real.sin om * Real.cos inc) * v.x
          + (-Real.sin Om * Real.sin om + Real.cos Om * Real.cos om * Real.cos inc) * v.y
          + (-Real.cos Om * Real.sin inc) * v.z,
       (Real.sin om * Real.sin inc) * v.x + (Real.cos om * Real.sin inc) * v.y + Real.cos inc * v.z⟩ := by
  have hc : ∀ a : ℝ, Real.cos a = Real.cos (a / 2) * Real.cos (a / 2) - Real.sin (a / 2) * Real.sin (a / 2) := by
    intro a
    have h := Real.cos_two_mul (a / 2)
    have h2 := Real.sin_sq_add_cos_sq (a / 2)
    rw [show 2 * (a / 2) = a by ring] at h
    nlinarith [h, h2]
  have hsn : ∀ a : ℝ, Real.sin a = 2 * Real.sin (a / 2) * Real.cos (a / 2) := by
    intro a
    have h := Real.sin_two_mul (a / 2)
    rw [show 2 * (a / 2) = a by ring] at h
    exact h
  have := c20_orbit c20_real_sqrt_spec c20_real_trig_spec Om inc om v
  simp only at this
  refine ⟨this.1, ?_⟩
  rw [this.2, hc Om, hc inc, hc om, hsn Om, hsn inc, hsn om]
  rfl

end RV.C20
