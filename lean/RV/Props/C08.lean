import RV.Proofs.Integrate
import RV.Gen.C08Status
/-
  C08 — integrate() honours its time, step-size and status contract.

  All statements are about the definitions of RV/Model/Integrate.lean — the very functions the
  driver `drv_c08` runs on IEEE doubles against `reb_simulation_integrate` — instantiated at an
  arbitrary linearly ordered field `K` (exact time arithmetic).  `env k` are the exit-condition
  flags at the k-th step boundary; `Flags.Clear` = no condition, at least one particle.
  `dirOf t tmax` is +1 for forward and −1 for backward integration.
-/
set_option linter.unusedSectionVars false
set_option linter.unusedVariables false
set_option linter.unusedSimpArgs false
set_option linter.unnecessarySimpa false
namespace RV.Integrate
open RV
variable {K : Type} [Field K] [LinearOrder K] [IsStrictOrderedRing K]

/-! ### fixed-step integrators, exact_finish_time = 1 -/

/-- Fixed-step integrator (NONE, LEAPFROG, WHFast, SABA, JANUS, EOS, MERCURIUS, SEI, TRACE: see
    `c08_step_kinds_fixed`), `exact_finish_time = 1`, any `t₀`, any `dt ≠ 0` of either sign, any
    `tmax ≠ t₀` on either side, `n·|dt| < |tmax − t₀| ≤ (n+1)·|dt|` (i.e. `n+1 = ⌈|tmax−t₀|/|dt|⌉`):
    the call returns after exactly `n+1` steps with `t = tmax` exactly, status SUCCESS,
    `dt` restored to `copysign(|dt₀|, tmax − t₀)`, and every step moved time strictly in the
    direction of integration, by at most `|dt₀|`, never past `tmax`. -/
theorem c08_fixed_exact_finish (step : StepFn K) (hfix : IsFixed step) (env : Nat → Flags)
    (henv : ∀ k, (env k).Clear) (s0 : Sim K) (tmax : K) (n : Nat)
    (hst : s0.status ≠ stPAUSED ∧ s0.status ≠ stSCREENSHOT) (hex : s0.exactFinish = 1)
    (hdt : s0.dt ≠ 0) (hne : tmax ≠ s0.t)
    (hlo : (n : K) * |s0.dt| < |tmax - s0.t|) (hhi : |tmax - s0.t| ≤ ((n : K) + 1) * |s0.dt|) :
    ∀ fuel, n + 2 ≤ fuel → ∃ s', integrate step env fuel s0 tmax false = .done s' ∧
      s'.t = tmax ∧ s'.status = stSUCCESS ∧ s'.stepsDone = s0.stepsDone + (n + 1) ∧
      s'.dt = dirOf s0.t tmax * |s0.dt| ∧
      s'.hist.length = s0.hist.length + (n + 1) ∧
      ∀ b ∈ s'.hist, b ∈ s0.hist ∨
        GoodBeat tmax (dirOf s0.t tmax * |s0.dt|) (dirOf s0.t tmax) b := by
  intro fuel hfuel
  have hsg := dirOf_cases s0.t tmax
  have hpos : 0 < |s0.dt| := abs_pos.mpr hdt
  have hdsg : dirOf s0.t tmax * |s0.dt| * dirOf s0.t tmax = |s0.dt| := by
    have := dirOf_mul_self s0.t tmax
    calc dirOf s0.t tmax * |s0.dt| * dirOf s0.t tmax
        = (dirOf s0.t tmax * dirOf s0.t tmax) * |s0.dt| := by ring
      _ = |s0.dt| := by rw [this, one_mul]
  have hs := start_ne s0 tmax (env 0) (henv 0) (by simpa [Status.code] using hst) hne
  obtain ⟨s', h1, h2, h3, h4, h5, h6, h7⟩ :=
    loop_exact step hfix env henv tmax (dirOf s0.t tmax * |s0.dt|) (dirOf s0.t tmax) hsg
      (by rw [hdsg]; exact hpos) n
      { s0 with dt := dirOf s0.t tmax * |s0.dt|, dtLastDone := 0, status := -1 } 0 rfl hex rfl
      (Or.inl rfl) (by rw [hdsg, dirOf_abs hne]; exact hlo) (by rw [hdsg, dirOf_abs hne]; exact hhi)
      fuel hfuel
  refine ⟨finish s' (dirOf s0.t tmax * |s0.dt|), integrate_of_loop_done step env fuel s0 _ s' tmax _ _ false hs h1,
    ?_, ?_, ?_, ?_, ?_, ?_⟩
  · simp [finish, h5, h2]
  · simp [finish, h5, h3, Status.code]
  · simp [finish, h5, h4]
  · simp [finish, h5]
  · simp [finish, h5, h6]
  · intro b hb
    have : b ∈ s'.hist := by simpa [finish, h5] using hb
    exact h7 b this

/-- `tmax = t` is a no-op for every integrator and either value of exact_finish_time: zero steps,
    `t` and `dt` untouched (`dt` is not even sign-corrected), status SUCCESS; the only members
    written are `dt_last_done := 0` and the synchronize call at the end. -/
theorem c08_noop_when_target_is_now (step : StepFn K) (env : Nat → Flags) (h0 : (env 0).Clear)
    (s0 : Sim K) (hst : s0.status ≠ stPAUSED ∧ s0.status ≠ stSCREENSHOT) :
    ∀ fuel, 1 ≤ fuel → integrate step env fuel s0 s0.t false =
      .done { s0 with status := stSUCCESS, dtLastDone := 0, syncs := s0.syncs + 1 } := by
  intro fuel hfuel
  obtain ⟨f, rfl⟩ : ∃ f, fuel = f + 1 := ⟨fuel - 1, by omega⟩
  have hs := start_eq s0 s0.t (env 0) h0 (by simpa [Status.code] using hst) rfl
  have hc : ∀ x : K, 0 ≤ x * copysign 1 x := by
    intro x
    rw [copysign_def]
    by_cases hx : x < 0
    · have : ¬ ((1 : K) < 0) := by norm_num
      simp [this, hx]; linarith
    · have : ¬ ((1 : K) < 0) := by norm_num
      simp [this, hx]; exact not_lt.mp hx
  have hce : checkExit { s0 with dtLastDone := 0, status := -1 } s0.t false s0.dt (env 0) =
      .ret { s0 with dtLastDone := 0, status := 0 } s0.dt := by
    rw [checkExit_run _ s0.t s0.dt (env 0) (Or.inl rfl) h0.2.2.2.2.2.1 h0.2.2.2.2.2.2]
    have h1 : s0.t * copysign 1 s0.dt ≤ (s0.t + s0.dt) * copysign 1 s0.dt := by
      have := hc s0.dt; nlinarith
    by_cases hex : s0.exactFinish = 1
    · simp [hex, h1]
    · simp [hex]
  have hl := loop_of_ret_done step env s0.t false f 0 _ _ s0.dt s0.dt hce (by norm_num)
  rw [integrate_of_loop_done step env (f + 1) s0 _ _ s0.t _ _ false hs hl]
  by_cases hex : s0.exactFinish = 1
  · simp [finish, hex, Status.code]
  · simp [finish, hex, Status.code]

/-! ### fixed-step integrators, exact_finish_time ≠ 1 -/

/-- Fixed-step integrator without exact finishing: the call ends at the first step boundary
    `t₀ + n·d` at or past `tmax` (`d = copysign(|dt₀|, tmax − t₀)`), after exactly `n` steps of size
    `d` (`stepSeq` lists them), overshooting by less than `|dt₀|`; `dt` is left at `d`. -/
theorem c08_fixed_no_exact_finish (step : StepFn K) (hfix : IsFixed step) (env : Nat → Flags)
    (henv : ∀ k, (env k).Clear) (s0 : Sim K) (tmax sg d : K) (n : Nat)
    (hst : s0.status ≠ stPAUSED ∧ s0.status ≠ stSCREENSHOT) (hex : s0.exactFinish ≠ 1)
    (hdt : s0.dt ≠ 0) (hne : tmax ≠ s0.t)
    (hsg : sg = dirOf s0.t tmax) (hd : d = sg * |s0.dt|)
    (hfirst : ∀ j : Nat, j < n → (s0.t + j * d) * sg < tmax * sg)
    (hpast : tmax * sg ≤ (s0.t + n * d) * sg) :
    ∀ fuel, n + 1 ≤ fuel → ∃ s', integrate step env fuel s0 tmax false = .done s' ∧
      s'.t = s0.t + n * d ∧ s'.status = stSUCCESS ∧ s'.stepsDone = s0.stepsDone + n ∧ s'.dt = d ∧
      stepSeq s' = seqOf s0.t d n ++ stepSeq s0 ∧
      0 ≤ (s'.t - tmax) * sg ∧ (s'.t - tmax) * sg < |s0.dt| := by
  intro fuel hfuel
  subst hsg hd
  have hsg := dirOf_cases s0.t tmax
  have hpos : 0 < |s0.dt| := abs_pos.mpr hdt
  have hdsg : dirOf s0.t tmax * |s0.dt| * dirOf s0.t tmax = |s0.dt| := by
    have := dirOf_mul_self s0.t tmax
    calc dirOf s0.t tmax * |s0.dt| * dirOf s0.t tmax
        = (dirOf s0.t tmax * dirOf s0.t tmax) * |s0.dt| := by ring
      _ = |s0.dt| := by rw [this, one_mul]
  have hs := start_ne s0 tmax (env 0) (henv 0) (by simpa [Status.code] using hst) hne
  obtain ⟨s', h1, h2, h3, h4, h5, h6, h7, h8⟩ :=
    loop_nonexact step hfix env henv tmax (dirOf s0.t tmax * |s0.dt|) (dirOf s0.t tmax) hsg
      (by rw [hdsg]; exact hpos) n
      { s0 with dt := dirOf s0.t tmax * |s0.dt|, dtLastDone := 0, status := -1 } 0
      (dirOf s0.t tmax * |s0.dt|) rfl hex rfl hfirst hpast fuel hfuel
  have hex' : ¬ s'.exactFinish = 1 := by rw [h6]; exact hex
  have hn : n ≠ 0 := by
    rintro rfl
    have := dirOf_mul_pos hne
    simp at hpast
    nlinarith
  refine ⟨finish s' (dirOf s0.t tmax * |s0.dt|), integrate_of_loop_done step env fuel s0 _ s' tmax _ _ false hs h1,
    ?_, ?_, ?_, ?_, ?_, ?_, ?_⟩
  · simp [finish, hex', h2]
  · simp [finish, hex', h4, Status.code]
  · simp [finish, hex', h5]
  · simp [finish, hex', h3]
  · simp only [finish, hex', if_false, stepSeq] at h8 ⊢
    exact h8
  · have : (finish s' (dirOf s0.t tmax * |s0.dt|)).t = s0.t + n * (dirOf s0.t tmax * |s0.dt|) := by
      simp [finish, hex', h2]
    rw [this]; nlinarith
  · have ht : (finish s' (dirOf s0.t tmax * |s0.dt|)).t = s0.t + n * (dirOf s0.t tmax * |s0.dt|) := by
      simp [finish, hex', h2]
    rw [ht]
    obtain ⟨m, rfl⟩ : ∃ m, n = m + 1 := ⟨n - 1, by omega⟩
    have := hfirst m (by omega)
    push_cast
    nlinarith

/-! ### the three fixed-step bookkeeping variants of the sources satisfy `IsFixed` -/

/-- `r->t += r->dt; r->dt_last_done = r->dt` (NONE, SABA, EOS, MERCURIUS, TRACE),
    `r->t += r->dt/2.` twice (LEAPFROG, WHFast, SEI) and `r->t += r->dt` without
    `dt_last_done` (JANUS) are fixed-step in the sense used above -/
theorem c08_step_kinds_fixed :
    IsFixed (stepOnce : StepFn K) ∧ IsFixed (stepHalves : StepFn K) ∧ IsFixed (stepJanus : StepFn K) :=
  ⟨isFixed_once, isFixed_halves, isFixed_janus⟩

/-! ### finite tables: enum REB_STATUS and the Python status → exception dispatch -/

/-- the `Status` enumeration of the model is `enum REB_STATUS` of src/rebound.h, name for name and
    value for value (table regenerated from the header on every run) -/
theorem c08_status_enum_matches_header :
    Status.all.map (fun s => (s.cname, s.code)) = RV.Gen.C08.rebStatus ∧
    RV.Gen.C08.rebStatusCount = 14 := by
  decide +kernel

/-- `Simulation.integrate` (rebound/simulation.py) has a branch for every non-negative status
    other than SUCCESS (total), codes without a branch do not exist, the codes that raise map to
    pairwise different exception classes (injective), and the only handled code that does not
    raise is REB_STATUS_USER.  The extraction found no irregular branch. -/
theorem c08_python_dispatch_total_injective :
    (∀ s ∈ Status.all, 1 ≤ s.code → pyHandled RV.Gen.C08.pyTable s.code = true) ∧
    (∀ e ∈ RV.Gen.C08.pyTable, ∃ s ∈ Status.all, s.code = e.1 ∧ 1 ≤ e.1) ∧
    (RV.Gen.C08.pyTable.map Prod.fst).Nodup ∧
    ((RV.Gen.C08.pyTable.filterMap Prod.snd)).Nodup ∧
    (∀ e ∈ RV.Gen.C08.pyTable, e.2 = none ↔ e.1 = Status.user.code) ∧
    pyDispatch RV.Gen.C08.pyTable Status.success.code = PyAction.ret ∧
    RV.Gen.C08.pyProblems = 0 ∧ RV.Gen.C08.pyTableCount = 7 := by
  decide +kernel

/-- every integrator's time bookkeeping was recognised by the translator and is the variant the
    tie runs it with -/
theorem c08_step_kinds_table :
    RV.Gen.C08.stepKinds =
      [("none", "once"), ("leapfrog", "halves"), ("whfast", "halves"), ("saba", "once"),
       ("janus", "janus"), ("eos", "once"), ("mercurius", "once"), ("sei", "halves"),
       ("ias15", "adaptive"), ("bs", "adaptive"), ("trace", "once")] := by
  decide +kernel

/-! ### the hypotheses are satisfiable (concrete non-trivial instances over ℚ are in the tie) -/

example : IsFixed (stepHalves : StepFn ℚ) := isFixed_halves
example : ({ } : Flags).Clear := by simp [Flags.Clear]

end RV.Integrate
