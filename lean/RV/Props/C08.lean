import RV.Proofs.Integrate
import RV.Proofs.IntegrateStatus
import RV.Proofs.IntegrateSplit
import RV.Proofs.IntegrateAdaptive
import RV.Proofs.IntegrateRestore
import RV.Proofs.IntegratePause
import RV.Proofs.IntegrateIAS15
import RV.Proofs.IntegrateGuard
import RV.Proofs.IntegrateExitCond
import RV.Gen.C08Status
/-
  C08 — integrate() honours its time, step-size and status contract.

  All statements are about the definitions of RV/Model/Integrate.lean — the very functions the
  driver `drv_c08` runs on IEEE doubles against `reb_simulation_integrate` — instantiated at an
  arbitrary linearly ordered field `K` (exact time arithmetic).  `env k` are the exit-condition
  flags at the k-th step boundary; `Flags.Clear` = no condition, at least one particle.
  `dirOf t tmax` is +1 for forward and −1 for backward integration.
-/
set_option linter.unusedSectionVars false
set_option linter.unusedVariables false
set_option linter.unusedSimpArgs false
set_option linter.unnecessarySimpa false
namespace RV.Integrate
open RV
variable {K : Type} [Field K] [LinearOrder K] [IsStrictOrderedRing K]

/-! ### fixed-step integrators, exact_finish_time = 1 -/

/-- Fixed-step integrator (NONE, LEAPFROG, WHFast, SABA, JANUS, EOS, MERCURIUS, SEI, TRACE: see
    `c08_step_kinds_fixed`), `exact_finish_time = 1`, any `t₀`, any `dt ≠ 0` of either sign, any
    `tmax ≠ t₀` on either side, `n·|dt| < |tmax − t₀| ≤ (n+1)·|dt|` (i.e. `n+1 = ⌈|tmax−t₀|/|dt|⌉`):
    the call returns after exactly `n+1` steps with `t = tmax` exactly, status SUCCESS,
    `dt` restored to `copysign(|dt₀|, tmax − t₀)`, and every step moved time strictly in the
    direction of integration, by at most `|dt₀|`, never past `tmax`. -/
theorem c08_fixed_exact_finish (step : StepFn K) (hfix : IsFixed step) (env : Nat → Flags)
    (henv : ∀ k, (env k).Clear) (s0 : Sim K) (tmax : K) (n : Nat)
    (hst : s0.status ≠ stPAUSED ∧ s0.status ≠ stSCREENSHOT) (hex : s0.exactFinish = 1)
    (hdt : s0.dt ≠ 0) (hne : tmax ≠ s0.t)
    (hlo : (n : K) * |s0.dt| < |tmax - s0.t|) (hhi : |tmax - s0.t| ≤ ((n : K) + 1) * |s0.dt|) :
    ∀ fuel, n + 2 ≤ fuel → ∃ s', integrate step env fuel s0 tmax false = .done s' ∧
      s'.t = tmax ∧ s'.status = stSUCCESS ∧ s'.stepsDone = s0.stepsDone + (n + 1) ∧
      s'.dt = dirOf s0.t tmax * |s0.dt| ∧
      s'.hist.length = s0.hist.length + (n + 1) ∧
      ∀ b ∈ s'.hist, b ∈ s0.hist ∨
        GoodBeat tmax (dirOf s0.t tmax * |s0.dt|) (dirOf s0.t tmax) b := by
  intro fuel hfuel
  have hsg := dirOf_cases s0.t tmax
  have hpos : 0 < |s0.dt| := abs_pos.mpr hdt
  have hdsg : dirOf s0.t tmax * |s0.dt| * dirOf s0.t tmax = |s0.dt| := by
    have := dirOf_mul_self s0.t tmax
    calc dirOf s0.t tmax * |s0.dt| * dirOf s0.t tmax
        = (dirOf s0.t tmax * dirOf s0.t tmax) * |s0.dt| := by ring
      _ = |s0.dt| := by rw [this, one_mul]
  have hs := start_ne s0 tmax (env 0) (henv 0) (by simpa [Status.code] using hst) hne
  obtain ⟨s', h1, h2, h3, h4, h5, h6, h7⟩ :=
    loop_exact step hfix env henv tmax (dirOf s0.t tmax * |s0.dt|) (dirOf s0.t tmax) hsg
      (by rw [hdsg]; exact hpos) n
      { s0 with dt := dirOf s0.t tmax * |s0.dt|, dtLastDone := 0, status := -1 } 0 rfl hex rfl
      (Or.inl rfl) (by rw [hdsg, dirOf_abs hne]; exact hlo) (by rw [hdsg, dirOf_abs hne]; exact hhi)
      fuel hfuel
  refine ⟨finish s' (dirOf s0.t tmax * |s0.dt|), integrate_of_loop_done step env fuel s0 _ s' tmax _ _ false hs h1,
    ?_, ?_, ?_, ?_, ?_, ?_⟩
  · simp [finish, h5, h2]
  · simp [finish, h5, h3, Status.code]
  · simp [finish, h5, h4]
  · simp [finish, h5]
  · simp [finish, h5, h6]
  · intro b hb
    have : b ∈ s'.hist := by simpa [finish, h5] using hb
    exact h7 b this

/-- the same with the step count written as a ceiling (fields with a floor function, e.g. ℚ, ℝ):
    exactly `⌈|tmax − t₀| / |dt|⌉` steps -/
theorem c08_fixed_exact_finish_ceil [FloorRing K] (step : StepFn K) (hfix : IsFixed step)
    (env : Nat → Flags) (henv : ∀ k, (env k).Clear) (s0 : Sim K) (tmax : K)
    (hst : s0.status ≠ stPAUSED ∧ s0.status ≠ stSCREENSHOT) (hex : s0.exactFinish = 1)
    (hdt : s0.dt ≠ 0) (hne : tmax ≠ s0.t) :
    ∀ fuel, ⌈|tmax - s0.t| / |s0.dt|⌉₊ + 1 ≤ fuel →
      ∃ s', integrate step env fuel s0 tmax false = .done s' ∧
        s'.t = tmax ∧ s'.status = stSUCCESS ∧
        s'.stepsDone = s0.stepsDone + ⌈|tmax - s0.t| / |s0.dt|⌉₊ ∧
        s'.dt = dirOf s0.t tmax * |s0.dt| := by
  intro fuel hfuel
  have hpos : 0 < |s0.dt| := abs_pos.mpr hdt
  have hx : 0 < |tmax - s0.t| / |s0.dt| := div_pos (abs_pos.mpr (sub_ne_zero.mpr hne)) hpos
  have hc : 0 < ⌈|tmax - s0.t| / |s0.dt|⌉₊ := Nat.ceil_pos.mpr hx
  obtain ⟨n, hn⟩ : ∃ n, ⌈|tmax - s0.t| / |s0.dt|⌉₊ = n + 1 :=
    ⟨⌈|tmax - s0.t| / |s0.dt|⌉₊ - 1, by clear hst; omega⟩
  have h1 : (n : K) < |tmax - s0.t| / |s0.dt| := by
    apply Nat.lt_ceil.mp; rw [hn]; exact Nat.lt_succ_self n
  have h2 : |tmax - s0.t| / |s0.dt| ≤ (n : K) + 1 := by
    have := Nat.le_ceil (|tmax - s0.t| / |s0.dt|)
    rw [hn] at this; push_cast at this; exact this
  obtain ⟨s', e1, e2, e3, e4, e5, _⟩ := c08_fixed_exact_finish step hfix env henv s0 tmax n hst hex hdt hne
    ((lt_div_iff₀ hpos).mp h1) ((div_le_iff₀ hpos).mp h2) fuel (by rw [hn] at hfuel; clear hst; omega)
  exact ⟨s', e1, e2, e3, by rw [e4, hn], e5⟩

/-- `dt` is restored on EVERY exit path.  Fixed-step integrator, `exact_finish_time = 1`, ARBITRARY
    exit-condition flags at every boundary (user stop, escape, encounter, halting collision, SIGINT,
    error message, no particles — also at the boundary that ends the step cut to `tmax − t`), any
    fuel: whenever the call returns — with SUCCESS or with any exit code, after any number of steps
    — `dt = copysign(|dt₀|, tmax − t₀)`.  (rebound.c:881-884: the restore is unconditional.) -/
theorem c08_fixed_dt_restored_on_every_exit (step : StepFn K) (hfix : IsFixed step) (env : Nat → Flags)
    (s0 : Sim K) (tmax : K) (hst : s0.status ≠ stPAUSED ∧ s0.status ≠ stSCREENSHOT)
    (hex : s0.exactFinish = 1) (hdt : s0.dt ≠ 0) (hne : tmax ≠ s0.t) (fuel : Nat) (s' : Sim K)
    (hret : integrate step env fuel s0 tmax false = .done s') :
    s'.dt = dirOf s0.t tmax * |s0.dt| := by
  have hsg := dirOf_cases s0.t tmax
  have hpos : 0 < |s0.dt| := abs_pos.mpr hdt
  have hdsg : dirOf s0.t tmax * |s0.dt| * dirOf s0.t tmax = |s0.dt| := by
    have := dirOf_mul_self s0.t tmax
    calc dirOf s0.t tmax * |s0.dt| * dirOf s0.t tmax
        = (dirOf s0.t tmax * dirOf s0.t tmax) * |s0.dt| := by ring
      _ = |s0.dt| := by rw [this, one_mul]
  have hst' : s0.status ≠ -3 ∧ s0.status ≠ -4 := by simpa [Status.code] using hst
  -- the state after `start`: dt sign-corrected, dt_last_done = 0, status RUNNING or an exit code of the first heartbeat
  have hstart : ∃ st : Int, (st = -1 ∨ 1 ≤ st) ∧ start s0 tmax (env 0) =
      ({ s0 with dt := dirOf s0.t tmax * |s0.dt|, dtLastDone := 0, status := st }, dirOf s0.t tmax * |s0.dt|) := by
    unfold start runHeartbeat
    simp only [fne_iff, fgt_iff, hne, ne_eq, not_false_eq_true, decide_true, if_true, Status.code, hst'.1, hst'.2,
      and_self]
    have hcs : copysign s0.dt (if s0.t < tmax then (1 : K) else -1) = dirOf s0.t tmax * |s0.dt| := by
      unfold dirOf
      by_cases h : s0.t < tmax
      · simp [h, copysign_pos]
      · simp [h, copysign_neg]
    rcases env 0 with ⟨c, u, e, n, sg, em, nn, se⟩
    cases u <;> cases e <;> cases n <;> simp [hcs]
  obtain ⟨st, hstc, hs⟩ := hstart
  have inv : RInv tmax (dirOf s0.t tmax * |s0.dt|) (dirOf s0.t tmax)
      { s0 with dt := dirOf s0.t tmax * |s0.dt|, dtLastDone := 0, status := st } (dirOf s0.t tmax * |s0.dt|) := by
    refine ⟨rfl, hex, ?_⟩
    rcases hstc with h | h
    · right; left; exact ⟨h, rfl, Or.inl rfl, dirOf_mul_pos hne⟩
    · left; exact h
  unfold integrate at hret
  rw [hs] at hret
  simp only at hret
  cases hl : loop step env tmax false fuel 0
      { s0 with dt := dirOf s0.t tmax * |s0.dt|, dtLastDone := 0, status := st } (dirOf s0.t tmax * |s0.dt|) with
  | mk o lf' =>
    rw [hl] at hret
    cases o with
    | done s1 =>
      simp only [Outcome.done.injEq] at hret
      obtain ⟨h1, h2⟩ := loop_restore step hfix env tmax _ _ hsg (by rw [hdsg]; exact hpos) fuel 0 _ _ inv s1 lf' hl
      rw [← hret]
      simp [finish, h2, h1]
    | blocked s1 => simp at hret
    | outOfFuel s1 => simp at hret

/-- `tmax = t` is a no-op for every integrator and either value of exact_finish_time: zero steps,
    `t` and `dt` untouched (`dt` is not even sign-corrected), status SUCCESS; the only members
    written are `dt_last_done := 0` and the synchronize call at the end. -/
theorem c08_noop_when_target_is_now (step : StepFn K) (env : Nat → Flags) (h0 : (env 0).Clear)
    (s0 : Sim K) (hst : s0.status ≠ stPAUSED ∧ s0.status ≠ stSCREENSHOT) :
    ∀ fuel, 1 ≤ fuel → integrate step env fuel s0 s0.t false =
      .done { s0 with status := stSUCCESS, dtLastDone := 0, syncs := s0.syncs + 1 } := by
  intro fuel hfuel
  obtain ⟨f, rfl⟩ : ∃ f, fuel = f + 1 := ⟨fuel - 1, by omega⟩
  have hs := start_eq s0 s0.t (env 0) h0 (by simpa [Status.code] using hst) rfl
  have hc : ∀ x : K, 0 ≤ x * copysign 1 x := by
    intro x
    rw [copysign_def]
    by_cases hx : x < 0
    · have : ¬ ((1 : K) < 0) := by norm_num
      simp [this, hx]; linarith
    · have : ¬ ((1 : K) < 0) := by norm_num
      simp [this, hx]; exact not_lt.mp hx
  have hce : checkExit { s0 with dtLastDone := 0, status := -1 } s0.t false s0.dt (env 0) =
      .ret { s0 with dtLastDone := 0, status := 0 } s0.dt := by
    rw [checkExit_run _ s0.t s0.dt (env 0) (Or.inl rfl) h0.1.2.2.2.2.2.1 h0.1.2.2.2.2.2.2]
    have h1 : s0.t * copysign 1 s0.dt ≤ (s0.t + s0.dt) * copysign 1 s0.dt := by
      have := hc s0.dt; nlinarith
    by_cases hex : s0.exactFinish = 1
    · simp [hex, h1]
    · simp [hex]
  have hl := loop_of_ret_done step env s0.t false f 0 _ _ s0.dt s0.dt hce (by norm_num)
  rw [integrate_of_loop_done step env (f + 1) s0 _ _ s0.t _ _ false hs hl]
  by_cases hex : s0.exactFinish = 1
  · simp [finish, hex, Status.code]
  · simp [finish, hex, Status.code]

/-! ### fixed-step integrators, exact_finish_time ≠ 1 -/

/-- Fixed-step integrator without exact finishing: the call ends at the first step boundary
    `t₀ + n·d` at or past `tmax` (`d = copysign(|dt₀|, tmax − t₀)`), after exactly `n` steps of size
    `d` (`stepSeq` lists them), overshooting by less than `|dt₀|`; `dt` is left at `d`. -/
theorem c08_fixed_no_exact_finish (step : StepFn K) (hfix : IsFixed step) (env : Nat → Flags)
    (henv : ∀ k, (env k).Clear) (s0 : Sim K) (tmax sg d : K) (n : Nat)
    (hst : s0.status ≠ stPAUSED ∧ s0.status ≠ stSCREENSHOT) (hex : s0.exactFinish ≠ 1)
    (hdt : s0.dt ≠ 0) (hne : tmax ≠ s0.t)
    (hsg : sg = dirOf s0.t tmax) (hd : d = sg * |s0.dt|)
    (hfirst : ∀ j : Nat, j < n → (s0.t + j * d) * sg < tmax * sg)
    (hpast : tmax * sg ≤ (s0.t + n * d) * sg) :
    ∀ fuel, n + 1 ≤ fuel → ∃ s', integrate step env fuel s0 tmax false = .done s' ∧
      s'.t = s0.t + n * d ∧ s'.status = stSUCCESS ∧ s'.stepsDone = s0.stepsDone + n ∧ s'.dt = d ∧
      stepSeq s' = seqOf s0.t d n ++ stepSeq s0 ∧
      0 ≤ (s'.t - tmax) * sg ∧ (s'.t - tmax) * sg < |s0.dt| := by
  intro fuel hfuel
  subst hsg hd
  have hsg := dirOf_cases s0.t tmax
  have hpos : 0 < |s0.dt| := abs_pos.mpr hdt
  have hdsg : dirOf s0.t tmax * |s0.dt| * dirOf s0.t tmax = |s0.dt| := by
    have := dirOf_mul_self s0.t tmax
    calc dirOf s0.t tmax * |s0.dt| * dirOf s0.t tmax
        = (dirOf s0.t tmax * dirOf s0.t tmax) * |s0.dt| := by ring
      _ = |s0.dt| := by rw [this, one_mul]
  have hs := start_ne s0 tmax (env 0) (henv 0) (by simpa [Status.code] using hst) hne
  obtain ⟨s', h1, h2, h3, h4, h5, h6, h7, h8⟩ :=
    loop_nonexact step hfix env henv tmax (dirOf s0.t tmax * |s0.dt|) (dirOf s0.t tmax) hsg
      (by rw [hdsg]; exact hpos) n
      { s0 with dt := dirOf s0.t tmax * |s0.dt|, dtLastDone := 0, status := -1 } 0
      (dirOf s0.t tmax * |s0.dt|) rfl hex rfl hfirst hpast fuel hfuel
  have hex' : ¬ s'.exactFinish = 1 := by rw [h6]; exact hex
  have hn : n ≠ 0 := by
    rintro rfl
    have := dirOf_mul_pos hne
    simp at hpast
    nlinarith
  refine ⟨finish s' (dirOf s0.t tmax * |s0.dt|), integrate_of_loop_done step env fuel s0 _ s' tmax _ _ false hs h1,
    ?_, ?_, ?_, ?_, ?_, ?_, ?_⟩
  · simp [finish, hex', h2]
  · simp [finish, hex', h4, Status.code]
  · simp [finish, hex', h5]
  · simp [finish, hex', h3]
  · simp only [finish, hex', if_false, stepSeq] at h8 ⊢
    exact h8
  · have : (finish s' (dirOf s0.t tmax * |s0.dt|)).t = s0.t + n * (dirOf s0.t tmax * |s0.dt|) := by
      simp [finish, hex', h2]
    rw [this]; nlinarith
  · have ht : (finish s' (dirOf s0.t tmax * |s0.dt|)).t = s0.t + n * (dirOf s0.t tmax * |s0.dt|) := by
      simp [finish, hex', h2]
    rw [ht]
    obtain ⟨m, rfl⟩ : ∃ m, n = m + 1 := ⟨n - 1, by omega⟩
    have := hfirst m (by omega)
    push_cast
    nlinarith

/-! ### adaptive integrators, exact_finish_time = 1 -/

/-- Adaptive integrator (IAS15, BS; `IsAdaptive`, for requested steps up to `|tmax − t₀|`: proposals of
    at least `δ > 0` — except right after a complete requested step that was itself shorter than `δ` —,
    a step advances by `dt_last_done ≤` the step it was called with and `≥ δ` unless it is the complete
    — possibly shrunk — step, whole-step rejections only among the first `R` calls; for IAS15 this is
    derived from the code of its step-size controller: `c08_ias15_progress`), `exact_finish_time = 1`,
    `|dt₀| ≥ δ`, `|tmax − t₀| ≤ N·δ`: the LAST_STEP → RUNNING fallback cannot go on forever — the call
    returns within `N + R + 1` passes of the loop with status SUCCESS and `t = tmax` or
    `|t − tmax| < tscale tmax` (= `1e-12·|tmax|`, or `1e-12` when that is below `1e-200`); `dt` is
    restored to a full step (`≥ δ` in the direction of integration: `last_full_dt` is only ever
    assigned from `dt_last_done` of a step that was not cut to fit `tmax`), and no step moved time
    against the direction of integration or past `tmax`. -/
theorem c08_adaptive_exact_finish (step : StepFn K) (env : Nat → Flags) (henv : ∀ k, (env k).Clear)
    (s0 : Sim K) (tmax δ : K) (R N : Nat)
    (hst : s0.status ≠ stPAUSED ∧ s0.status ≠ stSCREENSHOT) (hex : s0.exactFinish = 1)
    (hne : tmax ≠ s0.t) (hδ : 0 < δ) (hdt : δ ≤ |s0.dt|)
    (had : IsAdaptive step (dirOf s0.t tmax) δ R |tmax - s0.t|) (hN : |tmax - s0.t| ≤ N * δ) :
    ∀ fuel, N + R + 1 ≤ fuel → ∃ s', integrate step env fuel s0 tmax false = .done s' ∧
      s'.status = stSUCCESS ∧ (s'.t = tmax ∨ |s'.t - tmax| < tscale tmax) ∧
      δ ≤ s'.dt * dirOf s0.t tmax ∧
      ∀ b ∈ s'.hist, b ∈ s0.hist ∨ MonoBeat tmax (dirOf s0.t tmax) b := by
  intro fuel hfuel
  have hsg := dirOf_cases s0.t tmax
  have hdsg : dirOf s0.t tmax * |s0.dt| * dirOf s0.t tmax = |s0.dt| := by
    have := dirOf_mul_self s0.t tmax
    calc dirOf s0.t tmax * |s0.dt| * dirOf s0.t tmax
        = (dirOf s0.t tmax * dirOf s0.t tmax) * |s0.dt| := by ring
      _ = |s0.dt| := by rw [this, one_mul]
  have hs := start_ne s0 tmax (env 0) (henv 0) (by simpa [Status.code] using hst) hne
  have inv : AInv tmax (dirOf s0.t tmax) δ
      { s0 with dt := dirOf s0.t tmax * |s0.dt|, dtLastDone := 0, status := -1 }
      (dirOf s0.t tmax * |s0.dt|) :=
    ⟨Or.inl rfl, hex, by simpa [hdsg] using lt_of_lt_of_le hδ hdt, Or.inl (by simpa [hdsg] using hdt),
     by simpa using (dirOf_mul_pos hne).le,
     fun _ => by simpa using dirOf_mul_pos hne, Or.inl rfl, by rw [hdsg]; exact hdt⟩
  obtain ⟨s', lf', hl, h0, hw, hlf, hx, hh⟩ :=
    loop_adaptive step env henv tmax (dirOf s0.t tmax) δ R hsg hδ |tmax - s0.t| had (N + R) N 0 _ _ inv
      (by simpa [dirOf_abs hne] using hN) (by simp [dirOf_abs hne]) (by omega) fuel hfuel
  refine ⟨finish s' lf', integrate_of_loop_done step env fuel s0 _ s' tmax _ lf' false hs hl, ?_, ?_, ?_, ?_⟩
  · simp [finish, hx, h0, Status.code]
  · simpa [finish, hx] using hw
  · simpa [finish, hx] using hlf
  · intro b hb
    have : b ∈ s'.hist := by simpa [finish, hx] using hb
    simpa using hh b this

/-! ### IAS15: the progress hypothesis derived from the code of its step-size controller -/

/-- One `reb_simulation_step` of IAS15 (`stepIAS15`: the retry loop `while(!reb_integrator_ias15_step(r))`
    around the controller `ias15Ctl` = integrator_ias15.c:615-646 — `min_dt` clamp with `copysign`,
    rejection below a quarter of the step tried, growth limited to a factor four), `min_dt > 0`, an
    error estimate that asks for a step in the direction of integration (`raw`, arbitrary otherwise),
    called with a step in direction `sg` of size at most `min_dt·4^fuel`: the step is completed within
    `fuel` attempts; time advances by `dt_last_done`, which points in the direction of integration, is
    no longer than the step asked for and — unless it IS the step asked for — at least `min_dt` long;
    the step proposed for the next call points the same way and is at least `min_dt` or exactly four
    times the step just done (the latter only after a requested step shorter than `min_dt/4`). -/
theorem c08_ias15_progress (minDt sg : K) (raw : Nat → Nat → K → K) (fuel : Nat)
    (hsg : sg = 1 ∨ sg = -1) (hm : 0 < minDt) (hf : 1 ≤ fuel)
    (hraw : ∀ k j d, 0 < d * sg → 0 < raw k j d * sg)
    (k : Nat) (t dt dld : K) (hdt : 0 < dt * sg) (hB : dt * sg ≤ minDt * 4 ^ fuel) :
    let o := stepIAS15 minDt raw fuel k t dt dld
    o.t = t + o.dld ∧ 0 < o.dld * sg ∧ o.dld * sg ≤ dt * sg ∧ (o.dld = dt ∨ minDt ≤ o.dld * sg) ∧
    0 < o.dt * sg ∧ (minDt ≤ o.dt * sg ∨ (o.dt * sg = 4 * (o.dld * sg) ∧ o.dld = dt ∧ dt * sg < minDt)) := by
  obtain ⟨n, rfl⟩ : ∃ n, fuel = n + 1 := ⟨fuel - 1, by omega⟩
  obtain ⟨done, new, e, r1, r2, r3, r4, r5⟩ :=
    ias15Attempts_spec minDt sg (raw k) hsg hm (hraw k) n (n + 1) 0 dt hdt hB (le_refl _)
  simp only [stepIAS15, e]
  refine ⟨trivial, r1, r2, r3, r4, ?_⟩
  by_cases hlt : minDt ≤ new * sg
  · exact Or.inl hlt
  · right
    rcases r5 with h | h
    · exact absurd h hlt
    · have hsmall : done * sg < minDt := by
        have := not_le.mp hlt
        nlinarith
      rcases r3 with h3 | h3
      · exact ⟨h, h3, by rw [← h3]; exact hsmall⟩
      · exact absurd h3 (not_le.mpr hsmall)

/-- IAS15 with `min_dt > 0` and `exact_finish_time = 1`: the call returns — no assumption about the
    dynamics beyond the error estimate pointing in the direction of integration.  `|dt₀| ≥ min_dt`,
    `|tmax − t₀| ≤ N·min_dt` and `≤ min_dt·4^fuel` (retry budget of one step): SUCCESS within `N + 1` loop
    passes, `t = tmax` or inside the 1e-12 window, `dt` left at a full step (`≥ min_dt`), time monotone. -/
theorem c08_ias15_exact_finish (minDt : K) (raw : Nat → Nat → K → K) (fuel : Nat) (env : Nat → Flags)
    (henv : ∀ k, (env k).Clear) (s0 : Sim K) (tmax : K) (N : Nat)
    (hst : s0.status ≠ stPAUSED ∧ s0.status ≠ stSCREENSHOT) (hex : s0.exactFinish = 1)
    (hne : tmax ≠ s0.t) (hm : 0 < minDt) (hdt : minDt ≤ |s0.dt|) (hf : 1 ≤ fuel)
    (hraw : ∀ k j d, 0 < d * dirOf s0.t tmax → 0 < raw k j d * dirOf s0.t tmax)
    (hN : |tmax - s0.t| ≤ N * minDt) (hB : |tmax - s0.t| ≤ minDt * 4 ^ fuel) :
    ∀ loopFuel, N + 1 ≤ loopFuel →
      ∃ s', integrate (stepIAS15 minDt raw fuel) env loopFuel s0 tmax false = .done s' ∧
        s'.status = stSUCCESS ∧ (s'.t = tmax ∨ |s'.t - tmax| < tscale tmax) ∧
        minDt ≤ s'.dt * dirOf s0.t tmax ∧
        ∀ b ∈ s'.hist, b ∈ s0.hist ∨ MonoBeat tmax (dirOf s0.t tmax) b := by
  intro loopFuel hlf
  have had := isAdaptive_ias15 minDt (dirOf s0.t tmax) raw fuel (dirOf_cases _ _) hm hf hraw
  have had' : IsAdaptive (stepIAS15 minDt raw fuel) (dirOf s0.t tmax) minDt 0 |tmax - s0.t| := by
    intro k t dt dld h1 h2
    exact had k t dt dld h1 (le_trans h2 hB)
  exact c08_adaptive_exact_finish (stepIAS15 minDt raw fuel) env henv s0 tmax minDt 0 N hst hex hne hm hdt
    had' hN loopFuel (by omega)

/-! ### splitting an integration (exact_finish_time ≠ 1) -/

/-- `integrate(t₁); integrate(t₂)` versus `integrate(t₂)` for a fixed-step integrator without exact
    finishing, `t₁` strictly after `t₀` and not after `t₂` (in the direction of integration), `n₁` /
    `n₂` the first step boundaries at or past `t₁` / `t₂`: all three calls return, and the split
    run has made the same calls of the step function — same times, same `dt`, same number — and
    ends with the same `t`, `dt`, status and step count as the single call.

    PARTIAL: needs `hno` — the first call must not carry the time past `t₂`.  Without it the
    statement is false of model and code alike (finding C08-N1, `c08_split_overshoot_reverses`). -/
theorem c08_split_same_steps_partial (step : StepFn K) (hfix : IsFixed step) (env : Nat → Flags)
    (henv : ∀ k, (env k).Clear) (s0 : Sim K) (t1 t2 sg d : K) (n1 n2 : Nat)
    (hst : s0.status ≠ stPAUSED ∧ s0.status ≠ stSCREENSHOT) (hex : s0.exactFinish ≠ 1)
    (hdt : s0.dt ≠ 0) (hsg : sg = dirOf s0.t t2) (hd : d = sg * |s0.dt|)
    (h01 : 0 < (t1 - s0.t) * sg) (h12 : t1 * sg ≤ t2 * sg)
    (hfirst1 : ∀ j : Nat, j < n1 → (s0.t + j * d) * sg < t1 * sg)
    (hpast1 : t1 * sg ≤ (s0.t + n1 * d) * sg)
    (hfirst2 : ∀ j : Nat, j < n2 → (s0.t + j * d) * sg < t2 * sg)
    (hpast2 : t2 * sg ≤ (s0.t + n2 * d) * sg)
    (hno : (s0.t + n1 * d) * sg ≤ t2 * sg) :
    ∀ fuel, n2 + 1 ≤ fuel → ∃ sA sB sC,
      integrate step env fuel s0 t1 false = .done sA ∧
      integrate step env fuel sA t2 false = .done sB ∧
      integrate step env fuel s0 t2 false = .done sC ∧
      sB.t = sC.t ∧ sB.dt = sC.dt ∧ sB.status = sC.status ∧ sB.stepsDone = sC.stepsDone ∧
      stepSeq sB = stepSeq sC :=
  split_same_steps step hfix env henv s0 t1 t2 sg d n1 n2 (by simpa [Status.code] using hst) hex hdt
    hsg hd h01 h12 hfirst1 hpast1 hfirst2 hpast2 hno

/-- Finding C08-N1 — the full-strength split statement (without `hno`) is FALSE of the model, and the
    tie shows the code does the same: with `dt = 10`, `integrate(1)` ends at `t = 10`; the following
    `integrate(2)` sees its target behind it, flips `dt` to −10 and steps back to `t = 0`, whereas
    `integrate(2)` alone ends at `t = 10`.  (Evaluated in the kernel on the ℚ instance of the model.) -/
theorem c08_split_overshoot_reverses :
    let A := (integrate stepOnce (fun _ => {}) 8 demoSim 1 false).sim
    let B := (integrate stepOnce (fun _ => {}) 8 A 2 false).sim
    let C := (integrate stepOnce (fun _ => {}) 8 demoSim 2 false).sim
    A.t = 10 ∧ B.t = 0 ∧ B.dt = -10 ∧ B.stepsDone = 2 ∧ C.t = 10 ∧ C.dt = 10 ∧ C.stepsDone = 1 := by
  decide +kernel

/-! ### the exit conditions computed from the particle positions (rebound.c:741-775) -/

/-- `reb_run_heartbeat` on the positions `ps` of the real particles (index order), with the flags COMPUTED by
    the model (`heartbeatFlags`: `escapeFlag`, `encounterFlag` in the operation order of rebound.c:745-772,
    tied bitwise to the real routine): the status it leaves is ENCOUNTER if some pair is closer than
    `exit_min_distance`, else ESCAPE if some particle is farther than `exit_max_distance` from the origin, else
    USER if the heartbeat called stop, else unchanged; and the two computed flags mean exactly that —
    escape ⇔ `exit_max_distance ≠ 0` and `∃ p, max² < x²+y²+z²`; no encounter ⇔ `exit_min_distance = 0` or all
    pairs are at squared distance `≥ min²` (a zero distance switches the test off). -/
theorem c08_exit_conditions_from_positions (s : Sim K) (user : Bool) (maxd mind : K) (ps : List (V3 K)) :
    (runHeartbeat s (heartbeatFlags user maxd mind ps)).status =
      (if encounterFlag mind ps then stENCOUNTER else if escapeFlag maxd ps then stESCAPE
       else if user then stUSER else s.status) ∧
    (escapeFlag maxd ps = true ↔ maxd ≠ 0 ∧ ∃ p ∈ ps, maxd ^ 2 < p.x ^ 2 + p.y ^ 2 + p.z ^ 2) ∧
    (encounterFlag mind ps = false ↔ mind = 0 ∨
      ps.Pairwise (fun a b => mind ^ 2 ≤ (b.x - a.x) ^ 2 + (b.y - a.y) ^ 2 + (b.z - a.z) ^ 2)) := by
  refine ⟨?_, escapeFlag_iff maxd ps, encounterFlag_false_iff mind ps⟩
  unfold runHeartbeat heartbeatFlags
  cases user <;> cases escapeFlag maxd ps <;> cases encounterFlag mind ps <;> simp

/-! ### the no-progress guard (/repo addb1f3) -/

/-- `integrateG` is `reb_simulation_integrate` with the guard of commit addb1f3: a step that leaves `t` and
    `dt` unchanged is only recorded, and the error is raised at the top of the next pass of the loop, i.e.
    only if `reb_check_exit` still says "continue".  For every step function, every schedule of exit
    conditions, every `tmax`: whenever the guard does not fire (second component `false`), the call is
    exactly the call without the guard — all theorems of this file about `integrate` carry over — and when
    it fires it replaces a run that would have gone on (never a SUCCESS or an exit code). -/
theorem c08_guard_only_adds_errors (step : StepFn K) (env : Nat → Flags) (fuel : Nat) (s : Sim K)
    (tmax : K) (inf nanGuard : Bool) (o : Outcome K)
    (h : integrateG nanGuard step env fuel s tmax inf = (o, false)) :
    integrate step env fuel s tmax inf = o ∧ integrateN nanGuard step env fuel s tmax inf = o := by
  have h1 := integrateG_silent step env fuel s tmax inf nanGuard o h
  exact ⟨h1, by rw [integrateN_eq]; exact h1⟩

/-! ### PAUSED / SINGLE_STEP machinery: key presses from another thread -/

/-- Pausing, resuming, single-stepping (arrow-down) and 50-stepping (page-down) any number of times
    does not change what is integrated.  `ctl k` are the keys of server.c:346-375 / display.c delivered
    while the integrator is at step boundary `k`: `(ctl k).1` before `reb_check_exit` is entered (between
    the heartbeat and the SINGLE_STEP countdown), `(ctl k).2` after the countdown, before / during the
    PAUSED wait loop.  For EVERY step function, every `tmax` (also INFINITY), either value of
    exact_finish_time and every exit-condition schedule without SIGINT: if the call with key presses
    returns at all (i.e. every pause is eventually followed by a key that lets it go on), then the call
    without them returns with the same fuel, and the two final states agree in `t`, `dt`,
    `dt_last_done`, step count, number of synchronize calls, status, and in the whole sequence of step
    calls (time before, `dt` used, time after).  Keys that land in the middle of the time logic of
    `reb_check_exit` are a data race of the C code and are outside the model. -/
theorem c08_pause_resume_transparent (step : StepFn K) (env : Nat → Flags) (ctl : Nat → List Ctl × List Ctl)
    (s0 : Sim K) (tmax : K) (inf : Bool) (fuel : Nat)
    (hst : s0.status ≠ stPAUSED ∧ s0.status ≠ stSCREENSHOT) (hsig : ∀ k, (env k).sigint = false)
    (sP : Sim K) (hP : integrateP step env ctl fuel s0 tmax inf = .done sP) :
    ∃ s', integrate step env fuel s0 tmax inf = .done s' ∧
      s'.t = sP.t ∧ s'.dt = sP.dt ∧ s'.dtLastDone = sP.dtLastDone ∧ s'.stepsDone = sP.stepsDone ∧
      s'.syncs = sP.syncs ∧ s'.status = sP.status ∧ stepSeq s' = stepSeq sP := by
  have hst' : s0.status ≠ -3 ∧ s0.status ≠ -4 := by simpa [Status.code] using hst
  obtain ⟨a1, a2, a3, a4, a5⟩ := start_status s0 tmax (env 0) hst'
  have hτ : (start s0 tmax (env 0)).1.status = -1 ∨ (start s0 tmax (env 0)).1.status = -2 ∨
      1 ≤ (start s0 tmax (env 0)).1.status := by
    rw [a1]
    cases hsc : (env 0).first.stepCode with
    | none => simp
    | some x => simp; right; right; exact stepCode_pos _ _ hsc
  have hrel : Rel (start s0 tmax (env 0)).1 (start s0 tmax (env 0)).1 :=
    ⟨rfl, rfl, rfl, rfl, rfl, rfl, rfl, rfl, rfl, srel_self _ (by omega)⟩
  unfold integrateP at hP
  simp only at hP
  cases hl : loopP step env ctl tmax inf fuel 0 (start s0 tmax (env 0)).1 (start s0 tmax (env 0)).2 with
  | mk o lfP =>
    rw [hl] at hP
    cases o with
    | blocked b => simp at hP
    | outOfFuel b => simp at hP
    | done s1 =>
      simp only [Outcome.done.injEq] at hP
      obtain ⟨s', hloop, hr⟩ := loopP_rel step env ctl tmax inf hsig fuel 0 _ _ _ hrel hτ s1 lfP hl
      obtain ⟨r1, r2, r3, r4, r5, r6, r7, r8, r9, r10⟩ := hr
      have hstat : s1.status = s'.status := by
        -- both loops ended: neither status is negative, so they are equal
        have h1 : ¬ s1.status < 0 := by
          intro hneg
          cases fuel with
          | zero => simp [loopP] at hl
          | succ n => exact loopP_done_nonneg step env ctl tmax inf (n + 1) 0 _ _ s1 lfP hl hneg
        rcases r10 with ⟨_, hrun⟩ | ⟨h, _⟩
        · exact absurd hrun.1 h1
        · exact h
      refine ⟨finish s' lfP, integrate_of_loop_done step env fuel s0 _ s' tmax _ lfP inf rfl hloop, ?_⟩
      rw [← hP]
      simp only [finish, r4]
      split_ifs <;> simp [r1, r2, r3, r5, r8, hstat, stepSeq] <;>
        first | exact (by simpa [stepSeq] using r9.symm) | skip

/-! ### status: the first step boundary at which an exit condition holds, in the code's order

  `Flags.exitCode` is the priority list NO_PARTICLES > GENERIC_ERROR > SIGINT > ENCOUNTER > ESCAPE >
  USER > COLLISION > error raised inside the step (the later writer in rebound.c:653-738, 741-775, 857-861 wins).  Both theorems
  hold for EVERY step function (fixed or adaptive), every `tmax` (also `INFINITY`) and either value of
  exact_finish_time. -/

/-- an exit condition that holds before the first step (first heartbeat: user stop / escape /
    encounter; first `reb_check_exit`: error message, no particles) is returned without any step -/
theorem c08_status_at_first_heartbeat (step : StepFn K) (env : Nat → Flags) (s0 : Sim K) (tmax : K)
    (inf : Bool) (c : Int) (hst : s0.status ≠ stPAUSED ∧ s0.status ≠ stSCREENSHOT)
    (hc : (env 0).first.exitCode s0.nOdes s0.isBS = some c) :
    ∀ fuel, 1 ≤ fuel → ∃ s', integrate step env fuel s0 tmax inf = .done s' ∧
      s'.status = c ∧ s'.stepsDone = s0.stepsDone ∧ s'.t = s0.t := by
  intro fuel hfuel
  obtain ⟨f, rfl⟩ : ∃ f, fuel = f + 1 := ⟨fuel - 1, by omega⟩
  have hst' : s0.status ≠ -3 ∧ s0.status ≠ -4 := by simpa [Status.code] using hst
  obtain ⟨a1, a2, a3, a4, a5⟩ := start_status s0 tmax (env 0) hst'
  obtain ⟨hc1, hc2⟩ := exitCode_some _ _ _ _ hc
  have hchk : (env 0).first.checkCode s0.nOdes s0.isBS = (env 0).checkCode s0.nOdes s0.isBS := rfl
  have hs1 : (start s0 tmax (env 0)).1.status = -1 ∨ (start s0 tmax (env 0)).1.status = -2 ∨
      1 ≤ (start s0 tmax (env 0)).1.status := by
    rw [a1]
    cases hsc : (env 0).first.stepCode with
    | none => simp
    | some x => simp; right; right; exact stepCode_pos _ _ hsc
  have hcc : c = ((env 0).checkCode (start s0 tmax (env 0)).1.nOdes (start s0 tmax (env 0)).1.isBS).getD
      (start s0 tmax (env 0)).1.status := by
    rw [a3, a4, a1, ← hchk]; exact hc1
  obtain ⟨s', lf', hce, h1, h2, h3⟩ :=
    checkExit_fires (start s0 tmax (env 0)).1 tmax (start s0 tmax (env 0)).2 inf (env 0) c hs1 hcc hc2
  have hl := loop_of_ret_done step env tmax inf f 0 _ s' _ lf' hce (by omega)
  refine ⟨finish s' lf', integrate_of_loop_done step env (f + 1) s0 _ s' tmax _ lf' inf rfl hl, ?_, ?_, ?_⟩
  · rw [(finish_fields s' lf').1, h1]
  · rw [(finish_fields s' lf').2.1, h2, a2]
  · rw [(finish_fields s' lf').2.2, h3, a5]

/-- boundaries `0 … k` carry no exit condition and boundary `k+1` has exit code `c`: integrate returns
    `c` after exactly `k+1` steps — or the time contract ended the call earlier, with SUCCESS and at
    most `k` steps.  So the returned code is that of the FIRST boundary at which a condition holds,
    in the code's evaluation order; later boundaries are never looked at. -/
theorem c08_status_first_boundary (step : StepFn K) (env : Nat → Flags) (s0 : Sim K) (tmax : K)
    (inf : Bool) (c : Int) (k : Nat) (hst : s0.status ≠ stPAUSED ∧ s0.status ≠ stSCREENSHOT)
    (hclear : ∀ j, j ≤ k → (env j).Clear)
    (hc : (env (k + 1)).exitCode s0.nOdes s0.isBS = some c) :
    ∀ fuel, k + 2 ≤ fuel → ∃ s', integrate step env fuel s0 tmax inf = .done s' ∧
      ((s'.stepsDone = s0.stepsDone + (k + 1) ∧ s'.status = c) ∨
       (s'.stepsDone ≤ s0.stepsDone + k ∧ s'.status = stSUCCESS)) := by
  intro fuel hfuel
  have hst' : s0.status ≠ -3 ∧ s0.status ≠ -4 := by simpa [Status.code] using hst
  obtain ⟨a1, a2, a3, a4, a5⟩ := start_status s0 tmax (env 0) hst'
  obtain ⟨hc1, hc2⟩ := exitCode_some _ _ _ _ hc
  have h0 := hclear 0 (by omega)
  have hfirst : (env 0).first.stepCode = none := by
    obtain ⟨⟨h1, h2, h3, h4, h5, h6, h7⟩, h8⟩ := h0
    simp [Flags.first, Flags.stepCode, h2, h3, h4]
  rw [hfirst] at a1
  simp only [Option.getD_none] at a1
  obtain ⟨s', lf', hl, hres⟩ := loop_first_firing step env tmax inf c k 0 (start s0 tmax (env 0)).1
    (start s0 tmax (env 0)).2 (Or.inl a1)
    (by intro j hj; rw [Nat.zero_add]; exact ⟨(hclear j hj).1.2.2.2.2.2.1, (hclear j hj).1.2.2.2.2.2.2⟩)
    (by intro j _ hj; rw [Nat.zero_add]; exact stepCode_none_of_clear _ (hclear j hj))
    (by rw [Nat.zero_add, a3, a4]; exact hc1) hc2 fuel hfuel
  refine ⟨finish s' lf', integrate_of_loop_done step env fuel s0 _ s' tmax _ lf' inf rfl hl, ?_⟩
  rw [(finish_fields s' lf').1, (finish_fields s' lf').2.1, ← a2]
  simpa [Status.code] using hres

/-! ### the three fixed-step bookkeeping variants of the sources satisfy `IsFixed` -/

/-- `r->t += r->dt; r->dt_last_done = r->dt` (NONE, SABA, EOS, MERCURIUS, TRACE),
    `r->t += r->dt/2.` twice (LEAPFROG, WHFast, SEI) and `r->t += r->dt` without
    `dt_last_done` (JANUS) are fixed-step in the sense used above -/
theorem c08_step_kinds_fixed :
    IsFixed (stepOnce : StepFn K) ∧ IsFixed (stepHalves : StepFn K) ∧ IsFixed (stepJanus : StepFn K) :=
  ⟨isFixed_once, isFixed_halves, isFixed_janus⟩

/-! ### finite tables: enum REB_STATUS and the Python status → exception dispatch -/

/-- the `Status` enumeration of the model is `enum REB_STATUS` of src/rebound.h, name for name and
    value for value (table regenerated from the header on every run) -/
theorem c08_status_enum_matches_header :
    Status.all.map (fun s => (s.cname, s.code)) = RV.Gen.C08.rebStatus ∧
    RV.Gen.C08.rebStatusCount = 14 := by
  decide +kernel

/-- `Simulation.integrate` (rebound/simulation.py) has a branch for every non-negative status
    other than SUCCESS (total), codes without a branch do not exist, the codes that raise map to
    pairwise different exception classes (injective), and the only handled code that does not
    raise is REB_STATUS_USER.  The extraction found no irregular branch. -/
theorem c08_python_dispatch_total_injective :
    (∀ s ∈ Status.all, 1 ≤ s.code → pyHandled RV.Gen.C08.pyTable s.code = true) ∧
    (∀ e ∈ RV.Gen.C08.pyTable, ∃ s ∈ Status.all, s.code = e.1 ∧ 1 ≤ e.1) ∧
    (RV.Gen.C08.pyTable.map Prod.fst).Nodup ∧
    ((RV.Gen.C08.pyTable.filterMap Prod.snd)).Nodup ∧
    (∀ e ∈ RV.Gen.C08.pyTable, e.2 = none ↔ e.1 = Status.user.code) ∧
    pyDispatch RV.Gen.C08.pyTable Status.success.code = PyAction.ret ∧
    RV.Gen.C08.pyProblems = 0 ∧ RV.Gen.C08.pyTableCount = 7 := by
  decide +kernel

/-- the translator classified the time bookkeeping of all 11 integrators, and every one it
    recognised ("?" = statement pattern not recognised, then only the tie speaks) is the variant
    the tie runs it with (JANUS: `janus` = `dt_last_done` never written, the source before /repo 5e0351b, or
    `once` = `r->dt_last_done = r->dt` as the other integrators, since then; both are `IsFixed`) -/
theorem c08_step_kinds_table :
    RV.Gen.C08.stepKinds.map Prod.fst =
      ["none", "leapfrog", "whfast", "saba", "janus", "eos", "mercurius", "sei", "ias15", "bs", "trace"] ∧
    ∀ e ∈ RV.Gen.C08.stepKinds, e.2 = "?" ∨
      e ∈ [("none", "once"), ("leapfrog", "halves"), ("whfast", "halves"), ("saba", "once"),
           ("janus", "janus"), ("janus", "once"), ("eos", "once"), ("mercurius", "once"), ("sei", "halves"),
           ("ias15", "adaptive"), ("bs", "adaptive"), ("trace", "once")] := by
  decide +kernel

/-! ### the hypotheses are satisfiable: concrete instances evaluated on the ℚ model -/

example : IsFixed (stepHalves : StepFn ℚ) := isFixed_halves
example : ({ } : Flags).Clear := by simp [Flags.Clear]

/-- an adaptive step function satisfying `IsAdaptive` (proposes 1/2, always does the whole step) -/
example : IsAdaptive (fun _ t dt _ => ⟨t + dt, 1 / 2, dt⟩ : StepFn ℚ) 1 (1 / 2) 0 100 := by
  intro k t dt dld h _
  refine ⟨by norm_num, Or.inr ⟨rfl, h, le_refl _, Or.inr rfl, Or.inl (by norm_num)⟩⟩

/-- `t₀ = 0, dt = 1/10, tmax = 1`, exact finish, `t += dt/2` twice: 10 steps, `t = 1`, `dt = 1/10` -/
example :
    let s0 : Sim ℚ := { demoSim with dt := 1 / 10, exactFinish := 1 }
    let r := (integrate stepHalves (fun _ => {}) 20 s0 1 false).sim
    r.t = 1 ∧ r.dt = 1 / 10 ∧ r.stepsDone = 10 ∧ r.status = 0 := by
  decide +kernel

/-- backwards with a positive `dt` and a step larger than the interval: one step, `dt = −10` after -/
example :
    let s0 : Sim ℚ := { demoSim with exactFinish := 1 }
    let r := (integrate stepOnce (fun _ => {}) 20 s0 (-3) false).sim
    r.t = -3 ∧ r.dt = -10 ∧ r.stepsDone = 1 ∧ r.status = 0 := by
  decide +kernel

/-- the IAS15 controller without forces (`dt_new = dt_done/0.25`), `min_dt = 1/2`, backwards from `t = 0` to
    `-10` with `dt = 1/100`: five growing steps 1/100 … 256/100 and a last one cut to fit, ends exactly, `dt` left at the last full step -/
example :
    let s0 : Sim ℚ := { demoSim with dt := 1 / 100, exactFinish := 1 }
    let r := (integrate (stepIAS15 (1 / 2) ias15RawFree 8) (fun _ => {}) 50 s0 (-10) false).sim
    r.t = -10 ∧ r.status = 0 ∧ r.stepsDone = 6 ∧ r.dt = -256 / 100 := by
  decide +kernel

/-- the guard on the ℚ model: a step function that never moves (`t` and `dt` unchanged) is stopped with
    GENERIC_ERROR after one step; the same function towards `tmax = t` is a no-op with SUCCESS -/
example :
    let stuck : StepFn ℚ := fun _ t dt dld => ⟨t, dt, dld⟩
    let s0 : Sim ℚ := { demoSim with dt := 1, exactFinish := 1 }
    let r := integrateG false stuck (fun _ => {}) 50 s0 5 false
    let u := integrateG false stuck (fun _ => {}) 50 s0 0 false
    r.1.sim.status = 1 ∧ r.1.sim.stepsDone = 1 ∧ r.2 = true ∧ u.1.sim.status = 0 ∧ u.2 = false := by
  decide +kernel

/-- three particles, `exit_max_distance = 2`, `exit_min_distance = 1/2`: the pair (0,2) is closer than 1/2 and
    particle 1 is outside the sphere; ENCOUNTER wins; with the minimum distance switched off it is ESCAPE -/
example :
    let ps : List (V3 ℚ) := [⟨0, 0, 0⟩, ⟨3, 0, 0⟩, ⟨1 / 4, 1 / 4, 0⟩]
    (runHeartbeat demoSim (heartbeatFlags false 2 (1 / 2) ps)).status = 3 ∧
    (runHeartbeat demoSim (heartbeatFlags false 2 0 ps)).status = 4 ∧
    (runHeartbeat demoSim (heartbeatFlags true 0 0 ps)).status = 5 := by
  decide +kernel

/-- pause at boundary 2, one single step, 50-step key, space twice: same end state as without keys -/
example :
    let ctl : Nat → List Ctl × List Ctl := fun k => if k = 2 then ([.space], [.step1]) else
      if k = 3 then ([], [.step50]) else if k = 7 then ([.space, .step1], [.space]) else ([], [])
    let s0 : Sim ℚ := { demoSim with dt := 1, exactFinish := 1 }
    let r := (integrateP stepOnce (fun _ => {}) ctl 200 s0 (25 / 2) false).sim
    let u := (integrate stepOnce (fun _ => {}) 200 s0 (25 / 2) false).sim
    r.t = 25 / 2 ∧ r.stepsDone = 13 ∧ r.status = 0 ∧ r.dt = 1 ∧ u.t = r.t ∧ u.stepsDone = r.stepsDone ∧
      stepSeq u = stepSeq r := by
  decide +kernel

/-- escape at the third boundary beats a user stop at the same boundary; later flags are not seen -/
example :
    let env : Nat → Flags := fun k => if k = 3 then { user := true, escape := true } else
      if k = 4 then { n := 0 } else {}
    let s0 : Sim ℚ := { demoSim with dt := 1, exactFinish := 1 }
    let r := (integrate stepOnce env 20 s0 100 false).sim
    r.status = 4 ∧ r.stepsDone = 3 ∧ r.t = 3 := by
  decide +kernel

end RV.Integrate
