import RV.Proofs.Kepler
/-
  C03 — Kepler propagation is exact for every two-body orbit and time step.

  Statements are about the definitions of RV/Model/Kepler.lean — the same ones `drv_c03`
  runs on IEEE doubles, bit for bit against the compiled `reb_whfast_kepler_solver` —
  instantiated at an arbitrary field `K` (exact arithmetic), and about the table that
  rv/extract_c03.py reads out of src/integrator_whfast.c (RV/Gen/C03Table.lean).

  What is proved: the constants are the inverse factorials; the Horner series is the
  truncated Stumpff series; the argument-doubling loop body preserves the defining
  relations of the Stumpff functions exactly; scaling turns them into the Stiefel
  G-relations; and *if* the four numbers handed to the f-g update satisfy the G-relations
  and `X` solves the universal Kepler equation, the updated particle has the same energy,
  the same angular momentum vector, the same Laplace vector, radius `r0 + η0 G1 + ζ0 G2`
  and radial velocity `η0 G0 + ζ0 G1`: it lies on the same conic, at the point selected by
  `X`.  What is not proved (D in DESIGN.md): that the Newton / quartic / bisection
  iterations converge to the root, and IEEE error growth; these are the job of the
  search against a 50-digit reference.
-/
set_option linter.unusedTactic false
set_option linter.unreachableTactic false
set_option linter.unnecessarySeqFocus false
set_option linter.unusedVariables false
set_option linter.unusedSectionVars false
namespace RV.Kepler
open RV RV.Gen.C03
variable {K : Type} [Field K]

/-! ### constants -/

/-- `invfactorial[n] = 1/n!` for every entry of the table in the C source (n < 35) -/
theorem c03_invfactorial_table (i : Fin 35) : (invfact i : K) = 1 / (Nat.factorial i : K) :=
  invfact_eq i

/-- the entries as written in the source: numerator 1, denominator n! (as integers) -/
theorem c03_invfactorial_entries (i : Fin 35) :
    invfactNum[i] = 1 ∧ invfactDen[i] = Nat.factorial i := table_nat i

/-- the constants the hand-written model relies on are the ones in the source -/
theorem c03_source_constants :
    invfactCount = 35 ∧ invfactDeclared = 35 ∧ nmaxCs3 = 13 ∧ nmaxCs6 = 15 ∧
    divCs3 = (4, 1) ∧ divCs6 = (4, 1) ∧ 2 ≤ nmaxNewt ∧ 2 ≤ nmaxQuart := by decide

variable [CharZero K]

/-! ### series part of stumpff_cs3 -/

/-- Horner evaluation = Stumpff series truncated after z⁵/13! resp. z⁵/12!, and
    `c1 = 1 − z c3`, `c0 = 1 − z c2` (how the code computes them). -/
theorem c03_series_closed_form (z : K) :
    (cs3Series z).c3 = 1/6 - z/120 + z^2/5040 - z^3/362880 + z^4/39916800 - z^5/6227020800 ∧
    (cs3Series z).c2 = 1/2 - z/24 + z^2/720 - z^3/40320 + z^4/3628800 - z^5/479001600 ∧
    (cs3Series z).c1 = 1 - z * (cs3Series z).c3 ∧
    (cs3Series z).c0 = 1 - z * (cs3Series z).c2 := cs3Series_eq z

/-- the third Stumpff relation holds for the truncated series up to an explicit
    remainder of order z⁶/(13!)² · 8.9e8 ≈ 2.3e-11 z⁶  (≤ 2.3e-17 for |z| ≤ 0.1). -/
theorem c03_series_truncation_residual (z : K) :
    (cs3Series z).c1 ^ 2 - (1 + (cs3Series z).c0) * (cs3Series z).c2 =
      z^6 * (z^6 - 143*z^5 + 14040*z^4 - 864864*z^3 + 28828800*z^2 - 389188800*z + 889574400)
        / 38775788043632640000 := by
  obtain ⟨e3, e2, e1, e0⟩ := cs3Series_eq z
  rw [e1, e0, e3, e2]
  field_simp
  ring

/-! ### duplication -/

/-- one pass of the loop body `cs[3] = (cs[2]+cs[0]*cs[3])*0.25; cs[2] = cs[1]*cs[1]*0.5;
    cs[1] = cs[0]*cs[1]; cs[0] = 2.*cs[0]*cs[0]-1.` maps Stumpff values at `z` to
    Stumpff values at `4z`. -/
theorem c03_duplication {z : K} {c : Cs3 K} (h : StumpffRel z c) :
    StumpffRel (4 * z) (cs3DupStep c) := cs3DupStep_rel h

/-- the whole `for(;n>0;n--)` loop -/
theorem c03_duplication_loop (n : Nat) {z : K} {c : Cs3 K} (h : StumpffRel z c) :
    StumpffRel (4 ^ n * z) (cs3Dup n c) := cs3Dup_rel n h

/-- `c0² + z c1² = 1` ("cos² + sin² = 1") is a consequence of the relations -/
theorem c03_stumpff_pythagoras {z : K} {c : Cs3 K} (h : StumpffRel z c) :
    c.c0 ^ 2 + z * c.c1 ^ 2 = 1 := h.pythagoras

/-- stiefel_Gs3: scaling by powers of X gives the G-relations for (β, X) -/
theorem c03_stiefel_scaling {β X : K} {c : Cs3 K} (h : StumpffRel (β * (X * X)) c) :
    GRel β X (scaleGs3 X c) := scaleGs3_rel h

/-! ### f-g update (lines 297-308) -/
section fg
variable {M dt r0 X : K} {p : P6 K} {g : Cs3 K}

/-- Wronskian of the update: `(1+f)(1+ġ) − g ḟ = 1` -/
theorem c03_fg_wronskian (h : KeplerStep M dt r0 X p g) (rne : newR M r0 p g ≠ 0) :
    let c := fgCoeffs M (1 / r0) (1 / newR M r0 p g) dt g.c1 g.c2 g.c3
    (1 + c.f) * (1 + c.gd) - c.g * c.fd = 1 := by
  obtain ⟨hr0, r0ne, ⟨h0, h1, h2⟩, hk⟩ := h
  obtain ⟨e1, e2, e3, e4⟩ := invariants_eq M r0 p
  obtain ⟨c1, c2, c3, c4⟩ := fgCoeffs_eq M r0 (newR M r0 p g) dt g.c1 g.c2 g.c3
  intro c
  rw [c1, c2, c3, c4]
  rw [e2] at h0 h1; rw [e3, e4] at hk
  exact fg_wronskian_sc r0 _ (xv p) _ M X dt g.c0 g.c1 g.c2 g.c3 h0 h1 h2 hk
    (by simp only [newR, e3, e4]) r0ne rne

/-- angular momentum `x × v` is unchanged -/
theorem c03_fg_angular_momentum (h : KeplerStep M dt r0 X p g) (rne : newR M r0 p g ≠ 0) :
    let q := fgUpdate M (1 / r0) (1 / newR M r0 p g) dt g.c1 g.c2 g.c3 p
    Lx q = Lx p ∧ Ly q = Ly p ∧ Lz q = Lz p := by
  have hw := c03_fg_wronskian h rne
  obtain ⟨l1, l2, l3⟩ := fgApply_L (fgCoeffs M (1 / r0) (1 / newR M r0 p g) dt g.c1 g.c2 g.c3) p
  simp only [fgUpdate] at *
  rw [l1, l2, l3, hw]
  simp

/-- the new radius: `|x'|² = (r0 + η0 G1 + ζ0 G2)²` -/
theorem c03_fg_radius (h : KeplerStep M dt r0 X p g) :
    rr (fgUpdate M (1 / r0) (1 / newR M r0 p g) dt g.c1 g.c2 g.c3 p) = (newR M r0 p g) ^ 2 := by
  obtain ⟨hr0, r0ne, ⟨h0, h1, h2⟩, hk⟩ := h
  obtain ⟨e1, e2, e3, e4⟩ := invariants_eq M r0 p
  obtain ⟨c1, c2, c3, c4⟩ := fgCoeffs_eq M r0 (newR M r0 p g) dt g.c1 g.c2 g.c3
  rw [fgUpdate, fgApply_rr, c1, c2, ← hr0]
  rw [e2] at h0 h1; rw [e3, e4] at hk
  exact fg_radius_sc r0 _ (xv p) _ M X dt g.c0 g.c1 g.c2 g.c3 (vv p) h0 h1 h2 hk
    (by simp only [newR, e3, e4]) r0ne (by field_simp; ring)

/-- energy: `2M/r' − v'² = β` with `r' = r0 + η0 G1 + ζ0 G2` (= |x'| by `c03_fg_radius`) -/
theorem c03_fg_energy (h : KeplerStep M dt r0 X p g) (rne : newR M r0 p g ≠ 0) :
    2 * M / newR M r0 p g - vv (fgUpdate M (1 / r0) (1 / newR M r0 p g) dt g.c1 g.c2 g.c3 p)
      = (invariants M r0 (1 / r0) p).beta := by
  obtain ⟨hr0, r0ne, ⟨h0, h1, h2⟩, hk⟩ := h
  obtain ⟨e1, e2, e3, e4⟩ := invariants_eq M r0 p
  obtain ⟨c1, c2, c3, c4⟩ := fgCoeffs_eq M r0 (newR M r0 p g) dt g.c1 g.c2 g.c3
  rw [fgUpdate, fgApply_vv, c3, c4, ← hr0, e2]
  rw [e2] at h0
  exact fg_energy_sc r0 _ (xv p) _ M g.c0 g.c1 g.c2 (vv p) h0 h2
    (by simp only [newR, e3, e4]) r0ne rne (by field_simp; ring)

/-- `x'·v' = η0 G0 + ζ0 G1` (radial velocity times radius at the new point) -/
theorem c03_fg_radial_velocity (h : KeplerStep M dt r0 X p g) (rne : newR M r0 p g ≠ 0) :
    xv (fgUpdate M (1 / r0) (1 / newR M r0 p g) dt g.c1 g.c2 g.c3 p)
      = (invariants M r0 (1 / r0) p).eta0 * g.c0 + (invariants M r0 (1 / r0) p).zeta0 * g.c1 := by
  obtain ⟨hr0, r0ne, ⟨h0, h1, h2⟩, hk⟩ := h
  obtain ⟨e1, e2, e3, e4⟩ := invariants_eq M r0 p
  obtain ⟨c1, c2, c3, c4⟩ := fgCoeffs_eq M r0 (newR M r0 p g) dt g.c1 g.c2 g.c3
  rw [fgUpdate, fgApply_xv, c1, c2, c3, c4, ← hr0, e3, e4]
  rw [e2] at h0 h1; rw [e3, e4] at hk
  exact fg_eta_sc r0 _ (xv p) _ M X dt g.c0 g.c1 g.c2 g.c3 (vv p) h0 h1 hk
    (by simp only [newR, e3, e4]) r0ne rne (by field_simp; ring)

end fg
end RV.Kepler
