import RV.Proofs.Kepler
import RV.Proofs.KeplerTerm
import RV.Proofs.KeplerBisect
import RV.Proofs.KeplerDefect
import RV.Proofs.Kepler512
/-
  C03 — Kepler propagation is exact for every two-body orbit and time step.

  Statements are about the definitions of RV/Model/Kepler.lean — the same ones `drv_c03`
  runs on IEEE doubles, bit for bit against the compiled `reb_whfast_kepler_solver` —
  instantiated at an arbitrary field `K` (exact arithmetic), and about the table that
  rv/extract_c03.py reads out of src/integrator_whfast.c (RV/Gen/C03Table.lean).

  What is proved: the constants are the inverse factorials; the Horner series is the
  truncated Stumpff series; the argument-doubling loop body preserves the defining
  relations of the Stumpff functions exactly; scaling turns them into the Stiefel
  G-relations; and *if* the four numbers handed to the f-g update satisfy the G-relations
  and `X` solves the universal Kepler equation, the updated particle has the same energy,
  the same angular momentum vector, the same Laplace vector, radius `r0 + η0 G1 + ζ0 G2`
  and radial velocity `η0 G0 + ζ0 G1`: it lies on the same conic, at the point selected by
  `X`.  What is not proved (D in DESIGN.md): that the Newton / quartic / bisection
  iterations converge to the root, and IEEE error growth; these are the job of the
  search against a 50-digit reference.
-/
set_option linter.unusedTactic false
set_option linter.unreachableTactic false
set_option linter.unnecessarySeqFocus false
set_option linter.unusedVariables false
set_option linter.unusedSectionVars false
namespace RV.Kepler
open RV RV.Gen.C03
variable {K : Type} [Field K]

/-! ### constants -/

/-- `invfactorial[n] = 1/n!` for every entry of the table in the C source (n < 35) -/
theorem c03_invfactorial_table (i : Fin 35) : (invfact i : K) = 1 / (Nat.factorial i : K) :=
  invfact_eq i

/-- the entries as written in the source: numerator 1, denominator n! (as integers) -/
theorem c03_invfactorial_entries (i : Fin 35) :
    invfactNum[i] = 1 ∧ invfactDen[i] = Nat.factorial i := table_nat i

/-- the constants the hand-written model relies on are the ones in the source -/
theorem c03_source_constants :
    invfactCount = 35 ∧ invfactDeclared = 35 ∧ nmaxCs3 = 13 ∧ nmaxCs6 = 15 ∧
    divCs3 = (4, 1) ∧ divCs6 = (4, 1) ∧ 2 ≤ nmaxNewt ∧ 2 ≤ nmaxQuart := by decide

variable [CharZero K]

/-! ### series part of stumpff_cs3 -/

/-- Horner evaluation = Stumpff series truncated after z⁵/13! resp. z⁵/12!, and
    `c1 = 1 − z c3`, `c0 = 1 − z c2` (how the code computes them). -/
theorem c03_series_closed_form (z : K) :
    (cs3Series z).c3 = 1/6 - z/120 + z^2/5040 - z^3/362880 + z^4/39916800 - z^5/6227020800 ∧
    (cs3Series z).c2 = 1/2 - z/24 + z^2/720 - z^3/40320 + z^4/3628800 - z^5/479001600 ∧
    (cs3Series z).c1 = 1 - z * (cs3Series z).c3 ∧
    (cs3Series z).c0 = 1 - z * (cs3Series z).c2 := cs3Series_eq z

/-- the third Stumpff relation holds for the truncated series up to an explicit
    remainder of order z⁶/(13!)² · 8.9e8 ≈ 2.3e-11 z⁶  (≤ 2.3e-17 for |z| ≤ 0.1). -/
theorem c03_series_truncation_residual (z : K) :
    (cs3Series z).c1 ^ 2 - (1 + (cs3Series z).c0) * (cs3Series z).c2 =
      z^6 * (z^6 - 143*z^5 + 14040*z^4 - 864864*z^3 + 28828800*z^2 - 389188800*z + 889574400)
        / 38775788043632640000 := by
  obtain ⟨e3, e2, e1, e0⟩ := cs3Series_eq z
  rw [e1, e0, e3, e2]
  field_simp
  ring

/-! ### duplication -/

/-- one pass of the loop body `cs[3] = (cs[2]+cs[0]*cs[3])*0.25; cs[2] = cs[1]*cs[1]*0.5;
    cs[1] = cs[0]*cs[1]; cs[0] = 2.*cs[0]*cs[0]-1.` maps Stumpff values at `z` to
    Stumpff values at `4z`. -/
theorem c03_duplication {z : K} {c : Cs3 K} (h : StumpffRel z c) :
    StumpffRel (4 * z) (cs3DupStep c) := cs3DupStep_rel h

/-- the whole `for(;n>0;n--)` loop -/
theorem c03_duplication_loop (n : Nat) {z : K} {c : Cs3 K} (h : StumpffRel z c) :
    StumpffRel (4 ^ n * z) (cs3Dup n c) := cs3Dup_rel n h

/-- `c0² + z c1² = 1` ("cos² + sin² = 1") is a consequence of the relations -/
theorem c03_stumpff_pythagoras {z : K} {c : Cs3 K} (h : StumpffRel z c) :
    c.c0 ^ 2 + z * c.c1 ^ 2 = 1 := h.pythagoras

/-- stiefel_Gs3: scaling by powers of X gives the G-relations for (β, X) -/
theorem c03_stiefel_scaling {β X : K} {c : Cs3 K} (h : StumpffRel (β * (X * X)) c) :
    GRel β X (scaleGs3 X c) := scaleGs3_rel h

/-! ### f-g update (lines 297-308) -/
section fg
variable {M dt r0 X : K} {p : P6 K} {g : Cs3 K}

/-- Wronskian of the update: `(1+f)(1+ġ) − g ḟ = 1` -/
theorem c03_fg_wronskian (h : KeplerStep M dt r0 X p g) (rne : newR M r0 p g ≠ 0) :
    let c := fgCoeffs M (1 / r0) (1 / newR M r0 p g) dt g.c1 g.c2 g.c3
    (1 + c.f) * (1 + c.gd) - c.g * c.fd = 1 := by
  obtain ⟨hr0, r0ne, ⟨h0, h1, h2⟩, hk⟩ := h
  obtain ⟨e1, e2, e3, e4⟩ := invariants_eq M r0 p
  obtain ⟨c1, c2, c3, c4⟩ := fgCoeffs_eq M r0 (newR M r0 p g) dt g.c1 g.c2 g.c3
  intro c
  rw [c1, c2, c3, c4]
  rw [e2] at h0 h1; rw [e3, e4] at hk
  exact fg_wronskian_sc r0 _ (xv p) _ M X dt g.c0 g.c1 g.c2 g.c3 h0 h1 h2 hk
    (by simp only [newR, e3, e4]) r0ne rne

/-- angular momentum `x × v` is unchanged -/
theorem c03_fg_angular_momentum (h : KeplerStep M dt r0 X p g) (rne : newR M r0 p g ≠ 0) :
    let q := fgUpdate M (1 / r0) (1 / newR M r0 p g) dt g.c1 g.c2 g.c3 p
    Lx q = Lx p ∧ Ly q = Ly p ∧ Lz q = Lz p := by
  have hw := c03_fg_wronskian h rne
  obtain ⟨l1, l2, l3⟩ := fgApply_L (fgCoeffs M (1 / r0) (1 / newR M r0 p g) dt g.c1 g.c2 g.c3) p
  simp only [fgUpdate] at *
  rw [l1, l2, l3, hw]
  simp

/-- the new radius: `|x'|² = (r0 + η0 G1 + ζ0 G2)²` -/
theorem c03_fg_radius (h : KeplerStep M dt r0 X p g) :
    rr (fgUpdate M (1 / r0) (1 / newR M r0 p g) dt g.c1 g.c2 g.c3 p) = (newR M r0 p g) ^ 2 := by
  obtain ⟨hr0, r0ne, ⟨h0, h1, h2⟩, hk⟩ := h
  obtain ⟨e1, e2, e3, e4⟩ := invariants_eq M r0 p
  obtain ⟨c1, c2, c3, c4⟩ := fgCoeffs_eq M r0 (newR M r0 p g) dt g.c1 g.c2 g.c3
  rw [fgUpdate, fgApply_rr, c1, c2, ← hr0]
  rw [e2] at h0 h1; rw [e3, e4] at hk
  exact fg_radius_sc r0 _ (xv p) _ M X dt g.c0 g.c1 g.c2 g.c3 (vv p) h0 h1 h2 hk
    (by simp only [newR, e3, e4]) r0ne (by field_simp; ring)

/-- energy: `2M/r' − v'² = β` with `r' = r0 + η0 G1 + ζ0 G2` (= |x'| by `c03_fg_radius`) -/
theorem c03_fg_energy (h : KeplerStep M dt r0 X p g) (rne : newR M r0 p g ≠ 0) :
    2 * M / newR M r0 p g - vv (fgUpdate M (1 / r0) (1 / newR M r0 p g) dt g.c1 g.c2 g.c3 p)
      = (invariants M r0 (1 / r0) p).beta := by
  obtain ⟨hr0, r0ne, ⟨h0, h1, h2⟩, hk⟩ := h
  obtain ⟨e1, e2, e3, e4⟩ := invariants_eq M r0 p
  obtain ⟨c1, c2, c3, c4⟩ := fgCoeffs_eq M r0 (newR M r0 p g) dt g.c1 g.c2 g.c3
  rw [fgUpdate, fgApply_vv, c3, c4, ← hr0, e2]
  rw [e2] at h0
  exact fg_energy_sc r0 _ (xv p) _ M g.c0 g.c1 g.c2 (vv p) h0 h2
    (by simp only [newR, e3, e4]) r0ne rne (by field_simp; ring)

/-- `x'·v' = η0 G0 + ζ0 G1` (radial velocity times radius at the new point) -/
theorem c03_fg_radial_velocity (h : KeplerStep M dt r0 X p g) (rne : newR M r0 p g ≠ 0) :
    xv (fgUpdate M (1 / r0) (1 / newR M r0 p g) dt g.c1 g.c2 g.c3 p)
      = (invariants M r0 (1 / r0) p).eta0 * g.c0 + (invariants M r0 (1 / r0) p).zeta0 * g.c1 := by
  obtain ⟨hr0, r0ne, ⟨h0, h1, h2⟩, hk⟩ := h
  obtain ⟨e1, e2, e3, e4⟩ := invariants_eq M r0 p
  obtain ⟨c1, c2, c3, c4⟩ := fgCoeffs_eq M r0 (newR M r0 p g) dt g.c1 g.c2 g.c3
  rw [fgUpdate, fgApply_xv, c1, c2, c3, c4, ← hr0, e3, e4]
  rw [e2] at h0 h1; rw [e3, e4] at hk
  exact fg_eta_sc r0 _ (xv p) _ M X dt g.c0 g.c1 g.c2 g.c3 (vv p) h0 h1 hk
    (by simp only [newR, e3, e4]) r0ne rne (by field_simp; ring)

/-- the Laplace–Runge–Lenz vector is unchanged -/
theorem c03_fg_laplace (h : KeplerStep M dt r0 X p g) (rne : newR M r0 p g ≠ 0) :
    let q := fgUpdate M (1 / r0) (1 / newR M r0 p g) dt g.c1 g.c2 g.c3 p
    Ax M (newR M r0 p g) q = Ax M r0 p ∧ Ay M (newR M r0 p g) q = Ay M r0 p ∧
    Az M (newR M r0 p g) q = Az M r0 p := by
  have hE := c03_fg_energy h rne
  have hV := c03_fg_radial_velocity h rne
  obtain ⟨hr0, r0ne, ⟨h0, h1, h2⟩, hk⟩ := h
  obtain ⟨e1, e2, e3, e4⟩ := invariants_eq M r0 p
  obtain ⟨c1, c2, c3, c4⟩ := fgCoeffs_eq M r0 (newR M r0 p g) dt g.c1 g.c2 g.c3
  rw [e2] at h0 h1 hE; rw [e3, e4] at hk hV
  have hr : newR M r0 p g = r0 + xv p * g.c1 + (M - (2 * M * (1 / r0) - vv p) * r0) * g.c2 := by
    simp only [newR, e3, e4]
  have l1 := fg_laplace1_sc r0 _ (xv p) _ M g.c0 g.c1 g.c2 h0 h2 hr r0ne rne
  have l2 := fg_laplace2_sc r0 _ (xv p) _ M X dt g.c0 g.c1 g.c2 g.c3 h0 h1 h2 hk hr rne
  have hvp : vv p - M / r0 = M / r0 - (2 * M * (1 / r0) - vv p) := by field_simp; ring
  intro q
  have hvq : vv q - M / newR M r0 p g = M / newR M r0 p g - (2 * M * (1 / r0) - vv p) := by
    linear_combination -hE
  have hf : (fgCoeffs M (1 / r0) (1 / newR M r0 p g) dt g.c1 g.c2 g.c3).f = -(M * g.c2 / r0) := by
    linear_combination c1
  have hgd : (fgCoeffs M (1 / r0) (1 / newR M r0 p g) dt g.c1 g.c2 g.c3).gd = -(M * g.c2 / newR M r0 p g) := by
    linear_combination c4
  refine ⟨?_, ?_, ?_⟩
  · simp only [Ax]; rw [hvq, hvp]
    show _ * q.x - xv q * q.vx = _
    rw [hV]
    simp only [q, fgUpdate, fgApply, sc_hadd, sc_hmul, hf, hgd, c2, c3]
    linear_combination p.x * l1 + p.vx * l2
  · simp only [Ay]; rw [hvq, hvp]
    show _ * q.y - xv q * q.vy = _
    rw [hV]
    simp only [q, fgUpdate, fgApply, sc_hadd, sc_hmul, hf, hgd, c2, c3]
    linear_combination p.y * l1 + p.vy * l2
  · simp only [Az]; rw [hvq, hvp]
    show _ * q.z - xv q * q.vz = _
    rw [hV]
    simp only [q, fgUpdate, fgApply, sc_hadd, sc_hmul, hf, hgd, c2, c3]
    linear_combination p.z * l1 + p.vz * l2

/-- **the step moves the particle along its own conic** (summary of the above): same energy,
    same angular momentum vector, same Laplace vector (hence same orbit as a point set, same
    orientation), at the point of radius `r0 + η0 G1 + ζ0 G2`.
    `_partial`: the hypotheses `KeplerStep` — that the numbers `g` produced by
    series+duplication+scaling satisfy the G-relations *exactly* and that the iteration
    returned an exact root `X` of `r0 X + η0 G2 + ζ0 G3 = dt` — hold in exact arithmetic
    only up to the series truncation (`c03_series_truncation_residual`) and are not proved
    for the Newton/quartic/bisection iterates; with IEEE doubles everything holds to
    rounding, which the search measures.  That the point reached is the one at time
    `t + dt` is the (unproved, analytic) meaning of the universal Kepler equation. -/
theorem c03_kepler_step_same_conic_partial (h : KeplerStep M dt r0 X p g) (rne : newR M r0 p g ≠ 0) :
    let r' := newR M r0 p g
    let q := fgUpdate M (1 / r0) (1 / r') dt g.c1 g.c2 g.c3 p
    rr q = r' ^ 2 ∧ 2 * M / r' - vv q = 2 * M / r0 - vv p ∧
    (Lx q = Lx p ∧ Ly q = Ly p ∧ Lz q = Lz p) ∧
    (Ax M r' q = Ax M r0 p ∧ Ay M r' q = Ay M r0 p ∧ Az M r' q = Az M r0 p) := by
  refine ⟨c03_fg_radius h, ?_, c03_fg_angular_momentum h rne, c03_fg_laplace h rne⟩
  rw [c03_fg_energy h rne, (invariants_eq M r0 p).2.1]
  ring

end fg

/-! ### stumpff_cs (six functions, used by the tangent map) -/

/-- the loop body of stumpff_cs (lines 99-104) preserves the relations
    `c1 = 1 − z c3, c2 = 1/2 − z c4, c3 = 1/6 − z c5, c1² = (1+c0) c2` with `z ↦ 4z` -/
theorem c03_stumpff6_duplication {s : Cs5 K} (h : Stumpff6Rel s) :
    Stumpff6Rel (cs6DupStep s) ∧ (cs6DupStep s).z = 4 * s.z := ⟨cs6DupStep_rel h, cs6DupStep_z s⟩

/-- on the first four functions stumpff_cs performs exactly the duplication of stumpff_cs3 -/
theorem c03_stumpff6_agrees_with_cs3 {s : Cs5 K} (h : Stumpff6Rel s) :
    cs5To3 (cs6DupStep s) = cs3DupStep (cs5To3 s) ∧ StumpffRel s.z (cs5To3 s) :=
  ⟨cs6DupStep_cs3 h, cs5To3_rel h⟩

/-- the series part of stumpff_cs satisfies the three linear relations by construction -/
theorem c03_stumpff6_series (z : K) :
    (cs6Series z).z = z ∧ (cs6Series z).c1 = 1 - z * (cs6Series z).c3 ∧
    (cs6Series z).c2 = 1 / 2 - z * (cs6Series z).c4 ∧ (cs6Series z).c3 = 1 / 6 - z * (cs6Series z).c5 ∧
    (cs6Series z).c5 = 1/120 - z/5040 + z^2/362880 - z^3/39916800 + z^4/6227020800 - z^5/1307674368000 ∧
    (cs6Series z).c4 = 1/24 - z/720 + z^2/40320 - z^3/3628800 + z^4/479001600 - z^5/87178291200 := by
  obtain ⟨f0, f1, f2, f3, f4, f5, f6, f7, f8, f9, f10, f11, f12, f13, f14, f15⟩ := fact_vals
  refine ⟨rfl, ?_, ?_, ?_, ?_, ?_⟩ <;>
  · simp only [cs6Series, invfact_eq, sc_hsub, sc_hmul, Fin.isValue]
    norm_num [Nat.factorial]
    try ring

/-! ### mass parameter handed to the solver by reb_whfast_kepler_step -/
section mass
variable (G m0 pj0m : K) (nact : Nat) (ms : List K)

/-- one mass parameter per particle 1 … N_real-1 -/
theorem c03_mass_parameter_count (c : Coord) : (massParams c G m0 pj0m nact ms).length = ms.length := by
  simp [massParams, etas_length]

/-- Jacobi: `M_i = G (m0 + Σ_{1≤k≤min(i, N_active-1)} m_k)` — the interior mass, test
    particles (i ≥ N_active) see all active masses.  (`ms[k-1] = p_j[k].m`, `nact = N_active-1`) -/
theorem c03_mass_parameter_jacobi (i : Nat) (h : i < ms.length) :
    (massParams .jacobi G m0 pj0m nact ms)[i]? = some ((m0 + (ms.take (min (i + 1) nact)).sum) * G) := by
  simp only [massParams, etas, List.getElem?_map, jacobiEtas_get m0 nact ms i h, Option.map_some, sc_hmul]

/-- democratic heliocentric: `M_i = G m0` for every particle -/
theorem c03_mass_parameter_dh (i : Nat) (h : i < ms.length) :
    (massParams .dh G m0 pj0m nact ms)[i]? = some (m0 * G) := by
  simp [massParams, etas, h]

/-- WHDS: `M_i = G (m0 + m_i)` for active particles, `G m0` for test particles -/
theorem c03_mass_parameter_whds (i : Nat) (h : i < ms.length) :
    (massParams .whds G m0 pj0m nact ms)[i]? = some ((if i < nact then m0 + ms[i] else m0) * G) := by
  simp only [massParams, List.getElem?_map, whds_get m0 pj0m nact ms i h, Option.map_some, sc_hmul]

/-- barycentric: `M_i = G · p_j[0].m` (slot 0 of the barycentric set carries the total mass, C12) -/
theorem c03_mass_parameter_barycentric (i : Nat) (h : i < ms.length) :
    (massParams .bary G m0 pj0m nact ms)[i]? = some (pj0m * G) := by
  simp [massParams, etas, h]

/-- MERCURIUS and TRACE (democratic heliocentric, in place): `M_i = G · particles[0].m` -/
theorem c03_mass_parameter_hybrid (i : Nat) (h : i < ms.length) :
    (hybridMassParams G m0 ms)[i]? = some (G * m0) ∧ (hybridMassParams G m0 ms).length = ms.length := by
  simp [hybridMassParams, h]

/-- democratic-heliocentric jump step of MERCURIUS and TRACE (one component): every particle i ≥ 1 is
    shifted by `dt/m0 · Σ m_k v_k`, the sum running over the **active** particles 1 … N_active−1 when
    `testparticle_type == 0` and over all particles when it is 1. -/
theorem c03_hybrid_jump_shift (t1 : Bool) (nact : Nat) (dt : K) (mv : List (K × K)) (xs : List K) :
    mercuriusJump t1 nact dt m0 mv xs
      = xs.map (fun x => x + dt * ((((if t1 then mv else mv.take nact).map (fun p => p.1 * p.2)).sum) / m0)) ∧
    traceJump t1 nact dt m0 mv xs
      = xs.map (fun x => x + (((if t1 then mv else mv.take nact).map (fun p => p.1 * p.2)).sum) * (dt / m0)) := by
  simp only [mercuriusJump, traceJump, jumpSources, jumpSum_eq, sc_zero, zero_add, sc_hadd, sc_hmul, sc_hdiv]
  cases t1 <;> simp

/-- hence a lone type-0 test particle (N_active = 1) is not moved by the jump step **whatever its mass**:
    together with `c03_mass_parameter_hybrid` (M = G·m0) and the absence of other bodies in the
    interaction step, one MERCURIUS / TRACE step of a star plus one type-0 test particle is the Kepler
    step with μ = G·m0.  (Seeded change C03-f replaces the range by "all particles" in TRACE.) -/
theorem c03_hybrid_jump_lone_testparticle (dt : K) (mv : List (K × K)) (xs : List K) :
    mercuriusJump false 0 dt m0 mv xs = xs ∧ traceJump false 0 dt m0 mv xs = xs := by
  obtain ⟨h1, h2⟩ := c03_hybrid_jump_shift (m0 := m0) false 0 dt mv xs
  rw [h1, h2]
  simp

/-- WHFast's own jump step (`reb_whfast_jump_step`), democratic heliocentric: every particle i ≥ 1, active or
    test, is shifted by `dt · (Σ_active m_k v_k)/m0`. -/
theorem c03_whfast_jump_dh (dt : K) (act : List (K × K × K)) (tst : List K) :
    whfastJumpDH dt m0 act tst =
      (act.map (fun a => a.2.2 + dt * ((act.map (fun a => a.1 * a.2.1)).sum / m0)),
       tst.map (fun x => x + dt * ((act.map (fun a => a.1 * a.2.1)).sum / m0))) := by
  simp only [whfastJumpDH, whJumpSumDH_eq, sc_zero, zero_add, sc_hadd, sc_hmul, sc_hdiv]

/-- WHDS: active particle i is shifted by `dt · Σ_{active k ≠ i} m_k v_k/(m0+m_k)` (its own term is
    subtracted), test particles by the full sum. -/
theorem c03_whfast_jump_whds (dt : K) (act : List (K × K × K)) (tst : List K) :
    whfastJumpWHDS dt m0 act tst =
      (act.map (fun a => a.2.2 + dt * ((act.map (fun b => b.1 * b.2.1 / (m0 + b.1))).sum - a.1 * a.2.1 / (m0 + a.1))),
       tst.map (fun x => x + dt * (act.map (fun b => b.1 * b.2.1 / (m0 + b.1))).sum)) := by
  simp only [whfastJumpWHDS, whJumpSumWHDS_eq, sc_zero, zero_add, sc_hadd, sc_hsub, sc_hmul, sc_hdiv]

/-- **why a two-body WHFast step is (or is not) the pure Kepler step**: with a single body next to the star
    * as a test particle (no active body besides the star) neither jump moves it, whatever its mass;
    * as the only active body, the WHDS jump leaves it where it is (its own term cancels: with
      `c03_mass_parameter_whds`, M = G(m0+m) the step is the exact two-body motion), while the democratic
      heliocentric jump shifts it by `dt·m v/m0` — the splitting is exact only for m = 0 there (this is why the
      full-step search asserts dh / barycentric / MERCURIUS / TRACE with massive bodies only as type-0 test
      particles). -/
theorem c03_whfast_jump_single_body (dt m v x : K) :
    whfastJumpDH dt m0 [] [x] = ([], [x]) ∧ whfastJumpWHDS dt m0 [] [x] = ([], [x]) ∧
    whfastJumpWHDS dt m0 [(m, v, x)] [] = ([x], []) ∧
    whfastJumpDH dt m0 [(m, v, x)] [] = ([x + dt * (m * v / m0)], []) := by
  obtain h1 := c03_whfast_jump_dh (m0 := m0) dt [] [x]
  obtain h2 := c03_whfast_jump_whds (m0 := m0) dt [] [x]
  obtain h3 := c03_whfast_jump_whds (m0 := m0) dt [(m, v, x)] []
  obtain h4 := c03_whfast_jump_dh (m0 := m0) dt [(m, v, x)] []
  rw [h1, h2, h3, h4]
  simp

/-- `reb_whfast_com_step`: slot 0 of `p_jh` (total mass, centre of mass — C12) moves on a straight line; two
    steps compose additively (so the half steps of a DKD scheme merge) -/
theorem c03_whfast_com_step (dt dt' x0 v0 : K) :
    whfastComStep dt x0 v0 = x0 + dt * v0 ∧
    whfastComStep dt' (whfastComStep dt x0 v0) v0 = whfastComStep (dt + dt') x0 v0 := by
  simp only [whfastComStep, sc_hadd, sc_hmul]
  exact ⟨trivial, by ring⟩

end mass

/-! ### termination -/

/-- Newton (≤ WHFAST_NMAX_NEWT-1 passes) and quartic (≤ WHFAST_NMAX_QUART-1 passes) loops
    are bounded: for every scalar type, `Float` included, whenever they return they have made
    at most `rem` further iterations. -/
theorem c03_newton_quartic_bounded {F : Type} [KScalar F] (c : Ctx F) (rem : Nat) :
    (∀ X oldX gs ri it mh r, newtLoop c rem X oldX gs ri it mh = .ok r → r.2.2.2.2.1 ≤ it + rem) ∧
    (∀ X prev gs it mh r, quartLoop c rem X prev gs it mh = .ok r → r.2.2.2.1 ≤ it + rem) :=
  ⟨newtLoop_iters c rem, quartLoop_iters c rem⟩

section term
variable {R : Type} [Field R] [LinearOrder R] [IsStrictOrderedRing R] [Archimedean R]

/-- the argument-halving loop `while(fabs(z)>thr){z=z/4;n++}` (threshold `thr` = 0.1 in the
    pinned source, and divisor, as extracted from the source) exits for every `z` of an
    Archimedean ordered field, after `n` passes with `thr·4^(n-1) < |z|` (so
    `n ≤ ⌈log₄(|z|/thr)⌉ + 1`), leaving `|z/4ⁿ| ≤ thr`.
    `fin` is the extra loop condition (`true` in the pinned source, `isfinite` with the proposed
    fix; every element of such a field is finite).
    `_partial`: the full-strength statement "for every double `z`" is FALSE of the code:
    `z = ±inf` (not an element of an Archimedean field) never leaves the loop — finding F14;
    the Float model reports it as fuel exhaustion (`Hang.stumpff`) and the compiled solver
    was observed to hang on the same inputs. -/
theorem c03_halving_terminates_partial (fin : R → Bool) (hfin : ∀ x, fin x = true) (z : R) :
    ∃ n : Nat, (∀ fuel, n + 1 ≤ fuel →
        halve (fun x => |x|) (lit thrCs3.1 thrCs3.2 : R) (lit divCs3.1 divCs3.2) fin fuel z 0 = some (z / 4 ^ n, n)) ∧
      |z / 4 ^ n| ≤ (thrCs3.1 : R) / (thrCs3.2 : R) ∧ (∀ j < n, (thrCs3.1 : R) / (thrCs3.2 : R) * 4 ^ j < |z|) := by
  have e1 : (lit thrCs3.1 thrCs3.2 : R) = (thrCs3.1 : R) / (thrCs3.2 : R) := lit_eq _ _
  have e2 : (lit divCs3.1 divCs3.2 : R) = 4 := by simp [lit_eq, divCs3]
  have hp : 0 < thrCs3.1 ∧ 0 < thrCs3.2 := by decide
  have hthr : (0 : R) < (thrCs3.1 : R) / (thrCs3.2 : R) :=
    div_pos (Nat.cast_pos.2 hp.1) (Nat.cast_pos.2 hp.2)
  obtain ⟨n, h1, h2, h3⟩ := halve_terminates ((thrCs3.1 : R) / (thrCs3.2 : R)) 4 fin hfin hthr (by norm_num) z
  refine ⟨n, ?_, h2, h3⟩
  intro fuel hf
  rw [e1, e2, h1 fuel hf 0]; simp

end term

/-! ### truncation residual through the duplication loop -/

/-- exact algebra of one duplication step on the defects `D0 = c0 − (1 − z c2)`, `D1 = c1 − (1 − z c3)`,
    `D2 = c1² − (1+c0) c2` of the three Stumpff relations (any input, no hypotheses):
    the quadratic defect is annihilated, the linear ones obey a linear recursion; and the defect of
    `c0² + z c1² = 1` is `(1+c0) D0 + z D2`. -/
theorem c03_defect_recursion (z : K) (c : Cs3 K) :
    D2 (cs3DupStep c) = 0 ∧
    D1 (4 * z) (cs3DupStep c) = c.c0 * D1 z c + D0 z c ∧
    D0 (4 * z) (cs3DupStep c) = 2 * (1 + c.c0) * D0 z c + 2 * z * D2 c ∧
    DP z c = (1 + c.c0) * D0 z c + z * D2 c ∧
    (StumpffRel z c ↔ D0 z c = 0 ∧ D1 z c = 0 ∧ D2 c = 0) :=
  ⟨(defect_step z c).1, (defect_step z c).2.1, (defect_step z c).2.2, defect_pythagoras z c, D_rel_iff z c⟩

section defect
variable {R : Type} [Field R] [LinearOrder R] [IsStrictOrderedRing R]

/-- **what stumpff_cs3 returns, in exact arithmetic, for `n+1 ≥ 1` halvings**: starting from the Horner
    series at `z` (whose only defect is the explicit `δ = z⁶·P(z)/13!²` of
    `c03_series_truncation_residual`), after `n+1` duplications the quadratic relation holds exactly and
      |c0 − (1 − Z c2)| ≤ 2·4ⁿ |z δ|,   |c1 − (1 − Z c3)| ≤ (4ⁿ−1)/3 · 2 |z δ|,
      |c0² + Z c1² − 1| ≤ 4ⁿ⁺¹ |z δ| = |Z| |δ|            (Z = 4ⁿ⁺¹ z the full argument)
    as long as the intermediate and final `c0` lie in [−1, 1] (cosines: the elliptic case).
    With |z| ≤ 0.1, |δ| ≤ 2.3e-17: the truncation contributes ≤ 2.3e-17·|Z| to `cos² + sin² = 1`, below
    the measured rounding growth 40 ε |Z|.
    `_partial`: the hypothesis `|c0| ≤ 1` is not derived (it holds for the exact cosine; for the
    truncated data it holds up to the very defects bounded here), and the hyperbolic case (c0 = cosh
    grows) is not covered. -/
theorem c03_truncation_through_duplication_partial (n : Nat) (z : R)
    (hc : ∀ k ≤ n + 1, 1 ≤ k → |(cs3Dup k (cs3Series z)).c0| ≤ 1) :
    let c := cs3Dup (n + 1) (cs3Series z)
    let Z := 4 ^ (n + 1) * z
    let δ := D2 (cs3Series z)
    D2 c = 0 ∧ |D0 Z c| ≤ 2 * 4 ^ n * |z * δ| ∧ |D1 Z c| ≤ (4 ^ n - 1) / 3 * (2 * |z * δ|) ∧
    |DP Z c| ≤ 4 ^ (n + 1) * |z * δ| := by
  intro c Z δ
  obtain ⟨s2, s1, s0⟩ := defect_step z (cs3Series z)
  obtain ⟨z0, z1⟩ := defect_series z
  rw [z0, mul_zero, zero_add] at s0
  rw [z0, z1, mul_zero, add_zero] at s1
  have hc' : ∀ k < n, |(cs3Dup k (cs3DupStep (cs3Series z))).c0| ≤ 1 := fun k hk => by
    have := hc (k + 1) (by omega) (by omega); simpa [cs3Dup] using this
  obtain ⟨b0, b1, b2⟩ := defect_bound n (4 * z) (cs3DupStep (cs3Series z)) s2 hc'
  have eZ : Z = 4 ^ n * (4 * z) := by show (4 : R) ^ (n + 1) * z = _; ring
  have ec : c = cs3Dup n (cs3DupStep (cs3Series z)) := rfl
  have hd0 : |D0 (4 * z) (cs3DupStep (cs3Series z))| = 2 * |z * δ| := by
    rw [s0]; show |2 * z * D2 (cs3Series z)| = _
    rw [mul_assoc, abs_mul, abs_of_pos (by norm_num : (0 : R) < 2)]
  have hD2 : D2 c = 0 := by
    by_cases hn : 0 < n
    · rw [ec]; exact b2 hn
    · have : n = 0 := by omega
      subst this; simpa [ec, cs3Dup] using s2
  rw [s1, abs_zero, zero_add, hd0] at b1
  rw [hd0] at b0
  rw [← eZ, ← ec] at b0 b1
  have hfin : |c.c0| ≤ 1 := hc (n + 1) (le_refl _) (by omega)
  refine ⟨hD2, by linarith, b1, ?_⟩
  rw [defect_pythagoras, hD2, mul_zero, add_zero, abs_mul]
  have h1c : |(1 : R) + c.c0| ≤ 2 := by
    rw [abs_le] at hfin ⊢; constructor <;> linarith
  have hpos : (0 : R) < 4 ^ n := by positivity
  calc |1 + c.c0| * |D0 Z c| ≤ 2 * (4 ^ n * (2 * |z * δ|)) := by
        nlinarith [abs_nonneg (D0 Z c), abs_nonneg ((1 : R) + c.c0)]
    _ = 4 ^ (n + 1) * |z * δ| := by ring

end defect

/-! ### bisection fallback (lines 251-287) over an ordered field -/
section bisect
variable {R : Type} [Field R] [LinearOrder R] [IsStrictOrderedRing R]

/-- loop invariant of the bisection: one pass of the body (`bisectUpdate`, the branch taken on
    `s >= 0.` as in the pinned source) keeps `F ≤ 0` at the lower end and `0 ≤ F` at the upper end of the
    bracket — for *any* function `F` whose value at the midpoint is the `s` the code computed —, stays
    inside the old bracket, halves its width and proposes its midpoint: a root that is bracketed stays
    bracketed. -/
theorem c03_bisection_invariant (F : R → R) (Xmin Xmax : R) (hle : Xmin ≤ Xmax)
    (hlo : F Xmin ≤ 0) (hhi : 0 ≤ F Xmax) :
    let X := (Xmax + Xmin) / 2
    let r := bisectUpdate (ScalarO.le (Scalar.zero : R) (F X)) X Xmin Xmax
    F r.1 ≤ 0 ∧ 0 ≤ F r.2.1 ∧ Xmin ≤ r.1 ∧ r.1 ≤ r.2.1 ∧ r.2.1 ≤ Xmax ∧
      r.2.1 - r.1 = (Xmax - Xmin) / 2 ∧ r.2.2 = (r.2.1 + r.1) / 2 :=
  bisect_invariant F Xmin Xmax hle hlo hhi

/-- hyperbolic bracket as coded, for both signs of dt (the swap for dt < 0 is what seeded change C03-b
    removes): it is ordered, equals `[dt/(a+r0), dt/q]` for dt > 0 and `[dt/q, dt/(a+r0)]` for dt < 0,
    and lies strictly on the side of 0 that has the sign of dt.  `a = |vq·dt|`, `0 < q ≤ a + r0`. -/
theorem c03_hyperbolic_bracket_ordered (q a r0 dt : R) (hq : 0 < q) (hqr : q ≤ a + r0) :
    let b := hypBracket q a r0 dt
    b.1 ≤ b.2 ∧ (0 < dt → b = (dt / (a + r0), dt / q) ∧ 0 < b.1) ∧
      (dt < 0 → b = (dt / q, dt / (a + r0)) ∧ b.2 < 0) := hypBracket_ordered q a r0 dt hq hqr

/-- the hypothesis of the previous theorem holds: the pericentre distance of line 260,
    `q = h²/M/(1 + sqrt(1 − h²β/M²))`, satisfies `0 < q ≤ r0` (for any `e ≥ 0` with `e² = 1 − h²β/M²`) -/
theorem c03_pericentre_le_r0 (M r0 v2 eta0 e : R) (hM : 0 < M) (hr0 : 0 < r0)
    (hh : 0 < r0 * r0 * v2 - eta0 * eta0) (he : 0 ≤ e)
    (hee : e * e = 1 - (r0 * r0 * v2 - eta0 * eta0) * (2 * M * (1 / r0) - v2) / (M * M)) :
    0 < (r0 * r0 * v2 - eta0 * eta0) / M / (1 + e) ∧ (r0 * r0 * v2 - eta0 * eta0) / M / (1 + e) ≤ r0 :=
  hyp_q_le_r0 M r0 v2 eta0 e hM hr0 hh he hee

/-- elliptic bracket `[X_pp·k, X_pp·(k+1)]`, `k = floor(dt·invperiod)`: ordered, one period wide; and the
    Kepler function at its ends has the right signs for both signs of dt: at a whole number of periods
    (`G1 = G2 = 0`, `G3 = X/β` by the G-relations) it equals `kP − dt`, and `kP ≤ dt < (k+1)P`.
    `_partial`: that `G2` vanishes at multiples of `X_per_period` (periodicity of the cosine) is a
    hypothesis (analysis); the corresponding sign statement for the hyperbolic bracket,
    `f(dt/(a+r0)) ≤ 0 ≤ f(dt/q)`, is NOT proved: it is equivalent to the monotonicity of
    `t ↦ sinh t − t` between pericentre and the end point and is not a polynomial consequence of the
    G-relations at the two bracket ends. -/
theorem c03_elliptic_bracket_partial (M r0 eta0 beta dt xpp P k : R) (hb : beta ≠ 0) (hP : 0 < P) (hx : 0 < xpp)
    (hxP : xpp * M / beta = P) (hk1 : k * P ≤ dt) (hk2 : dt < (k + 1) * P) :
    let f := fun (X G2 G3 : R) => r0 * X + eta0 * G2 + (M - beta * r0) * G3 - dt
    (ellBracket xpp k).1 < (ellBracket xpp k).2 ∧ (ellBracket xpp k).2 - (ellBracket xpp k).1 = xpp ∧
    f (ellBracket xpp k).1 0 ((ellBracket xpp k).1 / beta) ≤ 0 ∧
    0 < f (ellBracket xpp k).2 0 ((ellBracket xpp k).2 / beta) := by
  obtain ⟨o1, o2, o3, o4⟩ := ellBracket_ordered xpp k hx
  obtain ⟨s1, s2⟩ := ell_bracket_signs M r0 eta0 beta dt xpp P k hb hP hxP hk1 hk2
  intro f
  rw [o3, o4]
  exact ⟨by rw [← o3, ← o4]; exact o1, by rw [← o3, ← o4]; exact o2, s1, s2⟩

end bisect

/-! ### WHFast512 (integrator_whfast512.c:167-336), exact arithmetic (fused multiply-adds = multiply, then add) -/

/-- the vectorised f-g update at the end of `reb_whfast512_kepler_step` is the scalar update of
    `reb_whfast_kepler_solver`; hence every `c03_fg_*` theorem (same energy, angular momentum, Laplace
    vector, radius `r0 + η0 G1 + ζ0 G2`) holds for WHFast512 under the same hypotheses -/
theorem c03_whfast512_fg_is_scalar_fg (M r0i ri dt g1 g2 g3 : K) (p : P6 K) :
    fg512 M r0i ri dt g1 g2 g3 p = fgUpdate M r0i ri dt g1 g2 g3 p := fg512_eq M r0i ri dt g1 g2 g3 p

/-- its NEWTON_STEP is the Newton step of the scalar solver on the same G values -/
theorem c03_whfast512_newton_step (r0 eta0 zeta0 beta dt X : K) :
    let g := gs13_512 beta X
    newton512 r0 eta0 zeta0 beta dt X =
      (1 / (r0 + (eta0 * g.1 + zeta0 * g.2.1)) * (X * (eta0 * g.1 + zeta0 * g.2.1) - eta0 * g.2.1 - zeta0 * g.2.2 + dt),
       1 / (r0 + (eta0 * g.1 + zeta0 * g.2.1))) := newton512_eq r0 eta0 zeta0 beta dt X

/-- its G functions are the Stumpff series truncated after z⁸/19!, z⁸/18!, evaluated at the FULL argument
    `z = β X²` — there is no argument halving and no duplication, so (unlike `c03_duplication_loop` for the
    scalar code) the G-relations hold only up to a truncation term of order z⁹, which is not small once
    `|β| X² ≳ 10`: with the fixed iteration schedule and no fallback this is finding FC03b. -/
theorem c03_whfast512_series_no_halving (beta X : K) :
    let z := X * X * beta
    let c3 := 1/6 - z/120 + z^2/5040 - z^3/362880 + z^4/39916800 - z^5/6227020800 + z^6/1307674368000
                - z^7/355687428096000 + z^8/121645100408832000
    let c2 := 1/2 - z/24 + z^2/720 - z^3/40320 + z^4/3628800 - z^5/479001600 + z^6/87178291200
                - z^7/20922789888000 + z^8/6402373705728000
    gs13_512 beta X = (X - z * (c3 * X), c2 * (X * X), c3 * X * (X * X)) := gs13_512_eq beta X

/-! ### the hypotheses are satisfiable (concrete, non-degenerate rational instances) -/

/-- Stumpff relations at z = 1: (c0,c1,c2,c3) = (3/5, 4/5, 2/5, 1/5) -/
example : StumpffRel (1 : ℚ) ⟨3/5, 4/5, 2/5, 1/5⟩ := by
  constructor <;> norm_num

/-- an eccentric orbit: x = (3,4,0), v = (1,0,1), M = 15/2 (β = 1, η0 = 3, ζ0 = 5/2),
    X = 1, G = (3/5,4/5,2/5,1/5), dt = 67/10, new radius 42/5 ≠ 0 -/
example : KeplerStep (15/2 : ℚ) (67/10) 5 1 ⟨3, 4, 0, 1, 0, 1⟩ ⟨3/5, 4/5, 2/5, 1/5⟩ ∧
    newR (15/2 : ℚ) 5 ⟨3, 4, 0, 1, 0, 1⟩ ⟨3/5, 4/5, 2/5, 1/5⟩ = 42/5 := by
  have e := invariants_eq (15/2 : ℚ) 5 ⟨3, 4, 0, 1, 0, 1⟩
  obtain ⟨e1, e2, e3, e4⟩ := e
  refine ⟨⟨by norm_num [rr], by norm_num, ⟨?_, ?_, ?_⟩, ?_⟩, ?_⟩
  · rw [e2]; norm_num [vv]
  · rw [e2]; norm_num [vv]
  · norm_num
  · rw [e3, e4]; norm_num [vv, xv]
  · simp only [newR]; rw [e3, e4]; norm_num [vv, xv]

/-- six-function relations at z = 1 -/
example : Stumpff6Rel (⟨1, 4/5, 2/5, 1/5, 1/10, -1/30⟩ : Cs5 ℚ) := by
  constructor <;> norm_num

/-- jump steps on concrete data: a single active body of mass 2 with velocity 3 next to a star of mass 4:
    dh shifts it by dt·2·3/4, WHDS not at all -/
example : whfastJumpDH (1/2 : ℚ) 4 [(2, 3, 10)] [] = ([10 + 1/2 * (2 * 3 / 4)], []) ∧
    whfastJumpWHDS (1/2 : ℚ) 4 [(2, 3, 10)] [] = ([10], []) := by
  obtain ⟨_, _, h3, h4⟩ := c03_whfast_jump_single_body (K := ℚ) (m0 := 4) (1/2) 2 3 10
  exact ⟨h4, h3⟩

end RV.Kepler
