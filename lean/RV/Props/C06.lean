import RV.Proofs.BinRaw
/-
  C06 — every archive snapshot equals the live state when taken, under any history.

  Statements are about `RV/Model/Bin.lean`, the byte-level model of the snapshot format, of
  `reb_binary_diff(…, output_option = 0)` with its pos1/pos2 logic (`diffRaw` on bytes, `diffF`
  on field lists), of `reb_input_fields` at payload level (`applyB`/`applyF`: later value wins),
  and of the archive reader / writer.  The same definitions run natively (drv_c06) and must
  reproduce real archive files byte for byte on every check run.

  `Variant.current` is the pinned source, `Variant.fixed` the source with fixes/F1, F11, F2.
  Quantification: all field lists (well formed, unique ids), all comparison functions, all
  headers/trailers/tails — nothing is bounded.
-/
set_option linter.unusedVariables false
namespace RV.Bin

/-- `parse (enc fs) = some fs`: the strict parser inverts the encoder on every well-formed list
    of fields (types < 2³², sizes < 2⁶⁴, size = payload length, no END id inside), whatever
    follows the END marker. -/
theorem c06_parse_enc (fs : List Field) (rest : Bytes) (h : WFs fs) :
    parse (encFs fs ++ endBytes ++ rest) = some fs :=
  parse_enc fs rest h

/-- the position logic of the encoder ("field at the aligned position, else scan from the start",
    both loops) is a look-up by id whenever the ids of the new serialisation are unique -/
theorem c06_diff_positions_are_lookups (v : Variant) (cmp : Nat → Bytes → Bytes → Bool)
    (a b : List Field) (hn : (ids b).Nodup) : diffF v cmp a b = diffSpec v cmp a b :=
  diffF_eq_spec v cmp a b hn

/-- the byte-level encoder (pos1/pos2 over two buffers, three cases changed / vanished / new)
    never reads outside its buffers on well-formed input and emits exactly the encoding of the
    field-level delta: all positions it uses are field boundaries -/
theorem c06_diff_bytes_is_field_diff (v : Variant) (cmp : Nat → Bytes → Bytes → Bool)
    (h1 h2 t2 : Bytes) (a b : List Field) (hh1 : h1.length = 64) (hh2 : h2.length = 64)
    (ha : WFs a) (hb : WFs b) :
    diffRaw v cmp (h1 ++ (encFs a ++ endBytes)) (h2 ++ (encFs b ++ (endBytes ++ t2)))
      = some (encFs (diffF v cmp a b)) :=
  diffRaw_enc v cmp h1 h2 t2 a b hh1 hh2 ha hb

/-- delta-codec law for an arbitrary comparison function: id by id the overlaid state equals the
    new state, or the encoder judged old and new payload "same" and kept the old one (for the real
    `cmpReal` this happens for particle arrays that differ only in pointer members, padding, or
    the sign of a zero) -/
theorem c06_delta_law_any_cmp (v : Variant) (cmp : Nat → Bytes → Bytes → Bool)
    (init : State) (a b : List Field) (ha : (ids a).Nodup) (hb : (ids b).Nodup)
    (hinit : ∀ f ∈ a, (∀ g ∈ b, g.ty ≠ f.ty) → init.val f.ty = [])
    (k : Nat) :
    (applyF (applyF init a) (diffF v cmp a b)).val k = (applyF init b).val k ∨
    ∃ f ∈ a, ∃ g ∈ b, f.ty = k ∧ g.ty = k ∧ sameF cmp f g = true ∧
      (applyF (applyF init a) (diffF v cmp a b)).val k = f.data ∧ (applyF init b).val k = g.data :=
  delta_law_fields_gen v cmp init a b ha hb hinit k

/-- **Delta-codec law, full statement** (`DeltaLaw`, RV/Proofs/BinRaw.lean), for the source with
    fixes/F1.diff applied: for all serialisations `a`, `b` — fields may appear, disappear, grow,
    shrink — the encoder yields a delta and `load a; load delta ≈ load b` on bytes. -/
theorem c06_delta_law : DeltaLaw Variant.fixed := deltaLaw_fixed

/-- the same full statement is **false of the pinned source** (F1, binarydiff.c:175-212: a vanished
    field is written with its old size and no payload) -/
theorem c06_delta_law_current_false : ¬ DeltaLaw Variant.current := deltaLaw_current_false

/-- what holds of the pinned source: the law for every pair of serialisations in which no
    non-empty field of `a` is absent from `b` (`¬ Vanishes a b`) -/
theorem c06_delta_law_partial (v : Variant) (cmp : Nat → Bytes → Bytes → Bool) (hc : CmpExact cmp)
    (init : State) (h1 h2 t1 t2 rest : Bytes) (a b : List Field)
    (hh1 : h1.length = 64) (hh2 : h2.length = 64) (ha : WFs a) (hb : WFs b)
    (hna : NoHeader a) (hnb : NoHeader b) (ua : (ids a).Nodup) (ub : (ids b).Nodup)
    (hinit : ∀ f ∈ a, (∀ g ∈ b, g.ty ≠ f.ty) → init.val f.ty = [])
    (hv : ¬ Vanishes a b) :
    ∃ delta, diffRaw v cmp (h1 ++ (encFs a ++ endBytes)) (h2 ++ (encFs b ++ (endBytes ++ t2))) = some delta ∧
      ∀ k, (applyB (applyB init (encFs a ++ (endBytes ++ t1))) (delta ++ (endBytes ++ rest))).val k
            = (applyB init (encFs b ++ (endBytes ++ t2))).val k :=
  delta_law_bytes v cmp hc init h1 h2 t1 t2 rest a b hh1 hh2 ha hb hna hnb ua ub hinit (Or.inr hv)

/-- non-vacuity: a two-field serialisation, one field changed, one vanished, one new -/
example :
    let a : List Field := [⟨0, 2, [1, 2]⟩, ⟨104, 3, [7, 8, 9]⟩]
    let b : List Field := [⟨0, 2, [1, 3]⟩, ⟨85, 1, [5]⟩]
    WFs a ∧ WFs b ∧ (ids a).Nodup ∧ (ids b).Nodup ∧ Vanishes a b ∧
    diffF Variant.fixed (fun _ p q => p == q) a b = [⟨0, 2, [1, 3]⟩, ⟨104, 0, []⟩, ⟨85, 1, [5]⟩] ∧
    diffF Variant.current (fun _ p q => p == q) a b = [⟨0, 2, [1, 3]⟩, ⟨104, 3, []⟩, ⟨85, 1, [5]⟩] := by
  refine ⟨?_, ?_, by decide, by decide, ⟨⟨104, 3, [7, 8, 9]⟩, by simp, by decide, by decide⟩, by decide, by decide⟩
  · intro f hf
    simp only [List.mem_cons, List.not_mem_nil, or_false] at hf
    rcases hf with rfl | rfl <;> exact ⟨rfl, by decide, by decide, by decide⟩
  · intro f hf
    simp only [List.mem_cons, List.not_mem_nil, or_false] at hf
    rcases hf with rfl | rfl <;> exact ⟨rfl, by decide, by decide, by decide⟩

end RV.Bin
