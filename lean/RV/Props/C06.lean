import RV.Proofs.BinWriter
import RV.Proofs.Cadence
import RV.Proofs.BinPersist
/-
  C06 — every archive snapshot equals the live state when taken, under any history.

  Statements are about `RV/Model/Bin.lean`, the byte-level model of the snapshot format, of
  `reb_binary_diff(…, output_option = 0)` with its pos1/pos2 logic (`diffRaw` on bytes, `diffF`
  on field lists), of `reb_input_fields` at payload level (`applyB`/`applyF`: later value wins),
  and of the archive reader / writer.  The same definitions run natively (drv_c06) and must
  reproduce real archive files byte for byte on every check run.

  `Variant.current` is the pinned source, `Variant.fixed` the source with fixes/F1, F11, F2.
  Quantification: all field lists (well formed, unique ids), all comparison functions, all
  headers/trailers/tails — nothing is bounded.
-/
set_option linter.unusedVariables false
namespace RV.Bin

/-- `parse (enc fs) = some fs`: the strict parser inverts the encoder on every well-formed list
    of fields (types < 2³², sizes < 2⁶⁴, size = payload length, no END id inside), whatever
    follows the END marker. -/
theorem c06_parse_enc (fs : List Field) (rest : Bytes) (h : WFs fs) :
    parse (encFs fs ++ endBytes ++ rest) = some fs :=
  parse_enc fs rest h

/-- the position logic of the encoder ("field at the aligned position, else scan from the start",
    both loops) is a look-up by id whenever the ids of the new serialisation are unique -/
theorem c06_diff_positions_are_lookups (v : Variant) (cmp : Nat → Bytes → Bytes → Bool)
    (a b : List Field) (hn : (ids b).Nodup) : diffF v cmp a b = diffSpec v cmp a b :=
  diffF_eq_spec v cmp a b hn

/-- the byte-level encoder (pos1/pos2 over two buffers, three cases changed / vanished / new)
    never reads outside its buffers on well-formed input and emits exactly the encoding of the
    field-level delta: all positions it uses are field boundaries -/
theorem c06_diff_bytes_is_field_diff (v : Variant) (cmp : Nat → Bytes → Bytes → Bool)
    (h1 h2 t2 : Bytes) (a b : List Field) (hh1 : h1.length = 64) (hh2 : h2.length = 64)
    (ha : WFs a) (hb : WFs b) :
    diffRaw v cmp (h1 ++ (encFs a ++ endBytes)) (h2 ++ (encFs b ++ (endBytes ++ t2)))
      = some (encFs (diffF v cmp a b)) :=
  diffRaw_enc v cmp h1 h2 t2 a b hh1 hh2 ha hb

/-- delta-codec law for an arbitrary comparison function: id by id the overlaid state equals the
    new state, or the encoder judged old and new payload "same" and kept the old one (for the real
    `cmpReal` this happens for particle arrays that differ only in pointer members, padding, or
    the sign of a zero) -/
theorem c06_delta_law_any_cmp (v : Variant) (cmp : Nat → Bytes → Bytes → Bool)
    (init : State) (a b : List Field) (ha : (ids a).Nodup) (hb : (ids b).Nodup)
    (hinit : ∀ f ∈ a, (∀ g ∈ b, g.ty ≠ f.ty) → init.val f.ty = [])
    (k : Nat) :
    (applyF (applyF init a) (diffF v cmp a b)).val k = (applyF init b).val k ∨
    ∃ f ∈ a, ∃ g ∈ b, f.ty = k ∧ g.ty = k ∧ sameF cmp f g = true ∧
      (applyF (applyF init a) (diffF v cmp a b)).val k = f.data ∧ (applyF init b).val k = g.data :=
  delta_law_fields_gen v cmp init a b ha hb hinit k

/-- **Delta-codec law, full statement** (`DeltaLaw`, RV/Proofs/BinRaw.lean), for the source with
    fixes/F1.diff applied: for all serialisations `a`, `b` — fields may appear, disappear, grow,
    shrink — the encoder yields a delta and `load a; load delta ≈ load b` on bytes. -/
theorem c06_delta_law : DeltaLaw Variant.fixed := deltaLaw_fixed

/-- the same full statement is **false of the pinned source** (F1, binarydiff.c:175-212: a vanished
    field is written with its old size and no payload) -/
theorem c06_delta_law_current_false : ¬ DeltaLaw Variant.current := deltaLaw_current_false

/-- what holds of the pinned source: the law for every pair of serialisations in which no
    non-empty field of `a` is absent from `b` (`¬ Vanishes a b`) -/
theorem c06_delta_law_partial (v : Variant) (cmp : Nat → Bytes → Bytes → Bool) (hc : CmpExact cmp)
    (init : State) (h1 h2 t1 t2 rest : Bytes) (a b : List Field)
    (hh1 : h1.length = 64) (hh2 : h2.length = 64) (ha : WFs a) (hb : WFs b)
    (hna : NoHeader a) (hnb : NoHeader b) (ua : (ids a).Nodup) (ub : (ids b).Nodup)
    (hinit : ∀ f ∈ a, (∀ g ∈ b, g.ty ≠ f.ty) → init.val f.ty = [])
    (hv : ¬ Vanishes a b) :
    ∃ delta, diffRaw v cmp (h1 ++ (encFs a ++ endBytes)) (h2 ++ (encFs b ++ (endBytes ++ t2))) = some delta ∧
      ∀ k, (applyB (applyB init (encFs a ++ (endBytes ++ t1))) (delta ++ (endBytes ++ rest))).val k
            = (applyB init (encFs b ++ (endBytes ++ t2))).val k :=
  delta_law_bytes v cmp hc init h1 h2 t1 t2 rest a b hh1 hh2 ha hb hna hnb ua ub hinit (Or.inr hv)

/-- **archive theorem, index part**: the reader's index of the archive with first snapshot `fs0` and
    deltas `ds` (as written by `n = ds.length` appends: trailer-chain invariant `offset_prev` of blob k+1 =
    `offset_next` of blob k = size of delta k + 16, last `offset_next` = 0) has exactly `n + 1` entries,
    entry 0 at offset 0, entry k+1 right after trailer k; each carries the time field found in its blob -/
theorem c06_index_count_offsets (v : Variant) (hdr : Bytes) (fs0 : List Field) (ds : List (List Field))
    (h : ArchOK hdr fs0 ds) :
    index v (archI hdr fs0 ds) = fixTimes v (archEntries fs0 ds) ∧
    (archEntries fs0 ds).length = ds.length + 1 := by
  refine ⟨index_intact v hdr fs0 ds h, ?_⟩
  simp [archEntries, chainEntries_length]

/-- appending one more delta to a well-formed archive is again one (induction step of the archive theorem) -/
theorem c06_append_keeps_chain (hdr : Bytes) (fs0 : List Field) (ds : List (List Field)) (dn : List Field) :
    overwrite (archI hdr fs0 ds) ((archI hdr fs0 ds).length - 12) (pendingData ds dn)
      = archI hdr fs0 (ds ++ [dn]) :=
  append_shape hdr fs0 ds dn

/-- **the archive of a history is what the write protocol produces**: saving `fs0` to a fresh file and
    running `reb_simulation_save_to_file`'s append path (scan of the first blob, corruption test — which
    never fires on a well-formed archive —, patch of the previous trailer, delta, END, new trailer) once per
    serialisation yields `archOf`, the archive the theorems below talk about -/
theorem c06_appends_is_archive (v : Variant) (cmp : Nat → Bytes → Bytes → Bool) (hdr : Bytes) (fs0 : List Field)
    (strm : List (Bytes × List Field × Bytes))
    (h : HistOK v cmp hdr fs0 (strm.map (·.2.1)))
    (hv : v.f1 = true ∨ ∀ b ∈ strm.map (·.2.1), ¬ Vanishes fs0 b)
    (h64 : ∀ s ∈ strm, s.1.length = 64) (hn : strm.length < 4294967296) :
    appends v cmp (encStream hdr fs0) (strm.map streamOf)
      = some (archOf v cmp hdr fs0 (strm.map (·.2.1))) :=
  appends_archOf v cmp hdr fs0 strm h hv h64 hn

/-- **archive theorem — snapshots, full statement** (source with fixes/F1.diff: `v.f1 = true`): for every
    history `fs0, bs` (fields may appear, vanish, grow, shrink, reappear), loading snapshot `j+1` of the
    archive gives id by id the state `bs[j]` that was appended -/
theorem c06_archive_snapshot (v : Variant) (hf1 : v.f1 = true) (cmp : Nat → Bytes → Bytes → Bool)
    (hc : CmpExact cmp) (init : State) (hdr : Bytes) (fs0 : List Field) (bs : List (List Field))
    (h : HistOK v cmp hdr fs0 bs) (j : Nat) (b : List Field) (hj : bs[j]? = some b)
    (hinit : ∀ f ∈ fs0, (∀ g ∈ b, g.ty ≠ f.ty) → init.val f.ty = []) :
    ∃ st, snapshot init (archOf v cmp hdr fs0 bs)
            ((index v (archOf v cmp hdr fs0 bs)).map (·.off)) (j + 1) = some st ∧
          ∀ k, st.val k = (applyF init b).val k :=
  archive_snapshot v cmp hc init hdr fs0 bs h (Or.inl hf1) j b hj hinit

/-- what holds of the pinned source (F1): the same for histories in which no non-empty field of the
    first snapshot is ever absent later -/
theorem c06_archive_snapshot_partial (v : Variant) (cmp : Nat → Bytes → Bytes → Bool)
    (hc : CmpExact cmp) (init : State) (hdr : Bytes) (fs0 : List Field) (bs : List (List Field))
    (h : HistOK v cmp hdr fs0 bs) (hnv : ∀ b ∈ bs, ¬ Vanishes fs0 b)
    (j : Nat) (b : List Field) (hj : bs[j]? = some b)
    (hinit : ∀ f ∈ fs0, (∀ g ∈ b, g.ty ≠ f.ty) → init.val f.ty = []) :
    ∃ st, snapshot init (archOf v cmp hdr fs0 bs)
            ((index v (archOf v cmp hdr fs0 bs)).map (·.off)) (j + 1) = some st ∧
          ∀ k, st.val k = (applyF init b).val k :=
  archive_snapshot v cmp hc init hdr fs0 bs h (Or.inr hnv) j b hj hinit

/-- **archive theorem — count**: `n` appends, `n + 1` snapshots (`_partial`: under F1 only without vanishing
    fields; with `v.f1 = true` unconditionally) -/
theorem c06_archive_count_partial (v : Variant) (cmp : Nat → Bytes → Bytes → Bool) (hdr : Bytes) (fs0 : List Field)
    (bs : List (List Field)) (h : HistOK v cmp hdr fs0 bs) (hv : v.f1 = true ∨ ∀ b ∈ bs, ¬ Vanishes fs0 b) :
    (index v (archOf v cmp hdr fs0 bs)).length = bs.length + 1 :=
  archive_count v cmp hdr fs0 bs h hv

/-- **archive theorem — times, full statement** (source with fixes/F11.diff: `v.f11 = true`): the index
    reports for snapshot `j+1` the time of the appended state -/
theorem c06_archive_time (v : Variant) (hf11 : v.f11 = true) (cmp : Nat → Bytes → Bytes → Bool) (hc : CmpExact cmp)
    (hdr : Bytes) (fs0 : List Field) (bs : List (List Field)) (h : HistOK v cmp hdr fs0 bs)
    (hv : v.f1 = true ∨ ∀ b ∈ bs, ¬ Vanishes fs0 b)
    (j : Nat) (b : List Field) (hj : bs[j]? = some b) (t0 tb : Field)
    (h0 : t0 ∈ fs0) (hb : tb ∈ b) (h0t : t0.ty = T_ID) (hbt : tb.ty = T_ID) :
    ∃ off, (index v (archOf v cmp hdr fs0 bs))[j + 1]? = some ⟨off, some tb.data⟩ := by
  obtain ⟨off, ho⟩ := archive_time v cmp hdr fs0 bs h hv j b hj t0 tb h0 hb h0t hbt
  refine ⟨off, ?_⟩
  rw [ho, hf11]
  by_cases hs : sameF cmp t0 tb = true
  · have : t0.data = tb.data := by
      simp only [sameF, Bool.and_eq_true] at hs
      exact hc _ _ _ hs.2
    simp [hs, this]
  · simp [hs]

/-- what holds of the pinned source (F11, simulationarchive.c:222,243): the time is right whenever the
    encoder saw it change against the first snapshot; otherwise the slot is never written (`none`:
    the reader reports 0, or garbage beyond the first 1024 slots) -/
theorem c06_archive_time_partial (v : Variant) (cmp : Nat → Bytes → Bytes → Bool)
    (hdr : Bytes) (fs0 : List Field) (bs : List (List Field)) (h : HistOK v cmp hdr fs0 bs)
    (hv : v.f1 = true ∨ ∀ b ∈ bs, ¬ Vanishes fs0 b)
    (j : Nat) (b : List Field) (hj : bs[j]? = some b) (t0 tb : Field)
    (h0 : t0 ∈ fs0) (hb : tb ∈ b) (h0t : t0.ty = T_ID) (hbt : tb.ty = T_ID) :
    ∃ off, (index v (archOf v cmp hdr fs0 bs))[j + 1]? =
      some ⟨off, if sameF cmp t0 tb then (if v.f11 then some t0.data else none) else some tb.data⟩ :=
  archive_time v cmp hdr fs0 bs h hv j b hj t0 tb h0 hb h0t hbt

/-- non-vacuity: a two-field serialisation, one field changed, one vanished, one new -/
example :
    let a : List Field := [⟨0, 2, [1, 2]⟩, ⟨104, 3, [7, 8, 9]⟩]
    let b : List Field := [⟨0, 2, [1, 3]⟩, ⟨85, 1, [5]⟩]
    WFs a ∧ WFs b ∧ (ids a).Nodup ∧ (ids b).Nodup ∧ Vanishes a b ∧
    diffF Variant.fixed (fun _ p q => p == q) a b = [⟨0, 2, [1, 3]⟩, ⟨104, 0, []⟩, ⟨85, 1, [5]⟩] ∧
    diffF Variant.current (fun _ p q => p == q) a b = [⟨0, 2, [1, 3]⟩, ⟨104, 3, []⟩, ⟨85, 1, [5]⟩] := by
  refine ⟨?_, ?_, by decide, by decide, ⟨⟨104, 3, [7, 8, 9]⟩, by simp, by decide, by decide⟩, by decide, by decide⟩
  · intro f hf
    simp only [List.mem_cons, List.not_mem_nil, or_false] at hf
    rcases hf with rfl | rfl <;> exact ⟨rfl, by decide, by decide, by decide⟩
  · intro f hf
    simp only [List.mem_cons, List.not_mem_nil, or_false] at hf
    rcases hf with rfl | rfl <;> exact ⟨rfl, by decide, by decide, by decide⟩

/-- **cadence, interval mode, both directions of integration** (`reb_simulationarchive_heartbeat`, exact time
    arithmetic): `s = ±1` is the sign of `dt`, `d > 0` the interval, the heartbeat runs at step boundaries `ts`
    that advance in direction `s` by at most one interval each (`|dt| ≤ |Δ|`), and `next` starts ahead of the
    last boundary seen.  Then a snapshot is taken at a boundary iff the prescribed time has been reached, that
    boundary is less than one interval past it, and the next prescribed time is exactly one interval further. -/
theorem c06_cadence_interval_exact (s d : Int) (hs : s = 1 ∨ s = -1) (hd : 0 < d) (p next : Int) (ts : List Int)
    (hinv : s * p < s * next) (hc : RV.Cadence.Chain s d p ts) :
    RV.Cadence.Exact s d next ts (RV.Cadence.run RV.Cadence.intOps s d next ts).1 :=
  RV.Cadence.cadence_exact s d hs hd p next ts hinv hc

/-- the persisted cadence state after any run = start + (number of snapshots) · sign · interval -/
theorem c06_cadence_next_advances (s d next : Int) (ts : List Int) :
    (RV.Cadence.run RV.Cadence.intOps s d next ts).2
      = next + (RV.Cadence.count (RV.Cadence.run RV.Cadence.intOps s d next ts).1 : Int) * (s * d) :=
  RV.Cadence.cadence_next s d next ts

/-- two heartbeats at the same time (end of one `integrate()`, start of the next; rebound.c:918 and 881): the second one
    writes nothing, provided the boundary was less than one interval past its prescribed time -/
theorem c06_cadence_same_time_no_duplicate (s d next t : Int) (hs : s = 1 ∨ s = -1) (hfire : s * next ≤ s * t)
    (hnl : s * t < s * next + d) :
    RV.Cadence.hb RV.Cadence.intOps s d (RV.Cadence.hb RV.Cadence.intOps s d next t).2 t = (false, next + s * d) := by
  have h1 : RV.Cadence.hb RV.Cadence.intOps s d next t = (true, next + s * d) := by rw [RV.Cadence.hb_int]; simp [hfire]
  rw [h1]
  exact RV.Cadence.hb_no_refire s d next t hs hfire hnl

/-- ... and with the prescribed time a whole interval or more behind (interval shorter than a step) the second
    heartbeat writes the same state again: the model follows the source (finding `cadence:lagging-next-duplicate`) -/
theorem c06_cadence_lagging_duplicates (s d next t : Int) (hfire : s * next ≤ s * t) (hlag : s * (next + s * d) ≤ s * t) :
    (RV.Cadence.hb RV.Cadence.intOps s d (RV.Cadence.hb RV.Cadence.intOps s d next t).2 t).1 = true := by
  have h1 : RV.Cadence.hb RV.Cadence.intOps s d next t = (true, next + s * d) := by rw [RV.Cadence.hb_int]; simp [hfire]
  rw [h1]
  exact RV.Cadence.hb_refire_lagging s d next t hlag

/-- repaired heartbeat (`fixes/C06-cadence-skip-passed-output-times.diff`, model variant selected by a behavioural probe):
    it is the pinned heartbeat whenever the boundary is less than one interval past the prescribed time ... -/
theorem c06_cadence_repaired_same_when_not_lagging (s d next t : Int) (hs : s = 1 ∨ s = -1) (hd : 0 < d)
    (hnl : s * t < s * next + d) :
    RV.Cadence.hbR RV.Cadence.intOpsR s d next t = RV.Cadence.hb RV.Cadence.intOps s d next t :=
  RV.Cadence.hbR_eq_hb s d next t hs hd hnl

/-- ... after every snapshot the prescribed time is the next one of the grid strictly ahead of `t` (for ANY ratio of step
    and interval) ... -/
theorem c06_cadence_repaired_next_ahead (s d next t : Int) (hs : s = 1 ∨ s = -1) (hd : 0 < d) (hfire : s * next ≤ s * t) :
    s * t < s * (RV.Cadence.hbR RV.Cadence.intOpsR s d next t).2 ∧ s * (RV.Cadence.hbR RV.Cadence.intOpsR s d next t).2 ≤ s * t + d :=
  RV.Cadence.hbR_next_ahead s d next t hs hd hfire

/-- ... hence a second heartbeat at the same time never writes the state again -/
theorem c06_cadence_repaired_never_twice (s d next t : Int) (hs : s = 1 ∨ s = -1) (hd : 0 < d) (hfire : s * next ≤ s * t) :
    RV.Cadence.hbR RV.Cadence.intOpsR s d (RV.Cadence.hbR RV.Cadence.intOpsR s d next t).2 t
      = (false, (RV.Cadence.hbR RV.Cadence.intOpsR s d next t).2) :=
  RV.Cadence.hbR_no_refire s d next t hs hd hfire

/-- cadence, step mode: snapshots exactly at `steps_done = first + j·step` -/
theorem c06_cadence_step_exact (step : Nat) (hd : 0 < step) (p next : Nat) (ts : List Nat)
    (hinv : p < next) (hc : RV.Cadence.ChainStep step p ts) :
    RV.Cadence.ExactStep step next ts (RV.Cadence.runStep step next ts).1 :=
  RV.Cadence.cadence_step_exact step hd p next ts hinv hc

/-- **cadence, wall-time mode** (`auto_walltime`; the wall clock is an arbitrary input): for EVERY sequence of clock
    values seen by the heartbeat a snapshot is taken iff the prescribed wall time has been reached — never early,
    never omitted, at most one per heartbeat -/
theorem c06_cadence_walltime_sound (d next : Int) (ws : List Int) :
    RV.Cadence.WallSound d next ws (RV.Cadence.runWall RV.Cadence.intOps d next ws).1 :=
  RV.Cadence.wall_sound d next ws

/-- … `next` advances by exactly one interval per snapshot … -/
theorem c06_cadence_walltime_next (d next : Int) (ws : List Int) :
    (RV.Cadence.runWall RV.Cadence.intOps d next ws).2
      = next + (RV.Cadence.count (RV.Cadence.runWall RV.Cadence.intOps d next ws).1 : Int) * d :=
  RV.Cadence.wall_next d next ws

/-- … and when the clock is non-decreasing and advances by at most one interval between heartbeats the cadence is
    exact (first heartbeat at or after each prescribed wall time, none skipped) -/
theorem c06_cadence_walltime_exact (d : Int) (hd : 0 < d) (p next : Int) (ws : List Int)
    (hinv : p < next) (hc : RV.Cadence.Chain 1 d p ws) :
    RV.Cadence.Exact 1 d next ws (RV.Cadence.runWall RV.Cadence.intOps d next ws).1 :=
  RV.Cadence.wall_exact d hd p next ws hinv hc

/-- **bridge to C05** (field-level model RV/Model/Persist.lean, descriptor-driven `encode`/`decodeFields` over
    `(id, List UInt8)`): with the adapter `toBin`/`toP` (same id, size = payload length, bytes as naturals) the byte
    stream of a simulation is `encStream hdr (fields)`, and parsing it gives the fields back -/
theorem c06_c05_fields_of_stream (hdr : Bytes) (hh : hdr.length = 64) (fs : List RV.Persist.Field)
    (h : RV.BinPersist.StreamOK fs) :
    RV.BinPersist.fieldsOfBytes (RV.BinPersist.streamBytes hdr fs) = some fs :=
  RV.BinPersist.fields_of_stream hdr hh fs h

/-- **C05's codec lifts to bytes**: byte-level load ∘ byte-level save = field-level decode ∘ field-level encode,
    for every table and simulation whose stream has ids < 2³², payloads < 2⁶⁴ bytes and END id 9999 -/
theorem c06_c05_decode_encode_bytes (hdr : Bytes) (hh : hdr.length = 64) (psz : Nat) (sp : RV.Persist.Special)
    (tbl : List RV.Persist.Desc) (s init : RV.Persist.Sim) (fp : Bool)
    (hs : RV.BinPersist.StreamOK (RV.Persist.body sp (RV.Persist.encode psz sp tbl s fp))) :
    RV.BinPersist.decodeBytes psz sp tbl init (RV.BinPersist.encodeBytes hdr psz sp tbl s fp)
      = some (RV.Persist.decodeFields psz sp tbl (init, []) (RV.Persist.encode psz sp tbl s fp)) :=
  RV.BinPersist.decodeBytes_encodeBytes hdr hh psz sp tbl s init fp hs

/-- hence `decodeBytes (encodeBytes img) = img` (C05's round trip, on the real byte stream) -/
theorem c06_c05_bytes_roundtrip (hdr : Bytes) (hh : hdr.length = 64) {psz : Nat} {sp : RV.Persist.Special}
    {tbl : List RV.Persist.Desc} (ok : RV.Persist.TableOK psz sp tbl) (s init : RV.Persist.Sim)
    (hwf : RV.Persist.WF psz tbl s) (hp : RV.Persist.Persisted psz tbl init s)
    (hs : RV.BinPersist.StreamOK (RV.Persist.body sp (RV.Persist.encode psz sp tbl s false))) :
    RV.BinPersist.decodeBytes psz sp tbl init (RV.BinPersist.encodeBytes hdr psz sp tbl s false) = some (s, []) :=
  RV.BinPersist.bytes_roundtrip hdr hh ok s init hwf hp hs

/-- the payload-level reader of the byte model on a C05 stream is "later value wins" on its field list -/
theorem c06_c05_applyB_stream (hdr : Bytes) (hh : hdr.length = 64) (fs : List RV.Persist.Field)
    (h : RV.BinPersist.StreamOK fs) (hnh : ∀ f ∈ fs, f.1 ≠ HEADER) (st : State) :
    applyB st ((RV.BinPersist.streamBytes hdr fs).drop 64) = applyF st (fs.map RV.BinPersist.toBin) :=
  RV.BinPersist.applyB_stream hdr hh fs h hnh st

/-- the reader's index arrays (capacity 1024, enlarged by 1024 when `i == nblobsmax-1`) always have slot `i`
    when blob `i` is recorded, for every number of blobs: the unbounded `indexLoop` of the model is what the
    growth schedule of the source implements -/
theorem c06_index_capacity (i : Nat) : i < RV.Cadence.capAt i := RV.Cadence.cap_ok i

/-- non-vacuity of the archive theorem: a concrete history satisfying `HistOK` (time 5 at both snapshots, a
    setting changed in between), for which the delta carries no time field — the F11 situation -/
example :
    let hdr : Bytes := [82, 69, 66, 79] ++ List.replicate 60 0
    let fs0 : List Field := [⟨0, 8, [0, 0, 0, 0, 0, 0, 20, 64]⟩, ⟨1, 1, [1]⟩, ⟨125, 4, [3, 0, 0, 0]⟩]
    let b : List Field := [⟨0, 8, [0, 0, 0, 0, 0, 0, 20, 64]⟩, ⟨1, 1, [2]⟩, ⟨125, 4, [3, 0, 0, 0]⟩]
    HistOK Variant.current (fun _ p q => p == q) hdr fs0 [b] ∧ ¬ Vanishes fs0 b ∧
    tOf (diffF Variant.current (fun _ p q => p == q) fs0 b) none = none := by
  refine ⟨⟨⟨rfl, by decide⟩, ⟨?_, ?_, ?_⟩, ⟨?_, ?_, ?_, ?_⟩, by decide, by decide, ?_⟩, ?_, by decide⟩
  any_goals
    (intro f hf; simp only [List.mem_cons, List.not_mem_nil, or_false] at hf
     rcases hf with rfl | rfl | rfl <;> first | exact ⟨rfl, by decide, by decide, by decide⟩ | decide)
  · intro b' hb'
    simp only [List.mem_singleton] at hb'
    subst hb'
    refine ⟨⟨?_, ?_, ?_⟩, by decide, ?_, by decide⟩
    any_goals
      (intro f hf; simp only [List.mem_cons, List.not_mem_nil, or_false] at hf
       rcases hf with rfl | rfl | rfl <;> first | exact ⟨rfl, by decide, by decide, by decide⟩ | decide)
  · rintro ⟨f, hf, hne, hno⟩
    simp only [List.mem_cons, List.not_mem_nil, or_false] at hf
    rcases hf with rfl | rfl | rfl
    · exact hno _ (List.mem_cons_self ..) rfl
    · exact hno ⟨1, 1, [2]⟩ (by simp) rfl
    · exact hno ⟨125, 4, [3, 0, 0, 0]⟩ (by simp) rfl

end RV.Bin
