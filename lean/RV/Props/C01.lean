import RV.Proofs.C01Saba
import RV.Proofs.C01Whfast
import RV.Proofs.C01WhfastSym
import RV.Proofs.C01WhfastOrd
import RV.Proofs.C01WhfastOrd2
import RV.Proofs.C01WhfastOrd3
import RV.Proofs.C01Eos
import RV.Proofs.C01EosOrd
import RV.Proofs.C01EosOrd8
import RV.Proofs.C01EosAllN
import RV.Proofs.C01Janus
import RV.Proofs.C01JanusWords
import RV.Proofs.C01JanusW10
import RV.Proofs.C01Ias15
import RV.Proofs.C01Leapfrog
import RV.Proofs.C01Mercurius
import RV.Proofs.C01BsLinear
import RV.Proofs.C01Trace
import RV.Proofs.C01Ias15Sweep
import RV.Proofs.C01Dispatch
import RV.Proofs.C01Changeover
import RV.Proofs.C01ChangeoverAll
import RV.Proofs.C01ChangeoverMono
import RV.Proofs.C01Flow
/-
  C01 — every integrator converges to the true N-body solution at its advertised order.   **PARTIAL.**

  Not proved: the analytic convergence theorem (error = O(dtᵖ)), anything about the adaptive integrators' step-size
  control (IAS15, BS), MERCURIUS' changeover, TRACE's accept/reject logic, and that the primitives (Kepler solver, force
  routines, coordinate transformations) compute what their names say (C02, C03, C12).

  Proved, of the *current source* (tables and schedules are regenerated from /repo on every run into RV/Gen/C01*.lean by
  executing the control flow of the C text; coefficients are the decimal literals as exact rationals, which the check
  confirms round to the doubles the compiler produces): the complete set of algebraic facts from which the textbook theorem
  follows — consistency, symmetry, and the order conditions of every member of the option lattice, in the strongest
  form available: agreement of `Π exp(cᵢ dt Lᵢ)` with `exp(dt(A+B))` on **all** words of the free algebra up to the
  advertised (generalised) order.
-/
namespace RV.C01.Props
open RV.C01 RV.C01.Gen RV.C01.Adv

/-! ### the translator found everything (an extraction that silently finds less fails here) -/
theorem c01_extraction_complete :
    (sabaCounts = [("c literals", 35), ("d literals", 30), ("cc literals", 4), ("types", 18)] ∧ sabaStep.length = 18 ∧ sabaTwoUnsync.length = 18) ∧
    (whCounts = [("a", 8), ("b", 19), ("accepted", 64), ("rejected", 128)] ∧ whA.length = 8 ∧
      whB.map (fun p => (p.1, p.2.length)) = corrConditions ∧ whCorr.length = 10 ∧ whCore.length = 7) ∧
    (eosCounts = [("types", 9), ("tables", 18), ("literals", 70)] ∧ eosOuter.map (·.1) = [0, 1, 2, 3, 4, 5, 6, 7, 8] ∧
      eosInner.length = 36 ∧ eosParts.length = 9 ∧ eosOuterTwoUnsync.length = 9) ∧
    (janusCounts = [("schemes", 5)] ∧ janusSchemes.map (fun e => (e.1, e.2.1)) = [(2, 1), (4, 5), (6, 9), (8, 15), (10, 33)]
      ∧ janusStep.map (·.1) = [2, 4, 6, 8, 10] ∧ ∀ e ∈ janusSchemes, e.2.2.length = 17) ∧
    (iasCounts = [("h", 8), ("rr", 28), ("c", 21), ("d", 21), ("w", 8)] ∧ iasH.length = 8 ∧ iasRR.length = 28 ∧
      iasC.length = 21 ∧ iasD.length = 21 ∧ iasW.length = 8) :=
  ⟨Saba.counts, Whfast.counts, Eos.counts, Janus.counts, Ias15.counts⟩

/-! ### the two-phase step driver (src/integrator.c) -/
/-- executing the switch statements of `reb_integrator_part1`, `reb_integrator_part2`, `reb_simulation_synchronize` for each of the
    twelve values of the integrator enumeration reaches that family's own routine (no missing or crossed case; `none` only advances
    time), and `reb_simulation_reset_integrator` resets every family with state and selects IAS15 -/
theorem c01_step_driver_dispatch :
    (dispatch.map (fun r => (r.2.2.1, r.2.1)) =
      [("ias15", 0), ("whfast", 1), ("sei", 2), ("leapfrog", 4), ("none", 7), ("janus", 8), ("mercurius", 9), ("saba", 10), ("eos", 11),
       ("bs", 12), ("whfast512", 21), ("trace", 25)] ∧ (dispatch.map (·.2.1)).Nodup) ∧
    (∀ r ∈ dispatch,
      (r.2.2.1 = "none" → r.2.2.2.1 = "" ∧ r.2.2.2.2.1 = "advance_time" ∧ r.2.2.2.2.2 = "") ∧
      (r.2.2.1 ≠ "none" → r.2.2.2.1 = Dispatch.expected r.2.2.1 "part1" ∧ r.2.2.2.2.1 = Dispatch.expected r.2.2.1 "part2" ∧
        r.2.2.2.2.2 = Dispatch.expected r.2.2.1 "synchronize")) ∧
    ((∀ r ∈ dispatch, r.2.2.1 ≠ "none" → r.2.2.1 ≠ "leapfrog" → Dispatch.expected r.2.2.1 "reset" ∈ dispatchResetCalls) ∧
      dispatchResetIntegrator = 0 ∧ dispatchResetCalls.Nodup) :=
  ⟨Dispatch.enumeration, Dispatch.no_crossed_case, Dispatch.reset_complete⟩

/-- the user-ODE sub-stepping loop at the end of `reb_integrator_part2`, executed by the translator for five valuations of
    (t, r->dt, r->dt_last_done, dt_proposed) with r->dt ≠ r->dt_last_done (adaptive integrator) and both signs: the sub-steps start at
    `t − dt_last_done`, tile exactly the step just done, respect `|dt_proposed|`, and `r->t` is restored -/
theorem c01_user_ode_interval : odeLoop.length = 5 ∧ ∀ e ∈ odeLoop,
    (e.2.1.head?.map (·.1)) = some (e.1.1 - e.1.2.2.1) ∧ Dispatch.contiguous e.2.1 = true ∧
    (e.2.1.map (·.2)).foldl (· + ·) 0 = e.1.2.2.1 ∧ e.2.2 = e.1.1 ∧
    (∀ c ∈ e.2.1, (0 < c.2) = (0 < e.1.2.2.1) ∧ (e.1.2.2.2 = 0 ∨ Dispatch.absR c.2 ≤ Dispatch.absR e.1.2.2.2)) ∧
    (e.1.2.2.2 = 0 → e.2.1.length = 1) := Dispatch.ode_loop_interval

/-! ### SABA (18 types) -/
/-- every type has the documented number of stages, and that many kicks and one more drift per step -/
theorem c01_saba_stages : (∀ t ∈ sabaTypes, sabaStages.lookup t.2.1 = some t.2.2 ∧ (sabaStep.lookup t.2.1).isSome) ∧
    (∀ t ∈ sabaTypes, ∀ s ∈ sabaStep.lookup t.2.1,
      (s.filter (fun o => o.kind == 1 && o.a != 0)).length = t.2.2 ∧ countKind 0 s = t.2.2 + 1) :=
  ⟨Saba.stages, Saba.stage_count⟩
/-- drift, centre-of-mass and kick coefficients each sum to 1 -/
theorem c01_saba_consistent : ∀ e ∈ sabaStep, Consistent e.2 tolSaba := Saba.consistent
/-- every step is a palindrome (correctors included) -/
theorem c01_saba_symmetric : ∀ e ∈ sabaStep, Palindrome e.2 := Saba.symmetric
/-- every kick uses forces evaluated at the current positions -/
theorem c01_saba_fresh : ∀ e ∈ sabaStep, Fresh e.2 := Saba.fresh
/-- quadrature conditions `Σ dᵢ c̄ᵢᵏ = 1/(k+1)`, `k < p₁` -/
theorem c01_saba_quadrature : ∀ e ∈ sabaStep, ∀ lim ∈ saba.lookup e.1, Quadrature e.2 (lim.getD 1 0) tolSaba := Saba.quadrature
/-- advertised generalised order of every type, on all words (modified-kick / lazy correctors as jerk terms) -/
theorem c01_saba_order : (∀ e ∈ sabaStep, (saba.lookup e.1).isSome) ∧
    ∀ e ∈ sabaStep, ∀ lim ∈ saba.lookup e.1, WordOrder e.2 lim κWH tolSaba := ⟨Saba.advertised_known, Saba.order⟩
/-- two steps with safe_mode = 0 and a final synchronize = two synchronized steps -/
theorem c01_saba_unsync : ∀ e ∈ sabaStep, ∀ two ∈ sabaTwoUnsync.lookup e.1, norm two = norm (e.2 ++ e.2) := Saba.unsync

/-! ### WHFast (4 coordinate systems × 4 kernels × 6 first correctors × second corrector) -/
/-- the source accepts exactly the documented lattice (64 of 192 combinations) -/
theorem c01_whfast_lattice : whAccepted = whLattice ∧ (∀ cfg ∈ whAccepted, (Whfast.stepOf cfg).isSome ∧ (Whfast.twoOf cfg).isSome) ∧
    whJumpNoop = [(0, true), (1, false), (2, false), (3, true)] := ⟨Whfast.lattice.1, Whfast.lattice.2, Whfast.jump_noop⟩
/-- corrector tables: `a_k = k·a₁`, `a₁² = 7/40`, `corrector2_b = a₁/12` -/
theorem c01_whfast_table_a : (∀ k ∈ List.range 8, Near (whA.getD k 0) (((k : Rat) + 1) * whA.getD 0 0) tolWH) ∧
    Near (whA.getD 0 0 ^ 2) (7/40) tolWH ∧ Near (12 * whC2B) (whA.getD 0 0) tolWH := Whfast.table_a
/-- cross-table consistency: the correctors of order 3, 5, 7, 11, 17 satisfy the first 1, 2, 3, 5, 8 odd-moment conditions
    with the *same* targets `μ_k`, all even moments vanish, and they do not advance time -/
theorem c01_whfast_corrector_moments : ∀ oc ∈ corrConditions, ∀ s ∈ whCorr.lookup (oc.1, true),
    (∀ i ∈ List.range oc.2, Near (moment s (2 * i + 1)) (corrMu.getD i 0) tolWH) ∧
    (∀ i ∈ List.range (oc.2 + 1), Near (moment s (2 * i)) 0 tolWH) ∧
    Near (driftSum s) 0 tolWH ∧ Near (kickSum s) 0 tolWH := Whfast.corrector_moments
/-- … and the targets are the Taylor coefficients of `((x/2)/sinh(x/2) − 1)/x` -/
theorem c01_whfast_corrector_targets : ∀ n ∈ List.range 9,
    sumQ ((List.range (n + 1)).map (fun i => cschCoeff i * sinhcCoeff (n - i))) = (if n = 0 then 1 else 0) :=
  Whfast.targets_generating_function
/-- the inverse first corrector is the inverse -/
theorem c01_whfast_corrector_inverse : ∀ oc ∈ corrConditions, ∀ p ∈ whCorr.lookup (oc.1, true),
    ∀ m ∈ whCorr.lookup (oc.1, false), norm m = invG (norm p) := Whfast.corrector_inverse
/-- Kepler, centre-of-mass and kick coefficients sum to 1 for every accepted configuration; the jump steps too where they act -/
theorem c01_whfast_consistent : ∀ cfg ∈ whAccepted, ∀ s ∈ Whfast.stepOf cfg,
    Consistent s tolWH ∧ (cfg.1 = 1 ∨ cfg.1 = 2 → jumpSum s = 1) := Whfast.consistent
theorem c01_whfast_fresh : ∀ cfg ∈ whAccepted, ∀ s ∈ Whfast.stepOf cfg, Fresh s := Whfast.fresh
/-- PARTIAL (hypotheses `kernel ≠ composition` and: `corrector2 = 0`, or the second corrector's inverse is an inverse —
    `whCorr2IsInverse`, false on the tree with finding F18, true once it is repaired): the step is `χ ∘ K ∘ χ⁻¹`, `K` a
    palindrome.  Full strength (`∀ cfg ∈ whAccepted`) is false on the unrepaired tree: see the next two theorems. -/
theorem c01_whfast_symmetric_partial : ∀ cfg ∈ whAccepted, (cfg.2.2.2 = 0 ∨ whCorr2IsInverse = true) → cfg.2.1 ≠ 2 →
    ∀ s ∈ Whfast.stepOf cfg, SplitSym s (Whfast.preLen cfg) := Whfast.symmetric_partial
/-- the composition kernel is not a palindrome -/
theorem c01_whfast_composition_kernel_not_symmetric : ∀ core ∈ whCore.lookup (0, 2), ¬ Palindrome core :=
  Whfast.composition_kernel_not_symmetric
/-- FINDING F18: `reb_whfast_apply_corrector2(r, -1.)` is not the inverse of `reb_whfast_apply_corrector2(r, 1.)`.
    `whCorr2IsInverse` is re-derived from the operator lists; while it is false no configuration with `corrector2 = 1` is
    `χ ∘ K ∘ χ⁻¹` and corrector followed by "inverse" deviates from the identity on the words with two `B`s and two `A`s;
    once the source is repaired the same theorem certifies the identity on all words with ≤ 3 `B`s up to length 6. -/
theorem c01_whfast_corrector2_not_inverse :
    whCorr2IsInverse = decide (norm whCorr2_m = invG (norm whCorr2_p)) ∧
    (whCorr2IsInverse = false → ∀ cfg ∈ whAccepted, cfg.2.2.2 = 1 → ∀ s ∈ Whfast.stepOf cfg, ¬ SplitSym s (Whfast.preLen cfg)) ∧
    (WordIdentity (whCorr2_p ++ whCorr2_m) [4, 4, 3] κWH tolWH ∧
      (whCorr2IsInverse = false → ¬ WordIdentity (whCorr2_p ++ whCorr2_m) [4, 4, 4] κWH (1/1000)) ∧
      (whCorr2IsInverse = true → WordIdentity (whCorr2_p ++ whCorr2_m) [6, 6, 6, 6] κWH tolWH)) :=
  ⟨Whfast.corrector2_flag, Whfast.symmetric_fails_with_corrector2, Whfast.corrector2_not_inverse⟩
/-- PARTIAL (`corrector2 = 0` or repaired second corrector): unsynchronised stepping = synchronized stepping -/
theorem c01_whfast_unsync_partial : ∀ cfg ∈ whAccepted, (cfg.2.2.2 = 0 ∨ whCorr2IsInverse = true) → ∀ s ∈ Whfast.stepOf cfg, ∀ two ∈ Whfast.twoOf cfg,
    norm two = norm (s ++ s) := Whfast.unsync_partial
/-- advertised generalised order, Jacobi coordinates, all kernels × first correctors (second corrector off) -/
theorem c01_whfast_order_partial : ∀ kern ∈ [0, 1, 2, 3], ∀ corr ∈ [0, 3, 5, 7, 11, 17], ∀ s ∈ Whfast.stepOf (0, kern, corr, 0),
    Quadrature s ((whfast kern corr).getD 1 0) tolWH ∧ WordOrder s (whfastWords kern corr) κWH tolWH := by
  intro kern hk
  simp only [List.mem_cons, List.not_mem_nil, or_false] at hk
  rcases hk with rfl | rfl | rfl | rfl
  · exact Whfast.order_k01 0 (by simp)
  · exact Whfast.order_k01 1 (by simp)
  · exact Whfast.order_k23 2 (by simp)
  · exact Whfast.order_k23 3 (by simp)
theorem c01_whfast_order_other_coordinates :
    (∀ corr ∈ [0, 3, 5, 7, 11, 17], ∀ s ∈ Whfast.stepOf (3, 0, corr, 0),
      Quadrature s ((whfast 0 corr).getD 1 0) tolWH ∧ WordOrder s (whfastWords 0 corr) κWH tolWH) ∧
    (∀ coord ∈ [1, 2], ∀ s ∈ Whfast.stepOf (coord, 0, 0, 0), Quadrature s 2 tolWH ∧ Palindrome s) :=
  ⟨Whfast.order_barycentric, Whfast.order_heliocentric⟩
/-- F18 seen in the order conditions: with the (unrepaired) second corrector the `ε²` words agree to length 3 but not 4 -/
theorem c01_whfast_order_with_corrector2 : ∀ kern ∈ [1, 2, 3], ∀ corr ∈ [3, 17], ∀ s ∈ Whfast.stepOf (0, kern, corr, 1),
    WordOrder s [4, 4, 3] κWH tolWH ∧ (whCorr2IsInverse = false → ¬ WordOrder s [4, 4, 4] κWH (1/1000)) ∧
    (whCorr2IsInverse = true → WordOrder s [4, 4, 4] κWH tolWH) := Whfast.order_with_corrector2

/-! ### EOS (9 × 9 splittings, any n) -/
theorem c01_eos_consistent : (∀ e ∈ eosOuter, Consistent e.2 tolEOS) ∧ (∀ e ∈ eosInner, Consistent e.2 tolEOS) := Eos.consistent
/-- `pre ∘ K ∘ pre⁻¹`, `K` a palindrome, `post` literally the reversed negated `pre` -/
theorem c01_eos_symmetric : ∀ e ∈ eosOuter, SplitSym e.2 (Eos.preLen e.1) := Eos.symmetric
theorem c01_eos_fresh : (∀ e ∈ eosOuter, Fresh e.2) ∧ (∀ e ∈ eosInner, Fresh e.2) := Eos.fresh
theorem c01_eos_unsync : ∀ e ∈ eosOuter, ∀ two ∈ eosOuterTwoUnsync.lookup e.1, norm two = norm (e.2 ++ e.2) := Eos.unsync
/-- the loop over `n` sub-steps as modelled = as unrolled from the source for n = 1..4; merging sub-steps is exact;
    Φ1 = X with n = 1 is the same scheme as Φ0 = X -/
theorem c01_eos_inner_loop : (∀ e ∈ eosInner, ∀ p ∈ Eos.partsOf e.1.1,
      innerSched p.1 p.2.1 p.2.2.1 p.2.2.2.1 p.2.2.2.2.1 p.2.2.2.2.2 e.1.2 = e.2) ∧
    (∀ e ∈ eosParts, norm e.2.2.2.2.1 = norm (e.2.2.2.2.2.1 ++ e.2.2.1)) ∧
    (∀ e ∈ eosOuter, ∀ i ∈ eosInner.lookup (e.1, 1), norm i = norm e.2) := ⟨Eos.inner_loop_model, Eos.inner_merge.1, Eos.inner_merge.2⟩
/-- **every n ≥ 1**: the inner scheme with `n` sub-steps (as modelled by `innerSched`) advances drift, centre of mass and kicks
    by exactly the sums of one sub-step, hence is consistent, for all nine types -/
theorem c01_eos_inner_all_n : ∀ e ∈ eosParts, ∀ n : Nat, 1 ≤ n →
    Consistent (innerSched e.2.1 e.2.2.1 e.2.2.2.1 e.2.2.2.2.1 e.2.2.2.2.2.1 e.2.2.2.2.2.2 n) tolEOS := by
  intro e he n hn
  obtain ⟨hd, hc, hk, pd, pc, pk, h1⟩ := Eos.all_n_hypotheses e he
  exact EosAllN.inner_consistent_all_n _ _ _ _ _ _ hd hc hk pd pc pk tolEOS h1 n hn
/-- advertised (generalised) order of all nine types, on all words of the free algebra -/
theorem c01_eos_order : (∀ e ∈ eosOuter, (eos.lookup e.1).isSome) ∧
    ∀ ty ∈ [0, 1, 2, 3, 4, 5, 6, 7, 8], ∀ s ∈ eosOuter.lookup ty, ∀ lim ∈ eos.lookup ty, WordOrder s lim κEOS tolEOS := by
  refine ⟨Eos.advertised_known, ?_⟩
  intro ty hty
  simp only [List.mem_cons, List.not_mem_nil, or_false] at hty
  rcases hty with rfl | rfl | rfl | rfl | rfl | rfl | rfl | rfl | rfl
  · exact Eos.order_small 0 (by simp)
  · exact Eos.order_small 1 (by simp)
  · exact Eos.order_lf6
  · exact Eos.order_lf8
  · exact Eos.order_small 4 (by simp)
  · exact Eos.order_small 5 (by simp)
  · exact Eos.order_small 6 (by simp)
  · exact Eos.order_small 7 (by simp)
  · exact Eos.order_pmlf6
/-- LF, LF4, LF6, LF8 as symmetric compositions of leapfrog: all composition order conditions -/
theorem c01_eos_composition_order : ∀ tp ∈ eosComposition, ∀ s ∈ eosOuter.lookup tp.1,
    IsLeapfrogComposition s ∧ CompositionOrder (kicks s) tp.2 tolEOS := Eos.composition_order

/-! ### JANUS (orders 2, 4, 6, 8, 10) -/
theorem c01_janus_structure : ∀ e ∈ janusSchemes, ∀ s ∈ janusStep.lookup e.1,
    kicks s = Janus.stageSizes e.2.1 e.2.2 ∧ IsLeapfrogComposition s ∧ countKind 1 s = e.2.1 := Janus.scheme_structure
theorem c01_janus_consistent_symmetric : (∀ e ∈ janusStep, Consistent e.2 tolJanus) ∧ (∀ e ∈ janusStep, Palindrome e.2) ∧
    (∀ e ∈ janusStep, Fresh e.2) := ⟨Janus.consistent, Janus.symmetric, Janus.fresh⟩
theorem c01_janus_power_sums : ∀ e ∈ janusStep, Near (powerSum (kicks e.2) 1) 1 tolJanus ∧
    ∀ j ∈ List.range (e.1 / 2), j = 0 ∨ Near (powerSum (kicks e.2) (2 * j + 1)) 0 tolJanus := Janus.power_sums
/-- all order conditions of a symmetric composition up to the advertised order (2 … 10) -/
theorem c01_janus_order : ∀ e ∈ janusStep, CompositionOrder (kicks e.2) e.1 tolJanus := Janus.composition_order
/-- directly on the words in `A`, `B`: orders 2, 4, 6, 8 in full, order 10 up to length 6 -/
theorem c01_janus_order_words : (∀ o ∈ [2, 4, 6], ∀ s ∈ janusStep.lookup o, WordOrder s (List.replicate (o + 1) o) 0 tolJanus) ∧
    (∀ s ∈ janusStep.lookup 8, WordOrder s (List.replicate 9 8) 0 tolJanus) ∧
    (∀ s ∈ janusStep.lookup 10, WordOrder s (List.replicate 7 6) 0 tolJanus) :=
  ⟨Janus.words_2_4_6, Janus.words_8, Janus.words_10_partial⟩

/-- **order 10 directly on all 2047 A/B words** (kernel time sharded over the 8 three-letter prefixes; each shard = the words
    below its prefix and the prefix's prefixes; together they are all words of length ≤ 10) -/
theorem c01_janus_order10_all_words :
    ((∀ u ∈ Janus.prefixes3, sizeT (mkTPath (List.replicate 11 10) u 11 0 0 1) = 258) ∧
      sizeT (mkT (List.replicate 11 10) 11 0 0 1) = 2047 ∧ 8 * 255 + 7 = 2047) ∧
    ∀ u ∈ Janus.prefixes3, ∀ s ∈ janusStep.lookup 10, WordOrderOn s (List.replicate 11 10) u 0 tolJanus :=
  ⟨Janus.words_10_cover, Janus.words_10_all⟩

/-! ### IAS15 constants -/
theorem c01_ias15_constants : AllNear iasRR (rrOf iasH) tolIAS ∧ AllNear iasC (cOf iasH) tolIAS ∧ AllNear iasD (dOf iasH) tolIAS :=
  ⟨Ias15.rr_differences, Ias15.c_recurrence, Ias15.d_recurrence⟩
theorem c01_ias15_radau : (iasH.getD 0 1 = 0 ∧ (∀ x ∈ iasH, Near (radau8 x) 0 tolIAS) ∧
    (∀ p ∈ iasH.zip iasH.tail, p.1 < p.2) ∧ (∀ x ∈ iasH, 0 ≤ x ∧ x < 1)) ∧
    (∀ k ∈ List.range 15, Near (sumQ ((iasW.zip iasH).map (fun p => p.1 * p.2 ^ k))) (2 / ((k : Rat) + 1)) tolIAS) :=
  ⟨Ias15.radau_nodes, Ias15.w_quadrature⟩

/-- the predictor-corrector sweep as linear algebra on the tables of the current source: the end-of-step weights integrate
    a0 + Σ b_j s^{j+1} term by term; the tables c and d are mutually inverse (b = C·g, g = D·b) -/
theorem c01_ias15_tables_inverse :
    (iasPosW = (List.range 8).map (fun (j : Nat) => 1 / (((j : Rat) + 1) * ((j : Rat) + 2))) ∧
      iasVelW = (List.range 8).map (fun (j : Nat) => 1 / ((j : Rat) + 1))) ∧
    (∀ i ∈ List.range 7, ∀ j ∈ List.range 7, Near (Ias.triProd iasC iasD i j) (if i = j then 1 else 0) tolIAS) :=
  ⟨Ias15Sweep.update_weights, Ias15Sweep.c_d_inverse⟩
/-- **one corrector sweep is the Gauss–Radau collocation update**: for a force that depends on time only, a(s) = s^{p+1}
    (p ≤ 6), one sweep from any starting b returns b = e_p; hence (the sweep being linear in the sampled forces) every force
    polynomial of degree ≤ 7 in time is represented exactly after one sweep -/
theorem c01_ias15_sweep_exact : ∀ p ∈ List.range 7, ∀ b0 ∈ [[0, 0, 0, 0, 0, 0, 0], [1, -2, 3/7, 5, -1/3, 2, 9]],
    ∀ j ∈ List.range 7, Near ((Ias.sweep iasRR iasC iasD (Ias.samples iasH (fun s => s ^ (p + 1))) b0).getD j 0)
      (if j = p then 1 else 0) tolIAS := Ias15Sweep.sweep_exact
/-- **the fact that makes IAS15 15th order**: with the b's of one sweep the end-of-step velocity is exact for forces sᵖ up to
    p = 14 and the position up to p = 13 (Gauss–Radau quadrature with 8 nodes), and not beyond -/
theorem c01_ias15_step_exact : (∀ p ∈ List.range 15,
      Near (Ias.increment iasVelW (if p = 0 then 1 else 0) (Ias.sweep iasRR iasC iasD (Ias.samples iasH (fun s => s ^ p)) [0, 0, 0, 0, 0, 0, 0]))
        (1 / ((p : Rat) + 1)) tolIAS) ∧
    (∀ p ∈ List.range 14,
      Near (Ias.increment iasPosW (if p = 0 then 1 else 0) (Ias.sweep iasRR iasC iasD (Ias.samples iasH (fun s => s ^ p)) [0, 0, 0, 0, 0, 0, 0]))
        (1 / (((p : Rat) + 1) * ((p : Rat) + 2))) tolIAS) ∧
    ¬ Near (Ias.increment iasVelW 0 (Ias.sweep iasRR iasC iasD (Ias.samples iasH (fun s => s ^ 15)) [0, 0, 0, 0, 0, 0, 0])) (1 / 16) (1 / 10^9) ∧
    ¬ Near (Ias.increment iasPosW 0 (Ias.sweep iasRR iasC iasD (Ias.samples iasH (fun s => s ^ 14)) [0, 0, 0, 0, 0, 0, 0])) (1 / (15 * 16)) (1 / 10^9) :=
  Ias15Sweep.step_exact

/-! ### LEAPFROG -/
theorem c01_leapfrog : leapfrogStep = [⟨0, 1/2, 1⟩, ⟨2, 0, 0⟩, ⟨1, 1, 0⟩, ⟨0, 1/2, 1⟩] ∧
    (Consistent leapfrogStep 0 ∧ Palindrome leapfrogStep ∧ Fresh leapfrogStep ∧
      WordOrder leapfrogStep [2, 2, 2] 0 0 ∧ ¬ WordOrder leapfrogStep [3, 3, 2] 0 (1/100)) :=
  ⟨Leapfrog.schedule, Leapfrog.properties⟩

/-! ### MERCURIUS away from close encounters (both safe modes, both synchronisation states) -/
/-- safe mode: kick ½, jump ½, Kepler + centre of mass 1, jump ½, kick ½: consistent, palindrome, fresh forces, second order -/
theorem c01_mercurius_safe : mercCounts = [("schedules", 7)] ∧
    merc_safe = [⟨2, 0, 0⟩, ⟨1, 1/2, 0⟩, ⟨3, 1/2, 0⟩, ⟨0, 1, 1⟩, ⟨3, 1/2, 0⟩, ⟨2, 0, 0⟩, ⟨1, 1/2, 0⟩] ∧
    (Consistent merc_safe 0 ∧ Palindrome merc_safe ∧ Fresh merc_safe ∧ jumpSum merc_safe = 1 ∧
      Quadrature merc_safe 2 0 ∧ WordOrder merc_safe [2, 2, 2] 0 0 ∧ ¬ WordOrder merc_safe [3, 3, 2] 0 (1/100)) :=
  ⟨Mercurius.counts, Mercurius.safe_schedule, Mercurius.safe_properties⟩
/-- safe_mode = 0: the leading kick is ½ when synchronized and 1 when not (chosen by the *state*, not by the option);
    first step ++ later step ++ synchronize is what two steps + synchronize execute -/
theorem c01_mercurius_unsafe_states : merc_unsafe_first = [⟨2, 0, 0⟩, ⟨1, 1/2, 0⟩, ⟨3, 1/2, 0⟩, ⟨0, 1, 1⟩, ⟨3, 1/2, 0⟩] ∧
    merc_unsafe_next = [⟨2, 0, 0⟩, ⟨1, 1, 0⟩, ⟨3, 1/2, 0⟩, ⟨0, 1, 1⟩, ⟨3, 1/2, 0⟩] ∧
    merc_sync_only = [⟨2, 0, 0⟩, ⟨1, 1/2, 0⟩] ∧
    merc_two_unsync = merc_unsafe_first ++ merc_unsafe_next ++ merc_sync_only ∧
    Fresh merc_unsafe_first ∧ Fresh merc_unsafe_next ∧ Fresh merc_two_unsync := Mercurius.unsafe_states
/-- unsynchronised stepping (also across an intermediate synchronize) = synchronized stepping; safe mode entered in an
    unsynchronised state first completes the pending half kick -/
theorem c01_mercurius_unsync : norm merc_two_unsync = norm (merc_safe ++ merc_safe) ∧
    norm merc_three_unsync_resync = norm (merc_safe ++ merc_safe ++ merc_safe) ∧
    kickSum merc_three_unsync_resync = 3 ∧ driftSum merc_three_unsync_resync = 3 ∧ jumpSum merc_three_unsync_resync = 3 ∧
    merc_safe_from_unsync = merc_sync_only ++ merc_safe := Mercurius.unsync

/-! ### TRACE on its splitting path (encounter checks not interpreted: no pericentre flag, or PARTIAL_BS) -/
/-- all three peri modes, no pericentre flag: kick ½ (own force evaluation), jump ½, Kepler + centre of mass 1, jump ½, kick ½ —
    consistent, palindrome, fresh, jump sum 1, order exactly 2, and the same word as MERCURIUS' safe step -/
theorem c01_trace_splitting_step :
    (tracePeriModes = [("REB_TRACE_PERI_PARTIAL_BS", 0), ("REB_TRACE_PERI_FULL_BS", 1), ("REB_TRACE_PERI_FULL_IAS15", 2)] ∧
      traceStep.map (·.1) = [(0, 0, 0), (0, 0, 1), (0, 1, 0), (0, 1, 1), (1, 0, 0), (1, 0, 1), (2, 0, 0), (2, 0, 1)] ∧
      traceJumpNoop = [(0, false), (1, true)]) ∧
    ∀ pm ∈ [0, 1, 2], ∀ s ∈ traceStep.lookup (pm, 0, 0), s = Trace.dh ∧ Consistent s 0 ∧ Palindrome s ∧ Fresh s ∧
      jumpSum s = 1 ∧ Quadrature s 2 0 ∧ WordOrder s [2, 2, 2] 0 0 ∧ ¬ WordOrder s [3, 3, 2] 0 (1/100) ∧ norm s = norm merc_safe :=
  ⟨Trace.counts, Trace.splitting_step⟩
/-- pericentre flag with PARTIAL_BS: the same scheme without jump steps; a rejected first attempt restores the backup and
    executes exactly the same schedule again -/
theorem c01_trace_pericentre_and_rejection :
    (∀ s ∈ traceStep.lookup (0, 1, 0), s = [⟨2, 0, 0⟩, ⟨1, 1/2, 0⟩, ⟨0, 1, 1⟩, ⟨2, 0, 0⟩, ⟨1, 1/2, 0⟩] ∧
      Consistent s 0 ∧ Palindrome s ∧ Fresh s ∧ WordOrder s [2, 2, 2] 0 0) ∧
    (∀ e ∈ traceStep, e.1.2.2 = 1 → ∀ s0 ∈ traceStep.lookup (e.1.1, e.1.2.1, 0), e.2 = s0 ++ [⟨5, 0, 0⟩] ++ s0) :=
  ⟨Trace.pericentre_partial, Trace.rejected_attempt⟩

/-! ### BS (Gragg–Bulirsch–Stoer): sequence, modified midpoint, Aitken–Neville extrapolation -/
/-- `sequence[k] = 4k+2`, `coeff[k] = (1/sequence[k])²`, 9 rows; and the hand model of `extrapolate` is the linear map the
    translator obtained by executing the source's `extrapolate` on a symbolic table, for every k = 1..8 (rows y1, C, D[0..k]) -/
theorem c01_bs_model_is_source : (bsSequenceLength = 9 ∧ bsSequence = (List.range 9).map Gbs.seq ∧ bsCoeffs = (List.range 9).map Gbs.coeff) ∧
    bsExtrapolate.map (·.1) = [1, 2, 3, 4, 5, 6, 7, 8] ∧
    (∀ e ∈ bsExtrapolate, 1 ≤ e.1 ∧ e.1 ≤ 8 ∧ e.2.length = e.1 + 3 ∧
      Bs.transpose e.2 (e.1 + 1) = (List.range (e.1 + 1)).map (Bs.modelColumn e.1)) :=
  ⟨Bs.sequence_formula, Bs.extrapolate_count, Bs.extrapolate_model⟩
/-- **the algebraic heart of GBS**: the extrapolated value is linear in the modified-midpoint results, and whenever these are a
    polynomial of degree ≤ k in the abscissa h² = (H/n_i)² (any rational coefficients), row k returns the polynomial's value at
    h = 0 — for every row k ≤ 8 the code can reach; the next power is *not* reproduced (sharp) -/
theorem c01_bs_extrapolation_exact :
    (∀ (a : Rat) (x T U : Nat → Rat) (k : Nat), Gbs.extrap x (fun i => T i + a * U i) k = Gbs.extrap x T k + a * Gbs.extrap x U k) ∧
    (∀ k ∈ List.range 9, ∀ a : List Rat, a.length ≤ k + 1 →
      Gbs.extrap Gbs.coeff (fun i => Gbs.polyFrom a 0 (Gbs.coeff i)) k = a.headD 0) ∧
    (∀ k ∈ List.range 9, Gbs.extrap Gbs.coeff (fun i => Gbs.coeff i ^ (k + 1)) k ≠ 0) :=
  ⟨BsLinear.extrap_linear, BsLinear.extrap_exact, fun k hk => (Bs.monomials k hk).2.1⟩
/-- modified midpoint + extrapolation, rows 0..k, integrates y' = (t − c)ᵈ exactly for d ≤ 2k+1 and not for d = 2k+2
    (k ≤ 5, two intervals) — what the search observes on the compiled code with a user ODE -/
theorem c01_bs_quadrature_exact : ∀ k ∈ List.range 6, ∀ p ∈ [((0 : Rat), (1 : Rat), (0 : Rat)), (-3/7, 5/3, 2/9)],
    (∀ d ∈ List.range (2 * k + 2),
      Gbs.gbs (fun t _ => (t - p.2.2) ^ d) p.1 p.2.1 (7/10) k =
        7/10 + ((p.1 + p.2.1 - p.2.2) ^ (d + 1) - (p.1 - p.2.2) ^ (d + 1)) / ((d : Rat) + 1)) ∧
    Gbs.gbs (fun t _ => (t - p.2.2) ^ (2 * k + 2)) p.1 p.2.1 (7/10) k ≠
        7/10 + ((p.1 + p.2.1 - p.2.2) ^ (2 * k + 3) - (p.1 - p.2.2) ^ (2 * k + 3)) / ((2 * k + 2 : Nat) + 1 : Rat) :=
  Bs.quadrature_exact
/-- a state-dependent instance, y' = y on [0, ½]: each further row reduces the error by more than a factor 100 -/
theorem c01_bs_linear_ode_rows : ∀ k ∈ List.range 4,
    let e := fun k => Gbs.gbs (fun _ y => y) 0 (1/2) 1 k - 1648721270700128 / 1000000000000000
    (if e (k+1) < 0 then -(e (k+1)) else e (k+1)) * 100 < (if e k < 0 then -(e k) else e k) := Bs.linear_ode_rows

/-! ### MERCURIUS changeover functions (integrator_mercurius.c:42-79; `L_infinity` uses `exp` and is not modelled) -/
/-- the hand model (RV/Model/Changeover.lean, operation order of the source) equals the three C functions executed by the translator
    at 61 exact rational (d, dcrit) points each -/
theorem c01_changeover_model_is_source : changeover_mercury.length = 61 ∧ changeover_C4.length = 61 ∧ changeover_C5.length = 61 ∧
    (∀ e ∈ changeover_mercury, Changeover.Lmercury e.1.1 e.1.2 = e.2) ∧ (∀ e ∈ changeover_C4, Changeover.LC4 e.1.1 e.1.2 = e.2) ∧
    (∀ e ∈ changeover_C5, Changeover.LC5 e.1.1 e.1.2 = e.2) := ChangeoverT.model_is_source
/-- **for all d and all dcrit > 0** (ℚ): each of L_mercury, L_C4, L_C5 is 0 for d < dcrit/10, 1 for d > dcrit, lies in [0,1],
    is continuous at both joins, and is mirror-symmetric inside the transition (L(d) + L(d') = 1 when y(d') = 1 − y(d)) -/
theorem c01_changeover_properties : ∀ p ∈ [Changeover.pMercury, Changeover.pC4, Changeover.pC5], ∀ d dcrit : Rat, 0 < dcrit →
    ((d < dcrit / 10 → Changeover.changeover p d dcrit = 0) ∧ (dcrit < d → Changeover.changeover p d dcrit = 1) ∧
      (0 ≤ Changeover.changeover p d dcrit ∧ Changeover.changeover p d dcrit ≤ 1) ∧
      Changeover.changeover p (dcrit / 10) dcrit = 0 ∧ Changeover.changeover p dcrit dcrit = 1) ∧
    (∀ d', 0 ≤ Changeover.yOf d dcrit → Changeover.yOf d dcrit ≤ 1 → Changeover.yOf d' dcrit = 1 - Changeover.yOf d dcrit →
      Changeover.changeover p d dcrit + Changeover.changeover p d' dcrit = 1) := by
  intro p hp d dcrit hc
  have hs : ChangeoverAll.SmoothStep p := by
    simp only [List.mem_cons, List.not_mem_nil, or_false] at hp
    rcases hp with rfl | rfl | rfl
    · exact ChangeoverAll.ss_mercury
    · exact ChangeoverAll.ss_c4
    · exact ChangeoverAll.ss_c5
  exact ⟨ChangeoverAll.changeover_properties p hs d dcrit hc, fun d' h0 h1 h => ChangeoverAll.changeover_mirror p hs d d' dcrit h0 h1 h⟩
/-- L_mercury is monotone non-decreasing in the distance for every dcrit > 0 (full strength) -/
theorem c01_changeover_mercury_monotone (d d' dcrit : Rat) (hc : 0 < dcrit) (h : d ≤ d') :
    Changeover.Lmercury d dcrit ≤ Changeover.Lmercury d' dcrit := ChangeoverAll.mercury_changeover_mono d d' dcrit hc h
/-- L_C4 and L_C5 are monotone non-decreasing in the distance for every dcrit > 0 (full strength; the degree-9 / degree-11
    polynomials are monotone on [0,1] because their derivatives over ℝ are 630 y⁴(1−y)⁴ and 2772 y⁵(1−y)⁵ — mean-value theorem,
    `ChangeoverMono.c4R_mono`, `c5R_mono` — and ℚ → ℝ is an order embedding commuting with the source's operation order) -/
theorem c01_changeover_c4_c5_monotone (d d' dcrit : Rat) (hc : 0 < dcrit) (h : d ≤ d') :
    Changeover.LC4 d dcrit ≤ Changeover.LC4 d' dcrit ∧ Changeover.LC5 d dcrit ≤ Changeover.LC5 d' dcrit :=
  ⟨ChangeoverMono.c4_changeover_mono d d' dcrit hc h, ChangeoverMono.c5_changeover_mono d d' dcrit hc h⟩
/-- non-vacuity: strict increase inside the transition zone (dcrit = 1, d = 0.4 → 0.7), both functions -/
example : Changeover.LC4 (4/10) 1 < Changeover.LC4 (7/10) 1 ∧ Changeover.LC5 (4/10) 1 < Changeover.LC5 (7/10) 1 ∧
    Changeover.LC4 (4/10) 1 = 2851/19683 := by decide +kernel
/-- inside the transition zone the changeover is a strict interpolation (no plateau): for `dcrit/10 ≤ d < d' ≤ dcrit` all three
    polynomial changeover functions strictly increase, so a pair moving inward always shifts weight from the Kepler to the
    interaction part (derivatives 30 y²(1−y)², 630 y⁴(1−y)⁴, 2772 y⁵(1−y)⁵ are positive on (0,1)) -/
theorem c01_changeover_strict_in_zone (d d' dcrit : Rat) (hc : 0 < dcrit) (hlo : dcrit / 10 ≤ d) (h : d < d') (hhi : d' ≤ dcrit) :
    Changeover.Lmercury d dcrit < Changeover.Lmercury d' dcrit ∧ Changeover.LC4 d dcrit < Changeover.LC4 d' dcrit ∧
    Changeover.LC5 d dcrit < Changeover.LC5 d' dcrit := ChangeoverMono.all_strict d d' dcrit hc hlo h hhi
/-- non-vacuity: the zone hypotheses are satisfiable (dcrit = 7/3, d = 1, d' = 2) -/
example : (0 : Rat) < 7/3 ∧ (7/3 : Rat) / 10 ≤ 1 ∧ (1 : Rat) < 2 ∧ (2 : Rat) ≤ 7/3 := by decide +kernel
/-- smoothness at the joins: the three polynomials (cast to ℝ, same operation order as the source) have derivatives
    `30 y²(1−y)²`, `630 y⁴(1−y)⁴`, `2772 y⁵(1−y)⁵` at every real `y` — zeros of multiplicity 2, 4, 5 at both ends of the
    transition, so the changeover joins the constant pieces 0 and 1 with 2, 4, 5 vanishing derivatives (no force jump at
    `0.1·dcrit` or `dcrit`) -/
theorem c01_changeover_derivative_form :
    (∀ a : Rat, ((Changeover.pMercury a : Rat) : ℝ) = ChangeoverMono.mR a ∧ ((Changeover.pC4 a : Rat) : ℝ) = ChangeoverMono.c4R a ∧
      ((Changeover.pC5 a : Rat) : ℝ) = ChangeoverMono.c5R a) ∧
    ∀ y : ℝ, HasDerivAt ChangeoverMono.mR (30 * y^2 * (1-y)^2) y ∧ HasDerivAt ChangeoverMono.c4R (630 * y^4 * (1-y)^4) y ∧
      HasDerivAt ChangeoverMono.c5R (2772 * y^5 * (1-y)^5) y :=
  ⟨fun a => ⟨ChangeoverMono.m_cast a, ChangeoverMono.c4_cast a, ChangeoverMono.c5_cast a⟩,
   fun y => ⟨ChangeoverMono.m_hasDeriv y, ChangeoverMono.c4_hasDeriv y, ChangeoverMono.c5_hasDeriv y⟩⟩
/-- grid form of the same statement (kept: it is decided by the kernel on the translator-derived table `ChangeoverT`, independent of
    the real-analysis argument above): monotone on a grid of 251 distances across the transition -/
theorem c01_changeover_monotone_partial : ∀ L ∈ [Changeover.Lmercury, Changeover.LC4, Changeover.LC5], ∀ k ∈ List.range 250,
    L ((k : Rat) / 200 * (7/3)) (7/3) ≤ L (((k : Rat) + 1) / 200 * (7/3)) (7/3) := ChangeoverT.monotone_on_grid
/-- non-vacuity: the hypotheses are satisfiable inside the transition zone (d = 0.4, d' = 0.7, dcrit = 1: y = 1/3, y' = 2/3) -/
example : (0 : Rat) < 1 ∧ 0 ≤ Changeover.yOf (4/10) 1 ∧ Changeover.yOf (4/10) 1 ≤ 1 ∧ Changeover.yOf (7/10) 1 = 1 - Changeover.yOf (4/10) 1 ∧
    Changeover.Lmercury (4/10) 1 = 17/81 := by decide +kernel

/-! ### the abstract lemmas (any monoid, any flows, any step size) -/
open Flow in
/-- running a schedule backwards with negated times undoes it; a palindromic schedule satisfies `S(−h) ∘ S(h) = id` -/
theorem c01_palindrome_reversible {M ι K : Type} [Monoid M] [AddGroup K] (φ : ι → K → M) (hφ : Flows φ) (S : List (ι × K)) :
    evalS φ (negS S).reverse * evalS φ S = 1 ∧ (S.reverse = S → evalS φ (negS S) * evalS φ S = 1) :=
  ⟨reverse_neg_cancel φ hφ S, palindrome_reversible φ hφ S⟩
open Flow in
/-- normalising a schedule (merging neighbours, dropping identities and force evaluations) does not change its map, and every
    generated schedule that is a palindrome is time-reversible as a word in any flows, for every step size -/
theorem c01_schedules_reversible {M : Type} [Monoid M] (φ : Nat → (Rat × Rat) → M) (hφ : Flows φ) (s : List Op) (h : Rat) :
    evalS φ (timesOf h (norm s)) = evalS φ (timesOf h (raw s)) ∧
    (Palindrome s → evalS φ (timesOf (-h) (norm s)) * evalS φ (timesOf h (norm s)) = 1) :=
  ⟨norm_sound φ hφ h s, fun hs => palindrome_step_reversible φ hφ s hs h⟩
open Flow in
/-- drift and kick are exact flows on phase space (additive in the time) for an arbitrary force field, so every palindromic
    generated schedule is reversible as a map of positions and velocities -/
theorem c01_drift_kick_exact_flows {V : Type} [AddCommGroup V] [Module Rat V] (a g : V → V) :
    (∀ σ τ (s : V × V), drift σ (drift τ s) = drift (σ + τ) s) ∧ (∀ s : V × V, drift 0 s = s) ∧
    (∀ σ τ (s : V × V), kick a g σ (kick a g τ s) = kick a g (σ + τ) s) ∧ (∀ s : V × V, kick a g 0 s = s) ∧
    (∀ (s : List Op), Palindrome s → ∀ (h : Rat) (x : V × V),
      (evalS (phaseFlow a g) (timesOf (-h) (norm s)) * evalS (phaseFlow a g) (timesOf h (norm s))) x = x) :=
  ⟨drift_add, drift_zero, kick_add a g, kick_zero a g, fun s hs h x => phase_space_reversible a g s hs h x⟩

/-- non-vacuity: the hypotheses of the abstract lemmas are satisfiable by the real thing — SABA(10,6,4), the default
    integrator type, is a palindrome of 17 operators and the phase-space flows are flows -/
example : Palindrome sabaStep_REB_SABA_10_6_4 ∧ (norm sabaStep_REB_SABA_10_6_4).length = 17 := by decide +kernel
example : Flow.Flows (Flow.phaseFlow (V := Rat) (fun x => -x) (fun x => x)) := Flow.phaseFlow_flows _ _
end RV.C01.Props
