import RV.Proofs.GravityComp
import RV.Proofs.GravityTree
import RV.Proofs.GravityTreeData
import RV.Proofs.GravityEnc
import RV.Proofs.GravityTrace
import RV.Proofs.GravityJacobi
import RV.Proofs.GravityShear
import RV.Proofs.WHIdentity
import RV.Proofs.Changeover
/-
  C02 — every force routine computes the specified pairwise Newtonian sum.

  Statements are about the loop nests in RV/Model/Gravity.lean (the same definitions the
  driver `drv_c02` runs on IEEE doubles against `reb_calculate_acceleration`),
  instantiated at an arbitrary field `K` (exact arithmetic).  Particle sets are
  `mkPs N m x` — the array of `N` bodies with masses `m i` and positions `x i`; every
  array is of this form (`c02_every_array`).  The scalar kernel (`G/r³` as a function of
  `r² + ε²`, times the routine's weight) is an arbitrary function: nothing about `sqrt`
  is used.  Quantification: every N, N_active ≤ N, testparticle_type, gravity_ignore_terms
  ∈ {0,1,2}, ghost-box counts, masses (zero allowed), positions.
-/
set_option linter.unusedTactic false
set_option linter.unreachableTactic false
set_option linter.unnecessarySeqFocus false
set_option linter.unusedVariables false
set_option linter.unusedSectionVars false
namespace RV.Gravity
open RV
variable {K : Type} [Field K]

/-- every particle array is `mkPs` of its size and accessor functions: the theorems below
    quantify over all arrays -/
theorem c02_every_array (ps : Array (Body K)) :
    ∃ (m : Nat → K) (x : Nat → V3 K), ps = mkPs ps.size m x :=
  ⟨_, _, mkPs_surj ps⟩

/-- the declarative pair term: `force … gb k j = -(pref(|d|²+ε²) · m_j) · d`, `d = gb + x_k - x_j` -/
theorem c02_force_def (pref : K → Nat → Nat → K) (soft2 : K) (m : Nat → K) (x : Nat → V3 K)
    (gb : V3 K) (k j : Nat) :
    force pref soft2 m x gb k j
      = (-(pref (((gb + x k) - x j).x * ((gb + x k) - x j).x + ((gb + x k) - x j).y * ((gb + x k) - x j).y
            + ((gb + x k) - x j).z * ((gb + x k) - x j).z + soft2) k j) * m j) • ((gb + x k) - x j) := rfl

/-! ### BASIC -/

/-- BASIC (gravity.c:139-247), with the ghost-box triple loop of boundary.c: the acceleration
    of every particle `k` is the sum over ghost boxes and over the *declarative* source set
    `Src` (active `j ≠ k`; test particles `j` as well when `testparticle_type = 1` and `k` is
    active; minus the pairs named by `gravity_ignore_terms`) of the softened pair term.
    An off-by-one in `starti`, `startj`, `MAX(_N_active,starti)` or an inner bound makes
    `src_iff` (and hence this theorem) fail. -/
theorem c02_basic_sources (kern : K → K) (cfg : Cfg K) (shifted : Bool) (bs : V3 K)
    (nx ny nz N : Nat) (m : Nat → K) (x : Nat → V3 K) (hNa : cfg.nActive ≤ N)
    (hig : cfg.ignore ≤ 2) (k : Nat) (hk : k < N) :
    (accBasic (fun s _ _ => kern s) cfg (ghostList shifted bs nx ny nz) (mkPs N m x))[k]?
      = some (((ghostList shifted bs nx ny nz).map fun gb => ∑ j ∈ Finset.range N,
          if Src cfg.nActive cfg.tpType cfg.ignore k j
          then force (fun s _ _ => kern s) (cfg.soft * cfg.soft) m x gb k j else 0).sum) :=
  accBasic_declarative _ (fun _ _ _ => rfl) cfg _ (ghostList_symm shifted bs nx ny nz) m x hNa hig hk

/-- BASIC with the ghost boxes of REB_BOUNDARY_SHEAR (boundary.c:161-184: column `i` is displaced
    in y by `vy·t`, `vy = -1.5·i·OMEGA·Lx`, wrapped by three different `fmod` formulas for `i==0`,
    `i>0`, `i<0`): the same declarative sum over the sheared ghost list.  Needs only that C `fmod`
    is odd in the dividend and `fmod(0,b)=0`; a wrap formula that treats `+i` and `-i` columns
    differently breaks `ghostListShear_symm`. -/
theorem c02_basic_sources_shear (kern : K → K) (cfg : Cfg K) (fmod : K → K → K)
    (hodd : ∀ a b, fmod (-a) b = -fmod a b) (h0 : ∀ b, fmod 0 b = 0) (bs : V3 K) (omega t : K)
    (nx ny nz N : Nat) (m : Nat → K) (x : Nat → V3 K) (hNa : cfg.nActive ≤ N)
    (hig : cfg.ignore ≤ 2) (k : Nat) (hk : k < N) :
    (accBasic (fun s _ _ => kern s) cfg (ghostListShear fmod bs omega t nx ny nz) (mkPs N m x))[k]?
      = some (((ghostListShear fmod bs omega t nx ny nz).map fun gb => ∑ j ∈ Finset.range N,
          if Src cfg.nActive cfg.tpType cfg.ignore k j
          then force (fun s _ _ => kern s) (cfg.soft * cfg.soft) m x gb k j else 0).sum) :=
  accBasic_declarative _ (fun _ _ _ => rfl) cfg _ (ghostListShear_symm fmod hodd h0 bs omega t nx ny nz) m x hNa hig hk

/-- without ghost boxes the ghost list is the single zero shift -/
theorem c02_no_ghosts (shifted : Bool) (bs : V3 K) : ghostList shifted bs 0 0 0 = [0] :=
  ghostList_zero shifted bs

/-- Newton's third law for BASIC: if every particle is active the mass-weighted accelerations
    sum to zero — for every kernel, every ghost list, every `gravity_ignore_terms`. -/
theorem c02_basic_newton3 (pref : K → Nat → Nat → K) (cfg : Cfg K) (ghosts : List (V3 K)) (N : Nat)
    (m : Nat → K) (x : Nat → V3 K) (hall : cfg.nActive = N) (a : Nat → V3 K)
    (ha : ∀ k, k < N → (accBasic pref cfg ghosts (mkPs N m x))[k]? = some (a k)) :
    ∑ k ∈ Finset.range N, m k • a k = 0 := by
  have e : ∀ k ∈ Finset.range N, m k • a k
      = m k • ((ghosts.map fun gb => boxC pref cfg N m x gb k).sum) := by
    intro k hk
    have hk' := Finset.mem_range.mp hk
    have h1 := ha k hk'
    rw [accBasic_get pref cfg ghosts m x (by omega) hk'] at h1
    rw [Option.some.inj h1]
  rw [Finset.sum_congr rfl e]
  apply sum_smul_list N (fun k v => m k • v) (by simp) (by simp [smul_add])
  intro gb _
  apply boxC_allactive (fun k v => m k • v) (by simp) (by simp [smul_add]) pref cfg m x gb hall
  intro i j hi hj
  exact pairC_balanced pref _ m x gb hi hj

/-- total torque for BASIC: every particle active and no ghost shift ⇒ `Σ m_k x_k × a_k = 0` -/
theorem c02_basic_torque (pref : K → Nat → Nat → K) (cfg : Cfg K) (N : Nat)
    (m : Nat → K) (x : Nat → V3 K) (hall : cfg.nActive = N) (a : Nat → V3 K)
    (ha : ∀ k, k < N → (accBasic pref cfg [0] (mkPs N m x))[k]? = some (a k)) :
    ∑ k ∈ Finset.range N, m k • V3.cross (x k) (a k) = 0 := by
  have e : ∀ k ∈ Finset.range N, m k • V3.cross (x k) (a k)
      = m k • V3.cross (x k) ((([0] : List (V3 K)).map fun gb => boxC pref cfg N m x gb k).sum) := by
    intro k hk
    have hk' := Finset.mem_range.mp hk
    have h1 := ha k hk'
    rw [accBasic_get pref cfg [0] m x (by omega) hk'] at h1
    rw [Option.some.inj h1]
  rw [Finset.sum_congr rfl e]
  apply sum_smul_list N (fun k v => m k • V3.cross (x k) v) (by simp [V3.cross_zero])
    (by simp [V3.cross_add, smul_add])
  intro gb hgb
  have : gb = 0 := by simpa using hgb
  subst this
  apply boxC_allactive (fun k v => m k • V3.cross (x k) v) (by simp [V3.cross_zero])
    (by simp [V3.cross_add, smul_add]) pref cfg m x 0 hall
  intro i j hi hj
  exact pairC_torque pref _ m x hi hj

/-! ### COMPENSATED -/

/-- COMPENSATED (gravity.c:248-488): the Kahan-compensated loops (upper-triangle nest with
    `continue` tests, test-particle nest) compute, in exact arithmetic, the sum over the same
    declarative source set as BASIC without ghost boxes. -/
theorem c02_compensated_sources (kern : K → K) (cfg : Cfg K) (N : Nat) (m : Nat → K)
    (x : Nat → V3 K) (hNa : cfg.nActive ≤ N) (hig : cfg.ignore ≤ 2) (k : Nat) (hk : k < N) :
    (accComp kern cfg (mkPs N m x))[k]?
      = some (∑ j ∈ Finset.range N, if Src cfg.nActive cfg.tpType cfg.ignore k j
          then force (fun s _ _ => kern s) (cfg.soft * cfg.soft) m x 0 k j else 0) := by
  rw [accComp_get kern cfg m x hNa hk, compTot_declarative kern cfg m x hNa hig hk]

/-- `accCompensated = accBasic` in exact arithmetic: every compensation term vanishes
    identically and both loop nests reach the same pairs. -/
theorem c02_compensated_eq_basic (kern : K → K) (cfg : Cfg K) (N : Nat) (m : Nat → K)
    (x : Nat → V3 K) (hNa : cfg.nActive ≤ N) (hig : cfg.ignore ≤ 2) (k : Nat) (hk : k < N) :
    (accComp kern cfg (mkPs N m x))[k]?
      = (accBasic (fun s _ _ => kern s) cfg [0] (mkPs N m x))[k]? := by
  rw [c02_compensated_sources kern cfg N m x hNa hig k hk,
    accBasic_declarative _ (fun _ _ _ => rfl) cfg [0] (by intro G; simp) m x hNa hig hk]
  simp

/-! ### JACOBI -/

/-- REB_GRAVITY_JACOBI (gravity.c:81-138), ∀ N, ∀ N_active: whatever the accelerations held
    before, slot `k` ends up with (a) the direct Newtonian sum over the source set
    `Src N_active true 1`: every `j ≠ k` such that `j` or `k` is active (test particles do not
    attract each other, but — in this routine — attract and are attracted by active particles
    whatever testparticle_type says), minus the pair {0,1}; no softening, no ghost boxes — plus
    (b) the Jacobi terms `G·dQ/|Q_j|³·Q_j` of the outer iterations `j > 1`, `j ≥ k`, where
    `Q_j = x_j − R_j/M_j`, `R_j = Σ_{i<j} m_i x_i`, `M_j = Σ_{i<j} m_i` over *all* particles
    (`dQ = −m_j` for `k < j`, `M_j` for `k = j`). -/
theorem c02_jacobi_sources (kern : K → K) (G : K) (sqrt : K → K) (Na N : Nat) (m : Nat → K)
    (x : Nat → V3 K) (init : Acc K) (hinit : init.size = N) (k : Nat) (hk : k < N) :
    (accJacobi kern G sqrt Na (mkPs N m x) init)[k]?
      = some ((∑ j ∈ Finset.range N, if Src Na true 1 k j
                then force (fun s _ _ => kern s) 0 m x 0 k j else 0)
          + (∑ j ∈ Finset.range N, if 1 < j ∧ k ≤ j
                then jacTerm G sqrt m x (Rn m x j) (Mn m j) j k else 0)) :=
  accJacobi_get kern G sqrt Na m x init hinit hk

/-- the Jacobi terms carry no net momentum: `Σ_k m_k · (Jacobi terms of k) = 0`
    (because `M_j` is exactly the mass of the particles below `j`) -/
theorem c02_jacobi_terms_balanced (G : K) (sqrt : K → K) (N : Nat) (m : Nat → K) (x : Nat → V3 K) :
    ∑ k ∈ Finset.range N, m k • (∑ j ∈ Finset.range N, if 1 < j ∧ k ≤ j
        then jacTerm G sqrt m x (Rn m x j) (Mn m j) j k else 0) = 0 := by
  simp only [Finset.smul_sum]
  rw [Finset.sum_comm]
  apply Finset.sum_eq_zero
  intro j hj
  have hj' := Finset.mem_range.mp hj
  by_cases h1 : 1 < j
  · simp only [h1, true_and, smul_ite, smul_zero]
    rw [← Finset.sum_filter]
    have hf : (Finset.range N).filter (fun k => k ≤ j) = Finset.range (j + 1) := by
      ext k; simp; omega
    rw [hf, Finset.sum_range_succ]
    have e : ∀ k ∈ Finset.range j, m k • jacTerm G sqrt m x (Rn m x j) (Mn m j) j k
        = m k • jacTerm G sqrt m x (Rn m x j) (Mn m j) j 0 := by
      intro k hk
      have hk' := Finset.mem_range.mp hk
      simp only [jacTerm, hk', show 0 < j by omega, if_true]
    rw [Finset.sum_congr rfl e, ← Finset.sum_smul]
    simp only [jacTerm, show 0 < j by omega, if_true, lt_irrefl, if_false]
    rw [show (∑ i ∈ Finset.range j, m i) = Mn m j from rfl, smul_smul, smul_smul, ← add_smul]
    convert zero_smul K _ using 2
    ring
  · simp [h1]

/-! ### the Wisdom–Holman identity: the two ways WHFast computes the same kick -/

open RV.WH in
/-- Jacobi coordinates depend only on the bodies up to the slot (for slots `i ≥ 1`) -/
theorem c02_jacV_congr (N : Nat) (m : Nat → K) (f g : Nat → V3 K) (i : Nat) (h1 : 1 ≤ i)
    (h : ∀ k, k ≤ i → f k = g k) : jacV N m f i = jacV N m g i := by
  have hne : i ≠ 0 := by omega
  simp only [jacV, hne, if_false, wsumV]
  rw [h i (le_refl i)]
  congr 2
  apply Finset.sum_congr rfl
  intro k hk
  have := Finset.mem_range.mp hk
  rw [h k (by omega)]

open RV.WH in
/-- **Wisdom–Holman Jacobi-term identity, for every N.**  Push the Jacobi terms that
    REB_GRAVITY_JACOBI adds to the inertial accelerations (second sum of `c02_jacobi_sources`)
    through `inertial_to_jacobi_acc`: Jacobi body `i ≥ 2` receives exactly `η_i · G/|x'_i|³ · x'_i`
    (`η_i = Σ_{k≤i} m_k`, `x'_i` its Jacobi position) — the term `reb_whfast_interaction_step` adds
    itself when `gravity ≠ JACOBI` — and body 1 receives nothing.  (The centre-of-mass slot receives
    nothing either: `c02_jacobi_terms_balanced`.) -/
theorem c02_wh_identity (G : K) (sqrt : K → K) (N : Nat) (m : Nat → K) (x : Nat → V3 K)
    (heta : ∀ i, i < N → eta m i ≠ 0) (i : Nat) (h1 : 1 ≤ i) (hi : i < N) :
    jacV N m (fun k => ∑ j ∈ Finset.range N, if 1 < j ∧ k ≤ j
        then jacTerm G sqrt m x (Rn m x j) (Mn m j) j k else 0) i
      = if 2 ≤ i then eta m i • uJ G sqrt N m x i else 0 := by
  rw [c02_jacV_congr N m _ (Jt N m (uJ G sqrt N m x)) i h1
    (fun k hk => jacobi_terms_eq_Jt G sqrt N m x k (by omega))]
  exact jac_Jt N m (uJ G sqrt N m x) heta i h1 hi

open RV.WH in
/-- hence the two kicks agree: the Jacobi acceleration of body `i` computed from the JACOBI routine
    equals the one computed from BASIC with `gravity_ignore_terms = 1` (every particle active, no
    softening) plus the interaction step's own Jacobi term — for every N. -/
theorem c02_wh_two_kicks (kern : K → K) (G : K) (sqrt : K → K) (N : Nat) (m : Nat → K)
    (x : Nat → V3 K) (heta : ∀ i, i < N → eta m i ≠ 0) (init : Acc K) (hinit : init.size = N)
    (tp : Bool) (aJ aB : Nat → V3 K)
    (hJ : ∀ k, k < N → (accJacobi kern G sqrt N (mkPs N m x) init)[k]? = some (aJ k))
    (hB : ∀ k, k < N → (accBasic (fun s _ _ => kern s) ⟨N, tp, 1, 0⟩ [0] (mkPs N m x))[k]? = some (aB k))
    (i : Nat) (h1 : 1 ≤ i) (hi : i < N) :
    jacV N m aJ i = jacV N m aB i + (if 2 ≤ i then eta m i • uJ G sqrt N m x i else 0) := by
  have hk : ∀ k, k ≤ i → aJ k = aB k + ∑ j ∈ Finset.range N, if 1 < j ∧ k ≤ j
      then jacTerm G sqrt m x (Rn m x j) (Mn m j) j k else 0 := by
    intro k hk
    have hkN : k < N := by omega
    have e1 := hJ k hkN
    rw [c02_jacobi_sources kern G sqrt N N m x init hinit k hkN] at e1
    have e2 := hB k hkN
    rw [accBasic_declarative _ (fun _ _ _ => rfl) ⟨N, tp, 1, 0⟩ [0] (by intro G; simp) m x (le_refl N) (by simp) hkN] at e2
    rw [← Option.some.inj e1, ← Option.some.inj e2]
    simp only [List.map_cons, List.map_nil, List.sum_cons, List.sum_nil, add_zero, mul_zero]
    congr 1
    apply Finset.sum_congr rfl
    intro j hj
    have hj' := Finset.mem_range.mp hj
    have : Src N true 1 k j ↔ Src N tp 1 k j := by unfold Src; simp [hj', hkN]
    simp only [this]
  rw [c02_jacV_congr N m aJ _ i h1 hk, ← c02_wh_identity G sqrt N m x heta i h1 hi]
  have hne : i ≠ 0 := by omega
  simp only [jacV, hne, if_false, wsumV, smul_add, Finset.sum_add_distrib]
  abel

/-- the interaction step's own coefficient `rj3iM = rji·rj2i·G·η` (`rj2i = 1/|x'|²`, `rji = sqrt(rj2i)`,
    integrator_whfast.c:378-380, softening 0) is `η·G/|x'|³`, given the two laws of `sqrt` it needs -/
theorem c02_wh_interaction_coefficient (G etai s : K) (sqrt : K → K) (hs : sqrt s * sqrt s = s)
    (hinv : sqrt (1 / s) = 1 / sqrt s) (hne : sqrt s ≠ 0) :
    sqrt (1 / s) * (1 / s) * G * etai = etai * (G / (sqrt s * sqrt s * sqrt s)) := by
  have e : (1 : K) / s = 1 / (sqrt s * sqrt s) := by rw [hs]
  rw [hinv, e]
  field_simp

/-! ### MERCURIUS / TRACE -/

/-- MERCURIUS mode 0 is the BASIC loop nest with `gravity_ignore_terms = 2` and no ghost box -/
theorem c02_mercurius_mode0_is_basic (pref : K → Nat → Nat → K) (cfg : Cfg K) (ps : Array (Body K)) :
    accMerc0 pref cfg ps = accBasic pref { cfg with ignore := 2 } [V3.zero] ps := rfl

/-- MERCURIUS mode 0 (gravity.c:523-616): planet-planet and planet-test-particle pairs only
    (no pair contains particle 0), each weighted by the changeover value carried by `pref`
    (any weight symmetric in the pair, e.g. `G·L(r, max(dcrit_i,dcrit_j))/r³`). -/
theorem c02_mercurius_mode0_sources (pref : K → Nat → Nat → K)
    (hsym : ∀ s i j, pref s i j = pref s j i) (cfg : Cfg K) (N : Nat) (m : Nat → K)
    (x : Nat → V3 K) (hNa : cfg.nActive ≤ N) (k : Nat) (hk : k < N) :
    (accMerc0 pref cfg (mkPs N m x))[k]?
      = some (∑ j ∈ Finset.range N, if Src cfg.nActive cfg.tpType 2 k j
          then force pref (cfg.soft * cfg.soft) m x 0 k j else 0) := by
  rw [c02_mercurius_mode0_is_basic]
  have := accBasic_declarative pref hsym { cfg with ignore := 2 } [0] (by intro G; simp) m x
    (by simpa using hNa) (by simp) hk
  simpa using this

/-- the two MERCURIUS prefactors of one pair add up to the full Newtonian prefactor, for
    every changeover function: only `L + (1 - L) = 1` is used. -/
theorem c02_mercurius_pair_split (sqrt : K → K) (gt : K → K → Bool) (L : K → K → K) (G : K)
    (dcrit : Array K) (s : K) (i j : Nat) (hi : i < dcrit.size) (hj : j < dcrit.size) :
    prefMerc0 sqrt gt L G dcrit s i j + prefMerc1 sqrt gt L G dcrit s i j = kernCube sqrt G s := by
  simp only [prefMerc0, prefMerc1, kernCube, Array.getElem?_eq_getElem hi, Array.getElem?_eq_getElem hj,
    sc_hmul, sc_hdiv, sc_hsub, sc_one]
  rw [← add_div]
  congr 1
  ring

/-- the encounter routines — MERCURIUS mode 1 (gravity.c:617-748) and TRACE Kepler mode
    (gravity.c:848-983): for every particle `map[i0]` of the encounter set (`1 ≤ i0 < encounter_N`,
    any injective `encounter_map`), the result is its star term plus the BASIC{ignore=2} sum of the
    *sub-system re-indexed by the map* (`encounter_N` bodies, `encounter_N_active` active), with the
    routine's pair weight (`prefEnc`: `G(1-L)/r³`, or `G/r³` masked by `current_Ks`).  Particles
    outside the encounter set contribute nothing and receive nothing (`c02_encounter_untouched`). -/
theorem c02_encounter_sources (pref : K → Nat → Nat → K) (starPref : K → K) (skip : Nat → Nat → Bool)
    (soft : K) (tp : Bool) (N L : Nat) (m : Nat → K) (x : Nat → V3 K) (mp : Nat → Nat)
    (encN encNa : Nat) (init : Acc K) (hinit : init.size = N) (hL : encN ≤ L) (hNa : encNa ≤ encN)
    (hmp : ∀ i, i < encN → mp i < N)
    (hinj : ∀ i j, i < encN → j < encN → mp i = mp j → i = j)
    (hsym : ∀ s i j, prefEnc pref skip mp s i j = prefEnc pref skip mp s j i)
    (i0 : Nat) (h1 : 1 ≤ i0) (h2 : i0 < encN) :
    (accEnc pref starPref skip soft tp (mkPs N m x) (mkMap L mp) encN encNa init)[mp i0]?
      = some (starV starPref (soft * soft) x (mp i0)
          + ∑ j ∈ Finset.range encN, if Src encNa tp 2 i0 j
              then force (prefEnc pref skip mp) (soft * soft) (fun t => m (mp t)) (fun t => x (mp t)) 0 i0 j
              else 0) := by
  rw [accEnc_eq, additive_encLoops pref skip (soft * soft) tp m x mp encN encNa hL hNa hmp,
    starLoop_get starPref (soft * soft) m x mp _ (by simpa using hinit) encN hL hmp (mp i0)]
  have hex : ∃ i, 1 ≤ i ∧ i < encN ∧ mp i = mp i0 := ⟨i0, h1, h2, rfl⟩
  simp only [hex, if_true, Option.map_some]
  rw [encC_mapped pref skip soft tp m x mp encN encNa hNa hinj h2,
    boxC_declarative (prefEnc pref skip mp) hsym ⟨encNa, tp, 2, soft⟩ _ _ hNa (by simp) h2]

/-- slots of particles that are not in the encounter set keep their previous content
    (slot 0, the star, is set to zero) -/
theorem c02_encounter_untouched (pref : K → Nat → Nat → K) (starPref : K → K) (skip : Nat → Nat → Bool)
    (soft : K) (tp : Bool) (N L : Nat) (m : Nat → K) (x : Nat → V3 K) (mp : Nat → Nat)
    (encN encNa : Nat) (init : Acc K) (hinit : init.size = N) (hL : encN ≤ L) (hNa : encNa ≤ encN)
    (hmp : ∀ i, i < encN → mp i < N) (k : Nat) (hk : ∀ i, 1 ≤ i → i < encN → mp i ≠ k) :
    (accEnc pref starPref skip soft tp (mkPs N m x) (mkMap L mp) encN encNa init)[k]?
      = (init.setIfInBounds 0 V3.zero)[k]? := by
  rw [accEnc_eq, additive_encLoops pref skip (soft * soft) tp m x mp encN encNa hL hNa hmp,
    starLoop_get starPref (soft * soft) m x mp _ (by simpa using hinit) encN hL hmp k]
  have hex : ¬ ∃ i, 1 ≤ i ∧ i < encN ∧ mp i = k := by
    rintro ⟨i, a, b, c⟩; exact hk i a b c
  simp only [hex, if_false]
  have hz : encC pref skip (soft * soft) tp m x mp encN encNa k = 0 := by
    unfold encC
    have z : ∀ (a b : Nat) (d : Nat → Nat) (both : Bool), (∀ i, a ≤ i → 2 ≤ i) →
        (∑ i ∈ Finset.Ico a b, ∑ j ∈ Finset.Ico 1 (d i),
          if skip (mp i) (mp j) = true then 0 else pairC pref (soft * soft) m x 0 both (mp i) (mp j) k)
        = ∑ i ∈ Finset.Ico a b, ∑ j ∈ Finset.Ico 1 (d i),
          if (i < encN ∧ j < encN) then 0 else
            (if skip (mp i) (mp j) = true then 0 else pairC pref (soft * soft) m x 0 both (mp i) (mp j) k) := by
      intro a b d both ha
      apply Finset.sum_congr rfl; intro i hi
      apply Finset.sum_congr rfl; intro j hj
      have hi' := Finset.mem_Ico.mp hi
      have hj' := Finset.mem_Ico.mp hj
      by_cases hb : i < encN ∧ j < encN
      · have := pairC_unmapped pref (soft * soft) m x mp both (hk i (by have := ha i hi'.1; omega) hb.1) (hk j hj'.1 hb.2)
        simp [hb, this]
      · simp [hb]
    rw [z 2 encNa (fun i => i) true (fun i h => h), z (max encNa 2) encN (fun _ => encNa) tp (fun i h => by omega)]
    have e1 : ∀ i ∈ Finset.Ico 2 encNa, ∀ j ∈ Finset.Ico 1 i, (i < encN ∧ j < encN) := by
      intro i hi j hj
      have := Finset.mem_Ico.mp hi; have := Finset.mem_Ico.mp hj; omega
    have e2 : ∀ i ∈ Finset.Ico (max encNa 2) encN, ∀ j ∈ Finset.Ico 1 encNa, (i < encN ∧ j < encN) := by
      intro i hi j hj
      have := Finset.mem_Ico.mp hi; have := Finset.mem_Ico.mp hj; omega
    rw [Finset.sum_eq_zero (fun i hi => Finset.sum_eq_zero (fun j hj => by simp [e1 i hi j hj])),
      Finset.sum_eq_zero (fun i hi => Finset.sum_eq_zero (fun j hj => by simp [e2 i hi j hj])), add_zero]
  rw [hz]
  cases (init.setIfInBounds 0 V3.zero)[k]? <;> simp

/-- MERCURIUS splitting: when every particle is in the encounter set (identity map,
    `encounter_N = N`, `encounter_N_active = N_active`) the WHFast part (mode 0) and the IAS15
    part (mode 1) add up, for every planet `k ≥ 1`, to the star's Kepler term plus the full
    planet-planet force — the BASIC{ignore=2} sum with the plain kernel `G/r³` — for every
    changeover function `L`, every `dcrit`, every `N`, `N_active`, testparticle_type.
    (`hgt`: `MAX(dcrit[i],dcrit[j])` does not depend on the order of the pair.) -/
theorem c02_mercurius_split_full (sqrt : K → K) (gt : K → K → Bool) (Lf : K → K → K) (G : K)
    (dcrit : Array K) (starPref : K → K) (cfg : Cfg K) (N : Nat) (m : Nat → K) (x : Nat → V3 K)
    (init : Acc K) (hinit : init.size = N) (hd : dcrit.size = N) (hNa : cfg.nActive ≤ N)
    (hgt : ∀ a b, cmax gt a b = cmax gt b a)
    (k : Nat) (hk1 : 1 ≤ k) (hk : k < N) (a0 a1 ab : V3 K)
    (h0 : (accMerc0 (prefMerc0 sqrt gt Lf G dcrit) cfg (mkPs N m x))[k]? = some a0)
    (h1 : (accEnc (prefMerc1 sqrt gt Lf G dcrit) starPref (fun _ _ => false) cfg.soft cfg.tpType
            (mkPs N m x) (mkMap N id) N cfg.nActive init)[k]? = some a1)
    (hb : (accBasic (fun s _ _ => kernCube sqrt G s) { cfg with ignore := 2 } [0] (mkPs N m x))[k]? = some ab) :
    a0 + a1 = starV starPref (cfg.soft * cfg.soft) x k + ab := by
  have sym0 : ∀ s i j, prefMerc0 sqrt gt Lf G dcrit s i j = prefMerc0 sqrt gt Lf G dcrit s j i := by
    intro s i j
    unfold prefMerc0
    cases dcrit[i]? <;> cases dcrit[j]? <;> simp [hgt]
  have sym1 : ∀ s i j, prefMerc1 sqrt gt Lf G dcrit s i j = prefMerc1 sqrt gt Lf G dcrit s j i := by
    intro s i j
    unfold prefMerc1
    cases dcrit[i]? <;> cases dcrit[j]? <;> simp [hgt]
  have e1 : prefEnc (prefMerc1 sqrt gt Lf G dcrit) (fun _ _ => false) id = prefMerc1 sqrt gt Lf G dcrit := by
    funext s i j; simp [prefEnc]
  rw [c02_mercurius_mode0_sources _ sym0 cfg N m x hNa k hk] at h0
  have h1' := c02_encounter_sources (prefMerc1 sqrt gt Lf G dcrit) starPref (fun _ _ => false) cfg.soft cfg.tpType
    N N m x id N cfg.nActive init hinit (le_refl N) hNa (fun i hi => hi) (fun i j _ _ h => h)
    (by rw [e1]; exact sym1) k hk1 hk
  simp only [id, e1] at h1'
  rw [h1'] at h1
  have hb' := accBasic_declarative (fun s _ _ => kernCube sqrt G s) (fun _ _ _ => rfl) { cfg with ignore := 2 } [0]
    (by intro G; simp) m x (by simpa using hNa) (by simp) hk
  rw [hb'] at hb
  have := Option.some.inj h0; subst this
  have := Option.some.inj h1; subst this
  have := Option.some.inj hb; subst this
  simp only [List.map_cons, List.map_nil, List.sum_cons, List.sum_nil, add_zero]
  rw [add_comm (∑ j ∈ Finset.range N, _) (_ + _), add_assoc, ← Finset.sum_add_distrib]
  congr 1
  apply Finset.sum_congr rfl
  intro j hj
  have hj' := Finset.mem_range.mp hj
  by_cases hs : Src cfg.nActive cfg.tpType 2 k j
  · simp only [hs, if_true, force, roleI]
    have hsplit := c02_mercurius_pair_split sqrt gt Lf G dcrit (s2 x (cfg.soft * cfg.soft) 0 k j) k j
      (by omega) (by omega)
    rw [← add_smul, ← hsplit]
    congr 1
    ring
  · simp [hs]

/-- TRACE interaction mode (gravity.c:758-847): the BASIC{ignore=2} source set, minus the pairs
    flagged in `current_Ks` (read at `[min*N+max]`, as the loops do): flagged pairs have weight 0 -/
theorem c02_trace_interaction_sources (pref : K → Nat → Nat → K)
    (hsym : ∀ s i j, pref s i j = pref s j i) (ks : Nat → Nat → Bool) (cfg : Cfg K) (N : Nat)
    (m : Nat → K) (x : Nat → V3 K) (hNa : cfg.nActive ≤ N) (k : Nat) (hk : k < N) :
    (accTrace0 pref ks cfg (mkPs N m x))[k]?
      = some (∑ j ∈ Finset.range N, if Src cfg.nActive cfg.tpType 2 k j
          then force (prefMaskS pref ks) (cfg.soft * cfg.soft) m x 0 k j else 0) := by
  rw [accTrace0_get pref ks cfg m x hNa hk,
    boxC_congr _ _ (prefMask_agree pref ks),
    boxC_declarative _ (prefMaskS_symm pref hsym ks) ⟨cfg.nActive, cfg.tpType, 2, cfg.soft⟩ m x hNa (by simp) hk]

/-- TRACE splitting: with every particle in the encounter set (identity map) the interaction
    mode and the Kepler mode add up, for every planet `k ≥ 1`, to the star's Kepler term plus the
    full planet-planet force (BASIC{ignore=2} with the plain kernel) — for every `current_Ks`. -/
theorem c02_trace_split_full (kern : K → K) (ks : Nat → Nat → Bool) (starPref : K → K)
    (cfg : Cfg K) (N : Nat) (m : Nat → K) (x : Nat → V3 K) (init : Acc K) (hinit : init.size = N)
    (hNa : cfg.nActive ≤ N) (k : Nat) (hk1 : 1 ≤ k) (hk : k < N) (a0 a1 ab : V3 K)
    (h0 : (accTrace0 (fun s _ _ => kern s) ks cfg (mkPs N m x))[k]? = some a0)
    (h1 : (accEnc (fun s _ _ => kern s) starPref (fun mi mj => !(ks mj mi)) cfg.soft cfg.tpType
            (mkPs N m x) (mkMap N id) N cfg.nActive init)[k]? = some a1)
    (hb : (accBasic (fun s _ _ => kern s) { cfg with ignore := 2 } [0] (mkPs N m x))[k]? = some ab) :
    a0 + a1 = starV starPref (cfg.soft * cfg.soft) x k + ab := by
  rw [c02_trace_interaction_sources _ (fun _ _ _ => rfl) ks cfg N m x hNa k hk] at h0
  have h1' := accEnc_get_boxC (fun s _ _ => kern s) starPref (fun mi mj => !(ks mj mi)) cfg.soft cfg.tpType
    m x id N cfg.nActive init hinit (le_refl N) hNa (fun i hi => hi) (fun i j _ _ h => h) hk1 hk
  simp only [id] at h1'
  rw [boxC_congr _ _ (prefEnc_keep_agree (fun s _ _ => kern s) ks),
    boxC_declarative _ (prefKeepS_symm _ (fun _ _ _ => rfl) ks) ⟨cfg.nActive, cfg.tpType, 2, cfg.soft⟩ m x hNa (by simp) hk] at h1'
  rw [h1'] at h1
  have hb' := accBasic_declarative (fun s _ _ => kern s) (fun _ _ _ => rfl) { cfg with ignore := 2 } [0]
    (by intro G; simp) m x (by simpa using hNa) (by simp) hk
  rw [hb'] at hb
  have := Option.some.inj h0; subst this
  have := Option.some.inj h1; subst this
  have := Option.some.inj hb; subst this
  simp only [List.map_cons, List.map_nil, List.sum_cons, List.sum_nil, add_zero]
  rw [add_comm (∑ j ∈ Finset.range N, _) (_ + _), add_assoc, ← Finset.sum_add_distrib]
  congr 1
  apply Finset.sum_congr rfl
  intro j hj
  by_cases hs : Src cfg.nActive cfg.tpType 2 k j
  · simp only [hs, if_true, force, roleI, prefKeepS, prefMaskS]
    by_cases hks : ks (min k j) (max k j) = true <;> simp [hks]
  · simp [hs]

/-- the three polynomial changeover functions of integrator_mercurius.c join the clamps
    continuously: value 0 at `y = 0` and 1 at `y = 1` -/
theorem c02_changeover_endpoints :
    polyMercury (0 : K) = 0 ∧ polyMercury (1 : K) = 1 ∧ polyC4 (0 : K) = 0 ∧ polyC4 (1 : K) = 1 ∧
    polyC5 (0 : K) = 0 ∧ polyC5 (1 : K) = 1 := by
  refine ⟨?_, ?_, ?_, ?_, ?_, ?_⟩ <;>
    simp only [polyMercury, polyC4, polyC5, sc_hmul, sc_hadd, sc_hsub, sc_hneg, sc_ofNat] <;> norm_num

/-- derivative factorisation of the three polynomial changeover functions (over ℝ):
    `L' = 30y²(1−y)²`, `630y⁴(1−y)⁴`, `2772y⁵(1−y)⁵` — so the derivative vanishes at both clamps
    (`y = 0`, `y = 1`: the switch is C¹ there) and is non-negative in between. -/
theorem c02_changeover_derivative (y : ℝ) :
    HasDerivAt (fun y : ℝ => polyMercury y) (30 * y ^ 2 * (1 - y) ^ 2) y ∧
    HasDerivAt (fun y : ℝ => polyC4 y) (630 * y ^ 4 * (1 - y) ^ 4) y ∧
    HasDerivAt (fun y : ℝ => polyC5 y) (2772 * y ^ 5 * (1 - y) ^ 5) y :=
  ⟨hasDeriv_mercury y, hasDeriv_C4 y, hasDeriv_C5 y⟩

/-- the changeover functions are monotone on `[0,1]` (between the clamps `L = 0` and `L = 1`) -/
theorem c02_changeover_monotone :
    MonotoneOn (fun y : ℝ => polyMercury y) (Set.Icc 0 1) ∧
    MonotoneOn (fun y : ℝ => polyC4 y) (Set.Icc 0 1) ∧
    MonotoneOn (fun y : ℝ => polyC5 y) (Set.Icc 0 1) := by
  refine ⟨monotone_of_deriv _ _ hasDeriv_mercury (fun y _ _ => by positivity),
    monotone_of_deriv _ _ hasDeriv_C4 (fun y _ _ => by positivity),
    monotone_of_deriv _ _ hasDeriv_C5 (fun y h0 h1 => ?_)⟩
  have : 0 ≤ 1 - y := by linarith
  exact mul_nonneg (mul_nonneg (by norm_num) (pow_nonneg h0.le 5)) (pow_nonneg this 5)

/-! ### TREE at opening angle 0 -/

/-- the Barnes-Hut walk (gravity.c:1444-1487), when every cell it meets passes the opening test,
    visits every leaf exactly once: it adds the sum of the leaf terms over all leaves below the
    roots, skipping only the particle's own local leaf — for every tree shape. -/
theorem c02_tree_walk_visits_every_leaf (starPref : K → K) (gt : K → K → Bool) (soft2 theta2 : K)
    (pt : Nat) (gb : V3 K) (roots : List (Cell K)) (a : V3 K)
    (h : opensAllL gt theta2 gb roots = true) :
    walkList starPref gt soft2 theta2 pt gb roots a
      = a + ((leavesL roots).map (leafTerm starPref soft2 pt gb)).sum :=
  walkList_open starPref gt soft2 theta2 pt gb roots a h

/-- with `opening_angle2 = 0` over an ordered field every cell of non-zero width is opened -/
theorem c02_tree_theta0_opens {F : Type} [Field F] [LinearOrder F] [IsStrictOrderedRing F]
    (gb : V3 F) (roots : List (Cell F)) (h : widthsNZL roots) :
    opensAllL (fun a b => decide (a > b)) 0 gb roots = true :=
  opensAllL_theta0 gb roots h

/-- TREE case of `reb_calculate_acceleration` in the limit of zero opening angle: if the leaves of
    the tree are exactly the particles (each once; established by C15's tree invariants and checked
    on the real tree by the search), the acceleration of every particle is the direct sum over all
    other particles and all ghost boxes — the BASIC declarative sum with every particle active. -/
theorem c02_tree_theta0_direct (starPref : K → K) (gt : K → K → Bool) (soft theta2 : K)
    (shifted : Bool) (bs : V3 K) (nx ny nz : Nat) (roots : List (Cell K)) (N : Nat)
    (m : Nat → K) (x : Nat → V3 K)
    (hopen : ∀ gb ∈ ghostList shifted bs nx ny nz, ∀ i, i < N → opensAllL gt theta2 (gb + x i) roots = true)
    (hleaves : (leavesL roots).Perm ((List.range N).map fun j => (⟨j, false, m j, x j⟩ : Leaf K)))
    (k : Nat) (hk : k < N) :
    (accTree starPref gt soft theta2 (ghostList shifted bs nx ny nz) roots (mkPs N m x))[k]?
      = (accBasic (fun s _ _ => -starPref s) ⟨N, false, 0, soft⟩ (ghostList shifted bs nx ny nz) (mkPs N m x))[k]? := by
  rw [accTree_direct starPref gt soft theta2 _ roots m x hopen hleaves hk,
    accBasic_declarative _ (fun _ _ _ => rfl) ⟨N, false, 0, soft⟩ _ (ghostList_symm shifted bs nx ny nz) m x
      (le_refl N) (by simp) hk]

/-! ### TREE monopole data follow the particle array -/

/-- one pass of `reb_simulation_update_tree_gravity_data_in_cell` (tree.c:217-283) keeps the leaves
    (particle index, remote flag) and makes the mass of every cell the sum of the masses the
    particle array holds NOW for the particles below it — whatever was cached in the cells before
    (a mass assigned after the particle entered the tree is picked up). -/
theorem c02_tree_cell_mass (gt0 : K → Bool) (ps : Array (Body K)) (c : Cell K) :
    (leaves (refreshCell gt0 ps c)).map (fun l => (l.pt, l.remote)) = (leaves c).map (fun l => (l.pt, l.remote))
    ∧ cellM (refreshCell gt0 ps c) = ((leaves c).map (massNow ps)).sum :=
  ⟨refresh_leaves gt0 ps c, refresh_mass gt0 ps c⟩

/-- … and, where every non-leaf cell passes the `m_tot > 0` test, mass × centre of mass of every cell
    is the sum of current mass × current position of the particles below it. -/
theorem c02_tree_cell_com (gt0 : K → Bool) (hgt : ∀ m, gt0 m = true → m ≠ 0) (ps : Array (Body K))
    (c : Cell K) (h : nodesPos gt0 (refreshCell gt0 ps c)) :
    cellM (refreshCell gt0 ps c) • cellCom (refreshCell gt0 ps c)
      = ((leaves c).map fun l => massNow ps l • posNow ps l).sum :=
  refresh_moment gt0 hgt ps c h

/-! ### non-vacuity: a concrete 4-body configuration over ℚ with one test particle, a
    zero-mass active body, gravity_ignore_terms = 1 and one ghost ring meets every hypothesis;
    the source set is neither empty nor full. -/
example : (⟨3, true, 1, (1 : ℚ) / 10⟩ : Cfg ℚ).nActive ≤ 4 ∧ (⟨3, true, 1, (1 : ℚ) / 10⟩ : Cfg ℚ).ignore ≤ 2
    ∧ Src 3 true 1 2 3 ∧ ¬ Src 3 true 1 0 1 ∧ ¬ Src 3 false 1 2 3 ∧ Src 3 true 1 3 0 := by
  refine ⟨by decide, by decide, ?_, ?_, ?_, ?_⟩ <;> unfold Src <;> decide

end RV.Gravity
