import RV.Proofs.Field
import RV.Model.Gravity
