import RV.Proofs.GravityLaws
/-
  C02 — every force routine computes the specified pairwise Newtonian sum.

  Statements are about the loop nests in RV/Model/Gravity.lean (the same definitions the
  driver `drv_c02` runs on IEEE doubles against `reb_calculate_acceleration`),
  instantiated at an arbitrary field `K` (exact arithmetic).  Particle sets are
  `mkPs N m x` — the array of `N` bodies with masses `m i` and positions `x i`; every
  array is of this form (`c02_every_array`).  The scalar kernel (`G/r³` as a function of
  `r² + ε²`, times the routine's weight) is an arbitrary function: nothing about `sqrt`
  is used.  Quantification: every N, N_active ≤ N, testparticle_type, gravity_ignore_terms
  ∈ {0,1,2}, ghost-box counts, masses (zero allowed), positions.
-/
set_option linter.unusedTactic false
set_option linter.unreachableTactic false
set_option linter.unnecessarySeqFocus false
set_option linter.unusedVariables false
set_option linter.unusedSectionVars false
namespace RV.Gravity
open RV
variable {K : Type} [Field K]

/-- every particle array is `mkPs` of its size and accessor functions: the theorems below
    quantify over all arrays -/
theorem c02_every_array (ps : Array (Body K)) :
    ∃ (m : Nat → K) (x : Nat → V3 K), ps = mkPs ps.size m x :=
  ⟨_, _, mkPs_surj ps⟩

/-- the declarative pair term: `force … gb k j = -(pref(|d|²+ε²) · m_j) · d`, `d = gb + x_k - x_j` -/
theorem c02_force_def (pref : K → Nat → Nat → K) (soft2 : K) (m : Nat → K) (x : Nat → V3 K)
    (gb : V3 K) (k j : Nat) :
    force pref soft2 m x gb k j
      = (-(pref (((gb + x k) - x j).x * ((gb + x k) - x j).x + ((gb + x k) - x j).y * ((gb + x k) - x j).y
            + ((gb + x k) - x j).z * ((gb + x k) - x j).z + soft2) k j) * m j) • ((gb + x k) - x j) := rfl

/-! ### BASIC -/

/-- BASIC (gravity.c:139-247), with the ghost-box triple loop of boundary.c: the acceleration
    of every particle `k` is the sum over ghost boxes and over the *declarative* source set
    `Src` (active `j ≠ k`; test particles `j` as well when `testparticle_type = 1` and `k` is
    active; minus the pairs named by `gravity_ignore_terms`) of the softened pair term.
    An off-by-one in `starti`, `startj`, `MAX(_N_active,starti)` or an inner bound makes
    `src_iff` (and hence this theorem) fail. -/
theorem c02_basic_sources (kern : K → K) (cfg : Cfg K) (shifted : Bool) (bs : V3 K)
    (nx ny nz N : Nat) (m : Nat → K) (x : Nat → V3 K) (hNa : cfg.nActive ≤ N)
    (hig : cfg.ignore ≤ 2) (k : Nat) (hk : k < N) :
    (accBasic (fun s _ _ => kern s) cfg (ghostList shifted bs nx ny nz) (mkPs N m x))[k]?
      = some (((ghostList shifted bs nx ny nz).map fun gb => ∑ j ∈ Finset.range N,
          if Src cfg.nActive cfg.tpType cfg.ignore k j
          then force (fun s _ _ => kern s) (cfg.soft * cfg.soft) m x gb k j else 0).sum) :=
  accBasic_declarative _ (fun _ _ _ => rfl) cfg _ (ghostList_symm shifted bs nx ny nz) m x hNa hig hk

/-- without ghost boxes the ghost list is the single zero shift -/
theorem c02_no_ghosts (shifted : Bool) (bs : V3 K) : ghostList shifted bs 0 0 0 = [0] :=
  ghostList_zero shifted bs

/-- Newton's third law for BASIC: if every particle is active the mass-weighted accelerations
    sum to zero — for every kernel, every ghost list, every `gravity_ignore_terms`. -/
theorem c02_basic_newton3 (pref : K → Nat → Nat → K) (cfg : Cfg K) (ghosts : List (V3 K)) (N : Nat)
    (m : Nat → K) (x : Nat → V3 K) (hall : cfg.nActive = N) (a : Nat → V3 K)
    (ha : ∀ k, k < N → (accBasic pref cfg ghosts (mkPs N m x))[k]? = some (a k)) :
    ∑ k ∈ Finset.range N, m k • a k = 0 := by
  have e : ∀ k ∈ Finset.range N, m k • a k
      = m k • ((ghosts.map fun gb => boxC pref cfg N m x gb k).sum) := by
    intro k hk
    have hk' := Finset.mem_range.mp hk
    have h1 := ha k hk'
    rw [accBasic_get pref cfg ghosts m x (by omega) hk'] at h1
    rw [Option.some.inj h1]
  rw [Finset.sum_congr rfl e]
  apply sum_smul_list N (fun k v => m k • v) (by simp) (by simp [smul_add])
  intro gb _
  apply boxC_allactive (fun k v => m k • v) (by simp) (by simp [smul_add]) pref cfg m x gb hall
  intro i j hi hj
  exact pairC_balanced pref _ m x gb hi hj

/-- total torque for BASIC: every particle active and no ghost shift ⇒ `Σ m_k x_k × a_k = 0` -/
theorem c02_basic_torque (pref : K → Nat → Nat → K) (cfg : Cfg K) (N : Nat)
    (m : Nat → K) (x : Nat → V3 K) (hall : cfg.nActive = N) (a : Nat → V3 K)
    (ha : ∀ k, k < N → (accBasic pref cfg [0] (mkPs N m x))[k]? = some (a k)) :
    ∑ k ∈ Finset.range N, m k • V3.cross (x k) (a k) = 0 := by
  have e : ∀ k ∈ Finset.range N, m k • V3.cross (x k) (a k)
      = m k • V3.cross (x k) ((([0] : List (V3 K)).map fun gb => boxC pref cfg N m x gb k).sum) := by
    intro k hk
    have hk' := Finset.mem_range.mp hk
    have h1 := ha k hk'
    rw [accBasic_get pref cfg [0] m x (by omega) hk'] at h1
    rw [Option.some.inj h1]
  rw [Finset.sum_congr rfl e]
  apply sum_smul_list N (fun k v => m k • V3.cross (x k) v) (by simp [V3.cross_zero])
    (by simp [V3.cross_add, smul_add])
  intro gb hgb
  have : gb = 0 := by simpa using hgb
  subst this
  apply boxC_allactive (fun k v => m k • V3.cross (x k) v) (by simp [V3.cross_zero])
    (by simp [V3.cross_add, smul_add]) pref cfg m x 0 hall
  intro i j hi hj
  exact pairC_torque pref _ m x hi hj

/-! ### non-vacuity: a concrete 4-body configuration over ℚ with one test particle, a
    zero-mass active body, gravity_ignore_terms = 1 and one ghost ring meets every hypothesis;
    the source set is neither empty nor full. -/
example : (⟨3, true, 1, (1 : ℚ) / 10⟩ : Cfg ℚ).nActive ≤ 4 ∧ (⟨3, true, 1, (1 : ℚ) / 10⟩ : Cfg ℚ).ignore ≤ 2
    ∧ Src 3 true 1 2 3 ∧ ¬ Src 3 true 1 0 1 ∧ ¬ Src 3 false 1 2 3 ∧ Src 3 true 1 3 0 := by
  refine ⟨by decide, by decide, ?_, ?_, ?_, ?_⟩ <;> unfold Src <;> decide

end RV.Gravity
