import RV.Proofs.Conc
import RV.Gen.C19Globals
/-
  C19 — concurrent simulations do not interfere; served snapshots are consistent.

  The statements are about the transition system of RV/Model/Conc.lean (the same `step`
  that `drv_c19` runs as an acceptor on the lock/step/serialise traces logged from the real
  library by the LD_PRELOAD shim), for EVERY interleaving: `Exec tr s` is "tr is any list
  of events accepted from the initial state, ending in s".

  The server may be started at any point of the integrator's execution (`xStart`).  Every
  statement below holds for all executions with `racy = false`, i.e. in which the server was
  NOT started inside an iteration of the loop that had read `r->server_data == NULL` at
  rebound.c:842 and therefore runs its step without the mutex: started before `integrate()`,
  while paused in `reb_check_exit`, between iterations, in the prologue/epilogue
  (`c19_start_outside_iteration_is_safe`).  For a server started inside such an iteration the
  code as it is gives NO mutual exclusion for that iteration and unlocks a mutex it does not own
  at rebound.c:868-872 (`c19_start_mid_step_breaks_exclusion`, finding F19).

  The protocol as coded does not give the full property: `reb_check_exit`
  (rebound.c:822, last-step paths 690-705), the prologue (795-818) and the epilogue (880-884)
  of `reb_simulation_integrate` write `r` WITHOUT holding `server_data->mutex`.  The model
  contains these writes (`Phase.inAdjust`), the full-strength statement is therefore refuted
  by `c19_unlocked_write_overlaps_serialise` (finding F18, reproduced on the real code by the
  search of rv/c19.py), and what does hold is proved as `…_partial` with the extra hypothesis
  naming the finding.
-/
set_option linter.unusedVariables false
namespace RV.Conc
open RV.Gen.C19

/-! ### mutual exclusion -/

/-- the mutex has the owner the program counters say, in every reachable state of every
interleaving; in particular integrator and server are never both inside their critical sections -/
theorem c19_mutual_exclusion (tr : List Ev) (s : State) (h : Exec tr s) (hq : s.racy = false) :
    (s.owner = some .I ↔ (critI s.ipc = true ∧ s.ilock = true)) ∧ (s.owner = some .S ↔ critS s.spc = true) ∧
    ¬ ((critI s.ipc = true ∧ s.ilock = true) ∧ critS s.spc = true) ∧ s.ub = false ∧ s.memerr = false := by
  have i := exec_inv h hq
  refine ⟨i.ownI, i.ownS, ?_, i.noUB, i.noMem⟩
  rintro ⟨a, b⟩
  have := i.ownI.mpr a
  have := i.ownS.mpr b
  simp_all

/-- once the server exists, `reb_simulation_step` only ever runs while the integrator owns the mutex -/
theorem c19_step_only_under_lock (tr : List Ev) (s : State) (h : Exec tr s) (hq : s.racy = false)
    (hu : s.srvUp = true) (hm : s.sim.phase = .inStep) : s.owner = some .I := by
  have i := exec_inv h hq
  have hp := i.stepP.mp hm
  have hc : critI s.ipc = true := by rcases hp with hp | hp <;> simp [hp, critI]
  have hl : s.ilock = true := by
    cases hl : s.ilock with
    | true => rfl
    | false => have := i.upC hc hl; simp_all
  exact i.ownI.mpr ⟨hc, hl⟩

/-- the server thread does not touch anything before it exists -/
theorem c19_server_idle_until_started (tr : List Ev) (s : State) (h : Exec tr s) (hq : s.racy = false)
    (hu : s.srvUp = false) : s.spc = .accepting ∧ s.owner = none ∧ s.needCopy = false := by
  have i := exec_inv h hq
  have ha := i.downS hu
  refine ⟨ha, ?_, ?_⟩
  · cases ho : s.owner with
    | none => rfl
    | some t =>
      cases t with
      | I => have := (i.ownI.mp ho).2; have := i.lockUp this; simp_all
      | S => have := i.ownS.mp ho; simp [ha, critS] at this
  · cases hn : s.needCopy with
    | false => rfl
    | true => have := i.nc.mp hn; simp [ha, ncHigh] at this

/-! ### what the server can see -/

/-- while the server is inside `reb_simulation_save_to_stream` the simulation is never `mid n`,
the number of completed steps is the one read when the serialisation began, and the only
non-boundary states it can coexist with are the three unlocked writes of the integrator -/
theorem c19_serialise_never_mid_step (tr : List Ev) (s : State) (h : Exec tr s) (hq : s.racy = false)
    (hs : s.spc = .serialising) :
    s.sim.phase ≠ .inStep ∧
    (∃ m, s.snap = some m ∧ m.steps = s.sim.steps ∧ m.phase ≠ .inStep) ∧
    (s.sim.phase = .atBoundary ∨ (s.sim.phase = .inAdjust ∧ adjPc s.ipc = true)) := by
  have i := exec_inv h hq
  have hS : s.owner = some .S := i.ownS.mpr (by simp [hs, critS])
  have hu : s.srvUp = true := by
    cases hu : s.srvUp with
    | true => rfl
    | false => have := i.downS hu; simp_all
  have h1 : s.sim.phase ≠ .inStep := by
    intro hm
    have := c19_step_only_under_lock tr s h hq hu hm
    simp_all
  refine ⟨h1, i.snapS hs, ?_⟩
  cases hp : s.sim.phase with
  | atBoundary => exact Or.inl rfl
  | inStep => exact absurd hp h1
  | inAdjust => exact Or.inr ⟨rfl, i.adjP.mp hp⟩

/-- FULL STRENGTH (false for the code as it is, see the next theorem):
`∀ tr s, Exec tr s → s.spc = .serialising → s.sim.phase = .atBoundary ∧ s.snap = some s.sim`.

PARTIAL: it holds for every serialisation that no unlocked write of `r` overlaps — i.e.
under the hypothesis "not F18": the integrator is not inside prologue / last-step
`reb_check_exit` / epilogue when the serialisation begins (`hq`) and does not enter one while
it lasts (`hna`).  Then for the whole duration the simulation is at a step boundary and is
exactly the state that was read at the beginning. -/
theorem c19_serialise_at_boundary_partial (pre post : List Ev) (s0 s : State)
    (h0 : Exec pre s0) (hh : s0.spc = .holding) (hqa : adjPc s0.ipc = false)
    (hr : run s0 (.sSerBegin :: post) = some s) (hq : s.racy = false)
    (hna : ∀ e ∈ post, e.isAdjust = false) (hne : ∀ e ∈ post, e ≠ .sSerEnd) :
    s.spc = .serialising ∧ s.sim.phase = .atBoundary ∧ s.snap = some s.sim := by
  have hq0 : s0.racy = false := run_racy_mono hr hq
  have i0 := exec_inv h0 hq0
  simp only [run, step, hh, if_true] at hr
  have i1 : Inv { s0 with spc := .serialising, snap := some s0.sim } :=
    step_inv (e := .sSerBegin) i0 (by simp [step, hh]) (by simpa using hq0)
  have q1 : Quiet { s0 with spc := .serialising, snap := some s0.sim } := ⟨rfl, hqa, rfl⟩
  have q := run_quiet i1 q1 hr hq hna hne
  have i := run_inv i1 hr hq
  refine ⟨q.ser, ?_, q.same⟩
  have hS : s.owner = some .S := i.ownS.mpr (by simp [q.ser, critS])
  cases hp : s.sim.phase with
  | atBoundary => rfl
  | inStep =>
    have hst := i.stepP.mp hp
    have hc : critI s.ipc = true := by rcases hst with hst | hst <;> simp [hst, critI]
    have hu : s.srvUp = true := by
      cases hu : s.srvUp with
      | true => rfl
      | false => have := i.downS hu; have := q.ser; simp_all
    have hl : s.ilock = true := by
      cases hl : s.ilock with
      | true => rfl
      | false => have := i.upC hc hl; simp_all
    have := i.ownI.mpr ⟨hc, hl⟩
    simp_all
  | inAdjust =>
    have := i.adjP.mp hp
    have := q.nadj
    simp_all

/-- one step is taken while a request arrives; the server gets the mutex at the integrator's
unlock and serialises while `reb_check_exit` of the next iteration synchronises and shrinks `dt` -/
def witnessF18 : List Ev :=
  [.xStart, .iEnter, .iChkBegin, .iChkEnd true, .iSeeSrv true, .iSeeNC0, .iLock, .iSetFlag, .iStepBegin, .sReq, .sSetNC,
   .iStepEnd, .iUnlock, .iClrFlag, .sLock, .iChkBegin, .sSerBegin, .iChkSync]

/-- the hypothesis of the partial theorem cannot be dropped (finding F18): an execution of
the protocol as coded in which the server is inside `reb_simulation_save_to_stream` while
the integrator is inside the last-step path of `reb_check_exit`, writing `r` -/
theorem c19_unlocked_write_overlaps_serialise :
    ∃ tr s, Exec tr s ∧ s.racy = false ∧ s.spc = .serialising ∧ s.sim.phase = .inAdjust ∧ s.ipc = .chkAdj := by
  have h : (run init witnessF18).map (fun s => (s.racy, s.spc, s.sim.phase, s.ipc))
      = some (false, .serialising, .inAdjust, .chkAdj) := by decide
  cases hr : run init witnessF18 with
  | none => simp [hr] at h
  | some s =>
    simp only [hr, Option.map_some, Option.some.injEq, Prod.mk.injEq] at h
    exact ⟨witnessF18, s, hr, h.1, h.2.1, h.2.2.1, h.2.2.2⟩

/-! ### serving never alters what the integrator does -/

/-- projecting ANY execution of integrator + server onto the integrator's events (without the
`usleep(10)` stutter) gives a legal run of the integrator without a server that ends at the
same program point in the same simulation state — the same number of steps and of
adjustments; applied to every prefix: the same sequence of states -/
theorem c19_integrator_unaffected (tr : List Ev) (s : State) (h : Exec tr s) :
    soloRun soloInit (projI tr) = some ⟨s.ipc, s.sim⟩ := run_proj h

/-- the server can always finish a request it has started and the integrator can always
continue once the server is back in `accept`: no reachable state is a deadlock -/
theorem c19_no_deadlock (tr : List Ev) (s : State) (h : Exec tr s) (hq : s.racy = false) :
    ∃ e, (step s e).isSome = true := by
  have i := exec_inv h hq
  obtain ⟨ipc, spc, owner, nc, sim, snap, served, up, il, rc, ub, me⟩ := s
  obtain ⟨h1, h2, h3, h4, h5, h6, h7, h8, h9, h10, h11, h12, h13, h14, h15⟩ := i
  simp only at h1 h2 h3 h4 h5 h6 h7 h8 h9 h10 h11 h12 h13 h14 h15
  cases up
  case false => exact ⟨.xStart, by simp [step]⟩
  case true =>
  cases spc
  case accepting => exact ⟨.sReq, by simp [step]⟩
  case gotReq => exact ⟨.sSetNC, by simp [step]⟩
  case ncSet =>
    -- the mutex is free, or the integrator holds it and then the integrator can move
    cases owner with
    | none => exact ⟨.sLock, by simp [step]⟩
    | some t =>
      cases t with
      | S => simp [critS] at h2
      | I =>
        obtain ⟨hc, hl⟩ := h1.mp rfl
        cases ipc <;> simp [critI] at hc
        · exact ⟨.iSetFlag, by simp [step]⟩
        · exact ⟨.iStepBegin, by simp [step]⟩
        · exact ⟨.iStepEnd, by simp [step]⟩
        · exact ⟨.iHbBegin, by simp [step]⟩
        · exact ⟨.iHbEnd, by simp [step]⟩
  case holding => exact ⟨.sSerBegin, by simp [step]⟩
  case serialising => exact ⟨.sSerEnd, by simp [step]⟩
  case serialised => exact ⟨.sClrNC, by simp [step]⟩
  case ncClr => exact ⟨.sUnlock, by simp [step, h2, critS]⟩
  case sending => exact ⟨.sSent, by simp [step]⟩

/-! ### a server started while the integration is running -/

/-- starting the server at any moment at which the integrator is not inside an iteration that
runs without the mutex — before `integrate()`, in the prologue, inside `reb_check_exit` (in
particular while PAUSED), between unlock and the next `reb_check_exit`, at rebound.c:842 before
the read, in the epilogue — keeps `racy = false` for ever, so every theorem of this file
applies to the rest of the execution -/
theorem c19_start_outside_iteration_is_safe (pre post : List Ev) (s0 s : State)
    (h0 : Exec pre s0) (hq0 : s0.racy = false)
    (hout : (critI s0.ipc = true ∧ s0.ilock = false) → False)
    (hr : run s0 (.xStart :: post) = some s)
    (hn1 : ∀ e ∈ post, e ≠ .xStart) (hn2 : ∀ e ∈ post, e ≠ .xStop) : s.racy = false := by
  simp only [run] at hr
  split at hr
  · simp at hr
  · next s1 h1 =>
    have hu : s1.racy = false := by
      obtain ⟨ipc, spc, owner, nc, sim, snap, served, up, il, rc, ub, me⟩ := s0
      simp only [step] at h1
      split at h1
      · simp only [Option.some.injEq] at h1; subst h1
        simp only at hq0 hout ⊢
        cases ipc <;> cases il <;> simp_all [critI]
      · simp at h1
    rw [run_racy_const hr hn1 hn2]; exact hu

/-- stopping the server at any moment at which the integrator is NOT between its test of `r->server_data` and the last
dereference that depends on it (i.e. not in `waitNC, wantLock, postLock, postUnlock`, and not inside a locked iteration) is safe:
`racy` stays false (until the next start/stop), hence no use after free, and every theorem of this file applies -/
theorem c19_stop_outside_iteration_is_safe (pre post : List Ev) (s0 s : State)
    (h0 : Exec pre s0) (hq0 : s0.racy = false)
    (hout : s0.ipc ≠ .waitNC ∧ s0.ipc ≠ .wantLock ∧ s0.ipc ≠ .postLock ∧ s0.ipc ≠ .postUnlock ∧ s0.ipc ≠ .shotWait ∧
            ((critI s0.ipc = true ∧ s0.ilock = true) → False))
    (hr : run s0 (.xStop :: post) = some s)
    (hn1 : ∀ e ∈ post, e ≠ .xStart) (hn2 : ∀ e ∈ post, e ≠ .xStop) : s.racy = false ∧ s.memerr = false := by
  have hrun : run init (pre ++ .xStop :: post) = some s := by
    rw [run_append, h0]; exact hr
  simp only [run] at hr
  split at hr
  · simp at hr
  · next s1 h1 =>
    have hu : s1.racy = false := by
      obtain ⟨ipc, spc, owner, nc, sim, snap, served, up, il, rc, ub, me⟩ := s0
      simp only [step] at h1
      split at h1
      · simp only [Option.some.injEq] at h1; subst h1
        simp only at hq0 hout ⊢
        cases ipc <;> cases il <;> simp_all [critI]
      · simp at h1
    have hq : s.racy = false := by rw [run_racy_const hr hn1 hn2]; exact hu
    exact ⟨hq, (exec_inv hrun hq).noMem⟩

/-- the integrator has tested `r->server_data != NULL` (rebound.c:842) and waits for `need_copy`; the server is stopped -/
def witnessF21 : List Ev :=
  [.xStart, .iEnter, .iChkBegin, .iChkEnd true, .iSeeSrv true, .xStop, .iSeeNC0, .iLock, .iSetFlag]

/-- … or it is stopped between `pthread_mutex_unlock` and `mutex_locked_by_integrate = 0` (rebound.c:872-874) -/
def witnessF21b : List Ev :=
  [.xStart, .iEnter, .iChkBegin, .iChkEnd true, .iSeeSrv true, .iSeeNC0, .iLock, .iSetFlag, .iStepBegin, .iStepEnd,
   .iUnlock, .xStop, .iClrFlag]

/-- WHAT IS TRUE OF THE UNCHANGED CODE (finding F21): `reb_simulation_stop_server` frees `server_data` without any
synchronisation with the integration loop; stopped inside an iteration that has seen the server, the loop reads
`need_copy`, locks the mutex and writes `mutex_locked_by_integrate` in freed memory -/
theorem c19_stop_mid_iteration_use_after_free :
    (∃ s, Exec witnessF21 s ∧ s.memerr = true ∧ s.srvUp = false) ∧
    (∃ s, Exec witnessF21b s ∧ s.memerr = true ∧ s.srvUp = false) := by
  have h1 : (run init witnessF21).map (fun s => (s.memerr, s.srvUp)) = some (true, false) := by decide
  have h2 : (run init witnessF21b).map (fun s => (s.memerr, s.srvUp)) = some (true, false) := by decide
  constructor
  · cases hr : run init witnessF21 with
    | none => simp [hr] at h1
    | some s =>
      simp only [hr, Option.map_some, Option.some.injEq, Prod.mk.injEq] at h1
      exact ⟨s, hr, h1.1, h1.2⟩
  · cases hr : run init witnessF21b with
    | none => simp [hr] at h2
    | some s =>
      simp only [hr, Option.map_some, Option.some.injEq, Prod.mk.injEq] at h2
      exact ⟨s, hr, h2.1, h2.2⟩

/-- a step begun before the server existed, the server started during it, a request served at once -/
def witnessF19 : List Ev :=
  [.iEnter, .iChkBegin, .iChkEnd true, .iSeeSrv false, .iStepBegin, .xStart, .sReq, .sSetNC, .sLock, .sSerBegin]

/-- … and the integrator then reaches rebound.c:868, reads `r->server_data != NULL` and unlocks the
mutex the server holds -/
def witnessF19ub : List Ev := witnessF19 ++ [.iStepEnd, .iUnlock]

/-- WHAT IS TRUE OF THE UNCHANGED CODE (finding F19): because `r->server_data` is read separately
at rebound.c:842 and 868, a server started while a step is in progress can serialise the
simulation mid-step (`mid 0`), and the integrator then calls `pthread_mutex_unlock` on the mutex
the server owns (undefined behaviour; with glibc the server's critical section loses its lock) -/
theorem c19_start_mid_step_breaks_exclusion :
    (∃ s, Exec witnessF19 s ∧ s.racy = true ∧ s.spc = .serialising ∧ s.sim = mid 0 1 ∧ s.owner = some .S) ∧
    (∃ s, Exec witnessF19ub s ∧ s.ub = true ∧ s.spc = .serialising ∧ s.owner = none) := by
  have h1 : (run init witnessF19).map (fun s => (s.racy, s.spc, s.sim, s.owner))
      = some (true, .serialising, mid 0 1, some .S) := by decide
  have h2 : (run init witnessF19ub).map (fun s => (s.ub, s.spc, s.owner))
      = some (true, .serialising, none) := by decide
  constructor
  · cases hr : run init witnessF19 with
    | none => simp [hr] at h1
    | some s =>
      simp only [hr, Option.map_some, Option.some.injEq, Prod.mk.injEq] at h1
      exact ⟨s, hr, h1.1, h1.2.1, h1.2.2.1, h1.2.2.2⟩
  · cases hr : run init witnessF19ub with
    | none => simp [hr] at h2
    | some s =>
      simp only [hr, Option.map_some, Option.some.injEq, Prod.mk.injEq] at h2
      exact ⟨s, hr, h2.1, h2.2.1, h2.2.2⟩

/-! ### every response comes out of a critical section -/

/-- the server only ever writes a response (`sSent`) from the program point that is reached by `pthread_mutex_unlock`, and that
program point is entered by nothing but the unlock that ends a critical section entered through `sLock` (for `/simulation`:
with `reb_simulation_save_to_stream` inside): a response produced without taking the mutex — e.g. a cached snapshot sent
again — is not an execution of the protocol, and a logged trace containing one is rejected by the acceptor -/
theorem c19_reply_only_after_critical_section (s s' : State) (e : Ev) (h : step s e = some s') :
    (e = .sSent → s.spc = .sending) ∧ (s'.spc = .sending → s.spc ≠ .sending → (e = .sUnlock ∧ s.spc = .ncClr)) := by
  obtain ⟨ipc, spc, owner, nc, sim, snap, served, up, il, rc, ub, me⟩ := s
  cases e <;> simp only [step, setPhase] at h <;> (repeat' split at h) <;>
    simp only [Option.some.injEq, reduceCtorEq] at h <;> subst h <;> simp_all

/-- and the only way into `ncClr` for a `/simulation` request is through the serialisation under the lock:
`holding → serialising → serialised → ncClr` (`/keyboard` goes `holding → ncClr` without serialising) -/
theorem c19_serialisation_is_inside_the_critical_section (tr : List Ev) (s : State) (h : Exec tr s) (hq : s.racy = false)
    (hs : s.spc = .serialising ∨ s.spc = .serialised) : s.owner = some .S ∧ s.needCopy = true := by
  have i := exec_inv h hq
  rcases hs with hs | hs
  · exact ⟨i.ownS.mpr (by simp [hs, critS]), i.nc.mpr (by simp [hs, ncHigh])⟩
  · exact ⟨i.ownS.mpr (by simp [hs, critS]), i.nc.mpr (by simp [hs, ncHigh])⟩

/-! ### the heartbeat belongs to the critical section -/

/-- `reb_run_heartbeat` (the user callback may change masses, add or remove particles, synchronize) runs, once the server
exists, only while the integrator owns the mutex; hence the server never serialises a simulation the heartbeat is in the middle
of modifying (`phase = inStep` covers `inHb`, see `c19_serialise_never_mid_step`).  A loop that released the mutex before its
heartbeat produces traces with `iHbBegin` after `iUnlock`, which are not executions of this model -/
theorem c19_heartbeat_only_under_lock (tr : List Ev) (s : State) (h : Exec tr s) (hq : s.racy = false)
    (hu : s.srvUp = true) (hb : s.ipc = .inHb) : s.owner = some .I ∧ s.sim.phase = .inStep ∧ s.spc ≠ .serialising := by
  have i := exec_inv h hq
  have hp : s.sim.phase = .inStep := i.stepP.mpr (Or.inr hb)
  have ho := c19_step_only_under_lock tr s h hq hu hp
  refine ⟨ho, hp, ?_⟩
  intro hs
  have := i.ownS.mpr (by simp [hs, critS])
  simp_all

/-! ### the screenshot handshake (output.c:273-323) -/

/-- `reb_simulation_output_screenshot`, called from a heartbeat inside a locked iteration, gives the mutex away while it waits
for the browser.  While the integrator waits there the step is complete: whatever the server serialises in that window is a
step-boundary state, and the integrator does not own the mutex although its iteration is a locked one -/
theorem c19_screenshot_wait_is_at_a_boundary (tr : List Ev) (s : State) (h : Exec tr s) (hq : s.racy = false)
    (hw : s.ipc = .shotWait) :
    s.sim.phase = .atBoundary ∧ s.owner ≠ some .I ∧ s.ilock = true ∧ s.srvUp = true := by
  have i := exec_inv h hq
  have hl := i.shotC hw
  refine ⟨?_, ?_, hl, i.lockUp hl⟩
  · cases hp : s.sim.phase with
    | atBoundary => rfl
    | inStep => have := i.stepP.mp hp; simp_all
    | inAdjust => have := i.adjP.mp hp; simp_all [adjPc]
  · intro ho
    have := (i.ownI.mp ho).1
    simp [hw, critI] at this

/-- a complete iteration with a screenshot taken in its heartbeat and a `/simulation` request served meanwhile -/
example : (run init [.xStart, .iEnter, .iChkBegin, .iChkEnd true, .iSeeSrv true, .iSeeNC0, .iLock, .iSetFlag, .iStepBegin,
    .iStepEnd, .iHbBegin, .iShotUnlock, .sReq, .sSetNC, .sLock, .sSerBegin, .sSerEnd, .sClrNC, .sUnlock, .sSent, .sStatic,
    .iShotLock, .iHbEnd, .iUnlock, .iClrFlag]).map (fun s => (s.ipc, s.served, s.sim, s.racy, s.owner))
    = some (.unlocked, 1, boundary 1 1, false, none) := by decide

/-! ### what an accepted trace means -/

/-- soundness of the trace acceptor `drv_c19` runs on the shim's logs: if a list of observed
events is accepted, then every final candidate state is reached by an execution of the
protocol model whose observable part (everything but the plain loads/stores of `need_copy`
and the socket I/O) is exactly the observed list — so every theorem above applies to it -/
theorem c19_accepted_trace_is_execution (obs : List Obs) (finals : List State)
    (h : accept obs = .ok finals) :
    ∀ f ∈ finals, ∃ tr, Exec tr f ∧ observable tr = obs.map (·.ev) := by
  intro f hf
  obtain ⟨s0, h0, tr, r, p⟩ := acceptFrom_sound obs [init] 0 finals h f hf
  simp only [List.mem_singleton] at h0
  subst h0
  exact ⟨tr, r, p⟩

/-! ### independent simulations -/

/-- any two interleavings of independent machines with the same per-machine event sequences
end in the same product state (transitions of different machines commute) -/
theorem c19_interleavings_agree (M : Machine) (tr₁ tr₂ : List (Nat × M.ε)) (v v₁ v₂ : Nat → M.σ)
    (hp : ∀ i, proj i tr₁ = proj i tr₂)
    (h₁ : prun M v tr₁ = some v₁) (h₂ : prun M v tr₂ = some v₂) : v₁ = v₂ := by
  funext i
  have a := prun_component M h₁ i
  have b := prun_component M h₂ i
  rw [hp i] at a
  rw [a] at b
  exact Option.some.inj b

/-- every interleaving of `k` independent machines ends in the product state of the
sequential run (machine 0 to completion, then machine 1, …), and the sequential run is
accepted whenever the interleaving is -/
theorem c19_interleaving_eq_sequential (M : Machine) (k : Nat) (tr : List (Nat × M.ε))
    (v v' : Nat → M.σ) (hk : ∀ e ∈ tr, e.1 < k) (h : prun M v tr = some v') :
    prun M v (seqSched tr k) = some v' := by
  rw [prun_seq M h k]
  congr 1
  funext j
  by_cases hj : j < k
  · simp [hj]
  · simp only [hj, if_false]
    exact (prun_untouched M h j (fun e he hje => hj (hje ▸ hk e he))).symm

/-- the same for `k` copies of the integrator + server protocol machine itself -/
theorem c19_independent_simulations (k : Nat) (tr : List (Nat × Ev)) (v v' : Nat → State)
    (hk : ∀ e ∈ tr, e.1 < k) (h : prun concMachine v tr = some v') :
    prun concMachine v (seqSched tr k) = some v' ∧
    ∀ i, run (v i) (proj i tr) = some (v' i) := by
  refine ⟨c19_interleaving_eq_sequential concMachine k tr v v' hk h, fun i => ?_⟩
  have := prun_component concMachine h i
  have hrun : ∀ (s : State) (es : List Ev), concMachine.run s es = run s es := by
    intro s es
    induction es generalizing s with
    | nil => rfl
    | cons e es ih =>
      simp only [Machine.run, run]
      have hs : concMachine.step s e = step s e := rfl
      rw [hs]
      cases step s e with
      | none => rfl
      | some s' => exact ih s'
  rw [← hrun]; exact this

/-! ### the "disjoint state" hypothesis on the real objects (tables regenerated every run) -/

/-- every writable symbol of every object of the library is on the allow-list -/
theorem c19_writable_globals_allowed :
    writableSyms.all (fun g => allowGlobals.contains g.2.2.1) = true := by decide +kernel

/-- no writable byte outside the named symbols (32 bytes of alignment slack per object) -/
theorem c19_no_anonymous_writable_data :
    writableBytes.all (fun o => decide (o.2.1 ≤ o.2.2 + 32)) = true := by decide +kernel

/-- the linked library has no further writable symbol except the toolchain's -/
theorem c19_shared_object_globals_allowed :
    soWritable.all (fun n => allowGlobals.contains n || allowToolchain.contains n) = true := by
  decide +kernel

/-- allow-listed "never assigned" pointers are indeed never assigned in src/ -/
theorem c19_allowed_pointers_never_assigned : assignedNeverAssigned = [] := by decide +kernel

/-- no reference to a libc routine with hidden process-global state -/
theorem c19_no_nonreentrant_libc :
    undefinedRefs.all (fun u => !nonReentrant.contains u || allowLibc.contains u) = true := by
  decide +kernel

/-- every `static` non-const object declared in the sources is on the allow-list -/
theorem c19_static_objects_allowed :
    staticMutable.all (fun d => allowStatics.contains d) = true := by decide +kernel

/-- `reb_simulation_save_to_stream` is called by the server on the LIVE simulation: the only field it may assign is the documented
IAS15 compression, and it hands `r` to nothing but the allow-listed routines (anchored mechanism "serialisation itself must not
change the evolving state", output.c:475-495; extracted from the source every run) -/
theorem c19_serialisation_writes_allowed :
    saveWrites.all (fun w => allowSaveWrites.contains w) = true ∧ saveCalls.all (fun f => allowSaveCalls.contains f) = true ∧
    2000 ≤ saveBodyLength := by decide +kernel

/-- the extraction saw the library: objects, the interrupt flag, the libc references the
protocol relies on, the re-entrant random generator -/
theorem c19_tables_populated :
    25 ≤ nObjects ∧ 60 ≤ undefinedRefs.length ∧ 40 ≤ nStaticConst ∧
    writableSyms.any (fun g => g.2.2.1 == "reb_sigint") = true ∧
    undefinedRefs.contains "pthread_mutex_lock" = true ∧
    undefinedRefs.contains "pthread_mutex_unlock" = true ∧
    undefinedRefs.contains "rand_r" = true := by decide +kernel

/-! ### non-vacuity -/

/-- an execution that reaches `serialise` at a step boundary after one completed step, and
completes the request -/
example : (run init [.xStart, .iEnter, .iChkBegin, .iChkEnd true, .iSeeSrv true, .iSeeNC0, .iLock, .iSetFlag, .iStepBegin, .sReq, .sSetNC,
    .iStepEnd, .iUnlock, .iClrFlag, .sLock, .iChkBegin, .sSerBegin]).map (fun s => (s.spc, s.sim, s.snap))
    = some (.serialising, boundary 1 1, some (boundary 1 1)) := by decide

/-- the integrator spins on `need_copy` and blocks on the mutex while the server serialises -/
example : (run init [.xStart, .iEnter, .iChkBegin, .iChkEnd true, .iSeeSrv true, .sReq, .sSetNC, .iSpin, .iSpin, .sLock,
    .sSerBegin, .iSpin, .sSerEnd, .sClrNC, .iSeeNC0]).map (fun s => (s.ipc, s.spc, step s .iLock))
    = some (.wantLock, .ncClr, none) := by decide

/-- a complete integrate() call of two steps with a request served in between, accepted from
what the shim can observe (silent events guessed by the acceptor) -/
example : (accept ([.xStart, .iEnter, .iChkBegin, .iChkEnd true, .iLock, .iStepBegin, .iStepEnd, .iUnlock,
    .iChkBegin, .sLock, .sSerBegin, .iChkSync, .iChkEnd true, .iSpin, .sSerEnd, .sUnlock, .sSent, .iLock,
    .iStepBegin, .iStepEnd, .iUnlock, .iChkBegin, .iChkEnd false, .iEpiSync, .iLeave].map
    (fun e => ⟨e, none⟩))).toOption.map
      (fun l => !l.isEmpty && l.all (fun s => s.sim == boundary 2 3 && s.served == 1))
    = some true := by decide +kernel

/-- and a trace in which the server serialises without the lock is rejected at that event -/
example : (match accept ([.xStart, .iEnter, .iChkBegin, .iChkEnd true, .iLock, .iStepBegin, .sSerBegin].map
    (fun e => ⟨e, none⟩)) with | .error i => i == 6 | .ok _ => false) = true := by decide +kernel

/-- a server started while the simulation is paused inside `reb_check_exit`: the first iteration
after the resume must take the mutex (a loop that had cached `r->server_data == NULL` is rejected) -/
example : ((accept ([.iEnter, .iChkBegin, .xStart, .sLock, .sSerBegin, .sSerEnd, .sUnlock, .sSent, .iChkEnd true,
      .iLock, .iStepBegin, .iStepEnd, .iUnlock].map (fun e => ⟨e, none⟩))).toOption.map
      (fun l => !l.isEmpty && l.all (fun s => !s.racy && s.served == 1 && s.sim.steps == 1)),
    match accept ([.iEnter, .iChkBegin, .xStart, .iChkEnd true, .iStepBegin].map (fun e => ⟨e, none⟩)) with
      | .error i => i == 4 | .ok _ => false) = (some true, true) := by decide +kernel

/-- two independent simulations: an interleaving and the sequential schedule agree -/
example : prun concMachine (fun _ => init)
      [(0, .iEnter), (1, .iEnter), (1, .iChkBegin), (0, .iChkBegin), (0, .iChkEnd true), (1, .xStart)]
    = prun concMachine (fun _ => init)
      (seqSched [(0, .iEnter), (1, .iEnter), (1, .iChkBegin), (0, .iChkBegin), (0, .iChkEnd true), (1, .xStart)] 2) :=
  c19_interleaving_eq_sequential concMachine 2 _ _ _ (by decide) rfl |>.symm

end RV.Conc
