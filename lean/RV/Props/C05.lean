import RV.Proofs.PersistLoad
import RV.Proofs.PersistTable
import RV.Gen.C05Descriptors
import RV.Gen.C05Reads
/-
  C05 — a saved simulation restores bit-for-bit; saving a restored simulation reproduces the content.

  Two kinds of theorems:
  * about the codec `encode` / `decodeFields` of RV/Model/Persist.lean (the same definitions the driver
    `drv_c05` runs against streams written by the compiled library), for EVERY descriptor table with
    unique ids and EVERY well-formed simulation — so they hold for the current table and any future one;
  * about the CURRENT table and struct layout (RV/Gen/C05Descriptors.lean, regenerated from the working
    tree on every run), decided by the kernel: ids unique, every member of struct reb_simulation and of the
    embedded integrator structs is persisted or classified, dtype size = member size, counters are
    `unsigned int`s, no member persisted twice.
-/
set_option linter.unusedVariables false
namespace RV.Persist
open RV.Gen.C05
open RV.Gen

/-! ### codec theorems (all tables) -/

/-- reading back a saved stream into a simulation `init` yields the source's value at every location that
    some row of the table persists and `init`'s value elsewhere; no "unknown field" / "inconsistent size"
    warning is raised (only the reminder to re-attach callbacks when some were set) -/
theorem c05_decode_encode {psz : Nat} {sp : Special} {tbl : List Desc} (ok : TableOK psz sp tbl)
    (s init : Sim) (fp : Bool) (hwf : WF psz tbl s) :
    decodeFields psz sp tbl (init, []) (encode psz sp tbl s fp) =
      (restore psz tbl init s, if fp then [.pointers] else []) :=
  decode_encode ok s init fp hwf

/-- **restore is the identity on the persisted projection**: a simulation that differs from a fresh one only
    in persisted locations is restored exactly, with no warning -/
theorem c05_roundtrip {psz : Nat} {sp : Special} {tbl : List Desc} (ok : TableOK psz sp tbl)
    (s init : Sim) (hwf : WF psz tbl s) (hp : Persisted psz tbl init s) :
    decodeFields psz sp tbl (init, []) (encode psz sp tbl s false) = (s, []) := by
  rw [decode_encode ok s init false hwf, restore_eq_self init s hp]; rfl

/-- **saving a restored simulation reproduces the same persisted content** (any source simulation, also one
    with transient state) -/
theorem c05_resave {psz : Nat} {sp : Special} {tbl : List Desc} (ok : TableOK psz sp tbl)
    (s init : Sim) (fp : Bool) (hwf : WF psz tbl s) (hie : InitEmpty tbl init) :
    encode psz sp tbl (decodeFields psz sp tbl (init, []) (encode psz sp tbl s fp)).1 fp = encode psz sp tbl s fp := by
  rw [decode_encode ok s init fp hwf]
  exact encode_restore init s fp hie

/-- the restored simulation agrees with the source on every member some row persists -/
theorem c05_restored_member {psz : Nat} {sp : Special} {tbl : List Desc} (ok : TableOK psz sp tbl)
    (s init : Sim) (fp : Bool) (hwf : WF psz tbl s) (d : Desc) (hd : d ∈ live tbl) (sz : Nat)
    (hs : simpleSize psz d.dtype = some sz) :
    (decodeFields psz sp tbl (init, []) (encode psz sp tbl s fp)).1.mem d.mem = s.mem d.mem := by
  rw [decode_encode ok s init fp hwf]
  exact restore_mem_written init s d hd d.mem (by simp [memWritten, hs])

/-- **the restored simulation STRUCT** (not the stream): `load` = the reader loop followed by the loader's fix-ups
    (input.c:205-229: back pointers re-linked, `N_allocated := N`, `c`/`ap` cleared, WHFast512 constants flagged).
    For every table with `TableOK`/`FixOK`, every well-formed source `s`, every fresh `init` and load address `self`:
    no warning but the callback reminder; every simple persisted member equals the source's; for every array row
    with content the element counter is re-derived from the payload size and equals the source's and the contents
    are equal — the particle array and the variational configurations up to their pointer members, which are
    cleared / point to the restored simulation (`fixParticles`, `fixVarCfg` only overwrite pointer slots);
    REB_DP7 rows: all seven arrays; fixed-size pointer rows; `N_allocated = N`; recalculation flag set.
    (The tree is a cache outside the persisted projection; its re-building is checked on the real code.) -/
theorem c05_load_restores_struct (psz : Nat) (sp : Special) (specs : List CmpSpec) (tbl : List Desc) (pl vl : ElemLayout)
    (pSim vSim self : Nat) (init s : Sim) (fp : Bool)
    (ok : TableOK psz sp tbl) (fok : FixOK psz sp specs tbl pl pSim) (hwf : WF psz tbl s)
    (hAC : sp.nAllocMem ≠ sp.recalcMem) (hNA : sp.nMem ≠ sp.nAllocMem) (hNC : sp.nMem ≠ sp.recalcMem) :
    let y := (load psz sp tbl pl vl pSim vSim self init (encode psz sp tbl s fp)).1
    (load psz sp tbl pl vl pSim vSim self init (encode psz sp tbl s fp)).2 = (if fp then [.pointers] else []) ∧
    (∀ d ∈ live tbl, ∀ sz, simpleSize psz d.dtype = some sz → y.mem d.mem = s.mem d.mem) ∧
    (∀ d ∈ live tbl, (d.dtype = .pointer ∨ d.dtype = .pointerAligned) → fieldSize s d ≠ 0 →
        y.mem d.nMem = s.mem d.nMem ∧
        (d.mem ≠ sp.particlesMem → d.mem ≠ sp.varCfgMem → y.heap d.mem = s.heap d.mem) ∧
        (d.mem = sp.particlesMem → y.heap d.mem = (s.heap d.mem).map (fixParticles pl pSim self)) ∧
        (d.mem = sp.varCfgMem → y.heap d.mem = (s.heap d.mem).map (fixVarCfg vl vSim self))) ∧
    (∀ d ∈ live tbl, d.dtype = .dp7 → fieldSize s d ≠ 0 →
        y.mem d.nMem = s.mem d.nMem ∧ ∀ k, k < 7 → y.heap (d.mem + k) = s.heap (d.mem + k)) ∧
    (∀ d ∈ live tbl, d.dtype = .pointerFixed → (s.heap d.mem).isSome = true → y.heap d.mem = s.heap d.mem) ∧
    y.mem sp.nAllocMem = y.mem sp.nMem ∧ y.mem sp.recalcMem = encLE 4 1 :=
  load_restores psz sp specs tbl pl vl pSim vSim self init s fp ok fok hwf hAC hNA hNC

/-- the fix-ups only overwrite pointer members: outside the pointer slots of reb_particle the fixed-up particle
    array is byte-for-byte the restored one, and it has the same length -/
theorem c05_fixups_touch_pointers_only (pl : ElemLayout) (pSim self : Nat) (b : Bytes) (i : Nat)
    (h : slotHit (ptrSlots pl) (i % pl.size) = false) (h2 : slotHit [(pSim, 8)] (i % pl.size) = false) :
    (fixParticles pl pSim self b)[i]? = b[i]? ∧ (fixParticles pl pSim self b).length = b.length := by
  unfold fixParticles
  refine ⟨?_, by simp [fillSlots_length]⟩
  rw [fillSlots_getElem?, fillSlots_getElem?, h, h2]
  cases b[i]? <;> simp

/-! ### the current table (regenerated every run; decided by the kernel) -/

/-- side conditions of `c05_load_restores_struct` for the current table: the members the fix-ups write
    (`N_allocated`, `ri_whfast512.recalculate_constants`) are not persisted and differ from `N`; the particle array
    and var_config are persisted by one pointer row each; no REB_DP7 / fixed-size row aliases them -/
theorem c05_table_fix_ok :
    FixOK particleSize special cmpSpecs table elem_reb_particle particleSimOff ∧
    special.nAllocMem ≠ special.recalcMem ∧ special.nMem ≠ special.nAllocMem ∧ special.nMem ≠ special.recalcMem :=
  ⟨fixOK_of_b _ _ _ _ _ _ (by decide +kernel), by decide +kernel, by decide +kernel, by decide +kernel⟩


/-- the extraction found as many items as it says (an extraction that silently finds less fails here) -/
theorem c05_table_counts :
    table.length = tableCount ∧ members.length = membersCount ∧ tableNames.length = tableCount ∧
    memberNames.length = membersCount ∧ transient.length = transientCount ∧ 100 ≤ tableCount ∧
    200 ≤ membersCount := by decide +kernel

/-- field ids are unique, END is not a data id, the function-pointer id belongs to a REB_OTHER row:
    the hypotheses of the codec theorems hold for the current table -/
theorem c05_table_ok : TableOK particleSize special table where
  nodup := nodupNat_iff _ (by decide +kernel)
  endFresh := by decide +kernel
  fpEq := by decide +kernel
  fpNotEnd := by decide +kernel
  fpNotLegacy := by decide +kernel
  fpRow := by decide +kernel

/-- the member list is indexed by position and the members lie in order, without overlap, inside the struct
    (so that "one member = one storage location" is sound) -/
theorem c05_table_layout : layoutOK members simStructSize = true := by decide +kernel

/-- **coverage**: every member of struct reb_simulation and of the embedded integrator structs is persisted
    by some row, or classified as deliberately transient in ref/C05_transient.json, or a recorded finding.
    A new member that is neither fails this theorem. -/
theorem c05_table_coverage : coverageOK particleSize table members transient knownGaps = true := by
  decide +kernel

/-- the same statement without the recorded gaps is FALSE on the unchanged tree (findings F9a, C05-N1): kept
    as the full-strength form; it becomes provable once the gaps are repaired. -/
theorem c05_table_coverage_partial :
    uncovered particleSize table members transient [] ⊆ knownGaps := by decide +kernel

/-- no member classified transient is persisted at the same time (the classification is not stale) -/
theorem c05_table_transient_fresh : transientFresh particleSize table transient = true := by decide +kernel

/-- **dtype = member type**: for every row the number of bytes the writer copies is the size of the member
    it addresses and the kinds agree; array rows address a pointer member and an `unsigned int` counter,
    have a non-zero element size, REB_DP7 rows address seven consecutive pointers and 7 ∣ element size -/
theorem c05_table_rows : rowsOK particleSize members table = true := by decide +kernel

/-- no member is persisted by two rows -/
theorem c05_table_members_unique : nodupNat (dataMems particleSize table) = true := by decide +kernel

/-- element sizes of array rows equal the compiled size of their element struct, element members do not
    overlap -/
theorem c05_table_elems :
    elemSizesOK table rowElems = true ∧ (rowElems.all (fun p => elemOK p.2)) = true := by decide +kernel

/-- **a field header without payload clears the array** (incremental archive snapshots encode an array that
    existed in the first snapshot and has VANISHED since — reset_integrator(), a removal that resets IAS15 — as a
    header of size 0): reading it onto the already populated simulation replaces the stale array by an empty one,
    sets its element counter to 0 and raises no warning; afterwards the writer emits nothing for that row -/
theorem c05_vanished_field_clears {psz : Nat} {sp : Special} {tbl : List Desc} (cur : Sim) (w : List Warning)
    (d : Desc) (hl : lookup tbl d.id = some d) (hd : d.dtype = .pointer ∨ d.dtype = .pointerAligned) :
    let r := applyField psz sp tbl (cur, w) (d.id, [])
    r.1.heap d.mem = some [] ∧ counter r.1 d = 0 ∧ r.2 = w ∧ encodeField psz r.1 d = [] := by
  intro r
  have hr : r = ((cur.setHeap d.mem (some [])).setMem d.nMem (encLE 4 (countOf 0 d.elemSize)), w) := by
    show applyField psz sp tbl (cur, w) (d.id, []) = _
    rw [applyField_pointer cur w (d.id, []) d hl hd]
    simp
  have hc : counter r.1 d = 0 := by
    rw [hr]
    simp [counter, Sim.setMem, Sim.setHeap, countOf, encLE, leNat]
  refine ⟨?_, hc, ?_, ?_⟩
  · rw [hr]; simp [Sim.setMem, Sim.setHeap]
  · rw [hr]
  · rw [encodeField_pointer r.1 d hd]
    simp [fieldSize, hc]

/-! ### callbacks: the reminder to re-attach them -/

/-- **the warning is raised exactly when a flagged callback was set at save time** (any table, any simulation):
    with the flag the writer stores (`fpFlagOf`: some member of the flag list is non-NULL), loading the saved stream
    raises `pointers` iff some flagged callback is set, and nothing else -/
theorem c05_callback_warning {psz : Nat} {sp : Special} {tbl : List Desc} (ok : TableOK psz sp tbl)
    (s init : Sim) (hwf : WF psz tbl s) (flagged : List Nat) (isSet : Nat → Bool) :
    (decodeFields psz sp tbl (init, []) (encode psz sp tbl s (fpFlagOf flagged isSet))).2 =
      (if flagged.any isSet then [.pointers] else []) := by
  rw [decode_encode ok s init _ hwf]
  rfl

/-- every function-pointer member of struct reb_simulation / reb_integrator_* (a callback the user must re-attach)
    is in the flag condition of the writer, or exempt with a reason (key_callback, extras_cleanup), or a recorded gap.
    A new callback member that is forgotten in output.c fails this theorem (this is how C05-N12 would have been
    found statically). -/
theorem c05_table_callbacks_flagged : callbacksFlagged members fpFlagged fpExempt fpGaps = true := by decide +kernel

/-- full strength (no gaps) is false on the unchanged tree: the unflagged, non-exempt callbacks are exactly the
    recorded gap `ri_mercurius.L` (C05-N16); provable with `fpGaps = []` once it is repaired -/
theorem c05_table_callbacks_flagged_partial : unflaggedCallbacks members fpFlagged fpExempt ⊆ fpGaps := by decide +kernel

/-- the extraction of the flag condition found the members it says (and at least the eight of the original code) -/
theorem c05_table_callbacks_counts : fpFlagged.length = fpFlaggedCount ∧ 8 ≤ fpFlaggedCount ∧
    fpFlagged.all (fun i => members.any (fun m => m.idx == i && m.kind == .fptr)) = true := by decide +kernel

/-! ### which code reads not-persisted state (generated read sets, src/*.c) -/

/-- an access (translation unit, member) is fine if the member is persisted, or cannot influence the trajectory,
    or the unit owns the member, or the access was reviewed (`allowed`), or it is a recorded defect (`findingRows`) -/
def accessClassified (a : Nat × Nat) : Bool :=
  C05Reads.persistedMembers.contains a.2 || C05Reads.unrestrictedMembers.contains a.2 || C05Reads.owners.contains a ||
  C05Reads.allowed.contains a || C05Reads.findingRows.contains a

/-- **read sets**: every access of every translation unit of src/ to a member of reb_simulation / reb_integrator_*
    (over-approximated by walking the `->`/`.` chains of variables declared as simulation / integrator pointers) that
    is neither persisted nor of a harmless class is owned, reviewed or a recorded defect.  A new access to carried-over, not-persisted state from a unit that does not own it fails this
    theorem.  Statement at full strength (no `findingRows`) is false on the current tree: C05-N4, N9, N11, N6/N7. -/
theorem c05_reads_classified : C05Reads.accesses.all accessClassified = true := by decide +kernel

/-- full-strength form: the accesses that are neither owned, reviewed nor harmless are exactly recorded defects -/
theorem c05_reads_classified_partial :
    (C05Reads.accesses.filter (fun a => !(C05Reads.persistedMembers.contains a.2 || C05Reads.unrestrictedMembers.contains a.2 ||
      C05Reads.owners.contains a || C05Reads.allowed.contains a))) ⊆ C05Reads.findingRows := by decide +kernel

/-- the review lists are not stale (every entry is an access that exists), disjoint, and the extraction found as
    much as it says -/
theorem c05_reads_lists_fresh :
    C05Reads.allowed.all (C05Reads.accesses.contains ·) = true ∧ C05Reads.findingRows.all (C05Reads.accesses.contains ·) = true ∧
    C05Reads.allowed.all (fun a => !C05Reads.findingRows.contains a) = true ∧
    C05Reads.accesses.length = C05Reads.accessCount ∧ C05Reads.tuNames.length = C05Reads.tuCount ∧
    100 ≤ C05Reads.accessCount ∧ 500 ≤ C05Reads.accessCountAll ∧ 25 ≤ C05Reads.tuCount ∧ C05Reads.allowed.length = C05Reads.allowedCount ∧
    C05Reads.findingRows.length = C05Reads.findingCount := by decide +kernel

/-- the members treated as "restored exactly" in the read sets are element counters of live array rows of the
    descriptor table (the loader re-derives them from the payload size: `c05_load_restores_struct`) and are not
    written by any unit outside the review (they are absent from `findingRows`) -/
theorem c05_reads_restored_counters :
    C05Reads.restoredCounters.all (fun m => (live table).any (fun d =>
      (d.dtype == .pointer || d.dtype == .pointerAligned || d.dtype == .dp7) && d.nMem == m)) = true ∧
    C05Reads.findingRows.all (fun a => !C05Reads.restoredCounters.contains a.2) = true := by decide +kernel

/-- the read-set table and the descriptor table agree on which members are persisted -/
theorem c05_reads_persisted_consistent :
    members.all (fun m => C05Reads.persistedMembers.contains m.idx == persisted particleSize table m.idx) = true := by
  decide +kernel

/-! ### non-vacuity: a small table and a simulation satisfying every hypothesis -/

private def exTbl : List Desc :=
  [⟨0, .double, 0, 0, 0, false, 0⟩, ⟨4, .uint, 1, 0, 0, false, 0⟩, ⟨85, .pointer, 2, 1, 2, false, 0⟩,
   ⟨87, .other, 0, 0, 0, false, 0⟩, ⟨9999, .fieldEnd, 0, 0, 0, false, 0⟩]
private def exSp : Special :=
  { endId := 9999, fpId := 87, fpIdWritten := 87, headerId := 1, legacyId := 35, legacyMem0 := 7, legacyMem1 := 8,
    nMem := 1, nAllocMem := 3, particlesMem := 2, varCfgMem := 4, nVarCfgMem := 5, recalcMem := 6 }
private def exSim : Sim :=
  { mem := fun m => if m = 0 then [1,2,3,4,5,6,7,8] else if m = 1 then [2,0,0,0] else []
    heap := fun m => if m = 2 then some [9,9,9,9] else none }
private def exInit : Sim := { mem := fun _ => [], heap := fun _ => none }

example : decodeFields 128 exSp exTbl (exInit, []) (encode 128 exSp exTbl exSim false) =
    (restore 128 exTbl exInit exSim, []) :=
  c05_decode_encode
    { nodup := by decide
      endFresh := by decide
      fpEq := rfl
      fpNotEnd := by decide
      fpNotLegacy := by decide
      fpRow := by decide } exSim exInit false
    (by
      intro d hd
      have : d = ⟨0, .double, 0, 0, 0, false, 0⟩ ∨ d = ⟨4, .uint, 1, 0, 0, false, 0⟩ ∨
          d = ⟨85, .pointer, 2, 1, 2, false, 0⟩ ∨ d = ⟨87, .other, 0, 0, 0, false, 0⟩ := by
        simpa [exTbl, live] using hd
      rcases this with h | h | h | h <;> subst h
      · simp [WFd, simpleSize, exSim]
      · simp [WFd, simpleSize, exSim]
      · refine ⟨by decide, by simp [exSim], by decide, ?_⟩
        intro _
        exact ⟨[9,9,9,9], by simp [exSim], by decide⟩
      · simp [WFd, simpleSize])

end RV.Persist
