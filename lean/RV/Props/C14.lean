import RV.Proofs.ParticlesOps
/-
  C14 — particle bookkeeping stays consistent under any add / remove / hash history.

  All statements are about the definitions of RV/Model/Particles.lean — the same ones the
  native driver drv_c14 runs against particle.c (through ctypes) and against the Python
  container, operation by operation.  `Variant.current` is the source as it is today,
  `Variant.repaired` the source with fixes/F4.diff applied; rv/c14.py determines on the real
  code which one it is running (by replaying the counter-examples below) and tells the driver.

  Quantification: every finite history `ops : List (Sorter × Op)` — each operation comes with
  the behaviour of C's `qsort` at that moment, an arbitrary function returning a sorted
  permutation (`Sorter.Valid`) — from every state satisfying the storage invariant
  (`Inv`: the allocation has `N_allocated` slots and `N ≤ N_allocated`), with an arbitrary
  (possibly stale, possibly garbage) lookup table.
-/
set_option linter.unusedVariables false
namespace RV.Particles

/-! ### storage: N ≤ N_allocated, every access inside the allocation -/

/-- Along every history, for every source variant: the allocation always has `N_allocated`
    slots, `N ≤ N_allocated`, and no operation reads or writes outside it (`Out.fault` is
    what the model answers to an out-of-bounds particle or table access). -/
theorem c14_storage_invariant (v : Variant) (ops : List (Sorter × Op)) (c : State) (hinv : Inv c)
    (hsort : ∀ x ∈ ops, x.1.Valid) :
    Inv (run v c ops).1 ∧ ∀ o ∈ (run v c ops).2, o ≠ Out.fault :=
  ⟨(run_spec v ops c hinv hsort).1, (run_spec v ops c hinv hsort).2.1⟩

example : Inv (State.init true true false) := by decide

/-! ### refinement: the simulation holds exactly the particles of the plain-list machine -/

/-- FULL STATEMENT (true of the repaired source): every history is a history of the
    plain-list machine `Spec` with the same answers, and the abstraction
    `abs c = (particles[0..N), N_active, …)` commutes with every step. -/
theorem c14_run_refines (ops : List (Sorter × Op)) (c : State) (hinv : Inv c)
    (hfresh : c.staleLeaf = false) (hsort : ∀ x ∈ ops, x.1.Valid) :
    SpecRun (abs c) (ops.map (·.2)) (run Variant.repaired c ops).2 (abs (run Variant.repaired c ops).1) :=
  (run_spec _ ops c hinv hsort).2.2 (noShapeRun_repaired ops c hinv hfresh hsort)

/-- the same for any source variant — in particular the current one — on histories in which no
    operation has one of the call shapes of findings F4a-d / F18 (`NoShape`, spelled out in
    RV/Proofs/ParticlesOps.lean: N==1 with an out-of-range index; sorted removal with a tree;
    removing the last particle while N_active ≥ 1 or a tree exists; unsorted removal with
    N_active ≥ N; remove_all with a tree; add after the tree kept a stale leaf). -/
theorem c14_run_refines_partial (v : Variant) (ops : List (Sorter × Op)) (c : State) (hinv : Inv c)
    (hsort : ∀ x ∈ ops, x.1.Valid) (hshape : NoShapeRun v c ops) :
    SpecRun (abs c) (ops.map (·.2)) (run v c ops).2 (abs (run v c ops).1) :=
  (run_spec v ops c hinv hsort).2.2 hshape

/-- one step, repaired source -/
theorem c14_step_refines (srt : Sorter) (hs : srt.Valid) (c : State) (hinv : Inv c)
    (hfresh : c.staleLeaf = false) (op : Op) :
    SpecStep (abs c) op (step Variant.repaired srt c op).2 (abs (step Variant.repaired srt c op).1) :=
  (step_spec _ srt hs c hinv op).2.2 (noShape_repaired c hfresh op)

/-- one step, any variant, outside the excluded call shapes -/
theorem c14_step_refines_partial (v : Variant) (srt : Sorter) (hs : srt.Valid) (c : State) (hinv : Inv c)
    (op : Op) (hshape : NoShape v c op) :
    SpecStep (abs c) op (step v srt c op).2 (abs (step v srt c op).1) :=
  (step_spec v srt hs c hinv op).2.2 hshape

/-! concrete states for the counter-examples (each satisfies `Inv`; rv/c14.py builds the same
    simulations on the real code: `probe_variant`) -/

def wOne (nActive : Int) (tree : Bool) : State :=
  { mem := [⟨1, 11, false⟩, P.zero], nAlloc := 2, N := 1, nActive := nActive, nVar := 0, lookup := [],
    treeCfg := tree, boxCfg := tree, treeRoot := tree, forceSorted := false, staleLeaf := false }

def wThree (nActive : Int) (tree : Bool) : State :=
  { mem := [⟨1, 11, false⟩, ⟨2, 12, false⟩, ⟨3, 13, false⟩, P.zero], nAlloc := 4, N := 3, nActive := nActive,
    nVar := 0, lookup := [], treeCfg := tree, boxCfg := tree, treeRoot := tree, forceSorted := false,
    staleLeaf := false }

/-- the full refinement statement is FALSE of the current source: five reachable states and
    requests on which the implementation's answer or resulting particle list is not what the
    plain-list machine allows (F4a, F4b, F4c, F4d, F18b). -/
theorem c14_refinement_fails_current :
    (Inv (wOne (-1) false) ∧
      (abs (remove Variant.current (wOne (-1) false) 5 true).1, (remove Variant.current (wOne (-1) false) 5 true).2)
        ≠ (abs (wOne (-1) false)).remove 5 true) ∧
    (Inv (wThree (-1) true) ∧
      (abs (remove Variant.current (wThree (-1) true) 0 true).1, (remove Variant.current (wThree (-1) true) 0 true).2)
        ≠ (abs (wThree (-1) true)).remove 0 true) ∧
    (Inv (wOne 1 false) ∧
      (abs (remove Variant.current (wOne 1 false) 0 true).1, (remove Variant.current (wOne 1 false) 0 true).2)
        ≠ (abs (wOne 1 false)).remove 0 true) ∧
    (Inv (wThree 3 false) ∧
      (abs (remove Variant.current (wThree 3 false) 0 false).1, (remove Variant.current (wThree 3 false) 0 false).2)
        ≠ (abs (wThree 3 false)).remove 0 false) ∧
    (Inv (wOne (-1) true) ∧
      (add (remove Variant.current (wOne (-1) true) 0 false).1 ⟨2, 12, false⟩ .inBox).2 = Out.errSameCoords) := by
  decide +kernel


/-- the shortest reachable history on which the current source leaves the plain-list machine:
    from an empty simulation, add one particle, then `remove(index = 5)` (finding F4a) -/
def histF4a : List (Sorter × Op) := [(⟨id⟩, .add ⟨1, 11, false⟩ .inBox), (⟨id⟩, .remove 5 true)]

theorem c14_histF4a_answers :
    (run Variant.current (State.init false false false) histF4a).2 = [Out.ok, Out.lastRemoved] ∧
    (run Variant.current (State.init false false false) histF4a).1.N = 0 := by decide +kernel

/-- negation of `c14_run_refines` for the current source, on a history that starts from the
    empty simulation: no run of the plain-list machine produces these answers -/
theorem c14_run_refines_fails_current :
    ¬ SpecRun (abs (State.init false false false)) (histF4a.map (·.2))
        (run Variant.current (State.init false false false) histF4a).2
        (abs (run Variant.current (State.init false false false) histF4a).1) := by
  intro h
  rw [c14_histF4a_answers.1] at h
  simp only [histF4a, List.map] at h
  cases h with
  | cons h1 h2 =>
    cases h2 with
    | cons h3 h4 =>
      simp only [SpecStep] at h1 h3
      have e1 := congrArg Prod.fst h1
      simp only at e1
      subst e1
      have e3 := congrArg Prod.snd h3
      simp only at e3
      revert e3
      decide +kernel

/-! ### invalid requests fail and leave the simulation unchanged -/

/-- FULL STATEMENT (repaired source): an out-of-range index is answered `errRange` and the
    state — not only its abstraction — is untouched; so is a sorted removal in a simulation
    with a tree (`errTreeSorted`) and a removal while variational particles exist. -/
theorem c14_invalid_unchanged (c : State) (index : Int) (ks : Bool) :
    ((index < 0 ∨ index ≥ (c.N : Int)) → remove Variant.repaired c index ks = (c, Out.errRange)) ∧
    (0 ≤ index → index < (c.N : Int) → c.N ≠ 1 → c.nVar ≠ 0 →
      remove Variant.repaired c index ks = (c, Out.errMegno)) ∧
    (0 ≤ index → index < (c.N : Int) → c.N ≠ 1 → c.nVar = 0 → (ks || c.forceSorted) = true →
      c.treeRoot = true → remove Variant.repaired c index ks = (c, Out.errTreeSorted)) := by
  refine ⟨fun h => ?_, fun h0 h1 hN hv => ?_, fun h0 h1 hN hv hk ht => ?_⟩
  · rw [remove_eq, if_pos ((rangeBad_iff c index).mpr h)]; simp [Variant.repaired]
  · have : ¬ rangeBad c index = true := fun h => by have := (rangeBad_iff c index).mp h; omega
    rw [remove_eq, if_neg this, if_neg hN]; simp [removeRest, hv]
  · have : ¬ rangeBad c index = true := fun h => by have := (rangeBad_iff c index).mp h; omega
    rw [remove_eq, if_neg this, if_neg hN]; simp [removeRest, hv, hk, removeSorted, ht, Variant.repaired]

/-- the same for every variant when the two F4 call shapes are excluded (`N ≠ 1` for the range
    check; `v.treeFirst` for the tree test) -/
theorem c14_invalid_unchanged_partial (v : Variant) (c : State) (index : Int) (ks : Bool) :
    ((index < 0 ∨ index ≥ (c.N : Int)) → (v.rangeFirst = true ∨ c.N ≠ 1) →
      remove v c index ks = (c, Out.errRange)) ∧
    (0 ≤ index → index < (c.N : Int) → c.N ≠ 1 → c.nVar = 0 → (ks || c.forceSorted) = true →
      c.treeRoot = true → v.treeFirst = true → remove v c index ks = (c, Out.errTreeSorted)) := by
  refine ⟨fun h hs => ?_, fun h0 h1 hN hv hk ht hf => ?_⟩
  · rw [remove_eq, if_pos ((rangeBad_iff c index).mpr h)]
    rcases hs with hs | hs <;> simp [hs]
  · have : ¬ rangeBad c index = true := fun h => by have := (rangeBad_iff c index).mp h; omega
    rw [remove_eq, if_neg this, if_neg hN]; simp [removeRest, hv, hk, removeSorted, ht, hf]

/-- … and it is FALSE of the current source in exactly those two shapes:
    (a) one particle, `remove(index = 5)`: answered "Last particle removed", N becomes 0;
    (b) three particles in a tree simulation, sorted `remove(index = 0)`: answered
        `errTreeSorted` ("Did not remove particle") after N became 2 and the array was shifted. -/
theorem c14_invalid_unchanged_fails_current :
    (remove Variant.current (wOne (-1) false) 5 true).2 = Out.lastRemoved ∧
    (remove Variant.current (wOne (-1) false) 5 true).1.N = 0 ∧
    (remove Variant.current (wThree (-1) true) 0 true).2 = Out.errTreeSorted ∧
    (remove Variant.current (wThree (-1) true) 0 true).1.N = 2 ∧
    (abs (remove Variant.current (wThree (-1) true) 0 true).1).ps = [⟨2, 12, false⟩, ⟨3, 13, false⟩] := by
  decide

/-- an unknown hash: `errNotFound`, and nothing but the lookup table has changed — every
    variant, every stale table -/
theorem c14_unknown_hash_unchanged (v : Variant) (srt : Sorter) (hs : srt.Valid) (c : State) (hinv : Inv c)
    (h : Nat) (ks : Bool) (hnone : ∀ (i : Nat) (p : P), i < c.N → c.mem[i]? = some p → p.hash ≠ h) :
    (removeByHash v srt c h ks).2 = Out.errNotFound ∧
    ((removeByHash v srt c h ks).1 = c ∨ ∃ t, (removeByHash v srt c h ks).1 = { c with lookup := t }) := by
  obtain ⟨h1, h2⟩ := particleByHash_spec srt hs c hinv.le h
  unfold removeByHash
  generalize particleByHash srt c h = res at h1 h2
  obtain ⟨c', o⟩ := res
  cases o <;> simp only [LookupRes] at h2 <;> try exact h2.elim
  · obtain ⟨hi, p, hp, hh⟩ := h2
    exact absurd hh (hnone _ p hi hp)
  · exact ⟨rfl, h1⟩

/-! ### lookup by hash, whatever the staleness of the table -/

/-- soundness: the particle returned carries the requested hash and is live — for ANY content
    of the lookup table (stale indices, stale hashes, unsorted, garbage) -/
theorem c14_lookup_sound (srt : Sorter) (hs : srt.Valid) (c : State) (hN : c.N ≤ c.mem.length)
    (h i : Nat) (hf : (particleByHash srt c h).2 = Out.found i) :
    i < c.N ∧ ∃ p, c.mem[i]? = some p ∧ p.hash = h := by
  have := (particleByHash_spec srt hs c hN h).2
  rw [hf] at this; exact this

/-- completeness: if some live particle carries the hash, one is returned (after at most one
    rebuild) — again for any table -/
theorem c14_lookup_complete (srt : Sorter) (hs : srt.Valid) (c : State) (hN : c.N ≤ c.mem.length)
    (h i : Nat) (p : P) (hi : i < c.N) (hp : c.mem[i]? = some p) (hh : p.hash = h) :
    ∃ j, (particleByHash srt c h).2 = Out.found j := by
  have := (particleByHash_spec srt hs c hN h).2
  generalize (particleByHash srt c h).2 = o at this
  cases o <;> simp only [LookupRes] at this <;> try exact this.elim
  · exact ⟨_, rfl⟩
  · exact absurd hh (this i p hi hp)

/-- a lookup changes nothing but the lookup table -/
theorem c14_lookup_pure (srt : Sorter) (hs : srt.Valid) (c : State) (hN : c.N ≤ c.mem.length) (h : Nat) :
    (particleByHash srt c h).1 = c ∨ ∃ t, (particleByHash srt c h).1 = { c with lookup := t } :=
  (particleByHash_spec srt hs c hN h).1

/-- the zero-hash special case of the rebuild: a freshly rebuilt table answers hash 0 with the
    LAST particle whose hash is 0 (the default hash of particles that were never named) -/
theorem c14_zero_hash_is_last (srt : Sorter) (hs : srt.Valid) (c : State) (i : Nat)
    (hf : (lookupAgain srt c 0).2 = Out.found i) (j : Nat) (p : P) (hj : j < c.N)
    (hp : c.mem[j]? = some p) (hp0 : p.hash = 0) : j ≤ i :=
  lookupAgain_zero_last srt hs c i hf j p hj hp hp0

example : (particleByHash ⟨id⟩ (wThree (-1) false) 12).2 = Out.found 1 := by decide +kernel
example : (particleByHash ⟨id⟩ { wThree (-1) false with lookup := [⟨12, 2⟩, ⟨5, 7⟩] } 12).2 = Out.found 1 := by
  decide +kernel

/-! ### what a successful removal does to the order -/

/-- `keep_sorted` (or MERCURIUS/TRACE): the result is the input with one element erased, and
    `N_active` is decremented iff an active particle went — every variant -/
theorem c14_remove_sorted_erases (v : Variant) (c : State) (hinv : Inv c) (index : Int) (ks : Bool)
    (h0 : 0 ≤ index) (h1 : index < (c.N : Int)) (hN : c.N ≠ 1) (hv : c.nVar = 0)
    (hk : (ks || c.forceSorted) = true) (ht : c.treeRoot = false) :
    (remove v c index ks).2 = Out.removed ∧
    (abs (remove v c index ks).1).ps = (abs c).ps.eraseIdx index.toNat ∧
    (remove v c index ks).1.nActive = (if index < c.nActive then c.nActive - 1 else c.nActive) := by
  have hrb : ¬ rangeBad c index = true := fun h => by have := (rangeBad_iff c index).mp h; omega
  have hr : remove v c index ks = removeSorted v c index := by
    rw [remove_eq, if_neg hrb, if_neg hN]; simp [removeRest, hv, hk]
  have := (removeSorted_spec v c hinv index h0 h1).2.2 (Or.inr ht)
  rw [ht] at this
  simp only [Bool.false_eq_true, if_false, Prod.mk.injEq] at this
  rw [hr]
  refine ⟨this.2, by rw [this.1], ?_⟩
  have e := congrArg Spec.active this.1
  exact e

/-- `keep_sorted = 0`, no tree: the last element is moved into the hole — every variant -/
theorem c14_remove_unsorted_moves_last (v : Variant) (c : State) (hinv : Inv c) (index : Int) (ks : Bool)
    (h0 : 0 ≤ index) (h1 : index < (c.N : Int)) (hN : c.N ≠ 1) (hv : c.nVar = 0)
    (hk : (ks || c.forceSorted) = false) (ht : c.treeRoot = false) :
    (remove v c index ks).2 = Out.removed ∧
    ∃ last, (abs c).ps.getLast? = some last ∧
      (abs (remove v c index ks).1).ps = ((abs c).ps.set index.toNat last).dropLast := by
  have hrb : ¬ rangeBad c index = true := fun h => by have := (rangeBad_iff c index).mp h; omega
  have hr : remove v c index ks = removeUnsorted v c index := by
    rw [remove_eq, if_neg hrb, if_neg hN]; simp [removeRest, hv, hk]
  have hle := hinv.le
  obtain ⟨n, hn⟩ : ∃ n, c.N = n + 1 := ⟨c.N - 1, by omega⟩
  have hnl : n < c.mem.length := by omega
  have hil : index.toNat < c.mem.length := by omega
  have hn' : c.N - 1 = n := by omega
  have hlast : (abs c).ps.getLast? = some c.mem[n] := by
    simp only [abs, hn]; rw [getLast_take c.mem n (by omega)]; exact List.getElem?_eq_getElem hnl
  rw [hr]
  unfold removeUnsorted
  simp only [ht, Bool.false_eq_true, if_false, hn', List.getElem?_eq_getElem hnl, writeAt, if_pos hil]
  refine ⟨trivial, c.mem[n], hlast, ?_⟩
  have := take_unsorted_remove c.mem n index.toNat c.mem[n] (by omega) (by omega) (List.getElem?_eq_getElem hnl)
  simp only [abs, hn]; exact this

example : (abs (remove Variant.current (wThree (-1) false) 0 false).1).ps = [⟨3, 13, false⟩, ⟨2, 12, false⟩] := by
  decide

/-! ### the active count -/

/-- FULL STATEMENT (repaired source): `-1 ≤ N_active ≤ N` is preserved by every history -/
theorem c14_active_le_N (ops : List (Sorter × Op)) (c : State) (hinv : Inv c) (hfresh : c.staleLeaf = false)
    (hsort : ∀ x ∈ ops, x.1.Valid) (ha : -1 ≤ c.nActive ∧ c.nActive ≤ (c.N : Int)) :
    -1 ≤ (run Variant.repaired c ops).1.nActive ∧
    (run Variant.repaired c ops).1.nActive ≤ ((run Variant.repaired c ops).1.N : Int) := by
  have hr := c14_run_refines ops c hinv hfresh hsort
  have h0 : (abs c).ActOK := by simp only [Spec.ActOK, abs_len hinv]; exact ha
  have := specRun_actOK _ _ _ _ hr h0
  simp only [Spec.ActOK, abs_len (run_spec _ ops c hinv hsort).1] at this
  exact this

/-- any variant, histories without the excluded call shapes -/
theorem c14_active_le_N_partial (v : Variant) (ops : List (Sorter × Op)) (c : State) (hinv : Inv c)
    (hsort : ∀ x ∈ ops, x.1.Valid) (hshape : NoShapeRun v c ops)
    (ha : -1 ≤ c.nActive ∧ c.nActive ≤ (c.N : Int)) :
    -1 ≤ (run v c ops).1.nActive ∧ (run v c ops).1.nActive ≤ ((run v c ops).1.N : Int) := by
  have hr := c14_run_refines_partial v ops c hinv hsort hshape
  have h0 : (abs c).ActOK := by simp only [Spec.ActOK, abs_len hinv]; exact ha
  have := specRun_actOK _ _ _ _ hr h0
  simp only [Spec.ActOK, abs_len (run_spec _ ops c hinv hsort).1] at this
  exact this

/-- FALSE of the current source: removing the last particle (F4c) and unsorted removal with
    `N_active = N` (F4d) leave `N_active > N` -/
theorem c14_active_le_N_fails_current :
    (remove Variant.current (wOne 1 false) 0 true).1.N = 0 ∧
    (remove Variant.current (wOne 1 false) 0 true).1.nActive = 1 ∧
    (remove Variant.current (wThree 3 false) 0 false).1.N = 2 ∧
    (remove Variant.current (wThree 3 false) 0 false).1.nActive = 3 := by
  decide

/-! ### the Python container's integer keys and slices -/

/-- an integer key accepted by `sim.particles[k]` denotes a live slot -/
theorem c14_py_index_in_bounds (n : Nat) (k : Int) (i : Nat) (h : pyIndex n k = some i) : i < n := by
  unfold pyIndex at h
  simp only at h
  split at h
  · split at h <;> simp at h <;> omega
  · split at h <;> simp at h <;> omega

/-- negative keys count from the end -/
theorem c14_py_index_negative (n : Nat) (k : Nat) (h1 : 1 ≤ k) (h2 : k ≤ n) :
    pyIndex n (-(k : Int)) = some (n - k) := by
  unfold pyIndex
  have hk : (-(k : Int)) < 0 := by omega
  simp only [hk, if_true]
  rw [if_neg (by omega)]
  congr 1; omega

example : pySlice 10 none none (-3) = [9, 6, 3, 0] := by decide
example : pySlice 7 (some (-100)) (some 5) 2 = [0, 2, 4] := by decide

end RV.Particles
