import RV.Model.Particles
namespace RV.Particles

/-- an integer key accepted by the Python container denotes a live slot -/
theorem c14_py_index_in_bounds (n : Nat) (k : Int) (i : Nat) (h : pyIndex n k = some i) : i < n := by
  unfold pyIndex at h
  simp only at h
  split at h
  · simp at h
  · split at h <;> simp at h <;> omega

end RV.Particles
