import RV.Proofs.ParticlesOps
import RV.Proofs.ParticlesSlice
import RV.Proofs.ParticlesSide
import RV.Proofs.ParticlesLookup
/-
  C14 — particle bookkeeping stays consistent under any add / remove / hash history.

  All statements are about the definitions of RV/Model/Particles.lean — the same ones the
  native driver drv_c14 runs against particle.c (through ctypes) and against the Python
  container, operation by operation.  `Variant.original` is the source before fixes/F4.diff,
  `Variant.current` the source as it is today (F4.diff applied), `Variant.repaired` the source
  with fixes/F4g.diff and fixes/F4h.diff applied as well; rv/c14.py determines on the real code
  which one it is running (by replaying the counter-examples below) and tells the driver.

  Quantification: every finite history `ops : List (Sorter × Op)` — each operation comes with
  the behaviour of C's `qsort` at that moment, an arbitrary function returning a sorted
  permutation (`Sorter.Valid`) — from every state satisfying the storage invariant
  (`Inv`: the allocation has `N_allocated` slots and `N ≤ N_allocated`), with an arbitrary
  (possibly stale, possibly garbage) lookup table.
-/
set_option linter.unusedVariables false
namespace RV.Particles

/-! ### storage: N ≤ N_allocated, every access inside the allocation -/

/-- FULL STATEMENT (source with the bounded `dcrit` loop, fixes/F4g.diff): along every history the
    allocation always has `N_allocated` slots, `N ≤ N_allocated`, and no operation reads or writes outside
    the particle array, the lookup table or MERCURIUS' `dcrit` array (`Out.fault` is what the model answers
    to an out-of-bounds access). -/
theorem c14_storage_invariant (v : Variant) (hb : v.dcritBounded = true)
    (hw : v.dcritWithParticles = true ∨ v.rangeFirst = true)
    (ops : List (Sorter × Op)) (c : State) (hinv : Inv c) (hsort : ∀ x ∈ ops, x.1.Valid) :
    Inv (run v c ops).1 ∧ ∀ o ∈ (run v c ops).2, o ≠ Out.fault :=
  ⟨(run_spec v ops c hinv hsort).1, (run_spec v ops c hinv hsort).2.1 (noFaultRun_bounded v hb hw ops c)⟩

/-- every variant — in particular the current source: the particle array and the lookup table are never
    left; `dcrit` is not left on histories without the call shape of finding F4g (`NoFaultRun`: MERCURIUS,
    `0 < N_allocated_dcrit < N` because particles were added since the last step, removal of an index
    below `N_allocated_dcrit`). -/
theorem c14_storage_invariant_partial (v : Variant) (ops : List (Sorter × Op)) (c : State) (hinv : Inv c)
    (hsort : ∀ x ∈ ops, x.1.Valid) :
    Inv (run v c ops).1 ∧ (NoFaultRun v c ops → ∀ o ∈ (run v c ops).2, o ≠ Out.fault) :=
  ⟨(run_spec v ops c hinv hsort).1, (run_spec v ops c hinv hsort).2.1⟩

/-- MERCURIUS after a step with three particles (`dcrit` has 3 slots), four particles added since:
    seven live particles -/
def wMerc : State :=
  { mem := [⟨1, 11, false⟩, ⟨2, 12, false⟩, ⟨3, 13, false⟩, ⟨4, 14, false⟩, ⟨5, 15, false⟩, ⟨6, 16, false⟩,
            ⟨7, 17, false⟩, P.zero], nAlloc := 8, N := 7, nActive := -1, nVar := 0, lookup := [],
    treeCfg := false, boxCfg := false, treeRoot := false, forceSorted := true, staleLeaf := false,
    mercurius := true, dcrit := [100, 101, 102], recalcR := true, recalcC := true }

/-- the full statement is FALSE of the current source (finding F4g): `remove(0)` on `wMerc` runs the
    `dcrit` shift loop up to `N-1 = 6` in an array of 3 -/
theorem c14_storage_invariant_fails_current :
    Inv wMerc ∧ (remove Variant.current wMerc 0 true).2 = Out.fault ∧
    (remove Variant.repaired wMerc 0 true).2 = Out.removed ∧
    (remove Variant.repaired wMerc 0 true).1.dcrit = [101, 102, 102] := by decide

example : Inv (State.init true true false) := by decide

/-! ### refinement: the simulation holds exactly the particles of the plain-list machine -/

/-- FULL STATEMENT (true of the repaired source): every history is a history of the
    plain-list machine `Spec` with the same answers, and the abstraction
    `abs c = (particles[0..N), N_active, …)` commutes with every step. -/
theorem c14_run_refines (ops : List (Sorter × Op)) (c : State) (hinv : Inv c)
    (hfresh : c.staleLeaf = false) (hsort : ∀ x ∈ ops, x.1.Valid) :
    SpecRun (abs c) (ops.map (·.2)) (run Variant.repaired c ops).2 (abs (run Variant.repaired c ops).1) :=
  (run_spec _ ops c hinv hsort).2.2 (noShapeRun_repaired ops c hinv hfresh hsort)

/-- the same for any source variant — in particular the current one — on histories in which no
    operation has one of the call shapes of findings F4a-d / F18 (`NoShape`, spelled out in
    RV/Proofs/ParticlesOps.lean: N==1 with an out-of-range index; sorted removal with a tree;
    removing the last particle while N_active ≥ 1 or a tree exists; unsorted removal with
    N_active ≥ N; remove_all with a tree; add after the tree kept a stale leaf). -/
theorem c14_run_refines_partial (v : Variant) (ops : List (Sorter × Op)) (c : State) (hinv : Inv c)
    (hsort : ∀ x ∈ ops, x.1.Valid) (hshape : NoShapeRun v c ops) :
    SpecRun (abs c) (ops.map (·.2)) (run v c ops).2 (abs (run v c ops).1) :=
  (run_spec v ops c hinv hsort).2.2 hshape

/-- one step, repaired source -/
theorem c14_step_refines (srt : Sorter) (hs : srt.Valid) (c : State) (hinv : Inv c)
    (hfresh : c.staleLeaf = false) (op : Op) :
    SpecStep (abs c) op (step Variant.repaired srt c op).2 (abs (step Variant.repaired srt c op).1) :=
  (step_spec _ srt hs c hinv op).2.2 (noShape_repaired c hfresh op)

/-- one step, any variant, outside the excluded call shapes -/
theorem c14_step_refines_partial (v : Variant) (srt : Sorter) (hs : srt.Valid) (c : State) (hinv : Inv c)
    (op : Op) (hshape : NoShape v c op) :
    SpecStep (abs c) op (step v srt c op).2 (abs (step v srt c op).1) :=
  (step_spec v srt hs c hinv op).2.2 hshape

/-! concrete states for the counter-examples (each satisfies `Inv`; rv/c14.py builds the same
    simulations on the real code: `probe_variant`) -/

def wOne (nActive : Int) (tree : Bool) : State :=
  { mem := [⟨1, 11, false⟩, P.zero], nAlloc := 2, N := 1, nActive := nActive, nVar := 0, lookup := [],
    treeCfg := tree, boxCfg := tree, treeRoot := tree, forceSorted := false, staleLeaf := false,
    mercurius := false, dcrit := [], recalcR := false, recalcC := false }

def wThree (nActive : Int) (tree : Bool) : State :=
  { mem := [⟨1, 11, false⟩, ⟨2, 12, false⟩, ⟨3, 13, false⟩, P.zero], nAlloc := 4, N := 3, nActive := nActive,
    nVar := 0, lookup := [], treeCfg := tree, boxCfg := tree, treeRoot := tree, forceSorted := false,
    staleLeaf := false, mercurius := false, dcrit := [], recalcR := false, recalcC := false }

/-- the full refinement statement is FALSE of the current source: five reachable states and
    requests on which the implementation's answer or resulting particle list is not what the
    plain-list machine allows (F4a, F4b, F4c, F4d, F18b). -/
theorem c14_refinement_fails_original :
    (Inv (wOne (-1) false) ∧
      (abs (remove Variant.original (wOne (-1) false) 5 true).1, (remove Variant.original (wOne (-1) false) 5 true).2)
        ≠ (abs (wOne (-1) false)).remove 5 true) ∧
    (Inv (wThree (-1) true) ∧
      (abs (remove Variant.original (wThree (-1) true) 0 true).1, (remove Variant.original (wThree (-1) true) 0 true).2)
        ≠ (abs (wThree (-1) true)).remove 0 true) ∧
    (Inv (wOne 1 false) ∧
      (abs (remove Variant.original (wOne 1 false) 0 true).1, (remove Variant.original (wOne 1 false) 0 true).2)
        ≠ (abs (wOne 1 false)).remove 0 true) ∧
    (Inv (wThree 3 false) ∧
      (abs (remove Variant.original (wThree 3 false) 0 false).1, (remove Variant.original (wThree 3 false) 0 false).2)
        ≠ (abs (wThree 3 false)).remove 0 false) ∧
    (Inv (wOne (-1) true) ∧
      (add (remove Variant.original (wOne (-1) true) 0 false).1 ⟨2, 12, false⟩ .inBox).2 = Out.errSameCoords) := by
  decide +kernel


/-- the shortest reachable history on which the current source leaves the plain-list machine:
    from an empty simulation, add one particle, then `remove(index = 5)` (finding F4a) -/
def histF4a : List (Sorter × Op) := [(⟨id⟩, .add ⟨1, 11, false⟩ .inBox), (⟨id⟩, .remove 5 true)]

theorem c14_histF4a_answers :
    (run Variant.original (State.init false false false) histF4a).2 = [Out.ok, Out.lastRemoved] ∧
    (run Variant.original (State.init false false false) histF4a).1.N = 0 := by decide +kernel

/-- negation of `c14_run_refines` for the current source, on a history that starts from the
    empty simulation: no run of the plain-list machine produces these answers -/
theorem c14_run_refines_fails_original :
    ¬ SpecRun (abs (State.init false false false)) (histF4a.map (·.2))
        (run Variant.original (State.init false false false) histF4a).2
        (abs (run Variant.original (State.init false false false) histF4a).1) := by
  intro h
  rw [c14_histF4a_answers.1] at h
  simp only [histF4a, List.map] at h
  cases h with
  | cons h1 h2 =>
    cases h2 with
    | cons h3 h4 =>
      simp only [SpecStep] at h1 h3
      have e1 := congrArg Prod.fst h1
      simp only at e1
      subst e1
      have e3 := congrArg Prod.snd h3
      simp only at e3
      revert e3
      decide +kernel

/-! ### invalid requests fail and leave the simulation unchanged -/

/-- in the placement of fixes/F4g.diff a removal that is not carried out is the core's answer, state included -/
theorem remove_eq_core (v : Variant) (hW : v.dcritWithParticles = true) (c : State) (i : Int) (ks : Bool)
    (h : (removeCore v c i ks).2 ≠ Out.removed) : remove v c i ks = removeCore v c i ks := by
  unfold remove; rw [if_pos hW]; simp only []; rw [if_neg h]

/-- FULL STATEMENT (repaired source): an out-of-range index is answered `errRange` and the
    state — not only its abstraction, and MERCURIUS' `dcrit` included — is untouched; so is a removal while
    variational particles exist (`errMegno`) and a sorted removal in a simulation with a tree (`errTreeSorted`). -/
theorem c14_invalid_unchanged (c : State) (index : Int) (ks : Bool) :
    ((index < 0 ∨ index ≥ (c.N : Int)) → remove Variant.repaired c index ks = (c, Out.errRange)) ∧
    (0 ≤ index → index < (c.N : Int) → c.N ≠ 1 → c.nVar ≠ 0 →
      remove Variant.repaired c index ks = (c, Out.errMegno)) ∧
    (0 ≤ index → index < (c.N : Int) → c.N ≠ 1 → c.nVar = 0 → (ks || c.forceSorted) = true →
      c.treeRoot = true → remove Variant.repaired c index ks = (c, Out.errTreeSorted)) := by
  refine ⟨fun h => ?_, fun h0 h1 hN hv => ?_, fun h0 h1 hN hv hk ht => ?_⟩
  · have e : removeCore Variant.repaired c index ks = (c, Out.errRange) := by
      rw [removeCore_eq, if_pos ((rangeBad_iff c index).mpr h)]; simp [Variant.repaired]
    rw [remove_eq_core _ rfl _ _ _ (by rw [e]; simp), e]
  · have : ¬ rangeBad c index = true := fun h => by have := (rangeBad_iff c index).mp h; omega
    have e : removeCore Variant.repaired c index ks = (c, Out.errMegno) := by
      rw [removeCore_eq, if_neg this, if_neg hN]; simp [removeRest, hv]
    rw [remove_eq_core _ rfl _ _ _ (by rw [e]; simp), e]
  · have : ¬ rangeBad c index = true := fun h => by have := (rangeBad_iff c index).mp h; omega
    have e : removeCore Variant.repaired c index ks = (c, Out.errTreeSorted) := by
      rw [removeCore_eq, if_neg this, if_neg hN]; simp [removeRest, hv, hk, removeSorted, ht, Variant.repaired]
    rw [remove_eq_core _ rfl _ _ _ (by rw [e]; simp), e]

/-- the same for every variant when the call shapes of the findings are excluded: `N ≠ 1` and no MERCURIUS
    prologue before the range check (F4a, F4e); `v.treeFirst` and no `dcrit` shift before the refusal
    (F4b, F4g) -/
theorem c14_invalid_unchanged_partial (v : Variant) (c : State) (index : Int) (ks : Bool)
    (hd : v.dcritWithParticles = true ∨ c.mercurius = false) :
    ((index < 0 ∨ index ≥ (c.N : Int)) → (v.rangeFirst = true ∨ c.N ≠ 1) →
      remove v c index ks = (c, Out.errRange)) ∧
    (0 ≤ index → index < (c.N : Int) → c.N ≠ 1 → c.nVar = 0 → (ks || c.forceSorted) = true →
      c.treeRoot = true → v.treeFirst = true → remove v c index ks = (c, Out.errTreeSorted)) := by
  have hwrap : ∀ o, removeCore v c index ks = (c, o) → o ≠ Out.removed → remove v c index ks = (c, o) := by
    intro o e ho
    rcases hd with hW | hm
    · rw [remove_eq_core v hW _ _ _ (by rw [e]; exact ho), e]
    · unfold remove
      by_cases hW : v.dcritWithParticles = true
      · rw [if_pos hW]; simp only []; rw [if_neg (by rw [e]; exact ho), e]
      · rw [if_neg hW, dcritShift_not_merc v c index hm]
        simp only []
        split
        · rename_i hb
          simp only [Bool.and_eq_true] at hb
          have : removeCore v c index ks = (c, Out.errRange) := by
            rw [removeCore_eq, if_pos hb.2, if_neg (by simp [hb.1])]
          rw [this] at e; rw [← e]
        · exact e
  refine ⟨fun h hs => ?_, fun h0 h1 hN hv hk ht hf => ?_⟩
  · apply hwrap _ _ (by simp)
    rw [removeCore_eq, if_pos ((rangeBad_iff c index).mpr h)]
    rcases hs with hs | hs <;> simp [hs]
  · have : ¬ rangeBad c index = true := fun h => by have := (rangeBad_iff c index).mp h; omega
    apply hwrap _ _ (by simp)
    rw [removeCore_eq, if_neg this, if_neg hN]; simp [removeRest, hv, hk, removeSorted, ht, hf]

/-- … and it is FALSE of the original source in exactly those two shapes:
    (a) one particle, `remove(index = 5)`: answered "Last particle removed", N becomes 0;
    (b) three particles in a tree simulation, sorted `remove(index = 0)`: answered
        `errTreeSorted` ("Did not remove particle") after N became 2 and the array was shifted. -/
theorem c14_invalid_unchanged_fails_original :
    (remove Variant.original (wOne (-1) false) 5 true).2 = Out.lastRemoved ∧
    (remove Variant.original (wOne (-1) false) 5 true).1.N = 0 ∧
    (remove Variant.original (wThree (-1) true) 0 true).2 = Out.errTreeSorted ∧
    (remove Variant.original (wThree (-1) true) 0 true).1.N = 2 ∧
    (abs (remove Variant.original (wThree (-1) true) 0 true).1).ps = [⟨2, 12, false⟩, ⟨3, 13, false⟩] := by
  decide

/-- MERCURIUS, `dcrit` covering the three particles, variational particles present -/
def wMercVar : State :=
  { mem := [⟨1, 11, false⟩, ⟨2, 12, false⟩, ⟨3, 13, false⟩, P.zero], nAlloc := 4, N := 3, nActive := -1,
    nVar := 1, lookup := [], treeCfg := false, boxCfg := false, treeRoot := false, forceSorted := true,
    staleLeaf := false, mercurius := true, dcrit := [100, 101, 102], recalcR := false, recalcC := false }

/-- … and still FALSE of the current source when MERCURIUS is in use: a refused removal (`errMegno`, likewise
    `errTreeSorted`) has already shifted `dcrit` (finding F4g, second half) -/
theorem c14_invalid_unchanged_fails_current :
    Inv wMercVar ∧ (remove Variant.current wMercVar 0 true).2 = Out.errMegno ∧
    (remove Variant.current wMercVar 0 true).1.dcrit = [101, 102, 102] ∧
    remove Variant.repaired wMercVar 0 true = (wMercVar, Out.errMegno) := by decide

/-- an unknown hash: `errNotFound`, and nothing but the lookup table has changed — every
    variant, every stale table -/
theorem c14_unknown_hash_unchanged (v : Variant) (srt : Sorter) (hs : srt.Valid) (c : State) (hinv : Inv c)
    (h : Nat) (ks : Bool) (hnone : ∀ (i : Nat) (p : P), i < c.N → c.mem[i]? = some p → p.hash ≠ h) :
    (removeByHash v srt c h ks).2 = Out.errNotFound ∧
    ((removeByHash v srt c h ks).1 = c ∨ ∃ t, (removeByHash v srt c h ks).1 = { c with lookup := t }) := by
  obtain ⟨h1, h2⟩ := particleByHash_spec srt hs c hinv.le h
  unfold removeByHash
  generalize particleByHash srt c h = res at h1 h2
  obtain ⟨c', o⟩ := res
  cases o <;> simp only [LookupRes] at h2 <;> try exact h2.elim
  · obtain ⟨hi, p, hp, hh⟩ := h2
    exact absurd hh (hnone _ p hi hp)
  · exact ⟨rfl, h1⟩

/-! ### lookup by hash, whatever the staleness of the table -/

/-- soundness: the particle returned carries the requested hash and is live — for ANY content
    of the lookup table (stale indices, stale hashes, unsorted, garbage) -/
theorem c14_lookup_sound (srt : Sorter) (hs : srt.Valid) (c : State) (hN : c.N ≤ c.mem.length)
    (h i : Nat) (hf : (particleByHash srt c h).2 = Out.found i) :
    i < c.N ∧ ∃ p, c.mem[i]? = some p ∧ p.hash = h := by
  have := (particleByHash_spec srt hs c hN h).2
  rw [hf] at this; exact this

/-- completeness: if some live particle carries the hash, one is returned (after at most one
    rebuild) — again for any table -/
theorem c14_lookup_complete (srt : Sorter) (hs : srt.Valid) (c : State) (hN : c.N ≤ c.mem.length)
    (h i : Nat) (p : P) (hi : i < c.N) (hp : c.mem[i]? = some p) (hh : p.hash = h) :
    ∃ j, (particleByHash srt c h).2 = Out.found j := by
  have := (particleByHash_spec srt hs c hN h).2
  generalize (particleByHash srt c h).2 = o at this
  cases o <;> simp only [LookupRes] at this <;> try exact this.elim
  · exact ⟨_, rfl⟩
  · exact absurd hh (this i p hi hp)

/-- a lookup changes nothing but the lookup table -/
theorem c14_lookup_pure (srt : Sorter) (hs : srt.Valid) (c : State) (hN : c.N ≤ c.mem.length) (h : Nat) :
    (particleByHash srt c h).1 = c ∨ ∃ t, (particleByHash srt c h).1 = { c with lookup := t } :=
  (particleByHash_spec srt hs c hN h).1

/-- the zero-hash special case of the rebuild: a freshly rebuilt table answers hash 0 with the
    LAST particle whose hash is 0 (the default hash of particles that were never named) -/
theorem c14_zero_hash_is_last (srt : Sorter) (hs : srt.Valid) (c : State) (i : Nat)
    (hf : (lookupAgain srt c 0).2 = Out.found i) (j : Nat) (p : P) (hj : j < c.N)
    (hp : c.mem[j]? = some p) (hp0 : p.hash = 0) : j ≤ i :=
  lookupAgain_zero_last srt hs c i hf j p hj hp hp0

example : (particleByHash ⟨id⟩ (wThree (-1) false) 12).2 = Out.found 1 := by decide +kernel
example : (particleByHash ⟨id⟩ { wThree (-1) false with lookup := [⟨12, 2⟩, ⟨5, 7⟩] } 12).2 = Out.found 1 := by
  decide +kernel

/-! ### the storage of the lookup table (RV/Model/ParticlesLookup.lean) -/

/-- FULL STATEMENT: `reb_update_particle_lookup_table` on any particle array (any mixture of zero, duplicate and distinct
    hashes) starting from any previous allocation (any capacity, any stale content): the growth test inside the loop
    (`N_hash >= N_allocated_lookup` → double, or 128) makes every write — the append at slot `N_hash`, the first zero-hash entry
    at slot `zerohash = i`, its later in-place updates — land inside the allocation; afterwards
    `N_lookup ≤ N_allocated_lookup`, `N_lookup ≤ N`, the allocation has not shrunk, and the first `N_lookup` cells are exactly the
    entries of the abstract loop that the lookup theorems (`c14_lookup_sound/complete/zero_hash_is_last`) are about. -/
theorem c14_lookup_table_allocation (ps : List P) (cells0 : List (Option Entry)) :
    ∃ cells n t, rebuildAllocLoop ps 0 cells0 0 none = some (cells, n) ∧ rebuildLoop ps 0 [] none = some t ∧
      n = t.length ∧ n ≤ cells.length ∧ n ≤ ps.length ∧ cells0.length ≤ cells.length ∧
      ∀ k, k < n → cells[k]? = some t[k]? :=
  rebuildAlloc_spec ps cells0

/-- the capacity after a rebuild covers the table and never shrinks -/
theorem c14_lookup_table_capacity (cap : Nat) (ps : List P) :
    cap ≤ capAfterRebuild cap ps ∧
    ∃ t, rebuildLoop ps 0 [] none = some t ∧ t.length ≤ capAfterRebuild cap ps := by
  obtain ⟨cells, n, t, e1, e2, e3, e4, _, e6, _⟩ := rebuildAlloc_spec ps (List.replicate cap none)
  unfold capAfterRebuild
  rw [e1]
  simp only [List.length_replicate] at e6
  exact ⟨e6, t, e2, by simp only []; omega⟩

example : capAfterRebuild 0 [⟨1, 5, false⟩, ⟨2, 0, false⟩, ⟨3, 0, false⟩] = 128 ∧
    capAfterRebuild 128 ((List.range 129).map fun i => ⟨i, i + 1, false⟩) = 256 ∧
    capAfterRebuild 128 ((List.range 129).map fun i => ⟨i, 0, false⟩) = 128 := by decide +kernel

/-- a lookup that finds a live particle carrying the hash in the table as it stands does not rebuild: the state, and with
    it `N_allocated_lookup`, is untouched -/
theorem c14_lookup_no_rebuild_when_table_answers (srt : Sorter) (c : State) (h : Nat) (hr : rebuilds c h = false)
    (hnf : search c.lookup h c.N ≠ .fault) : (particleByHash srt c h).1 = c := by
  unfold rebuilds at hr
  unfold particleByHash
  cases hs : search c.lookup h c.N with
  | fault => exact absurd hs hnf
  | miss => rw [hs] at hr; simp at hr
  | hit i =>
    rw [hs] at hr
    simp only [] at hr ⊢
    cases hm : c.mem[i]? with
    | none => rfl
    | some p =>
      rw [hm] at hr
      simp only [decide_eq_false_iff_not, ne_eq, Decidable.not_not] at hr
      simp only [hr, if_true]

/-- FULL STATEMENT: when exactly one live particle carries the hash, the lookup returns exactly that particle — for any
    (stale, garbage) table and any admissible `qsort` -/
theorem c14_lookup_unique_exact (srt : Sorter) (hs : srt.Valid) (c : State) (hN : c.N ≤ c.mem.length)
    (h i : Nat) (p : P) (hi : i < c.N) (hp : c.mem[i]? = some p) (hh : p.hash = h)
    (huniq : ∀ j q, j < c.N → c.mem[j]? = some q → q.hash = h → j = i) :
    (particleByHash srt c h).2 = Out.found i := by
  obtain ⟨j, hj⟩ := c14_lookup_complete srt hs c hN h i p hi hp hh
  obtain ⟨hjn, q, hq, hqh⟩ := c14_lookup_sound srt hs c hN h j hj
  rw [hj, huniq j q hjn hq hqh]

example : (particleByHash ⟨id⟩ { wThree (-1) false with lookup := [⟨99, 0⟩, ⟨13, 1⟩] } 13).2 = Out.found 2 := by decide +kernel

/-! ### what a successful removal does to the order -/

/-- `keep_sorted` (or MERCURIUS/TRACE): the result is the input with one element erased, and
    `N_active` is decremented iff an active particle went — every variant -/
theorem c14_remove_sorted_erases (v : Variant) (c : State) (hinv : Inv c) (index : Int) (ks : Bool)
    (hnf : NoFaultRemove v c index)
    (h0 : 0 ≤ index) (h1 : index < (c.N : Int)) (hN : c.N ≠ 1) (hv : c.nVar = 0)
    (hk : (ks || c.forceSorted) = true) (ht : c.treeRoot = false) :
    (remove v c index ks).2 = Out.removed ∧
    (abs (remove v c index ks).1).ps = (abs c).ps.eraseIdx index.toNat ∧
    (remove v c index ks).1.nActive = (if index < c.nActive then c.nActive - 1 else c.nActive) := by
  have hrb : ¬ rangeBad c index = true := fun h => by have := (rangeBad_iff c index).mp h; omega
  have hr : removeCore v c index ks = removeSorted v c index := by
    rw [removeCore_eq, if_neg hrb, if_neg hN]; simp [removeRest, hv, hk]
  have := (removeSorted_spec v c hinv index h0 h1).2.2 (Or.inr ht)
  rw [ht] at this
  simp only [Bool.false_eq_true, if_false, Prod.mk.injEq] at this
  obtain ⟨d, e⟩ := remove_core_shape v c index ks hnf
  rw [e, hr]
  refine ⟨this.2, ?_, ?_⟩
  · show (abs (removeSorted v c index).1).ps = _
    rw [this.1]
  · exact congrArg Spec.active this.1

/-- `keep_sorted = 0`, no tree: the last element is moved into the hole — every variant -/
theorem c14_remove_unsorted_moves_last (v : Variant) (c : State) (hinv : Inv c) (index : Int) (ks : Bool)
    (hnf : NoFaultRemove v c index)
    (h0 : 0 ≤ index) (h1 : index < (c.N : Int)) (hN : c.N ≠ 1) (hv : c.nVar = 0)
    (hk : (ks || c.forceSorted) = false) (ht : c.treeRoot = false) :
    (remove v c index ks).2 = Out.removed ∧
    ∃ last, (abs c).ps.getLast? = some last ∧
      (abs (remove v c index ks).1).ps = ((abs c).ps.set index.toNat last).dropLast := by
  have hrb : ¬ rangeBad c index = true := fun h => by have := (rangeBad_iff c index).mp h; omega
  have hr : removeCore v c index ks = removeUnsorted v c index := by
    rw [removeCore_eq, if_neg hrb, if_neg hN]; simp [removeRest, hv, hk]
  have hle := hinv.le
  obtain ⟨n, hn⟩ : ∃ n, c.N = n + 1 := ⟨c.N - 1, by omega⟩
  have hnl : n < c.mem.length := by omega
  have hil : index.toNat < c.mem.length := by omega
  have hn' : c.N - 1 = n := by omega
  have hlast : (abs c).ps.getLast? = some c.mem[n] := by
    simp only [abs, hn]; rw [getLast_take c.mem n (by omega)]; exact List.getElem?_eq_getElem hnl
  obtain ⟨d, e⟩ := remove_core_shape v c index ks hnf
  rw [e, hr]
  unfold removeUnsorted
  simp only [ht, Bool.false_eq_true, if_false, hn', List.getElem?_eq_getElem hnl, writeAt, if_pos hil]
  refine ⟨trivial, c.mem[n], hlast, ?_⟩
  have := take_unsorted_remove c.mem n index.toNat c.mem[n] (by omega) (by omega) (List.getElem?_eq_getElem hnl)
  simp only [abs, hn]; exact this

/-- … hence, as multisets of identities, an unsorted removal removes exactly the requested particle -/
theorem c14_remove_unsorted_perm (v : Variant) (c : State) (hinv : Inv c) (index : Int) (ks : Bool)
    (hnf : NoFaultRemove v c index)
    (h0 : 0 ≤ index) (h1 : index < (c.N : Int)) (hN : c.N ≠ 1) (hv : c.nVar = 0)
    (hk : (ks || c.forceSorted) = false) (ht : c.treeRoot = false) :
    (abs (remove v c index ks).1).ps.Perm ((abs c).ps.eraseIdx index.toNat) := by
  obtain ⟨_, last, hl, e⟩ := c14_remove_unsorted_moves_last v c hinv index ks hnf h0 h1 hN hv hk ht
  rw [e]
  exact set_dropLast_perm _ _ _ (by rw [abs_len hinv]; omega) hl

example : (abs (remove Variant.original (wThree (-1) false) 0 false).1).ps = [⟨3, 13, false⟩, ⟨2, 12, false⟩] := by
  decide

/-! ### removal sequences: the multiset of identities -/

/-- the two ways a successful removal rearranges a plain list -/
def eraseAt (l : List P) (i : Nat) (sorted : Bool) : List P :=
  if sorted then l.eraseIdx i
  else match l.getLast? with
    | some last => (l.set i last).dropLast
    | none => l

/-- a sequence of removals `(index, keep_sorted)`; requests with an index out of range are refused -/
def eraseSeq : List P → List (Nat × Bool) → List P × List P
  | l, [] => (l, [])
  | l, (i, srt) :: rest =>
    match l[i]? with
    | none => eraseSeq l rest
    | some x => let r := eraseSeq (eraseAt l i srt) rest; (r.1, x :: r.2)

/-- whatever the mixture of sorted and unsorted removals, survivors ⊎ removed = the original particles -/
theorem c14_remove_sequence_multiset : ∀ (rs : List (Nat × Bool)) (l : List P),
    ((eraseSeq l rs).1 ++ (eraseSeq l rs).2).Perm l := by
  intro rs
  induction rs with
  | nil => intro l; simp [eraseSeq]
  | cons r rest ih =>
    intro l
    obtain ⟨i, srt⟩ := r
    unfold eraseSeq
    cases hx : l[i]? with
    | none => exact ih l
    | some x =>
      simp only []
      have hi : i < l.length := (List.getElem?_eq_some_iff.mp hx).1
      have hstep : (eraseAt l i srt).Perm (l.eraseIdx i) := by
        unfold eraseAt
        cases srt
        · simp only [Bool.false_eq_true, if_false]
          cases hl : l.getLast? with
          | none => have := List.getLast?_eq_none_iff.mp hl; rw [this] at hi; simp at hi
          | some last => exact set_dropLast_perm l i last hi hl
        · simp
      have h1 := ih (eraseAt l i srt)
      have h2 : ((eraseSeq (eraseAt l i srt) rest).1 ++ x :: (eraseSeq (eraseAt l i srt) rest).2).Perm
          (x :: l.eraseIdx i) :=
        List.perm_middle.trans ((h1.trans hstep).cons x)
      refine h2.trans ?_
      have hget : l[i] = x := by
        have := (List.getElem?_eq_some_iff.mp hx).2; exact this
      rw [← hget]
      exact cons_eraseIdx_perm l i hi

/-! ### tree mode: removal in two phases -/

/-- the particles that count: those not flagged for removal -/
def Spec.live (s : Spec) : List P := s.ps.filter (fun p => !p.flagged)

/-- phase 1 (`reb_simulation_remove_particle`, `keep_sorted = 0`, tree in use): the particle is only
    flagged (`y = NaN`).  Until the next tree update — in particular at the end of the step in which a
    collision or a boundary removed it, and in every heartbeat/output in between — it is still one of the
    `N` particles of the array; what has changed is the list of live (unflagged) particles, from which exactly
    this particle has gone.  Every variant. -/
theorem c14_tree_remove_flags (v : Variant) (c : State) (hinv : Inv c) (index : Int) (ks : Bool)
    (hnf : NoFaultRemove v c index)
    (h0 : 0 ≤ index) (h1 : index < (c.N : Int)) (hN : c.N ≠ 1) (hv : c.nVar = 0)
    (hk : (ks || c.forceSorted) = false) (ht : c.treeRoot = true) :
    (remove v c index ks).2 = Out.removed ∧
    (remove v c index ks).1.N = c.N ∧
    (abs (remove v c index ks).1).ps = (abs c).ps.modify index.toNat (fun p => { p with flagged := true }) ∧
    (abs (remove v c index ks).1).live = ((abs c).ps.eraseIdx index.toNat).filter (fun p => !p.flagged) := by
  have hrb : ¬ rangeBad c index = true := fun h => by have := (rangeBad_iff c index).mp h; omega
  have hr : removeCore v c index ks = removeUnsorted v c index := by
    rw [removeCore_eq, if_neg hrb, if_neg hN]; simp [removeRest, hv, hk]
  have hle := hinv.le
  have hil : index.toNat < c.mem.length := by omega
  obtain ⟨d, e⟩ := remove_core_shape v c index ks hnf
  have hps : (abs (remove v c index ks).1).ps = (abs c).ps.modify index.toNat (fun p => { p with flagged := true }) := by
    rw [e, hr]
    unfold removeUnsorted
    simp only [ht, if_true, List.getElem?_eq_getElem hil]
    have := take_flag c.mem c.N index.toNat c.mem[index.toNat] (fun p => { p with flagged := true }) hle (by omega)
      (List.getElem?_eq_getElem hil)
    simp only [abs]; exact this
  refine ⟨?_, ?_, hps, ?_⟩
  · rw [e, hr]; unfold removeUnsorted; simp only [ht, if_true, List.getElem?_eq_getElem hil]
  · rw [e, hr]; unfold removeUnsorted; simp only [ht, if_true, List.getElem?_eq_getElem hil]
  · unfold Spec.live
    rw [hps]
    exact filter_modify_flag _ _ (by intro x; rfl) _ _ (by rw [abs_len hinv]; omega)

/-- phase 2 (`reb_simulation_update_tree`, particles not moved): whatever order the tree walk visits the
    flagged leaves in, when it has evicted them all the array holds exactly the live particles (as a multiset:
    the walk decides the order), and nothing else of the bookkeeping has changed.  Every variant. -/
theorem c14_tree_update_erases_flagged (v : Variant) (c : State) (hinv : Inv c) (visit : List Nat)
    (hdone : (treeUpdate v c visit).2 = Out.done) :
    (abs (treeUpdate v c visit).1).ps.Perm (abs c).live ∧
    (abs (treeUpdate v c visit).1).live = (abs (treeUpdate v c visit).1).ps ∧
    Inv (treeUpdate v c visit).1 := by
  obtain ⟨nf, hall⟩ := evictAll_spec visit c hinv
  unfold treeUpdate at hdone ⊢
  cases he : evictAll c visit with
  | none => rw [he] at hdone; simp at hdone
  | some r =>
    cases r with
    | none => exact absurd he nf
    | some c' =>
      rw [he] at hdone
      simp only [] at hdone ⊢
      obtain ⟨i2, s2, p2⟩ := hall c' he
      by_cases hany : (c'.mem.take c'.N).any (·.flagged) = true
      · rw [if_pos hany] at hdone; simp at hdone
      · rw [if_neg hany]
        simp only [Bool.not_eq_true] at hany
        have hps : c'.mem.take c'.N = live c' := (filter_unfl_of_none _ hany).symm
        refine ⟨?_, ?_, by simp [Inv]; exact i2⟩
        · show (c'.mem.take c'.N).Perm ((c.mem.take c.N).filter (fun p => !p.flagged))
          rw [hps]; exact p2
        · show (c'.mem.take c'.N).filter (fun p => !p.flagged) = c'.mem.take c'.N
          exact filter_unfl_of_none _ hany

/-! ### MERCURIUS: the critical radius moves with its particle -/

/-- FULL STATEMENT (every variant, outside the overrun shape): after a successful removal under MERCURIUS
    with `dcrit` covering all particles, every remaining particle has the critical radius it had before -/
theorem c14_dcrit_moves_with_particle (v : Variant) (c : State) (hinv : Inv c) (index : Int) (ks : Bool)
    (hm : c.mercurius = true) (hcov : c.N ≤ c.dcrit.length)
    (h0 : 0 ≤ index) (h1 : index < (c.N : Int)) (hN : c.N ≠ 1) (hv : c.nVar = 0) (ht : c.treeRoot = false)
    (hk : (ks || c.forceSorted) = true) :
    (remove v c index ks).2 = Out.removed ∧
    (remove v c index ks).1.dcrit.take (c.N - 1) = (c.dcrit.take c.N).eraseIdx index.toNat := by
  have hnover : ¬ Overrun c index := fun h => by have := h.2.2.2; omega
  have hnf : NoFaultRemove v c index := ⟨Or.inr hnover, Or.inr (Or.inr (Or.inr (by
    cases hb : rangeBad c index
    · rfl
    · have := (rangeBad_iff c index).mp hb; omega)))⟩
  obtain ⟨hrem, _, _⟩ := c14_remove_sorted_erases v c hinv index ks hnf h0 h1 hN hv hk ht
  refine ⟨hrem, ?_⟩
  obtain ⟨d, e1, e2⟩ := dcritShift_spec v c index h0 h1 (Or.inr hnover)
  have hcore : (removeCore v c index ks).2 = Out.removed := by
    obtain ⟨d', e⟩ := remove_core_shape v c index ks hnf
    rw [e] at hrem; exact hrem
  have hd : (remove v c index ks).1.dcrit = d := by
    unfold remove
    by_cases hW : v.dcritWithParticles = true
    · rw [if_pos hW]; simp only []; rw [if_pos hcore, e1]
    · rw [if_neg hW]
      have hb : ¬ (v.rangeFirst && rangeBad c index) = true := by
        intro hb; simp only [Bool.and_eq_true] at hb
        have := (rangeBad_iff c index).mp hb.2; omega
      rw [if_neg hb, e1]
      simp only []
      rw [removeCore_dcrit]
  rw [hd, e2, if_pos hm]
  unfold dcritErased
  have hpos : 0 < c.dcrit.length ∧ index < (c.dcrit.length : Int) := by omega
  rw [if_pos hpos]
  simp only []
  have hmin : min c.N c.dcrit.length = c.N := by omega
  rw [hmin]
  have hlen : ((c.dcrit.take c.N).eraseIdx index.toNat).length = c.N - 1 := by
    rw [List.length_eraseIdx, List.length_take, hmin, if_pos (by omega)]
  rw [List.take_append_of_le_length (by omega), List.take_of_length_le (by omega)]

example : (remove Variant.current { wMerc with N := 3 } 1 false).1.dcrit = [100, 102, 102] := by decide

/-! ### the active count -/

/-- FULL STATEMENT (repaired source): `-1 ≤ N_active ≤ N` is preserved by every history -/
theorem c14_active_le_N (ops : List (Sorter × Op)) (c : State) (hinv : Inv c) (hfresh : c.staleLeaf = false)
    (hsort : ∀ x ∈ ops, x.1.Valid) (ha : -1 ≤ c.nActive ∧ c.nActive ≤ (c.N : Int)) :
    -1 ≤ (run Variant.repaired c ops).1.nActive ∧
    (run Variant.repaired c ops).1.nActive ≤ ((run Variant.repaired c ops).1.N : Int) := by
  have hr := c14_run_refines ops c hinv hfresh hsort
  have h0 : (abs c).ActOK := by simp only [Spec.ActOK, abs_len hinv]; exact ha
  have := specRun_actOK _ _ _ _ hr h0
  simp only [Spec.ActOK, abs_len (run_spec _ ops c hinv hsort).1] at this
  exact this

/-- any variant, histories without the excluded call shapes -/
theorem c14_active_le_N_partial (v : Variant) (ops : List (Sorter × Op)) (c : State) (hinv : Inv c)
    (hsort : ∀ x ∈ ops, x.1.Valid) (hshape : NoShapeRun v c ops)
    (ha : -1 ≤ c.nActive ∧ c.nActive ≤ (c.N : Int)) :
    -1 ≤ (run v c ops).1.nActive ∧ (run v c ops).1.nActive ≤ ((run v c ops).1.N : Int) := by
  have hr := c14_run_refines_partial v ops c hinv hsort hshape
  have h0 : (abs c).ActOK := by simp only [Spec.ActOK, abs_len hinv]; exact ha
  have := specRun_actOK _ _ _ _ hr h0
  simp only [Spec.ActOK, abs_len (run_spec _ ops c hinv hsort).1] at this
  exact this

/-- FALSE of the current source: removing the last particle (F4c) and unsorted removal with
    `N_active = N` (F4d) leave `N_active > N` -/
theorem c14_active_le_N_fails_original :
    (remove Variant.original (wOne 1 false) 0 true).1.N = 0 ∧
    (remove Variant.original (wOne 1 false) 0 true).1.nActive = 1 ∧
    (remove Variant.original (wThree 3 false) 0 false).1.N = 2 ∧
    (remove Variant.original (wThree 3 false) 0 false).1.nActive = 3 := by
  decide


/-- a tree simulation, all three particles active, the first one flagged by a removal -/
def wTreeFlagged : State :=
  { mem := [⟨1, 11, true⟩, ⟨2, 12, false⟩, ⟨3, 13, false⟩, P.zero], nAlloc := 4, N := 3, nActive := 3,
    nVar := 0, lookup := [], treeCfg := true, boxCfg := true, treeRoot := true, forceSorted := false,
    staleLeaf := false, mercurius := false, dcrit := [], recalcR := false, recalcC := false }

/-- FALSE of the current source as well: the tree update evicts the flagged particle without looking at
    `N_active` (finding F4h): `N = 2`, `N_active = 3` -/
theorem c14_active_le_N_fails_current :
    Inv wTreeFlagged ∧ (treeUpdate Variant.current wTreeFlagged [0]).2 = Out.done ∧
    (treeUpdate Variant.current wTreeFlagged [0]).1.N = 2 ∧
    (treeUpdate Variant.current wTreeFlagged [0]).1.nActive = 3 ∧
    (treeUpdate Variant.repaired wTreeFlagged [0]).1.nActive = 2 ∧
    (abs (treeUpdate Variant.current wTreeFlagged [0]).1).ps = [⟨3, 13, false⟩, ⟨2, 12, false⟩] := by decide

/-- the refinement statement is FALSE of the current source in the two remaining call shapes: the answer
    `fault` (F4g) is not an answer of the plain-list machine, and after the tree update (F4h) the active count
    exceeds what the plain-list machine holds -/
theorem c14_refinement_fails_current :
    (abs (remove Variant.current wMerc 0 true).1, (remove Variant.current wMerc 0 true).2) ≠ (abs wMerc).remove 0 true ∧
    ¬ SpecStep (abs wTreeFlagged) (.treeUpdate [0]) (treeUpdate Variant.current wTreeFlagged [0]).2
        (abs (treeUpdate Variant.current wTreeFlagged [0]).1) := by
  refine ⟨by decide, ?_⟩
  intro h
  simp only [SpecStep] at h
  rcases h with ⟨h1, _⟩ | ⟨_, _, h2⟩
  · revert h1; decide
  · have := congrArg Spec.active h2
    revert this
    decide


/-! ### per-particle side arrays of the integrators (RV/Model/ParticlesSide.lean) -/

section SideArrays
open Side

/-- TRACE, FULL STATEMENT (repaired source, 844bb77): when particle `index` is removed during a step, the in-place
    re-indexing loop of `reb_simulation_remove_particle` turns the N×N close-encounter matrix `current_Ks` into the
    (N-1)×(N-1) matrix with row and column `index` deleted — for every N ≥ 1, every index (the last one included),
    every content, without reading a cell it has already overwritten and without leaving the allocation. -/
theorem c14_trace_Ks_reindex_is_deleteRowCol {α : Type} (n index : Nat) (ks : List α) (hn : 1 ≤ n)
    (hlen : ks.length = n * n) :
    ∃ out, reshuffle true n index ks = some out ∧ out.length = n * n ∧
      ∀ i j, i < n - 1 → j < n - 1 → out[i * (n - 1) + j]? = deleteRowCol n index ks i j := by
  simpa only [reshuffle, if_true] using reshuffleNew_spec n index ks hn hlen

/-- the loop as found is FALSE of that statement at `index = N-1` (finding F22; the usual case of a merger: the
    particle with the higher index goes): N = 4, index = 3, entry (1,0) of the result is old cell 3 = entry (0,3),
    not old cell 4 = entry (1,0) -/
theorem c14_trace_Ks_reindex_fails_original :
    reshuffle false 4 3 (idMatrix 4) = some [0, 1, 2, 3, 4, 5, 6, 7, 8, 9, 10, 11, 12, 13, 14, 15] ∧
    agreesWithSpec 4 3 (idMatrix 4) [0, 1, 2, 3, 4, 5, 6, 7, 8, 9, 10, 11, 12, 13, 14, 15] = false ∧
    (reshuffle true 4 3 (idMatrix 4)).map (·.take 9) = some [0, 1, 2, 4, 5, 6, 8, 9, 10] := by decide

/-- … and only there: for every 3 ≤ N ≤ 7 and every index the old loop agrees with the specification exactly when
    `index < N-1` (checked on the matrix whose entries are all different, which decides it for every matrix; for N = 2
    the 1×1 result is cell 0 in both loops) -/
theorem c14_trace_Ks_old_loop_wrong_exactly_at_last_index :
    ∀ n ∈ List.range 8, ∀ index ∈ List.range n, 3 ≤ n →
      ((reshuffle false n index (idMatrix n)).map (agreesWithSpec n index (idMatrix n)) = some true ↔ index < n - 1) := by
  decide +kernel

/-- TRACE, a particle ADDED during a step (e.g. a fragment created by the collision resolver), every N, every encounter set:
    the backward in-place loop keeps the old N×N block at its positions in the (N+1)×(N+1) matrix (both variants), the new
    particle's pair with every member of the encounter is flagged; FULL STATEMENT for the repaired source (`clear`): every other
    cell of the new column is 0, so the interaction step treats non-members normally. -/
theorem c14_trace_Ks_add_inserts_row_and_column {α : Type} (clear : Bool) (n : Nat) (enc : List Nat) (zero one : α) (ks : List α)
    (hlen : ks.length = (n + 1) * (n + 1)) (henc : ∀ i ∈ enc, i < n) :
    ∃ out, ksAdd clear n enc zero one ks = some out ∧
      (∀ i j, i < n → j < n → out[i * (n + 1) + j]? = ks[i * n + j]?) ∧
      (∀ i, i ∈ enc → out[i * (n + 1) + n]? = some one) ∧
      (clear = true → ∀ i, i < n → i ∉ enc → out[i * (n + 1) + n]? = some zero) :=
  ksAdd_spec clear n enc zero one ks hlen henc

/-- FALSE of the current source for the non-members (finding F24): N = 3, only particle 2 in the encounter: the cell of the pair
    (1, new) keeps the 9 that the old matrix had at that flat position (old entry (2,1)); with a fresh `realloc` it is
    uninitialised memory -/
theorem c14_trace_Ks_add_fails_current :
    ksAdd false 3 [2] (0 : Int) 1 ([2, 3, 4, 5, 6, 7, 8, 9, 10] ++ List.replicate 7 (-7)) =
      some [2, 3, 4, 5, 5, 6, 7, 9, 8, 9, 10, 1, -7, -7, -7, -7] ∧
    ksAdd true 3 [2] (0 : Int) 1 ([2, 3, 4, 5, 6, 7, 8, 9, 10] ++ List.replicate 7 (-7)) =
      some [2, 3, 4, 0, 5, 6, 7, 0, 8, 9, 10, 1, 0, 0, 0, 0] := by decide

/-- MERCURIUS, FULL STATEMENT (repaired source, 4316980): with the zero fill, `reb_integrator_mercurius_part1` never reads
    a `dcrit` cell that has not been written — whatever `safe_mode`, the synchronisation state, the recalculation requests
    and the number of particles added since the last step — and leaves every cell written and at least N of them. -/
theorem c14_mercurius_dcrit_read_after_write (m : Merc) (n : Nat) (vals : Nat → Nat) (h : allInit m.dcrit = true) :
    (part1 true m n vals).2 = false ∧ allInit (part1 true m n vals).1.dcrit = true ∧
    (part1 true m n vals).1.dcrit.length = max m.dcrit.length n :=
  part1_zeroFill m n vals h

/-- FALSE without the zero fill (finding F21): `safe_mode = 0`, state not synchronised, one particle added since the last
    step: the synchronisation evaluates the switching function with the new particle's unwritten `dcrit` -/
theorem c14_mercurius_dcrit_read_after_write_fails_original :
    (part1 false ⟨[some 5, some 7], false, false, false, false⟩ 3 (fun i => 10 + i)).2 = true ∧
    (part1 true ⟨[some 5, some 7], false, false, false, false⟩ 3 (fun i => 10 + i)) =
      (⟨[some 10, some 11, some 12], false, false, false, true⟩, false) := by decide

/-- WHFast/SABA `p_jh`, JANUS `p_int`, BS `nbody_ode` (exact policy), MERCURIUS, TRACE, IAS15 (grow-only policy),
    FULL STATEMENT (repaired source, f0ce3d6): whatever adds, removals and remove_all do to N between steps, and whatever
    the allocation was, every slot a step touches lies inside the allocation the step has just (re)established; arrays
    whose slot 0 is written unconditionally are not touched when the simulation is empty. -/
theorem c14_side_arrays_cover_every_touched_slot (k : Kind) (hk : k.slot0 = true → k.skipEmpty = true)
    (ops : List SideOp) (s : SideState) : (sideRun k s ops).2 = true :=
  sideRun_ok k hk ops s

/-- after a step the allocation covers all N particles (equals N for the exact policy) -/
theorem c14_side_arrays_alloc_ge_N (k : Kind) (hk : k.slot0 = true → k.skipEmpty = true) (s : SideState) :
    (k.skipEmpty = true ∧ s.n = 0) ∨ s.n ≤ (sideStep k s .step).1.alloc :=
  (sideStep_ok k hk s .step).2 rfl

/-- FALSE of WHFast/SABA before f0ce3d6 (finding F23): all particles removed, step: slot 0 of an empty allocation -/
theorem c14_side_arrays_fails_original :
    (sideRun ⟨.exact, true, false⟩ ⟨0, 0⟩ [.setN 2, .step, .setN 0, .step]).2 = false ∧
    (sideRun ⟨.exact, true, true⟩ ⟨0, 0⟩ [.setN 2, .step, .setN 0, .step]).2 = true := by decide

end SideArrays

/-! ### the Python container's integer keys and slices -/

/-- an integer key accepted by `sim.particles[k]` denotes a live slot -/
theorem c14_py_index_in_bounds (n : Nat) (k : Int) (i : Nat) (h : pyIndex n k = some i) : i < n := by
  unfold pyIndex at h
  simp only at h
  split at h
  · split at h <;> simp at h <;> omega
  · split at h <;> simp at h <;> omega

/-- negative keys count from the end -/
theorem c14_py_index_negative (n : Nat) (k : Nat) (h1 : 1 ≤ k) (h2 : k ≤ n) :
    pyIndex n (-(k : Int)) = some (n - k) := by
  unfold pyIndex
  have hk : (-(k : Int)) < 0 := by omega
  simp only [hk, if_true]
  rw [if_neg (by omega)]
  congr 1; omega

/-- `sim.particles[start:stop:step]` has CPython's documented slice semantics: with `(i, j)` the bounds
    normalised by `slice.indices(len)` (`pySliceBounds`: omitted bound = the end in the direction of travel,
    negative bound = counted from the end, then clamped), it is the items with index `x = i + m·step`,
    `m = 0, 1, 2, …`, for as long as `x` has not reached `j` -/
theorem c14_py_slice_semantics (n : Nat) (start stop : Option Int) (step : Int) (hk : step ≠ 0) (x : Int) :
    x ∈ pySlice n start stop step ↔
      ∃ m : Nat, x = (pySliceBounds n start stop step).1 + m * step ∧
        (0 < step → x < (pySliceBounds n start stop step).2) ∧
        (step < 0 → (pySliceBounds n start stop step).2 < x) :=
  pySlice_mem n start stop step hk x

/-- every index a slice produces denotes a live particle: `[self[i] for i in range(…)]` cannot raise -/
theorem c14_py_slice_in_bounds (n : Nat) (start stop : Option Int) (step : Int) (hk : step ≠ 0) (x : Int)
    (hx : x ∈ pySlice n start stop step) : 0 ≤ x ∧ x < n :=
  pySlice_in_bounds n start stop step hk x hx

/-- the normalised bounds lie in `[0, len]` for a positive and in `[-1, len-1]` for a negative step -/
theorem c14_py_slice_bounds (n : Nat) (start stop : Option Int) (step : Int) :
    (0 < step → 0 ≤ (pySliceBounds n start stop step).1 ∧ (pySliceBounds n start stop step).1 ≤ n ∧
                0 ≤ (pySliceBounds n start stop step).2 ∧ (pySliceBounds n start stop step).2 ≤ n) ∧
    (step < 0 → -1 ≤ (pySliceBounds n start stop step).1 ∧ (pySliceBounds n start stop step).1 ≤ (n : Int) - 1 ∧
                -1 ≤ (pySliceBounds n start stop step).2 ∧ (pySliceBounds n start stop step).2 ≤ (n : Int) - 1) :=
  pySliceBounds_range n start stop step

/-- `sim.particles[:]` is every particle -/
theorem c14_py_slice_all (n : Nat) (x : Int) : x ∈ pySlice n none none 1 ↔ 0 ≤ x ∧ x < n :=
  pySlice_all n x

example : pySlice 10 none none (-3) = [9, 6, 3, 0] := by decide
example : pySlice 7 (some (-100)) (some 5) 2 = [0, 2, 4] := by decide

end RV.Particles
