import RV.Proofs.Compare7
import RV.Proofs.PersistTable
import RV.Gen.C05Descriptors
/-
  C17 — copies are equal; compare reports exactly the real differences.

  `copy = load ∘ encode` (rebound.c:423-437) and `compare` (equality decision of reb_binary_diff,
  binarydiff.c:216-239 with reb_particle_diff 35-51) are the definitions of RV/Model/Persist.lean that the
  driver `drv_c05` runs against the compiled library (ops CMP / LOADI).

  Full-strength statement of the property at model level:
      compare a b = equal  ↔  every persisted non-walltime field of a and b is bitwise equal
                              once pointer-valued members are disregarded
  It is FALSE of the code as it exists, for three reasons that the theorems below isolate:
    (C17-N1) particle doubles are compared with C `!=`: a NaN makes a simulation unequal to itself, +0.0 and -0.0
          compare equal although the bits differ          → `c17_nan_unequal_to_itself`, `c17_double_compare`
    (F5)  payloads other than `particles` are compared with memcmp although some embed pointers
          (reb_variational_configuration.sim)            → `c17_table_memcmp_pointer_payloads`
    (C05-N3) ri_whfast.p_jh is memcmp'd including never-initialised members (real-code search only)
-/
set_option linter.unusedVariables false
namespace RV.Persist
open RV.Gen.C05

/-! ### compare, all tables -/

/-- exact characterisation of the return value: the streams compare equal iff every field of the first has a
    partner in the second whose payload does not differ (or the field is a walltime field), and the second has
    no additional field -/
theorem c17_compare_iff (sp : Special) (specs : List CmpSpec) (tbl : List Desc) (fs1 fs2 : List Field) :
    compare sp specs tbl fs1 fs2 = false ↔
      (∀ f ∈ body sp fs1, ∃ p, findField (body sp fs2) f.1 = some p ∧
          (payloadDiffer specs (descForType tbl f.1) f.2 p = false ∨ wallOf tbl f.1 = true)) ∧
      (∀ f ∈ body sp fs2, (findField (body sp fs1) f.1).isSome = true) :=
  compare_false_iff sp specs tbl fs1 fs2

/-- for a field compared with memcmp, "differ" is exactly inequality of the payload bytes: every difference is
    reported, and only differences are -/
theorem c17_memcmp_exact (specs : List CmpSpec) (d : Desc) (a b : Bytes) (h : d.cmp = 0) :
    payloadDiffer specs (some d) a b = true ↔ a ≠ b :=
  payloadDiffer_memcmp specs d a b h

/-- for a member-wise compared field (particles): equal iff same length and every listed member of every
    element compares equal with C `!=` -/
theorem c17_memberwise_exact (specs : List CmpSpec) (d : Desc) (k : Nat) (c : CmpSpec) (a b : Bytes)
    (h : d.cmp = k + 1) (hs : specs[k]? = some c) :
    payloadDiffer specs (some d) a b = false ↔
      a.length = b.length ∧ ∀ i, i < a.length / c.size → ∀ m ∈ c.members,
        memberNe m (slice a (i * c.size) c.size) (slice b (i * c.size) c.size) = false :=
  payloadDiffer_memberwise specs d k c a b h hs

/-- what C `!=` on doubles decides (C17-N1): false iff neither operand is NaN and the bit patterns are equal or both
    are zeros of either sign -/
theorem c17_double_compare (a b : Bytes) :
    f64Ne a b = false ↔ isNaN64 (leNat a) = false ∧ isNaN64 (leNat b) = false ∧
      (leNat a = leNat b ∨ (isZero64 (leNat a) = true ∧ isZero64 (leNat b) = true)) :=
  f64Ne_false_iff a b

/-- **never on account of memory addresses** (member-wise fields): overwriting the pointer members (and the
    padding) of every element, in either operand, with arbitrary bytes never changes the decision -/
theorem c17_memberwise_ignores_pointers (specs : List CmpSpec) (d : Desc) (k : Nat) (c : CmpSpec)
    (slots : List (Nat × Nat)) (fa fb : Nat → UInt8) (a b : Bytes)
    (h : d.cmp = k + 1) (hs : specs[k]? = some c) (hclear : specClear c slots = true) (hpos : 0 < c.size) :
    payloadDiffer specs (some d) (fillSlots c.size slots fa a) (fillSlots c.size slots fb b) =
      payloadDiffer specs (some d) a b :=
  payloadDiffer_fillSlots specs d k c slots fa fb a b h hs hclear hpos

/-- **a stream equals itself** — under the hypothesis (C17-N1) that no member-wise compared double is a NaN.
    The statement without that hypothesis is false: see `c17_nan_unequal_to_itself`. -/
theorem c17_compare_self_partial (sp : Special) (specs : List CmpSpec) (tbl : List Desc) (fs : List Field)
    (hn : ((body sp fs).map (·.1)).Nodup)
    (hclean : ∀ f ∈ body sp fs, ∀ dd k c, descForType tbl f.1 = some dd → dd.cmp = k + 1 →
      specs[k]? = some c → FpClean c f.2) :
    compare sp specs tbl fs fs = false :=
  compare_self sp specs tbl fs hn hclean

/-- **a simulation equals its own copy** (copy = save + load into a fresh simulation at another address, including
    the loader's fix-ups), for every table meeting the decidable side conditions `TableOK` / `FixOK`, every
    well-formed source and every fresh `init` — under the explicit hypotheses that name the findings:
    `hvar` (F5) the source has no variational configuration, `hclean` (C17-N1) no emitted payload differs from itself
    (false only for a NaN in a particle double compared with `!=`).  The full statement (without `hvar`, `hclean`)
    is false of the unchanged tree; after the repairs F5 (member-wise var_config) and C17-N1 (bitwise doubles)
    `hclean` holds for every source. -/
theorem c17_copy_equal_partial (psz : Nat) (sp : Special) (specs : List CmpSpec) (tbl : List Desc) (pl vl : ElemLayout)
    (pSim vSim self : Nat) (init s : Sim) (fp : Bool)
    (ok : TableOK psz sp tbl) (fok : FixOK psz sp specs tbl pl pSim) (hwf : WF psz tbl s)
    (hie : InitEmpty tbl init)
    (hvar : ∀ d ∈ live tbl, (d.dtype = .pointer ∨ d.dtype = .pointerAligned) → d.mem = sp.varCfgMem → fieldSize s d = 0)
    (hclean : ∀ d ∈ live tbl, ∀ p, encodeField psz s d = [(d.id, p)] →
      payloadDiffer specs (descForType tbl d.id) p p = false ∨ wallOf tbl d.id = true)
    (hfp : ∀ p, payloadDiffer specs (descForType tbl sp.fpIdWritten) p p = false ∨ wallOf tbl sp.fpIdWritten = true) :
    compare sp specs tbl (encode psz sp tbl s fp)
      (encode psz sp tbl (copy psz sp tbl pl vl pSim vSim self init s fp).1 fp) = false :=
  copy_equal psz sp specs tbl pl vl pSim vSim self init s fp ok fok hwf hie hvar hclean hfp

/-! ### the current table -/

/-- the side conditions of `c17_copy_equal_partial` hold for the current table: the members the loader touches
    after reading (N_allocated, ri_whfast512.recalculate_constants) are not persisted, the particle array is
    persisted by exactly one row, that row is compared member-wise, its compared members lie clear of every
    pointer member of reb_particle, and no REB_DP7 / fixed-size row aliases the fixed-up arrays -/
theorem c17_table_fix_ok : FixOK particleSize special cmpSpecs table elem_reb_particle particleSimOff :=
  fixOK_of_b _ _ _ _ _ _ (by decide +kernel)

/-- the function-pointer flag row is compared with memcmp, so its payload never differs from itself -/
theorem c17_table_fp_row (p : Bytes) :
    payloadDiffer cmpSpecs (descForType table special.fpIdWritten) p p = false ∨ wallOf table special.fpIdWritten = true := by
  left
  have h : (match descForType table special.fpIdWritten with
    | some dd => dd.cmp == 0
    | none => true) = true := by decide +kernel
  apply payloadDiffer_self
  intro dd k c h1 h2 _
  rw [h1] at h
  simp [h2] at h

/-- (C17-N1) a double compared with C `!=` differs from itself when it is a NaN: the model-level counter-example to
    "a simulation always equals its own copy" wherever reb_particle_diff uses `!=` (replayed on the real code by
    the search: a particle flagged y = NaN, REBOUND's own marker for removed particles) -/
theorem c17_nan_unequal_to_itself (b : Bytes) (h : isNaN64 (leNat b) = true) : f64Ne b b = true :=
  f64Ne_self_nan b h

private def nanParticle : Bytes :=
  [0, 0, 0, 0, 0, 0, 0xf8, 0x7f] ++ List.replicate 120 0
private def neSpec : List CmpSpec := [⟨128, [⟨.f64, 0, 8⟩, ⟨.f64, 8, 8⟩, ⟨.u32, 104, 4⟩]⟩]
private def neTable : List Desc := [⟨85, .pointer, 19, 6, 128, false, 1⟩, ⟨9999, .fieldEnd, 0, 0, 0, false, 0⟩]

/-- ... so a whole stream holding one particle with x = NaN is reported different from itself under a compare spec
    that uses `!=` for doubles (the spec of the unchanged tree) -/
example : compare special neSpec neTable [(85, nanParticle), (9999, [])] [(85, nanParticle), (9999, [])] = true := by
  decide +kernel

/-- the member-wise compare spec of every row that has one covers exactly the non-pointer members of the row's
    element struct, and all compared members lie clear of the pointer members -/
theorem c17_table_spec_covers :
    (table.all (fun d =>
      match d.cmp with
      | 0 => true
      | k + 1 =>
        match cmpSpecs[k]?, rowElems.find? (fun p => p.1 = d.id) with
        | some c, some p => specCovers c p.2 && specClear c (ptrSlots p.2) && decide (0 < c.size)
        | _, _ => false)) = true := by decide +kernel

/-- persisted payloads whose element struct embeds a pointer and which reb_binary_diff nevertheless compares with
    memcmp: at most var_config (86, finding F5), ri_whfast.p_jh (104) and ri_whfast512.pjh0 (399).  A new one
    fails this theorem; the list shrinks when F5 is repaired by a member-wise comparison. -/
theorem c17_table_memcmp_pointer_payloads : memcmpPtrIds table rowElems ⊆ [86, 104, 399] := by
  decide +kernel

/-- only the two wall-clock fields are exempt from the comparison -/
theorem c17_table_walltime_rows : (table.filter (·.wall)).map (·.id) ⊆ [126, 127] := by decide +kernel

/-! ### the report of reb_binary_diff (what differs, not only whether) -/

/-- **the report lists exactly the differing persisted fields** (binarydiff.c:154-394, output_option 0 — the difference
    stream of archive snapshots): an entry `(id, p)` is written iff the field is in stream 1 and has vanished from
    stream 2 (then `p` is empty), or is in both with differing payloads (then `p` is the payload of stream 2; for
    `particles` / `var_config` "differ" is the element loop of `c17_memberwise_exact`), or is in stream 2 only.
    Any table, any two field lists. -/
theorem c17_report_exact (sp : Special) (specs : List CmpSpec) (tbl : List Desc) (fs1 fs2 : List Field) (id : Nat) (p : Bytes) :
    (id, p) ∈ diffReport sp specs tbl fs1 fs2 ↔
      (∃ p1, (id, p1) ∈ body sp fs1 ∧ findField (body sp fs2) id = none ∧ p = []) ∨
      (∃ p1, (id, p1) ∈ body sp fs1 ∧ findField (body sp fs2) id = some p ∧
          payloadDiffer specs (descForType tbl id) p1 p = true) ∨
      ((id, p) ∈ body sp fs2 ∧ findField (body sp fs1) id = none) :=
  diffReport_mem_iff sp specs tbl fs1 fs2 id p

/-- the return value is "different" exactly when the report holds an entry other than a walltime field present in
    both streams -/
theorem c17_compare_iff_report (sp : Special) (specs : List CmpSpec) (tbl : List Desc) (fs1 fs2 : List Field) :
    compare sp specs tbl fs1 fs2 = true ↔
      ∃ f ∈ diffReport sp specs tbl fs1 fs2, counts sp tbl fs1 fs2 f = true :=
  compare_iff_report sp specs tbl fs1 fs2

/-- nothing is reported iff every field of stream 1 has a partner whose payload does not differ and stream 2 has no
    further field (walltime fields included: they are reported, though they do not count) -/
theorem c17_report_empty_iff (sp : Special) (specs : List CmpSpec) (tbl : List Desc) (fs1 fs2 : List Field) :
    diffReport sp specs tbl fs1 fs2 = [] ↔
      (∀ f ∈ body sp fs1, ∃ p, findField (body sp fs2) f.1 = some p ∧
          payloadDiffer specs (descForType tbl f.1) f.2 p = false) ∧
      (∀ f ∈ body sp fs2, (findField (body sp fs1) f.1).isSome = true) :=
  diffReport_nil_iff sp specs tbl fs1 fs2

/-- **no real difference is left out**: reading stream 1 and then the report (later fields replace earlier ones, as the
    archive reader does) leaves, for every field stream 2 holds, stream 2's payload in force — or stream 1's where the
    comparison saw no difference; a field stream 2 lacks ends up absent or empty.  Hypothesis: ids of stream 1 are
    unique (true of every stream the writer produces: `c05_table_ok`). -/
theorem c17_report_reproduces_second (sp : Special) (specs : List CmpSpec) (tbl : List Desc) (fs1 fs2 : List Field)
    (hn : ((body sp fs1).map (·.1)).Nodup) (id : Nat) :
    (∀ p2, findField (body sp fs2) id = some p2 →
      ∃ q, inForce (body sp fs1) (diffReport sp specs tbl fs1 fs2) id = some q ∧
        (q = p2 ∨ (findField (body sp fs1) id = some q ∧ payloadDiffer specs (descForType tbl id) q p2 = false))) ∧
    (findField (body sp fs2) id = none →
      inForce (body sp fs1) (diffReport sp specs tbl fs1 fs2) id =
        if (findField (body sp fs1) id).isSome then some [] else none) :=
  inForce_report sp specs tbl fs1 fs2 hn id

/-- the element loop of every member-wise compared row of the current table runs over the row's OWN element size
    (binarydiff.c:222, 228: `field1.size/sizeof(struct …)`): the size of the compare spec equals the element size of
    the descriptor row and of the row's element struct -/
theorem c17_table_loop_bound :
    (table.all (fun d =>
      match d.cmp with
      | 0 => true
      | k + 1 =>
        match cmpSpecs[k]?, rowElems.find? (fun p => p.1 = d.id) with
        | some c, some p => c.size == d.elemSize && c.size == p.2.size
        | _, _ => false)) = true := by decide +kernel

/-- hypotheses satisfiable and statement non-trivial: a changed double, a changed walltime field, a vanished field
    and a new field are reported in the order of the source; only the walltime entry does not count -/
example : diffReport special cmpSpecs table
    [(0, [1,2,3,4,5,6,7,8]), (126, [1,2,3,4,5,6,7,8]), (3, [9,9,9,9,9,9,9,9]), (85, []), (9999, [])]
    [(126, [1,2,3,4,5,6,7,9]), (0, [1,2,3,4,5,6,7,9]), (3, [9,9,9,9,9,9,9,9]), (86, [7]), (9999, [])] =
    [(0, [1,2,3,4,5,6,7,9]), (126, [1,2,3,4,5,6,7,9]), (85, []), (86, [7])] := by decide +kernel
example : (((body special [(0, [1]), (126, [2]), (9999, ([] : Bytes))]).map (·.1)).Nodup) := by decide +kernel
example : inForce [(0, [1]), (85, [5])] [(0, [2]), (85, [])] 85 = some [] := by decide +kernel
/-! ### non-vacuity -/
example : compare special cmpSpecs table [(0, [1,2,3,4,5,6,7,8]), (9999, [])] [(0, [1,2,3,4,5,6,7,8]), (9999, [])] = false := by
  decide +kernel
example : compare special cmpSpecs table [(0, [1,2,3,4,5,6,7,8]), (9999, [])] [(0, [1,2,3,4,5,6,7,9]), (9999, [])] = true := by
  decide +kernel
example : compare special cmpSpecs table [(126, [1,2,3,4,5,6,7,8]), (9999, [])] [(126, [1,2,3,4,5,6,7,9]), (9999, [])] = false := by
  decide +kernel

end RV.Persist
