import RV.Model.Janus
import RV.Gen.C10Janus
namespace RV.Janus
theorem c10_tables_counts : RV.Gen.C10.nTables = 5 := by decide
end RV.Janus
