import RV.Proofs.Janus
import RV.Proofs.Reversal
import RV.Proofs.C10Sched
import RV.Proofs.C10Real
import RV.Gen.C10Janus
/-
  C10 — JANUS is bit-wise time reversible; symmetric schemes reverse to rounding error.

  JANUS.  Statements are about RV/Model/Janus.lean (the definitions `drv_c10` runs on IEEE
  doubles and two's-complement int64 against integrator_janus.c, bit for bit):
  an abstract `double` type `F` with the operations the C code uses, the IEEE-754
  sign-symmetry laws as the hypothesis `L : JLaws F` (not axioms), an arbitrary force
  `cfg.acc` of the grid positions, arbitrary scales, every scheme whose `gg` is a
  palindrome, every integer state and every number of steps.  A conversion outside the
  int64 range is `none`; the theorems say: if the forward leg is defined, so is the
  backward leg, and it returns the initial integer state exactly.

  The step as seen from outside (recalculation flag, `N_allocated`) is modelled too; that nothing but
  part1 sets the flag is a theorem over the extracted list of assignments, and that the force sees
  `to_double(p_int)` for every particle at every stage is validated on the real code by the check.

  Tables.  The palindrome hypothesis is discharged for every table of
  RV/Gen/C10Janus.lean (regenerated from the C source on every run), with the
  index function `gg` tied to the compiled C function (and to its text where parseable).

  Symmetric schemes.  LEAPFROG and SEI (RV/Model/Reversal.lean, operation order of the C
  source) and abstract palindromic splittings satisfy `step(-dt) ∘ step(dt) = id` in exact
  arithmetic (any field), for an arbitrary position-dependent force.
-/
set_option linter.unusedVariables false
set_option linter.unnecessarySeqFocus false
set_option linter.unusedTactic false
set_option linter.unreachableTactic false
set_option maxRecDepth 100000
namespace RV.C10
open RV RV.Janus RV.Reversal JFloat RV.C10S RV.C01 RV.C01.Gen

/-! ### JANUS -/

/-- n steps with `dt` followed by n steps with `-dt` return every grid coordinate exactly;
    ∀ scheme with palindromic `gg`, ∀ force, ∀ scales, ∀ state, ∀ n -/
theorem c10_janus_steps_reverse {F : Type} [JFloat F] (L : JLaws F) (cfg : Cfg F) (s : Scheme F)
    (hp : Palin s) (dt : F) (n : Nat) (st st' : List PInt)
    (h : steps cfg s dt n st = some st') : steps cfg s (neg dt) n st' = some st :=
  steps_reverse L cfg s hp dt n st st' h

/-- the same starting with the negative step (needs `-(-a) = a`) -/
theorem c10_janus_steps_reverse_back {F : Type} [JFloat F] (L : JLaws F)
    (hnn : ∀ a : F, neg (neg a) = a) (cfg : Cfg F) (s : Scheme F)
    (hp : Palin s) (dt : F) (n : Nat) (st st' : List PInt)
    (h : steps cfg s (neg dt) n st = some st') : steps cfg s dt n st' = some st := by
  have := steps_reverse L cfg s hp (neg dt) n st st' h
  rwa [hnn] at this

/-- hence the doubles `to_double` derives from the grid (what the user sees in
    `r->particles`) return to the same values -/
theorem c10_janus_doubles_reverse {F : Type} [JFloat F] (L : JLaws F) (cfg : Cfg F) (s : Scheme F)
    (hp : Palin s) (dt : F) (n : Nat) (st st' : List PInt)
    (h : steps cfg s dt n st = some st') :
    (steps cfg s (neg dt) n st').map (toDouble cfg.scalePos cfg.scaleVel) =
      some (toDouble cfg.scalePos cfg.scaleVel st) := by
  rw [steps_reverse L cfg s hp dt n st st' h]; rfl

/-- the step as seen from outside (`reb_simulation_step`: flag, `N_allocated`, particle doubles): from a
    state with the flag clear and `N_allocated = N`, n undisturbed steps with `dt` and n with `-dt`
    return the grid state, and the flag is still clear — no step ever re-derives the grid from the
    doubles -/
theorem c10_janus_full_steps_reverse {F : Type} [JFloat F] (L : JLaws F) (cfg : Cfg F) (s : Scheme F)
    (hp : Palin s) (dt : F) (n : Nat) (js js' : JState) (hr : js.recalc = false)
    (hn : js.nAllocated = js.pInt.length) (h : stepsFull cfg s dt n js = some js') :
    stepsFull cfg s (neg dt) n js' = some js ∧ js'.recalc = false ∧
      js'.nAllocated = js'.pInt.length :=
  stepsFull_reverse L cfg s hp dt n js js' hr hn h

/-- additional forces: with a force callback that may read velocities (`accV`), the model coincides with the
    position-only model whenever the callback ignores them — so theorem `c10_janus_steps_reverse` covers every
    velocity-independent additional force -/
theorem c10_janus_velocity_independent_force {F : Type} [JFloat F] (L : JLaws F) (cfg : Cfg F)
    (accV : List (PDbl F) → List (V3 F))
    (hv : ∀ d, accV d = cfg.acc (d.map (fun q => (⟨q.x, q.y, q.z⟩ : V3 F))))
    (s : Scheme F) (hp : Palin s) (dt : F) (n : Nat) (st st' : List PInt)
    (h : stepsV cfg accV s dt n st = some st') : stepsV cfg accV s (neg dt) n st' = some st := by
  rw [stepsV_eq_steps cfg accV hv] at h ⊢
  exact steps_reverse L cfg s hp dt n st st' h

/-- proved negative (the source comment "velocity dependent forces break the symmetry"): with a force that
    reads the velocities JANUS is NOT reversible.  Witness: one particle, order 2, linear drag `a = −v`,
    dt = 0.1, in the fixed-point instance (where all laws `JLaws` hold and the scheme is a palindrome):
    the forward step takes (x,v) = (0, 100000) to (9500, 90000) grid units, the backward step returns
    (50, 99000).  So the universally quantified reversal statement with `accV` in place of `acc` is false. -/
theorem c10_janus_velocity_dependent_force_not_reversible :
    ¬ (∀ (F : Type) (inst : JFloat F) (L : @JLaws F inst) (cfg : Cfg F) (accV : List (PDbl F) → List (V3 F))
        (s : Scheme F) (hp : Palin s) (dt : F) (n : Nat) (st st' : List PInt),
        @stepsV F inst cfg accV s dt n st = some st' →
        @stepsV F inst cfg accV s (@JFloat.neg F inst dt) n st' = some st) := by
  intro h
  have hp : Palin (schemeOf (fun q : Int × Nat => (q.1 * 1000).tdiv q.2) 2 1 RV.Gen.C10.s1odr2.gammaQ) :=
    @palin_of_index Int intJFloat _ (by decide +kernel)
  have key := h Int intJFloat intLaws
    ⟨1000, 1000, fun pos => pos.map (fun _ => ⟨0, 0, 0⟩)⟩
    (fun d => d.map (fun q => ⟨-q.vx, -q.vy, -q.vz⟩))
    (schemeOf (fun q : Int × Nat => (q.1 * 1000).tdiv q.2) 2 1 RV.Gen.C10.s1odr2.gammaQ) hp
    100 1 [⟨0, 0, 0, 100000, 0, 0⟩] [⟨9500, 0, 0, 90000, 0, 0⟩] (by decide +kernel)
  revert key
  decide +kernel

/-- one step: the elementary-map list of `-dt` is the inverted list of `dt` in reverse order -/
theorem c10_janus_ops_reverse {F : Type} [JFloat F] (L : JLaws F) (s : Scheme F) (hp : Palin s)
    (dt : F) (ops : List (Op F)) (h : stepOps s dt = some ops) :
    stepOps s (neg dt) = some ((ops.map Op.inv).reverse) := by
  rw [stepOps_neg L, h, Option.map_some, ← List.map_reverse, stepOps_palindrome L s hp dt ops h]

/-- every elementary map is undone exactly by the same map with the negated coefficient -/
theorem c10_janus_op_inverse {F : Type} [JFloat F] (L : JLaws F) (cfg : Cfg F) (op : Op F)
    (st st' : List PInt) (h : op.apply cfg st = some st') : op.inv.apply cfg st' = some st :=
  op_inv L cfg op st st' h

/-! ### the tables of integrator_janus.c (finite facts, re-decided on every run) -/

/-- the hand-written `gg` of the model, run on the compiled constants, returns on every stage of
    every table exactly what the compiled C function `gg` returns -/
theorem c10_gg_model_is_compiled :
    ∀ t ∈ RV.Gen.C10.tables,
      (List.range t.stages).map (gg (schemeOf id t.order t.stages t.gammaBits)) = t.ggVals.map some := by
  decide +kernel

/-- where the text of `gg` has the shape the translator understands, its index expressions
    (`unsigned int` arithmetic) agree with the model's `ggIndex` on every stage of every table -/
theorem c10_gg_text_is_model (f : UInt32 → UInt32 → UInt32) (hf : RV.Gen.C10.ggIdx = some f) :
    ∀ t ∈ RV.Gen.C10.tables, ∀ i, i < t.stages →
      (f t.stages.toUInt32 i.toUInt32).toNat = ggIndex t.stages i := by
  unfold RV.Gen.C10.ggIdx at hf
  first
    | (injection hf with hf; subst hf; decide +kernel)
    | cases hf

/-- what the compiled `gg` returns is a palindrome over the stages of every table; so are the exact
    rationals of the decimal text read through the model's `gg`; nothing reads outside `gamma[]` -/
theorem c10_tables_value_palindrome :
    ∀ t ∈ RV.Gen.C10.tables, 1 ≤ t.stages ∧ t.gammaQ.length = RV.Gen.C10.gammaLen ∧
      t.gammaBits.length = RV.Gen.C10.gammaLen ∧ t.ggVals.length = t.stages ∧
      t.ggVals.reverse = t.ggVals ∧
      ((List.range t.stages).map (gg (schemeOf id t.order t.stages t.gammaQ))).reverse =
        (List.range t.stages).map (gg (schemeOf id t.order t.stages t.gammaQ)) ∧
      (∀ i, i < t.stages → (gg (schemeOf id t.order t.stages t.gammaQ) i).isSome) := by
  decide +kernel

/-- the palindrome hypothesis of the JANUS theorems holds for every table, whatever type `F` the
    constants are read into -/
theorem c10_tables_palin {F : Type} [JFloat F] :
    ∀ t ∈ RV.Gen.C10.tables,
      (∀ f : Int × Nat → F, Palin (schemeOf f t.order t.stages t.gammaQ)) ∧
      (∀ f : UInt64 → F, Palin (schemeOf f t.order t.stages t.gammaBits)) := by
  have key : ∀ t ∈ RV.Gen.C10.tables,
      IndexPalin t.stages t.gammaQ.length ∧ IndexPalin t.stages t.gammaBits.length := by
    decide +kernel
  intro t ht
  refine ⟨fun f => palin_of_index _ ?_, fun f => palin_of_index _ ?_⟩
  · simp only [schemeOf, List.length_map]; exact (key t ht).1
  · simp only [schemeOf, List.length_map]; exact (key t ht).2

/-- JANUS reversal for every order the code supports: the scheme selected by
    `switch (ri_janus->order)`, compiled constants read through any `f` -/
theorem c10_janus_supported_orders_reverse {F : Type} [JFloat F] (L : JLaws F) (cfg : Cfg F)
    (f : UInt64 → F) (t : RV.Gen.C10.Table) (ht : t ∈ RV.Gen.C10.tables) (dt : F) (n : Nat)
    (st st' : List PInt)
    (h : steps cfg (schemeOf f t.order t.stages t.gammaBits) dt n st = some st') :
    steps cfg (schemeOf f t.order t.stages t.gammaBits) (neg dt) n st' = some st :=
  steps_reverse L cfg _ ((c10_tables_palin t ht).2 f) dt n st st' h

/-- extraction completeness: the supported orders 2,4,6,8,10 are all present, both order
    switches (part1, part2) agree and select a table of that order; counts are consistent -/
theorem c10_tables_complete :
    RV.Gen.C10.orderSwitch1 = RV.Gen.C10.orderSwitch2 ∧
    RV.Gen.C10.nSwitches = 2 ∧
    RV.Gen.C10.tables.length = RV.Gen.C10.nTables ∧
    RV.Gen.C10.nGammaEntries = RV.Gen.C10.gammaLen * RV.Gen.C10.nTables ∧
    RV.Gen.C10.nGgVals = (RV.Gen.C10.tables.map (·.stages)).sum ∧
    (∀ o ∈ [2, 4, 6, 8, 10], ∃ t ∈ RV.Gen.C10.tables,
      RV.Gen.C10.orderSwitch1.1.lookup o = some t.name ∧ t.order = o) ∧
    (∀ c ∈ RV.Gen.C10.orderSwitch1.1, ∃ t ∈ RV.Gen.C10.tables, t.name = c.2 ∧ t.order = c.1) := by
  decide +kernel

/-- the recalculation flag is assigned a value other than 0 in exactly one place of the whole source
    tree, inside integrator_janus.c (the `N_allocated != N` branch of part1): no other code path
    (callbacks, synchronize, collision handling, Python layer) makes JANUS re-derive its grid state -/
theorem c10_flag_setters :
    (∀ a ∈ RV.Gen.C10.flagAssignments, a.2 ≠ "0" → a.1 = "integrator_janus.c") ∧
    (RV.Gen.C10.flagAssignments.filter (fun a => a.2 != "0")).length = 1 ∧
    RV.Gen.C10.flagAssignments.length = RV.Gen.C10.nFlagAssignments := by
  decide +kernel

/-! ### the hypotheses are satisfiable: fixed-point numbers as "doubles", rounding toward zero -/

example : @JLaws Int intJFloat := intLaws

/-- a concrete non-trivial run: the order-4 table read as fixed-point numbers, harmonic force,
    two particles, dt = 0.1, scales 1 and 0.5; the forward leg is defined, moves the state, and
    the backward leg returns it -/
example :
    let _ := intJFloat
    let cfg : Cfg Int := ⟨1000, 500, fun pos => pos.map (fun p => ⟨-p.x, -p.y, -p.z⟩)⟩
    let s : Scheme Int := schemeOf (fun q => (q.1 * 1000).tdiv q.2) 4 5 RV.Gen.C10.s5odr4.gammaQ
    let st : List PInt := [⟨100000, 0, 700, 0, 30000, 0⟩, ⟨-50000, 2000, 0, 0, -11000, 3000⟩]
    (∃ st', steps cfg s 100 3 st = some st' ∧ st' ≠ st ∧ steps cfg s (-100) 3 st' = some st) := by
  decide +kernel

variable {K : Type} [Field K]

/-! ### symmetric schemes, exact arithmetic -/

/-- LEAPFROG (integrator_leapfrog.c, drift–kick–drift in the C operation order): n steps with
    `dt` then n steps with `-dt` is the identity; ∀ N, ∀ force depending on positions only -/
theorem c10_leapfrog_steps_reverse (acc : List (V3 K) → List (V3 K)) (dt : K) (n : Nat)
    (s s' : List (LfP K)) (h : lfSteps acc dt n s = some s') : lfSteps acc (-dt) n s' = some s :=
  lfSteps_reverse acc dt n s s' h

/-- SEI `operator_H012` is undone exactly by itself with `-dt` and the constants
    `reb_integrator_sei_init` computes for `-dt` -/
theorem c10_sei_H012_reverse (dt : K) (c : SeiC K) (h2 : (2 : K) ≠ 0) (ho : c.omega ≠ 0)
    (hz : c.omegaZ ≠ 0) (p : LfP K) : seiH012 (-dt) c.rev (seiH012 dt c p) = p :=
  seiH012_back dt c h2 ho hz p

/-- SEI step (H012 – phi1 – H012) with the constants of `reb_integrator_sei_init`, `sin` and
    `tan` any odd functions: `step(-dt) ∘ step(dt) = id`; ∀ N, ∀ position-dependent force -/
theorem c10_sei_step_reverse (sn tn : K → K) (hs : ∀ a, sn (-a) = -sn a) (ht : ∀ a, tn (-a) = -tn a)
    (acc : List (V3 K) → List (V3 K)) (omega omegaZ dt : K) (h2 : (2 : K) ≠ 0) (ho : omega ≠ 0)
    (hz : omegaZ ≠ 0) (s s' : List (LfP K))
    (h : seiStep acc dt (seiInit sn tn omega omegaZ dt) s = some s') :
    seiStep acc (-dt) (seiInit sn tn omega omegaZ (-dt)) s' = some s := by
  rw [seiInit_neg sn tn hs ht]
  exact seiStep_reverse acc dt _ h2 ho hz s s' h

/-- SEI over the reals with the real `sin` and `tan`, exactly the functions `reb_integrator_sei_init` calls:
    `step(−dt) ∘ step(dt) = id` for every N and every position-dependent force, `OMEGA, OMEGAZ ≠ 0` -/
theorem c10_sei_step_reverse_real (acc : List (V3 ℝ) → List (V3 ℝ)) (omega omegaZ dt : ℝ)
    (ho : omega ≠ 0) (hz : omegaZ ≠ 0) (s s' : List (LfP ℝ))
    (h : seiStep acc dt (seiInit Real.sin Real.tan omega omegaZ dt) s = some s') :
    seiStep acc (-dt) (seiInit Real.sin Real.tan omega omegaZ (-dt)) s' = some s :=
  seiStep_reverse_real acc omega omegaZ dt ho hz s s' h

/-- any palindromic composition of two flows that are each undone by the negated coefficient
    (WHFast without correctors, SABA, EOS: Kepler/drift flow and interaction/kick flow) is
    reversed by negating every coefficient, i.e. by `dt → -dt` -/
theorem c10_palindromic_splitting_reverse {S C : Type} (A B : C → S → S) (ng : C → C)
    (hA : ∀ c s, A (ng c) (A c s) = s) (hB : ∀ c s, B (ng c) (B c s) = s)
    (l : List (Bool × C)) (hpal : l.reverse = l) (s : S) :
    splitRun A B (l.map (fun p => (p.1, ng p.2))) (splitRun A B l s) = s := by
  have := splitRun_inv_reverse A B ng hA hB l s
  rwa [← List.map_reverse, hpal] at this

/-- the WHFast-shaped step `kepler(τ/2) ; interaction(τ) ; kepler(τ/2)`: IF the Kepler primitive is
    undone by the negated step, `kepler(−τ) ∘ kepler(τ) = id`, and so is the interaction, then n steps
    with τ followed by n steps with −τ are the identity.  (The hypothesis on `kepler` is validated on the
    real `reb_whfast_kepler_solver` by the check: elliptic/hyperbolic × sign × step size × solver branch.) -/
theorem c10_kepler_interaction_steps_reverse {S C : Type} (kepler inter : C → S → S) (ng half : C → C)
    (hhalf : ∀ c, half (ng c) = ng (half c))
    (hK : ∀ c s, kepler (ng c) (kepler c s) = s) (hI : ∀ c s, inter (ng c) (inter c s) = s)
    (τ : C) (n : Nat) (s : S) :
    iter (whStep kepler inter half (ng τ)) n (iter (whStep kepler inter half τ) n s) = s := by
  apply iter_inverse
  intro s
  simp only [whStep, hhalf, hK, hI]

/-- unsynchronised stepping (`safe_mode = 0`; model `uStep`/`uSync` of WHFast part1/part2/synchronize: the first drift of a
    step is merged with the pending half drift of the previous one, a synchronisation request does the pending half drift with
    the current step size): n steps, a synchronisation, the negated step, n steps, a synchronisation return the state and leave
    nothing pending — given the flow-inverse hypotheses and `kepler(τ/2)∘kepler(τ/2) = kepler(τ)`.  (That every public
    synchronisation request — `synchronize()`, `integrate(t)` with nothing left to integrate — really does that half drift is
    checked on the code by the entry-path oracle and by the round trips of the `syncvia` factor.) -/
theorem c10_unsynchronized_steps_reverse {S C : Type} (kepler inter : C → S → S) (ng half : C → C)
    (hhalf : ∀ c, half (ng c) = ng (half c))
    (hK : ∀ c s, kepler (ng c) (kepler c s) = s) (hI : ∀ c s, inter (ng c) (inter c s) = s)
    (hadd : ∀ c s, kepler (half c) (kepler (half c) s) = kepler c s) (τ : C) (n : Nat) (x : S) :
    uSync kepler half (ng τ) (iter (uStep kepler inter half (ng τ)) n
      (uSync kepler half τ (iter (uStep kepler inter half τ) n ⟨x, false⟩))) = ⟨x, false⟩ := by
  rw [unsafe_eq_safe kepler inter half τ (hadd τ) n x, unsafe_eq_safe kepler inter half (ng τ) (hadd (ng τ)) n,
    c10_kepler_interaction_steps_reverse kepler inter ng half hhalf hK hI τ n x]

/-- that hypothesis is necessary: if every palindromic splitting is reversed by negating its
    coefficients, then in particular `A(−c) ∘ A(c) = id` for the first flow (the Kepler drift) -/
theorem c10_flow_inverse_necessary {S C : Type} (A B : C → S → S) (ng : C → C)
    (h : ∀ l : List (Bool × C), l.reverse = l → ∀ s,
      splitRun A B (l.map (fun p => (p.1, ng p.2))) (splitRun A B l s) = s) :
    ∀ c s, A (ng c) (A c s) = s := by
  intro c s
  exact h [(false, c)] rfl s

/-! ### the schedules the code really runs (lean/RV/Gen/C01*.lean, extracted by executing the C control flow)

  `φ` maps every primitive operator (`RV.C01.Op`: Kepler drift with/without the centre-of-mass step,
  interaction kick with its jerk term, jump step, finite-difference kick, inner drift/kick of EOS) to a
  map of an arbitrary state space.  The only hypothesis, `hφ`, is the flow-inverse property of each
  primitive: the operator with `−dt` undoes the operator with `dt` (for the Kepler drift this is what
  `probe_kepler` validates on the real `reb_whfast_kepler_solver`).  No additivity of the flows is used:
  the extracted operator lists are palindromes as they stand, without merging neighbours. -/

/-- WHFast, default kernel, all 4 coordinate systems: the extracted step (safe mode) and the extracted
    "two steps with safe_mode = 0, then synchronize" are raw palindromes whose kicks use fresh forces; so are
    the modified-kick and lazy kernels in Jacobi coordinates -/
theorem c10_whfast_schedules_palindromic :
    (∀ coord ∈ [0, 1, 2, 3], (whCore.lookup (coord, 0)).isSome ∧
      ∀ s ∈ whCore.lookup (coord, 0), RawPalin s ∧ Fresh s) ∧
    (∀ coord ∈ [0, 1, 2, 3], (whCoreTwo.lookup (coord, 0)).isSome ∧
      ∀ s ∈ whCoreTwo.lookup (coord, 0), RawPalin s ∧ Fresh s) ∧
    (∀ k ∈ [1, 3], (whCore.lookup (0, k)).isSome ∧ ∀ s ∈ whCore.lookup (0, k), RawPalin s) := by
  decide +kernel

/-- hence `step(−dt)ⁿ ∘ step(dt)ⁿ = id` for the real WHFast schedules (Jacobi, democratic heliocentric, WHDS,
    barycentric; default kernel, no correctors), synchronized stepping and unsynchronised pairs of steps -/
theorem c10_whfast_real_schedule_reverse {S : Type} (φ : Op → S → S)
    (hφ : ∀ o s, φ (negOp o) (φ o s) = s) :
    ∀ coord ∈ [0, 1, 2, 3], ∀ s, (s ∈ whCore.lookup (coord, 0) ∨ s ∈ whCoreTwo.lookup (coord, 0)) →
      ∀ (h : Rat) (n : Nat) (x : S),
        iter (schedStep φ (moves s) (-h)) n (iter (schedStep φ (moves s) h) n x) = x := by
  intro coord hc s hs h n x
  have hp : RawPalin s := by
    rcases hs with hs | hs
    · exact ((c10_whfast_schedules_palindromic.1 coord hc).2 s hs).1
    · exact ((c10_whfast_schedules_palindromic.2.1 coord hc).2 s hs).1
  exact schedSteps_reverse φ hφ (moves s) hp h n x

/-- proved negative: the composition kernel (`kernel = "composition"`) is NOT a palindrome — neither the raw
    operator list nor the list with neighbours merged; WHFast with that kernel is outside the reversal claim -/
theorem c10_whfast_composition_kernel_not_palindrome :
    (whCore.lookup (0, 2)).isSome ∧ ∀ s ∈ whCore.lookup (0, 2), ¬ RawPalin s ∧ ¬ Palindrome s := by
  decide +kernel

/-- SABA: the ten uncorrected types (named below) are raw palindromes with fresh forces, synchronized and as
    unsynchronised pairs -/
theorem c10_saba_schedules_palindromic :
    (sabaTypes.filter (fun t => t.2.1 < 10)).map (·.1) =
      ["REB_SABA_1", "REB_SABA_2", "REB_SABA_3", "REB_SABA_4", "REB_SABA_10_4", "REB_SABA_8_6_4",
       "REB_SABA_10_6_4", "REB_SABA_H_8_4_4", "REB_SABA_H_8_6_4", "REB_SABA_H_10_6_4"] ∧
    (∀ k ∈ List.range 10, (sabaStep.lookup k).isSome ∧ ∀ s ∈ sabaStep.lookup k, RawPalin s ∧ Fresh s) ∧
    (∀ k ∈ List.range 10, (sabaTwoUnsync.lookup k).isSome ∧ ∀ s ∈ sabaTwoUnsync.lookup k, RawPalin s) := by
  decide +kernel

theorem c10_saba_real_schedule_reverse {S : Type} (φ : Op → S → S)
    (hφ : ∀ o s, φ (negOp o) (φ o s) = s) :
    ∀ k ∈ List.range 10, ∀ s, (s ∈ sabaStep.lookup k ∨ s ∈ sabaTwoUnsync.lookup k) →
      ∀ (h : Rat) (n : Nat) (x : S),
        iter (schedStep φ (moves s) (-h)) n (iter (schedStep φ (moves s) h) n x) = x := by
  intro k hk s hs h n x
  have hp : RawPalin s := by
    rcases hs with hs | hs
    · exact ((c10_saba_schedules_palindromic.2.1 k hk).2 s hs).1
    · exact (c10_saba_schedules_palindromic.2.2 k hk).2 s hs
  exact schedSteps_reverse φ hφ (moves s) hp h n x

/-- the hand-written model of `reb_integrator_saba_part1/part2/synchronize` (RV/Model/C10Saba.lean: first half drift, kick,
    the stage loop with its two mirror-index computations, closing drift), run on the extracted coefficient tables, produces
    exactly the operator list the C01 translator obtains by executing the C text — for all ten uncorrected types -/
theorem c10_saba_model_is_extracted :
    ∀ t ∈ sabaTypes, t.2.1 < 10 →
      (sabaC[t.2.1]?).isSome ∧ (sabaD[t.2.1]?).isSome ∧ (sabaStep.lookup t.2.1).isSome ∧
      ∀ c ∈ sabaC[t.2.1]?, ∀ d ∈ sabaD[t.2.1]?, RV.C10Saba.step t.2.2 c d = sabaStep.lookup t.2.1 := by
  decide +kernel

/-- and that model is a raw palindrome for EVERY number of stages and EVERY pair of coefficient tables (the mirror indices
    `j > stages/2 ? stages-j : j` and `j > (stages-1)/2 ? stages-j-1 : j` make it one), hence reversed by `dt → −dt` under the
    flow-inverse hypothesis on the primitives, for n steps -/
theorem c10_saba_model_reverse {S : Type} (φ : Op → S → S) (hφ : ∀ o s, φ (negOp o) (φ o s) = s)
    (stages : Nat) (hst : 1 ≤ stages) (c d : List Rat) (l : List Op) (hl : RV.C10Saba.step stages c d = some l) :
    RawPalin l ∧ ∀ (h : Rat) (n : Nat) (x : S),
      iter (schedStep φ (moves l) (-h)) n (iter (schedStep φ (moves l) h) n x) = x :=
  ⟨saba_step_palindrome stages hst c d l hl,
   fun h n x => schedSteps_reverse φ hφ (moves l) (saba_step_palindrome stages hst c d l hl) h n x⟩

/-- EOS: the six unprocessed splittings are raw palindromes as outer scheme Φ0 and as inner scheme Φ1 with
    n = 1..4 sub-steps, with fresh forces -/
theorem c10_eos_schedules_palindromic :
    (eosTypes.filter (fun t => t.2 < 6)).map (·.1) =
      ["REB_EOS_LF", "REB_EOS_LF4", "REB_EOS_LF6", "REB_EOS_LF8", "REB_EOS_LF4_2", "REB_EOS_LF8_6_4"] ∧
    (∀ ty ∈ List.range 6, (eosOuter.lookup ty).isSome ∧ ∀ s ∈ eosOuter.lookup ty, RawPalin s ∧ Fresh s) ∧
    (∀ ty ∈ List.range 6, ∀ n ∈ [1, 2, 3, 4], (eosInner.lookup (ty, n)).isSome ∧
      ∀ s ∈ eosInner.lookup (ty, n), RawPalin s ∧ Fresh s) := by
  decide +kernel

/-- hence for all 6 × 6 unprocessed pairs Φ0 × Φ1 and n = 1..4: the operator list one EOS step really applies
    (outer schedule with every shell-0 drift unrolled into the inner scheme, three primitive flows) is
    reversed by `dt → −dt`, for n steps -/
theorem c10_eos_real_schedule_reverse {S : Type} (φ : Op → S → S)
    (hφ : ∀ o s, φ (negOp o) (φ o s) = s) :
    ∀ ty0 ∈ List.range 6, ∀ ty1 ∈ List.range 6, ∀ m ∈ [1, 2, 3, 4],
      ∀ o ∈ eosOuter.lookup ty0, ∀ i ∈ eosInner.lookup (ty1, m), ∀ (h : Rat) (n : Nat) (x : S),
        iter (schedStep φ (eosFull o i) (-h)) n (iter (schedStep φ (eosFull o i) h) n x) = x := by
  intro ty0 h0 ty1 h1 m hm o ho i hi h n x
  have hpo := ((c10_eos_schedules_palindromic.2.1 ty0 h0).2 o ho).1
  have hpi := ((c10_eos_schedules_palindromic.2.2 ty1 h1 m hm).2 i hi).1
  exact schedSteps_reverse φ hφ (eosFull o i) (eosFull_palin o i hpo hpi) h n x

/-- LEAPFROG as extracted (drift ½, force, kick 1, drift ½) -/
theorem c10_leapfrog_real_schedule_reverse {S : Type} (φ : Op → S → S)
    (hφ : ∀ o s, φ (negOp o) (φ o s) = s) (h : Rat) (n : Nat) (x : S) :
    (RawPalin leapfrogStep ∧ Fresh leapfrogStep) ∧
    iter (schedStep φ (moves leapfrogStep) (-h)) n (iter (schedStep φ (moves leapfrogStep) h) n x) = x := by
  have hp : RawPalin leapfrogStep ∧ Fresh leapfrogStep := by decide +kernel
  exact ⟨hp, schedSteps_reverse φ hφ (moves leapfrogStep) hp.1 h n x⟩

/-- the flow-inverse hypothesis is satisfiable: every operator acting as the translation by its time -/
example : ∀ (o : Op) (s : Rat), (fun (o : Op) (x : Rat) => x + o.a) (negOp o) ((fun (o : Op) (x : Rat) => x + o.a) o s) = s := by
  intro o s
  show s + o.a + (negOp o).a = s
  have : (negOp o).a = -o.a := by unfold negOp; split <;> rfl
  rw [this]; ring

/-- the hypotheses are satisfiable: translations of a field are flows undone by the negated
    coefficient (leapfrog's drift and kick are of this kind) -/
example (c s : K) : (fun (a : K) (x : K) => x + a) (-c) ((fun (a : K) (x : K) => x + a) c s) = s := by
  ring

/-- odd functions exist (the identity), so the SEI theorem is not vacuous; over ℚ with OMEGA = 1 -/
example (acc : List (V3 ℚ) → List (V3 ℚ)) (dt : ℚ) (s s' : List (LfP ℚ))
    (h : seiStep acc dt (seiInit id id 1 1 dt) s = some s') :
    seiStep acc (-dt) (seiInit id id 1 1 (-dt)) s' = some s :=
  c10_sei_step_reverse id id (fun _ => rfl) (fun _ => rfl) acc 1 1 dt (by norm_num) (by norm_num)
    (by norm_num) s s' h

end RV.C10
