import RV.Proofs.Frame
/-
  C12, third anchored mechanism — the public frame changes of src/tools.c
  (`reb_simulation_move_to_hel`, `reb_simulation_move_to_com`, real particles).

  Statements are about `RV.Frame.moveToHel` / `moveToCom` / `com` of RV/Model/Frame.lean, the
  definitions `drv_c12` runs on IEEE doubles against the compiled tools.c (ops `moveToHel`,
  `moveToCom`), instantiated at an arbitrary (ordered) field: every particle number, every
  mass assignment.  (The variational shifts of `move_to_com` belong to C20.)
-/
set_option linter.unusedTactic false
set_option linter.unreachableTactic false
set_option linter.unnecessarySeqFocus false
set_option linter.unusedVariables false
set_option linter.unusedSimpArgs false
set_option linter.unusedSectionVars false
namespace RV.Frame
open RV

section
variable {K : Type} [Field K] [LinearOrder K]

/-- heliocentric frame: slot 0 is the origin (at rest, the velocity components obey the same
    map), every other particle is given relative to particle 0, masses untouched -/
theorem c12_move_to_hel_slot0 (m0 x0 : K) (r : List (K × K)) :
    moveToHel ((m0, x0) :: r) = (m0, 0) :: r.map (fun p => (p.1, p.2 - x0)) ∧
    moveToHel ([] : List (K × K)) = [] :=
  ⟨moveToHel_cons m0 x0 r, rfl⟩

/-- the heliocentric shift is inverted by adding the old coordinate of particle 0 back to every
    particle: no information other than that one vector is lost -/
theorem c12_move_to_hel_roundtrip (m0 x0 : K) (r : List (K × K)) :
    (moveToHel ((m0, x0) :: r)).map (fun p => (p.1, p.2 + x0)) = (m0, x0) :: r := by
  rw [moveToHel_cons]
  simp only [List.map_cons, List.map_map, zero_add, List.cons.injEq, true_and]
  conv_rhs => rw [← List.map_id r]
  apply List.map_congr_left
  intro p _
  simp [Function.comp]

/-- the same particle set seen from particle 0 twice: `move_to_hel` is idempotent -/
theorem c12_move_to_hel_idempotent (m0 x0 : K) (r : List (K × K)) :
    moveToHel (moveToHel ((m0, x0) :: r)) = moveToHel ((m0, x0) :: r) := by
  rw [moveToHel_cons, moveToHel_cons]
  simp only [List.map_map, List.cons.injEq, true_and]
  apply List.map_congr_left
  intro p _
  simp [Function.comp]

/-- `move_to_com` is inverted by adding the centre of mass it subtracted (all particles, no
    hypothesis on the masses) -/
theorem c12_move_to_com_roundtrip (ps : List (K × K)) :
    (moveToCom ps).map (fun p => (p.1, p.2 + (com ps).2)) = ps := by
  simp only [moveToCom, List.map_map]
  conv_rhs => rw [← List.map_id ps]
  apply List.map_congr_left
  intro p _
  simp [Function.comp, sc_hsub]
end

section
variable {K : Type} [Field K] [LinearOrder K] [IsStrictOrderedRing K]

/-- after `move_to_com` the total mass is unchanged, the mass-weighted coordinate sum vanishes
    and `reb_simulation_com` of the moved set returns the origin (non-negative masses, positive
    total — the guard `if (p1.m>0.)` of `reb_particle_com_of_pair`) -/
theorem c12_move_to_com_slot (ps : List (K × K)) (hm : ∀ p ∈ ps, 0 ≤ p.1) (hM : 0 < msum ps) :
    msum (moveToCom ps) = msum ps ∧ mxsum (moveToCom ps) = 0 ∧ com (moveToCom ps) = (msum ps, 0) := by
  have hc := com_closed ps hm
  have h1 : mxsum (moveToCom ps) = 0 := by
    simp only [moveToCom, hc, if_pos hM, sc_hsub]
    rw [mxsum_shift]
    have : msum ps ≠ 0 := ne_of_gt hM
    field_simp; ring
  have h2 : msum (moveToCom ps) = msum ps := by
    simp only [moveToCom]; exact msum_shift ps _
  refine ⟨h2, h1, ?_⟩
  have hm' : ∀ p ∈ moveToCom ps, 0 ≤ p.1 := by
    intro p hp
    simp only [moveToCom, List.mem_map] at hp
    obtain ⟨a, ha, rfl⟩ := hp
    exact hm a ha
  rw [com_closed _ hm', h1, h2, if_pos hM]; simp

/-- the centre of mass `move_to_com` subtracts is the mass-weighted mean of *all* real particles
    (test particles with a mass included — `reb_simulation_com` does not look at `N_active`) -/
theorem c12_move_to_com_is_mean (ps : List (K × K)) (hm : ∀ p ∈ ps, 0 ≤ p.1) (hM : 0 < msum ps) :
    (com ps).1 = msum ps ∧ (com ps).2 = mxsum ps / msum ps := by
  rw [com_closed ps hm, if_pos hM]; exact ⟨rfl, rfl⟩

/-- hypotheses are satisfiable by a non-trivial set: three bodies, one massless, COM off origin -/
example : (∀ p ∈ [((2 : ℚ), (3 : ℚ)), (1, -1), (0, 7)], 0 ≤ p.1) ∧ 0 < msum [((2 : ℚ), (3 : ℚ)), (1, -1), (0, 7)] := by
  constructor
  · intro p hp; simp at hp; rcases hp with rfl | rfl | rfl <;> norm_num
  · norm_num [msum]
end
end RV.Frame
