import RV.Proofs.KeplerTan2
/-
  C03 (second property module) — the tangent map of reb_whfast_kepler_solver (lines 311-342) is the
  derivative of the model's Kepler step.

  Kept apart from RV/Props/C03.lean because it imports b-c16's RV/Proofs/VarKepler.lean (read-only):
  `Var.tanLines_is_eps` (C16) shows that the last lines of the tangent map are the ε-part of the f-g
  update given `dX` and `dG_k`; the theorems here supply the other half.  "Derivative" = ε-part of the
  very same model functions (`cs6Series`, `cs6DupStep`, `cs6Finish`, `scaleGs6`, `invariants`,
  `fgUpdate` of RV/Model/Kepler.lean) run on dual numbers `a + ε b` (RV/Model/Dual.lean).
-/
set_option linter.unusedTactic false
set_option linter.unusedVariables false
set_option linter.unusedSectionVars false
namespace RV.Kepler
open RV RV.Var
variable {K : Type} [Field K] [CharZero K]

/-- a stronger invariant of the stumpff_cs duplication: with `c2² + z c3² = 2(c3 − c4)` in place of the
    quadratic relation of `Stumpff6Rel` (which it implies) the loop body still maps relations at z to
    relations at 4z -/
theorem c03_stumpff6_strong_duplication {s : Cs5 K} (h : Stumpff6S s) (n : Nat) :
    Stumpff6S (cs6DupStep s) ∧ Stumpff6S (cs6Dup n s) ∧ Stumpff6Rel s :=
  ⟨cs6DupStep_relS h, cs6Dup_relS n h, h.toRel⟩

/-- **derivative rules survive duplication**: if `s` carries, in its ε-parts, the derivatives
    `c2' = (2c4 − c3)/2`, `c3' = (3c5 − c4)/2` (and the ε-parts of the linear relations) at `z + ε dz`,
    so does `cs6DupStep s` at `4z + ε 4dz`, and so does the whole loop. -/
theorem c03_stumpff_derivative_duplication {s : Cs5 (Dual K)} (h : StumpffD s) (n : Nat) :
    StumpffD (cs6DupStep s) ∧ StumpffD (cs6Dup n s) := ⟨cs6DupStep_D h, cs6Dup_D n h⟩

/-- consequences of the rules: `c1' = (c3 − c2)/2`, `c0' = −c1/2` -/
theorem c03_stumpff_derivative_c1_c0 {s : Cs5 (Dual K)} (h : StumpffD s) :
    s.c1.eps = (s.c3.re - s.c2.re) / 2 * s.z.eps ∧
    -(s.z.eps * s.c2.re + s.z.re * s.c2.eps) = -s.c1.re / 2 * s.z.eps := ⟨h.d1, h.d0⟩

/-- the Horner series of stumpff_cs at `z + ε dz`: linear relations exact in both parts, `c3'` rule exact,
    `c2'` rule up to `z⁶/(2·15!) dz`, quadratic relation up to an explicit `z⁶·P(z)/(15!)²`. -/
theorem c03_stumpff_derivative_series (z dz : K) :
    let s := cs6Series (⟨z, dz⟩ : Dual K)
    re5 s = cs6Series z ∧
    s.c1.eps = -(s.z.eps * s.c3.re + s.z.re * s.c3.eps) ∧
    s.c2.eps = -(s.z.eps * s.c4.re + s.z.re * s.c4.eps) ∧
    s.c3.eps = -(s.z.eps * s.c5.re + s.z.re * s.c5.eps) ∧
    s.c3.eps = (3 * s.c5.re - s.c4.re) / 2 * s.z.eps ∧
    s.c2.eps = (2 * s.c4.re - s.c3.re) / 2 * s.z.eps + z ^ 6 / 2615348736000 * dz ∧
    (cs6Series z).c2 ^ 2 + z * (cs6Series z).c3 ^ 2 - 2 * ((cs6Series z).c3 - (cs6Series z).c4) =
      z ^ 6 * (z ^ 7 - 195 * z ^ 6 + 27720 * z ^ 5 - 2702700 * z ^ 4 + 165110400 * z ^ 3 - 5448643200 * z ^ 2
        + 72648576000 * z - 163459296000) / 1710012252724199424000000 := cs6Series_D z dz

/-- stiefel_Gs: `dG_k = G_{k-1} dX + ½(k G_{k+2} − X G_{k+1}) dβ` (k = 1,2,3) — the lines
    `dG1, dG2, dG3` of the C code are the ε-parts of the scaled functions at `(β + ε dβ, X + ε dX)`. -/
theorem c03_stiefel_derivative_rules {s : Cs5 (Dual K)} (h : StumpffD s) (β X : Dual K) (hz : s.z = β * (X * X)) :
    let g := scaleGs6 X (cs6Finish s)
    g.c1.eps = g.c0.re * X.eps + 1 / 2 * (g.c3.re - X.re * g.c2.re) * β.eps ∧
    g.c2.eps = g.c1.re * X.eps + 1 / 2 * (2 * g.c4.re - X.re * g.c3.re) * β.eps ∧
    g.c3.eps = g.c2.re * X.eps + 1 / 2 * (3 * g.c5.re - X.re * g.c4.re) * β.eps ∧
    g.c0.re = 1 - β.re * g.c2.re ∧ g.c1.re = X.re - β.re * g.c3.re := scaleGs6_D h β X hz

section main
variable (M r0 r0i ri dt : K) (p dp : Kepler.P6 K) (s : Cs5 (Dual K)) (Xd : Dual K)

/-- implicit differentiation of the universal Kepler equation: with the dual inputs of the step
    (`dualIn`: p + ε dp, r0 + ε dr0, and β, η0, ζ0 computed from them by the model's `invariants`),
    the dual equation `r̂0 X̂ + η̂0 Ĝ2 + ζ̂0 Ĝ3 = dt` holds to first order **iff** the ε-part of `X̂` is the
    code's `dX` (line 325). -/
theorem c03_tangent_dX_unique (hD : StumpffD s) (hz : s.z = (dualIn M r0 r0i p dp).beta * (Xd * Xd))
    (hri : ri * (r0 + (invariants M r0 r0i p).eta0 * (scaleGs6 Xd (cs6Finish s)).c1.re
            + (invariants M r0 r0i p).zeta0 * (scaleGs6 Xd (cs6Finish s)).c2.re) = 1) :
    ((dualIn M r0 r0i p dp).r0 * Xd + (dualIn M r0 r0i p dp).eta0 * (scaleGs6 Xd (cs6Finish s)).c2
          + (dualIn M r0 r0i p dp).zeta0 * (scaleGs6 Xd (cs6Finish s)).c3).eps = (Dual.const dt).eps ↔
      Xd.eps = tanDX M r0 r0i ri Xd.re (invariants M r0 r0i p).beta (invariants M r0 r0i p).eta0
        (invariants M r0 r0i p).zeta0 (re6 (scaleGs6 Xd (cs6Finish s))) p dp :=
  tan_dX_unique M r0 r0i ri dt p dp s Xd hD hz hri

/-- **tangent map = derivative of the Kepler step.**  `tangentUpdate` (the Float-faithful model of lines
    311-342, tied bit for bit to the compiled code by the `var` correspondence of rv/c03.py) equals the
    ε-part of the model's f-g update evaluated on dual numbers, where every dual input is itself
    produced by the model's functions on duals and `X̂ = X + ε dX` with the code's `dX`.
    `_partial`: the hypothesis `StumpffD s` (exact first-order Stumpff data) holds for the data the
    code actually computes (`cs6Dup n (cs6Series ·)`) only up to the series truncation made explicit in
    `c03_stumpff_derivative_series`; duplication preserves it exactly
    (`c03_stumpff_derivative_duplication`).  `hri` is `ri = 1/r`, i.e. the NaN guard did not fire. -/
theorem c03_tangent_map_is_derivative_partial (hD : StumpffD s)
    (hz : s.z = (dualIn M r0 r0i p dp).beta * (Xd * Xd))
    (hri : ri * (r0 + (invariants M r0 r0i p).eta0 * (scaleGs6 Xd (cs6Finish s)).c1.re
            + (invariants M r0 r0i p).zeta0 * (scaleGs6 Xd (cs6Finish s)).c2.re) = 1)
    (hX : Xd.eps = tanDX M r0 r0i ri Xd.re (invariants M r0 r0i p).beta (invariants M r0 r0i p).eta0
        (invariants M r0 r0i p).zeta0 (re6 (scaleGs6 Xd (cs6Finish s))) p dp) :
    let D := dualIn M r0 r0i p dp
    let g := scaleGs6 Xd (cs6Finish s)
    let gs := re6 g
    let i0 := invariants M r0 r0i p
    tangentUpdate M r0 r0i ri Xd.re i0.beta i0.eta0 i0.zeta0 (fgCoeffs M r0i ri dt gs.c1 gs.c2 gs.c3) gs p dp
      = epsP6 (fgUpdate (Dual.const M) D.r0i (Scalar.one / (D.r0 + D.eta0 * g.c1 + D.zeta0 * g.c2))
          (Dual.const dt) g.c1 g.c2 g.c3 (dP6 p dp)) :=
  tangent_is_derivative M r0 r0i ri dt p dp s Xd hD hz hri hX

end main

/-! the hypotheses are satisfiable: exact first-order data at z = 0 (c_k = 1/k!, c_k' from the rules) -/
example : StumpffD (⟨⟨0, 1⟩, ⟨1, -1/6⟩, ⟨1/2, -1/24⟩, ⟨1/6, -1/120⟩, ⟨1/24, -1/720⟩, ⟨1/120, -1/5040⟩⟩ : Cs5 (Dual ℚ)) := by
  refine ⟨⟨?_, ?_, ?_, ?_⟩, ?_, ?_, ?_, ?_, ?_⟩ <;> norm_num [re5]

end RV.Kepler
