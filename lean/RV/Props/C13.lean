import RV.Proofs.Collision
/-
  C13 — collisions are detected completely and resolved conservatively.
-/
namespace RV.Collision
open RV

/-- the post-search loop never changes the length of the pending list (no entry is dropped
    or duplicated by the fix-ups) -/
theorem c13_fixup_length {α G : Type} (flag : α → α) (resolve : Sim α → Coll G → Sim α × Nat)
    (ks : Bool) (s : Sim α) (c : Coll G) (rest : List (Coll G)) :
    (processOne flag resolve ks s c rest).2.1.length = rest.length :=
  processOne_length flag resolve ks s c rest

end RV.Collision
