import RV.Proofs.CollisionResolve
import RV.Proofs.CollisionPrune
import RV.Proofs.CollisionTree
/-
  C13 — collisions are detected completely and resolved conservatively.

  Statements are about the definitions in RV/Model/Collision.lean — the same ones the driver
  `drv_c13` runs on IEEE doubles against collision.c / particle.c.  Arithmetic statements are
  over an arbitrary ordered field `K` (exact arithmetic); the index statements are about
  `Int`/`List` and hold for every particle payload, every identity type, every pending list,
  every processing order and every resolver.
-/
set_option linter.unusedVariables false
set_option linter.unusedSectionVars false
set_option linter.unusedSimpArgs false
namespace RV.Collision
open RV

/-! ## 1. searches -/
section search
variable {K : Type} [Field K] [LinearOrder K] [IsStrictOrderedRing K]

/-- DIRECT search, ∀ N, ∀ ghost rings: the three nested loops with their `continue`s report
    exactly the declarative list (ghost boxes × ordered pairs, filtered), in that order, each
    triple once. -/
theorem c13_direct_search_spec (ring : List (GB K)) (cand : List (Nat × Part K)) (nInner : Nat) :
    directSearch ring cand nInner = directSpec ring cand nInner :=
  directSearch_eq_spec ring cand nInner

/-- DIRECT search, declaratively: `(p1,p2,gb)` is handed on iff `p1 = particles[i]`,
    `p2 = particles[j]` with `i ≠ j`, `j < Ninner`, the ghost-shifted p1 overlaps p2
    (`‖d‖² ≤ (r₁+r₂)²`) and they are not receding (`d·dv ≤ 0`). -/
theorem c13_direct_reported_iff (ring : List (GB K)) (cand : List (Nat × Part K)) (nInner : Nat)
    (c : Coll (GB K)) :
    c ∈ directSearch ring cand nInner ↔
      ∃ gb ∈ ring, ∃ (i j : Nat) (hi : i < cand.length) (hj : j < cand.length),
        j < nInner ∧ i ≠ j ∧
        (gb.x + cand[i].2.x - cand[j].2.x)^2 + (gb.y + cand[i].2.y - cand[j].2.y)^2
          + (gb.z + cand[i].2.z - cand[j].2.z)^2 ≤ (cand[i].2.r + cand[j].2.r)^2 ∧
        (gb.vx + cand[i].2.vx - cand[j].2.vx) * (gb.x + cand[i].2.x - cand[j].2.x)
          + (gb.vy + cand[i].2.vy - cand[j].2.vy) * (gb.y + cand[i].2.y - cand[j].2.y)
          + (gb.vz + cand[i].2.vz - cand[j].2.vz) * (gb.z + cand[i].2.z - cand[j].2.z) ≤ 0 ∧
        c = ⟨(cand[i].1 : Int), (cand[j].1 : Int), gb⟩ := by
  rw [directSearch_eq_spec, mem_directSpec]
  simp only [directHit_iff, shiftGB, sc_hadd, and_assoc]

/-- LINE search, ∀ N: the loops report exactly the pairs `i < j` passing the line test -/
theorem c13_line_search_spec (dt : K) (ring : List (GB K)) (cand : List (Nat × Part K)) :
    lineSearch dt ring cand = lineSpec dt ring cand :=
  lineSearch_eq_spec dt ring cand

/-- LINE search, declaratively: reported iff `i < j` and the code's `rmin2_ab ≤ (r₁+r₂)²` -/
theorem c13_line_reported_iff (dt : K) (ring : List (GB K)) (cand : List (Nat × Part K))
    (c : Coll (GB K)) :
    c ∈ lineSearch dt ring cand ↔
      ∃ gb ∈ ring, ∃ (i j : Nat) (hij : i < j) (hj : j < cand.length),
        lineRmin2 dt (shiftGB gb (cand[i]'(by omega)).2) cand[j].2
          ≤ ((cand[i]'(by omega)).2.r + cand[j].2.r)^2 ∧
        c = ⟨((cand[i]'(by omega)).1 : Int), (cand[j].1 : Int), gb⟩ := by
  rw [lineSearch_eq_spec]
  unfold lineSpec
  simp only [List.mem_flatMap, mem_lineSpecI]
  have key : ∀ (g : GB K) (r1 : K) (p2 : Part K),
      lineHit dt g r1 p2 = true ↔ lineRmin2 dt g p2 ≤ (r1 + p2.r)^2 := by
    intro g r1 p2
    unfold lineHit
    simp only [gt_iff', sc_hadd, sc_hmul, decide_eq_true_eq]
    constructor
    · intro h
      split at h
      · cases h
      · rename_i h1; have := not_lt.mp h1; nlinarith [this]
    · intro h
      rw [if_neg]; apply not_lt.mpr; nlinarith [h]
  simp only [key]

/-- the code's `rmin2_ab` is the minimum over the last step of the squared separation of the
    straight-line paths: a lower bound at every time `τ` before the end of the step with
    `0 ≤ τ/dt ≤ 1` (either sign of `dt`) … -/
theorem c13_line_rmin2_lower (dt : K) (hdt : dt ≠ 0) (g : GB K) (p2 : Part K) (τ : K)
    (h0 : 0 ≤ τ/dt) (h1 : τ/dt ≤ 1) :
    lineRmin2 dt g p2 ≤
      (g.x - p2.x - τ*(g.vx - p2.vx))^2 + (g.y - p2.y - τ*(g.vy - p2.vy))^2
        + (g.z - p2.z - τ*(g.vz - p2.vz))^2 := by
  have := lineRmin2_le dt hdt g p2 τ h0 h1
  simpa [sep2, lineQ] using this

/-- … and attained at some time of the step.  Hence a pair is reported by the LINE test iff the
    two straight-line paths came within `r₁+r₂` during the last step. -/
theorem c13_line_rmin2_attained (dt : K) (hdt : dt ≠ 0) (g : GB K) (p2 : Part K) :
    ∃ τ, 0 ≤ τ/dt ∧ τ/dt ≤ 1 ∧ lineRmin2 dt g p2 =
      (g.x - p2.x - τ*(g.vx - p2.vx))^2 + (g.y - p2.y - τ*(g.vy - p2.vy))^2
        + (g.z - p2.z - τ*(g.vz - p2.vz))^2 := by
  obtain ⟨τ, a, b, e⟩ := lineRmin2_attained dt hdt g p2
  exact ⟨τ, a, b, by simpa [sep2, lineQ] using e⟩

/-- the `dv = 0` corner (C: `t_closest = 0/0 = NaN`, both range comparisons false): for every
    value of `t_closest` and either outcome of the range test, `rmin2_ab` is the constant squared
    separation -/
theorem c13_line_dv0 (dt : K) (g : GB K) (p2 : Part K)
    (hx : g.vx = p2.vx) (hy : g.vy = p2.vy) (hz : g.vz = p2.vz) (tc : K) (inr : Bool) :
    lineRmin2Gen (lineQ dt g p2) tc inr = (g.x - p2.x)^2 + (g.y - p2.y)^2 + (g.z - p2.z)^2 := by
  have h : (lineQ dt g p2).dvx1 = 0 ∧ (lineQ dt g p2).dvy1 = 0 ∧ (lineQ dt g p2).dvz1 = 0 := by
    simp [lineQ, hx, hy, hz]
  rw [lineRmin2Gen_dv0 dt g p2 h tc inr 0]
  simp [sep2, lineQ]

/-- the ghost ring: `gbx` runs over `-c … c` with `c = min(N_ghost_x, 1)` (empty if negative) -/
theorem c13_ghost_ring (ngx ngy ngz : Int) (a b c : Int) :
    (a, b, c) ∈ ghostRing ngx ngy ngz ↔
      (-(ghostCol ngx) ≤ a ∧ a ≤ ghostCol ngx) ∧ (-(ghostCol ngy) ≤ b ∧ b ≤ ghostCol ngy) ∧
      (-(ghostCol ngz) ≤ c ∧ c ≤ ghostCol ngz) := by
  have key : ∀ (n x : Int), x ∈ ghostRange n ↔ -n ≤ x ∧ x ≤ n := by
    intro n x
    unfold ghostRange
    simp only [List.mem_map, List.mem_range]
    constructor
    · rintro ⟨k, hk, rfl⟩; omega
    · rintro ⟨h1, h2⟩; exact ⟨(x + n).toNat, by omega, by omega⟩
  unfold ghostRing
  simp only [List.mem_flatMap, List.mem_map, Prod.mk.injEq]
  constructor
  · rintro ⟨a', ha, b', hb, c', hc, rfl, rfl, rfl⟩
    exact ⟨(key _ _).mp ha, (key _ _).mp hb, (key _ _).mp hc⟩
  · rintro ⟨ha, hb, hc⟩
    exact ⟨a, (key _ _).mpr ha, b, (key _ _).mpr hb, c, (key _ _).mpr hc, rfl, rfl, rfl⟩

end search

/-! ## 2. shuffle and index fix-ups -/
section fixup
variable {α G ι : Type}

/-- the `rand_r` swap loop only permutes the pending list, whatever numbers are drawn -/
theorem c13_shuffle_perm (seed : UInt32) (l : List (Coll G)) : (shuffle seed l).1.Perm l :=
  shuffle_perm seed l

/-- A4, one removal: for a surviving index `p ≠ i`, the index computed by the code
    (`p-1` if `p > i` in sorted mode; `i` if `p` was the last index in swap mode) names in the
    new array the identity that `p` named in the old one. -/
theorem c13_fixup_index (ks : Bool) (l : List ι) (i p : Nat) (hi : i < l.length)
    (hp : p < l.length) (hne : p ≠ i) :
    denote (rmList ks l i) (fixIdx ks (i : Int) ((l.length : Int) - 1) (p : Int)) = l[p]? :=
  rmList_getElem? ks l i p hi hp hne

/-- A4, one iteration of collision.c:386-487 on a live entry, in every accepted configuration
    (sorted / unsorted without tree, unsorted with tree), for every resolver outcome (bits 0 and
    1 of any integer): the resolver receives the particles carrying exactly the two identities
    `a`,`b` the entry denoted; afterwards every later entry still tracks its own pair — void iff
    one of its identities was removed, otherwise naming the same two identities — and the
    identity list of the array is the old one minus exactly the requested identities (same
    order when sorted, a permutation when unsorted, unchanged when a tree exists). -/
theorem c13_fixup_step [DecidableEq ι] (v : RmVariant) (ident : α → ι) (flag : α → α)
    (hflag : ∀ a, ident (flag a) = ident a)
    (res : Sim α → Coll G → Sim α × Nat) (hres : ResOK ident res)
    (ks : Bool) (s : Sim α) (hc : Cfg ks s) (hn : (ids ident s).Nodup)
    (c : Coll G) (a b : ι) (hab : a ≠ b)
    (h1 : denote (ids ident s) c.p1 = some a) (h2 : denote (ids ident s) c.p2 = some b)
    (rest : List (Coll G)) (ds : List (ι × ι)) (dead : List ι)
    (htr : List.Forall₂ (Tracks (ids ident s) dead) rest ds) :
    ∃ s' rest' pa pb, processOne v flag res ks s c rest =
        (s', rest', some ⟨c, some pa, some pb, (res s c).2, s.nActive, s.ps.length - s.nVar⟩) ∧
      ident pa = a ∧ ident pb = b ∧
      Cfg ks s' ∧ s'.tree = s.tree ∧ (ids ident s').Nodup ∧
      List.Forall₂ (Tracks (ids ident s') (dead ++ remOf a b (res s c).2)) rest' ds ∧
      IdsAfter ks s.tree (ids ident s) (remOf a b (res s c).2) (ids ident s') :=
  processOne_live ident v flag hflag res hres ks s hc hn c a b hab h1 h2 rest ds dead htr

/-- **fix-up invariant** (A4), whole loop: ∀ particle arrays with distinct identities,
    ∀ pending lists of valid entries, ∀ processing orders `sh` (any permutation of the list —
    in particular the `rand_r` shuffle), ∀ resolvers that do not restructure the array:

    * `Run`: going through `sh` in order, the resolver is called exactly for the entries whose
      two identities are both still alive, with the particles carrying those identities; entries
      naming a removed identity are skipped (nothing is resolved after its removal, nothing twice);
      `dead` collects exactly the identities the outcomes asked to remove;
    * the final array has no duplicates; without a tree it contains exactly the identities of the
      initial array that are not in `dead` (nothing lost, nothing resurrected), in the original
      order when keep_sorted; with a tree the array is untouched (particles are only flagged). -/
theorem c13_fixup_invariant [DecidableEq ι] (v : RmVariant) (ident : α → ι) (flag : α → α)
    (hflag : ∀ a, ident (flag a) = ident a)
    (res : Sim α → Coll G → Sim α × Nat) (hres : ResOK ident res)
    (ks : Bool) (s0 : Sim α) (hc : Cfg ks s0) (hn : (ids ident s0).Nodup)
    (pend sh : List (Coll G)) (hperm : sh.Perm pend) (ds : List (ι × ι))
    (hvalid : List.Forall₂ (fun e d => d.1 ≠ d.2 ∧ denote (ids ident s0) e.p1 = some d.1 ∧
      denote (ids ident s0) e.p2 = some d.2) sh ds) :
    ∃ dead, Run ident [] ds (processLoop v flag res ks s0 sh).2 dead ∧
      (ids ident (processLoop v flag res ks s0 sh).1).Nodup ∧
      (s0.tree = false →
        (∀ x, x ∈ ids ident (processLoop v flag res ks s0 sh).1 ↔ x ∈ ids ident s0 ∧ x ∉ dead) ∧
        (ks = true → (ids ident (processLoop v flag res ks s0 sh).1).Sublist (ids ident s0))) ∧
      (s0.tree = true → ids ident (processLoop v flag res ks s0 sh).1 = ids ident s0) := by
  have hdist : ∀ d ∈ ds, d.1 ≠ d.2 := by
    clear hperm
    induction hvalid with
    | nil => intro d hd; cases hd
    | cons h _ ih =>
      intro d hd
      rcases List.mem_cons.mp hd with rfl | hd
      · exact h.1
      · exact ih d hd
  have htr : List.Forall₂ (Tracks (ids ident s0) []) sh ds := by
    refine List.Forall₂.imp ?_ hvalid
    intro e d h
    right
    exact ⟨by simp, by simp, h.2.1, h.2.2⟩
  obtain ⟨rem, hrun, hids, hnd, hcf, htf⟩ :=
    processLoop_spec ident v flag hflag res hres ks ds hdist s0 sh [] hc hn htr
  refine ⟨rem, by simpa using hrun, hnd, ?_, ?_⟩
  · intro ht
    unfold IdsAfter at hids
    rw [ht] at hids
    simp only [Bool.false_eq_true, if_false] at hids
    have hmem : ∀ x, x ∈ ids ident (processLoop v flag res ks s0 sh).1 ↔
        x ∈ rem.foldl List.erase (ids ident s0) := by
      intro x
      cases ks
      · simp only [Bool.false_eq_true, if_false] at hids; exact hids.mem_iff
      · simp only [if_true] at hids; rw [hids]
    refine ⟨fun x => by rw [hmem, mem_foldl_erase rem hn], ?_⟩
    · intro hk
      subst hk
      simp only [if_true] at hids
      rw [hids]; exact foldl_erase_sublist rem _
  · intro ht
    unfold IdsAfter at hids
    rw [ht] at hids
    simpa using hids

/-- what `reb_simulation_remove_particle` does in the refused configuration keep_sorted + tree
    (F4): in the pinned tree it shifts the array, decrements N (and N_active), *then* reports the
    error and returns 0 — so the driver applies no fix-up to the later entries although the
    indices moved.  (With the guard moved in front, `sortedTreeErrFirst`, the array is left
    alone.)  This is why `c13_fixup_invariant` excludes that configuration (`Cfg.mode`). -/
theorem c13_sorted_tree_removal_refused (v : RmVariant) (flag : α → α) (s : Sim α) (i : Nat)
    (hi : i < s.ps.length) (h2 : 2 ≤ s.ps.length) (hv : s.nVar = 0) (ht : s.tree = true) :
    (removeParticle v flag s (i : Int) true).2 = false ∧
    (removeParticle v flag s (i : Int) true).1.err = s.err + 1 ∧
    (removeParticle v flag s (i : Int) true).1.ps =
      if v.sortedTreeErrFirst then s.ps else s.ps.eraseIdx i := by
  unfold removeParticle
  have hN : ((s.ps.length : Int) == 1) = false := by
    rw [beq_eq_false_iff_ne]; omega
  have hr : ¬ (s.ps.length ≤ i ∨ (i : Int) < 0) := by omega
  cases hf : v.sortedTreeErrFirst <;> simp [hN, hr, hv, ht, hf]

/-- the other refused cases: an index outside the array, or variational particles present,
    leave the array untouched, report an error and return 0 -/
theorem c13_removal_error_cases (v : RmVariant) (flag : α → α) (s : Sim α) (idx : Int) (ks : Bool)
    (hN : s.ps.length ≠ 1) (h : idx < 0 ∨ idx ≥ s.ps.length ∨ s.nVar ≠ 0) :
    (removeParticle v flag s idx ks).2 = false ∧ (removeParticle v flag s idx ks).1.ps = s.ps ∧
    (removeParticle v flag s idx ks).1.err = s.err + 1 := by
  unfold removeParticle
  have hN' : ((s.ps.length : Int) == 1) = false := by
    rw [beq_eq_false_iff_ne]; omega
  by_cases hr : idx ≥ (s.ps.length : Int) ∨ idx < 0
  · have : (decide (idx ≥ (s.ps.length : Int)) || decide (idx < 0)) = true := by
      simpa using hr
    simp [hN', this]
  · have hr' : (decide (idx ≥ (s.ps.length : Int)) || decide (idx < 0)) = false := by
      simp; omega
    have hv : s.nVar ≠ 0 := by
      rcases h with h | h | h
      · omega
      · omega
      · exact h
    simp [hN', hr', hv]

end fixup

/-! ## 3. merge -/
section merge
variable {K : Type} [Field K] [LinearOrder K] [IsStrictOrderedRing K]

/-- the merged particle carries the summed mass, momentum and mass-weighted position of the
    pair (total mass non-zero), keeps the survivor's identity and is stamped
    `last_collision = t` -/
theorem c13_merge_pair_conserves (mid : Bool) (cbrtF : K → K) (t : K) (pi pj : Part K) (hm : pi.m + pj.m ≠ 0) :
    let p := mergePair mid cbrtF t pi pj
    p.m = pi.m + pj.m ∧
    p.m * p.vx = pi.m * pi.vx + pj.m * pj.vx ∧ p.m * p.vy = pi.m * pi.vy + pj.m * pj.vy ∧
    p.m * p.vz = pi.m * pi.vz + pj.m * pj.vz ∧
    p.m * p.x = pi.m * pi.x + pj.m * pj.x ∧ p.m * p.y = pi.m * pi.y + pj.m * pj.y ∧
    p.m * p.z = pi.m * pi.z + pj.m * pj.z ∧ p.id = pi.id ∧ p.lc = t := by
  have h := mergePair_additive mid cbrtF t pi pj hm
  simp only [conservedQ, List.mem_cons, List.not_mem_nil, or_false, forall_eq_or_imp, forall_eq] at h
  obtain ⟨h1, h2, h3, h4, h5, h6, h7⟩ := h
  exact ⟨h1, h2, h3, h4, h5, h6, h7, (mergePair_id mid cbrtF t pi pj).1, (mergePair_id mid cbrtF t pi pj).2⟩

/-- the return value asks for the removal of the *higher* index (1 = p1, 2 = p2), the lower
    index receives the merged particle -/
theorem c13_merge_removes_higher_index (mid : Bool) (cbrtF : K → K) (t : K) (s : Sim (Part K)) (c : Coll (GB K))
    (n1 n2 : Nat) (hp1 : c.p1 = n1) (hp2 : c.p2 = n2) (h1 : n1 < s.ps.length) (h2 : n2 < s.ps.length)
    (hlc1 : s.ps[n1].lc ≠ t) (hlc2 : s.ps[n2].lc ≠ t) :
    merge mid cbrtF t s c =
      if n2 < n1 then ({ s with ps := s.ps.set n2 (mergePair mid cbrtF t s.ps[n2] s.ps[n1]) }, 1)
      else ({ s with ps := s.ps.set n1 (mergePair mid cbrtF t s.ps[n1] s.ps[n2]) }, 2) :=
  merge_eval mid cbrtF t s c n1 n2 hp1 hp2 h1 h2 hlc1 hlc2

/-- a particle that took part in a collision at time `t` is not merged again at `t`:
    the guard returns 0 and leaves the state alone -/
theorem c13_merge_not_twice (mid : Bool) (cbrtF : K → K) (t : K) (s : Sim (Part K)) (c : Coll (GB K))
    (q1 q2 : Part K) (l1 : lookup s c.p1 = some q1) (l2 : lookup s c.p2 = some q2)
    (h : q1.lc = t ∨ q2.lc = t) : merge mid cbrtF t s c = (s, 0) :=
  merge_guard mid cbrtF t s c q1 q2 l1 l2 h

/-- merge satisfies the resolver hypothesis of `c13_fixup_invariant` -/
theorem c13_merge_is_admissible_resolver (mid : Bool) (cbrtF : K → K) (t : K) :
    ResOK (fun p : Part K => p.id) (G := GB K) (merge mid cbrtF t) :=
  merge_resOK mid cbrtF t

/-- **merge step on the array** (no tree, sorted or unsorted removal): one iteration of the
    driver with the merge resolver on a valid entry removes exactly one particle and conserves
    the array totals of mass, momentum and mass-weighted position (centre of mass). -/
theorem c13_merge_step_conserves (v : RmVariant) (mid : Bool) (cbrtF : K → K) (t : K) (ks : Bool) (s : Sim (Part K))
    (hc : Cfg ks s) (ht : s.tree = false) (c : Coll (GB K)) (rest : List (Coll (GB K)))
    (n1 n2 : Nat) (hp1 : c.p1 = n1) (hp2 : c.p2 = n2) (hne : n1 ≠ n2)
    (h1 : n1 < s.ps.length) (h2 : n2 < s.ps.length)
    (hlc1 : s.ps[n1].lc ≠ t) (hlc2 : s.ps[n2].lc ≠ t) (hm : s.ps[n1].m + s.ps[n2].m ≠ 0) :
    let s' := (processOne v flagPart (merge mid cbrtF t) ks s c rest).1
    s'.ps.length + 1 = s.ps.length ∧
    ∀ f ∈ (conservedQ : List (Part K → K)), total f s'.ps = total f s.ps := by
  have hev := merge_eval mid cbrtF t s c n1 n2 hp1 hp2 h1 h2 hlc1 hlc2
  have hcond : (c.p1 != -1 && c.p2 != -1) = true := by
    simp only [Bool.and_eq_true, bne_iff_ne]; omega
  -- WLOG on the order of the two indices; `lo` survives, `hi` is removed
  by_cases hsw : n2 < n1
  · rw [if_pos hsw] at hev
    set s1 : Sim (Part K) := { s with ps := s.ps.set n2 (mergePair mid cbrtF t s.ps[n2] s.ps[n1]) } with hs1
    have hc1 : Cfg ks s1 := ⟨hc.nvar, hc.hyb, hc.mode⟩
    have hlen1 : n1 < s1.ps.length := by simp [hs1]; exact h1
    obtain ⟨s', hrm, hps, _, _, _⟩ := removeParticle_notree v flagPart s1 ks n1 hlen1 hc1 ht
    have hproc : (processOne v flagPart (merge mid cbrtF t) ks s c rest).1 = s' := by
      unfold processOne
      simp only [hcond, if_true, hev]
      unfold removeAndFix
      simp [hp1, hrm]
      split <;> rfl
    intro s''
    have e : s'' = s' := hproc
    rw [e, hps]
    refine ⟨?_, ?_⟩
    · rw [rmList_length ks _ n1 hlen1]; simp [hs1]; omega
    · intro f hf
      have hadd := mergePair_additive mid cbrtF t s.ps[n2] s.ps[n1] (by rw [add_comm]; exact hm) f hf
      exact total_merge f ks s.ps n2 n1 (Ne.symm hne) h2 h1 _ hadd
  · rw [if_neg hsw] at hev
    set s1 : Sim (Part K) := { s with ps := s.ps.set n1 (mergePair mid cbrtF t s.ps[n1] s.ps[n2]) } with hs1
    have hc1 : Cfg ks s1 := ⟨hc.nvar, hc.hyb, hc.mode⟩
    have hlen1 : n2 < s1.ps.length := by simp [hs1]; exact h2
    obtain ⟨s', hrm, hps, _, _, _⟩ := removeParticle_notree v flagPart s1 ks n2 hlen1 hc1 ht
    have hproc : (processOne v flagPart (merge mid cbrtF t) ks s c rest).1 = s' := by
      unfold processOne
      simp only [hcond, if_true, hev]
      unfold removeAndFix
      simp [hp2, hrm]
      split <;> rfl
    intro s''
    have e : s'' = s' := hproc
    rw [e, hps]
    refine ⟨?_, ?_⟩
    · rw [rmList_length ks _ n2 hlen1]; simp [hs1]; omega
    · intro f hf
      have hadd := mergePair_additive mid cbrtF t s.ps[n1] s.ps[n2] hm f hf
      exact total_merge f ks s.ps n1 n2 hne h1 h2 _ hadd

/-- with the massless guard (`fixes/C13-merge-massless.diff`) two massless particles merge at
    the midpoint of their positions and velocities (no division by the zero total mass);
    without it the model, like the code, computes `(0·x + 0·x')·(1/0)` (finding F19) -/
theorem c13_merge_massless_midpoint (cbrtF : K → K) (t : K) (pi pj : Part K) (hm : pi.m + pj.m = 0) :
    let p := mergePair true cbrtF t pi pj
    p.x = 1/2*(pi.x + pj.x) ∧ p.y = 1/2*(pi.y + pj.y) ∧ p.z = 1/2*(pi.z + pj.z) ∧
    p.vx = 1/2*(pi.vx + pj.vx) ∧ p.vy = 1/2*(pi.vy + pj.vy) ∧ p.vz = 1/2*(pi.vz + pj.vz) ∧
    p.m = 0 ∧ p.id = pi.id := by
  have h0 : feq (pi.m + pj.m) (0 : K) = true := (feq_iff _ _).mpr hm
  unfold mergePair
  simp only [sc_hadd, sc_zero, h0, Bool.and_self, if_true, sc_hmul, sc_hdiv, sc_one, sc_ofNat, Nat.cast_ofNat]
  simp [hm]

/-- **energy_offset bookkeeping of a merger** (`track_energy_offset`, collision.c:827-911): what is
    added to `r->energy_offset` — kinetic energies of the two bodies plus their mutual potential
    (only when one of them is active) minus the kinetic energy of the merged body — is the
    kinetic energy of the relative motion, `½·μ·|v_i − v_j|²` with `μ = m_i m_j/(m_i+m_j)`, plus
    `−G m_i m_j / ρ` where `ρ = sqrt(|x_i − x_j|²)` as libm returns it: exactly the energy that
    disappears from the N-body system, so `E + energy_offset` keeps its pair terms. -/
theorem c13_merge_energy_offset (sqrtF cbrtF : K → K) (G t : K) (pot : Bool) (pi pj : Part K)
    (hm : pi.m + pj.m ≠ 0)
    (hρ : pot = true → sqrtF ((pi.x - pj.x)*(pi.x - pj.x) + (pi.y - pj.y)*(pi.y - pj.y) + (pi.z - pj.z)*(pi.z - pj.z)) ≠ 0) :
    mergeEnergy sqrtF G pot pi pj (mergePair false cbrtF t pi pj) =
      (pi.m * pj.m / (pi.m + pj.m)) / 2 * ((pi.vx - pj.vx)^2 + (pi.vy - pj.vy)^2 + (pi.vz - pj.vz)^2)
      - (if pot then G * pi.m * pj.m /
          sqrtF ((pi.x - pj.x)*(pi.x - pj.x) + (pi.y - pj.y)*(pi.y - pj.y) + (pi.z - pj.z)*(pi.z - pj.z)) else 0) := by
  cases pot
  · simp only [mergeEnergy, mergePair, sc_hadd, sc_hsub, sc_hmul, sc_hdiv, sc_hneg, sc_one, sc_zero, sc_ofNat,
      Nat.cast_ofNat, Bool.false_and, Bool.false_eq_true, if_false, zero_add, sub_zero]
    field_simp
    ring
  · have hρ' := hρ rfl
    simp only [mergeEnergy, mergePair, sc_hadd, sc_hsub, sc_hmul, sc_hdiv, sc_hneg, sc_one, sc_zero, sc_ofNat,
      Nat.cast_ofNat, Bool.false_and, Bool.false_eq_true, if_false, if_true, zero_add]
    generalize sqrtF _ = ρ at hρ' ⊢
    field_simp
    ring

end merge

/-! ## 4. hard sphere -/
section hardsphere
variable {K : Type} [Field K] [LinearOrder K] [IsStrictOrderedRing K]

/-- a bounce conserves the pair's momentum and moves nobody, for every impulse `dvx2`, every
    rotation and every restitution (total mass non-zero) -/
theorem c13_hardsphere_momentum (eqm : Bool) (st ct sp cp dvx2 t : K) (p1 p2 : Part K) (hM : p1.m + p2.m ≠ 0) :
    let n := hsApply eqm st ct sp cp dvx2 t p1 p2 p1 p2
    n.1.m * n.1.vx + n.2.m * n.2.vx = p1.m * p1.vx + p2.m * p2.vx ∧
    n.1.m * n.1.vy + n.2.m * n.2.vy = p1.m * p1.vy + p2.m * p2.vy ∧
    n.1.m * n.1.vz + n.2.m * n.2.vz = p1.m * p1.vz + p2.m * p2.vz ∧
    n.1.m = p1.m ∧ n.2.m = p2.m ∧
    (n.1.x, n.1.y, n.1.z) = (p1.x, p1.y, p1.z) ∧ (n.2.x, n.2.y, n.2.z) = (p2.x, p2.y, p2.z) := by
  rw [hsApply_massive eqm st ct sp cp dvx2 t p1 p2 p1 p2 hM]
  simp only [hsApply, sc_hadd, sc_hsub, sc_hmul, sc_hdiv, and_true, Bool.false_and, Bool.false_eq_true, if_false]
  refine ⟨?_, ?_, ?_⟩ <;> field_simp <;> ring

/-- with `minimum_collision_velocity = 0` an approaching pair receives the impulse
    `−(1+ε)·vₙ` along the axis; in general the clamp can only increase it -/
theorem c13_hardsphere_impulse (eps mcv rr vn : K) (p1 p2 : Part K) :
    -(1 + eps) * vn ≤ hsDvx2 eps mcv rr vn p1 p2 ∧
    (mcv = 0 → vn ≤ 0 → 0 ≤ 1 + eps → hsDvx2 eps mcv rr vn p1 p2 = -(1 + eps) * vn) :=
  ⟨hsDvx2_ge eps mcv rr vn p1 p2, fun h1 h2 h3 => by subst h1; exact hsDvx2_unclamped eps rr vn p1 p2 h2 h3⟩

/-- the relative velocity along the impulse axis after the bounce is `vₙ + dvx2`
    (rotation given by `sin²+cos² = 1` for both angles); with `dvx2 = −(1+ε)vₙ` it is `−ε·vₙ`,
    i.e. separating for `ε ≥ 0`, `vₙ ≤ 0` -/
theorem c13_hardsphere_normal_velocity (eqm : Bool) (st ct sp cp dvx2 t : K) (gb : GB K) (p1 p2 : Part K)
    (hθ : st*st + ct*ct = 1) (hφ : sp*sp + cp*cp = 1) (hM : p1.m + p2.m ≠ 0) :
    let n := hsApply eqm st ct sp cp dvx2 t p1 p2 p1 p2
    hsVn st ct sp cp (relOf n.1 n.2 gb) = hsVn st ct sp cp (relOf p1 p2 gb) + dvx2 := by
  have hu := axis_unit st ct sp cp hθ hφ
  rw [hsApply_massive eqm st ct sp cp dvx2 t p1 p2 p1 p2 hM]
  simp only [hsApply, hsVn, relOf, sc_hadd, sc_hsub, sc_hmul, sc_hdiv, Bool.false_and, Bool.false_eq_true, if_false]
  field_simp
  linear_combination (dvx2 * (p1.m + p2.m)) * hu

/-- restitution 1 (and no velocity floor) conserves the kinetic energy of the pair, measured in
    the frame of the ghost box of p1 (`v₁ + gb.v`, `v₂`) -/
theorem c13_hardsphere_energy (eqm : Bool) (st ct sp cp t : K) (gb : GB K) (p1 p2 : Part K)
    (hθ : st*st + ct*ct = 1) (hφ : sp*sp + cp*cp = 1) (hM : p1.m + p2.m ≠ 0) :
    let vn := hsVn st ct sp cp (relOf p1 p2 gb)
    let n := hsApply eqm st ct sp cp (-(1 + 1) * vn) t p1 p2 p1 p2
    n.1.m * ((n.1.vx + gb.vx)^2 + (n.1.vy + gb.vy)^2 + (n.1.vz + gb.vz)^2)
      + n.2.m * (n.2.vx^2 + n.2.vy^2 + n.2.vz^2)
    = p1.m * ((p1.vx + gb.vx)^2 + (p1.vy + gb.vy)^2 + (p1.vz + gb.vz)^2)
      + p2.m * (p2.vx^2 + p2.vy^2 + p2.vz^2) := by
  have hu := axis_unit st ct sp cp hθ hφ
  obtain ⟨M, hMd⟩ : ∃ M, M = p1.m + p2.m := ⟨_, rfl⟩
  obtain ⟨b, hb⟩ : ∃ b, b = p1.m / M := ⟨_, rfl⟩
  have hM' : M ≠ 0 := by rw [hMd]; exact hM
  have e1 : p1.m = M * b := by rw [hb]; field_simp
  have e2 : p2.m = M * (1 - b) := by rw [mul_sub, mul_one, ← e1, hMd]; ring
  have f1 : p1.m / (p1.m + p2.m) = b := by rw [← hMd, hb]
  have f2 : p2.m / (p1.m + p2.m) = 1 - b := by rw [← hMd, e2]; field_simp
  have key := elastic_axis M b cp (sp*ct) (sp*st) (p1.vx + gb.vx) (p1.vy + gb.vy) (p1.vz + gb.vz)
    p2.vx p2.vy p2.vz hM' hu
  intro vn n
  have hn : n = hsApply false st ct sp cp (-(1 + 1) * vn) t p1 p2 p1 p2 := hsApply_massive eqm st ct sp cp _ t p1 p2 p1 p2 hM
  rw [hn]
  simp only [vn, hsApply, hsVn, relOf, sc_hadd, sc_hsub, sc_hmul, sc_hdiv, f1, f2, Bool.false_and, Bool.false_eq_true, if_false]
  simp only at key
  rw [e1, e2]
  linear_combination key

/-- the impulse axis *is* the line of centres when the two rotations align it as `atan2` does:
    `(cosθ, sinθ)·ρ = (y₂₁, z₂₁)` and `(cosφ, sinφ)·R = (x₂₁, y₂₁ₙ)`.  Then
    `R·vₙ = r₂₁·v₂₁`, so after a bounce with restitution `ε ≥ 0` the pair separates:
    `r₂₁·v₂₁' = −ε·(r₂₁·v₂₁) ≥ 0` (and ≥ that with a velocity floor). -/
theorem c13_hardsphere_separating (eqm : Bool) (st ct sp cp rr mcv t ρ R eps : K) (gb : GB K) (p1 p2 : Part K)
    (hθ : st*st + ct*ct = 1) (hφ : sp*sp + cp*cp = 1)
    (haθ : ct*ρ = (relOf p1 p2 gb).y21 ∧ st*ρ = (relOf p1 p2 gb).z21)
    (haφ : cp*R = (relOf p1 p2 gb).x21 ∧
           sp*R = ct*(relOf p1 p2 gb).y21 + st*(relOf p1 p2 gb).z21)
    (hR : 0 < R) (heps : 0 ≤ eps) (hM : p1.m + p2.m ≠ 0)
    (happ : (relOf p1 p2 gb).vx21*(relOf p1 p2 gb).x21 + (relOf p1 p2 gb).vy21*(relOf p1 p2 gb).y21
              + (relOf p1 p2 gb).vz21*(relOf p1 p2 gb).z21 ≤ 0) :
    let q := relOf p1 p2 gb
    let vn := hsVn st ct sp cp q
    let n := hsApply eqm st ct sp cp (hsDvx2 eps mcv rr vn p1 p2) t p1 p2 p1 p2
    let q' := relOf n.1 n.2 gb
    R * vn = q.vx21*q.x21 + q.vy21*q.y21 + q.vz21*q.z21 ∧
    0 ≤ q'.vx21*q'.x21 + q'.vy21*q'.y21 + q'.vz21*q'.z21 := by
  intro q vn n q'
  obtain ⟨a1, a2⟩ := haθ
  obtain ⟨b1, b2⟩ := haφ
  -- R·(cosφ, sinφ cosθ, sinφ sinθ) = r₂₁
  have hρ : ct*q.y21 + st*q.z21 = ρ := by
    show ct*(relOf p1 p2 gb).y21 + st*(relOf p1 p2 gb).z21 = ρ
    rw [← a1, ← a2]; linear_combination ρ * hθ
  have ux : cp * R = q.x21 := b1
  have uy : sp * ct * R = q.y21 := by
    show sp * ct * R = (relOf p1 p2 gb).y21
    rw [← a1]; have : sp * R = ρ := by rw [b2]; exact hρ
    linear_combination ct * this
  have uz : sp * st * R = q.z21 := by
    show sp * st * R = (relOf p1 p2 gb).z21
    rw [← a2]; have : sp * R = ρ := by rw [b2]; exact hρ
    linear_combination st * this
  have hvn : R * vn = q.vx21*q.x21 + q.vy21*q.y21 + q.vz21*q.z21 := by
    show R * hsVn st ct sp cp q = _
    rw [← ux, ← uy, ← uz]; simp only [hsVn, sc_hadd, sc_hmul]; ring
  have hvn0 : vn ≤ 0 := by
    have : R * vn ≤ 0 := by rw [hvn]; exact happ
    by_contra h
    have : 0 < R * vn := mul_pos hR (not_le.mp h)
    linarith
  refine ⟨hvn, ?_⟩
  -- positions unchanged, normal velocity becomes vn + dvx2 ≥ -eps*vn ≥ 0
  have hnv := c13_hardsphere_normal_velocity eqm st ct sp cp (hsDvx2 eps mcv rr vn p1 p2) t gb p1 p2 hθ hφ hM
  have hpos : q'.x21 = q.x21 ∧ q'.y21 = q.y21 ∧ q'.z21 = q.z21 := by
    have hn : n = hsApply false st ct sp cp (hsDvx2 eps mcv rr vn p1 p2) t p1 p2 p1 p2 := hsApply_massive eqm st ct sp cp _ t p1 p2 p1 p2 hM
    simp only [q', q, hn, relOf, hsApply, and_self]
  have hge := hsDvx2_ge eps mcv rr vn p1 p2
  have hvn' : hsVn st ct sp cp q' = vn + hsDvx2 eps mcv rr vn p1 p2 := hnv
  have hnonneg : 0 ≤ hsVn st ct sp cp q' := by
    rw [hvn']
    have : 0 ≤ eps * (-vn) := mul_nonneg heps (by linarith)
    linarith
  have : R * hsVn st ct sp cp q' = q'.vx21*q'.x21 + q'.vy21*q'.y21 + q'.vz21*q'.z21 := by
    rw [hpos.1, hpos.2.1, hpos.2.2, ← ux, ← uy, ← uz]; simp only [hsVn, sc_hadd, sc_hmul]; ring
  rw [← this]
  exact mul_nonneg hR.le hnonneg

/-- with the massless guard (`fixes/C13-hardsphere-massless.diff`) two massless particles bounce
    like equal masses: each takes half of the impulse, no division by the zero total mass -/
theorem c13_hardsphere_massless (st ct sp cp dvx2 t : K) (p1 p2 : Part K) (hM : p1.m + p2.m = 0) :
    let n := hsApply true st ct sp cp dvx2 t p1 p2 p1 p2
    n.1.vx = p1.vx + 1/2*(cp*dvx2) ∧ n.2.vx = p2.vx - 1/2*(cp*dvx2) ∧
    n.1.vy = p1.vy + 1/2*(ct*(sp*dvx2)) ∧ n.2.vy = p2.vy - 1/2*(ct*(sp*dvx2)) ∧
    n.1.vz = p1.vz + 1/2*(st*(sp*dvx2)) ∧ n.2.vz = p2.vz - 1/2*(st*(sp*dvx2)) := by
  have h0 : feq (p1.m + p2.m) (0 : K) = true := (feq_iff _ _).mpr hM
  unfold hsApply
  simp only [sc_hadd, sc_zero, h0, Bool.and_self, if_true, sc_hmul, sc_hdiv, sc_hsub, sc_one, sc_ofNat, Nat.cast_ofNat]
  simp

end hardsphere

/-! ## 5. tree pruning -/
section prune
variable {K : Type} [Field K] [LinearOrder K] [IsStrictOrderedRing K]

/-- soundness of the pruning test of the TREE walk (collision.c:579-585) as a geometric lemma:
    if p2 lies within `h` of the cell centre in every coordinate, `√3·h ≤ k·w` (stated through
    squares; `k` is the code's 0.86602540378443), p1 (ghost-shifted, at `g`) strictly overlaps
    p2, and **hypothesis H**: `r₂ ≤ max_radius1` — then the walk descends into the cell.
    H is what `max_radius0/1` are meant to guarantee for at least one end of every pair; the
    code maintains them only in `reb_simulation_add`, so H fails after radii are assigned
    later or grow in a merger (finding F8), and the LINETREE walk does not use them at all
    (finding F18).  The tree walk itself is not modelled here (C15). -/
theorem c13_tree_prune_sound (k maxR1 r1 r2 w h : K) (gx gy gz x2 y2 z2 cx cy cz : K)
    (hr1 : 0 ≤ r1) (hr2 : 0 ≤ r2) (hk : 0 ≤ k) (hw : 0 ≤ w)
    (hH : r2 ≤ maxR1)
    (hcx : (x2 - cx)^2 ≤ h^2) (hcy : (y2 - cy)^2 ≤ h^2) (hcz : (z2 - cz)^2 ≤ h^2)
    (hkh : 3 * h^2 ≤ (k*w)^2)
    (hov : (gx - x2)^2 + (gy - y2)^2 + (gz - z2)^2 < (r1 + r2)^2) :
    descends k maxR1 r1 w gx gy gz cx cy cz = true :=
  descends_of_overlap k maxR1 r1 r2 w h gx gy gz x2 y2 z2 cx cy cz hr1 hr2 hk hw hH hcx hcy hcz hkh hov

/-- the literal constant of the source, 0.86602540378443, is (slightly) *smaller* than √3/2, so
    the lemma covers partners within 0.49999999999999·w of the cell centre per coordinate,
    not the full half width: a partner in the outermost 2·10⁻¹⁴ of a cell corner, touching
    within the same margin, is outside the guarantee. -/
theorem c13_tree_prune_constant (w : K) (hw : 0 ≤ w) :
    3 * ((49999999999999 / 100000000000000 : K) * w)^2 ≤ ((86602540378443 / 100000000000000 : K) * w)^2 ∧
    ((86602540378443 / 100000000000000 : K))^2 < 3 / 4 := by
  constructor
  · have h : (3 : K) * (49999999999999 / 100000000000000)^2 ≤ (86602540378443 / 100000000000000)^2 := by
      norm_num
    have hw2 : 0 ≤ w^2 := sq_nonneg w
    calc 3 * ((49999999999999 / 100000000000000 : K) * w)^2
        = (3 * (49999999999999 / 100000000000000 : K)^2) * w^2 := by ring
      _ ≤ ((86602540378443 / 100000000000000 : K))^2 * w^2 := mul_le_mul_of_nonneg_right h hw2
      _ = ((86602540378443 / 100000000000000 : K) * w)^2 := by ring
  · norm_num

/-- `reb_collision_update_max_radius` (8402256) establishes hypothesis H for at least one end of
    every pair: afterwards every radius is ≤ max_radius0, the stored values have not decreased,
    and of any two different particles at least one has radius ≤ max_radius1. -/
theorem c13_max_radius_bound (old0 old1 : K) (radii : List K) :
    let m := updateMaxRadius old0 old1 radii
    (∀ x ∈ radii, x ≤ m.1) ∧ old0 ≤ m.1 ∧ old1 ≤ m.2 ∧
    ∀ (a b : Nat) (hab : a < b) (hb : b < radii.length), radii[a]'(by omega) ≤ m.2 ∨ radii[b] ≤ m.2 := by
  obtain ⟨h1, h2, h3, h4⟩ := updateMaxRadius_spec old0 old1 radii
  exact ⟨h1, h3, h4, exceed_pair _ radii h2⟩

/-- **completeness of the TREE walk** (`reb_tree_get_nearest_neighbour_in_cell`) relative to the
    DIRECT test, over the oct-tree model of C15 under its containment invariant `WF`
    (`c15_cells_contain_particles`): started from particle `i` with ghost-shifted state `g`, the
    walk appends `(i,q,gb)` for every leaf `q ≠ i` that passes the DIRECT test, provided
    H: `r_q ≤ max_radius1`, and the overlap is deeper than `ε·W` (`W` ≥ root cell width) where
    `(k+ε)² ≥ 3/4`.  For the source's `k = 0.86602540378443`, `ε = 10⁻¹⁴` works
    (`c13_tree_constant_slack`): the literal is 8.7·10⁻¹⁵ short of √3/2, so pairs touching
    within 10⁻¹⁴ of the box size can be pruned. -/
theorem c13_tree_walk_complete (k ε maxR1 W : K) (hk : 0 ≤ k) (hε : 0 ≤ ε) (hkε : 3 ≤ 4 * (k + ε)^2)
    (P : Nat → Part K) (tie : Bool) (gb g : GB K) (i q : Nat) (r1 : K)
    (hr1 : 0 ≤ r1) (hH : (P q).r ≤ maxR1) (hqi : q ≠ i)
    (hhit : directHit g r1 (P q) = true)
    (hm : 0 ≤ r1 + (P q).r - ε*W)
    (hov : (g.x - (P q).x)^2 + (g.y - (P q).y)^2 + (g.z - (P q).z)^2 < (r1 + (P q).r - ε*W)^2)
    (t : RV.Tree.T K) (c : RV.Tree.Cell K) (hwf : RV.C15.WF (psT P) tie c t) (hw0 : 0 ≤ c.w) (hwW : c.w ≤ W)
    (hq : q ∈ RV.Tree.leaves t) :
    (⟨(i : Int), (q : Int), gb⟩ : Coll (GB K)) ∈ treeWalk k maxR1 P gb g i r1 t :=
  mem_treeWalk k ε maxR1 W hk hε hkε P tie gb g i q r1 hr1 hH hqi hhit hm hov t c hwf hw0 hwW hq

theorem c13_tree_constant_slack :
    (3 : K) ≤ 4 * ((86602540378443 / 100000000000000 : K) + 1 / 100000000000000)^2 := by
  norm_num

/-- **completeness of the TREE search relative to the DIRECT search**: with `max_radius1` as
    left by `reb_collision_update_max_radius`, every pair `i ≠ j` that the DIRECT search reports
    (in both orientations, through the mirrored ghost boxes `gb`, `gb'`) and whose particles are
    in (well-formed) trees of the forest is found by the TREE search from at least one of its
    two ends (overlap deeper than `ε·W` as above). -/
theorem c13_tree_search_complete (k ε W old0 old1 : K) (hk : 0 ≤ k) (hε : 0 ≤ ε)
    (hkε : 3 ≤ 4 * (k + ε)^2)
    (ring : List (GB K)) (P : Nat → Part K) (n : Nat) (roots : List (RV.Tree.T K)) (tie : Bool)
    (hr : ∀ q, 0 ≤ (P q).r)
    (i j : Nat) (hi : i < n) (hj : j < n) (hij : i ≠ j)
    (gb gb' : GB K) (hgb : gb ∈ ring) (hgb' : gb' ∈ ring)
    (hit1 : directHit (shiftGB gb (P i)) (P i).r (P j) = true)
    (hit2 : directHit (shiftGB gb' (P j)) (P j).r (P i) = true)
    (hm : 0 ≤ (P i).r + (P j).r - ε*W)
    (hov1 : ((shiftGB gb (P i)).x - (P j).x)^2 + ((shiftGB gb (P i)).y - (P j).y)^2
              + ((shiftGB gb (P i)).z - (P j).z)^2 < ((P i).r + (P j).r - ε*W)^2)
    (hov2 : ((shiftGB gb' (P j)).x - (P i).x)^2 + ((shiftGB gb' (P j)).y - (P i).y)^2
              + ((shiftGB gb' (P j)).z - (P i).z)^2 < ((P j).r + (P i).r - ε*W)^2)
    (tj ti : RV.Tree.T K) (cj ci : RV.Tree.Cell K) (htj : tj ∈ roots) (hti : ti ∈ roots)
    (hwfj : RV.C15.WF (psT P) tie cj tj) (hwfi : RV.C15.WF (psT P) tie ci ti)
    (hcj : 0 ≤ cj.w ∧ cj.w ≤ W) (hci : 0 ≤ ci.w ∧ ci.w ≤ W)
    (hjl : j ∈ RV.Tree.leaves tj) (hil : i ∈ RV.Tree.leaves ti) :
    let m1 := (updateMaxRadius old0 old1 ((List.range n).map fun q => (P q).r)).2
    (⟨(i : Int), (j : Int), gb⟩ : Coll (GB K)) ∈ treeSearch k m1 ring P n roots ∨
    (⟨(j : Int), (i : Int), gb'⟩ : Coll (GB K)) ∈ treeSearch k m1 ring P n roots := by
  intro m1
  obtain ⟨_, _, _, hpair⟩ := c13_max_radius_bound old0 old1 ((List.range n).map fun q => (P q).r)
  have hlen : ((List.range n).map fun q => (P q).r).length = n := by simp
  have hH : (P i).r ≤ m1 ∨ (P j).r ≤ m1 := by
    rcases Nat.lt_or_gt_of_ne hij with h | h
    · have := hpair i j h (by rw [hlen]; exact hj)
      simpa using this
    · have := hpair j i h (by rw [hlen]; exact hi)
      simpa using this.symm
  unfold treeSearch
  simp only [List.mem_flatMap, List.mem_range]
  rcases hH with hH | hH
  · right
    refine ⟨j, hj, gb', hgb', ti, hti, ?_⟩
    exact mem_treeWalk k ε m1 W hk hε hkε P tie gb' _ j i (P j).r (hr j) hH hij hit2
      (by linarith) hov2 ti ci hwfi hci.1 hci.2 hil
  · left
    refine ⟨i, hi, gb, hgb, tj, htj, ?_⟩
    exact mem_treeWalk k ε m1 W hk hε hkε P tie gb _ i j (P i).r (hr i) hH (Ne.symm hij) hit1
      hm hov1 tj cj hwfj hcj.1 hcj.2 hjl

/-- soundness of the TREE walk: every entry it appends is `(i,q,gb)` for a leaf `q ≠ i` of the
    tree that passes the DIRECT test — the TREE search reports nothing DIRECT would not. -/
theorem c13_tree_walk_sound (k maxR1 : K) (P : Nat → Part K) (gb g : GB K) (i : Nat) (r1 : K)
    (t : RV.Tree.T K) (e : Coll (GB K)) (h : e ∈ treeWalk k maxR1 P gb g i r1 t) :
    ∃ q, q ∈ RV.Tree.leaves t ∧ q ≠ i ∧ directHit g r1 (P q) = true ∧ e = ⟨(i : Int), (q : Int), gb⟩ :=
  treeWalk_sound k maxR1 P gb g i r1 t e h

/-- **completeness of the LINETREE walk** (`reb_tree_check_for_overlapping_trajectories_in_cell`,
    as repaired by c3afa2d / 5a2eb94) relative to the LINE test: started from particle `i`, the
    walk appends `(i,q,gb)` for every leaf `q ≠ i` of a well-formed tree whose straight-line path
    came within `r_i + r_q` of p1's during the last step (deeper than `ε·W`), provided
    H: `r_q ≤ max_radius1` and `D1`, `D2` bound the drifts `|dt|·|v|` of the ghost-shifted p1 and
    of `q` (in the code: `p1_r_plus_dtv - p1_r` and `maxdrift`). -/
theorem c13_linetree_walk_complete (k ε maxR1 W dt D1 D2 : K) (hk : 0 ≤ k) (hε : 0 ≤ ε)
    (hkε : 3 ≤ 4 * (k + ε)^2) (hdt : dt ≠ 0)
    (P : Nat → Part K) (tie : Bool) (gb g : GB K) (i q : Nat) (r1 : K)
    (hr1 : 0 ≤ r1) (hH : (P q).r ≤ maxR1) (hqi : q ≠ i)
    (hD1 : 0 ≤ D1 ∧ dt^2 * (g.vx^2 + g.vy^2 + g.vz^2) ≤ D1^2)
    (hD2 : 0 ≤ D2 ∧ dt^2 * ((P q).vx^2 + (P q).vy^2 + (P q).vz^2) ≤ D2^2)
    (hhit : lineHit dt g r1 (P q) = true)
    (hm : 0 ≤ r1 + (P q).r - ε*W)
    (hov : lineRmin2 dt g (P q) < (r1 + (P q).r - ε*W)^2)
    (t : RV.Tree.T K) (c : RV.Tree.Cell K) (hwf : RV.C15.WF (psT P) tie c t) (hw0 : 0 ≤ c.w) (hwW : c.w ≤ W)
    (hq : q ∈ RV.Tree.leaves t) :
    (⟨(i : Int), (q : Int), gb⟩ : Coll (GB K)) ∈
      lineTreeWalk k maxR1 dt D2 P gb g i r1 (r1 + D1) t :=
  mem_lineTreeWalk k ε maxR1 W dt D1 D2 hk hε hkε hdt P tie gb g i q r1 hr1 hH hqi hD1 hD2 hhit hm hov
    t c hwf hw0 hwW hq

/-- the drift terms the LINETREE search computes do bound the drifts: with libm's `sqrt`, `fabs`
    behaving as square root and absolute value on the values concerned, `|dt|·√(v_i²)` and
    `maxdrift = |dt|·√(vmax2)` satisfy the hypotheses `hD1` (ghost box without velocity offset,
    i.e. not a shear image) and `hD2` (any `q < N`) of `c13_linetree_walk_complete`. -/
theorem c13_linetree_drift_bounds (sqrtF fabsF : K → K) (dt : K) (P : Nat → Part K) (n i q : Nat)
    (hq : q < n) (hfabs : fabsF dt = |dt|)
    (hsqrt : ∀ x, 0 ≤ x → 0 ≤ sqrtF x ∧ sqrtF x ^ 2 = x) :
    let si := (P i).vx^2 + (P i).vy^2 + (P i).vz^2
    (0 ≤ fabsF dt * sqrtF si ∧ dt^2 * si ≤ (fabsF dt * sqrtF si)^2) ∧
    (0 ≤ fabsF dt * sqrtF (vmax2 P n) ∧
      dt^2 * ((P q).vx^2 + (P q).vy^2 + (P q).vz^2) ≤ (fabsF dt * sqrtF (vmax2 P n))^2) := by
  intro si
  have hsi : 0 ≤ si := by positivity
  obtain ⟨hv, hv0⟩ := vmax2_ge P n q hq
  obtain ⟨a1, a2⟩ := hsqrt si hsi
  obtain ⟨b1, b2⟩ := hsqrt (vmax2 P n) hv0
  rw [hfabs]
  refine ⟨⟨mul_nonneg (abs_nonneg _) a1, ?_⟩, ⟨mul_nonneg (abs_nonneg _) b1, ?_⟩⟩
  · rw [mul_pow, sq_abs, a2]
  · rw [mul_pow, sq_abs, b2]
    exact mul_le_mul_of_nonneg_left hv (sq_nonneg dt)

/-- **completeness of the LINETREE search relative to the LINE test, with the pruning bound as a
    function of the step actually done**: `dt` below is the one `dt_last_done` that enters both the
    leaf test (`lineHit dt`) and the drift terms `|dt|·√(v²)`, `|dt|·√(vmax2)` of the pruning radius
    (a search that built the drift terms from another step length is a different function and
    fails the tie).  With `max_radius1` as left by `reb_collision_update_max_radius`, ghost boxes
    without velocity offset, and libm's `sqrt`/`fabs` behaving as such on the values concerned:
    every pair `i ≠ j` whose straight-line paths came within `r_i + r_j` during the step (seen from
    both ends through mirrored ghost boxes, deeper than `ε·W`) and whose particles are in
    well-formed trees of the forest is found by the LINETREE search from at least one end. -/
theorem c13_linetree_search_complete (sqrtF fabsF : K → K) (k ε W old0 old1 dt : K)
    (hk : 0 ≤ k) (hε : 0 ≤ ε) (hkε : 3 ≤ 4 * (k + ε)^2) (hdt : dt ≠ 0)
    (hfabs : fabsF dt = |dt|) (hsqrt : ∀ x, 0 ≤ x → 0 ≤ sqrtF x ∧ sqrtF x ^ 2 = x)
    (ring : List (GB K)) (P : Nat → Part K) (n : Nat) (roots : List (RV.Tree.T K)) (tie : Bool)
    (hr : ∀ q, 0 ≤ (P q).r)
    (i j : Nat) (hi : i < n) (hj : j < n) (hij : i ≠ j)
    (gb gb' : GB K) (hgb : gb ∈ ring) (hgb' : gb' ∈ ring)
    (hv : gb.vx = 0 ∧ gb.vy = 0 ∧ gb.vz = 0) (hv' : gb'.vx = 0 ∧ gb'.vy = 0 ∧ gb'.vz = 0)
    (hit1 : lineHit dt (shiftGB gb (P i)) (P i).r (P j) = true)
    (hit2 : lineHit dt (shiftGB gb' (P j)) (P j).r (P i) = true)
    (hm : 0 ≤ (P i).r + (P j).r - ε*W)
    (hov1 : lineRmin2 dt (shiftGB gb (P i)) (P j) < ((P i).r + (P j).r - ε*W)^2)
    (hov2 : lineRmin2 dt (shiftGB gb' (P j)) (P i) < ((P j).r + (P i).r - ε*W)^2)
    (tj ti : RV.Tree.T K) (cj ci : RV.Tree.Cell K) (htj : tj ∈ roots) (hti : ti ∈ roots)
    (hwfj : RV.C15.WF (psT P) tie cj tj) (hwfi : RV.C15.WF (psT P) tie ci ti)
    (hcj : 0 ≤ cj.w ∧ cj.w ≤ W) (hci : 0 ≤ ci.w ∧ ci.w ≤ W)
    (hjl : j ∈ RV.Tree.leaves tj) (hil : i ∈ RV.Tree.leaves ti) :
    let m1 := (updateMaxRadius old0 old1 ((List.range n).map fun q => (P q).r)).2
    (⟨(i : Int), (j : Int), gb⟩ : Coll (GB K)) ∈ lineTreeSearch sqrtF fabsF k m1 dt ring P n roots ∨
    (⟨(j : Int), (i : Int), gb'⟩ : Coll (GB K)) ∈ lineTreeSearch sqrtF fabsF k m1 dt ring P n roots := by
  intro m1
  obtain ⟨_, _, _, hpair⟩ := c13_max_radius_bound old0 old1 ((List.range n).map fun q => (P q).r)
  have hlen : ((List.range n).map fun q => (P q).r).length = n := by simp
  have hH : (P i).r ≤ m1 ∨ (P j).r ≤ m1 := by
    rcases Nat.lt_or_gt_of_ne hij with h | h
    · have := hpair i j h (by rw [hlen]; exact hj)
      simpa using this
    · have := hpair j i h (by rw [hlen]; exact hi)
      simpa using this.symm
  -- the drift terms of the search, in the form the model computes them
  have key : ∀ (a b : Nat) (g0 : GB K), a < n → b < n → g0.vx = 0 ∧ g0.vy = 0 ∧ g0.vz = 0 →
      (0 ≤ fabsF dt * sqrtF ((P a).vx*(P a).vx + (P a).vy*(P a).vy + (P a).vz*(P a).vz) ∧
        dt^2 * ((shiftGB g0 (P a)).vx^2 + (shiftGB g0 (P a)).vy^2 + (shiftGB g0 (P a)).vz^2) ≤
          (fabsF dt * sqrtF ((P a).vx*(P a).vx + (P a).vy*(P a).vy + (P a).vz*(P a).vz))^2) ∧
      (0 ≤ fabsF dt * sqrtF (vmax2 P n) ∧
        dt^2 * ((P b).vx^2 + (P b).vy^2 + (P b).vz^2) ≤ (fabsF dt * sqrtF (vmax2 P n))^2) := by
    intro a b g0 ha hb hg0
    obtain ⟨d1, d2⟩ := c13_linetree_drift_bounds sqrtF fabsF dt P n a b hb hfabs hsqrt
    have e : (P a).vx*(P a).vx + (P a).vy*(P a).vy + (P a).vz*(P a).vz
        = (P a).vx^2 + (P a).vy^2 + (P a).vz^2 := by ring
    rw [e]
    refine ⟨⟨d1.1, ?_⟩, d2⟩
    have : (shiftGB g0 (P a)).vx = (P a).vx ∧ (shiftGB g0 (P a)).vy = (P a).vy ∧
        (shiftGB g0 (P a)).vz = (P a).vz := by
      simp [shiftGB, hg0.1, hg0.2.1, hg0.2.2]
    rw [this.1, this.2.1, this.2.2]
    exact d1.2
  unfold lineTreeSearch
  simp only [List.mem_flatMap, List.mem_range, sc_hadd, sc_hmul]
  rcases hH with hH | hH
  · right
    obtain ⟨kD1, kD2⟩ := key j i gb' hj hi hv'
    refine ⟨j, hj, gb', hgb', ti, hti, ?_⟩
    exact mem_lineTreeWalk k ε m1 W dt _ _ hk hε hkε hdt P tie gb' _ j i (P j).r (hr j) hH hij kD1 kD2 hit2
      (by linarith) hov2 ti ci hwfi hci.1 hci.2 hil
  · left
    obtain ⟨kD1, kD2⟩ := key i j gb hi hj hv
    refine ⟨i, hi, gb, hgb, tj, htj, ?_⟩
    exact mem_lineTreeWalk k ε m1 W dt _ _ hk hε hkε hdt P tie gb _ i j (P i).r (hr i) hH (Ne.symm hij) kD1 kD2 hit1
      hm hov1 tj cj hwfj hcj.1 hcj.2 hjl

end prune

/-! ## 7. what the step hands to the search -/
section stepinput
variable {K : Type} [Field K] [LinearOrder K] [IsStrictOrderedRing K]

/-- **the collision search never sees a particle that left the box** (open boundary, end of
    `reb_simulation_step`, rebound.c:153-166, with C15's model of `reb_boundary_check`): after the
    boundary check — and, with a tree, the tree update that `tree_needs_update` triggers — every
    particle in the array is inside the box and unflagged, and every particle that was inside is
    still there.  Skipping that tree update leaves `y = NaN` particles in the array, for which every
    rejection test of the DIRECT / LINE searches is false. -/
theorem c13_search_input_inside_box (bx bY bz : K) (teo clamp : Bool) (s : Sim (Part K))
    (hnf : ∀ p ∈ s.ps, p.flagged = false) :
    (∀ p ∈ (searchInputOpen bx bY bz teo clamp s).ps, outsideBox bx bY bz p = false ∧ p.flagged = false) ∧
    (∀ p ∈ s.ps, outsideBox bx bY bz p = false → p ∈ (searchInputOpen bx bY bz teo clamp s).ps) := by
  unfold searchInputOpen
  cases ht : s.tree
  · -- no tree: the removal loops of boundary.c
    simp only [Bool.false_eq_true, if_false]
    cases teo
    · simp only [Bool.false_eq_true, if_false]
      have hp := RV.C15.openLoop_zero (outsideBox bx bY bz) s.ps
      constructor
      · intro p hpm
        have := (hp.mem_iff).mp hpm
        simp only [List.mem_filter, Bool.not_eq_true'] at this
        exact ⟨this.2, hnf p this.1⟩
      · intro p hpm ho
        exact (hp.mem_iff).mpr (by simp [List.mem_filter, hpm, ho])
    · simp only [if_true]
      rw [RV.C15.openLoopSorted_eq]
      simp only [List.take_zero, List.drop_zero, List.nil_append]
      constructor
      · intro p hpm
        simp only [List.mem_filter, Bool.not_eq_true'] at hpm
        exact ⟨hpm.2, hnf p hpm.1⟩
      · intro p hpm ho
        simp [List.mem_filter, hpm, ho]
  · -- tree: flagged by the boundary check, dropped by the tree update
    simp only [if_true]
    have markmem : ∀ (l : List (Part K)) (q : Part K), q ∈ RV.Boundary.openMark (outsideBox bx bY bz) flagPart l →
        q.flagged = false → outsideBox bx bY bz q = false ∧ q ∈ l := by
      intro l q hq hqf
      have gen : ∀ (l' : List (Part K)), q ∈ l'.map (fun a => if outsideBox bx bY bz a then flagPart a else a) →
          outsideBox bx bY bz q = false ∧ q ∈ l' := by
        intro l' h
        simp only [List.mem_map] at h
        obtain ⟨a, ha, rfl⟩ := h
        by_cases ho : outsideBox bx bY bz a = true
        · simp [ho, flagPart] at hqf
        · simp only [ho, Bool.false_eq_true, if_false]
          exact ⟨by simpa using ho, ha⟩
      rcases l with _ | ⟨a, _ | ⟨b, r⟩⟩
      · simp [RV.Boundary.openMark] at hq
      · simp only [RV.Boundary.openMark] at hq
        by_cases ho : outsideBox bx bY bz a = true
        · simp [ho] at hq
        · simp only [ho, Bool.false_eq_true, if_false, List.mem_singleton] at hq
          subst hq
          exact ⟨by simpa using ho, by simp⟩
      · exact gen _ (by simpa [RV.Boundary.openMark] using hq)
    have key : ∀ q ∈ RV.Boundary.openMark (outsideBox bx bY bz) flagPart s.ps,
        (q.flagged = false → outsideBox bx bY bz q = false ∧ q ∈ s.ps) ∧ True :=
      fun q hq => ⟨fun hqf => markmem s.ps q hq hqf, trivial⟩
    have surv : ∀ p ∈ s.ps, outsideBox bx bY bz p = false →
        p ∈ RV.Boundary.openMark (outsideBox bx bY bz) flagPart s.ps := by
      intro p hpm ho
      rcases hl : s.ps with _ | ⟨a, _ | ⟨b, r⟩⟩
      · rw [hl] at hpm; simp at hpm
      · rw [hl] at hpm
        simp only [List.mem_singleton] at hpm
        subst hpm
        simp [RV.Boundary.openMark, ho]
      · rw [hl] at hpm
        simp only [RV.Boundary.openMark, List.mem_map]
        exact ⟨p, hpm, by simp [ho]⟩
    unfold purgeFlagged
    simp only [ht, Bool.true_and]
    split
    · constructor
      · intro p hpm
        simp only [List.mem_filter, Bool.not_eq_true'] at hpm
        exact ⟨((key p hpm.1).1 hpm.2).1, hpm.2⟩
      · intro p hpm ho
        simp only [List.mem_filter, Bool.not_eq_true']
        exact ⟨surv p hpm ho, hnf p hpm⟩
    · rename_i hany
      have hall : ∀ q ∈ RV.Boundary.openMark (outsideBox bx bY bz) flagPart s.ps, q.flagged = false := by
        intro q hq
        by_contra hne
        apply hany
        simp only [List.any_eq_true]
        exact ⟨q, hq, by simpa using hne⟩
      constructor
      · intro p hpm
        exact ⟨((key p hpm).1 (hall p hpm)).1, hall p hpm⟩
      · intro p hpm ho
        exact surv p hpm ho

end stepinput

/-! ## 8. ghost boxes -/
section ghostbox
variable {K : Type} [Field K] [LinearOrder K] [IsStrictOrderedRing K]

/-- `(double)i` of the model is the integer cast -/
theorem c13_ghostbox_int_cast (i : Int) : (ofI i : K) = (i : K) := by
  unfold ofI
  by_cases h : i < 0
  · simp only [h, if_true, sc_neg, sc_ofNat]
    obtain ⟨n, hn⟩ : ∃ n : Nat, i = -(n : Int) := ⟨i.natAbs, by omega⟩
    subst hn
    simp
  · simp only [h, if_false, sc_ofNat]
    obtain ⟨n, hn⟩ : ∃ n : Nat, i = (n : Int) := ⟨i.toNat, by omega⟩
    subst hn
    simp

/-- `reb_boundary_get_ghostbox` for open and periodic boundaries: box `(i,j,k)` is the pure
    translation by `(i·Lx, j·Ly, k·Lz)` with no velocity offset; boundary none gives the zero box. -/
theorem c13_ghostbox_periodic (fmodF : K → K → K) (bx bY bz omega t : K) (i j k : Int) :
    ghostBox fmodF .periodic bx bY bz omega t i j k = ⟨bx * i, bY * j, bz * k, 0, 0, 0⟩ ∧
    ghostBox fmodF .open bx bY bz omega t i j k = ⟨bx * i, bY * j, bz * k, 0, 0, 0⟩ ∧
    ghostBox fmodF .none bx bY bz omega t i j k = ⟨0, 0, 0, 0, 0, 0⟩ := by
  simp [ghostBox, c13_ghostbox_int_cast]

/-- mirror symmetry of the ghost boxes, all four boundary kinds: box `(-i,-j,-k)` is the negative
    of box `(i,j,k)` — for the shearing sheet including the time dependent azimuthal shift and the
    velocity offset `-(3/2)·i·Ω·Lx`, given that `fmod` is odd in its first argument (C99). -/
theorem c13_ghostbox_mirror (fmodF : K → K → K) (hodd : ∀ a b, fmodF (-a) b = -fmodF a b)
    (kind : BKind) (bx bY bz omega t : K) (i j k : Int) :
    ghostBox fmodF kind bx bY bz omega t (-i) (-j) (-k) = negGB (ghostBox fmodF kind bx bY bz omega t i j k) := by
  cases kind
  · simp [ghostBox, negGB]
  · simp [ghostBox, negGB, c13_ghostbox_int_cast]
  · simp [ghostBox, negGB, c13_ghostbox_int_cast]
  · rcases lt_trichotomy i 0 with hi | hi | hi
    · have h1 : ¬ (-i = 0) := by omega
      have h2 : (-i > 0) := by omega
      have h3 : ¬ (i = 0) := by omega
      have h4 : ¬ (i > 0) := by omega
      simp only [ghostBox, negGB, c13_ghostbox_int_cast, beq_iff_eq, h1, h2, h3, h4, if_true, if_false, sc_neg, sc_hmul, sc_hdiv, sc_hsub, sc_hadd,
        sc_ofNat, sc_zero, Int.cast_neg, GB.mk.injEq]
      have e : -(3 / 2 : K) * -(i : K) * omega * bx * t - bY / 2 = -(-(3 / 2 : K) * (i : K) * omega * bx * t + bY / 2) := by ring
      refine ⟨by ring, ?_, by ring, by simp, by push_cast; ring, by simp⟩
      push_cast
      rw [e, hodd]; ring
    · subst hi
      simp only [ghostBox, negGB, c13_ghostbox_int_cast, neg_zero, beq_self_eq_true, if_true, sc_neg, sc_hmul, sc_hdiv, sc_hsub, sc_hadd,
        sc_ofNat, sc_zero, Int.cast_neg, Int.cast_zero, mul_zero, zero_mul, GB.mk.injEq]
      have h0 : fmodF (0 : K) bY = 0 := by
        have := hodd 0 bY; simp only [neg_zero] at this; linarith
      refine ⟨by simp, ?_, by ring, by simp, by simp, by simp⟩
      push_cast
      simp only [mul_zero, zero_mul, h0]; ring
    · have h1 : ¬ (-i = 0) := by omega
      have h2 : ¬ (-i > 0) := by omega
      have h3 : ¬ (i = 0) := by omega
      have h4 : (i > 0) := by omega
      simp only [ghostBox, negGB, c13_ghostbox_int_cast, beq_iff_eq, h1, h2, h3, h4, if_true, if_false, sc_neg, sc_hmul, sc_hdiv, sc_hsub, sc_hadd,
        sc_ofNat, sc_zero, Int.cast_neg, GB.mk.injEq]
      have e : -(3 / 2 : K) * -(i : K) * omega * bx * t + bY / 2 = -(-(3 / 2 : K) * (i : K) * omega * bx * t - bY / 2) := by ring
      refine ⟨by ring, ?_, by ring, by simp, by push_cast; ring, by simp⟩
      push_cast
      rw [e, hodd]; ring

/-- the ghost ring is closed under the mirror `(a,b,c) ↦ (-a,-b,-c)` -/
theorem c13_ghost_ring_mirror (ngx ngy ngz : Int) (a b c : Int) :
    (a, b, c) ∈ ghostRing ngx ngy ngz ↔ (-a, -b, -c) ∈ ghostRing ngx ngy ngz := by
  rw [c13_ghost_ring, c13_ghost_ring]
  constructor <;> rintro ⟨⟨h1, h2⟩, ⟨h3, h4⟩, ⟨h5, h6⟩⟩ <;> refine ⟨⟨?_, ?_⟩, ⟨?_, ?_⟩, ⟨?_, ?_⟩⟩ <;> omega

/-- **the DIRECT test is symmetric under exchanging the two particles and mirroring the ghost
    box**: `(i, j, gb)` passes iff `(j, i, -gb)` passes (same squared distance, same `d·dv`).
    Together with `c13_ghostbox_mirror` and `c13_ghost_ring_mirror` this discharges the "seen from
    both ends through mirrored ghost boxes" hypotheses of `c13_tree_search_complete`: the DIRECT
    search reports every pair in both orientations. -/
theorem c13_direct_symmetric (gb : GB K) (pi pj : Part K) :
    directHit (shiftGB gb pi) pi.r pj = directHit (shiftGB (negGB gb) pj) pj.r pi := by
  rw [Bool.eq_iff_iff, directHit_iff, directHit_iff]
  simp only [shiftGB, negGB, sc_hadd, sc_neg]
  constructor <;> rintro ⟨h1, h2⟩ <;> constructor <;> nlinarith [h1, h2]

/-- the LINE test has the same symmetry: the straight-line minimum separation of the pair does not
    depend on which particle carries the (mirrored) ghost box -/
theorem c13_line_symmetric (dt : K) (gb : GB K) (pi pj : Part K) :
    lineHit dt (shiftGB gb pi) pi.r pj = lineHit dt (shiftGB (negGB gb) pj) pj.r pi := by
  have key : ∀ (q q' : LineQ K), q'.dx1 = -q.dx1 → q'.dy1 = -q.dy1 → q'.dz1 = -q.dz1 →
      q'.dvx1 = -q.dvx1 → q'.dvy1 = -q.dvy1 → q'.dvz1 = -q.dvz1 → q'.r1 = q.r1 → q'.r2 = q.r2 →
      lineRmin2Gen q' (lineTc q') (lineInRange dt (lineTc q')) = lineRmin2Gen q (lineTc q) (lineInRange dt (lineTc q)) := by
    intro q q' a1 a2 a3 b1 b2 b3 c1 c2
    have htc : lineTc q' = lineTc q := by
      unfold lineTc
      simp only [a1, a2, a3, b1, b2, b3, sc_hadd, sc_hmul, sc_hdiv, neg_mul_neg]
    have hsep : ∀ τ, sep2 q' τ = sep2 q τ := by
      intro τ; unfold sep2; rw [a1, a2, a3, b1, b2, b3]; ring
    rw [lineRmin2Gen_eq, lineRmin2Gen_eq, htc, hsep, c1, c2]
  have hq : lineRmin2 dt (shiftGB (negGB gb) pj) pi = lineRmin2 dt (shiftGB gb pi) pj := by
    unfold lineRmin2
    apply key <;> simp only [lineQ, shiftGB, negGB, sc_hadd, sc_hsub, sc_hmul, sc_neg] <;> ring
  unfold lineHit
  rw [hq, add_comm pj.r pi.r]

end ghostbox

/-! ## 6. hypotheses are satisfiable -/

/-- a concrete instance of `c13_fixup_invariant`'s hypotheses: four particles, identities
    10,20,30,40, three pending entries forming a chain, unsorted removal without tree -/
example :
    let s0 : Sim Nat := ⟨[10, 20, 30, 40], -1, 0, false, false, 0⟩
    Cfg false s0 ∧ (ids id s0).Nodup ∧
    List.Forall₂ (fun (e : Coll Unit) (d : Nat × Nat) => d.1 ≠ d.2 ∧
        denote (ids id s0) e.p1 = some d.1 ∧ denote (ids id s0) e.p2 = some d.2)
      [⟨0, 1, ()⟩, ⟨1, 3, ()⟩, ⟨3, 2, ()⟩] [(10, 20), (20, 40), (40, 30)] := by
  refine ⟨⟨rfl, by simp, Or.inl rfl⟩, by simp [ids], ?_⟩
  simp [ids, denote]

/-- a concrete instance of the alignment hypotheses of `c13_hardsphere_separating` over ℚ-like
    fields: relative position (3·4, 4·4, 3·... ) realised by a 3-4-5 rotation -/
example {K : Type} [Field K] [LinearOrder K] [IsStrictOrderedRing K] :
    let st : K := 4/5; let ct : K := 3/5; let sp : K := 4/5; let cp : K := 3/5
    st*st + ct*ct = 1 ∧ sp*sp + cp*cp = 1 ∧
    -- r₂₁ = (15, 12, 16): ρ = 20, y₂₁ₙ = 20, R = 25
    ct*20 = (12 : K) ∧ st*20 = (16 : K) ∧ cp*25 = (15 : K) ∧ sp*25 = ct*12 + st*16 := by
  refine ⟨?_, ?_, ?_, ?_, ?_, ?_⟩ <;> norm_num

/-- an odd `fmod` exists (hypothesis of `c13_ghostbox_mirror`): C's `fmod` is odd in its first
    argument; over ℚ-like fields e.g. `a ↦ a` itself -/
example {K : Type} [Field K] : ∃ fmodF : K → K → K, ∀ a b, fmodF (-a) b = -fmodF a b :=
  ⟨fun a _ => a, fun _ _ => rfl⟩

end RV.Collision
