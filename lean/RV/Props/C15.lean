import RV.Proofs.Boundary
/-
  C15 — boundary conditions and the spatial tree keep every particle accounted for.
  Theorems about the models RV/Model/Boundary.lean and RV/Model/Tree.lean (the same
  definitions that drv_c15 runs on IEEE doubles against boundary.c / tree.c), instantiated at
  an arbitrary linearly ordered field.
-/
set_option linter.unusedSectionVars false
set_option linter.unusedVariables false
namespace RV.C15
open RV RV.Boundary

variable {K : Type} [Field K] [LinearOrder K] [IsStrictOrderedRing K]

/-! ## periodic wrap -/

/-- The two `while` loops of one coordinate: whenever they return, the result lies in the closed
    interval `[-L/2, L/2]` and differs from the input by an integer multiple of `L`. -/
theorem c15_wrap_result (L : K) (fuel : Nat) (x y : K) (h : wrap1 L fuel x = some y) :
    -L / 2 ≤ y ∧ y ≤ L / 2 ∧ ∃ n : Int, y = x - n * L :=
  wrap1_spec L fuel x y h

/-- Termination: for `L > 0` and `|x| ≤ L/2 + k·L` the loops return within `k` iterations each. -/
theorem c15_wrap_terminates (L : K) (hL : 0 < L) (k : Nat) (x : K) (hx : |x| ≤ L / 2 + k * L) :
    ∃ y, wrap1 L k x = some y :=
  wrap1_terminates L hL k x hx

/-- A coordinate inside the closed interval (faces included: both comparisons are strict) is not touched. -/
theorem c15_wrap_inside_unchanged (L : K) (fuel : Nat) (x : K) (h1 : -L / 2 ≤ x) (h2 : x ≤ L / 2) :
    wrap1 L fuel x = some x :=
  wrap1_inside L fuel x h1 h2

/-- REB_BOUNDARY_PERIODIC over the whole particle array: N is unchanged, every particle ends inside the
    box, every coordinate moved by a whole number of box lengths, `vy` untouched. -/
theorem c15_periodic (bx bY bz : K) (fuel : Nat) (ps ps' : List (P K))
    (h : periodic bx bY bz fuel ps = some ps') :
    ps'.length = ps.length ∧
    List.Forall₂ (fun p q =>
      (-bx / 2 ≤ q.x ∧ q.x ≤ bx / 2 ∧ ∃ n : Int, q.x = p.x - n * bx) ∧
      (-bY / 2 ≤ q.y ∧ q.y ≤ bY / 2 ∧ ∃ n : Int, q.y = p.y - n * bY) ∧
      (-bz / 2 ≤ q.z ∧ q.z ≤ bz / 2 ∧ ∃ n : Int, q.z = p.z - n * bz) ∧ q.vy = p.vy) ps ps' := by
  have hf := mapOpt_forall₂ _ _ _ h
  refine ⟨hf.length_eq.symm, hf.imp ?_⟩
  intro p q hpq
  unfold periodic1 at hpq
  cases hx : wrap1 bx fuel p.x with
  | none => simp [hx] at hpq
  | some x =>
    cases hy : wrap1 bY fuel p.y with
    | none => simp [hx, hy] at hpq
    | some y =>
      cases hz : wrap1 bz fuel p.z with
      | none => simp [hx, hy, hz] at hpq
      | some z =>
        simp [hx, hy, hz] at hpq
        subst hpq
        exact ⟨wrap1_spec _ _ _ _ hx, wrap1_spec _ _ _ _ hy, wrap1_spec _ _ _ _ hz, rfl⟩

/-- ... and it does return when every coordinate is within `k` box lengths of the box. -/
theorem c15_periodic_terminates (bx bY bz : K) (hx : 0 < bx) (hy : 0 < bY) (hz : 0 < bz) (k : Nat)
    (ps : List (P K))
    (hps : ∀ p ∈ ps, |p.x| ≤ bx / 2 + k * bx ∧ |p.y| ≤ bY / 2 + k * bY ∧ |p.z| ≤ bz / 2 + k * bz) :
    ∃ ps', periodic bx bY bz k ps = some ps' := by
  apply mapOpt_terminates
  intro p hp
  obtain ⟨h1, h2, h3⟩ := hps p hp
  obtain ⟨x, ex⟩ := wrap1_terminates bx hx k p.x h1
  obtain ⟨y, ey⟩ := wrap1_terminates bY hy k p.y h2
  obtain ⟨z, ez⟩ := wrap1_terminates bz hz k p.z h3
  exact ⟨{ p with x := x, y := y, z := z }, by simp [periodic1, ex, ey, ez]⟩

/-! ## open boundary -/

/-- Without a tree: the removal loop (with the `i--` re-check of the element swapped into the hole)
    leaves exactly the particles that are not outside, each once, in the order produced by the
    swap-with-last removals (a permutation of the original order). -/
theorem c15_open_survivors {α : Type} (out : α → Bool) (l : List α) :
    List.Perm (openLoop out 0 l) (l.filter (fun a => !out a)) :=
  openLoop_zero out l

end RV.C15
