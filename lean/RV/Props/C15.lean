import RV.Proofs.Boundary
import RV.Proofs.Tree
import RV.Proofs.TreeUpdate
import RV.Proofs.TreeTerm
import RV.Proofs.TreeArrRoot
import RV.Proofs.Shear
import RV.Proofs.Schedule
import RV.Proofs.TreeGravity
import Mathlib.Algebra.Order.Field.Rat
import Mathlib.Tactic.NormNum
import Mathlib.Tactic.IntervalCases
import Mathlib.Data.Rat.Floor
import Mathlib.Tactic.Positivity
/-
  C15 — boundary conditions and the spatial tree keep every particle accounted for.

  Theorems about the models RV/Model/Boundary.lean and RV/Model/Tree.lean — the same definitions that
  drv_c15 runs on IEEE doubles against boundary.c / tree.c — instantiated at an arbitrary linearly
  ordered field `K` (comparisons = the field's order, `RV.C15.ordScalarO`).

  Vocabulary (RV/Proofs/Tree.lean):
  * `In p c`        : `|p.x-c.x| ≤ c.w/2 ∧ …` — the closed cell, as in `reb_tree_particle_is_inside_cell`;
  * `WF ps tie c t` : hereditary invariant of a subtree occupying cell `c`: a leaf's cell is `c` and contains its
                      particle; an inner node's cell is `c`, child `o` occupies `childCell c o`,
                      `pt = -(number of particles below)`, at least 2 particles below, and (if `tie`) all particles
                      below child `o` have octant `o` under the code's `<` rule;
  * `GravOK ps t`   : every cell's `m` is the sum of the masses below it and `m*mx, m*my, m*mz` are the
                      mass-weighted coordinate sums, hereditarily.
-/
set_option linter.unusedSectionVars false
set_option linter.unusedVariables false
set_option linter.unusedSimpArgs false
namespace RV.C15
open RV RV.Boundary RV.Tree RV.TreeArr

variable {K : Type} [Field K] [LinearOrder K] [IsStrictOrderedRing K]

/-! ## periodic wrap -/

/-- The two `while` loops of one coordinate: whenever they return, the result lies in the closed
    interval `[-L/2, L/2]` and differs from the input by an integer multiple of `L`. -/
theorem c15_wrap_result (L : K) (fuel : Nat) (x y : K) (h : wrap1 L fuel x = some y) :
    -L / 2 ≤ y ∧ y ≤ L / 2 ∧ ∃ n : Int, y = x - n * L :=
  wrap1_spec L fuel x y h

/-- Termination: for `L > 0` and `|x| ≤ L/2 + k·L` the loops return within `k` iterations each. -/
theorem c15_wrap_terminates (L : K) (hL : 0 < L) (k : Nat) (x : K) (hx : |x| ≤ L / 2 + k * L) :
    ∃ y, wrap1 L k x = some y :=
  wrap1_terminates L hL k x hx

/-- A coordinate inside the closed interval (faces included: both comparisons are strict) is not touched. -/
theorem c15_wrap_inside_unchanged (L : K) (fuel : Nat) (x : K) (h1 : -L / 2 ≤ x) (h2 : x ≤ L / 2) :
    wrap1 L fuel x = some x :=
  wrap1_inside L fuel x h1 h2

/-- REB_BOUNDARY_PERIODIC over the whole particle array: N is unchanged, every particle ends inside the
    box, every coordinate moved by a whole number of box lengths, `vy` untouched. -/
theorem c15_periodic (bx bY bz : K) (fuel : Nat) (ps ps' : List (P K))
    (h : periodic bx bY bz fuel ps = some ps') :
    ps'.length = ps.length ∧
    List.Forall₂ (fun p q =>
      (-bx / 2 ≤ q.x ∧ q.x ≤ bx / 2 ∧ ∃ n : Int, q.x = p.x - n * bx) ∧
      (-bY / 2 ≤ q.y ∧ q.y ≤ bY / 2 ∧ ∃ n : Int, q.y = p.y - n * bY) ∧
      (-bz / 2 ≤ q.z ∧ q.z ≤ bz / 2 ∧ ∃ n : Int, q.z = p.z - n * bz) ∧ q.vy = p.vy) ps ps' := by
  have hf := mapOpt_forall₂ _ _ _ h
  refine ⟨hf.length_eq.symm, hf.imp ?_⟩
  intro p q hpq
  unfold periodic1 at hpq
  cases hx : wrap1 bx fuel p.x with
  | none => simp [hx] at hpq
  | some x =>
    cases hy : wrap1 bY fuel p.y with
    | none => simp [hx, hy] at hpq
    | some y =>
      cases hz : wrap1 bz fuel p.z with
      | none => simp [hx, hy, hz] at hpq
      | some z =>
        simp [hx, hy, hz] at hpq
        subst hpq
        exact ⟨wrap1_spec _ _ _ _ hx, wrap1_spec _ _ _ _ hy, wrap1_spec _ _ _ _ hz, rfl⟩

/-- ... and it does return when every coordinate is within `k` box lengths of the box. -/
theorem c15_periodic_terminates (bx bY bz : K) (hx : 0 < bx) (hy : 0 < bY) (hz : 0 < bz) (k : Nat)
    (ps : List (P K))
    (hps : ∀ p ∈ ps, |p.x| ≤ bx / 2 + k * bx ∧ |p.y| ≤ bY / 2 + k * bY ∧ |p.z| ≤ bz / 2 + k * bz) :
    ∃ ps', periodic bx bY bz k ps = some ps' := by
  apply mapOpt_terminates
  intro p hp
  obtain ⟨h1, h2, h3⟩ := hps p hp
  obtain ⟨x, ex⟩ := wrap1_terminates bx hx k p.x h1
  obtain ⟨y, ey⟩ := wrap1_terminates bY hy k p.y h2
  obtain ⟨z, ez⟩ := wrap1_terminates bz hz k p.z h3
  exact ⟨{ p with x := x, y := y, z := z }, by simp [periodic1, ex, ey, ez]⟩

/-! ## shear-periodic wrap -/

/-- The offsets computed at the top of the shear branch, for any `fmod` with the defining property
    `fmod a b = a - q*b` (`q` an integer): `offsetp1 ≡ +(3/2)Ω Lx t`, `offsetm1 ≡ -(3/2)Ω Lx t` modulo `Ly`,
    and the velocity jump is `(3/2)Ω Lx`. -/
theorem c15_shear_offsets (fmod : K → K → K) (hf : ∀ a b, ∃ q : Int, fmod a b = a - q * b)
    (omega t bx bY : K) :
    let r := shearOffsets fmod omega t bx bY
    (∃ a : Int, r.1 = 3 / 2 * omega * bx * t + a * bY) ∧
    (∃ b : Int, r.2.1 = -(3 / 2 * omega * bx * t) + b * bY) ∧
    r.2.2 = 3 / 2 * omega * bx := by
  simp only [shearOffsets, sc_hadd, sc_hsub, sc_hmul, sc_hdiv, sc_neg, sc_ofNat, half_eq, Nat.cast_ofNat]
  obtain ⟨q1, h1⟩ := hf (-(3 / 2) * omega * bx * t + bY / 2) bY
  obtain ⟨q2, h2⟩ := hf (3 / 2 * omega * bx * t - bY / 2) bY
  refine ⟨⟨q1 - 1, ?_⟩, ⟨q2 + 1, ?_⟩, trivial⟩
  · rw [h1]; push_cast; ring
  · rw [h2]; push_cast; ring

/-- REB_BOUNDARY_SHEAR, one particle: with offsets congruent to `±S` modulo `Ly`, the particle ends inside the
    box; `x` moved by `n` box lengths, `vy` by `n` velocity jumps with the same `n`, `y` by `n·S` plus a whole
    number of `Ly`, `z` by a whole number of `Lz`. -/
theorem c15_shear_particle (bx bY bz op1 om1 dv S : K) (fuel : Nat) (p q : P K)
    (h : shear1 bx bY bz op1 om1 dv fuel p = some q)
    (h1 : ∃ a : Int, op1 = S + a * bY) (h2 : ∃ b : Int, om1 = -S + b * bY) :
    (-bx / 2 ≤ q.x ∧ q.x ≤ bx / 2) ∧ (-bY / 2 ≤ q.y ∧ q.y ≤ bY / 2) ∧ (-bz / 2 ≤ q.z ∧ q.z ≤ bz / 2) ∧
    ∃ n k m : Int, q.x = p.x - n * bx ∧ q.vy = p.vy + n * dv ∧ q.y = p.y + n * S + k * bY ∧ q.z = p.z - m * bz := by
  unfold shear1 at h
  cases e1 : shearHi bx op1 dv fuel p with
  | none => simp [e1] at h
  | some p1 =>
    cases e2 : shearLo bx om1 dv fuel p1 with
    | none => simp [e1, e2] at h
    | some p2 =>
      cases e3 : wrap1 bY fuel p2.y with
      | none => simp [e1, e2, e3] at h
      | some y =>
        cases e4 : wrap1 bz fuel p2.z with
        | none => simp [e1, e2, e3, e4] at h
        | some z =>
          simp [e1, e2, e3, e4] at h
          subst h
          obtain ⟨n1, a1, a2, a3, a4, a5, a6⟩ := shearHi_spec _ _ _ _ _ _ e1
          obtain ⟨n2, b1, b2, b3, b4, b5, b6⟩ := shearLo_spec _ _ _ _ _ _ e2
          obtain ⟨y1, y2, my, hy⟩ := wrap1_spec _ _ _ _ e3
          obtain ⟨z1, z2, mz, hz⟩ := wrap1_spec _ _ _ _ e4
          obtain ⟨a, ha⟩ := h1
          obtain ⟨b, hb⟩ := h2
          refine ⟨⟨b5, ?_⟩, ⟨y1, y2⟩, ⟨z1, z2⟩, (n1 : Int) - n2, (n1 : Int) * a + n2 * b - my, mz, ?_, ?_, ?_, ?_⟩
          · rcases b6 with h0 | h0
            · subst h0; simp at b1; rw [b1]; exact a5
            · exact le_of_lt h0
          · simp only []; rw [b1, a1]; push_cast; ring
          · simp only []; rw [b3, a3]; push_cast; ring
          · simp only []; rw [hy, b2, a2, ha, hb]; push_cast; ring
          · simp only []; rw [hz, b4, a4]

/-- REB_BOUNDARY_SHEAR over the whole particle array with `fmod` specified as in C99 (`FmodSpec`: `a - q·b`, integer `q`,
    `|result| < |b|`, sign of `a` — no free quotient parameter): N is unchanged; every particle ends inside the box;
    `x` moved by `n` box lengths, `vy` by the same `n` times `(3/2)Ω Lx`, `y` by `n·(3/2)Ω Lx·t` plus whole `Ly`,
    `z` by whole `Lz`. -/
theorem c15_shear (fmod : K → K → K) (hf : FmodSpec fmod) (omega t bx bY bz : K) (hY : bY ≠ 0) (fuel : Nat)
    (ps ps' : List (P K)) (h : shear fmod omega t bx bY bz fuel ps = some ps') :
    ps'.length = ps.length ∧
    List.Forall₂ (fun p q =>
      (-bx / 2 ≤ q.x ∧ q.x ≤ bx / 2) ∧ (-bY / 2 ≤ q.y ∧ q.y ≤ bY / 2) ∧ (-bz / 2 ≤ q.z ∧ q.z ≤ bz / 2) ∧
      ∃ n k m : Int, q.x = p.x - n * bx ∧ q.vy = p.vy + n * (3 / 2 * omega * bx) ∧
        q.y = p.y + n * (3 / 2 * omega * bx * t) + k * bY ∧ q.z = p.z - m * bz) ps ps' := by
  obtain ⟨o1, o2, o3⟩ := offsets_cong fmod hf omega t bx bY hY
  unfold shear at h
  have hf2 := mapOpt_forall₂ _ _ _ h
  refine ⟨hf2.length_eq.symm, hf2.imp ?_⟩
  intro p q hpq
  have := c15_shear_particle bx bY bz _ _ _ (3 / 2 * omega * bx * t) fuel p q hpq o1 o2
  simpa [shearOffsets] using this

/-- … and it returns: with `FmodSpec` the offsets are smaller than `2·Ly`, so fuel `F ≥ kx, ky + 4·kx, kz` suffices for
    particles within `kx, ky, kz` box lengths of the box. -/
theorem c15_shear_terminates (fmod : K → K → K) (hf : FmodSpec fmod) (omega t bx bY bz : K)
    (hx : 0 < bx) (hY : 0 < bY) (hz : 0 < bz) (kx ky kz F : Nat) (hF1 : kx ≤ F) (hF2 : ky + 4 * kx ≤ F) (hF3 : kz ≤ F)
    (ps : List (P K))
    (hps : ∀ p ∈ ps, |p.x| ≤ bx / 2 + kx * bx ∧ |p.y| ≤ bY / 2 + ky * bY ∧ |p.z| ≤ bz / 2 + kz * bz) :
    ∃ ps', shear fmod omega t bx bY bz F ps = some ps' := by
  obtain ⟨b1, b2⟩ := offsets_bound fmod hf omega t bx bY hY
  unfold shear
  apply mapOpt_terminates
  intro p hp
  obtain ⟨h1, h2, h3⟩ := hps p hp
  exact shear1_terminates bx bY bz _ _ _ hx hY hz b1 b2 kx ky kz F hF1 hF2 hF3 p h1 h2 h3

/-! ## open boundary -/

/-- Without a tree: the removal loop (with the `i--` re-check of the element swapped into the hole)
    leaves exactly the particles that are not outside, each once, in the order produced by the
    swap-with-last removals (a permutation of the original order). -/
theorem c15_open_survivors {α : Type} (out : α → Bool) (l : List α) :
    List.Perm (openLoop out 0 l) (l.filter (fun a => !out a)) :=
  openLoop_zero out l

/-- With `track_energy_offset` the removals keep the order (`keep_sorted = 1`): the survivors are exactly the
    non-outside particles in their original order. -/
theorem c15_open_survivors_sorted {α : Type} (out : α → Bool) (l : List α) :
    openLoopSorted out 0 l = l.filter (fun a => !out a) := by
  simpa using openLoopSorted_eq out 0 l

/-- With a tree the loop only marks (`y = NaN`); the unmarked particles are exactly those not outside, in
    their original order (`N == 1` is removed on the spot by `reb_simulation_remove_particle`). -/
theorem c15_open_tree_mark {α : Type} (out flagged : α → Bool) (mark : α → α)
    (hm : ∀ a, flagged (mark a) = true) (l : List α) (hl : ∀ a ∈ l, flagged a = false) :
    (openMark out mark l).filter (fun a => !flagged a) = l.filter (fun a => !out a) := by
  have gen : ∀ l : List α, (∀ a ∈ l, flagged a = false) →
      (l.map fun a => if out a then mark a else a).filter (fun a => !flagged a) = l.filter (fun a => !out a) := by
    intro l
    induction l with
    | nil => intro _; rfl
    | cons a l ih =>
      intro h
      have ha := h a (by simp)
      have := ih (fun b hb => h b (by simp [hb]))
      by_cases ho : out a = true
      · simp [List.filter_cons, ho, hm, this]
      · simp [List.filter_cons, ho, ha, this]
  match l, hl with
  | [], _ => rfl
  | [a], hl =>
    have ha := hl a (by simp)
    by_cases ho : out a = true
    · simp [openMark, ho]
    · simp [openMark, ho, ha]
  | a :: b :: l, hl => exact gen _ hl

/-! ## the oct-tree: insertion -/

/-- One insertion (`reb_tree_add_particle_to_cell`) into a well-formed tree, when it returns: the invariant is
    kept (geometry, containment of every particle in its leaf cell, `pt` counters, tie rule) and the leaves are
    the old ones plus the new index exactly once. -/
theorem c15_insert_one (ps : Nat → Pt K) (fuel : Nat) (t t' : T K) (c : Cell K) (pt : Nat)
    (hwf : WF ps true c t) (hin : In (ps pt) c) (h : add ps fuel t c pt = .ok t') :
    WF ps true c t' ∧ List.Perm (leaves t') (pt :: leaves t) :=
  add_spec ps true fuel t c pt t' hwf hin h

/-- Fresh construction from particles `0..n-1` lying in the root cell: the result is well formed and
    (i) leaves ↔ particles is a bijection: every index `< n` is in exactly one leaf and nothing else is. -/
theorem c15_build_bijection (ps : Nat → Pt K) (fuel : Nat) (c : Cell K) (n : Nat) (t : T K)
    (hin : ∀ i, i < n → In (ps i) c) (h : build ps fuel c n = .ok t) :
    WF ps true c t ∧ (leaves t).Nodup ∧ ∀ i, i ∈ leaves t ↔ i < n := by
  obtain ⟨hwf, hp⟩ := build_spec ps true fuel c n t hin h
  refine ⟨hwf, hp.nodup_iff.mpr List.nodup_range, fun i => ?_⟩
  rw [hp.mem_iff, List.mem_range]

/-- (ii) in a well-formed tree every particle lies in its leaf's cell and in the cell of every ancestor
    (stated for the root of any subtree; `WF` is hereditary). -/
theorem c15_cells_contain_particles (ps : Nat → Pt K) (tie : Bool) (t : T K) (c : Cell K) (hwf : WF ps tie c t) :
    ∀ q ∈ leaves t, In (ps q) c :=
  In_of_mem_leaves ps tie t c hwf

/-- (iii) in a well-formed tree an inner node's `pt` is minus the number of particles below it, which is at
    least 2, and its children are well-formed trees of its eight octant cells. -/
theorem c15_inner_node_count (ps : Nat → Pt K) (tie : Bool) (c c' : Cell K) (g : Grav K) (n : Int)
    (ch : Fin 8 → T K) (hwf : WF ps tie c (.node c' g n ch)) :
    c' = c ∧ n = -((leaves (T.node c' g n ch)).length : Int) ∧ 2 ≤ (leaves (T.node c' g n ch)).length ∧
    ∀ o, WF ps tie (childCell c o) (ch o) :=
  ⟨hwf.1, hwf.2.2.1, hwf.2.2.2.1, hwf.2.1⟩

/-- the refusal branch: insertion reports `coincident` only if the new particle has exactly the coordinates of
    a particle already in the tree -/
theorem c15_insert_error_only_if_coincident (ps : Nat → Pt K) : ∀ (fuel : Nat) (t : T K) (c : Cell K) (pt : Nat),
    add ps fuel t c pt = .error .coincident →
    ∃ q ∈ leaves t, (ps q).x = (ps pt).x ∧ (ps q).y = (ps pt).y ∧ (ps q).z = (ps pt).z := by
  intro fuel
  induction fuel with
  | zero =>
    intro t c pt h
    cases t <;> simp [add] at h
  | succ f ih =>
    intro t c pt h
    cases t with
    | nil => simp [add] at h
    | leaf c0 g q =>
      simp only [add] at h
      split at h
      · rename_i hco
        have hs := hco.2
        simp only [samePos, Bool.and_eq_true, so_le] at hs
        obtain ⟨⟨⟨h1, h2⟩, ⟨h3, h4⟩⟩, ⟨h5, h6⟩⟩ := hs
        exact ⟨q, by simp [leaves], le_antisymm h2 h1, le_antisymm h4 h3, le_antisymm h6 h5⟩
      · simp only [add_nil, bind, Except.bind] at h
        by_cases e : octant (ps pt) c0 = octant (ps q) c0
        · rw [e, setCh_same] at h
          cases h2 : add ps f (T.leaf (childCell c0 (octant (ps q) c0)) zeroGrav q) (childCell c0 (octant (ps q) c0)) pt with
          | ok t2 => simp [h2] at h
          | error er =>
            simp [h2] at h
            subst h
            obtain ⟨r, hr, hh⟩ := ih _ _ _ h2
            simp [leaves] at hr
            subst hr
            exact ⟨r, by simp [leaves], hh⟩
        · rw [setCh_other _ _ _ _ e, add_nil] at h
          simp at h
    | node c0 g n ch =>
      simp only [add, bind, Except.bind] at h
      cases h1 : add ps f (ch (octant (ps pt) c0)) (childCell c0 (octant (ps pt) c0)) pt with
      | ok t1 => simp [h1] at h
      | error er =>
        simp [h1] at h
        subst h
        obtain ⟨r, hr, hh⟩ := ih _ _ _ h1
        refine ⟨r, ?_, hh⟩
        simp only [leaves, List.mem_flatMap]
        exact ⟨_, List.mem_finRange _, hr⟩

/-- Insertion terminates for distinct positions: if the new particle lies in the root cell and differs from
    every particle of the tree by more than `w/2^k` on some axis (`Sep`), fuel `depth t + k + 1` suffices.
    (With coincident positions the refinement would never stop — the code refuses them instead.) -/
theorem c15_insert_terminates (ps : Nat → Pt K) (pt k : Nat) (t : T K) (c : Cell K)
    (hwf : WF ps true c t) (hin : In (ps pt) c) (hsep : ∀ q ∈ leaves t, Sep (ps pt) (ps q) c.w k) :
    ∃ t', add ps (depth t + k + 1) t c pt = .ok t' :=
  add_terminates ps true pt k t c hwf hin hsep

/-! ## aggregation -/

/-- `reb_simulation_update_tree_gravity_data`: with non-negative masses, afterwards every cell has
    `m = Σ mᵢ` and `m·(mx,my,mz) = Σ mᵢ·(xᵢ,yᵢ,zᵢ)` over the particles below it (hereditarily: `GravOK`);
    geometry, counters and leaves are untouched. -/
theorem c15_cell_mass_and_com (ps : Nat → Pt K) (t : T K) (c : Cell K) (hwf : WF ps true c t)
    (hm : ∀ q ∈ leaves t, 0 ≤ (ps q).m) :
    GravOK ps (updGrav ps t) ∧ WF ps true c (updGrav ps t) ∧ leaves (updGrav ps t) = leaves t :=
  ⟨updGrav_ok ps t hm, WF_updGrav ps true t c hwf, leaves_updGrav ps t⟩

/-- what `GravOK` says at the root of a subtree, spelled out -/
theorem c15_cell_mass_and_com_root (ps : Nat → Pt K) (t : T K) (h : GravOK ps t) :
    (grav t).m = massOf ps (leaves t) ∧ (grav t).mx * (grav t).m = momOf ps Pt.x (leaves t) ∧
    (grav t).my * (grav t).m = momOf ps Pt.y (leaves t) ∧ (grav t).mz * (grav t).m = momOf ps Pt.z (leaves t) :=
  GravSum_of_GravOK ps t h

/-! ## tree walk -/

/-- With `opening_angle2 = 0` the gravity walk for particle `pt` opens every cell and interacts with every
    leaf other than its own exactly once, in tree order (no monopole approximations). -/
theorem c15_walk_theta0_visits_every_leaf_once (ps : Nat → Pt K) (t : T K) (c : Cell K) (hw : c.w ≠ 0)
    (hwf : WF ps true c t) (gx gy gz : K) (pt : Nat) :
    (walk (0 : K) gx gy gz pt t).map visitPt = ((leaves t).filter (fun q => q ≠ pt)).map some :=
  walk_zero gx gy gz pt t (WidthNZ_of_WF ps true t c hw hwf)

/-! ## tree update (functional form) -/

/-- The sweep of `reb_simulation_update_tree_cell` (drop leaves whose particle left its cell, recount, derefine)
    on any geometrically sound tree and any new positions: no particle is lost or duplicated
    (kept ∪ evicted = before, as multisets) and the kept tree satisfies containment and the counter invariant. -/
theorem c15_update_sweep (ps : Nat → Pt K) (t : T K) (c : Cell K) (hgeo : Geo c t) :
    WF ps false c (sweep ps t).1 ∧ List.Perm (leaves (sweep ps t).1 ++ (sweep ps t).2) (leaves t) :=
  sweep_spec ps t c hgeo

/-- Single root cell, indices kept (no particle array): sweep, then re-insert — the order of the repaired code — for
    particles that stay in the root cell: the multiset of particles is preserved and containment/counters are
    re-established; the tie rule is not (a particle may have moved onto a face of its cell).  Superseded by the
    full-strength `c15_update_array` / `c15_update_forest` below (array renumbering, flagged particles, several root
    boxes); kept because it is the statement about `Tree.update` used by the single-tree examples. -/
theorem c15_update_partial (ps : Nat → Pt K) (fuel : Nat) (c : Cell K) (t t' : T K)
    (hgeo : Geo c t) (hin : ∀ q ∈ leaves t, In (ps q) c) (h : update ps fuel c t = .ok t') :
    WF ps false c t' ∧ List.Perm (leaves t') (leaves t) :=
  update_spec ps fuel c t t' hgeo hin h

/-! ## tree update on (particle array, forest) — the repaired walk, array renumbering included -/

/-- `reb_simulation_update_tree` as it is now (per root box the recursive walk with swap-with-last removal
    `N--; particles[oldpos]=particles[N]; particles[oldpos].c->pt = oldpos`, eviction buffer, recount and derefinement;
    then `reb_simulation_add` of the buffer in collection order), model `RV.TreeArr.updateA`.
    Before: every root tree is geometrically sound in its root cell (positions arbitrary: the particles have moved),
    the leaves of the forest hold every array index exactly once, and every particle not flagged for removal is in the
    box, has an existing root box and lies in that root cell.  If the update returns (no coincident pair, enough fuel):
    * the new array is, in this order, the survivors of the swap-removals followed by the evicted non-flagged particles
      in pre-order of their old leaves (`evState … .arr ++ … .ev`);
    * as a multiset it is the old array minus the flagged particles: nothing else is lost or duplicated;
    * `ForestOK`: every root tree is well formed w.r.t. the NEW array (leaf cell contains its particle, `pt` counters,
      ≥ 2 rule) and the leaves of the forest hold every index `0..N'-1` exactly once — i.e. `particles[i].c`, the leaf
      storing `i`, exists and is unique for every `i`. -/
theorem c15_update_array {α : Type} (pos : α → Pt K) (flagged inBox : α → Bool) (ri : Pt K → Nat) (rc : Nat → Cell K)
    (fuel : Nat) (forest0 : List (T K)) (arr0 : List α) (forest1 : List (T K)) (arr1 : List α)
    (hgeo : ∀ r (h : r < forest0.length), Geo (rc r) forest0[r])
    (hbij : List.Perm (forest0.flatMap leaves) (List.range arr0.length))
    (hbox : ∀ p ∈ arr0, flagged p = false →
      inBox p = true ∧ ri (pos p) < forest0.length ∧ In (pos p) (rc (ri (pos p))))
    (h : updateA pos flagged inBox ri rc fuel forest0 arr0 = some (.ok (forest1, arr1))) :
    arr1 = (evState flagged arr0 (forest0.flatMap fun t => (sweepP (keepOf pos flagged arr0) t).2)).arr ++
           (evState flagged arr0 (forest0.flatMap fun t => (sweepP (keepOf pos flagged arr0) t).2)).ev ∧
    List.Perm arr1 (arr0.filter (fun p => !flagged p)) ∧
    forest1.length = forest0.length ∧
    ForestOK (psOf pos arr1) rc forest1 arr1.length :=
  updateA_spec pos flagged inBox ri rc fuel forest0 arr0 forest1 arr1 hgeo hbij hbox h

/-- when the leaves hold every index exactly once, the walk never reads outside the particle array -/
theorem c15_update_array_no_stale_index {α : Type} (pos : α → Pt K) (flagged inBox : α → Bool) (ri : Pt K → Nat)
    (rc : Nat → Cell K) (fuel : Nat) (forest0 : List (T K)) (arr0 : List α)
    (hbij : List.Perm (forest0.flatMap leaves) (List.range arr0.length)) :
    updateA pos flagged inBox ri rc fuel forest0 arr0 ≠ none :=
  updateA_ne_none pos flagged inBox ri rc fuel forest0 arr0 hbij

/-- the renumbering invariant behind it: after evicting the original indices `E` (distinct, in any order) by
    swap-with-last, a particle not evicted is found at its logged index, distinct particles at distinct indices, the
    array shrank by `|E|`, the buffer holds the evicted non-flagged ones in order, and array ∪ evicted = original -/
theorem c15_swap_renumbering {α : Type} (flagged : α → Bool) (arr0 : List α) (E : List Nat)
    (hn : E.Nodup) (hb : ∀ e ∈ E, e < arr0.length) :
    ArrInv flagged arr0 E (evState flagged arr0 E) :=
  ArrInv_evState flagged arr0 E hn hb

/-! ## the forest of root boxes -/

/-- root-box rule as repaired (floor, clamp): with any `floor` satisfying `⌊x⌋ ≤ x < ⌊x⌋+1`, a particle inside the
    closed box — faces included — gets a root box that exists and whose root cell contains it. -/
theorem c15_root_box_contains (floor : K → Int) (hfl : ∀ x : K, (floor x : K) ≤ x ∧ x < (floor x : K) + 1)
    (rs : K) (hrs : 0 < rs) (nx ny nz : Nat) (hx : 0 < nx) (hy : 0 < ny) (hz : 0 < nz) (p : Pt K)
    (hin : inBoxPt rs nx ny nz p = true) :
    rootIdx floor rs nx ny nz p < nx * ny * nz ∧
    In p (rootCellOf rs nx ny nz (rootIdx floor rs nx ny nz p)) :=
  root_contains floor hfl rs hrs nx ny nz hx hy hz p hin

/-- the update of the whole forest with the code's own root-box rule: particles migrate between root boxes through
    the re-insertion of `c15_update_array`; the only hypothesis on positions left is "not flagged ⇒ in the box". -/
theorem c15_update_forest {α : Type} (floor : K → Int) (hfl : ∀ x : K, (floor x : K) ≤ x ∧ x < (floor x : K) + 1)
    (rs : K) (hrs : 0 < rs) (nx ny nz : Nat) (hx : 0 < nx) (hy : 0 < ny) (hz : 0 < nz)
    (pos : α → Pt K) (flagged : α → Bool) (fuel : Nat)
    (forest0 : List (T K)) (arr0 : List α) (forest1 : List (T K)) (arr1 : List α)
    (hlen : forest0.length = nx * ny * nz)
    (hgeo : ∀ r (h : r < forest0.length), Geo (rootCellOf rs nx ny nz r) forest0[r])
    (hbij : List.Perm (forest0.flatMap leaves) (List.range arr0.length))
    (hbox : ∀ p ∈ arr0, flagged p = false → inBoxPt rs nx ny nz (pos p) = true)
    (h : updateA pos flagged (fun a => inBoxPt rs nx ny nz (pos a)) (rootIdx floor rs nx ny nz)
          (rootCellOf rs nx ny nz) fuel forest0 arr0 = some (.ok (forest1, arr1))) :
    List.Perm arr1 (arr0.filter (fun p => !flagged p)) ∧
    forest1.length = nx * ny * nz ∧
    ForestOK (psOf pos arr1) (rootCellOf rs nx ny nz) forest1 arr1.length :=
  updateA_forest floor hfl rs hrs nx ny nz hx hy hz pos flagged fuel forest0 arr0 forest1 arr1 hlen hgeo hbij hbox h

/-! ## tree gravity: the force sum -/

/-- `reb_calculate_acceleration` for REB_GRAVITY_TREE (model `Tree.accCell / accForest`: the walk of
    `reb_calculate_acceleration_for_particle_from_cell` with its opening criterion, monopole of unopened cells, direct term of
    leaves, own leaf skipped; compared bitwise with the real accelerations on every run).  With `opening_angle2 = 0`, after the
    gravity-data update of a well-formed forest with non-zero root width, the acceleration of particle `pt` is exactly the
    direct sum of the pair term over every other particle of the forest — each once, in tree order — for any `sqrt`, `G`,
    softening: tree gravity sees every particle exactly once. -/
theorem c15_tree_gravity_theta0_is_direct_sum (sqrt : K → K) (G soft2 : K) (ps : Nat → Pt K) (rc : Nat → Cell K)
    (forest : List (T K)) (hwf : ∀ r (h : r < forest.length), WF ps true (rc r) forest[r]) (hw : ∀ r, (rc r).w ≠ 0)
    (p : Pt K) (pt : Nat) :
    accForest sqrt G soft2 0 p pt (forest.map (updGrav ps)) =
      ((forest.flatMap leaves).filter (fun q => q ≠ pt)).foldl (pairForce sqrt G soft2 p.x p.y p.z ps) ⟨0, 0, 0⟩ :=
  accForest_zero sqrt G soft2 ps true rc forest hwf hw p pt

/-! ## where the boundary check and the tree update sit in a step -/

/-- The calls of `reb_simulation_step` and of the end of `reb_collision_search`, with their guards, are extracted from the
    C source on every run (rv/extract_c15.py → RV/Gen/C15Schedule.lean).  Run on the abstract state (a flagged particle is
    in the array / a particle is outside the box / `tree_needs_update`), for EVERY combination of tree or no tree gravity,
    collision search none/direct/line/tree/linetree, boundary open/periodic/shear, particles leaving the box in either
    drift, a resolver that removes a particle, and a particle flagged by the user beforehand: at the end of the step no
    flagged particle is left in the particle array and no particle is outside the box.  (`reb_simulation_remove_particle`
    only flags whenever a tree exists — whatever the collision search is; a tree exists iff gravity or the collision search
    is tree based.) -/
theorem c15_step_schedule_leaves_array_clean (g : Bool) (coll : StepSchedule.Coll) (b : StepSchedule.Boundary)
    (o1 o2 cr uf : Bool) (hb : b ≠ .none) (huf : uf = true → (StepSchedule.Cfg.hasTree ⟨g, coll, b⟩) = true) :
    (runStep ⟨g, coll, b⟩ ⟨o1, o2, cr⟩ uf).flagged = false ∧ (runStep ⟨g, coll, b⟩ ⟨o1, o2, cr⟩ uf).outside = false :=
  step_schedule_clean g coll b o1 o2 cr uf hb huf

/-! ## the hypotheses are satisfiable: concrete instances over ℚ -/

/-- three particles in the root cell `[-1,1]³`; 0 and 2 share octants down to depth 2 -/
def exPs : Nat → Pt ℚ
  | 0 => ⟨1/2, 1/2, 1/2, 1⟩
  | 1 => ⟨-1/2, 1/2, 1/4, 2⟩
  | 2 => ⟨3/8, 5/8, 1/2, 3⟩
  | _ => ⟨0, 0, 0, 0⟩
def exCell : Cell ℚ := ⟨0, 0, 0, 2⟩
/-- the same particles after a step: particle 2 has left its leaf cell (still in the root cell) -/
def exPs' : Nat → Pt ℚ
  | 2 => ⟨-3/8, -5/8, 1/2, 3⟩
  | i => exPs i

example : wrap1 (2 : ℚ) 5 (7/2) = some (-1/2) := by decide +kernel
example : wrap1 (2 : ℚ) 5 (-1) = some (-1) ∧ wrap1 (2 : ℚ) 5 1 = some 1 := by decide +kernel   -- faces stay
example : wrap1 (2 : ℚ) 1 (7/2) = none := by decide +kernel                                     -- fuel exhausted
example : (match periodic (2 : ℚ) 2 4 5 [⟨7/2, -3, 9, 1⟩, ⟨0, 1, -2, 0⟩] with
    | some l => l.map fun p => (p.x, p.y, p.z)
    | none => []) = [(-1/2, -1, 1), (0, 1, -2)] := by decide +kernel
example : (match shear1 (2 : ℚ) 2 4 (1/3 - 2) (-1/3 + 2) 5 5 ⟨7/2, 0, 1, 1⟩ with
    | some p => (p.x, p.y, p.z, p.vy)
    | none => (0, 0, 0, 0)) = (-1/2, 2/3, 1, 11) := by decide +kernel
example : openLoop (fun n : Nat => n % 2 == 0) 0 [0, 1, 2, 3, 4, 6, 7] = [7, 1, 3] := by decide +kernel
example : openLoopSorted (fun n : Nat => n % 2 == 0) 0 [0, 1, 2, 3, 4, 6, 7] = [1, 3, 7] := by decide +kernel
example : (match build exPs 10 exCell 3 with | .ok t => leaves t | .error _ => []) = [0, 2, 1] := by
  decide +kernel
example : ∀ i, i < 3 → In (exPs i) exCell := by
  intro i hi
  interval_cases i <;> simp [In, exPs, exCell, abs_le] <;> norm_num
/-- fresh construction returns, cells get mass 6 and `m·mx = Σ m x = 5/8` -/
example : (match build exPs 10 exCell 3 with
    | .ok t => ((grav (updGrav exPs t)).m, (grav (updGrav exPs t)).m * (grav (updGrav exPs t)).mx)
    | .error _ => (0, 0)) = (6, 5/8) := by decide +kernel
/-- a coincident particle is refused -/
example : (match build (fun i => if i = 2 then exPs 0 else exPs i) 10 exCell 3 with
    | .error e => some e | .ok _ => none) = some .coincident := by decide +kernel
/-- functional update after particle 2 moved to another octant: nothing lost, shape re-established -/
example : (match build exPs 10 exCell 3 with
    | .ok t => (match update exPs' 10 exCell t with | .ok t' => leaves t' | .error _ => [])
    | .error _ => []) = [0, 1, 2] := by decide +kernel
/-- separation hypothesis of `c15_insert_terminates`: particles 0 and 2 differ by 1/8 > 2/2^5 in x -/
example : Sep (exPs 2) (exPs 0) exCell.w 5 := by
  left; simp [exPs, exCell]; norm_num [abs_of_neg]

/-! forest update: two root boxes, one migration, one flagged particle, one octant change -/
/-- two root boxes along x (`root_size 2`); (id, position) -/
def exOld : List (Nat × Pt ℚ) :=
  [(0, ⟨-3/2, 1/2, 1/2, 1⟩), (1, ⟨-1/2, -1/2, 1/2, 1⟩), (2, ⟨1/2, 1/2, 1/2, 1⟩), (3, ⟨3/2, -1/2, 1/4, 1⟩)]
/-- after a step: 0 migrated to the other root box, 2 is flagged, 3 changed octant, 1 stayed -/
def exNew : List (Nat × Pt ℚ) :=
  [(0, ⟨1/2, -1/2, -1/2, 1⟩), (1, ⟨-1/2, -1/2, 1/2, 1⟩), (2, ⟨1/2, 1/2, 1/2, 1⟩), (3, ⟨3/2, 1/2, 1/4, 1⟩)]
def exRi : Pt ℚ → Nat := rootIdx Rat.floor 2 2 1 1
def exRc : Nat → Cell ℚ := rootCellOf 2 2 1 1
def exIn : Nat × Pt ℚ → Bool := fun a => inBoxPt 2 2 1 1 a.2
def exForest0 : List (T ℚ) :=
  match exOld.foldlM (addOne (fun a => a.2) exIn exRi exRc 10) ([T.nil, T.nil], []) with
  | .ok s => s.1
  | .error _ => []


example : exForest0.map leaves = [[0, 1], [2, 3]] := by decide +kernel
/-- new array order `[1,0,3]` (ids): survivor of the swaps, then the evicted in pre-order; forest leaves renumbered -/
example : (match updateA (fun a => a.2) (fun a => a.1 == 2) exIn exRi exRc 10 exForest0 exNew with
    | some (.ok (f, a)) => (a.map (fun q : Nat × Pt ℚ => q.1), f.map leaves)
    | _ => ([], [])) = ([1, 0, 3], [[0], [2, 1]]) := by decide +kernel
/-- the floor hypothesis of `c15_root_box_contains` holds for the usual floor -/
example : ∀ x : ℚ, ((⌊x⌋ : ℤ) : ℚ) ≤ x ∧ x < ((⌊x⌋ : ℤ) : ℚ) + 1 :=
  fun x => ⟨Int.floor_le x, Int.lt_floor_add_one x⟩

/-- C `fmod` on ℚ: quotient truncated towards zero -/
def fmodQ (a b : ℚ) : ℚ := a - (if 0 ≤ a / b then (⌊a / b⌋ : ℤ) else (⌈a / b⌉ : ℤ)) * b

/-- the hypothesis of `c15_shear` / `c15_shear_terminates` is satisfiable -/
example : FmodSpec fmodQ := by
  intro a b hb
  unfold fmodQ
  set r := a / b with hr
  have har : a = r * b := by rw [hr]; field_simp
  by_cases h0 : 0 ≤ r
  · simp only [h0, if_true]
    have f1 := Int.floor_le r
    have f2 := Int.lt_floor_add_one r
    set d := r - (⌊r⌋ : ℚ) with hd
    have hd0 : 0 ≤ d := by linarith
    have hd1 : d < 1 := by linarith
    have he : a - (⌊r⌋ : ℚ) * b = d * b := by rw [har, hd]; ring
    refine ⟨⟨⌊r⌋, rfl⟩, ?_, ?_, ?_⟩
    · rw [he, abs_mul, abs_of_nonneg hd0]
      have := abs_pos.mpr hb
      nlinarith
    · intro ha
      rw [he]
      rcases lt_or_gt_of_ne hb with hneg | hpos
      · have : r * b ≤ 0 := mul_nonpos_of_nonneg_of_nonpos h0 (le_of_lt hneg)
        have hr0 : r = 0 := by
          have : a = 0 := le_antisymm (by rw [har]; exact this) ha
          rw [hr, this]; simp
        have : d = 0 := by rw [hd, hr0]; simp
        rw [this]; simp
      · positivity
    · intro ha
      rw [he]
      rcases lt_or_gt_of_ne hb with hneg | hpos
      · exact mul_nonpos_of_nonneg_of_nonpos hd0 (le_of_lt hneg)
      · have : 0 ≤ r * b := mul_nonneg h0 (le_of_lt hpos)
        have hr0 : r = 0 := by
          have : a = 0 := le_antisymm ha (by rw [har]; exact this)
          rw [hr, this]; simp
        have : d = 0 := by rw [hd, hr0]; simp
        rw [this]; simp
  · simp only [h0, if_false]
    have hneg : r < 0 := not_le.mp h0
    have c1 := Int.le_ceil r
    have c2 := Int.ceil_lt_add_one r
    set d := (⌈r⌉ : ℚ) - r with hd
    have hd0 : 0 ≤ d := by linarith
    have hd1 : d < 1 := by linarith
    have he : a - (⌈r⌉ : ℚ) * b = -(d * b) := by rw [har, hd]; ring
    refine ⟨⟨⌈r⌉, rfl⟩, ?_, ?_, ?_⟩
    · rw [he, abs_neg, abs_mul, abs_of_nonneg hd0]
      have := abs_pos.mpr hb
      nlinarith
    · intro ha
      rw [he]
      rcases lt_or_gt_of_ne hb with hbn | hbp
      · have : d * b ≤ 0 := mul_nonpos_of_nonneg_of_nonpos hd0 (le_of_lt hbn)
        linarith
      · exfalso
        have : r * b < 0 := mul_neg_of_neg_of_pos hneg hbp
        rw [← har] at this
        linarith
    · intro ha
      rw [he]
      rcases lt_or_gt_of_ne hb with hbn | hbp
      · exfalso
        have : 0 < r * b := mul_pos_of_neg_of_neg hneg hbn
        rw [← har] at this
        linarith
      · have : 0 ≤ d * b := mul_nonneg hd0 (le_of_lt hbp)
        linarith


/-- tree gravity on the three-particle tree of `exPs` (opening angle 0, `sqrt := id`, G = 1, no softening): x-acceleration of
    particle 1 from the walk = from the two direct pair terms -/
example : (match build exPs 10 exCell 3 with
    | .ok t => ((accForest id 1 0 0 (exPs 1) 1 [updGrav exPs t]).ax ==
                ([0, 2].foldl (pairForce id 1 0 (exPs 1).x (exPs 1).y (exPs 1).z exPs) ⟨0, 0, 0⟩).ax)
    | .error _ => false) = true := by decide +kernel
end RV.C15
