import RV.Proofs.VarAux
import RV.Proofs.VarKepler
import RV.Gen.C16Dispatch
import RV.Gen.C16Rescale
import RV.Proofs.VarLoops
import RV.Proofs.VarMegno
import RV.Proofs.VarDeriv2a
import RV.Proofs.VarDeriv2b
import RV.Proofs.VarDeriv3a
import RV.Proofs.VarDeriv3b
/-
  C16 — variational particles are the derivatives of the trajectory.

  What is proved here (exact arithmetic, any field of characteristic 0, every particle
  number): the hand-derived variational force loops of `reb_calculate_acceleration_var`
  (RV/Model/Var.lean, the same definitions the driver drv_c16 runs on IEEE doubles
  against the compiled gravity.c) are the ε-parts of the ordinary force model run on
  dual numbers (RV/Model/Dual.lean).

  The square root enters through an arbitrary function `sq` that is only required to
  square back to the squared distance on the pairs that occur (`PairOK`), so the
  statements hold for `Real.sqrt` on ℝ and are satisfiable in ℚ (examples at the end).

  Hypotheses forced by the code and therefore explicit in the statements:
    * softening = 0   (the variational loops leave `softening²` out of r², the force
                       loop includes it; `c16_softening_needed` shows the statement is
                       false otherwise)
    * no two particles coincide (`sq r² ≠ 0`: the C code divides by it)
-/
set_option linter.unusedTactic false
set_option linter.unreachableTactic false
set_option linter.unnecessarySeqFocus false
set_option linter.unusedVariables false
set_option linter.unusedSimpArgs false
set_option linter.unusedSectionVars false
namespace RV.Var
open RV
variable {K : Type} [Field K] [CharZero K]

/-! ### the lifts of the non-rational functions are *the* lifts -/

/-- `sqrtLift` is the unique dual number with real part `sq s` whose square is `s + εδ` -/
theorem c16_sqrtLift_unique (sq : K → K) (s δ : K) (hs : sq s * sq s = s) (hne : sq s ≠ 0)
    (y : Dual K) :
    (y * y = (⟨s, δ⟩ : Dual K) ∧ y.re = sq s) ↔ y = Dual.sqrtLift sq ⟨s, δ⟩ := by
  obtain ⟨a, b⟩ := y
  have h2 : (2:K) ≠ 0 := by norm_num
  have hmul : (⟨a, b⟩ : Dual K) * ⟨a, b⟩ = ⟨a * a, a * b + b * a⟩ := rfl
  simp only [hmul, Dual.sqrtLift, Dual.mk.injEq, sc_hdiv, sc_hmul, sc_ofNat]
  push_cast
  constructor
  · rintro ⟨⟨h1, h3⟩, h4⟩
    subst h4
    refine ⟨rfl, ?_⟩
    field_simp
    rw [← h3]; ring
  · rintro ⟨h1, h3⟩
    subst h1
    refine ⟨⟨hs, ?_⟩, rfl⟩
    rw [h3]; field_simp; ring

/-- the `s ↦ s^(-3/2)` lift `(s+εδ)^(-3/2) = s^(-3/2) − (3/2) s^(-5/2) δ ε` is what dual
    arithmetic computes for `1/(s·√s)` — the expression `r3inv = 1./(r2*_r)` of gravity.c -/
theorem c16_rinv3Lift (sq : K → K) (R : Dual K) (hs : sq R.re * sq R.re = R.re) (hne : sq R.re ≠ 0) :
    (Scalar.one : Dual K) / (R * Dual.sqrtLift sq R)
      = Dual.rinv3Lift (fun s => 1 / (s * sq s)) R := by
  obtain ⟨s, δ⟩ := R
  have h2 : (2:K) ≠ 0 := by norm_num
  simp only at hs hne
  have hd : ∀ a b : Dual K, a / b = ⟨a.re / b.re, (a.eps * b.re - a.re * b.eps) / (b.re * b.re)⟩ :=
    fun _ _ => rfl
  have hm : ∀ a b : Dual K, a * b = ⟨a.re * b.re, a.re * b.eps + a.eps * b.re⟩ := fun _ _ => rfl
  simp only [hd, hm, Dual.rinv3Lift, Dual.sqrtLift, Dual.one_re, Dual.one_eps, Dual.mk.injEq,
    sc_zero, sc_one, sc_hadd, sc_hsub, sc_hmul, sc_hdiv, sc_hneg, sc_ofNat]
  generalize sq s = ρ at *
  rw [← hs]
  push_cast
  refine ⟨trivial, ?_⟩
  field_simp
  ring

/-! ### first order -/

/-- **First-order variational accelerations are the derivative of the force.**
    For every number of particles, `accVar1` — the loop of gravity.c:1031-1074 with the
    variational-mass terms — equals the ε-coefficient of the BASIC force loop evaluated
    at `real + ε·variational` (positions *and* masses), and the real part of that dual
    run is the ordinary force.  Hypotheses: softening 0, no coinciding pair. -/
theorem c16_var1_is_derivative (G : K) (sq : K → K) (ps : List (RV1 K))
    (h : ps.Pairwise (fun e l => PairOK sq l.1 e.1)) :
    (accBasicAll (Dual.const G) Scalar.zero (Dual.sqrtLift sq) (ps.map dz1)).map epsV
        = accVar1 G sq ps ∧
    (accBasicAll (Dual.const G) Scalar.zero (Dual.sqrtLift sq) (ps.map dz1)).map reV
        = accBasicAll G Scalar.zero sq (ps.map Prod.fst) := by
  constructor
  · have := loopLF_hom V3.add V3.add V3.zero V3.zero epsV dz1
      (forcePair (Dual.const G) Scalar.zero (Dual.sqrtLift sq)) (var1Pair G sq) epsV_add rfl
      (fun pi pj => PairOK sq pi.1 pj.1) (fun pi pj hp => var1_pair G sq pi pj hp) ps [] []
      (by simp) h
    simpa [accBasicAll, accVar1] using this
  · have h1 := loopLF_hom V3.add V3.add V3.zero V3.zero reV dz1
      (forcePair (Dual.const G) Scalar.zero (Dual.sqrtLift sq))
      (fun a b => forcePair G Scalar.zero sq a.1 b.1) reV_add rfl
      (fun _ _ => True) (fun pi pj _ => re_pair G sq pi pj) ps [] []
      (fun _ _ _ hq => by cases hq) (List.pairwise_of_forall (fun _ _ => trivial))
    have h2 := loopLF_hom V3.add V3.add V3.zero V3.zero (fun a : V3 K => a) (Prod.fst : RV1 K → GP K)
      (forcePair G Scalar.zero sq) (fun a b => forcePair G Scalar.zero sq a.1 b.1)
      (fun _ _ => rfl) rfl (fun _ _ => True) (fun _ _ _ => ⟨rfl, rfl⟩) ps [] []
      (fun _ _ _ hq => by cases hq) (List.pairwise_of_forall (fun _ _ => trivial))
    simp only [List.map_nil, List.map_id'] at h1 h2
    simp only [accBasicAll]
    rw [h1, ← h2]

/-- the same with `N_active < N` and either `testparticle_type`: active pairs
    (gravity.c:1036-1074) followed by the test-particle loop (1075-1115) equal the ε-part of
    the force routine with the same split (gravity.c:161-222).  Test particles need not be
    separated from each other (they do not interact). -/
theorem c16_var1_split_is_derivative (G : K) (sq : K → K) (tptype : Bool) (act tst : List (RV1 K))
    (hact : act.Pairwise (fun e l => PairOK sq l.1 e.1))
    (htst : ∀ t ∈ tst, ∀ a ∈ act, PairOK sq t.1 a.1) :
    (accBasicSplit (Dual.const G) Scalar.zero (Dual.sqrtLift sq) tptype (act.map dz1) (tst.map dz1)).map epsV
        = accVar1Split G sq tptype act tst := by
  have h1 := loopLF_hom V3.add V3.add V3.zero V3.zero epsV dz1
      (forcePair (Dual.const G) Scalar.zero (Dual.sqrtLift sq)) (var1Pair G sq) epsV_add rfl
      (fun pi pj => PairOK sq pi.1 pj.1) (fun pi pj hp => var1_pair G sq pi pj hp) act [] []
      (fun _ _ _ hq => by cases hq) hact
  have h2 := crossLoop_hom V3.add V3.add V3.zero V3.zero epsV dz1
      (forcePair (Dual.const G) Scalar.zero (Dual.sqrtLift sq)) (var1Pair G sq) epsV_add rfl
      (fun pi pj => PairOK sq pi.1 pj.1) (fun pi pj hp => var1_pair G sq pi pj hp) tptype act tst
      (loopLF V3.add V3.zero (forcePair (Dual.const G) Scalar.zero (Dual.sqrtLift sq)) [] [] (act.map dz1)) htst
  simp only [List.map_nil] at h1
  rw [h1] at h2
  simp only [accBasicSplit, accVar1Split, List.map_append, h2.1, h2.2]

/-- the same under `gravity_ignore_terms` = 1 (WHFast/Jacobi: pair (1,0) skipped) or 2
    (every pair with particle 0 skipped): force and first-order variational loops skip the
    same pairs (gravity.c:145-146 vs 1006-1007), so the derivative relation is preserved -/
theorem c16_var1_ignore_terms (ign : Nat) (G : K) (sq : K → K) (ps : List (RV1 K))
    (h : ps.Pairwise (fun e l => PairOK sq l.1 e.1)) :
    (accBasicIgn ign (Dual.const G) Scalar.zero (Dual.sqrtLift sq) (ps.map dz1)).map epsV
        = accVar1Ign ign G sq ps := by
  have key : ∀ (done rest : List (RV1 K)) (accs : List (V3 (Dual K))),
      (∀ pi ∈ rest, ∀ pj ∈ done, PairOK sq pi.1 pj.1) → rest.Pairwise (fun e l => PairOK sq l.1 e.1) →
      (loopLF V3.add V3.zero (forcePair (Dual.const G) Scalar.zero (Dual.sqrtLift sq)) (done.map dz1) accs
          (rest.map dz1)).map epsV
        = loopLF V3.add V3.zero (var1Pair G sq) done (accs.map epsV) rest :=
    fun done rest accs h1 h2 => loopLF_hom V3.add V3.add V3.zero V3.zero epsV dz1
      (forcePair (Dual.const G) Scalar.zero (Dual.sqrtLift sq)) (var1Pair G sq) epsV_add rfl
      (fun pi pj => PairOK sq pi.1 pj.1) (fun pi pj hp => var1_pair G sq pi pj hp) rest done accs h1 h2
  have h0 := key [] ps [] (fun _ _ _ hq => by cases hq) h
  match ign, ps, h with
  | 0, ps, h => simpa [accBasicIgn, accVar1Ign, loopIgn] using key [] ps [] (fun _ _ _ hq => by cases hq) h
  | 1, [], _ => rfl
  | 1, [_], _ => rfl
  | 1, p0 :: p1 :: rest, h =>
    rw [List.pairwise_cons, List.pairwise_cons] at h
    have := key [p0, p1] rest [V3.zero, V3.zero]
      (fun pi hpi pj hpj => by
        rcases List.mem_cons.mp hpj with hj | hj
        · subst hj; exact h.1 pi (by simp [hpi])
        · simp at hj; subst hj; exact h.2.1 pi hpi) h.2.2
    have hz : epsV (V3.zero : V3 (Dual K)) = V3.zero := rfl
    simpa [accBasicIgn, accVar1Ign, loopIgn, hz] using this
  | 2, [], _ => rfl
  | 2, [_], _ => rfl
  | 2, p0 :: p1 :: rest, h =>
    rw [List.pairwise_cons, List.pairwise_cons] at h
    have := key [p1] rest [V3.zero]
      (fun pi hpi pj hpj => by simp at hpj; subst hpj; exact h.2.1 pi hpi) h.2.2
    have hz : epsV (V3.zero : V3 (Dual K)) = V3.zero := rfl
    simp only [accBasicIgn, accVar1Ign, loopIgn, List.map_cons, List.map_nil, hz] at this ⊢
    rw [this]
  | n+3, ps, h => simpa [accBasicIgn, accVar1Ign, loopIgn] using key [] ps [] (fun _ _ _ hq => by cases hq) h

/-! ### second order -/

/-- **Second-order variational accelerations are the mixed second derivative.**
    For every number of particles, `accVar2` — the `i<j` loop of gravity.c:1167-1260 —
    equals the ε₁ε₂-coefficient of the BASIC force loop evaluated on `Dual (Dual K)` at
    `real + ε₁·(1st order a) + ε₂·(1st order b) + ε₁ε₂·(2nd order)`, masses included. -/
theorem c16_var2_is_second_derivative (G : K) (sq : K → K) (ps : List (RV2 K))
    (h : ps.Pairwise (fun e l => PairOK sq l.p e.p)) :
    (accBasicAll (Dual.const (Dual.const G)) Scalar.zero (Dual2.sqrtLift2 sq) (ps.map dz2)).map epsV2
        = accVar2 G sq ps := by
  have h1 := loopLF_hom V3.add V3.add V3.zero V3.zero epsV2 dz2
      (forcePair (Dual.const (Dual.const G)) Scalar.zero (Dual2.sqrtLift2 sq)) (var2Pair G sq)
      epsV2_add rfl (fun pi pj => PairOK sq pi.p pj.p) (fun pi pj hp => var2_pair G sq pi pj hp)
      ps [] [] (by simp) h
  simp only [List.map_nil] at h1
  simp only [accBasicAll, accVar2]
  rw [h1, loopLF_eq_g]
  exact loopLFg_eq_loopEF V3.add (var2Pair G sq) ps _ (by simp)
    (List.pairwise_of_forall (fun a b => var2Pair_symm G sq a b))


/-! ### single test-particle variations (`vc.testparticle >= 0`) -/

/-- first order: `tpVar1` (gravity.c:1117-1154) is the ε-part of the force on a test
    particle at `(x,y,z) + ε·(ddx,ddy,ddz)` due to the bodies `others` (which do not move
    and have no mass variation).  The C loop runs over *all* real `j ≠ i` while the force
    on a type-0 test particle comes from the active ones only: `c16_testparticle_massless_term`
    shows the two agree exactly when the inactive ones are massless. -/
theorem c16_var1_testparticle_is_derivative (G : K) (sq : K → K) (x y z ddx ddy ddz : K)
    (others : List (GP K)) (h : ∀ pj ∈ others, PairOK sq ⟨0, x, y, z⟩ pj) :
    epsV (tpForce (Dual.const G) Scalar.zero (Dual.sqrtLift sq) ⟨x, ddx⟩ ⟨y, ddy⟩ ⟨z, ddz⟩ (others.map cGP))
      = tpVar1 G sq x y z ddx ddy ddz others := by
  simp only [tpForce, tpVar1]
  exact foldl_hom epsV V3.add V3.add epsV_add _ _ cGP others
    (fun pj hpj => tpVar1_term G sq x y z ddx ddy ddz pj (h pj hpj)) V3.zero

/-- second order: `tpVar2` (gravity.c:1262-1325) is the ε₁ε₂-part of the same force at
    `(x,y,z) + ε₁ k1 + ε₂ k2 + ε₁ε₂ dd` -/
theorem c16_var2_testparticle_is_second_derivative (G : K) (sq : K → K) (x y z : K) (dd k1 k2 : V3 K)
    (others : List (GP K)) (h : ∀ pj ∈ others, PairOK sq ⟨0, x, y, z⟩ pj) :
    epsV2 (tpForce (Dual.const (Dual.const G)) Scalar.zero (Dual2.sqrtLift2 sq)
        (d4 x k1.x k2.x dd.x) (d4 y k1.y k2.y dd.y) (d4 z k1.z k2.z dd.z) (others.map cGP2))
      = tpVar2 G sq x y z dd k1 k2 others := by
  simp only [tpForce, tpVar2]
  exact foldl_hom epsV2 V3.add V3.add epsV2_add _ _ cGP2 others
    (fun pj hpj => tpVar2_term G sq x y z dd k1 k2 pj (h pj hpj)) V3.zero

omit [CharZero K] in
/-- a massless body contributes nothing to a single test-particle variation -/
theorem c16_testparticle_massless_term (G : K) (sq : K → K) (x y z ddx ddy ddz : K) (pj : GP K)
    (hm : pj.m = 0) (a : V3 K) :
    V3.add a (tpVar1Term G sq x y z ddx ddy ddz pj) = a := by
  obtain ⟨ax, ay, az⟩ := a
  simp [V3.add, tpVar1Term, hm]

/-! ### WHFast tangent map, Jacobi term of the interaction step -/

/-- **Full statement (false of the code, F16).**  With the interior mass `η + ε·dη` the ε-part
    of the Jacobi kick `dt·G·η·x/|x|³` is the code's variation (integrator_whfast.c:385-394)
    *plus* the term `dt·G·dη·x/|x|³`, which the code does not have ("TODO Need to add mass
    terms").  So the WHFast tangent map is the derivative of the WHFast map only when no
    mass is varied. -/
theorem c16_whfast_jacobi_term_full (G eta deta dt : K) (sq : K → K) (x y z dx dy dz : K)
    (hs : sq (1 / (x*x + y*y + z*z)) * sq (1 / (x*x + y*y + z*z)) = 1 / (x*x + y*y + z*z))
    (hne : sq (1 / (x*x + y*y + z*z)) ≠ 0) :
    epsV (whJacKick (Dual.const G) ⟨eta, deta⟩ (Dual.const dt) Scalar.zero (Dual.sqrtLift sq) ⟨x, dx⟩ ⟨y, dy⟩ ⟨z, dz⟩)
      = V3.add (whJacKickVar G eta dt Scalar.zero sq x y z dx dy dz)
          (let c := dt * (sq (1 / (x*x + y*y + z*z)) * (1 / (x*x + y*y + z*z)) * G * deta); ⟨c*x, c*y, c*z⟩) :=
  whJac_full G eta deta dt sq x y z dx dy dz hs hne

/-- partial: the extra hypothesis `dη = 0` (no variational masses) names finding F16.
    Only the Jacobi term of the interaction step is covered; the tangent map of the Kepler
    solver (`dX, dG, df, dg…`, integrator_whfast.c:310-342) is not proved, only searched. -/
theorem c16_whfast_jacobi_term_partial (G eta dt : K) (sq : K → K) (x y z dx dy dz : K)
    (hs : sq (1 / (x*x + y*y + z*z)) * sq (1 / (x*x + y*y + z*z)) = 1 / (x*x + y*y + z*z))
    (hne : sq (1 / (x*x + y*y + z*z)) ≠ 0) :
    epsV (whJacKick (Dual.const G) (Dual.const eta) (Dual.const dt) Scalar.zero (Dual.sqrtLift sq) ⟨x, dx⟩ ⟨y, dy⟩ ⟨z, dz⟩)
      = whJacKickVar G eta dt Scalar.zero sq x y z dx dy dz := by
  have := whJac_full G eta 0 dt sq x y z dx dy dz hs hne
  simp only [mul_zero, zero_mul] at this
  rw [show (Dual.const eta : Dual K) = ⟨eta, 0⟩ from rfl, this]
  simp [V3.add]

/-! ### WHFast tangent map, Kepler solver (model `Kepler.tangentUpdate` of C03, tied bitwise there) -/

/-- the first lines of the tangent map (integrator_whfast.c:315-320): `dbeta, deta0, dzeta0`
    are the ε-parts of `beta, eta0, zeta0` when `r0 ↦ r0 + ε·dr0`, `1/r0 ↦ 1/r0 − ε·dr0/r0²` -/
theorem c16_whfast_kepler_invariants_tangent (M r0 r0i : K) (p dp : Kepler.P6 K) :
    let dr0 := tanDr0 r0i p dp
    let I := Kepler.invariants (Dual.const M) (⟨r0, dr0⟩ : Dual K) ⟨r0i, -(dr0 * r0i * r0i)⟩ (dP6 p dp)
    let i0 := Kepler.invariants M r0 r0i p
    I.beta.eps = (-2) * M * dr0 * r0i * r0i - 2 * (dp.vx * p.vx + dp.vy * p.vy + dp.vz * p.vz) ∧
    I.eta0.eps = dp.x * p.vx + dp.y * p.vy + dp.z * p.vz + p.x * dp.vx + p.y * dp.vy + p.z * dp.vz ∧
    I.zeta0.eps = (-i0.beta) * dr0 - r0 * I.beta.eps ∧
    I.beta.re = i0.beta ∧ I.eta0.re = i0.eta0 ∧ I.zeta0.re = i0.zeta0 :=
  kepler_invariants_tangent M r0 r0i p dp

/-- partial: **given** the tangent map's own `dr0, dG1, dG2, dG3, dr` (`tanMid`, lines 315-331),
    its update lines (332-342: `df, dg, dfd, dgd` and the six `+=`) are exactly the ε-part of
    the real f-g update (lines 297-308) evaluated at `p + ε·dp`, `Gₖ + ε·dGₖ`,
    `1/r0 − ε·dr0/r0²`, `1/r − ε·dr/r²`.  Missing for the full statement: that `dX` and `dGₖ`
    are the derivatives of the solution of Kepler's equation and of the Stiefel functions
    (the Stumpff-series helper `stumpff_cs` and the implicit differentiation) — that part is
    covered numerically by the sharp finite-difference oracle of the check, over every
    number of argument-halving passes of `stumpff_cs`. -/
theorem c16_whfast_kepler_fg_tangent_partial (M r0 r0i ri X beta eta0 zeta0 dt : K) (gs : Kepler.Cs6 K)
    (p dp : Kepler.P6 K) :
    let m := tanMid M r0 r0i ri X beta eta0 zeta0 gs p dp
    Kepler.tangentUpdate M r0 r0i ri X beta eta0 zeta0 (Kepler.fgCoeffs M r0i ri dt gs.c1 gs.c2 gs.c3) gs p dp
      = epsP6 (Kepler.fgUpdate (Dual.const M) ⟨r0i, -(m.dr0 * r0i * r0i)⟩ ⟨ri, -(m.dr * ri * ri)⟩ (Dual.const dt)
          ⟨gs.c1, m.dG1⟩ ⟨gs.c2, m.dG2⟩ ⟨gs.c3, m.dG3⟩ (dP6 p dp)) := by
  intro m
  rw [tangentUpdate_split]
  exact tanLines_is_eps M r0i ri dt gs p dp m

/-! ### WHFast symplectic correctors: the variational corrector is the ε-part of the real one -/

omit [CharZero K] in
/-- the schedule the code runs (with the refresh of the variational inertial positions after
    *each* Kepler step that precedes a force evaluation) is the dualisation of the real
    corrector's schedule — for every order, `inv`, `dt` and coefficient table -/
theorem c16_corrector_schedule_is_dualised (order : Nat) (inv dt : K) (as_ bs : List K) :
    correctorPair order inv dt as_ bs = (correctorReal order inv dt as_ bs).flatMap dualiseOp := by
  simp only [correctorPair, correctorReal, List.flatMap_assoc]
  apply List.flatMap_congr
  intro p _
  rfl

/-- **Compositional statement.**  `S` is the state of the code (Jacobi and inertial copies of real
    and variational particles), `D` the state of the real system run on dual numbers, `abs` reads
    a code state as a dual state.  If every exported primitive commutes with `abs` — Kepler step
    (tangent map; numerical in this check), force evaluation (`c16_var1_ignore_terms`),
    interaction step (`c16_whfast_jacobi_term_partial` + linearity) — and the *pair* of
    refreshes (real, then variational) is the dual refresh, then the whole corrector of any
    order commutes with `abs`: the variational particles after `reb_whfast_apply_corrector`
    are the ε-part of the real corrector.  A refresh of the real particles alone is *not*
    assumed to commute: a schedule that skips a variational refresh is not covered. -/
theorem c16_corrector_is_derivative {S D : Type} (step : WOp K → S → S) (stepD : WOp K → D → D)
    (abs : S → D)
    (hk : ∀ a s, abs (step (.kepler a) s) = stepD (.kepler a) (abs s))
    (ha : ∀ s, abs (step .acc s) = stepD .acc (abs s))
    (hi : ∀ b s, abs (step (.interaction b) s) = stepD (.interaction b) (abs s))
    (hr : ∀ s, abs (step .refreshVar (step .refreshReal s)) = stepD .refreshReal (abs s))
    (order : Nat) (inv dt : K) (as_ bs : List K) (s : S) :
    abs (runOps step (correctorPair order inv dt as_ bs) s)
      = runOps stepD (correctorReal order inv dt as_ bs) (abs s) := by
  have hZ : ∀ (a b : K) (s : S), abs (runOps step (corrZPair a b) s) = runOps stepD (corrZReal a b) (abs s) := by
    intro a b s
    simp only [runOps, corrZPair, corrZReal, List.foldl_cons, List.foldl_nil, hk, ha, hi, hr]
  simp only [correctorPair, correctorReal]
  generalize correctorStages order inv dt as_ bs = st
  induction st generalizing s with
  | nil => rfl
  | cons p r ih =>
    simp only [List.flatMap_cons, runOps, List.foldl_append] at ih ⊢
    have := hZ p.1 p.2 s
    simp only [runOps] at this
    rw [← this]
    exact ih _

/-! ### move_to_com -/

omit [CharZero K] in
/-- the first-order correction `com_shift` of `reb_simulation_move_to_com`
    (tools.c:279-299, each Cartesian component) is the ε-part of the centre of mass
    `Σ mᵢxᵢ / Σ mᵢ` evaluated at `m + ε·dm`, `x + ε·dx` -/
theorem c16_move_to_com_var1 (l : List (C1 K)) (hM : (l.map C1.m).sum ≠ 0) :
    comShift1 (massSum (l.map C1.m)) l = (comSimple (l.map dC1)).eps := by
  obtain ⟨a1, a2⟩ := dualMx_acc (Scalar.zero : Dual K) l
  obtain ⟨b1, b2⟩ := dualM_acc (Scalar.zero : Dual K) l
  simp only [comShift1, comSimple, massSum, Dual.div_eps, a1, a2, b1, b2, Dual.zero_re, Dual.zero_eps,
    sc_zero, sc_hadd, sc_hsub, sc_hmul, sc_hdiv, zero_add, massSum_acc]
  rw [comShift1_acc _ _ _ hM]
  field_simp
  ring

/-- the second-order correction (tools.c:174-259) is the ε₁ε₂-part of the centre of mass
    evaluated on `Dual (Dual K)` -/
theorem c16_move_to_com_var2 (l : List (C2 K)) (hM : (l.map C2.m).sum ≠ 0) :
    comShift2 (massSum (l.map C2.m)) l = (comSimple (l.map dC2)).eps.eps := by
  obtain ⟨a1, a2, a3, a4⟩ := dual2Mx_acc (Scalar.zero : Dual2 K) l
  obtain ⟨b1, b2, b3, b4⟩ := dual2M_acc (Scalar.zero : Dual2 K) l
  simp only [Dual.zero_re, Dual.zero_eps, sc_zero, zero_add] at a1 a2 a3 a4 b1 b2 b3 b4
  have hq := quot2_epseps (l.map (fun p => p.m * p.x)).sum
    (l.map (fun p => p.m * p.xa + p.ma * p.x)).sum
    (l.map (fun p => p.m * p.xb + p.mb * p.x)).sum
    (l.map (fun p => p.m * p.xx + p.ma * p.xb + p.mb * p.xa + p.mm * p.x)).sum
    (l.map C2.m).sum (l.map C2.ma).sum (l.map C2.mb).sum (l.map C2.mm).sum hM
  simp only [comSimple, massSum]
  have e : ∀ d : Dual2 K, d = ⟨⟨d.re.re, d.re.eps⟩, ⟨d.eps.re, d.eps.eps⟩⟩ := fun _ => rfl
  rw [e ((l.map dC2).foldl _ _), e (((l.map dC2).map Prod.fst).foldl _ _), a1, a2, a3, a4, b1, b2, b3, b4, hq]
  simp only [comShift2, massSum, massSum_acc, two, sc_zero, sc_hadd, sc_hsub, sc_hmul, sc_hdiv, sc_ofNat,
    zero_add]
  push_cast
  rw [comShift2_acc _ _ _ _ _ hM]
  ring

end RV.Var

/-! ### the hypotheses are necessary / satisfiable -/
namespace RV.Var
open RV

/-- **Softening must be 0.**  With softening² = 16, two unit masses at distance 3 and the
    variation δx₁ = 1, the ε-part of the softened force differs from what the variational
    loop computes (2/3125 vs 2/27): `reb_calculate_acceleration_var` ignores `softening`. -/
theorem c16_softening_needed :
    (accBasicAll (Dual.const (1:ℚ)) (Dual.const 16) (Dual.sqrtLift sqQ)
      ([(⟨1, 0, 0, 0⟩, ⟨0, 0, 0, 0⟩), (⟨1, 3, 0, 0⟩, ⟨0, 1, 0, 0⟩)].map dz1)).map epsV
    ≠ accVar1 1 sqQ [(⟨1, 0, 0, 0⟩, ⟨0, 0, 0, 0⟩), (⟨1, 3, 0, 0⟩, ⟨0, 1, 0, 0⟩)] := by
  simp only [accBasicAll, accVar1, loopLF, inner, forcePair, var1Pair, dz1, epsV, three, List.map_cons, List.map_nil,
    List.nil_append, List.cons_append, V3.add, V3.zero,
    Dual.add_re, Dual.add_eps, Dual.sub_re, Dual.sub_eps,
    Dual.mul_re, Dual.mul_eps, Dual.div_re, Dual.div_eps, Dual.neg_re, Dual.neg_eps,
    Dual.sqrtLift_re, Dual.sqrtLift_eps, Dual.const_re, Dual.const_eps, Dual.zero_re, Dual.zero_eps,
    sc_zero, sc_one, sc_hadd, sc_hsub, sc_hmul, sc_hdiv, sc_hneg, sc_ofNat, sqQ]
  norm_num

/-- the hypotheses of the first/second-order theorems hold for a concrete non-trivial
    rational configuration (a 3-4-5 triangle, unequal masses, a massless body, mass variations) -/
example : ([(⟨1, 0, 0, 0⟩, ⟨1/10, 1, 0, 0⟩), (⟨1/1000, 3, 4, 0⟩, ⟨1/7, 0, 1, 2⟩), (⟨0, 3, 0, 0⟩, ⟨0, 0, 0, 1⟩)]
    : List (RV1 ℚ)).Pairwise (fun e l => PairOK sqQ l.1 e.1) := by
  simp only [List.pairwise_cons, List.mem_cons, List.not_mem_nil, or_false, forall_eq_or_imp, forall_eq,
    PairOK, r2of, sqQ, List.Pairwise.nil, and_true, IsEmpty.forall_iff, implies_true]
  norm_num

/-- over ℝ with the true square root the only hypothesis left is that no two particles coincide -/
theorem c16_var1_is_derivative_real (G : ℝ) (ps : List (RV1 ℝ))
    (h : ps.Pairwise (fun e l => r2of l.1 e.1 ≠ 0)) :
    (accBasicAll (Dual.const G) Scalar.zero (Dual.sqrtLift Real.sqrt) (ps.map dz1)).map epsV
        = accVar1 G Real.sqrt ps :=
  (c16_var1_is_derivative G Real.sqrt ps (h.imp (fun hne => pairOK_real _ _ hne))).1

theorem c16_var2_is_second_derivative_real (G : ℝ) (ps : List (RV2 ℝ))
    (h : ps.Pairwise (fun e l => r2of l.p e.p ≠ 0)) :
    (accBasicAll (Dual.const (Dual.const G)) Scalar.zero (Dual2.sqrtLift2 Real.sqrt) (ps.map dz2)).map epsV2
        = accVar2 G Real.sqrt ps :=
  c16_var2_is_second_derivative G Real.sqrt ps (h.imp (fun hne => pairOK_real _ _ hne))

/-- the abstract `exp`/`log` of the rescaling theorem are realised by the real functions -/
example : (∀ a b : ℝ, Real.exp (a + b) = Real.exp a * Real.exp b) ∧ (∀ s : ℝ, 0 < s → Real.exp (Real.log s) = s) :=
  ⟨Real.exp_add, fun _ hs => Real.exp_log hs⟩

end RV.Var

/-! ### reb_simulation_rescale_var -/
namespace RV.Var
open RV
variable {K : Type} [Field K] [LinearOrder K] [IsStrictOrderedRing K]

/-- **Rescaling changes only the recorded magnitude.**  `exp`/`log` are abstract with
    `exp (a+b) = exp a · exp b` and `exp (log s) = s` for `s > 0`.  For configurations with
    pairwise disjoint particle slots, after `reb_simulation_rescale_var` (tools.c:1298-1371;
    threshold `thr ≥ 0`, any synchronisation state, any mix of orders / test-particle
    sets / early returns): every configuration keeps `order`, `index`, `testparticle`;
    its represented variation `exp(lrescale)·δ` is unchanged in all six components;
    second-order sets and sets with `lrescale < 0` are not touched at all; and every
    slot that belongs to no configuration (in particular every real particle) is unchanged. -/
theorem c16_rescale_var (exp log : K → K) (hadd : ∀ a b, exp (a + b) = exp a * exp b)
    (hlog : ∀ s, 0 < s → exp (log s) = s) (thr : K) (hthr : 0 ≤ thr) (nReal : Nat) (sync : Bool)
    (cfgs : List (VC K)) (mem : Nat → P6 K) (hd : cfgs.Pairwise (DisjointCfg nReal)) :
    List.Forall₂ (CfgRel exp nReal mem (rescaleVar (fieldOps log) thr nReal sync mem cfgs).mem)
        cfgs (rescaleVar (fieldOps log) thr nReal sync mem cfgs).cfgs ∧
    (∀ k, (∀ vc ∈ cfgs, ¬ InRange nReal vc k) →
      (rescaleVar (fieldOps log) thr nReal sync mem cfgs).mem k = mem k) :=
  rescaleLoop_spec exp log hadd hlog thr hthr nReal sync cfgs mem false false hd

/-- real particles (slots `< N_real`) are never modified, given what `add_variation`
    guarantees: every configuration starts at or after `N_real` -/
theorem c16_rescale_real_particles_untouched (exp log : K → K) (hadd : ∀ a b, exp (a + b) = exp a * exp b)
    (hlog : ∀ s, 0 < s → exp (log s) = s) (thr : K) (hthr : 0 ≤ thr) (nReal : Nat) (sync : Bool)
    (cfgs : List (VC K)) (mem : Nat → P6 K) (hd : cfgs.Pairwise (DisjointCfg nReal))
    (hidx : ∀ vc ∈ cfgs, nReal ≤ vc.index) (k : Nat) (hk : k < nReal) :
    (rescaleVar (fieldOps log) thr nReal sync mem cfgs).mem k = mem k :=
  (c16_rescale_var exp log hadd hlog thr hthr nReal sync cfgs mem hd).2 k
    (fun vc hvc hin => by have := hidx vc hvc; have := hin.1; omega)

end RV.Var

/-! ### the element-derivative constructors (derivatives.c) are ε-parts of the constructors

`RV.Gen.C16Deriv.d_*` are the 65 `reb_particle_derivative_*` functions, translated mechanically
from src/derivatives.c by rv/extract_c16.py on every run and compared bit for bit with the
compiled functions.  `palMap` / `orbMap` are `reb_particle_from_pal` / `reb_particle_from_orbit`
relative to the primary (also tied bitwise).  Below: each first-derivative function is the
ε-part of the map on `Dual K`, each second-derivative function the ε₁ε₂-part on `Dual (Dual K)`
(`v1`: varied along ε₁, `v2`: along ε₂, `v12`: along both).  `o.sin`, `o.cos` are arbitrary
functions — the dual lift *is* the chain rule —, `o.sqrt` only has to satisfy the relations
between the different square roots the C code takes (stated per theorem; all true for the real
square root of positive arguments), `sgn` is the derivative of `fabs` (1 for inclination < π).
`_partial`: through Pal's implicit (p,q): the derivatives of (p,q) are those the function
itself computes (first order: closed forms, justified by `c16_pal_kepler_linearised`; second
order: `pq2_*`, read out of the generated function).
NOT proved (stay numerical, mpmath ≤3e-11): `h_lambda, k_lambda, h_h, k_h, k_k` (their formulas
were simplified with Pal's Kepler relations and sin²+cos²=1; `ring` alone does not close them)
and `e_e` (needs the reduction e² = 1 − (√(1−e²))² inside a degree-10 identity). -/
namespace RV.Var
open RV RV.Gen.C16Deriv
variable {K : Type} [Field K] [CharZero K]

/-- the first derivatives of (p,q) used by every function through the implicit Pal variables
    solve the linearised Pal Kepler equations  p = k·sin F − h·cos F,  q = k·cos F + h·sin F,
    F = λ+p:  for each of λ, h, k the ε-parts of both residuals vanish (given the equations
    themselves and sin²+cos² = 1) -/
theorem c16_pal_kepler_linearised (o : DOps K) (sgn : K → K) (lam k h p q : K)
    (hP : p = k * o.sin (lam + p) - h * o.cos (lam + p)) (hQ : q = k * o.cos (lam + p) + h * o.sin (lam + p))
    (hT : o.sin (lam + p) * o.sin (lam + p) + o.cos (lam + p) * o.cos (lam + p) = 1) (hq : 1 - q ≠ 0) :
    let R1 := fun (l' k' h' p' q' : Dual K) => p' - (k' * (o.lift sgn).sin (l' + p') - h' * (o.lift sgn).cos (l' + p'))
    let R2 := fun (l' k' h' p' q' : Dual K) => q' - (k' * (o.lift sgn).cos (l' + p') + h' * (o.lift sgn).sin (l' + p'))
    let S := o.sin (lam + p)
    let C := o.cos (lam + p)
    (R1 (var1 lam) (cst k) (cst h) ⟨p, q / (1 - q)⟩ ⟨q, -p / (1 - q)⟩).eps = 0 ∧
    (R2 (var1 lam) (cst k) (cst h) ⟨p, q / (1 - q)⟩ ⟨q, -p / (1 - q)⟩).eps = 0 ∧
    (R1 (cst lam) (cst k) (var1 h) ⟨p, 1 / (1 - q) * (-C)⟩ ⟨q, 1 / (1 - q) * (S - h)⟩).eps = 0 ∧
    (R2 (cst lam) (cst k) (var1 h) ⟨p, 1 / (1 - q) * (-C)⟩ ⟨q, 1 / (1 - q) * (S - h)⟩).eps = 0 ∧
    (R1 (cst lam) (var1 k) (cst h) ⟨p, 1 / (1 - q) * S⟩ ⟨q, 1 / (1 - q) * (C - k)⟩).eps = 0 ∧
    (R2 (cst lam) (var1 k) (cst h) ⟨p, 1 / (1 - q) * S⟩ ⟨q, 1 / (1 - q) * (C - k)⟩).eps = 0 := by
  simp only [cst, var1, lift_sin, lift_cos, Dual.add_re, Dual.add_eps, Dual.sub_re, Dual.sub_eps, Dual.mul_re, Dual.mul_eps,
    Dual.const_re, Dual.const_eps, sc_zero, sc_hadd, sc_hsub, sc_hmul, sc_hneg]
  generalize o.sin (lam + p) = s at *
  generalize o.cos (lam + p) = cc at *
  refine ⟨?_, ?_, ?_, ?_, ?_, ?_⟩
  · field_simp; first | linear_combination hQ | linear_combination -hQ
  · field_simp; first | linear_combination hP | linear_combination -hP
  · field_simp; first | linear_combination (-cc) * hQ | linear_combination cc * hQ
  · field_simp; first | linear_combination h * hT + s * hQ | linear_combination (-h) * hT - s * hQ | linear_combination h * hT - s * hQ | linear_combination (-h) * hT + s * hQ
  · field_simp; first | linear_combination s * hQ | linear_combination (-s) * hQ
  · field_simp; first | linear_combination k * hT + cc * hQ | linear_combination (-k) * hT - cc * hQ | linear_combination k * hT - cc * hQ | linear_combination (-k) * hT + cc * hQ

theorem c16_deriv_a_is_eps (o : DOps K) (sgn : K → K) (G m M a lam k h ix iy p q : K)
    (hS : o.sqrt (G * (m + M) / a) * o.sqrt (G * (m + M) / a) = G * (m + M) / a)
    (hS3 : o.sqrt (G * (m + M) / (a * a * a)) * a = o.sqrt (G * (m + M) / a))
    (hS1 : o.sqrt (G * (m + M) / a) ≠ 0) (ha : a ≠ 0) :
    d_a o G m M a lam k h ix iy p q
      = epsP7 (palMap (o.lift sgn) (cst G) (cst m) (cst M) (var1 a) (cst lam) (cst k) (cst h) (cst ix) (cst iy) (cst p) (cst q)) :=
  deriv_a_is_eps o sgn G m M a lam k h ix iy p q hS hS3 hS1 ha

theorem c16_deriv_ix_is_eps (o : DOps K) (sgn : K → K) (G m M a lam k h ix iy p q : K)
    (hsgn : sgn (4 - ix * ix - iy * iy) = 1) :
    d_ix o G m M a lam k h ix iy p q
      = epsP7 (palMap (o.lift sgn) (cst G) (cst m) (cst M) (cst a) (cst lam) (cst k) (cst h) (var1 ix) (cst iy) (cst p) (cst q)) :=
  deriv_ix_is_eps o sgn G m M a lam k h ix iy p q hsgn

theorem c16_deriv_lambda_is_eps_partial (o : DOps K) (sgn : K → K) (G m M a lam k h ix iy p q : K)
    (hq : 1 - q ≠ 0) (hl : 2 - (1 - o.sqrt (1 - h * h - k * k)) ≠ 0) :
    d_lambda o G m M a lam k h ix iy p q
      = epsP7 (palMap (o.lift sgn) (cst G) (cst m) (cst M) (cst a) (var1 lam) (cst k) (cst h) (cst ix) (cst iy)
          ⟨p, q / (1 - q)⟩ ⟨q, -p / (1 - q)⟩) :=
  deriv_lambda_is_eps_partial o sgn G m M a lam k h ix iy p q hq hl

theorem c16_deriv_m_is_eps (o : DOps K) (sgn : K → K) (G m M a lam k h ix iy p q : K)
    (hS : o.sqrt (G / (a * (m + M))) * o.sqrt (G * (m + M) / a) = G / a) (hS1 : o.sqrt (G * (m + M) / a) ≠ 0) (ha : a ≠ 0) :
    d_m o G m M a lam k h ix iy p q
      = epsP7 (palMap (o.lift sgn) (cst G) (var1 m) (cst M) (cst a) (cst lam) (cst k) (cst h) (cst ix) (cst iy) (cst p) (cst q)) :=
  deriv_m_is_eps o sgn G m M a lam k h ix iy p q hS hS1 ha

theorem c16_deriv_iy_is_eps (o : DOps K) (sgn : K → K) (G m M a lam k h ix iy p q : K)
    (hsgn : sgn (4 - ix * ix - iy * iy) = 1) :
    d_iy o G m M a lam k h ix iy p q
      = epsP7 (palMap (o.lift sgn) (cst G) (cst m) (cst M) (cst a) (cst lam) (cst k) (cst h) (cst ix) (var1 iy) (cst p) (cst q)) :=
  deriv_iy_is_eps o sgn G m M a lam k h ix iy p q hsgn

theorem c16_deriv_h_is_eps_partial (o : DOps K) (sgn : K → K) (G m M a lam k h ix iy p q : K)
    (hq : 1 - q ≠ 0) (hl : 2 - (1 - o.sqrt (1 - h * h - k * k)) ≠ 0) (hL : o.sqrt (1 - h * h - k * k) ≠ 0) :
    d_h o G m M a lam k h ix iy p q
      = epsP7 (palMap (o.lift sgn) (cst G) (cst m) (cst M) (cst a) (cst lam) (cst k) (var1 h) (cst ix) (cst iy)
          ⟨p, 1 / (1 - q) * (-o.cos (lam + p))⟩ ⟨q, 1 / (1 - q) * (o.sin (lam + p) - h)⟩) :=
  deriv_h_is_eps_partial o sgn G m M a lam k h ix iy p q hq hl hL

theorem c16_deriv_k_is_eps_partial (o : DOps K) (sgn : K → K) (G m M a lam k h ix iy p q : K)
    (hq : 1 - q ≠ 0) (hl : 2 - (1 - o.sqrt (1 - h * h - k * k)) ≠ 0) (hL : o.sqrt (1 - h * h - k * k) ≠ 0) :
    d_k o G m M a lam k h ix iy p q
      = epsP7 (palMap (o.lift sgn) (cst G) (cst m) (cst M) (cst a) (cst lam) (var1 k) (cst h) (cst ix) (cst iy)
          ⟨p, 1 / (1 - q) * o.sin (lam + p)⟩ ⟨q, 1 / (1 - q) * (o.cos (lam + p) - k)⟩) :=
  deriv_k_is_eps_partial o sgn G m M a lam k h ix iy p q hq hl hL

theorem c16_deriv_inc_is_eps (o : DOps K) (sgn : K → K) (G m M a e inc Om om f : K) :
    d_inc o G m M a e inc Om om f
      = epsP7 (orbMap (o.lift sgn) (cst G) (cst m) (cst M) (cst a) (cst e) (var1 inc) (cst Om) (cst om) (cst f)) :=
  deriv_inc_is_eps o sgn G m M a e inc Om om f

theorem c16_deriv_Omega_is_eps (o : DOps K) (sgn : K → K) (G m M a e inc Om om f : K) :
    d_Omega o G m M a e inc Om om f
      = epsP7 (orbMap (o.lift sgn) (cst G) (cst m) (cst M) (cst a) (cst e) (cst inc) (var1 Om) (cst om) (cst f)) :=
  deriv_Omega_is_eps o sgn G m M a e inc Om om f

theorem c16_deriv_omega_is_eps (o : DOps K) (sgn : K → K) (G m M a e inc Om om f : K) :
    d_omega o G m M a e inc Om om f
      = epsP7 (orbMap (o.lift sgn) (cst G) (cst m) (cst M) (cst a) (cst e) (cst inc) (cst Om) (var1 om) (cst f)) :=
  deriv_omega_is_eps o sgn G m M a e inc Om om f

theorem c16_deriv_f_is_eps (o : DOps K) (sgn : K → K) (G m M a e inc Om om f : K)
    (hr : 1 + e * o.cos f ≠ 0) :
    d_f o G m M a e inc Om om f
      = epsP7 (orbMap (o.lift sgn) (cst G) (cst m) (cst M) (cst a) (cst e) (cst inc) (cst Om) (cst om) (var1 f)) :=
  deriv_f_is_eps o sgn G m M a e inc Om om f hr

theorem c16_deriv_e_is_eps (o : DOps K) (sgn : K → K) (G m M a e inc Om om f : K)
    (hr : 1 + e * o.cos f ≠ 0) (he : 1 - e * e ≠ 0) (ha : a ≠ 0)
    (hA : o.sqrt (G * (m + M) / a) * o.sqrt (G * (m + M) / a) = G * (m + M) / a)
    (hE : o.sqrt (1 - e * e) * o.sqrt (1 - e * e) = 1 - e * e)
    (hV : o.sqrt (G * (m + M) / a / (1 - e * e)) * o.sqrt (1 - e * e) = o.sqrt (G * (m + M) / a))
    (hV0 : o.sqrt (G * (m + M) / a / (1 - e * e)) ≠ 0) :
    d_e o G m M a e inc Om om f
      = epsP7 (orbMap (o.lift sgn) (cst G) (cst m) (cst M) (cst a) (var1 e) (cst inc) (cst Om) (cst om) (cst f)) :=
  deriv_e_is_eps o sgn G m M a e inc Om om f hr he ha hA hE hV hV0

theorem c16_deriv2_m_m_is_eps (o : DOps K) (sgn : K → K) (G m M a lam k h ix iy p q : K)
    (hq : 1 - q ≠ 0) (hl : 2 - (1 - o.sqrt (1 - h * h - k * k)) ≠ 0) (ha : a ≠ 0) (hm : m + M ≠ 0) (hS1 : o.sqrt (G * (m + M) / a) ≠ 0) (hS : o.sqrt (G * (m + M) / a) * o.sqrt (G * (m + M) / a) = G * (m + M) / a) (hSm : o.sqrt (G / (a * (m + M))) = o.sqrt (G * (m + M) / a) / (m + M)) (hSmm : o.sqrt (G / (a * (m + M) * (m + M) * (m + M))) = o.sqrt (G * (m + M) / a) / ((m + M) * (m + M))) :
    d_m_m o G m M a lam k h ix iy p q
      = epsP72 (palMap (lift2 o sgn) (c2 G) (v12 m) (c2 M) (c2 a) (c2 lam) (c2 k) (c2 h) (c2 ix) (c2 iy)
          ⟨⟨p, 0⟩, ⟨0, 0⟩⟩ ⟨⟨q, 0⟩, ⟨0, 0⟩⟩) :=
  deriv2_m_m_is_eps o sgn G m M a lam k h ix iy p q hq hl ha hm hS1 hS hSm hSmm

theorem c16_deriv2_m_a_is_eps (o : DOps K) (sgn : K → K) (G m M a lam k h ix iy p q : K)
    (hq : 1 - q ≠ 0) (hl : 2 - (1 - o.sqrt (1 - h * h - k * k)) ≠ 0) (ha : a ≠ 0) (hm : m + M ≠ 0) (hS1 : o.sqrt (G * (m + M) / a) ≠ 0) (hS : o.sqrt (G * (m + M) / a) * o.sqrt (G * (m + M) / a) = G * (m + M) / a) (hSm : o.sqrt (G / (a * (m + M))) = o.sqrt (G * (m + M) / a) / (m + M)) (hS3 : o.sqrt (G * (m + M) / (a * a * a)) = o.sqrt (G * (m + M) / a) / a) (hSma : o.sqrt (G / (a * a * a * (m + M))) = o.sqrt (G * (m + M) / a) / (a * (m + M))) :
    d_m_a o G m M a lam k h ix iy p q
      = epsP72 (palMap (lift2 o sgn) (c2 G) (v1 m) (c2 M) (v2 a) (c2 lam) (c2 k) (c2 h) (c2 ix) (c2 iy)
          ⟨⟨p, 0⟩, ⟨0, 0⟩⟩ ⟨⟨q, 0⟩, ⟨0, 0⟩⟩) :=
  deriv2_m_a_is_eps o sgn G m M a lam k h ix iy p q hq hl ha hm hS1 hS hSm hS3 hSma

theorem c16_deriv2_m_lambda_is_eps_partial (o : DOps K) (sgn : K → K) (G m M a lam k h ix iy p q : K)
    (hq : 1 - q ≠ 0) (hl : 2 - (1 - o.sqrt (1 - h * h - k * k)) ≠ 0) (ha : a ≠ 0) (hm : m + M ≠ 0) (hS1 : o.sqrt (G * (m + M) / a) ≠ 0) (hS : o.sqrt (G * (m + M) / a) * o.sqrt (G * (m + M) / a) = G * (m + M) / a) (hSm : o.sqrt (G / (a * (m + M))) = o.sqrt (G * (m + M) / a) / (m + M)) :
    d_m_lambda o G m M a lam k h ix iy p q
      = epsP72 (palMap (lift2 o sgn) (c2 G) (v1 m) (c2 M) (c2 a) (v2 lam) (c2 k) (c2 h) (c2 ix) (c2 iy)
          ⟨⟨p, 0⟩, ⟨q / (1 - q), 0⟩⟩ ⟨⟨q, 0⟩, ⟨-p / (1 - q), 0⟩⟩) :=
  deriv2_m_lambda_is_eps_partial o sgn G m M a lam k h ix iy p q hq hl ha hm hS1 hS hSm

theorem c16_deriv2_m_h_is_eps_partial (o : DOps K) (sgn : K → K) (G m M a lam k h ix iy p q : K)
    (hq : 1 - q ≠ 0) (hl : 2 - (1 - o.sqrt (1 - h * h - k * k)) ≠ 0) (hL : o.sqrt (1 - h * h - k * k) ≠ 0) (ha : a ≠ 0) (hm : m + M ≠ 0) (hS1 : o.sqrt (G * (m + M) / a) ≠ 0) (hS : o.sqrt (G * (m + M) / a) * o.sqrt (G * (m + M) / a) = G * (m + M) / a) (hSm : o.sqrt (G / (a * (m + M))) = o.sqrt (G * (m + M) / a) / (m + M)) :
    d_m_h o G m M a lam k h ix iy p q
      = epsP72 (palMap (lift2 o sgn) (c2 G) (v1 m) (c2 M) (c2 a) (c2 lam) (c2 k) (v2 h) (c2 ix) (c2 iy)
          ⟨⟨p, 0⟩, ⟨1 / (1 - q) * (-o.cos (lam + p)), 0⟩⟩ ⟨⟨q, 0⟩, ⟨1 / (1 - q) * (o.sin (lam + p) - h), 0⟩⟩) :=
  deriv2_m_h_is_eps_partial o sgn G m M a lam k h ix iy p q hq hl hL ha hm hS1 hS hSm

theorem c16_deriv2_m_k_is_eps_partial (o : DOps K) (sgn : K → K) (G m M a lam k h ix iy p q : K)
    (hq : 1 - q ≠ 0) (hl : 2 - (1 - o.sqrt (1 - h * h - k * k)) ≠ 0) (hL : o.sqrt (1 - h * h - k * k) ≠ 0) (ha : a ≠ 0) (hm : m + M ≠ 0) (hS1 : o.sqrt (G * (m + M) / a) ≠ 0) (hS : o.sqrt (G * (m + M) / a) * o.sqrt (G * (m + M) / a) = G * (m + M) / a) (hSm : o.sqrt (G / (a * (m + M))) = o.sqrt (G * (m + M) / a) / (m + M)) :
    d_m_k o G m M a lam k h ix iy p q
      = epsP72 (palMap (lift2 o sgn) (c2 G) (v1 m) (c2 M) (c2 a) (c2 lam) (v2 k) (c2 h) (c2 ix) (c2 iy)
          ⟨⟨p, 0⟩, ⟨1 / (1 - q) * o.sin (lam + p), 0⟩⟩ ⟨⟨q, 0⟩, ⟨1 / (1 - q) * (o.cos (lam + p) - k), 0⟩⟩) :=
  deriv2_m_k_is_eps_partial o sgn G m M a lam k h ix iy p q hq hl hL ha hm hS1 hS hSm

theorem c16_deriv2_m_ix_is_eps (o : DOps K) (sgn : K → K) (G m M a lam k h ix iy p q : K)
    (hq : 1 - q ≠ 0) (hl : 2 - (1 - o.sqrt (1 - h * h - k * k)) ≠ 0) (hsgn : sgn (4 - ix * ix - iy * iy) = 1) (hiz : o.sqrt (o.fabs (4 - ix * ix - iy * iy)) ≠ 0) (ha : a ≠ 0) (hm : m + M ≠ 0) (hS1 : o.sqrt (G * (m + M) / a) ≠ 0) (hS : o.sqrt (G * (m + M) / a) * o.sqrt (G * (m + M) / a) = G * (m + M) / a) (hSm : o.sqrt (G / (a * (m + M))) = o.sqrt (G * (m + M) / a) / (m + M)) :
    d_m_ix o G m M a lam k h ix iy p q
      = epsP72 (palMap (lift2 o sgn) (c2 G) (v1 m) (c2 M) (c2 a) (c2 lam) (c2 k) (c2 h) (v2 ix) (c2 iy)
          ⟨⟨p, 0⟩, ⟨0, 0⟩⟩ ⟨⟨q, 0⟩, ⟨0, 0⟩⟩) :=
  deriv2_m_ix_is_eps o sgn G m M a lam k h ix iy p q hq hl hsgn hiz ha hm hS1 hS hSm

theorem c16_deriv2_m_iy_is_eps (o : DOps K) (sgn : K → K) (G m M a lam k h ix iy p q : K)
    (hq : 1 - q ≠ 0) (hl : 2 - (1 - o.sqrt (1 - h * h - k * k)) ≠ 0) (hsgn : sgn (4 - ix * ix - iy * iy) = 1) (hiz : o.sqrt (o.fabs (4 - ix * ix - iy * iy)) ≠ 0) (ha : a ≠ 0) (hm : m + M ≠ 0) (hS1 : o.sqrt (G * (m + M) / a) ≠ 0) (hS : o.sqrt (G * (m + M) / a) * o.sqrt (G * (m + M) / a) = G * (m + M) / a) (hSm : o.sqrt (G / (a * (m + M))) = o.sqrt (G * (m + M) / a) / (m + M)) :
    d_m_iy o G m M a lam k h ix iy p q
      = epsP72 (palMap (lift2 o sgn) (c2 G) (v1 m) (c2 M) (c2 a) (c2 lam) (c2 k) (c2 h) (c2 ix) (v2 iy)
          ⟨⟨p, 0⟩, ⟨0, 0⟩⟩ ⟨⟨q, 0⟩, ⟨0, 0⟩⟩) :=
  deriv2_m_iy_is_eps o sgn G m M a lam k h ix iy p q hq hl hsgn hiz ha hm hS1 hS hSm

theorem c16_deriv2_a_a_is_eps (o : DOps K) (sgn : K → K) (G m M a lam k h ix iy p q : K)
    (hq : 1 - q ≠ 0) (hl : 2 - (1 - o.sqrt (1 - h * h - k * k)) ≠ 0) (ha : a ≠ 0) (hm : m + M ≠ 0) (hS1 : o.sqrt (G * (m + M) / a) ≠ 0) (hS : o.sqrt (G * (m + M) / a) * o.sqrt (G * (m + M) / a) = G * (m + M) / a) (hS3 : o.sqrt (G * (m + M) / (a * a * a)) = o.sqrt (G * (m + M) / a) / a) (hS5 : o.sqrt (G * (m + M) / (a * a * a * a * a)) = o.sqrt (G * (m + M) / a) / (a * a)) :
    d_a_a o G m M a lam k h ix iy p q
      = epsP72 (palMap (lift2 o sgn) (c2 G) (c2 m) (c2 M) (v12 a) (c2 lam) (c2 k) (c2 h) (c2 ix) (c2 iy)
          ⟨⟨p, 0⟩, ⟨0, 0⟩⟩ ⟨⟨q, 0⟩, ⟨0, 0⟩⟩) :=
  deriv2_a_a_is_eps o sgn G m M a lam k h ix iy p q hq hl ha hm hS1 hS hS3 hS5

theorem c16_deriv2_a_lambda_is_eps_partial (o : DOps K) (sgn : K → K) (G m M a lam k h ix iy p q : K)
    (hq : 1 - q ≠ 0) (hl : 2 - (1 - o.sqrt (1 - h * h - k * k)) ≠ 0) (ha : a ≠ 0) (hm : m + M ≠ 0) (hS1 : o.sqrt (G * (m + M) / a) ≠ 0) (hS : o.sqrt (G * (m + M) / a) * o.sqrt (G * (m + M) / a) = G * (m + M) / a) (hS3 : o.sqrt (G * (m + M) / (a * a * a)) = o.sqrt (G * (m + M) / a) / a) :
    d_a_lambda o G m M a lam k h ix iy p q
      = epsP72 (palMap (lift2 o sgn) (c2 G) (c2 m) (c2 M) (v1 a) (v2 lam) (c2 k) (c2 h) (c2 ix) (c2 iy)
          ⟨⟨p, 0⟩, ⟨q / (1 - q), 0⟩⟩ ⟨⟨q, 0⟩, ⟨-p / (1 - q), 0⟩⟩) :=
  deriv2_a_lambda_is_eps_partial o sgn G m M a lam k h ix iy p q hq hl ha hm hS1 hS hS3

theorem c16_deriv2_a_h_is_eps_partial (o : DOps K) (sgn : K → K) (G m M a lam k h ix iy p q : K)
    (hq : 1 - q ≠ 0) (hl : 2 - (1 - o.sqrt (1 - h * h - k * k)) ≠ 0) (hL : o.sqrt (1 - h * h - k * k) ≠ 0) (ha : a ≠ 0) (hm : m + M ≠ 0) (hS1 : o.sqrt (G * (m + M) / a) ≠ 0) (hS : o.sqrt (G * (m + M) / a) * o.sqrt (G * (m + M) / a) = G * (m + M) / a) (hS3 : o.sqrt (G * (m + M) / (a * a * a)) = o.sqrt (G * (m + M) / a) / a) :
    d_a_h o G m M a lam k h ix iy p q
      = epsP72 (palMap (lift2 o sgn) (c2 G) (c2 m) (c2 M) (v1 a) (c2 lam) (c2 k) (v2 h) (c2 ix) (c2 iy)
          ⟨⟨p, 0⟩, ⟨1 / (1 - q) * (-o.cos (lam + p)), 0⟩⟩ ⟨⟨q, 0⟩, ⟨1 / (1 - q) * (o.sin (lam + p) - h), 0⟩⟩) :=
  deriv2_a_h_is_eps_partial o sgn G m M a lam k h ix iy p q hq hl hL ha hm hS1 hS hS3

theorem c16_deriv2_a_k_is_eps_partial (o : DOps K) (sgn : K → K) (G m M a lam k h ix iy p q : K)
    (hq : 1 - q ≠ 0) (hl : 2 - (1 - o.sqrt (1 - h * h - k * k)) ≠ 0) (hL : o.sqrt (1 - h * h - k * k) ≠ 0) (ha : a ≠ 0) (hm : m + M ≠ 0) (hS1 : o.sqrt (G * (m + M) / a) ≠ 0) (hS : o.sqrt (G * (m + M) / a) * o.sqrt (G * (m + M) / a) = G * (m + M) / a) (hS3 : o.sqrt (G * (m + M) / (a * a * a)) = o.sqrt (G * (m + M) / a) / a) :
    d_a_k o G m M a lam k h ix iy p q
      = epsP72 (palMap (lift2 o sgn) (c2 G) (c2 m) (c2 M) (v1 a) (c2 lam) (v2 k) (c2 h) (c2 ix) (c2 iy)
          ⟨⟨p, 0⟩, ⟨1 / (1 - q) * o.sin (lam + p), 0⟩⟩ ⟨⟨q, 0⟩, ⟨1 / (1 - q) * (o.cos (lam + p) - k), 0⟩⟩) :=
  deriv2_a_k_is_eps_partial o sgn G m M a lam k h ix iy p q hq hl hL ha hm hS1 hS hS3

theorem c16_deriv2_a_ix_is_eps (o : DOps K) (sgn : K → K) (G m M a lam k h ix iy p q : K)
    (hq : 1 - q ≠ 0) (hl : 2 - (1 - o.sqrt (1 - h * h - k * k)) ≠ 0) (hsgn : sgn (4 - ix * ix - iy * iy) = 1) (hiz : o.sqrt (o.fabs (4 - ix * ix - iy * iy)) ≠ 0) (ha : a ≠ 0) (hm : m + M ≠ 0) (hS1 : o.sqrt (G * (m + M) / a) ≠ 0) (hS : o.sqrt (G * (m + M) / a) * o.sqrt (G * (m + M) / a) = G * (m + M) / a) (hS3 : o.sqrt (G * (m + M) / (a * a * a)) = o.sqrt (G * (m + M) / a) / a) :
    d_a_ix o G m M a lam k h ix iy p q
      = epsP72 (palMap (lift2 o sgn) (c2 G) (c2 m) (c2 M) (v1 a) (c2 lam) (c2 k) (c2 h) (v2 ix) (c2 iy)
          ⟨⟨p, 0⟩, ⟨0, 0⟩⟩ ⟨⟨q, 0⟩, ⟨0, 0⟩⟩) :=
  deriv2_a_ix_is_eps o sgn G m M a lam k h ix iy p q hq hl hsgn hiz ha hm hS1 hS hS3

theorem c16_deriv2_a_iy_is_eps (o : DOps K) (sgn : K → K) (G m M a lam k h ix iy p q : K)
    (hq : 1 - q ≠ 0) (hl : 2 - (1 - o.sqrt (1 - h * h - k * k)) ≠ 0) (hsgn : sgn (4 - ix * ix - iy * iy) = 1) (hiz : o.sqrt (o.fabs (4 - ix * ix - iy * iy)) ≠ 0) (ha : a ≠ 0) (hm : m + M ≠ 0) (hS1 : o.sqrt (G * (m + M) / a) ≠ 0) (hS : o.sqrt (G * (m + M) / a) * o.sqrt (G * (m + M) / a) = G * (m + M) / a) (hS3 : o.sqrt (G * (m + M) / (a * a * a)) = o.sqrt (G * (m + M) / a) / a) :
    d_a_iy o G m M a lam k h ix iy p q
      = epsP72 (palMap (lift2 o sgn) (c2 G) (c2 m) (c2 M) (v1 a) (c2 lam) (c2 k) (c2 h) (c2 ix) (v2 iy)
          ⟨⟨p, 0⟩, ⟨0, 0⟩⟩ ⟨⟨q, 0⟩, ⟨0, 0⟩⟩) :=
  deriv2_a_iy_is_eps o sgn G m M a lam k h ix iy p q hq hl hsgn hiz ha hm hS1 hS hS3

theorem c16_deriv2_lambda_lambda_is_eps_partial (o : DOps K) (sgn : K → K) (G m M a lam k h ix iy p q : K)
    (hq : 1 - q ≠ 0) (hl : 2 - (1 - o.sqrt (1 - h * h - k * k)) ≠ 0) :
    d_lambda_lambda o G m M a lam k h ix iy p q
      = epsP72 (palMap (lift2 o sgn) (c2 G) (c2 m) (c2 M) (c2 a) (v12 lam) (c2 k) (c2 h) (c2 ix) (c2 iy)
          ⟨⟨p, q / (1 - q)⟩, ⟨q / (1 - q), (pq2_lambda_lambda o G m M a lam k h ix iy p q).1⟩⟩ ⟨⟨q, -p / (1 - q)⟩, ⟨-p / (1 - q), (pq2_lambda_lambda o G m M a lam k h ix iy p q).2⟩⟩) :=
  deriv2_lambda_lambda_is_eps_partial o sgn G m M a lam k h ix iy p q hq hl

theorem c16_deriv2_lambda_ix_is_eps_partial (o : DOps K) (sgn : K → K) (G m M a lam k h ix iy p q : K)
    (hq : 1 - q ≠ 0) (hl : 2 - (1 - o.sqrt (1 - h * h - k * k)) ≠ 0) (hsgn : sgn (4 - ix * ix - iy * iy) = 1) (hiz : o.sqrt (o.fabs (4 - ix * ix - iy * iy)) ≠ 0) :
    d_lambda_ix o G m M a lam k h ix iy p q
      = epsP72 (palMap (lift2 o sgn) (c2 G) (c2 m) (c2 M) (c2 a) (v1 lam) (c2 k) (c2 h) (v2 ix) (c2 iy)
          ⟨⟨p, q / (1 - q)⟩, ⟨0, 0⟩⟩ ⟨⟨q, -p / (1 - q)⟩, ⟨0, 0⟩⟩) :=
  deriv2_lambda_ix_is_eps_partial o sgn G m M a lam k h ix iy p q hq hl hsgn hiz

theorem c16_deriv2_lambda_iy_is_eps_partial (o : DOps K) (sgn : K → K) (G m M a lam k h ix iy p q : K)
    (hq : 1 - q ≠ 0) (hl : 2 - (1 - o.sqrt (1 - h * h - k * k)) ≠ 0) (hsgn : sgn (4 - ix * ix - iy * iy) = 1) (hiz : o.sqrt (o.fabs (4 - ix * ix - iy * iy)) ≠ 0) :
    d_lambda_iy o G m M a lam k h ix iy p q
      = epsP72 (palMap (lift2 o sgn) (c2 G) (c2 m) (c2 M) (c2 a) (v1 lam) (c2 k) (c2 h) (c2 ix) (v2 iy)
          ⟨⟨p, q / (1 - q)⟩, ⟨0, 0⟩⟩ ⟨⟨q, -p / (1 - q)⟩, ⟨0, 0⟩⟩) :=
  deriv2_lambda_iy_is_eps_partial o sgn G m M a lam k h ix iy p q hq hl hsgn hiz

theorem c16_deriv2_h_ix_is_eps_partial (o : DOps K) (sgn : K → K) (G m M a lam k h ix iy p q : K)
    (hq : 1 - q ≠ 0) (hl : 2 - (1 - o.sqrt (1 - h * h - k * k)) ≠ 0) (hL : o.sqrt (1 - h * h - k * k) ≠ 0) (hsgn : sgn (4 - ix * ix - iy * iy) = 1) (hiz : o.sqrt (o.fabs (4 - ix * ix - iy * iy)) ≠ 0) :
    d_h_ix o G m M a lam k h ix iy p q
      = epsP72 (palMap (lift2 o sgn) (c2 G) (c2 m) (c2 M) (c2 a) (c2 lam) (c2 k) (v1 h) (v2 ix) (c2 iy)
          ⟨⟨p, 1 / (1 - q) * (-o.cos (lam + p))⟩, ⟨0, 0⟩⟩ ⟨⟨q, 1 / (1 - q) * (o.sin (lam + p) - h)⟩, ⟨0, 0⟩⟩) :=
  deriv2_h_ix_is_eps_partial o sgn G m M a lam k h ix iy p q hq hl hL hsgn hiz

theorem c16_deriv2_h_iy_is_eps_partial (o : DOps K) (sgn : K → K) (G m M a lam k h ix iy p q : K)
    (hq : 1 - q ≠ 0) (hl : 2 - (1 - o.sqrt (1 - h * h - k * k)) ≠ 0) (hL : o.sqrt (1 - h * h - k * k) ≠ 0) (hsgn : sgn (4 - ix * ix - iy * iy) = 1) (hiz : o.sqrt (o.fabs (4 - ix * ix - iy * iy)) ≠ 0) :
    d_h_iy o G m M a lam k h ix iy p q
      = epsP72 (palMap (lift2 o sgn) (c2 G) (c2 m) (c2 M) (c2 a) (c2 lam) (c2 k) (v1 h) (c2 ix) (v2 iy)
          ⟨⟨p, 1 / (1 - q) * (-o.cos (lam + p))⟩, ⟨0, 0⟩⟩ ⟨⟨q, 1 / (1 - q) * (o.sin (lam + p) - h)⟩, ⟨0, 0⟩⟩) :=
  deriv2_h_iy_is_eps_partial o sgn G m M a lam k h ix iy p q hq hl hL hsgn hiz

theorem c16_deriv2_k_ix_is_eps_partial (o : DOps K) (sgn : K → K) (G m M a lam k h ix iy p q : K)
    (hq : 1 - q ≠ 0) (hl : 2 - (1 - o.sqrt (1 - h * h - k * k)) ≠ 0) (hL : o.sqrt (1 - h * h - k * k) ≠ 0) (hsgn : sgn (4 - ix * ix - iy * iy) = 1) (hiz : o.sqrt (o.fabs (4 - ix * ix - iy * iy)) ≠ 0) :
    d_k_ix o G m M a lam k h ix iy p q
      = epsP72 (palMap (lift2 o sgn) (c2 G) (c2 m) (c2 M) (c2 a) (c2 lam) (v1 k) (c2 h) (v2 ix) (c2 iy)
          ⟨⟨p, 1 / (1 - q) * o.sin (lam + p)⟩, ⟨0, 0⟩⟩ ⟨⟨q, 1 / (1 - q) * (o.cos (lam + p) - k)⟩, ⟨0, 0⟩⟩) :=
  deriv2_k_ix_is_eps_partial o sgn G m M a lam k h ix iy p q hq hl hL hsgn hiz

theorem c16_deriv2_k_iy_is_eps_partial (o : DOps K) (sgn : K → K) (G m M a lam k h ix iy p q : K)
    (hq : 1 - q ≠ 0) (hl : 2 - (1 - o.sqrt (1 - h * h - k * k)) ≠ 0) (hL : o.sqrt (1 - h * h - k * k) ≠ 0) (hsgn : sgn (4 - ix * ix - iy * iy) = 1) (hiz : o.sqrt (o.fabs (4 - ix * ix - iy * iy)) ≠ 0) :
    d_k_iy o G m M a lam k h ix iy p q
      = epsP72 (palMap (lift2 o sgn) (c2 G) (c2 m) (c2 M) (c2 a) (c2 lam) (v1 k) (c2 h) (c2 ix) (v2 iy)
          ⟨⟨p, 1 / (1 - q) * o.sin (lam + p)⟩, ⟨0, 0⟩⟩ ⟨⟨q, 1 / (1 - q) * (o.cos (lam + p) - k)⟩, ⟨0, 0⟩⟩) :=
  deriv2_k_iy_is_eps_partial o sgn G m M a lam k h ix iy p q hq hl hL hsgn hiz

theorem c16_deriv2_ix_ix_is_eps (o : DOps K) (sgn : K → K) (G m M a lam k h ix iy p q : K)
    (hq : 1 - q ≠ 0) (hl : 2 - (1 - o.sqrt (1 - h * h - k * k)) ≠ 0) (hsgn : sgn (4 - ix * ix - iy * iy) = 1) (hiz : o.sqrt (o.fabs (4 - ix * ix - iy * iy)) ≠ 0) (habs : o.fabs (4 - ix * ix - iy * iy) = 4 - ix * ix - iy * iy) (hz2 : o.sqrt (4 - ix * ix - iy * iy) * o.sqrt (4 - ix * ix - iy * iy) = 4 - ix * ix - iy * iy) :
    d_ix_ix o G m M a lam k h ix iy p q
      = epsP72 (palMap (lift2 o sgn) (c2 G) (c2 m) (c2 M) (c2 a) (c2 lam) (c2 k) (c2 h) (v12 ix) (c2 iy)
          ⟨⟨p, 0⟩, ⟨0, 0⟩⟩ ⟨⟨q, 0⟩, ⟨0, 0⟩⟩) :=
  deriv2_ix_ix_is_eps o sgn G m M a lam k h ix iy p q hq hl hsgn hiz habs hz2

theorem c16_deriv2_ix_iy_is_eps (o : DOps K) (sgn : K → K) (G m M a lam k h ix iy p q : K)
    (hq : 1 - q ≠ 0) (hl : 2 - (1 - o.sqrt (1 - h * h - k * k)) ≠ 0) (hsgn : sgn (4 - ix * ix - iy * iy) = 1) (hiz : o.sqrt (o.fabs (4 - ix * ix - iy * iy)) ≠ 0) (habs : o.fabs (4 - ix * ix - iy * iy) = 4 - ix * ix - iy * iy) (hz2 : o.sqrt (4 - ix * ix - iy * iy) * o.sqrt (4 - ix * ix - iy * iy) = 4 - ix * ix - iy * iy) :
    d_ix_iy o G m M a lam k h ix iy p q
      = epsP72 (palMap (lift2 o sgn) (c2 G) (c2 m) (c2 M) (c2 a) (c2 lam) (c2 k) (c2 h) (v1 ix) (v2 iy)
          ⟨⟨p, 0⟩, ⟨0, 0⟩⟩ ⟨⟨q, 0⟩, ⟨0, 0⟩⟩) :=
  deriv2_ix_iy_is_eps o sgn G m M a lam k h ix iy p q hq hl hsgn hiz habs hz2

theorem c16_deriv2_iy_iy_is_eps (o : DOps K) (sgn : K → K) (G m M a lam k h ix iy p q : K)
    (hq : 1 - q ≠ 0) (hl : 2 - (1 - o.sqrt (1 - h * h - k * k)) ≠ 0) (hsgn : sgn (4 - ix * ix - iy * iy) = 1) (hiz : o.sqrt (o.fabs (4 - ix * ix - iy * iy)) ≠ 0) (habs : o.fabs (4 - ix * ix - iy * iy) = 4 - ix * ix - iy * iy) (hz2 : o.sqrt (4 - ix * ix - iy * iy) * o.sqrt (4 - ix * ix - iy * iy) = 4 - ix * ix - iy * iy) :
    d_iy_iy o G m M a lam k h ix iy p q
      = epsP72 (palMap (lift2 o sgn) (c2 G) (c2 m) (c2 M) (c2 a) (c2 lam) (c2 k) (c2 h) (c2 ix) (v12 iy)
          ⟨⟨p, 0⟩, ⟨0, 0⟩⟩ ⟨⟨q, 0⟩, ⟨0, 0⟩⟩) :=
  deriv2_iy_iy_is_eps o sgn G m M a lam k h ix iy p q hq hl hsgn hiz habs hz2

theorem c16_deriv2_m_e_is_eps (o : DOps K) (sgn : K → K) (G m M a e inc Om om f : K)
    (hr : 1 + e * o.cos f ≠ 0) (he : 1 - e * e ≠ 0) (ha : a ≠ 0) (hm : m + M ≠ 0) (hV0 : o.sqrt (G * (m + M) / a / (1 - e * e)) ≠ 0) (hV2 : o.sqrt (G * (m + M) / a / (1 - e * e)) * o.sqrt (G * (m + M) / a / (1 - e * e)) = G * (m + M) / a / (1 - e * e)) (hE : o.sqrt (1 - e * e) * o.sqrt (1 - e * e) = 1 - e * e) (hA : o.sqrt (G * (m + M) / a) = o.sqrt (G * (m + M) / a / (1 - e * e)) * o.sqrt (1 - e * e)) :
    d_m_e o G m M a e inc Om om f
      = epsP72 (orbMap (lift2 o sgn) (c2 G) (v1 m) (c2 M) (c2 a) (v2 e) (c2 inc) (c2 Om) (c2 om) (c2 f)) :=
  deriv2_m_e_is_eps o sgn G m M a e inc Om om f hr he ha hm hV0 hV2 hE hA

theorem c16_deriv2_m_inc_is_eps (o : DOps K) (sgn : K → K) (G m M a e inc Om om f : K)
    (hr : 1 + e * o.cos f ≠ 0) (he : 1 - e * e ≠ 0) (ha : a ≠ 0) (hm : m + M ≠ 0) (hV0 : o.sqrt (G * (m + M) / a / (1 - e * e)) ≠ 0) (hV2 : o.sqrt (G * (m + M) / a / (1 - e * e)) * o.sqrt (G * (m + M) / a / (1 - e * e)) = G * (m + M) / a / (1 - e * e)) (hTm : o.sqrt (m + M) ≠ 0) (hZ : o.sqrt (G / a / (1 - e * e)) = o.sqrt (G * (m + M) / a / (1 - e * e)) / (m + M) * o.sqrt (m + M)) :
    d_m_inc o G m M a e inc Om om f
      = epsP72 (orbMap (lift2 o sgn) (c2 G) (v1 m) (c2 M) (c2 a) (c2 e) (v2 inc) (c2 Om) (c2 om) (c2 f)) :=
  deriv2_m_inc_is_eps o sgn G m M a e inc Om om f hr he ha hm hV0 hV2 hTm hZ

theorem c16_deriv2_m_Omega_is_eps (o : DOps K) (sgn : K → K) (G m M a e inc Om om f : K)
    (hr : 1 + e * o.cos f ≠ 0) (he : 1 - e * e ≠ 0) (ha : a ≠ 0) (hm : m + M ≠ 0) (hV0 : o.sqrt (G * (m + M) / a / (1 - e * e)) ≠ 0) (hV2 : o.sqrt (G * (m + M) / a / (1 - e * e)) * o.sqrt (G * (m + M) / a / (1 - e * e)) = G * (m + M) / a / (1 - e * e)) (hTm : o.sqrt (m + M) ≠ 0) (hZ : o.sqrt (G / a / (1 - e * e)) = o.sqrt (G * (m + M) / a / (1 - e * e)) / (m + M) * o.sqrt (m + M)) :
    d_m_Omega o G m M a e inc Om om f
      = epsP72 (orbMap (lift2 o sgn) (c2 G) (v1 m) (c2 M) (c2 a) (c2 e) (c2 inc) (v2 Om) (c2 om) (c2 f)) :=
  deriv2_m_Omega_is_eps o sgn G m M a e inc Om om f hr he ha hm hV0 hV2 hTm hZ

theorem c16_deriv2_m_omega_is_eps (o : DOps K) (sgn : K → K) (G m M a e inc Om om f : K)
    (hr : 1 + e * o.cos f ≠ 0) (he : 1 - e * e ≠ 0) (ha : a ≠ 0) (hm : m + M ≠ 0) (hV0 : o.sqrt (G * (m + M) / a / (1 - e * e)) ≠ 0) (hV2 : o.sqrt (G * (m + M) / a / (1 - e * e)) * o.sqrt (G * (m + M) / a / (1 - e * e)) = G * (m + M) / a / (1 - e * e)) (hTm : o.sqrt (m + M) ≠ 0) (hZ : o.sqrt (G / a / (1 - e * e)) = o.sqrt (G * (m + M) / a / (1 - e * e)) / (m + M) * o.sqrt (m + M)) :
    d_m_omega o G m M a e inc Om om f
      = epsP72 (orbMap (lift2 o sgn) (c2 G) (v1 m) (c2 M) (c2 a) (c2 e) (c2 inc) (c2 Om) (v2 om) (c2 f)) :=
  deriv2_m_omega_is_eps o sgn G m M a e inc Om om f hr he ha hm hV0 hV2 hTm hZ

theorem c16_deriv2_m_f_is_eps (o : DOps K) (sgn : K → K) (G m M a e inc Om om f : K)
    (hr : 1 + e * o.cos f ≠ 0) (he : 1 - e * e ≠ 0) (ha : a ≠ 0) (hm : m + M ≠ 0) (hV0 : o.sqrt (G * (m + M) / a / (1 - e * e)) ≠ 0) (hV2 : o.sqrt (G * (m + M) / a / (1 - e * e)) * o.sqrt (G * (m + M) / a / (1 - e * e)) = G * (m + M) / a / (1 - e * e)) (hTm : o.sqrt (m + M) ≠ 0) (hZ : o.sqrt (G / a / (1 - e * e)) = o.sqrt (G * (m + M) / a / (1 - e * e)) / (m + M) * o.sqrt (m + M)) :
    d_m_f o G m M a e inc Om om f
      = epsP72 (orbMap (lift2 o sgn) (c2 G) (v1 m) (c2 M) (c2 a) (c2 e) (c2 inc) (c2 Om) (c2 om) (v2 f)) :=
  deriv2_m_f_is_eps o sgn G m M a e inc Om om f hr he ha hm hV0 hV2 hTm hZ

theorem c16_deriv2_a_e_is_eps (o : DOps K) (sgn : K → K) (G m M a e inc Om om f : K)
    (hr : 1 + e * o.cos f ≠ 0) (he : 1 - e * e ≠ 0) (ha : a ≠ 0) (hm : m + M ≠ 0) (hV0 : o.sqrt (G * (m + M) / a / (1 - e * e)) ≠ 0) (hV2 : o.sqrt (G * (m + M) / a / (1 - e * e)) * o.sqrt (G * (m + M) / a / (1 - e * e)) = G * (m + M) / a / (1 - e * e)) (hE : o.sqrt (1 - e * e) * o.sqrt (1 - e * e) = 1 - e * e) (hA : o.sqrt (G * (m + M) / a) = o.sqrt (G * (m + M) / a / (1 - e * e)) * o.sqrt (1 - e * e)) :
    d_a_e o G m M a e inc Om om f
      = epsP72 (orbMap (lift2 o sgn) (c2 G) (c2 m) (c2 M) (v1 a) (v2 e) (c2 inc) (c2 Om) (c2 om) (c2 f)) :=
  deriv2_a_e_is_eps o sgn G m M a e inc Om om f hr he ha hm hV0 hV2 hE hA

theorem c16_deriv2_a_inc_is_eps (o : DOps K) (sgn : K → K) (G m M a e inc Om om f : K)
    (hr : 1 + e * o.cos f ≠ 0) (he : 1 - e * e ≠ 0) (ha : a ≠ 0) (hm : m + M ≠ 0) (hV0 : o.sqrt (G * (m + M) / a / (1 - e * e)) ≠ 0) (hV2 : o.sqrt (G * (m + M) / a / (1 - e * e)) * o.sqrt (G * (m + M) / a / (1 - e * e)) = G * (m + M) / a / (1 - e * e)) (hA3 : o.sqrt (a * a * a) ≠ 0) (hY : o.sqrt (G * (m + M) / (1 - e * e)) = o.sqrt (G * (m + M) / a / (1 - e * e)) / a * o.sqrt (a * a * a)) :
    d_a_inc o G m M a e inc Om om f
      = epsP72 (orbMap (lift2 o sgn) (c2 G) (c2 m) (c2 M) (v1 a) (c2 e) (v2 inc) (c2 Om) (c2 om) (c2 f)) :=
  deriv2_a_inc_is_eps o sgn G m M a e inc Om om f hr he ha hm hV0 hV2 hA3 hY

theorem c16_deriv2_a_Omega_is_eps (o : DOps K) (sgn : K → K) (G m M a e inc Om om f : K)
    (hr : 1 + e * o.cos f ≠ 0) (he : 1 - e * e ≠ 0) (ha : a ≠ 0) (hm : m + M ≠ 0) (hV0 : o.sqrt (G * (m + M) / a / (1 - e * e)) ≠ 0) (hV2 : o.sqrt (G * (m + M) / a / (1 - e * e)) * o.sqrt (G * (m + M) / a / (1 - e * e)) = G * (m + M) / a / (1 - e * e)) (hA3 : o.sqrt (a * a * a) ≠ 0) (hY : o.sqrt (G * (m + M) / (1 - e * e)) = o.sqrt (G * (m + M) / a / (1 - e * e)) / a * o.sqrt (a * a * a)) :
    d_a_Omega o G m M a e inc Om om f
      = epsP72 (orbMap (lift2 o sgn) (c2 G) (c2 m) (c2 M) (v1 a) (c2 e) (c2 inc) (v2 Om) (c2 om) (c2 f)) :=
  deriv2_a_Omega_is_eps o sgn G m M a e inc Om om f hr he ha hm hV0 hV2 hA3 hY

theorem c16_deriv2_a_omega_is_eps (o : DOps K) (sgn : K → K) (G m M a e inc Om om f : K)
    (hr : 1 + e * o.cos f ≠ 0) (he : 1 - e * e ≠ 0) (ha : a ≠ 0) (hm : m + M ≠ 0) (hV0 : o.sqrt (G * (m + M) / a / (1 - e * e)) ≠ 0) (hV2 : o.sqrt (G * (m + M) / a / (1 - e * e)) * o.sqrt (G * (m + M) / a / (1 - e * e)) = G * (m + M) / a / (1 - e * e)) (hA3 : o.sqrt (a * a * a) ≠ 0) (hY : o.sqrt (G * (m + M) / (1 - e * e)) = o.sqrt (G * (m + M) / a / (1 - e * e)) / a * o.sqrt (a * a * a)) :
    d_a_omega o G m M a e inc Om om f
      = epsP72 (orbMap (lift2 o sgn) (c2 G) (c2 m) (c2 M) (v1 a) (c2 e) (c2 inc) (c2 Om) (v2 om) (c2 f)) :=
  deriv2_a_omega_is_eps o sgn G m M a e inc Om om f hr he ha hm hV0 hV2 hA3 hY

theorem c16_deriv2_a_f_is_eps (o : DOps K) (sgn : K → K) (G m M a e inc Om om f : K)
    (hr : 1 + e * o.cos f ≠ 0) (he : 1 - e * e ≠ 0) (ha : a ≠ 0) (hm : m + M ≠ 0) (hV0 : o.sqrt (G * (m + M) / a / (1 - e * e)) ≠ 0) (hV2 : o.sqrt (G * (m + M) / a / (1 - e * e)) * o.sqrt (G * (m + M) / a / (1 - e * e)) = G * (m + M) / a / (1 - e * e)) (hA3 : o.sqrt (a * a * a) ≠ 0) (hY : o.sqrt (G * (m + M) / (1 - e * e)) = o.sqrt (G * (m + M) / a / (1 - e * e)) / a * o.sqrt (a * a * a)) :
    d_a_f o G m M a e inc Om om f
      = epsP72 (orbMap (lift2 o sgn) (c2 G) (c2 m) (c2 M) (v1 a) (c2 e) (c2 inc) (c2 Om) (c2 om) (v2 f)) :=
  deriv2_a_f_is_eps o sgn G m M a e inc Om om f hr he ha hm hV0 hV2 hA3 hY

theorem c16_deriv2_e_inc_is_eps (o : DOps K) (sgn : K → K) (G m M a e inc Om om f : K)
    (hr : 1 + e * o.cos f ≠ 0) (he : 1 - e * e ≠ 0) (ha : a ≠ 0) (hm : m + M ≠ 0) (hV0 : o.sqrt (G * (m + M) / a / (1 - e * e)) ≠ 0) (hV2 : o.sqrt (G * (m + M) / a / (1 - e * e)) * o.sqrt (G * (m + M) / a / (1 - e * e)) = G * (m + M) / a / (1 - e * e)) (hE : o.sqrt (1 - e * e) * o.sqrt (1 - e * e) = 1 - e * e) (hA : o.sqrt (G * (m + M) / a) = o.sqrt (G * (m + M) / a / (1 - e * e)) * o.sqrt (1 - e * e)) :
    d_e_inc o G m M a e inc Om om f
      = epsP72 (orbMap (lift2 o sgn) (c2 G) (c2 m) (c2 M) (c2 a) (v1 e) (v2 inc) (c2 Om) (c2 om) (c2 f)) :=
  deriv2_e_inc_is_eps o sgn G m M a e inc Om om f hr he ha hm hV0 hV2 hE hA

theorem c16_deriv2_e_Omega_is_eps (o : DOps K) (sgn : K → K) (G m M a e inc Om om f : K)
    (hr : 1 + e * o.cos f ≠ 0) (he : 1 - e * e ≠ 0) (ha : a ≠ 0) (hm : m + M ≠ 0) (hV0 : o.sqrt (G * (m + M) / a / (1 - e * e)) ≠ 0) (hV2 : o.sqrt (G * (m + M) / a / (1 - e * e)) * o.sqrt (G * (m + M) / a / (1 - e * e)) = G * (m + M) / a / (1 - e * e)) (hE : o.sqrt (1 - e * e) * o.sqrt (1 - e * e) = 1 - e * e) (hA : o.sqrt (G * (m + M) / a) = o.sqrt (G * (m + M) / a / (1 - e * e)) * o.sqrt (1 - e * e)) :
    d_e_Omega o G m M a e inc Om om f
      = epsP72 (orbMap (lift2 o sgn) (c2 G) (c2 m) (c2 M) (c2 a) (v1 e) (c2 inc) (v2 Om) (c2 om) (c2 f)) :=
  deriv2_e_Omega_is_eps o sgn G m M a e inc Om om f hr he ha hm hV0 hV2 hE hA

theorem c16_deriv2_e_omega_is_eps (o : DOps K) (sgn : K → K) (G m M a e inc Om om f : K)
    (hr : 1 + e * o.cos f ≠ 0) (he : 1 - e * e ≠ 0) (ha : a ≠ 0) (hm : m + M ≠ 0) (hV0 : o.sqrt (G * (m + M) / a / (1 - e * e)) ≠ 0) (hV2 : o.sqrt (G * (m + M) / a / (1 - e * e)) * o.sqrt (G * (m + M) / a / (1 - e * e)) = G * (m + M) / a / (1 - e * e)) (hE : o.sqrt (1 - e * e) * o.sqrt (1 - e * e) = 1 - e * e) (hA : o.sqrt (G * (m + M) / a) = o.sqrt (G * (m + M) / a / (1 - e * e)) * o.sqrt (1 - e * e)) :
    d_e_omega o G m M a e inc Om om f
      = epsP72 (orbMap (lift2 o sgn) (c2 G) (c2 m) (c2 M) (c2 a) (v1 e) (c2 inc) (c2 Om) (v2 om) (c2 f)) :=
  deriv2_e_omega_is_eps o sgn G m M a e inc Om om f hr he ha hm hV0 hV2 hE hA

theorem c16_deriv2_e_f_is_eps (o : DOps K) (sgn : K → K) (G m M a e inc Om om f : K)
    (hr : 1 + e * o.cos f ≠ 0) (he : 1 - e * e ≠ 0) (ha : a ≠ 0) (hm : m + M ≠ 0) (hV0 : o.sqrt (G * (m + M) / a / (1 - e * e)) ≠ 0) (hV2 : o.sqrt (G * (m + M) / a / (1 - e * e)) * o.sqrt (G * (m + M) / a / (1 - e * e)) = G * (m + M) / a / (1 - e * e)) (hE : o.sqrt (1 - e * e) * o.sqrt (1 - e * e) = 1 - e * e) (hA : o.sqrt (G * (m + M) / a) = o.sqrt (G * (m + M) / a / (1 - e * e)) * o.sqrt (1 - e * e)) :
    d_e_f o G m M a e inc Om om f
      = epsP72 (orbMap (lift2 o sgn) (c2 G) (c2 m) (c2 M) (c2 a) (v1 e) (c2 inc) (c2 Om) (c2 om) (v2 f)) :=
  deriv2_e_f_is_eps o sgn G m M a e inc Om om f hr he ha hm hV0 hV2 hE hA

theorem c16_deriv2_inc_inc_is_eps (o : DOps K) (sgn : K → K) (G m M a e inc Om om f : K)
    (hr : 1 + e * o.cos f ≠ 0) (he : 1 - e * e ≠ 0) (ha : a ≠ 0) (hm : m + M ≠ 0) (hV0 : o.sqrt (G * (m + M) / a / (1 - e * e)) ≠ 0) (hV2 : o.sqrt (G * (m + M) / a / (1 - e * e)) * o.sqrt (G * (m + M) / a / (1 - e * e)) = G * (m + M) / a / (1 - e * e)) :
    d_inc_inc o G m M a e inc Om om f
      = epsP72 (orbMap (lift2 o sgn) (c2 G) (c2 m) (c2 M) (c2 a) (c2 e) (v12 inc) (c2 Om) (c2 om) (c2 f)) :=
  deriv2_inc_inc_is_eps o sgn G m M a e inc Om om f hr he ha hm hV0 hV2

theorem c16_deriv2_inc_Omega_is_eps (o : DOps K) (sgn : K → K) (G m M a e inc Om om f : K)
    (hr : 1 + e * o.cos f ≠ 0) (he : 1 - e * e ≠ 0) (ha : a ≠ 0) (hm : m + M ≠ 0) (hV0 : o.sqrt (G * (m + M) / a / (1 - e * e)) ≠ 0) (hV2 : o.sqrt (G * (m + M) / a / (1 - e * e)) * o.sqrt (G * (m + M) / a / (1 - e * e)) = G * (m + M) / a / (1 - e * e)) :
    d_inc_Omega o G m M a e inc Om om f
      = epsP72 (orbMap (lift2 o sgn) (c2 G) (c2 m) (c2 M) (c2 a) (c2 e) (v1 inc) (v2 Om) (c2 om) (c2 f)) :=
  deriv2_inc_Omega_is_eps o sgn G m M a e inc Om om f hr he ha hm hV0 hV2

theorem c16_deriv2_inc_omega_is_eps (o : DOps K) (sgn : K → K) (G m M a e inc Om om f : K)
    (hr : 1 + e * o.cos f ≠ 0) (he : 1 - e * e ≠ 0) (ha : a ≠ 0) (hm : m + M ≠ 0) (hV0 : o.sqrt (G * (m + M) / a / (1 - e * e)) ≠ 0) (hV2 : o.sqrt (G * (m + M) / a / (1 - e * e)) * o.sqrt (G * (m + M) / a / (1 - e * e)) = G * (m + M) / a / (1 - e * e)) :
    d_inc_omega o G m M a e inc Om om f
      = epsP72 (orbMap (lift2 o sgn) (c2 G) (c2 m) (c2 M) (c2 a) (c2 e) (v1 inc) (c2 Om) (v2 om) (c2 f)) :=
  deriv2_inc_omega_is_eps o sgn G m M a e inc Om om f hr he ha hm hV0 hV2

theorem c16_deriv2_inc_f_is_eps (o : DOps K) (sgn : K → K) (G m M a e inc Om om f : K)
    (hr : 1 + e * o.cos f ≠ 0) (he : 1 - e * e ≠ 0) (ha : a ≠ 0) (hm : m + M ≠ 0) (hV0 : o.sqrt (G * (m + M) / a / (1 - e * e)) ≠ 0) (hV2 : o.sqrt (G * (m + M) / a / (1 - e * e)) * o.sqrt (G * (m + M) / a / (1 - e * e)) = G * (m + M) / a / (1 - e * e)) :
    d_inc_f o G m M a e inc Om om f
      = epsP72 (orbMap (lift2 o sgn) (c2 G) (c2 m) (c2 M) (c2 a) (c2 e) (v1 inc) (c2 Om) (c2 om) (v2 f)) :=
  deriv2_inc_f_is_eps o sgn G m M a e inc Om om f hr he ha hm hV0 hV2

theorem c16_deriv2_Omega_Omega_is_eps (o : DOps K) (sgn : K → K) (G m M a e inc Om om f : K)
    (hr : 1 + e * o.cos f ≠ 0) (he : 1 - e * e ≠ 0) (ha : a ≠ 0) (hm : m + M ≠ 0) (hV0 : o.sqrt (G * (m + M) / a / (1 - e * e)) ≠ 0) (hV2 : o.sqrt (G * (m + M) / a / (1 - e * e)) * o.sqrt (G * (m + M) / a / (1 - e * e)) = G * (m + M) / a / (1 - e * e)) :
    d_Omega_Omega o G m M a e inc Om om f
      = epsP72 (orbMap (lift2 o sgn) (c2 G) (c2 m) (c2 M) (c2 a) (c2 e) (c2 inc) (v12 Om) (c2 om) (c2 f)) :=
  deriv2_Omega_Omega_is_eps o sgn G m M a e inc Om om f hr he ha hm hV0 hV2

theorem c16_deriv2_omega_Omega_is_eps (o : DOps K) (sgn : K → K) (G m M a e inc Om om f : K)
    (hr : 1 + e * o.cos f ≠ 0) (he : 1 - e * e ≠ 0) (ha : a ≠ 0) (hm : m + M ≠ 0) (hV0 : o.sqrt (G * (m + M) / a / (1 - e * e)) ≠ 0) (hV2 : o.sqrt (G * (m + M) / a / (1 - e * e)) * o.sqrt (G * (m + M) / a / (1 - e * e)) = G * (m + M) / a / (1 - e * e)) :
    d_omega_Omega o G m M a e inc Om om f
      = epsP72 (orbMap (lift2 o sgn) (c2 G) (c2 m) (c2 M) (c2 a) (c2 e) (c2 inc) (v2 Om) (v1 om) (c2 f)) :=
  deriv2_omega_Omega_is_eps o sgn G m M a e inc Om om f hr he ha hm hV0 hV2

theorem c16_deriv2_Omega_f_is_eps (o : DOps K) (sgn : K → K) (G m M a e inc Om om f : K)
    (hr : 1 + e * o.cos f ≠ 0) (he : 1 - e * e ≠ 0) (ha : a ≠ 0) (hm : m + M ≠ 0) (hV0 : o.sqrt (G * (m + M) / a / (1 - e * e)) ≠ 0) (hV2 : o.sqrt (G * (m + M) / a / (1 - e * e)) * o.sqrt (G * (m + M) / a / (1 - e * e)) = G * (m + M) / a / (1 - e * e)) :
    d_Omega_f o G m M a e inc Om om f
      = epsP72 (orbMap (lift2 o sgn) (c2 G) (c2 m) (c2 M) (c2 a) (c2 e) (c2 inc) (v1 Om) (c2 om) (v2 f)) :=
  deriv2_Omega_f_is_eps o sgn G m M a e inc Om om f hr he ha hm hV0 hV2

theorem c16_deriv2_omega_omega_is_eps (o : DOps K) (sgn : K → K) (G m M a e inc Om om f : K)
    (hr : 1 + e * o.cos f ≠ 0) (he : 1 - e * e ≠ 0) (ha : a ≠ 0) (hm : m + M ≠ 0) (hV0 : o.sqrt (G * (m + M) / a / (1 - e * e)) ≠ 0) (hV2 : o.sqrt (G * (m + M) / a / (1 - e * e)) * o.sqrt (G * (m + M) / a / (1 - e * e)) = G * (m + M) / a / (1 - e * e)) :
    d_omega_omega o G m M a e inc Om om f
      = epsP72 (orbMap (lift2 o sgn) (c2 G) (c2 m) (c2 M) (c2 a) (c2 e) (c2 inc) (c2 Om) (v12 om) (c2 f)) :=
  deriv2_omega_omega_is_eps o sgn G m M a e inc Om om f hr he ha hm hV0 hV2

theorem c16_deriv2_omega_f_is_eps (o : DOps K) (sgn : K → K) (G m M a e inc Om om f : K)
    (hr : 1 + e * o.cos f ≠ 0) (he : 1 - e * e ≠ 0) (ha : a ≠ 0) (hm : m + M ≠ 0) (hV0 : o.sqrt (G * (m + M) / a / (1 - e * e)) ≠ 0) (hV2 : o.sqrt (G * (m + M) / a / (1 - e * e)) * o.sqrt (G * (m + M) / a / (1 - e * e)) = G * (m + M) / a / (1 - e * e)) :
    d_omega_f o G m M a e inc Om om f
      = epsP72 (orbMap (lift2 o sgn) (c2 G) (c2 m) (c2 M) (c2 a) (c2 e) (c2 inc) (c2 Om) (v1 om) (v2 f)) :=
  deriv2_omega_f_is_eps o sgn G m M a e inc Om om f hr he ha hm hV0 hV2

theorem c16_deriv2_f_f_is_eps (o : DOps K) (sgn : K → K) (G m M a e inc Om om f : K)
    (hr : 1 + e * o.cos f ≠ 0) (he : 1 - e * e ≠ 0) (ha : a ≠ 0) (hm : m + M ≠ 0) (hV0 : o.sqrt (G * (m + M) / a / (1 - e * e)) ≠ 0) (hV2 : o.sqrt (G * (m + M) / a / (1 - e * e)) * o.sqrt (G * (m + M) / a / (1 - e * e)) = G * (m + M) / a / (1 - e * e)) :
    d_f_f o G m M a e inc Om om f
      = epsP72 (orbMap (lift2 o sgn) (c2 G) (c2 m) (c2 M) (c2 a) (c2 e) (c2 inc) (c2 Om) (c2 om) (v12 f)) :=
  deriv2_f_f_is_eps o sgn G m M a e inc Om om f hr he ha hm hV0 hV2

end RV.Var

/-! ### `vary()` name dispatch (rebound/particle.py, rebound/variation.py) — finite tables, `decide`

`RV.Gen.C16Dispatch` is regenerated from particle.py / derivatives.c on every run. -/
namespace RV.Var
open RV.Gen.C16Dispatch

/-- the source has the shape the model assumes: it swaps by list position and builds the
    symbol as prefix + name (+ "_" + name2) -/
theorem c16_dispatch_source_shape : swapsPairs = true ∧ namePatternOk = true := by decide

/-- every documented parameter name (both docstrings) is accepted and maps to the C function of
    exactly that name, which exists -/
theorem c16_dispatch_first_order_documented :
    ∀ d ∈ documented, ∀ v ∈ d, dispatch1 variationTypes shortcuts v = some v ∧ cFunctions.contains v = true := by
  decide +kernel

/-- the table and the documentation list the same names -/
theorem c16_dispatch_documented_eq_table : ∀ d ∈ documented, d = variationTypes := by decide +kernel

/-- pairs: the dispatch is symmetric, and the resulting C function exists exactly when both
    names belong to one element family (classical or Pal; `m`, `a` are in both) -/
theorem c16_dispatch_second_order :
    ∀ v1 ∈ variationTypes, ∀ v2 ∈ variationTypes,
      dispatch2 variationTypes shortcuts v1 v2 = dispatch2 variationTypes shortcuts v2 v1 ∧
      ((dispatch2 variationTypes shortcuts v1 v2).any (fun n => cFunctions.contains n)
        = ((orbFamily.contains v1 && orbFamily.contains v2) || (palFamily.contains v1 && palFamily.contains v2))) := by
  decide +kernel

/-- the shortcuts reach documented names, and no C function is unreachable from the table -/
theorem c16_dispatch_shortcuts_and_coverage :
    (∀ p ∈ shortcuts, variationTypes.contains p.2 = true) ∧ shortcuts = shortcuts2 ∧
    (∀ n ∈ cFunctions, (variationTypes.any (fun v => dispatch1 variationTypes shortcuts v == some n)) ||
       (variationTypes.any (fun v1 => variationTypes.any (fun v2 => dispatch2 variationTypes shortcuts v1 v2 == some n))) = true) := by
  decide +kernel

end RV.Var

/-! ### MEGNO bookkeeping (reb_tools_megno_update) -/
namespace RV.Var
open RV
variable {K : Type} [Field K] [CharZero K]

/-- **The recurrences compute the defined sums and time averages.**  After any history of
    updates `(t_i, dY_i, dt_i)` starting from any state: the counter counts; `megno_Ys` is the
    sum of the `dY`; `megno_Yss` is the time integral Σ Y(t_i)·dt_i of Y(t_i) = Ys_i/t_i (so
    `reb_simulation_megno` = Yss/t is the time average <Y>); `megno_mean_t` is the arithmetic mean
    of the update times and `megno_mean_Y` the arithmetic mean of the reported <Y> values
    (both stated multiplied by n; any `isZero`, any times — division by t=0 follows field
    conventions exactly as in the model). -/
theorem c16_megno_running_sums (isZero : K → Bool) (l : List (K × K × K)) (s : Megno K) :
    let r := megnoRun isZero s l
    r.n = s.n + l.length ∧
    r.Ys = s.Ys + (l.map (fun u => u.2.1)).sum ∧
    r.Yss = s.Yss + yIntegral s.Ys l ∧
    r.meanT * (r.n : K) = s.meanT * (s.n : K) + (l.map (fun u => u.1)).sum ∧
    r.meanY * (r.n : K) = s.meanY * (s.n : K) + (megnoValues isZero s l).sum :=
  megnoRun_spec isZero l s

/-- `megno_var_t` (and `megno_cov_Yt`, same weight) is *not* the textbook sum of squares: each
    update adds Welford's increment `(t−m_old)(t−m_new)` times `((n−1)/n)²`.  The Lyapunov
    estimate cov/var is therefore a least-squares slope with weights tending to 1 — consistent,
    but not the unweighted fit the comment in the source suggests. -/
theorem c16_megno_var_increment (isZero : K → Bool) (s : Megno K) (t dY dt : K) :
    let s' := megnoUpdate isZero s t dY dt
    let n : K := ((s.n + 1 : ℕ) : K)
    s'.var - s.var = ((n - 1) / n) ^ 2 * ((t - s.meanT) * (t - s'.meanT)) ∧
    t - s'.meanT = (n - 1) / n * (t - s.meanT) :=
  megno_var_step isZero s t dY dt

end RV.Var

/-! ### rescale_var rescales the complete persistent state of IAS15 (tables regenerated from the source every run) -/
namespace RV.Var
open RV.Gen.C16Rescale

/-- The arrays divided by `scale` in the IAS15 branch of `reb_simulation_rescale_var` are exactly the
    per-particle arrays of `struct reb_integrator_ias15` that survive from one step attempt to the next
    (csx, csv and all seven components of b, e, br, er — br/er are read by `predict_next_step` when the
    *next* attempt is rejected), each once; the declared array size and the loop bound equal their number
    and the loop divides every entry of the rescaled particles' range.  The scratch arrays
    (at, x0, v0, a0, csa0, g, csb: first use in a step attempt is a plain assignment) need no rescaling. -/
theorem c16_rescale_ias15_state_complete :
    rescaled.Nodup ∧ declaredArraySize = rescaled.length ∧ loopBound = rescaled.length ∧ loopShapeOk = true ∧
    (∀ a ∈ persistentArrays ias15Members writtenFirst, a ∈ rescaled) ∧
    (∀ a ∈ rescaled, a ∈ persistentArrays ias15Members writtenFirst) ∧
    (persistentArrays ias15Members writtenFirst).length = 30 := by
  decide +kernel

end RV.Var

/-! ### the loop bodies translated from gravity.c (RV/Gen/C16VarLoops, regenerated every run)

`var1Body, var1TestBody, tpVar1Body, var2Body, tpVar2Body` are the bodies of the five inner loops of
`reb_calculate_acceleration_var` as the source has them today (with `softening2` in r²). -/
namespace RV.Var
open RV RV.Gen.C16VarLoops
variable {K : Type} [Field K] [CharZero K]

omit [CharZero K] in
/-- the source has the five loops the model assumes, in this order -/
theorem c16_varloops_heads : loopHeads = expectedHeads := by decide

omit [CharZero K] in
/-- at softening 0 the translated kernels are the hand-written kernels all other C16 theorems are about; the
    two first-order loops (active pairs, test particles × active) have the same body -/
theorem c16_translated_kernels_are_the_model (sq : K → K) (G : K) :
    (∀ pi pj di dj : GP K, var1Body sq G 0 pi pj di dj = var1Pair G sq (pi, di) (pj, dj)) ∧
    (∀ (s2 : K) (pi pj di dj : GP K), var1Body sq G s2 pi pj di dj = var1TestBody sq G s2 pi pj di dj) ∧
    (∀ pi pj d0 : GP K, tpVar1Body sq G 0 pi pj d0 = tpVar1Term G sq pi.x pi.y pi.z d0.x d0.y d0.z pj) ∧
    (∀ pi pj : RV2 K, var2Body sq G 0 pi pj = var2Pair G sq pi pj) ∧
    (∀ pi pj dd0 da0 db0 : GP K, tpVar2Body sq G 0 pi pj dd0 da0 db0
      = tpVar2Term G sq pi.x pi.y pi.z ⟨dd0.x, dd0.y, dd0.z⟩ ⟨da0.x, da0.y, da0.z⟩ ⟨db0.x, db0.y, db0.z⟩ pj) :=
  ⟨var1Body_eq_hand sq G, fun s2 => var1Body_eq_test sq G s2, tpVar1Body_eq_hand sq G, var2Body_eq_hand sq G, tpVar2Body_eq_hand sq G⟩

/-- **First order, any softening, ∀ N** (removes the hypothesis softening = 0 of `c16_var1_is_derivative`):
    the loop over the translated kernel is the ε-part of the softened BASIC force loop on duals. -/
theorem c16_var1_softened_is_derivative (G s2 : K) (sq : K → K) (ps : List (RV1 K))
    (h : ps.Pairwise (fun e l => PairOKs sq s2 l.1 e.1)) :
    (accBasicAll (Dual.const G) (Dual.const s2) (Dual.sqrtLift sq) (ps.map dz1)).map epsV
      = loopLF V3.add V3.zero (fun a b : RV1 K => var1Body sq G s2 a.1 b.1 a.2 b.2) [] [] ps := by
  have := loopLF_hom V3.add V3.add V3.zero V3.zero epsV dz1
    (forcePair (Dual.const G) (Dual.const s2) (Dual.sqrtLift sq)) (fun a b : RV1 K => var1Body sq G s2 a.1 b.1 a.2 b.2) epsV_add rfl
    (fun pi pj => PairOKs sq s2 pi.1 pj.1) (fun pi pj hp => var1_pair_soft G s2 sq pi pj hp) ps [] []
    (fun _ _ _ hq => by cases hq) h
  simpa [accBasicAll] using this

/-- **Second order, any softening, ∀ N**: the `i<j` loop over the translated kernel is the ε₁ε₂-part of the
    softened force loop on `Dual (Dual K)` -/
theorem c16_var2_softened_is_second_derivative (G s2 : K) (sq : K → K) (ps : List (RV2 K))
    (h : ps.Pairwise (fun e l => PairOKs sq s2 l.p e.p)) :
    (accBasicAll (Dual.const (Dual.const G)) (Dual.const (Dual.const s2)) (Dual2.sqrtLift2 sq) (ps.map dz2)).map epsV2
      = loopEF V3.add (var2Body sq G s2) ps (ps.map (fun _ => V3.zero)) := by
  have h1 := loopLF_hom V3.add V3.add V3.zero V3.zero epsV2 dz2
      (forcePair (Dual.const (Dual.const G)) (Dual.const (Dual.const s2)) (Dual2.sqrtLift2 sq)) (var2Body sq G s2)
      epsV2_add rfl (fun pi pj => PairOKs sq s2 pi.p pj.p) (fun pi pj hp => var2_pair_soft G s2 sq pi pj hp)
      ps [] [] (fun _ _ _ hq => by cases hq) h
  simp only [List.map_nil] at h1
  simp only [accBasicAll]
  rw [h1, loopLF_eq_g]
  exact loopLFg_eq_loopEF V3.add (var2Body sq G s2) ps _ (by simp)
    (List.pairwise_of_forall (fun a b => var2Body_symm G s2 sq a b))

end RV.Var
