import RV.Proofs.Var
/-
  C16 — variational particles are the derivatives of the trajectory.

  What is proved here (exact arithmetic, any field of characteristic 0, every particle
  number): the hand-derived variational force loops of `reb_calculate_acceleration_var`
  (RV/Model/Var.lean, the same definitions the driver drv_c16 runs on IEEE doubles
  against the compiled gravity.c) are the ε-parts of the ordinary force model run on
  dual numbers (RV/Model/Dual.lean).

  The square root enters through an arbitrary function `sq` that is only required to
  square back to the squared distance on the pairs that occur (`PairOK`), so the
  statements hold for `Real.sqrt` on ℝ and are satisfiable in ℚ (examples at the end).

  Hypotheses forced by the code and therefore explicit in the statements:
    * softening = 0   (the variational loops leave `softening²` out of r², the force
                       loop includes it; `c16_softening_needed` shows the statement is
                       false otherwise)
    * no two particles coincide (`sq r² ≠ 0`: the C code divides by it)
-/
set_option linter.unusedTactic false
set_option linter.unreachableTactic false
set_option linter.unnecessarySeqFocus false
set_option linter.unusedVariables false
set_option linter.unusedSimpArgs false
namespace RV.Var
open RV
variable {K : Type} [Field K] [CharZero K]

/-! ### the lifts of the non-rational functions are *the* lifts -/

/-- `sqrtLift` is the unique dual number with real part `sq s` whose square is `s + εδ` -/
theorem c16_sqrtLift_unique (sq : K → K) (s δ : K) (hs : sq s * sq s = s) (hne : sq s ≠ 0)
    (y : Dual K) :
    (y * y = (⟨s, δ⟩ : Dual K) ∧ y.re = sq s) ↔ y = Dual.sqrtLift sq ⟨s, δ⟩ := by
  obtain ⟨a, b⟩ := y
  have h2 : (2:K) ≠ 0 := by norm_num
  have hmul : (⟨a, b⟩ : Dual K) * ⟨a, b⟩ = ⟨a * a, a * b + b * a⟩ := rfl
  simp only [hmul, Dual.sqrtLift, Dual.mk.injEq, sc_hdiv, sc_hmul, sc_ofNat]
  push_cast
  constructor
  · rintro ⟨⟨h1, h3⟩, h4⟩
    subst h4
    refine ⟨rfl, ?_⟩
    field_simp
    rw [← h3]; ring
  · rintro ⟨h1, h3⟩
    subst h1
    refine ⟨⟨hs, ?_⟩, rfl⟩
    rw [h3]; field_simp; ring

/-- the `s ↦ s^(-3/2)` lift `(s+εδ)^(-3/2) = s^(-3/2) − (3/2) s^(-5/2) δ ε` is what dual
    arithmetic computes for `1/(s·√s)` — the expression `r3inv = 1./(r2*_r)` of gravity.c -/
theorem c16_rinv3Lift (sq : K → K) (R : Dual K) (hs : sq R.re * sq R.re = R.re) (hne : sq R.re ≠ 0) :
    (Scalar.one : Dual K) / (R * Dual.sqrtLift sq R)
      = Dual.rinv3Lift (fun s => 1 / (s * sq s)) R := by
  obtain ⟨s, δ⟩ := R
  have h2 : (2:K) ≠ 0 := by norm_num
  simp only at hs hne
  have hd : ∀ a b : Dual K, a / b = ⟨a.re / b.re, (a.eps * b.re - a.re * b.eps) / (b.re * b.re)⟩ :=
    fun _ _ => rfl
  have hm : ∀ a b : Dual K, a * b = ⟨a.re * b.re, a.re * b.eps + a.eps * b.re⟩ := fun _ _ => rfl
  simp only [hd, hm, Dual.rinv3Lift, Dual.sqrtLift, Dual.one_re, Dual.one_eps, Dual.mk.injEq,
    sc_zero, sc_one, sc_hadd, sc_hsub, sc_hmul, sc_hdiv, sc_hneg, sc_ofNat]
  generalize sq s = ρ at *
  rw [← hs]
  push_cast
  refine ⟨trivial, ?_⟩
  field_simp
  ring

/-! ### first order -/

/-- **First-order variational accelerations are the derivative of the force.**
    For every number of particles, `accVar1` — the loop of gravity.c:1031-1074 with the
    variational-mass terms — equals the ε-coefficient of the BASIC force loop evaluated
    at `real + ε·variational` (positions *and* masses), and the real part of that dual
    run is the ordinary force.  Hypotheses: softening 0, no coinciding pair. -/
theorem c16_var1_is_derivative (G : K) (sq : K → K) (ps : List (RV1 K))
    (h : ps.Pairwise (fun e l => PairOK sq l.1 e.1)) :
    (accBasicAll (Dual.const G) Scalar.zero (Dual.sqrtLift sq) (ps.map dz1)).map epsV
        = accVar1 G sq ps ∧
    (accBasicAll (Dual.const G) Scalar.zero (Dual.sqrtLift sq) (ps.map dz1)).map reV
        = accBasicAll G Scalar.zero sq (ps.map Prod.fst) := by
  constructor
  · have := loopLF_hom V3.add V3.add V3.zero V3.zero epsV dz1
      (forcePair (Dual.const G) Scalar.zero (Dual.sqrtLift sq)) (var1Pair G sq) epsV_add rfl
      (fun pi pj => PairOK sq pi.1 pj.1) (fun pi pj hp => var1_pair G sq pi pj hp) ps [] []
      (by simp) h
    simpa [accBasicAll, accVar1] using this
  · have h1 := loopLF_hom V3.add V3.add V3.zero V3.zero reV dz1
      (forcePair (Dual.const G) Scalar.zero (Dual.sqrtLift sq))
      (fun a b => forcePair G Scalar.zero sq a.1 b.1) reV_add rfl
      (fun _ _ => True) (fun pi pj _ => re_pair G sq pi pj) ps [] []
      (fun _ _ _ hq => by cases hq) (List.pairwise_of_forall (fun _ _ => trivial))
    have h2 := loopLF_hom V3.add V3.add V3.zero V3.zero (fun a : V3 K => a) (Prod.fst : RV1 K → GP K)
      (forcePair G Scalar.zero sq) (fun a b => forcePair G Scalar.zero sq a.1 b.1)
      (fun _ _ => rfl) rfl (fun _ _ => True) (fun _ _ _ => ⟨rfl, rfl⟩) ps [] []
      (fun _ _ _ hq => by cases hq) (List.pairwise_of_forall (fun _ _ => trivial))
    simp only [List.map_nil, List.map_id'] at h1 h2
    simp only [accBasicAll]
    rw [h1, ← h2]

/-! ### second order -/

/-- **Second-order variational accelerations are the mixed second derivative.**
    For every number of particles, `accVar2` — the `i<j` loop of gravity.c:1167-1260 —
    equals the ε₁ε₂-coefficient of the BASIC force loop evaluated on `Dual (Dual K)` at
    `real + ε₁·(1st order a) + ε₂·(1st order b) + ε₁ε₂·(2nd order)`, masses included. -/
theorem c16_var2_is_second_derivative (G : K) (sq : K → K) (ps : List (RV2 K))
    (h : ps.Pairwise (fun e l => PairOK sq l.p e.p)) :
    (accBasicAll (Dual.const (Dual.const G)) Scalar.zero (Dual2.sqrtLift2 sq) (ps.map dz2)).map epsV2
        = accVar2 G sq ps := by
  have h1 := loopLF_hom V3.add V3.add V3.zero V3.zero epsV2 dz2
      (forcePair (Dual.const (Dual.const G)) Scalar.zero (Dual2.sqrtLift2 sq)) (var2Pair G sq)
      epsV2_add rfl (fun pi pj => PairOK sq pi.p pj.p) (fun pi pj hp => var2_pair G sq pi pj hp)
      ps [] [] (by simp) h
  simp only [List.map_nil] at h1
  simp only [accBasicAll, accVar2]
  rw [h1, loopLF_eq_g]
  exact loopLFg_eq_loopEF V3.add (var2Pair G sq) ps _ (by simp)
    (List.pairwise_of_forall (fun a b => var2Pair_symm G sq a b))

end RV.Var
