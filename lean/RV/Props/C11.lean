import RV.Proofs.OrbitArgs
import RV.Proofs.OrbitRoundTrip
import RV.Proofs.OrbitAngles
import RV.Proofs.OrbitReal
import RV.Proofs.OrbitPal
import RV.Proofs.OrbitPalInverse
import RV.Proofs.OrbitFront
import RV.Gen.C11Args
import Mathlib.Data.Rat.Defs
import Mathlib.Algebra.Order.Field.Rat
/-
  C11 — orbital elements ↔ Cartesian coordinates; the two particle constructors.

  (i) front ends.  `cValidate t` / `pyValidate t` (RV/Model/OrbitArgs.lean) are the
  transcriptions of the decision chains of `reb_particle_from_fmt_errV` and
  `Particle.__init__`, parameterised by the membership lists `t` of their counters;
  RV/Gen/C11Args.lean holds the lists extracted from the two source files on this run.
-/
set_option linter.unusedVariables false
namespace RV.C11
open RV RV.OrbitArgs RV.Orbit RV.Gen.C11

/-- the lists found in the sources are the documented ones; the only tolerated deviation is
    `primary` in the C counter `Nnonpal` (finding C11:fmt-primary-with-pal-rejected, tools.c:777) -/
theorem c11_source_tables :
    pyTab = stdTab ∧ pyPeri = [.omega, .pomega] ∧ (cTab = stdTab ∨ cTab = cTabPrimaryNonpal) := by
  decide

/-- FULL STATEMENT (holds for the documented lists): the C and the Python constructor take
    the same decision — same error code, or same plan (Cartesian / Pal / classical with the
    same choice of a-or-P, primary, pericentre argument and anomaly) — on every one of the
    2²⁸ combinations of present arguments. -/
theorem c11_front_ends_agree (p : Presence) : cValidate stdTab p = pyValidate stdTab p :=
  agree_std p

/-- with the lists of the unchanged tree (`primary` counted as a non-Pal element by C only)
    the two front ends differ exactly on: primary given, some Pal element given, none of
    e, inc, Omega, omega, pomega, f, M, E, theta, T given -/
theorem c11_front_ends_differ_iff (p : Presence) :
    cValidate cTabPrimaryNonpal p ≠ pyValidate stdTab p ↔
      (p.primary = true ∧ palAny p = true ∧ nonpalAny p = false) := by
  rw [differ_iff_counts, pal_pos, nonpal_pos]

/-- … so the full statement is false of the unchanged tree (finding C11:fmt-primary-with-pal-rejected): witness
    `sim, primary, a, h`: C answers error 7, Python builds the Pal orbit -/
theorem c11_front_ends_agree_fails_unfixed :
    ¬ ∀ p : Presence, cValidate cTabPrimaryNonpal p = pyValidate stdTab p := by
  intro h
  have := h { Presence.none with sim := true, primary := true, a := true, h := true }
  revert this
  decide

/-- PARTIAL statement that holds for whatever lists the sources contain on this run
    (fixed or unfixed): outside the C11:fmt-primary-with-pal-rejected class the two front ends agree -/
theorem c11_front_ends_agree_partial (p : Presence)
    (hPrimaryPal : ¬ (p.primary = true ∧ palAny p = true ∧ nonpalAny p = false)) :
    cValidate cTab p = pyValidate pyTab p := by
  have hs := c11_source_tables
  rw [hs.1]
  rcases hs.2.2 with h | h <;> rw [h]
  · exact agree_std p
  · exact Decidable.byContradiction fun hne => hPrimaryPal ((c11_front_ends_differ_iff p).mp hne)

/-- the plan is Cartesian (orbital machinery not entered, Pal arguments silently ignored)
    iff no orbital argument is present and Pal is not mixed with non-Pal elements -/
theorem c11_cartesian_iff (p : Presence) :
    cValidate stdTab p = .ok .cartesian ↔
      ((nonpalAny p && palAny p) = false ∧ orbAny p = false) := by
  rw [cValidate_eq, pal_pos, nonpal_pos, orb_pos]
  exact core_cart _ _ _ _ _ _

/-! every structural error code is produced by some combination, in both front ends -/
example : cValidate stdTab { Presence.none with sim := true, a := true, e := true, h := true } = .error .palMix ∧
          pyValidate stdTab { Presence.none with sim := true, a := true, e := true, h := true } = .error .palMix := by decide
example : cValidate stdTab { Presence.none with sim := true, a := true, x := true } = .error .cartMix ∧
          pyValidate stdTab { Presence.none with sim := true, a := true, x := true } = .error .cartMix := by decide
example : cValidate stdTab { Presence.none with a := true } = .error .noSim ∧
          pyValidate stdTab { Presence.none with a := true } = .error .noSim := by decide
example : cValidate stdTab { Presence.none with sim := true, e := true } = .error .noAP ∧
          pyValidate stdTab { Presence.none with sim := true, e := true } = .error .noAP := by decide
example : cValidate stdTab { Presence.none with sim := true, a := true, P := true } = .error .bothAP ∧
          pyValidate stdTab { Presence.none with sim := true, a := true, P := true } = .error .bothAP := by decide
example : cValidate stdTab { Presence.none with sim := true, a := true, omega := true, pomega := true } = .error .bothPeri ∧
          pyValidate stdTab { Presence.none with sim := true, a := true, omega := true, pomega := true } = .error .bothPeri := by decide
example : cValidate stdTab { Presence.none with sim := true, a := true, f := true, T := true } = .error .manyLong ∧
          pyValidate stdTab { Presence.none with sim := true, a := true, f := true, T := true } = .error .manyLong := by decide
example : cValidate stdTab { Presence.none with sim := true, P := true, pomega := true, l := true, primary := true } =
            .ok (.classical true true .pomega .l) := by decide
example : cValidate stdTab { Presence.none with sim := true, a := true, l := true, ix := true } =
            .ok (.pal false false true) := by decide
example : cValidate stdTab { Presence.none with m := true, vy := true, h := true } = .ok .cartesian := by decide


/-! ## (ii) elements → particle → elements

Statements are about RV/Model/Orbit.lean — the definitions `drv_c11` runs on IEEE doubles
against tools.c — instantiated at an arbitrary ordered field `K` with an abstract libm `L`
(`Libm K`: arbitrary functions `cos sin sqrt acos fmod …` and constants `pi tiny`), of which
only the stated properties are assumed. -/
section elements
variable {K : Type} [Field K] [LinearOrder K] [IsStrictOrderedRing K]

/-- `reb_particle_from_orbit_err` rejects exactly the documented inputs, in first-match
    order (each error ↔ its condition given that no earlier test fired); `cf` is `cos f`.
    `v.asymLe` says whether the source tests `e cos f ≤ -1` (repaired) or `< -1` (original):
    `beyond false x ↔ x < -1`, `beyond true x ↔ x ≤ -1`, `notBeyond` the negations;
    `v.aStrict` whether it tests `a ≥ 0` / `a ≤ 0` (fixes/C11-reject-a-zero.diff) or
    `a > 0` / `a < 0`: `aPos false a ↔ 0 < a`, `aPos true a ↔ 0 ≤ a`, `aNeg` likewise. -/
theorem c11_fromOrbit_rejects_exactly (v : Variant) (tiny pm a e cf : K) :
    (fromOrbitCheck v tiny pm a e cf = some .radial ↔ e = 1) ∧
    (fromOrbitCheck v tiny pm a e cf = some .negE ↔ e < 0) ∧
    (fromOrbitCheck v tiny pm a e cf = some .boundE ↔ (1 < e ∧ aPos v.aStrict a)) ∧
    (fromOrbitCheck v tiny pm a e cf = some .unboundE ↔ (0 ≤ e ∧ e < 1 ∧ aNeg v.aStrict a)) ∧
    (fromOrbitCheck v tiny pm a e cf = some .fRange ↔
      (e ≠ 1 ∧ 0 ≤ e ∧ (1 < e → ¬ aPos v.aStrict a) ∧ (e < 1 → ¬ aNeg v.aStrict a) ∧ beyond v.asymLe (e * cf))) ∧
    (fromOrbitCheck v tiny pm a e cf = some .noMass ↔
      (e ≠ 1 ∧ 0 ≤ e ∧ (1 < e → ¬ aPos v.aStrict a) ∧ (e < 1 → ¬ aNeg v.aStrict a) ∧
        notBeyond v.asymLe (e * cf) ∧ pm < tiny)) ∧
    (fromOrbitCheck v tiny pm a e cf = none ↔
      (e ≠ 1 ∧ 0 ≤ e ∧ (1 < e → ¬ aPos v.aStrict a) ∧ (e < 1 → ¬ aNeg v.aStrict a) ∧
        notBeyond v.asymLe (e * cf) ∧ tiny ≤ pm)) :=
  ⟨check_radial_iff .., check_negE_iff .., check_boundE_iff .., check_unboundE_iff ..,
   check_fRange_iff .., check_noMass_iff .., check_none_iff ..⟩

/-- the wrapper returns error `err` iff the tests say so, and otherwise the particle of
    `fromOrbitCore` fed with the libm values -/
theorem c11_fromOrbit_error_or_core (L : Libm K) (v : Variant) (G : K) (pr : Orbit.Part K)
    (m a e inc Om om f : K) :
    (∀ err, @fromOrbit K L.orbitK v G pr m a e inc Om om f = .error err ↔
        fromOrbitCheck v L.tiny pr.m a e (L.cos f) = some err) ∧
    (∀ P, @fromOrbit K L.orbitK v G pr m a e inc Om om f = .ok P →
        fromOrbitCheck v L.tiny pr.m a e (L.cos f) = none ∧
        P = fromOrbitCore pr m a e
              ⟨L.cos Om, L.sin Om, L.cos om, L.sin om, L.cos f, L.sin f, L.cos inc, L.sin inc⟩
              (L.sqrt (v0sq G pr.m m a e))) :=
  ⟨fun err => fromOrbit_error_iff L v G pr m a e inc Om om f err,
   fun P h => fromOrbit_ok L v G pr m a e inc Om om f P h⟩

/-- what every variant of the guard gives: `1 - e²  ≠ 0` and `1 + e cos f ≥ 0` -/
theorem c11_fromOrbit_guard (v : Variant) (tiny pm a e cf : K)
    (h : fromOrbitCheck v tiny pm a e cf = none) :
    1 - e * e ≠ 0 ∧ 0 ≤ 1 + e * cf := by
  obtain ⟨h1, h0, hb, hu, hf, hm⟩ := (check_none_iff v tiny pm a e cf).mp h
  have hf' : -1 ≤ e * cf := by
    rcases v with ⟨v1, v2, asymLe, v4, v5⟩
    cases asymLe
    · simpa [notBeyond] using hf
    · have : -1 < e * cf := by simpa [notBeyond] using hf
      exact le_of_lt this
  refine ⟨?_, by linarith⟩
  rcases lt_or_gt_of_ne h1 with he | he
  · have : 0 < 1 - e * e := by nlinarith
    exact ne_of_gt this
  · have : 1 - e * e < 0 := by nlinarith
    exact ne_of_lt this

/-- accepted input has all three denominators `1 - e²`, `1 + e cos f`, `a` non-zero, and
    `a(1-e²) > 0`, `1 + e cos f > 0` (so `r > 0` and the argument of the `sqrt` giving `v0` is
    ≥ 0 for μ ≥ 0).  FULL for the repaired source (`v.aStrict`, `v.asymLe` both true: no extra
    hypothesis); PARTIAL for the original tests: `a ≠ 0` (finding C11:a-zero-accepted) and
    `e cos f ≠ -1` (finding C11:asymptote-equality-accepted) must be assumed — see the two
    theorems below. -/
theorem c11_fromOrbit_denominators_partial (v : Variant) (tiny pm a e cf : K)
    (h : fromOrbitCheck v tiny pm a e cf = none) (ha : v.aStrict = false → a ≠ 0)
    (hasym : v.asymLe = false → e * cf ≠ -1) :
    1 - e * e ≠ 0 ∧ 1 + e * cf ≠ 0 ∧ 0 < a * (1 - e * e) ∧ 0 < 1 + e * cf :=
  guard_denoms v tiny pm a e cf h ha hasym

/-- the unchanged guard (`<`) accepts `e cos f = -1` exactly (division by zero in `r`) -/
theorem c11_fromOrbit_accepts_asymptote (tiny : K) :
    ∃ pm a e cf : K, fromOrbitCheck Variant.unfixed tiny pm a e cf = none ∧ 1 + e * cf = 0 := by
  refine ⟨tiny, -1, 2, -1 / 2, ?_, by norm_num⟩
  rw [check_none_iff]
  norm_num [notBeyond, aPos, aNeg, Variant.unfixed]

/-- the original sign tests accept `a = 0` (division by zero in `v0`), whatever the other
    repairs; with fixes/C11-reject-a-zero.diff (`v.aStrict`) `a = 0` is always rejected -/
theorem c11_fromOrbit_accepts_a_zero (v : Variant) (hv : v.aStrict = false) (tiny : K) :
    ∃ pm a e cf : K, fromOrbitCheck v tiny pm a e cf = none ∧ a = 0 := by
  refine ⟨tiny, 0, 0, 1, ?_, rfl⟩
  rw [check_none_iff, hv]
  rcases v with ⟨v1, v2, asymLe, v4, v5⟩
  cases asymLe <;> norm_num [notBeyond, aPos, aNeg]

theorem c11_fromOrbit_rejects_a_zero_fixed (v : Variant) (hv : v.aStrict = true) (tiny pm e cf : K) :
    fromOrbitCheck v tiny pm 0 e cf ≠ none := by
  intro h
  obtain ⟨h1, h0, hb, hu, _⟩ := (check_none_iff v tiny pm 0 e cf).mp h
  rw [hv] at hb hu
  rcases lt_or_gt_of_ne h1 with he | he
  · exact hu he (by simp [aNeg])
  · exact hb he (by simp [aPos])

/-- defining relations of the particle returned by `fromOrbitCore` over any field: with the
    four identities `c² + s² = 1`, `v0² = μ/a/(1-e²)` and the three denominators non-zero,
    `|Δx| = r = a(1-e²)/(1+e cos f)` (squared), vis-viva `v² = μ(2/r - 1/a)`,
    `h² = μ a (1-e²)`, `h = H·(sin i sin Ω, -sin i cos Ω, cos i)` with `H² = h²`
    (so `h_z = h cos i`), and `Δx·Δv = r v0 e sin f` -/
theorem c11_fromOrbit_defining_relations (G : K) (pr : Orbit.Part K) (m a e cO sO co so cf sf ci si v0 : K)
    (hO : cO ^ 2 + sO ^ 2 = 1) (ho : co ^ 2 + so ^ 2 = 1) (hf : cf ^ 2 + sf ^ 2 = 1)
    (hi : ci ^ 2 + si ^ 2 = 1)
    (ha : a ≠ 0) (he : 1 - e * e ≠ 0) (hd : 1 + e * cf ≠ 0)
    (hv : v0 ^ 2 = G * (m + pr.m) / a / (1 - e * e)) :
    let P := fromOrbitCore pr m a e ⟨cO, sO, co, so, cf, sf, ci, si⟩ v0
    let mu := G * (m + pr.m)
    let r := a * (1 - e * e) / (1 + e * cf)
    let dx := P.x - pr.x; let dy := P.y - pr.y; let dz := P.z - pr.z
    let dvx := P.vx - pr.vx; let dvy := P.vy - pr.vy; let dvz := P.vz - pr.vz
    let hx := dy * dvz - dz * dvy; let hy := dz * dvx - dx * dvz; let hz := dx * dvy - dy * dvx
    let H := a * (1 - e * e) * v0
    (dx ^ 2 + dy ^ 2 + dz ^ 2 = r ^ 2) ∧
    (dvx ^ 2 + dvy ^ 2 + dvz ^ 2 = mu * (2 / r - 1 / a)) ∧
    (hx ^ 2 + hy ^ 2 + hz ^ 2 = mu * a * (1 - e * e)) ∧
    (H ^ 2 = mu * a * (1 - e * e) ∧ hz = H * ci ∧ hx = H * si * sO ∧ hy = -(H * si * cO)) ∧
    (dx * dvx + dy * dvy + dz * dvz = r * v0 * e * sf) :=
  core_relations G pr m a e cO sO co so cf sf ci si v0 hO ho hf hi ha he hd hv

/-- PARTIAL round trip on the two model functions: for a libm whose `cos, sin` satisfy
    `c²+s²=1` and whose `sqrt` is a non-negative square root on non-negative arguments, the
    reader applied to the particle the constructor accepted (μ > 0, and outside the two
    findings `a = 0`, `e cos f = -1`) reports the distance `r`, the semi-major axis `a`, the
    eccentricity vector `e·(pericentre direction)` and the eccentricity `e` it was built
    from.  Missing for the full statement: the angles (inc, Ω, ω, f, M, l, θ), which go
    through `acos` and the near-planar / near-circular switches. -/
theorem c11_reader_of_constructor_partial (L : Libm K)
    (htrig : ∀ x, L.cos x ^ 2 + L.sin x ^ 2 = 1)
    (hsqrt : ∀ x, 0 ≤ x → 0 ≤ L.sqrt x ∧ L.sqrt x ^ 2 = x)
    (v : Variant) (G : K) (pr : Orbit.Part K) (m a e inc Om om f t0 : K) (P : Orbit.Part K) (o : Orb K)
    (hP : @fromOrbit K L.orbitK v G pr m a e inc Om om f = .ok P)
    (ho : @orbitFromParticle K L.orbitK v G P pr t0 = .ok o)
    (hmu : 0 < G * (m + pr.m)) (ha : a ≠ 0) (hasym : v.asymLe = false → e * L.cos f ≠ -1) :
    o.d = a * (1 - e * e) / (1 + e * L.cos f) ∧ o.a = a ∧
    o.ex = e * (L.cos Om * L.cos om - L.sin Om * L.sin om * L.cos inc) ∧
    o.ey = e * (L.sin Om * L.cos om + L.cos Om * L.sin om * L.cos inc) ∧
    o.ez = e * (L.sin om * L.sin inc) ∧ o.e = e :=
  reader_of_constructor L htrig hsqrt v G pr m a e inc Om om f t0 P o hP ho hmu ha hasym

/-- FULL (value level): the two front ends build the same particle.  `frontC` is the model of
    `reb_particle_from_fmt_errV` (tools.c:752-920) and `frontPy` the model of `Particle.__init__`
    (particle.py:300-431), each in its own operation order and with its own decision chain; both are tied
    bit for bit to the real code on every run.  For every set of argument values (present or absent, any
    `G`, `t`, centre of mass), with the documented membership lists, they return the same error number or
    the same particle in exact arithmetic, provided libm `pow` satisfies `pow x 2 = x·x`, `pow x 3 = x·x·x`,
    `pow x ½ = sqrt x`, `pow x ⅓ = cbrt x` (the only places where the Python code differs from the C code:
    `P**2`, `math.pi**2`, `(...)**(1./3.)`, `a**3`, `(...)**0.5`).  In IEEE arithmetic these four equalities
    hold only to rounding: that is the documented "≤ 4 ulp where a period or pericentre time is converted". -/
theorem c11_front_ends_same_particle (L : Libm K) (PS : PowSpec L) (v : Variant) (G t : K) (com : Orbit.Part K)
    (g : FArgs K) :
    @frontC K L.orbitK v stdTab G t com g = @frontPy K L.orbitK v stdTab G t com g :=
  front_ends_same_particle L PS v G t com g

/-- … and for the lists extracted from the sources on this run (equal to the documented ones after fix 0bf6f8a) -/
theorem c11_front_ends_same_particle_gen (L : Libm K) (PS : PowSpec L) (v : Variant) (G t : K) (com : Orbit.Part K)
    (g : FArgs K) (hC : cTab = stdTab) :
    @frontC K L.orbitK v cTab G t com g = @frontPy K L.orbitK v pyTab G t com g := by
  rw [hC, c11_source_tables.1]
  exact front_ends_same_particle L PS v G t com g

/-- `PowSpec` is satisfiable: over ℚ with `sqrt = cbrt = id` and `pow` defined on the four exponents -/
example : PowSpec (K := ℚ)
    { sqrt := id, sin := id, cos := id, fabs := id, tan := id, atan2 := fun x _ => x, acos := id, asin := id, atan := id,
      exp := id, log := id, sinh := id, cosh := id, tanh := id, acosh := id, cbrt := id, floor := id, ceil := id,
      pow := fun x y => if y = 2 then x * x else if y = 3 then x * x * x else x, fmod := fun x _ => x, pi := 3, tiny := 0 } where
  sq := fun x => by simp
  cube := fun x => by norm_num
  half := fun x => by norm_num
  third := fun x => by norm_num

/-- the quadrant logic of `acos2`: for θ ∈ (-π, π], ρ > 0 and a disambiguator with the sign of
    sin θ, `acos2(ρ cos θ, ρ, dis) = θ` (`TrigSpec`: c²+s²=1, cos 0 = 1, cos π = -1,
    acos∘cos = id on [0,π], sin > 0 on (0,π), parity, addition formulas) -/
theorem c11_acos2_quadrant {L : Libm K} (T : TrigSpec L) (t rho dis : K) (hr : 0 < rho)
    (h0 : -L.pi < t) (h1 : t ≤ L.pi)
    (hd1 : L.sin t < 0 → dis < 0) (hd2 : 0 < L.sin t → 0 ≤ dis) :
    @acos2 K L.orbitK (rho * L.cos t) rho dis = t :=
  acos2_angle' T t rho dis hr h0 h1 hd1 hd2

/-- FULL inverse on the generic branch (the code's own branch condition: not
    `inc < 1e-8 || inc > π - 1e-8`), elliptic and hyperbolic alike, non-circular (e ≠ 0):
    `orbitFromParticle (fromOrbit (a, e, inc, Ω, ω, f))` returns `(a, e, inc, Ω, ω, f)` for
    Ω ∈ (-π, π], ω, f ∈ [0, 2π) (the ranges the reader reports), and θ, ϖ are
    Ω ± (ω + f), Ω ± ω modulo 2π with the sign the reported inclination selects.
    Remaining hypotheses: μ > 0, `a ≠ 0` (finding C11:a-zero-accepted; `e cos f ≠ -1` only for
    the unrepaired asymptote test). -/
theorem c11_reader_inverse_generic {L : Libm K} (T : TrigSpec L) (hf : FmodSpec L.fmod)
    (hsqrt : ∀ x, 0 ≤ x → 0 ≤ L.sqrt x ∧ L.sqrt x ^ 2 = x)
    (v : Variant) (G : K) (pr : Orbit.Part K) (m a e inc Om om f t0 : K) (P : Orbit.Part K) (o : Orb K)
    (hP : @fromOrbit K L.orbitK v G pr m a e inc Om om f = .ok P)
    (ho : @orbitFromParticle K L.orbitK v G P pr t0 = .ok o)
    (hmu : 0 < G * (m + pr.m)) (ha : a ≠ 0) (hasym : v.asymLe = false → e * L.cos f ≠ -1)
    (he : e ≠ 0)
    (hi1 : ¬ inc < 1 / 100000000) (hi2 : ¬ L.pi - 1 / 100000000 < inc)
    (hO : -L.pi < Om ∧ Om ≤ L.pi) (hom : 0 ≤ om ∧ om < 2 * L.pi) (hff : 0 ≤ f ∧ f < 2 * L.pi) :
    o.a = a ∧ o.e = e ∧ o.inc = inc ∧ o.Omega = Om ∧ o.omega = om ∧ o.f = f ∧
    (inc < L.pi / 2 → (∃ n : ℤ, o.theta = Om + (om + f) - n * (2 * L.pi)) ∧ (∃ n : ℤ, o.pomega = Om + om - n * (2 * L.pi))) ∧
    (¬ inc < L.pi / 2 → (∃ n : ℤ, o.theta = Om - (om + f) - n * (2 * L.pi)) ∧ (∃ n : ℤ, o.pomega = Om - om - n * (2 * L.pi))) :=
  reader_inverse_generic T hf hsqrt v G pr m a e inc Om om f t0 P o hP ho hmu ha hasym he hi1 hi2 hO hom hff

/-- PARTIAL, any branch of the switch (in particular the near-planar one,
    `inc < 1e-8 || inc > π - 1e-8`, as long as 0 < inc < π): a, e, inc, Ω come back exactly.
    Missing there: ω and f — in that branch the code reports the broken angles
    (acos of the x-components of r and e), which equal ω, f only up to O(inc²). -/
theorem c11_reader_inverse_anybranch_partial {L : Libm K} (T : TrigSpec L)
    (hsqrt : ∀ x, 0 ≤ x → 0 ≤ L.sqrt x ∧ L.sqrt x ^ 2 = x)
    (v : Variant) (G : K) (pr : Orbit.Part K) (m a e inc Om om f t0 : K) (P : Orbit.Part K) (o : Orb K)
    (hP : @fromOrbit K L.orbitK v G pr m a e inc Om om f = .ok P)
    (ho : @orbitFromParticle K L.orbitK v G P pr t0 = .ok o)
    (hmu : 0 < G * (m + pr.m)) (ha : a ≠ 0) (hasym : v.asymLe = false → e * L.cos f ≠ -1)
    (hinc0 : 0 < inc) (hinc1 : inc < L.pi) (hO : -L.pi < Om ∧ Om ≤ L.pi) :
    o.a = a ∧ o.e = e ∧ o.inc = inc ∧ o.Omega = Om :=
  reader_inverse_common T hsqrt v G pr m a e inc Om om f t0 P o hP ho hmu ha hasym hinc0 hinc1 hO

/-- PARTIAL, near-planar branch taken at exactly inc = 0 (the model makes the C code's 0/0 → NaN
    → 0 explicit): with the node given as Ω = 0 the reader returns (a, e, 0, 0, ω, f).
    (For Ω ≠ 0 it returns the equivalent set (0, Ω+ω); retrograde-planar not proved.) -/
theorem c11_reader_inverse_planar_partial {L : Libm K} (T : TrigSpec L) (hf : FmodSpec L.fmod)
    (hsqrt : ∀ x, 0 ≤ x → 0 ≤ L.sqrt x ∧ L.sqrt x ^ 2 = x)
    (v : Variant) (G : K) (pr : Orbit.Part K) (m a e om f t0 : K) (P : Orbit.Part K) (o : Orb K)
    (hP : @fromOrbit K L.orbitK v G pr m a e 0 0 om f = .ok P)
    (ho : @orbitFromParticle K L.orbitK v G P pr t0 = .ok o)
    (hmu : 0 < G * (m + pr.m)) (ha : a ≠ 0) (hasym : v.asymLe = false → e * L.cos f ≠ -1)
    (he : e ≠ 0) (hom : 0 ≤ om ∧ om < 2 * L.pi) (hff : 0 ≤ f ∧ f < 2 * L.pi) :
    o.a = a ∧ o.e = e ∧ o.inc = 0 ∧ o.Omega = 0 ∧ o.omega = om ∧ o.f = f :=
  reader_inverse_planar T hf hsqrt v G pr m a e om f t0 P o hP ho hmu ha hasym he hom hff

/-- PARTIAL, exactly circular orbit (e = 0) given with ω = 0, generic inclination: the reader
    returns (a, 0, inc, Ω, 0, f).  (For ω ≠ 0 it returns the equivalent (0, ω+f).) -/
theorem c11_reader_inverse_circular_partial {L : Libm K} (T : TrigSpec L) (hf : FmodSpec L.fmod)
    (hsqrt : ∀ x, 0 ≤ x → 0 ≤ L.sqrt x ∧ L.sqrt x ^ 2 = x)
    (v : Variant) (G : K) (pr : Orbit.Part K) (m a inc Om f t0 : K) (P : Orbit.Part K) (o : Orb K)
    (hP : @fromOrbit K L.orbitK v G pr m a 0 inc Om 0 f = .ok P)
    (ho : @orbitFromParticle K L.orbitK v G P pr t0 = .ok o)
    (hmu : 0 < G * (m + pr.m)) (ha : a ≠ 0)
    (hi1 : ¬ inc < 1 / 100000000) (hi2 : ¬ L.pi - 1 / 100000000 < inc)
    (hO : -L.pi < Om ∧ Om ≤ L.pi) (hff : 0 ≤ f ∧ f < 2 * L.pi) :
    o.a = a ∧ o.e = 0 ∧ o.inc = inc ∧ o.Omega = Om ∧ o.omega = 0 ∧ o.f = f :=
  reader_inverse_circular T hf hsqrt v G pr m a inc Om f t0 P o hP ho hmu ha hi1 hi2 hO hff

/-- the same over ℝ with `Real.cos, Real.sin, Real.arccos, Real.sqrt, Real.pi` and the C-style
    `fmod` on the reals — no abstract hypothesis left -/
theorem c11_reader_inverse_generic_real
    (v : Variant) (G : ℝ) (pr : Orbit.Part ℝ) (m a e inc Om om f t0 : ℝ) (P : Orbit.Part ℝ) (o : Orb ℝ)
    (hP : @fromOrbit ℝ (realLibm fmodR).orbitK v G pr m a e inc Om om f = .ok P)
    (ho : @orbitFromParticle ℝ (realLibm fmodR).orbitK v G P pr t0 = .ok o)
    (hmu : 0 < G * (m + pr.m)) (ha : a ≠ 0) (hasym : v.asymLe = false → e * Real.cos f ≠ -1)
    (he : e ≠ 0)
    (hi1 : ¬ inc < 1 / 100000000) (hi2 : ¬ Real.pi - 1 / 100000000 < inc)
    (hO : -Real.pi < Om ∧ Om ≤ Real.pi) (hom : 0 ≤ om ∧ om < 2 * Real.pi) (hff : 0 ≤ f ∧ f < 2 * Real.pi) :
    o.a = a ∧ o.e = e ∧ o.inc = inc ∧ o.Omega = Om ∧ o.omega = om ∧ o.f = f :=
  let h := reader_inverse_generic (realTrigSpec fmodR) fmodR_spec (realSqrtSpec fmodR) v G pr m a e inc Om om f t0
    P o hP ho hmu ha hasym he hi1 hi2 hO hom hff
  ⟨h.1, h.2.1, h.2.2.1, h.2.2.2.1, h.2.2.2.2.1, h.2.2.2.2.2.1⟩

/-- PARTIAL inverse for Pal (2009) elements, on the model functions: the reader applied to
    `reb_particle_from_pal (a, λ, k, h, ix, iy)` reports `pal_h = h`, `pal_k = k`, `pal_ix = ix`,
    `pal_iy = iy`, `a`, and the distance `a(1 - q)`, for a bound orbit (`h²+k² < 1`), `ix²+iy² < 4`,
    `a > 0`, μ > 0.  The only numerical hypothesis is that the output `(p, q)` of
    `reb_tools_solve_kepler_pal` satisfies Pal's Kepler equation `p = k sin(λ+p) - h cos(λ+p)`,
    `q = k cos(λ+p) + h sin(λ+p)` (its repaired update is the Newton step for exactly this system:
    `c11_pal_step_is_newton_fixed`).  Missing: λ, which reb_orbit does not report as such (its
    mean longitude `l` goes through `acos`). -/
theorem c11_reader_of_fromPal_partial {L : Libm K} (hsq : ∀ x, L.cos x ^ 2 + L.sin x ^ 2 = 1)
    (hsqrt : ∀ x, 0 ≤ x → 0 ≤ L.sqrt x ∧ L.sqrt x ^ 2 = x) (hfabs : ∀ x, 0 ≤ x → L.fabs x = x)
    (v : Variant) (G : K) (pr : Orbit.Part K) (m a lam k h ix iy t0 : K) (o : Orb K)
    (ho : @orbitFromParticle K L.orbitK v G (@fromPal K L.orbitK v G pr m a lam k h ix iy) pr t0 = .ok o)
    (hK : (@solveKeplerPal K L.orbitK v h k lam).1 = k * L.sin (lam + (@solveKeplerPal K L.orbitK v h k lam).1)
            - h * L.cos (lam + (@solveKeplerPal K L.orbitK v h k lam).1) ∧
          (@solveKeplerPal K L.orbitK v h k lam).2 = k * L.cos (lam + (@solveKeplerPal K L.orbitK v h k lam).1)
            + h * L.sin (lam + (@solveKeplerPal K L.orbitK v h k lam).1))
    (ha : 0 < a) (hmu : 0 < G * (m + pr.m)) (he : h * h + k * k < 1) (hi : ix * ix + iy * iy < 4) :
    o.pal_h = h ∧ o.pal_k = k ∧ o.pal_ix = ix ∧ o.pal_iy = iy ∧ o.a = a ∧
    o.d = a * (1 - (@solveKeplerPal K L.orbitK v h k lam).2) :=
  reader_of_fromPal hsq hsqrt hfabs v G pr m a lam k h ix iy t0 o ho hK ha hmu he hi

/-- FULL inverse for Pal elements through `reb_tools_particle_to_pal` (the routine
    derivatives.c uses), on the model functions: applied to `reb_particle_from_pal (a, λ, k, h, ix, iy)`
    it returns h, k, ix, iy, a exactly and λ modulo 2π (bound orbit, `ix²+iy² < 4`, `a > 0`, μ > 0,
    `0 ≤ λ+p < 4π`).  Hypotheses: the solver output satisfies Pal's Kepler equation; `TrigSpec`;
    `atan2(ρ sin t, ρ cos t) = t` for t ∈ (-π, π], ρ > 0. -/
theorem c11_particleToPal_of_fromPal {L : Libm K} (T : TrigSpec L)
    (hsqrt : ∀ x, 0 ≤ x → 0 ≤ L.sqrt x ∧ L.sqrt x ^ 2 = x) (hfabs : ∀ x, 0 ≤ x → L.fabs x = x)
    (hatan2 : ∀ t rho : K, 0 < rho → -L.pi < t → t ≤ L.pi → L.atan2 (rho * L.sin t) (rho * L.cos t) = t)
    (v : Variant) (G : K) (pr : Orbit.Part K) (m a lam k h ix iy : K)
    (hK : (@solveKeplerPal K L.orbitK v h k lam).1 = k * L.sin (lam + (@solveKeplerPal K L.orbitK v h k lam).1)
            - h * L.cos (lam + (@solveKeplerPal K L.orbitK v h k lam).1) ∧
          (@solveKeplerPal K L.orbitK v h k lam).2 = k * L.cos (lam + (@solveKeplerPal K L.orbitK v h k lam).1)
            + h * L.sin (lam + (@solveKeplerPal K L.orbitK v h k lam).1))
    (ha : 0 < a) (hmu : 0 < G * (m + pr.m)) (he : h * h + k * k < 1) (hi : ix * ix + iy * iy < 4)
    (hlam : 0 ≤ lam + (@solveKeplerPal K L.orbitK v h k lam).1 ∧ lam + (@solveKeplerPal K L.orbitK v h k lam).1 < 4 * L.pi) :
    let e := @particleToPal K L.orbitK G (@fromPal K L.orbitK v G pr m a lam k h ix iy) pr
    e.h = h ∧ e.k = k ∧ e.ix = ix ∧ e.iy = iy ∧ e.a = a ∧ ∃ n : ℤ, e.lambda = lam - n * (2 * L.pi) :=
  particleToPal_of_fromPal T hsqrt hfabs hatan2 v G pr m a lam k h ix iy hK ha hmu he hi hlam

/-- the polynomial core of the Pal construction: with c²+s²=1, (1-l)² = 1-h²-k² and
    p = k s - h c, q = k c + h s: r = a(1-q), the in-plane angular momentum is a·an·(1-l),
    and the (k, h) components are recovered (scaled forms, no division) -/
theorem c11_pal_inplane_identities (c s l h k : K) (hcs : c ^ 2 + s ^ 2 = 1)
    (hl : (1 - l) ^ 2 = 1 - h ^ 2 - k ^ 2) :
    let p := k * s - h * c; let q := k * c + h * s
    let D2 := 2 - l; let D1 := 1 - q
    let Xi := c * D2 + p * h - k * D2; let Eta := s * D2 - p * k - h * D2
    let Xi1 := -s * D2 + q * h; let Eta1 := c * D2 - q * k
    Xi ^ 2 + Eta ^ 2 = D2 ^ 2 * D1 ^ 2 ∧
    Xi * Eta1 - Eta * Xi1 = D2 ^ 2 * D1 * (1 - l) ∧
    (1 - l) * Eta1 - Xi = k * D1 * D2 ∧
    -(1 - l) * Xi1 - Eta = h * D1 * D2 ∧
    Xi1 ^ 2 + Eta1 ^ 2 = D2 ^ 2 * (1 - q) * (1 + q) :=
  pal_I1 c s l h k hcs hl

/-- `reb_mod2pi` maps into `[0, 2π)` and changes its argument by a multiple of `2π`, for any
    `fmod` with the C semantics (|fmod x y| < y, sign of x, x - fmod x y ∈ yℤ) -/
theorem c11_mod2pi_range (fmod : K → K → K) (h : FmodSpec fmod) (pi : K) (hpi : 0 < pi) (f : K) :
    (0 ≤ mod2piCore fmod pi f ∧ mod2piCore fmod pi f < 2 * pi) ∧
    ∃ n : ℤ, mod2piCore fmod pi f = f - n * (2 * pi) :=
  ⟨mod2piCore_range fmod h pi hpi f, mod2piCore_congr fmod h pi hpi f⟩

/-- ranges of what `reb_orbit_from_particle` reports, on the model function itself:
    f, l, M, θ, ω ∈ [0, 2π); inc ∈ [0, π]; Ω ∈ [-π, π] — for any libm with `acos x ∈ [0, π]`
    and a C-like `fmod` -/
theorem c11_reader_ranges (L : Libm K) (hf : FmodSpec L.fmod) (hpi : 0 < L.pi)
    (hacos : ∀ x, 0 ≤ L.acos x ∧ L.acos x ≤ L.pi) (v : Variant) (G : K) (p pr : Orbit.Part K) (t0 : K)
    (o : Orb K) (h : @orbitFromParticle K L.orbitK v G p pr t0 = .ok o) :
    (0 ≤ o.f ∧ o.f < 2 * L.pi) ∧ (0 ≤ o.l ∧ o.l < 2 * L.pi) ∧ (0 ≤ o.M ∧ o.M < 2 * L.pi) ∧
    (0 ≤ o.theta ∧ o.theta < 2 * L.pi) ∧ (0 ≤ o.omega ∧ o.omega < 2 * L.pi) ∧
    (0 ≤ o.inc ∧ o.inc ≤ L.pi) ∧ (-L.pi ≤ o.Omega ∧ o.Omega ≤ L.pi) :=
  reader_ranges L hf hpi hacos v G p pr t0 o h

/-- `reb_E_to_f`, elliptic branch, as an algebraic identity: if `tan(f/2) = s·tan(E/2)` with
    `s² = (1+e)/(1-e)` (what the code computes) then, in the tangent half-angle form of the
    cosines, `cos f = (cos E - e)/(1 - e cos E)` and `(1 - e cos E)(1 + e cos f) = 1 - e²`
    (the radius from E equals the radius from f) -/
theorem c11_E_to_f_halfangle_elliptic {F : Type} [Field F] (e tE s : F) (hs : s ^ 2 * (1 - e) = 1 + e)
    (h1 : 1 + tE ^ 2 ≠ 0) (h2 : 1 + (s * tE) ^ 2 ≠ 0) (h3 : 1 - e ≠ 0) :
    let cE := (1 - tE ^ 2) / (1 + tE ^ 2)
    let cf := (1 - (s * tE) ^ 2) / (1 + (s * tE) ^ 2)
    cf * (1 - e * cE) = cE - e ∧ (1 - e * cE) * (1 + e * cf) = 1 - e ^ 2 :=
  halfangle_ell e tE s hs h1 h2 h3

/-- hyperbolic branch: `tan(f/2) = s·tanh(H/2)`, `s² = (e+1)/(e-1)`, `cosh H = (1+t²)/(1-t²)` -/
theorem c11_E_to_f_halfangle_hyperbolic {F : Type} [Field F] (e tH s : F) (hs : s ^ 2 * (e - 1) = e + 1)
    (h1 : 1 - tH ^ 2 ≠ 0) (h2 : 1 + (s * tH) ^ 2 ≠ 0) (h3 : e - 1 ≠ 0) :
    let cH := (1 + tH ^ 2) / (1 - tH ^ 2)
    let cf := (1 - (s * tH) ^ 2) / (1 + (s * tH) ^ 2)
    cf * (e * cH - 1) = e - cH ∧ (1 - e * cH) * (1 + e * cf) = 1 - e ^ 2 :=
  halfangle_hyp e tH s hs h1 h2 h3

/-- Pal's Kepler solver (`reb_tools_solve_kepler_pal`, low-e branch): the update of the
    repaired source (`fixed = true`, fixes/C16-pal-kepler-jacobian.diff) is the Newton step:
    J·(Δq, Δp) = (f0, f1) with J the Jacobian of (f0, f1) with respect to (q, p) -/
theorem c11_pal_step_is_newton_fixed {F : Type} [Field F] (h k cl sl c s pn qn : F)
    (hcs : c ^ 2 + s ^ 2 = 1) (hq : qn - 1 ≠ 0) :
    let r := palStepCore true h k cl sl c s pn qn
    let dq := qn - r.2.1
    let dp := pn - r.1
    c * dq + ((-qn) * s + s + pn * c) * dp = r.2.2.1 ∧
    (-s) * dq + ((-qn) * c + c - pn * s) * dp = r.2.2.2 :=
  palStep_fixed_is_newton h k cl sl c s pn qn hcs hq

/-- … and the update of the unchanged tree (`fixed = false`: off-diagonal entries of the
    inverse Jacobian swapped) is not (finding C11:pal-kepler-lowe-unconverged):
    witness cos p = 3/5, sin p = 4/5, p = 1, q = 0, h = k = 0 -/
theorem c11_pal_step_not_newton_unfixed :
    ¬ ∀ (h k cl sl c s pn qn : ℚ), c ^ 2 + s ^ 2 = 1 → qn - 1 ≠ 0 →
      (let r := palStepCore false h k cl sl c s pn qn
       c * (qn - r.2.1) + ((-qn) * s + s + pn * c) * (pn - r.1) = r.2.2.1) := by
  intro H
  have := H 0 0 1 0 (3 / 5) (4 / 5) 1 0 (by norm_num) (by norm_num)
  simp only [palStepCore, sc_hadd, sc_hsub, sc_hmul, sc_hdiv, sc_hneg, sc_neg, sc_one] at this
  norm_num at this

/-! the hypotheses are satisfiable: concrete instances over ℚ -/
example : fromOrbitCheck Variant.unfixed (1 / 1000 : ℚ) 1 2 (1 / 2) (-1) = none := by
  rw [check_none_iff]; norm_num [notBeyond, aPos, aNeg, Variant.unfixed]
example : fromOrbitCheck Variant.unfixed (1 / 1000 : ℚ) 1 (-2) 3 (-1 / 2) = some .fRange := by
  rw [check_fRange_iff]; norm_num [beyond, aPos, aNeg, Variant.unfixed]
example : fromOrbitCheck Variant.unfixed (1 / 1000 : ℚ) 0 2 (1 / 2) 1 = some .noMass := by
  rw [check_noMass_iff]; norm_num [notBeyond, aPos, aNeg, Variant.unfixed]
example : fromOrbitCheck Variant.unfixed (1 / 1000 : ℚ) 1 2 1 1 = some .radial := by
  rw [check_radial_iff]
example : fromOrbitCheck Variant.unfixed (1 / 1000 : ℚ) 1 2 (-1) 1 = some .negE := by
  rw [check_negE_iff]; norm_num
example : fromOrbitCheck Variant.unfixed (1 / 1000 : ℚ) 1 2 3 1 = some .boundE := by
  rw [check_boundE_iff]; norm_num [aPos, Variant.unfixed]
example : fromOrbitCheck Variant.unfixed (1 / 1000 : ℚ) 1 (-2) (1 / 2) 1 = some .unboundE := by
  rw [check_unboundE_iff]; norm_num [aNeg, Variant.unfixed]
/-- a rational orbit: a = 1, e = 3/5, all angles with (cos, sin) = (3/5, 4/5), μ = 16/25·…:
    `v0² = μ/a/(1-e²)` with μ = 16/25 gives v0 = 1 -/
example : ∀ P : Orbit.Part ℚ, P = fromOrbitCore (⟨0, 0, 0, 0, 0, 0, 1⟩ : Orbit.Part ℚ) 0 1 (3 / 5)
      ⟨3 / 5, 4 / 5, 3 / 5, 4 / 5, 3 / 5, 4 / 5, 3 / 5, 4 / 5⟩ 1 →
    P.vx ^ 2 + P.vy ^ 2 + P.vz ^ 2 = (16 / 25) * (2 / ((16 / 25) / (1 + 9 / 25)) - 1) := by
  intro P hP
  subst hP
  have := (c11_fromOrbit_defining_relations (16 / 25 : ℚ) ⟨0, 0, 0, 0, 0, 0, 1⟩ 0 1 (3 / 5)
    (3 / 5) (4 / 5) (3 / 5) (4 / 5) (3 / 5) (4 / 5) (3 / 5) (4 / 5) 1
    (by norm_num) (by norm_num) (by norm_num) (by norm_num) (by norm_num) (by norm_num) (by norm_num)
    (by norm_num)).2.1
  simp only [sub_zero] at this
  rw [this]; norm_num

end elements
end RV.C11
