import RV.Proofs.SyncCorr
import RV.Proofs.SyncSaba
import RV.Proofs.SyncSabaPhys
import RV.Proofs.SyncMerc
import RV.Proofs.SyncInt
import RV.Proofs.SyncVar
import RV.Proofs.SyncEos
import RV.Proofs.SyncKeepPhys
import Mathlib.Tactic.Ring
/-
  C09 — deferred synchronisation never changes the physics.

  Statements are about the flag machines of RV/Model/Sync.lean — the same functions the
  driver `drv_c09` runs to predict the primitive-call lists that rv/c09.py replays through
  the real exported C primitives — with the floating-point kernels left *uninterpreted*
  (`Sem`): every theorem of the "bitwise" part therefore holds for IEEE doubles.
-/
set_option linter.unusedVariables false
namespace RV.Sync
variable {T PJ X V A : Type}

/-! ### bitwise part: pure dataflow, no algebraic hypothesis -/

/-- With `keep_unsynchronized`, `synchronize` leaves the internal coordinates `p_jh` untouched
    and changes no flag (beyond the allocation bookkeeping every entry point does). -/
theorem c09_whfast_keep_sync_preserves_internal (S : Sem T PJ X V A) (c : Config)
    (hk : c.keep = true) (x : Flags × St PJ X V A) :
    (apply S c .synchronize x).2.pj = x.2.pj ∧ (apply S c .synchronize x).1 = initF x.1 ∧
    (x.1.allocated = true → (apply S c .synchronize x).1 = x.1) := by
  rw [apply_sync]
  refine ⟨exec_sync_keep_pj S c hk _ _, syncOps_keep_flags c hk _, fun h => ?_⟩
  rw [syncOps_keep_flags c hk, initF_of_allocated h]

/-- Diagnostics / copies / snapshots (`read`) do not touch anything. -/
theorem c09_whfast_read_is_identity (S : Sem T PJ X V A) (c : Config) (x : Flags × St PJ X V A) :
    apply S c .read x = x := rfl

/-- **Interleaving theorem.**  `keep_unsynchronized = 1`, `safe_mode = 0`, any kernel, corrector,
    corrector2, coordinate system, any initial flags and state: for every sequence `σ` of steps,
    synchronisations and read-only calls, the internal coordinates and the flags after `σ` are
    those of the run that performs only the steps of `σ`; and what `synchronize` then shows the
    user (positions, velocities) is the same too.  No hypothesis on the primitives. -/
theorem c09_whfast_keep_unsynchronized_bitwise (S : Sem T PJ X V A) (c : Config)
    (hk : c.keep = true) (hs : c.safe = false) (σ : List (Op (X × V)))
    (hσ : ∀ o ∈ σ, o.benign = true) (x : Flags × St PJ X V A) :
    let a := run S c σ x
    let b := run S c (σ.filter Op.isStep) x
    a.2.pj = b.2.pj ∧ initF a.1 = initF b.1 ∧
    (apply S c .synchronize a).1 = (apply S c .synchronize b).1 ∧
    (apply S c .synchronize a).2.pj = (apply S c .synchronize b).2.pj ∧
    (apply S c .synchronize a).2.pos = (apply S c .synchronize b).2.pos ∧
    (apply S c .synchronize a).2.vel = (apply S c .synchronize b).2.vel := by
  intro a b
  have h := rel_run S c hk hs σ hσ x x (Rel.refl x)
  exact ⟨h.2.1, h.1, rel_sync_obs S c h⟩

/-- **Interleaving theorem over the full operation alphabet of the model** (`step`, `synchronize`,
    `read`, `setRecalc` = the user sets `recalculate_coordinates_this_timestep`, `poke x` = the user
    overwrites particle positions / velocities): keep_unsynchronized = 1, safe_mode = 0, *every*
    sequence σ, no side condition — the synchronize and read-only calls of σ can be dropped
    (`Op.isKept` keeps steps, flag settings and particle edits in place) without changing the
    internal coordinates, the flags, or what a final synchronize shows.  This holds although a
    particle edit made while unsynchronised is physically meaningless (it is overwritten, with a
    warning, by the synchronize part1 performs before recalculating): WHFast's part1 always
    synchronises before `from_inertial`, so what it reads never depends on an earlier output call. -/
theorem c09_whfast_keep_unsynchronized_bitwise_all_ops (S : Sem T PJ X V A) (c : Config)
    (hk : c.keep = true) (hs : c.safe = false) (σ : List (Op (X × V))) (x : Flags × St PJ X V A) :
    let a := run S c σ x
    let b := run S c (σ.filter Op.isKept) x
    a.2.pj = b.2.pj ∧ initF a.1 = initF b.1 ∧
    (apply S c .synchronize a).2.pj = (apply S c .synchronize b).2.pj ∧
    (apply S c .synchronize a).2.pos = (apply S c .synchronize b).2.pos ∧
    (apply S c .synchronize a).2.vel = (apply S c .synchronize b).2.vel := by
  intro a b
  have h := rel_run_all S c hk hs σ x x (Rel.refl x)
  exact ⟨h.2.1, h.1, (rel_sync_obs S c h).2⟩

/-- `synchronize ∘ synchronize = synchronize` on flags, internal coordinates, positions and
    velocities — every option combination, every flag state. -/
theorem c09_whfast_synchronize_idempotent (S : Sem T PJ X V A) (c : Config)
    (x : Flags × St PJ X V A) :
    let y := apply S c .synchronize x
    let z := apply S c .synchronize y
    z.1 = y.1 ∧ z.2.pj = y.2.pj ∧ z.2.pos = y.2.pos ∧ z.2.vel = y.2.vel := by
  intro y z
  cases hk : c.keep
  · -- without keep_unsynchronized the first call sets is_synchronized: the second does nothing
    have hy : y.1.isSync = true ∧ y.1.allocated = true := by
      show (syncOps c x.1).2.isSync = true ∧ (syncOps c x.1).2.allocated = true
      cases hs : (initF x.1).isSync
      · rw [syncOps_unsync c x.1 hs]; simp [hk, initF_allocated]
      · rw [syncOps_sync c x.1 hs]; exact ⟨hs, initF_allocated _⟩
    have e : syncOps c y.1 = ([.init], y.1) := by
      have := syncOps_sync c y.1 (by rw [initF_of_allocated hy.2]; exact hy.1)
      rw [this, initF_of_allocated hy.2]
    show (syncOps c y.1).2 = y.1 ∧ (exec S (syncOps c y.1).1 y.2).pj = _ ∧
      (exec S (syncOps c y.1).1 y.2).pos = _ ∧ (exec S (syncOps c y.1).1 y.2).vel = _
    rw [e]; exact ⟨rfl, rfl, rfl, rfl⟩
  · have h := rel_sync_obs S c (rel_sync S c hk x)
    -- `h` compares sync x with sync (sync x)
    exact ⟨h.1.symm, h.2.1.symm, h.2.2.1.symm, h.2.2.2.symm⟩

/-- … and without `keep_unsynchronized` the second call emits no primitive at all. -/
theorem c09_whfast_synchronize_twice_no_primitives (c : Config) (hk : c.keep = false) (f : Flags) :
    (syncOps c (syncOps c f).2).1 = [.init] := by
  have hy : (syncOps c f).2.isSync = true ∧ (syncOps c f).2.allocated = true := by
    cases hs : (initF f).isSync
    · rw [syncOps_unsync c f hs]; simp [hk, initF_allocated]
    · rw [syncOps_sync c f hs]; exact ⟨hs, initF_allocated _⟩
  rw [syncOps_sync c _ (by rw [initF_of_allocated hy.2]; exact hy.1)]

/-! ### physics part: group laws of the primitives as hypotheses -/

section physics
variable [AddCommGroup T]

/-- **Unsafe mode + synchronize = safe mode** (WHFast: every coordinate system, kernel, corrector
    order), for every sequence `σ` of steps, intermediate synchronisations and read-only calls,
    hence for any number of steps between synchronisations: positions, velocities and internal
    coordinates after a final `synchronize` are those of the safe-mode run doing the same steps.

    Hypotheses: `Laws` = Kepler and centre-of-mass drifts are flows (`K a ∘ K b = K (a+b)`) that
    commute with each other, `from_inertial ∘ to_inertial = id` (C12), `dt/2 + dt/2 = dt`,
    `5dt/8 + 3dt/8 = dt`; `hC`: the first symplectic corrector with `inv = 1` undoes the one
    with `inv = -1` (proved from the group laws of its factors in
    `c09_whfast_corrector_inverse`).

    `…_partial` because of `hF18`: the same for the second corrector (`corrector2`).  For the
    source as found (`c.c2fixed = false`) this hypothesis is FALSE when `corrector2 = 1` — finding
    F18:whfast-corrector2-not-inverse: `reb_whfast_apply_corrector2(r,-1.)` is not the inverse
    of `apply_corrector2(r,1.)` (`c09_F18_corrector2_not_inverse_in_model`).  It is trivially
    true when `corrector2 = 0` (`c09_whfast_unsafe_sync_equals_safe_no_corrector2`) and proved
    for the repaired source (`c09_whfast_unsafe_sync_equals_safe_repaired`).  Start state: synchronised, coordinates about to be
    recalculated (a new simulation, or after the user set the flag). -/
theorem c09_whfast_unsafe_sync_equals_safe_partial (S : Sem T PJ X V A) (L : Laws S) (c : Config)
    (hC : InverseOn S (corrBlk c)) (hF18 : InverseOn S (c2Blk c))
    (σ : List (Op (X × V))) (hσ : ∀ o ∈ σ, o.benign = true) (x0 : Flags × St PJ X V A)
    (h0 : x0.1.isSync = true) (hr : (initF x0.1).recalc = true) :
    let u := apply S (c.mode false false) .synchronize (run S (c.mode false false) σ x0)
    let v := run S (c.mode true false) (σ.filter Op.isStep) x0
    u.2.pj = v.2.pj ∧ u.2.pos = v.2.pos ∧ u.2.vel = v.2.vel := by
  intro u v
  have hf : initF x0.1 = ⟨true, true, true⟩ := by
    rw [flags_eta (initF x0.1), initF_isSync, h0, hr, initF_allocated]
  exact inv_final S c (inv_run L c hC hF18 σ hσ x0 x0 (Inv.fresh _ _ rfl hf hf))

/-- the statement for `n` uninterrupted steps: `sync (stepsUnsafe n s) = stepsSafe n s` -/
theorem c09_whfast_n_steps_partial (S : Sem T PJ X V A) (L : Laws S) (c : Config)
    (hC : InverseOn S (corrBlk c)) (hF18 : InverseOn S (c2Blk c)) (n : Nat)
    (x0 : Flags × St PJ X V A) (h0 : x0.1.isSync = true) (hr : (initF x0.1).recalc = true) :
    let u := apply S (c.mode false false) .synchronize
      (run S (c.mode false false) (List.replicate n .step) x0)
    let v := run S (c.mode true false) (List.replicate n .step) x0
    u.2.pj = v.2.pj ∧ u.2.pos = v.2.pos ∧ u.2.vel = v.2.vel := by
  have h := c09_whfast_unsafe_sync_equals_safe_partial S L c hC hF18 (List.replicate n .step)
    (fun o ho => by rw [List.eq_of_mem_replicate ho]; rfl) x0 h0 hr
  have e : (List.replicate n (Op.step : Op (X × V))).filter Op.isStep = List.replicate n .step := by
    rw [List.filter_eq_self]; intro o ho; rw [List.eq_of_mem_replicate ho]; rfl
  rw [e] at h
  exact h

/-- full strength where it holds: no second corrector, no hypothesis beyond the group laws of
    drift and transformation when there is no first corrector either -/
theorem c09_whfast_unsafe_sync_equals_safe (S : Sem T PJ X V A) (L : Laws S) (c : Config)
    (hc : c.corrector = 0) (hc2 : c.corrector2 = false)
    (σ : List (Op (X × V))) (hσ : ∀ o ∈ σ, o.benign = true) (x0 : Flags × St PJ X V A)
    (h0 : x0.1.isSync = true) (hr : (initF x0.1).recalc = true) :
    let u := apply S (c.mode false false) .synchronize (run S (c.mode false false) σ x0)
    let v := run S (c.mode true false) (σ.filter Op.isStep) x0
    u.2.pj = v.2.pj ∧ u.2.pos = v.2.pos ∧ u.2.vel = v.2.vel := by
  apply c09_whfast_unsafe_sync_equals_safe_partial S L c ?_ ?_ σ hσ x0 h0 hr
  · intro s; simp [corrBlk, hc, exec]
  · intro s; simp [c2Blk, hc2, exec]

/-- **A7.**  The first symplectic corrector (orders 3, 5, 7, 11, 17; Jacobi and barycentric
    coordinates) applied with `inv = 1` undoes the one applied with `inv = -1`, from the group laws
    of its factors (`CorrLaws`: Kepler drift is a flow, the kick is additive in its coefficient
    and does not move positions) and the palindromic structure of the table of
    `reb_whfast_apply_corrector`, which is checked by `decide`. -/
theorem c09_whfast_corrector_inverse (S : Sem T PJ X V A) (L : CorrLaws S) (c : Config) :
    InverseOn S (corrBlk c) := corrector_inverse L c

/-- full strength without the second corrector: every coordinate system, kernel and order of
    the first corrector; hypotheses are only the group laws of the primitives -/
theorem c09_whfast_unsafe_sync_equals_safe_no_corrector2 (S : Sem T PJ X V A) (L : Laws S)
    (LC : CorrLaws S) (c : Config) (hc2 : c.corrector2 = false)
    (σ : List (Op (X × V))) (hσ : ∀ o ∈ σ, o.benign = true) (x0 : Flags × St PJ X V A)
    (h0 : x0.1.isSync = true) (hr : (initF x0.1).recalc = true) :
    let u := apply S (c.mode false false) .synchronize (run S (c.mode false false) σ x0)
    let v := run S (c.mode true false) (σ.filter Op.isStep) x0
    u.2.pj = v.2.pj ∧ u.2.pos = v.2.pos ∧ u.2.vel = v.2.vel := by
  apply c09_whfast_unsafe_sync_equals_safe_partial S L c (corrector_inverse LC c) ?_ σ hσ x0 h0 hr
  intro s; simp [c2Blk, hc2, exec]

/-- **Full strength for the repaired source** (fixes/F18.diff, `c.c2fixed = true`; rv/c09.py
    detects the variant and the replay confirms it bit for bit): every coordinate system, kernel,
    first-corrector order, with or without the second corrector; only the group laws of the
    primitives are assumed. -/
theorem c09_whfast_unsafe_sync_equals_safe_repaired (S : Sem T PJ X V A) (L : Laws S)
    (LC : CorrLaws S) (L2 : C2Laws S) (c : Config) (hf : c.c2fixed = true)
    (σ : List (Op (X × V))) (hσ : ∀ o ∈ σ, o.benign = true) (x0 : Flags × St PJ X V A)
    (h0 : x0.1.isSync = true) (hr : (initF x0.1).recalc = true) :
    let u := apply S (c.mode false false) .synchronize (run S (c.mode false false) σ x0)
    let v := run S (c.mode true false) (σ.filter Op.isStep) x0
    u.2.pj = v.2.pj ∧ u.2.pos = v.2.pos ∧ u.2.vel = v.2.vel :=
  c09_whfast_unsafe_sync_equals_safe_partial S L c (corrector_inverse LC c)
    (corrector2_inverse_fixed LC L2 c hf) σ hσ x0 h0 hr

end physics

/-! ### SABA -/

/-- **SABA, interleaving theorem** (all 18 types incl. both corrector families;
    `ri_saba.keep_unsynchronized = 1`, `safe_mode = 0`): as for WHFast.  Extra hypothesis on the
    start flags: coordinates are not about to be recalculated from an unsynchronised state —
    unlike WHFast, SABA's part1 does not synchronise before `from_inertial`
    (integrator_saba.c:240-243); true for a new simulation and after every step. -/
theorem c09_saba_keep_unsynchronized_bitwise (S : Sem T PJ X V A) (c : SabaConfig)
    (hk : c.keep = true) (hs : c.safe = false) (σ : List (Op (X × V)))
    (hσ : ∀ o ∈ σ, o.benign = true) (x : Flags × St PJ X V A)
    (hx : (initF x.1).isSync = false → (initF x.1).recalc = false) :
    let a := sabaRun S c σ x
    let b := sabaRun S c (σ.filter Op.isStep) x
    a.2.pj = b.2.pj ∧ initF a.1 = initF b.1 ∧
    (sabaApply S c .synchronize a).2.pj = (sabaApply S c .synchronize b).2.pj ∧
    (sabaApply S c .synchronize a).2.pos = (sabaApply S c .synchronize b).2.pos ∧
    (sabaApply S c .synchronize a).2.vel = (sabaApply S c .synchronize b).2.vel := by
  intro a b
  have h := srel_run S c hk hs σ hσ x x ⟨Rel.refl x, hx⟩
  have hi : a.1.isSync = b.1.isSync := by
    have := congrArg Flags.isSync h.1.1
    rwa [initF_isSync, initF_isSync] at this
  exact ⟨h.1.2.1, h.1.1, srel_sync_obs S c hk h hi⟩

/-- SABA, alphabet extended with particle edits (`poke`): covered are all sequences without
    `setRecalc`.  Setting `recalculate_coordinates_this_timestep` by hand while SABA is
    unsynchronised is **not** covered and cannot be: SABA's part1 calls `from_inertial` without
    synchronising first (integrator_saba.c:240-243), so what it reads *does* depend on whether an
    output call synchronised the particles in between. -/
theorem c09_saba_keep_unsynchronized_bitwise_with_edits (S : Sem T PJ X V A) (c : SabaConfig)
    (hk : c.keep = true) (hs : c.safe = false) (σ : List (Op (X × V)))
    (hσ : ∀ o ∈ σ, Op.notSetRecalc o = true) (x : Flags × St PJ X V A)
    (hx : (initF x.1).isSync = false → (initF x.1).recalc = false) :
    let a := sabaRun S c σ x
    let b := sabaRun S c (σ.filter Op.isKept) x
    a.2.pj = b.2.pj ∧ initF a.1 = initF b.1 := by
  intro a b
  have h := srel_run_all S c hk hs σ hσ x x ⟨Rel.refl x, hx⟩
  exact ⟨h.1.2.1, h.1.1⟩

/-- SABA: with `keep_unsynchronized`, `synchronize` leaves `p_jh` and every flag unchanged -/
theorem c09_saba_keep_sync_preserves_internal (S : Sem T PJ X V A) (c : SabaConfig)
    (hk : c.keep = true) (x : Flags × St PJ X V A) :
    (sabaApply S c .synchronize x).2.pj = x.2.pj ∧ (sabaApply S c .synchronize x).1 = x.1 := by
  refine ⟨saba_exec_sync_keep_pj S c hk _ _, ?_⟩
  show (sabaSyncOps c x.1).2 = x.1
  rw [sabaSyncOps_keep c hk]

/-- SABA: without `keep_unsynchronized` a second `synchronize` emits no primitive -/
theorem c09_saba_synchronize_twice_no_primitives (c : SabaConfig) (hk : c.keep = false) (f : Flags) :
    (sabaSyncOps c (sabaSyncOps c f).2).1 = [] := by
  unfold sabaSyncOps
  cases h : f.isSync <;> simp [hk, h]

/-- **SABA: unsafe mode + synchronize = safe mode**, all 18 types (`SABA1…4`, `SABA(10,4)`,
    `(8,6,4)`, `(10,6,4)`, `SABAH…`, and the corrector families `SABACM1…4`, `SABACL1…4`), every
    sequence of steps, intermediate synchronisations and read-only calls from a new simulation:
    positions, velocities and internal coordinates after a final `synchronize` are those of the
    safe-mode run doing the same steps.  Hypotheses (`SabaLaws`): Kepler / centre-of-mass drifts
    are commuting flows, `from_inertial ∘ to_inertial = id`, `c₀dt + c₀dt = 2c₀dt`, and — for the
    corrector types only — the **merge law of the corrector step**
    `corr(cc) ; corr(cc) = corr(2cc)` on the internal coordinates, stated explicitly as
    `SabaLaws.corr_merge`; `c09_saba_modified_kick_merge` derives it for the modified-kick family
    from laws of its factors, for the lazy family it remains a hypothesis. -/
theorem c09_saba_unsafe_sync_equals_safe [AddCommGroup T] (S : Sem T PJ X V A) (c : SabaConfig)
    (L : SabaLaws S c) (σ : List (Op (X × V))) (hσ : ∀ o ∈ σ, o.benign = true)
    (x0 : Flags × St PJ X V A) (h0 : x0.1.isSync = true) (hr : (initF x0.1).recalc = true) :
    let u := sabaApply S (c.mode false false) .synchronize (sabaRun S (c.mode false false) σ x0)
    let v := sabaRun S (c.mode true false) (σ.filter Op.isStep) x0
    u.2.pj = v.2.pj ∧ u.2.pos = v.2.pos ∧ u.2.vel = v.2.vel := by
  intro u v
  have hf : initF x0.1 = ⟨true, true, true⟩ := by
    rw [flags_eta (initF x0.1), initF_isSync, h0, hr, initF_allocated]
  exact sinv_final S c (sinv_run L σ hσ x0 x0 (SInv.fresh _ _ rfl hf hf))

/-- the merge law of the corrector step for the modified-kick family (`SABACM1…4`), from laws of
    its factors: the kick is additive at fixed accelerations, kick and jerk do not move positions,
    the jerk buffer is overwritten independently of the kick, the folded acceleration reads the
    jerk buffer only, `cc·dt + cc·dt = 2cc·dt` -/
theorem c09_saba_modified_kick_merge [AddCommGroup T] (S : Sem T PJ X V A) (t : Nat)
    (ht : t / 0x100 = 1) (L : ModKickLaws S (t % 0x100)) (s : St PJ X V A) :
    (exec S (sabaCorrOps t 1 ++ sabaCorrOps t 1) s).pj = (exec S (sabaCorrOps t 2) s).pj :=
  saba_modified_kick_merge t ht L s

/-! ### WHFast with variational particles (`N_var > 0`) -/

section variational
open RV.Sync.Var
variable {VX VV VA : Type}

/-- **keep_unsynchronized bitwise clause with first-order variational particles** (the flag machine
    `vStepOps` / `vSyncOps` of the fourth replay family: Jacobi coordinates, default kernel, no
    correctors, no MEGNO).  Footprint components are finer here (`VSem`): positions, velocities and
    accelerations of the variational particles are separate from those of the real particles,
    because `to_inertial` overwrites only the latter.  For every sequence of steps,
    synchronisations and read-only calls, `p_jh` (all N entries, variational ones included) and the
    flags are those of the run doing only the steps, and a final synchronize shows the same real
    *and variational* positions and velocities.  No hypothesis on the primitives. -/
theorem c09_whfast_variational_keep_unsynchronized_bitwise (S : VSem T PJ X V A VX VV VA) (c : Config)
    (hk : c.keep = true) (hs : c.safe = false) (σ : List (Op Unit)) (hσ : ∀ o ∈ σ, o.benign = true)
    (x : Flags × VSt PJ X V A VX VV VA) :
    let a := vRun S c σ x
    let b := vRun S c (σ.filter Op.isStep) x
    a.2.pj = b.2.pj ∧ initF a.1 = initF b.1 ∧
    (vApply S c .synchronize a).2.pj = (vApply S c .synchronize b).2.pj ∧
    (vApply S c .synchronize a).2.pos = (vApply S c .synchronize b).2.pos ∧
    (vApply S c .synchronize a).2.vel = (vApply S c .synchronize b).2.vel ∧
    (vApply S c .synchronize a).2.vpos = (vApply S c .synchronize b).2.vpos ∧
    (vApply S c .synchronize a).2.vvel = (vApply S c .synchronize b).2.vvel := by
  intro a b
  have h := vrel_run S c hk hs σ hσ x x (VRel.refl x)
  exact ⟨h.2.1, h.1, vrel_sync_obs S c hk h⟩

/-- with variational particles and keep_unsynchronized, `synchronize` returns all N entries of
    `p_jh` unchanged (the cache covers the variational entries too — seeded change C09-d breaks
    exactly this) and synchronising twice shows what synchronising once shows -/
theorem c09_whfast_variational_keep_sync_preserves_internal (S : VSem T PJ X V A VX VV VA) (c : Config)
    (hk : c.keep = true) (x : Flags × VSt PJ X V A VX VV VA) :
    (vApply S c .synchronize x).2.pj = x.2.pj ∧ (vApply S c .synchronize x).1 = initF x.1 ∧
    (let y := vApply S c .synchronize x
     let z := vApply S c .synchronize y
     z.2.pj = y.2.pj ∧ z.2.pos = y.2.pos ∧ z.2.vel = y.2.vel ∧ z.2.vpos = y.2.vpos ∧ z.2.vvel = y.2.vvel) := by
  obtain ⟨e1, e2, _⟩ := vsync_keep S c hk x.1 x.2
  refine ⟨e2, e1, ?_⟩
  have h := vrel_sync_obs S c hk (vrel_sync S c hk x)
  exact ⟨h.1.symm, h.2.1.symm, h.2.2.1.symm, h.2.2.2.1.symm, h.2.2.2.2.symm⟩

/-- **Variational centre of mass: every step advances it by exactly one `dt`, in every mode**
    (repaired source, `c.vfix = true`).  Under the clock laws `VClock` (facts about the C
    primitives: the Kepler / COM / jump / interaction steps do not move `p_jh[vc.index].pos`, the
    explicit drift adds its coefficient, the transformations carry it between `p_jh` and the
    variational particles): for *every* combination of safe_mode and keep_unsynchronized, every
    internal flag state and every sequence of steps, synchronisations, read-only calls and
    `recalculate_coordinates_this_timestep` settings, the variational particles the user sees have
    received `2 · #steps` half drifts, before and after a final synchronize, and the copy in `p_jh`
    has not fallen behind.  So in this respect keep_unsynchronized / safe_mode = 0 runs show what
    the safe run shows (second statement: two configurations, same count). -/
theorem c09_whfast_variational_com_drift_every_mode {S : VSem T PJ X V A VX VV VA} (K : VClock S)
    (c c' : Config) (hv : c.vfix = true) (hv' : c'.vfix = true) (σ : List (Op Unit)) (n : Int)
    (x : Flags × VSt PJ X V A VX VV VA) (h : VInv K n x) :
    let a := vRun S c σ x
    let a' := vRun S c' σ x
    K.κx a.2.vpos = n + 2 * stepCount σ ∧
    K.κx (vApply S c .synchronize a).2.vpos = n + 2 * stepCount σ ∧
    VInv K (n + 2 * stepCount σ) a ∧
    K.κx (vApply S c .synchronize a).2.vpos = K.κx (vApply S c' .synchronize a').2.vpos := by
  intro a a'
  have ha := vinv_run K c hv σ n x h
  have ha' := vinv_run K c' hv' σ n x h
  have hs := vinv_apply K c hv .synchronize _ _ ha
  have hs' := vinv_apply K c' hv' .synchronize _ _ ha'
  simp only [Op.isStep, Bool.false_eq_true, if_false, Int.add_zero] at hs hs'
  exact ⟨ha.1, hs.1, ha, hs.1.trans hs'.1.symm⟩

/-- **The source as found loses half of that drift with keep_unsynchronized** (finding
    C09:whfast-var-keep-com-drift-lost; `vfix = false`): on the concrete clock, two steps and a
    synchronize from a new simulation show 4 half drifts in safe mode and in unsafe mode without
    keep_unsynchronized, but with keep_unsynchronized 3 before the synchronize and 2 after it — the
    `N_var_config` block of part2 restores the cached `p_jh` and with it undoes its own
    centre-of-mass drift, so `p_jh` advances by half a step per step.  The repaired variant
    shows 4. -/
theorem c09_whfast_variational_keep_loses_com_drift_as_found :
    let run := fun (safe keep vfix : Bool) (σ : List (Op Unit)) =>
      (vRun clockSem ⟨.jacobi, 0, 0, false, safe, keep, false, vfix, false⟩ σ
        (⟨true, false, false⟩, ⟨0, (), (), (), 0, 0, (), 0⟩)).2.vpos
    run true false false [.step, .step, .synchronize] = 4 ∧
    run false false false [.step, .step, .synchronize] = 4 ∧
    run false true false [.step, .step] = 3 ∧
    run false true false [.step, .step, .synchronize] = 2 ∧
    run false true true [.step, .step, .synchronize] = 4 := by
  decide

/-- the clock laws are satisfiable (non-vacuity of `VClock`) -/
example : VClock clockSem := clockK

/-- **A successful rescaling of variational particles (`reb_simulation_rescale_var` at the end of a
    step) happens only in a synchronised state, and — repaired source, `rfix = true` — is always
    followed by a rebuild of `p_jh`**: the recalculate flag is set whatever safe_mode says, so the
    next step under *any* configuration `c'` (safe_mode / keep_unsynchronized may have been changed
    in between) contains `from_inertial` and leaves no coordinate above 1e100 in `p_jh` or in the
    particles.  If the rescaling does not happen although a coordinate is too large, the integrator
    was unsynchronised (keep_unsynchronized) and neither flags nor magnitudes changed.
    (Seeded change C09-j — rescale `p_jh[1..]` in place instead of setting the flag — breaks the
    flag half of this in the replay.) -/
theorem c09_whfast_variational_rescale_forces_recalculation (c c' : Config) (f : Flags) (m : VMag) :
    let r := vOpOpsR true c f m (.step : Op Unit)
    (r.2.2.2 = true →
      r.2.1.isSync = true ∧ r.2.1.recalc = true ∧ Prim.fromInertial ∈ (vStepCore c' r.2.1).1 ∧
      vMagStep c' r.2.1 r.2.2.1 = ⟨false, false⟩) ∧
    (r.2.2.2 = false → (vMagStep c f m).bigP = true → r.2.1.isSync = false ∧ r.2.1 = (vStepOps c f).2) := by
  intro r
  have hr : r = ((vStepOps c f).1, vRescaleF true c (vStepOps c f).2 (vMagStep c f m)) := rfl
  generalize (vStepOps c f).2 = g at hr
  generalize vMagStep c f m = m' at hr
  have key : ∀ fl : Flags, fl.recalc = true → Prim.fromInertial ∈ (vStepCore c' fl).1 := by
    intro fl h
    have hi : (initF fl).recalc = true := by unfold initF; split <;> simp [h]
    unfold vStepCore vPart1Ops
    simp [hi]
  have mag : ∀ (fl : Flags) (mm : VMag), fl.recalc = true → mm.bigP = false →
      vMagStep c' fl mm = ⟨false, false⟩ := by
    intro fl mm h hb
    have hi : (initF fl).recalc = true := by unfold initF; split <;> simp [h]
    simp [vMagStep, hi, hb]
  rw [hr]
  unfold vRescaleF
  by_cases hc : (m'.bigP && g.isSync) = true
  · simp only [hc, if_true]
    have hg : g.isSync = true := by simp at hc; exact hc.2
    refine ⟨fun _ => ⟨hg, by simp, key _ (by simp), mag _ _ (by simp) rfl⟩, fun h => by simp at h⟩
  · simp only [hc, if_false]
    refine ⟨fun h => by simp at h, fun _ hb => ⟨?_, rfl⟩⟩
    simp [hb] at hc
    simpa using hc

/-- **The source as found rescales the same magnitude twice when safe_mode is switched off right
    after a rescaling** (finding C09:rescale-var-stale-pjh-after-safe-mode-off; `rfix = false`): a
    step in safe mode with variational coordinates above 1e100 rescales the particles but sets no
    recalculate flag ("safe mode recalculates anyway"); the user then sets `safe_mode = 0`; the next
    step drifts the stale, un-rescaled `p_jh`, the particles come out above 1e100 again and a second
    rescaling adds the same logarithm to `lrescale` once more.  With the flag set unconditionally
    (`rfix = true`) there is exactly one. -/
theorem c09_whfast_variational_rescale_twice_after_safe_mode_off_as_found :
    let cfg := fun (safe : Bool) => (⟨.jacobi, 0, 0, false, safe, false, false, true, true⟩ : Config)
    let count := fun (rfix : Bool) =>
      let r1 := vOpOpsR rfix (cfg true) ⟨true, false, false⟩ ⟨true, true⟩ (.step : Op Unit)
      let r2 := vOpOpsR rfix (cfg false) r1.2.1 r1.2.2.1 (.step : Op Unit)
      (if r1.2.2.2 then 1 else 0) + (if r2.2.2.2 then 1 else 0)
    count false = 2 ∧ count true = 1 := by
  decide

end variational

/-! ### MERCURIUS (kick first) and EOS (outer scheme) -/

/-- **MERCURIUS: unsafe mode + synchronize = safe mode**, any sequence of steps, synchronisations
    and read-only calls from a new simulation.  Hypotheses (`MLaws`): the interaction kick is
    additive in its coefficient at fixed positions (`I(dt/2)∘I(dt/2) = I(dt)`), does not move
    positions, and `inertial_to_dh ∘ dh_to_inertial = id`.  The Kepler/encounter step is
    arbitrary. -/
theorem c09_mercurius_unsafe_sync_equals_safe {P C Dc : Type} [AddCommGroup T]
    (S : MSem T P C A Dc) (L : MLaws S) (σ : List (Op P)) (hσ : ∀ o ∈ σ, o.benign = true)
    (x0 : MFlags × MSt P C A Dc) (h0 : x0.1.isSync = true) (h1 : x0.1.allocD = false) :
    (mApply S false .synchronize (mRun S false σ x0)).2.p = (mRun S true (σ.filter Op.isStep) x0).2.p :=
  mInv_final S (mInv_run L σ hσ x0 x0 (MInv.fresh _ _ rfl h0 h1))

/-- MERCURIUS: `synchronize` twice = once (the second call emits no primitive) -/
theorem c09_mercurius_synchronize_twice_no_primitives (f : MFlags) :
    (mSyncOps (mSyncOps f).2).1 = [] := by
  unfold mSyncOps
  cases h : f.isSync <;> simp [h]

/-- **EOS, `…_partial`**: the outer scheme of EOS in unsafe mode, synchronised at the end, equals
    safe mode *if* the outer drift were an exact flow (`drift a₀ ∘ drift a₀ = drift 2a₀`) and the
    pre-processor undid the post-processor.  In the code the drift is the inner splitting scheme
    `phi1` with `n` sub-steps, so the first hypothesis holds only up to `phi1`'s truncation error:
    the two modes are the *same method up to merging adjacent drifts*, and differ by a
    truncation-level amount — which is what the property allows for EOS and what the search
    measures (difference ≤ 10 × the scheme's own error, observed ratio ≤ 4.5). -/
theorem c09_eos_unsafe_sync_equals_safe_partial {E : Type} (S : ESem E) (L : ELaws S)
    (σ : List (Op E)) (hσ : ∀ o ∈ σ, o.benign = true) (s0 : E) :
    (eApply S false .synchronize (eRun S false σ (true, s0))).2 =
      (eRun S true (σ.filter Op.isStep) (true, s0)).2 := by
  have h := eos_run L σ hσ (true, s0) (true, s0) (Or.inl ⟨rfl, rfl, rfl⟩)
  rcases h with ⟨h1, h2, h3⟩ | ⟨h1, h2, h3⟩
  · simp [eApply, eSyncOps, h1, eExec, h3]
  · simp [eApply, eSyncOps, h1, eExec, eDenote, h3]

/-- **EOS at full resolution**: the operator list of RV.Model.SyncEos — every shell-1 drift,
    shell-1 interaction and shell-0 interaction with its coefficient, for all 9 × 9 `phi0`/`phi1`
    pairs and every `n`; this is what rv/c09.py replays bit for bit against
    `reb_integrator_eos_part2` / `_synchronize` — run under *any* interpretation of the three
    elementary operators, is the abstract outer schedule run with the operators `semOf` builds from
    those lists.  Hence `c09_eos_unsafe_sync_equals_safe_partial` is a statement about the replayed
    schedule: unsafe + synchronize = safe whenever the concrete `driftShell0` lists satisfy
    `drift a₀ ∘ drift a₀ = drift 2a₀` and the concrete pre/post-processor lists cancel. -/
theorem c09_eos_concrete_schedule_refines_abstract {K E : Type} [Scalar K] (den : Eos.EOp K → E → E)
    (Tb : Eos.Tab K) (phi0 phi1 n : Nat) (dt : K) (safe isSync : Bool) (s : E) :
    Eos.execE den (Eos.part2 Tb phi0 phi1 n safe isSync dt).1 s =
      eExec (Eos.semOf den Tb phi0 phi1 n dt) (eStepOps safe isSync).1 s ∧
    Eos.execE den (Eos.sync Tb phi0 phi1 n isSync dt).1 s =
      eExec (Eos.semOf den Tb phi0 phi1 n dt) (eSyncOps isSync).1 s :=
  ⟨Eos.exec_concr den Tb phi0 phi1 n dt _ s, Eos.exec_concr den Tb phi0 phi1 n dt _ s⟩

/-- EOS: `synchronize` twice = once -/
theorem c09_eos_synchronize_twice_no_primitives (b : Bool) : (eSyncOps (eSyncOps b).2).1 = [] := by
  cases b <;> rfl

/-! ### `reb_simulation_integrate`: `dt` is only assigned in a synchronised state -/

/-- **WHFast.**  In the plan `reb_simulation_integrate` / `reb_check_exit` produce around the
    steps (any number `n` of full steps, `k` of shortened last steps, either finish mode, any
    options with `keep_unsynchronized = 0`, any start flags) every assignment to `r->dt` — the
    shortened last step `dt = tmax - t`, the restore `dt = last_full_dt`, the sign change at
    entry — is executed with `is_synchronized = 1`, i.e. is preceded by a synchronize with no step
    in between, so that no pending half step is ever completed with a different `dt`.
    Hypothesis `h`: the direction is not reversed on an unsynchronised simulation, *or* the entry
    synchronises first (`syncFirst`, the repaired source).  For the source as found the hypothesis
    is needed: `c09_integrate_reverse_unsynchronized_flips_dt`. -/
theorem c09_whfast_integrate_dt_only_when_synchronized (c : Config) (hk : c.keep = false)
    (n k : Nat) (exact reverse syncFirst force rc : Bool) (f : Flags)
    (h : reverse = true → syncFirst = true ∨ f.isSync = true) :
    dtOk (fun f => (stepOps c f).2) (fun f => (syncOps c f).2) (fun f => (syncOps c f).2) Flags.isSync
      (integratePlan n k exact reverse syncFirst force rc) f = true :=
  dtOk_plan _ _ _ _ force (fun _ => syncOps_nokeep_isSync c hk)
    (fun g => by cases force <;> exact syncOps_nokeep_isSync c hk g) n k exact reverse syncFirst rc f h

/-- **Any `keep_unsynchronized`, repaired source** (`force = true`: every synchronize that precedes
    an assignment to `dt` — before the shortened last step, before a restore that changes `dt`,
    before the sign change — ignores keep_unsynchronized,
    fixes/C09-exact-finish-keep-unsynchronized.diff): every assignment to `dt` happens with
    `is_synchronized = 1`, also with `keep_unsynchronized = 1`. -/
theorem c09_whfast_integrate_dt_only_when_synchronized_repaired (c : Config)
    (n k : Nat) (exact reverse syncFirst rc : Bool) (f : Flags)
    (h : reverse = true → syncFirst = true ∨ f.isSync = true) :
    dtOk (fun f => (stepOps c f).2) (fun f => (syncOps c f).2)
      (fun f => (syncOps { c with keep := false } f).2) Flags.isSync
      (integratePlan n k exact reverse syncFirst true rc) f = true :=
  dtOk_plan _ _ _ _ true (fun hf => by cases hf)
    (fun g => syncOps_nokeep_isSync { c with keep := false } rfl g) n k exact reverse syncFirst rc f h

/-- **keep_unsynchronized = 1, source as found**: with at least one step before a shortened
    last step, `dt = tmax - t` is assigned while the internal state is unsynchronised (the
    synchronize restored `p_jh`): the pending half drift is then completed with the shortened `dt`.
    The C API allows this silently (only the Python `getSimulation(mode='exact')` guards it) —
    finding C09:exact-finish-with-keep-unsynchronized, exhibited on the real code by the search. -/
theorem c09_whfast_integrate_keep_unsynchronized_assigns_dt_unsynchronized (c : Config)
    (hk : c.keep = true) (hs : c.safe = false) (n k : Nat) (exact syncFirst rc : Bool) (f : Flags) :
    dtOk (fun f => (stepOps c f).2) (fun f => (syncOps c f).2) (fun f => (syncOps c f).2) Flags.isSync
      (integratePlan (n + 1) (k + 1) exact false syncFirst false rc) f = false :=
  dtOk_keep_false c hk hs n k exact syncFirst rc f

theorem c09_saba_integrate_dt_only_when_synchronized (c : SabaConfig) (hk : c.keep = false)
    (n k : Nat) (exact reverse syncFirst force rc : Bool) (f : Flags)
    (h : reverse = true → syncFirst = true ∨ f.isSync = true) :
    dtOk (fun f => (sabaStepOps c f).2) (fun f => (sabaSyncOps c f).2) (fun f => (sabaSyncOps c f).2)
      Flags.isSync (integratePlan n k exact reverse syncFirst force rc) f = true := by
  have hsync : ∀ g : Flags, (sabaSyncOps c g).2.isSync = true := by
    intro g; unfold sabaSyncOps; cases hg : g.isSync <;> simp [hk, hg]
  exact dtOk_plan _ _ _ _ force (fun _ => hsync) (fun g => by cases force <;> exact hsync g) n k exact
    reverse syncFirst rc f h

theorem c09_mercurius_integrate_dt_only_when_synchronized (safe : Bool)
    (n k : Nat) (exact reverse syncFirst force rc : Bool) (f : MFlags)
    (h : reverse = true → syncFirst = true ∨ f.isSync = true) :
    dtOk (fun f => (mStepOps safe f).2) (fun f => (mSyncOps f).2) (fun f => (mSyncOps f).2) MFlags.isSync
      (integratePlan n k exact reverse syncFirst force rc) f = true := by
  have hsync : ∀ g : MFlags, (mSyncOps g).2.isSync = true := by
    intro g; unfold mSyncOps; cases hg : g.isSync <;> simp [hg]
  exact dtOk_plan _ _ _ _ force (fun _ => hsync) (fun g => by cases force <;> exact hsync g) n k exact
    reverse syncFirst rc f h

theorem c09_eos_integrate_dt_only_when_synchronized (safe : Bool)
    (n k : Nat) (exact reverse syncFirst force rc : Bool) (b : Bool)
    (h : reverse = true → syncFirst = true ∨ b = true) :
    dtOk (fun b => (eStepOps safe b).2) (fun b => (eSyncOps b).2) (fun b => (eSyncOps b).2) id
      (integratePlan n k exact reverse syncFirst force rc) b = true := by
  have hsync : ∀ g : Bool, (eSyncOps g).2 = true := by intro g; cases g <;> rfl
  exact dtOk_plan _ _ _ _ force (fun _ => hsync) (fun g => by cases force <;> exact hsync g) n k exact
    reverse syncFirst rc b h

/-- the source as found (`syncFirst = false`): reversing the direction of integration on an
    unsynchronised simulation assigns `dt` while a half step is pending — finding
    C09:integrate-reverse-unsynchronized, exhibited on the real code by the search -/
theorem c09_integrate_reverse_unsynchronized_flips_dt (c : Config) (n k : Nat) (exact rc : Bool)
    (f : Flags) (hf : f.isSync = false) :
    dtOk (fun f => (stepOps c f).2) (fun f => (syncOps c f).2) (fun f => (syncOps c f).2) Flags.isSync
      (integratePlan n k exact true false false rc) f = false := by
  simp [integratePlan, dtOk, hf]

/-! ### particle edits inside the step: `pre_timestep_modifications` / `post_timestep_modifications` -/

/-- **A callback always sees synchronised particles and its edits are always picked up** — flag
    level, WHFast (keep_unsynchronized = 0, any other option, any start flags).  For every sequence
    of steps with or without pre/post callbacks (`reb_simulation_step`: synchronize → callback →
    set the recalculate flags, in that order — `cbStepPlan`), synchronisations and read-only calls:
    every edit (`poke`) is executed with `is_synchronized = 1`, and the step that follows an edit is
    entered synchronised with `recalculate_coordinates_this_timestep = 1`, so part1 transforms the
    edited particles and no synchronize overwrites them first.  (The seeded change that calls the
    callback *before* the synchronize breaks the replay of exactly this plan.) -/
theorem c09_whfast_callback_edits_seen_and_picked_up {U : Type} (c : Config) (hk : c.keep = false)
    (l : List (MOp U)) (f : Flags) :
    editOk (fun f => (stepOps c f).2) (fun f => (syncOps c f).2) (fun f => { f with recalc := true })
      Flags.isSync Flags.recalc (expandAll l) false f = true := by
  have H : EditFlags (fun f => (stepOps c f).2) (fun f => (syncOps c f).2)
      (fun f : Flags => { f with recalc := true }) Flags.isSync Flags.recalc :=
    { sync_isS := syncOps_nokeep_isSync c hk
      sync_isR := fun f h1 h2 => by
        have : (initF f).isSync = true := by rw [initF_isSync]; exact h1
        show (syncOps c f).2.recalc = true
        rw [syncOps_sync c f this]
        unfold initF; split <;> simp_all
      set_isS := fun f h => h
      set_isR := fun f => rfl }
  have := editOk_expand _ _ _ _ _ H l [] false f (fun h => by cases h) (fun p g _ => rfl)
  simpa using this

theorem c09_saba_callback_edits_seen_and_picked_up {U : Type} (c : SabaConfig) (hk : c.keep = false)
    (l : List (MOp U)) (f : Flags) :
    editOk (fun f => (sabaStepOps c f).2) (fun f => (sabaSyncOps c f).2) (fun f => { f with recalc := true })
      Flags.isSync Flags.recalc (expandAll l) false f = true := by
  have H : EditFlags (fun f => (sabaStepOps c f).2) (fun f => (sabaSyncOps c f).2)
      (fun f : Flags => { f with recalc := true }) Flags.isSync Flags.recalc :=
    { sync_isS := fun g => by unfold sabaSyncOps; cases hg : g.isSync <;> simp [hk, hg]
      sync_isR := fun g h1 h2 => by unfold sabaSyncOps; simp [h1, h2]
      set_isS := fun f h => h
      set_isR := fun f => rfl }
  have := editOk_expand _ _ _ _ _ H l [] false f (fun h => by cases h) (fun p g _ => rfl)
  simpa using this

theorem c09_mercurius_callback_edits_seen_and_picked_up {U : Type} (safe : Bool)
    (l : List (MOp U)) (f : MFlags) :
    editOk (fun f => (mStepOps safe f).2) (fun f => (mSyncOps f).2) (fun f => { f with recalc := true })
      MFlags.isSync MFlags.recalc (expandAll l) false f = true := by
  have H : EditFlags (fun f => (mStepOps safe f).2) (fun f => (mSyncOps f).2)
      (fun f : MFlags => { f with recalc := true }) MFlags.isSync MFlags.recalc :=
    { sync_isS := fun g => by unfold mSyncOps; cases hg : g.isSync <;> simp [hg]
      sync_isR := fun g h1 h2 => by unfold mSyncOps; simp [h1, h2]
      set_isS := fun f h => h
      set_isR := fun f => rfl }
  have := editOk_expand _ _ _ _ _ H l [] false f (fun h => by cases h) (fun p g _ => rfl)
  simpa using this

/-- EOS has no internal coordinates: an edit only has to be made in a synchronised state -/
theorem c09_eos_callback_edits_seen_synchronised {U : Type} (safe : Bool) (l : List (MOp U)) (b : Bool) :
    editOk (fun b => (eStepOps safe b).2) (fun b => (eSyncOps b).2) id id (fun _ => true)
      (expandAll l) false b = true := by
  have H : EditFlags (fun b => (eStepOps safe b).2) (fun b => (eSyncOps b).2) (id : Bool → Bool) id (fun _ => true) :=
    { sync_isS := fun g => by cases g <;> rfl
      sync_isR := fun _ _ _ => rfl
      set_isS := fun f h => h
      set_isR := fun f => rfl }
  have := editOk_expand _ _ _ _ _ H l [] false b (fun h => by cases h) (fun p g _ => rfl)
  simpa using this

section physics2
variable [AddCommGroup T]
/-- **Unsafe mode = safe mode with callbacks that edit particles** (WHFast, semantic): for every
    sequence of steps with arbitrary pre/post callback edits, synchronisations and read-only calls,
    the unsafe run followed by a final synchronize shows the positions, velocities and internal
    coordinates of the safe run that performs the same steps and edits.  Same hypotheses as
    `c09_whfast_unsafe_sync_equals_safe_partial`. -/
theorem c09_whfast_unsafe_sync_equals_safe_with_callbacks_partial (S : Sem T PJ X V A) (L : Laws S)
    (c : Config) (hC : InverseOn S (corrBlk c)) (hF18 : InverseOn S (c2Blk c))
    (l : List (MOp (X × V))) (x0 : Flags × St PJ X V A)
    (h0 : x0.1.isSync = true) (hr : (initF x0.1).recalc = true) :
    let u := apply S (c.mode false false) .synchronize (run S (c.mode false false) (expandAll l) x0)
    let v := run S (c.mode true false) ((expandAll l).filter Op.isKept) x0
    u.2.pj = v.2.pj ∧ u.2.pos = v.2.pos ∧ u.2.vel = v.2.vel := by
  intro u v
  have hf : initF x0.1 = ⟨true, true, true⟩ := by
    rw [flags_eta (initF x0.1), initF_isSync, h0, hr, initF_allocated]
  exact inv_final S c (inv_macro_run L c hC hF18 l x0 x0 (Inv.fresh _ _ rfl hf hf))
/-- **keep_unsynchronized = 1 with pre/post timestep callbacks = safe mode** (WHFast, semantic,
    repaired part1 `c.p1fix = true`, fix 35adc5c).  `reb_simulation_step` wraps every callback in
    "synchronize → callback → set recalculate_coordinates_this_timestep"; with keep_unsynchronized
    the synchronize leaves `is_synchronized = 0`, so the next part1 recalculates *while
    unsynchronised*: nested synchronize (cache, sync, restore), warning, `from_inertial`, and — this
    is the repair — `is_synchronized = 1`, hence the first-half drift instead of the merged one.
    For every sequence of steps, synchronisations, read-only calls and recalculate-flag settings
    (i.e. callbacks that do not edit particles; an edit is discarded by the nested synchronize,
    which is the documented meaning of keep_unsynchronized) a final synchronize shows the positions
    and velocities of the safe run doing the same steps.  Hypotheses: the group laws `Laws`, the two
    corrector-inverse facts as in `c09_whfast_unsafe_sync_equals_safe_partial`, and `hfrom`:
    `from_inertial` of synchronised particles yields their coordinates whatever `p_jh` held before
    (it overwrites every position / velocity / mass member). -/
theorem c09_whfast_keep_unsynchronized_with_callbacks_equals_safe_repaired (S : Sem T PJ X V A)
    (L : Laws S) (c : Config) (hp : c.p1fix = true)
    (hfrom : ∀ p q, S.fromI (S.toIpos p) (S.toIvel p) q = p)
    (hC : InverseOn S (corrBlk c)) (hF18 : InverseOn S (c2Blk c))
    (σ : List (Op (X × V))) (hσ : ∀ o ∈ σ, o.noEdit = true) (x0 : Flags × St PJ X V A)
    (h0 : x0.1.isSync = true) (hr : (initF x0.1).recalc = true) :
    let u := apply S (c.mode false true) .synchronize (run S (c.mode false true) σ x0)
    let v := run S (c.mode true false) (σ.filter Op.isStep) x0
    u.2.pos = v.2.pos ∧ u.2.vel = v.2.vel := by
  intro u v
  have hf : initF x0.1 = ⟨true, true, true⟩ := by
    rw [flags_eta (initF x0.1), initF_isSync, h0, hr, initF_allocated]
  exact kinv_final S c (kinv_run L c hp hfrom hC hF18 σ hσ x0 x0 (KInv.fresh _ _ rfl hf hf))

/-- **The source as found applies the merged full drift to freshly recalculated coordinates**
    (`p1fix = false`): the step that follows a callback under keep_unsynchronized consists of the
    nested synchronize, `from_inertial` — after which `p_jh` holds *synchronised* coordinates — and
    then `driftOps c false`, the drift of an *unsynchronised* state (`K(dt) C(dt)`, no correctors):
    half a drift too many per callback step.  The repaired source has `driftOps c true` there. -/
theorem c09_whfast_keep_callback_step_drift_by_source_variant (c : Config) :
    (stepOps (c.mode false true) ⟨false, true, true⟩).1 =
      [.init] ++ ([.init] ++ (([.savePJ] ++ syncMid c) ++ [.restorePJ])) ++ [.warn, .fromInertial] ++
        driftOps c c.p1fix ++ stepTail c ++ [.advT (.frac 1 2)] := by
  cases hp : c.p1fix
  · rw [stepOps_keep_recalc_as_found c hp]
  · rw [stepOps_keep_recalc c hp]
end physics2

/-! ### the hypotheses are satisfiable: a 1-D oscillator, integer time -/

/-- `p_jh` = (position, velocity, centre of mass); time in units of dt/8 -/
def demoSem : Sem Int (Int × Int × Int) Int Int Int where
  ev := fun c => match c with
    | .frac n d => n * (8 / (d : Int)) | .corrA i m => m * (7 * i) | .corrB n s => s * n
    | .c2b s => s | .sabaC r i m => m * (r + i + 3) | .sabaCC r m => m * (r + 1) | _ => 0
  fromI := fun x v p => (x, v, p.2.2)
  toIpos := fun p => p.1
  toIvel := fun p => p.2.1
  posJ := fun p => p.1
  posB := fun p => p.1
  kepler := fun a p => (p.1 + a * p.2.1, p.2.1, p.2.2)
  com := fun a p => (p.1, p.2.1, p.2.2 + a)
  jump := fun _ p => p
  inter := fun b acc p => (p.1, p.2.1 + b * acc, p.2.2)
  upd := fun x => -x
  jerk := fun _ _ p => p
  mkFold := fun _ a => a
  jacAcc := fun _ p => p
  lazyShift := fun p => p
  lazyReset := fun _ p => p
  sabaFold := fun _ => 0
  sabaLazyKick := fun _ _ p => p

example : Laws demoSem where
  kepler_add := by intro a b p; simp only [demoSem]; ext <;> simp; ring
  com_add := by intro a b p; simp only [demoSem]; ext <;> simp; ring
  kepler_com := by intro a b p; rfl
  from_to := by intro p; rfl
  ev_half := by decide
  ev_comp := by decide

example : SabaLaws demoSem ⟨0x101, false, false, false, false, false⟩ where
  kepler_add := by intro a b p; simp only [demoSem]; ext <;> simp; ring
  com_add := by intro a b p; simp only [demoSem]; ext <;> simp; ring
  kepler_com := by intro a b p; rfl
  from_to := by intro p; rfl
  ev_double := by decide
  corr_merge := fun _ s => saba_modified_kick_merge 0x101 rfl
    { inter_add := by intro a b acc p; simp only [demoSem]; ext <;> simp; ring
      posJ_inter := by intro b acc p; rfl
      posJ_jerk := by intro x a p; rfl
      jerk_inter := by intro x a t b p; rfl
      jerk_idem := by intro x a p; rfl
      fold_inter := by intro t b p; rfl
      ev_cc_double := by decide } s

example : C2Laws demoSem where
  ev_half_neg := by decide
  ev_c2b_neg := by decide

example : CorrLaws demoSem where
  kepler_add := by intro a b p; simp only [demoSem]; ext <;> simp; ring
  kepler_zero := by intro p; simp [demoSem]
  inter_add := by intro a b acc p; simp only [demoSem]; ext <;> simp; ring
  inter_zero := by intro acc p; simp [demoSem]
  posJ_inter := by intro b acc p; rfl
  posB_inter := by intro b acc p; rfl
  ev_corrA_neg := by intro i m; simp [demoSem]
  ev_corrA_double := by intro i m; simp only [demoSem]; ring
  ev_corrB_neg := by intro n s; simp [demoSem]

/-- a second instance without a centre-of-mass component, in which `from_inertial` does not look
    at the old `p_jh` at all: `Laws` and the hypothesis `hfrom` of
    `c09_whfast_keep_unsynchronized_with_callbacks_equals_safe_repaired` hold together -/
def demoSemK : Sem Int (Int × Int) Int Int Int where
  ev := fun c => match c with | .frac n d => n * (8 / (d : Int)) | _ => 0
  fromI := fun x v _ => (x, v)
  toIpos := fun p => p.1
  toIvel := fun p => p.2
  posJ := fun p => p.1
  posB := fun p => p.1
  kepler := fun a p => (p.1 + a * p.2, p.2)
  com := fun _ p => p
  jump := fun _ p => p
  inter := fun b acc p => (p.1, p.2 + b * acc)
  upd := fun x => -x
  jerk := fun _ _ p => p
  mkFold := fun _ a => a
  jacAcc := fun _ p => p
  lazyShift := fun p => p
  lazyReset := fun _ p => p
  sabaFold := fun _ => 0
  sabaLazyKick := fun _ _ p => p

example : Laws demoSemK where
  kepler_add := by intro a b p; simp only [demoSemK]; ext <;> simp; ring
  com_add := by intro a b p; rfl
  kepler_com := by intro a b p; rfl
  from_to := by intro p; rfl
  ev_half := by decide
  ev_comp := by decide

example : ∀ p q : Int × Int, demoSemK.fromI (demoSemK.toIpos p) (demoSemK.toIvel p) q = p := by
  intro p q; rfl

/-- MERCURIUS demo: particles = (x, v), kick with a cubic force -/
def demoMSem : MSem Int (Int × Int) Unit Int Unit where
  ev := fun c => match c with | .frac n d => n * (8 / (d : Int)) | _ => 0
  toDhP := fun p => p
  toDhC := fun _ => ()
  toI := fun p _ => p
  upd := fun p => -(p.1 * p.1 * p.1)
  inter := fun b acc p => (p.1, p.2 + b * acc)
  jump := fun _ p => p
  com := fun _ c => c
  kepEnc := fun a _ p => (p.1 + a * p.2, p.2)
  dcrit := fun _ => ()

example : MLaws demoMSem where
  inter_add := by intro a b acc p; simp only [demoMSem]; ext <;> simp; ring
  upd_inter := by intro b acc p; rfl
  dh_to := by intro p c; simp [demoMSem]
  ev_half := by decide

/-- **F18 at model level.**  In this instance, which satisfies every group law above, the
    second corrector of the source as found (`c2fixed = false`) with `inv = 1` does *not* undo
    the one with `inv = -1`: the call list of `reb_whfast_apply_corrector2` (negating both `a`
    and `b`) is not an inverse, so the
    hypothesis `hF18` of `c09_whfast_unsafe_sync_equals_safe_partial` cannot be derived from
    the laws of the primitives.  The search of rv/c09.py exhibits the same on the real code. -/
theorem c09_F18_corrector2_not_inverse_in_model :
    ¬ InverseOn demoSem (c2Blk ⟨.jacobi, 0, 0, true, false, false, false, false, false⟩) := by
  intro h
  have := h ⟨(1, 0, 0), 0, 0, 0, (0, 0, 0), (0, 0, 0)⟩
  revert this
  decide

end RV.Sync
