import RV.Model.Sync
namespace RV.Sync
theorem c09_stub : initF (initF ⟨true, false, false⟩) = initF ⟨true, false, false⟩ := rfl
end RV.Sync
