import RV.Proofs.Sync
/-
  C09 — deferred synchronisation never changes the physics.

  Statements are about the flag machines of RV/Model/Sync.lean — the same functions the
  driver `drv_c09` runs to predict the primitive-call lists that rv/c09.py replays through
  the real exported C primitives — with the floating-point kernels left *uninterpreted*
  (`Sem`): every theorem of the "bitwise" part therefore holds for IEEE doubles.
-/
set_option linter.unusedVariables false
namespace RV.Sync
variable {T PJ X V A : Type}

/-! ### bitwise part: pure dataflow, no algebraic hypothesis -/

/-- With `keep_unsynchronized`, `synchronize` leaves the internal coordinates `p_jh` untouched
    and changes no flag (beyond the allocation bookkeeping every entry point does). -/
theorem c09_whfast_keep_sync_preserves_internal (S : Sem T PJ X V A) (c : Config)
    (hk : c.keep = true) (x : Flags × St PJ X V A) :
    (apply S c .synchronize x).2.pj = x.2.pj ∧ (apply S c .synchronize x).1 = initF x.1 ∧
    (x.1.allocated = true → (apply S c .synchronize x).1 = x.1) := by
  rw [apply_sync]
  refine ⟨exec_sync_keep_pj S c hk _ _, syncOps_keep_flags c hk _, fun h => ?_⟩
  rw [syncOps_keep_flags c hk, initF_of_allocated h]

/-- Diagnostics / copies / snapshots (`read`) do not touch anything. -/
theorem c09_whfast_read_is_identity (S : Sem T PJ X V A) (c : Config) (x : Flags × St PJ X V A) :
    apply S c .read x = x := rfl

/-- **Interleaving theorem.**  `keep_unsynchronized = 1`, `safe_mode = 0`, any kernel, corrector,
    corrector2, coordinate system, any initial flags and state: for every sequence `σ` of steps,
    synchronisations and read-only calls, the internal coordinates and the flags after `σ` are
    those of the run that performs only the steps of `σ`; and what `synchronize` then shows the
    user (positions, velocities) is the same too.  No hypothesis on the primitives. -/
theorem c09_whfast_keep_unsynchronized_bitwise (S : Sem T PJ X V A) (c : Config)
    (hk : c.keep = true) (hs : c.safe = false) (σ : List (Op (X × V)))
    (hσ : ∀ o ∈ σ, o.benign = true) (x : Flags × St PJ X V A) :
    let a := run S c σ x
    let b := run S c (σ.filter Op.isStep) x
    a.2.pj = b.2.pj ∧ initF a.1 = initF b.1 ∧
    (apply S c .synchronize a).1 = (apply S c .synchronize b).1 ∧
    (apply S c .synchronize a).2.pj = (apply S c .synchronize b).2.pj ∧
    (apply S c .synchronize a).2.pos = (apply S c .synchronize b).2.pos ∧
    (apply S c .synchronize a).2.vel = (apply S c .synchronize b).2.vel := by
  intro a b
  have h := rel_run S c hk hs σ hσ x x (Rel.refl x)
  exact ⟨h.2.1, h.1, rel_sync_obs S c h⟩

/-- `synchronize ∘ synchronize = synchronize` on flags, internal coordinates, positions and
    velocities — every option combination, every flag state. -/
theorem c09_whfast_synchronize_idempotent (S : Sem T PJ X V A) (c : Config)
    (x : Flags × St PJ X V A) :
    let y := apply S c .synchronize x
    let z := apply S c .synchronize y
    z.1 = y.1 ∧ z.2.pj = y.2.pj ∧ z.2.pos = y.2.pos ∧ z.2.vel = y.2.vel := by
  intro y z
  cases hk : c.keep
  · -- without keep_unsynchronized the first call sets is_synchronized: the second does nothing
    have hy : y.1.isSync = true ∧ y.1.allocated = true := by
      show (syncOps c x.1).2.isSync = true ∧ (syncOps c x.1).2.allocated = true
      cases hs : (initF x.1).isSync
      · rw [syncOps_unsync c x.1 hs]; simp [hk, initF_allocated]
      · rw [syncOps_sync c x.1 hs]; exact ⟨hs, initF_allocated _⟩
    have e : syncOps c y.1 = ([.init], y.1) := by
      have := syncOps_sync c y.1 (by rw [initF_of_allocated hy.2]; exact hy.1)
      rw [this, initF_of_allocated hy.2]
    show (syncOps c y.1).2 = y.1 ∧ (exec S (syncOps c y.1).1 y.2).pj = _ ∧
      (exec S (syncOps c y.1).1 y.2).pos = _ ∧ (exec S (syncOps c y.1).1 y.2).vel = _
    rw [e]; exact ⟨rfl, rfl, rfl, rfl⟩
  · have h := rel_sync_obs S c (rel_sync S c hk x)
    -- `h` compares sync x with sync (sync x)
    exact ⟨h.1.symm, h.2.1.symm, h.2.2.1.symm, h.2.2.2.symm⟩

/-- … and without `keep_unsynchronized` the second call emits no primitive at all. -/
theorem c09_whfast_synchronize_twice_no_primitives (c : Config) (hk : c.keep = false) (f : Flags) :
    (syncOps c (syncOps c f).2).1 = [.init] := by
  have hy : (syncOps c f).2.isSync = true ∧ (syncOps c f).2.allocated = true := by
    cases hs : (initF f).isSync
    · rw [syncOps_unsync c f hs]; simp [hk, initF_allocated]
    · rw [syncOps_sync c f hs]; exact ⟨hs, initF_allocated _⟩
  rw [syncOps_sync c _ (by rw [initF_of_allocated hy.2]; exact hy.1)]

end RV.Sync
