import RV.Proofs.Transform
/-
  C12 — coordinate transformations are mutual inverses and slot 0 carries the
  total mass and centre of mass of the active particles.

  Statements are about the definitions in RV/Model/Transform.lean (the same ones the
  driver `drv_c12` runs on IEEE doubles against transformations.c), instantiated at an
  arbitrary field `K`: exact arithmetic, every number of active particles `act.length`
  and of test particles `tst.length`, every mass split.  The only hypotheses are the
  non-vanishing of exactly those quantities the C code divides by.
-/
set_option linter.unusedTactic false
set_option linter.unreachableTactic false
set_option linter.unnecessarySeqFocus false
set_option linter.unusedVariables false
namespace RV.Transform
open RV
variable {K : Type} [Field K]

/-! ### Jacobi -/

/-- slot 0 of the Jacobi set is (total active mass, centre of mass) -/
theorem c12_jacobi_slot0 (m0 x0 : K) (act : List (K × K)) (tst : List K)
    (h : SumsNZ m0 act) :
    (jacFwd m0 x0 act tst).m0 = m0 + msum act ∧
    (jacFwd m0 x0 act tst).x0 = (m0 * x0 + mxsum act) / (m0 + msum act) := by
  obtain ⟨e1, e2, _⟩ := jacFwdAct_final m0 (m0 * x0) act h
  constructor
  · simp only [jacFwd, sc_hmul]; exact e1
  · simp only [jacFwd, sc_hmul, sc_hdiv, sc_one]; rw [e1, e2]; ring

/-- `jacobi_to_inertial ∘ inertial_to_jacobi = id` on every component, ∀ N, ∀ N_active -/
theorem c12_jacobi_roundtrip (m0 x0 : K) (act : List (K × K)) (tst : List K)
    (h : SumsNZ m0 act) :
    let o := jacFwd m0 x0 act tst
    let b := jacInv o.m0 o.x0 ((act.map Prod.fst).zip o.act) o.tst
    b.m0 = m0 ∧ b.x0 = x0 ∧ b.act = act.map Prod.snd ∧ b.tst = tst := by
  have hr := jac_act_roundtrip m0 (m0 * x0) act h
  obtain ⟨e1, e2, e3⟩ := jacFwdAct_final m0 (m0 * x0) act h
  have hM : (jacFwdAct m0 (m0 * x0) act).2.1 ≠ 0 := e3
  have h0 : m0 ≠ 0 := sumsNZ_head h
  simp only [jacFwd, jacInv, sc_hmul, sc_hdiv, sc_one, sc_hsub, sc_hadd]
  have hs : (jacFwdAct m0 (m0 * x0) act).2.2 * (1 / (jacFwdAct m0 (m0 * x0) act).2.1) *
      (jacFwdAct m0 (m0 * x0) act).2.1 = (jacFwdAct m0 (m0 * x0) act).2.2 := by
    field_simp
  rw [hs, hr]
  refine ⟨rfl, ?_, ?_, ?_⟩
  · field_simp
  · simp
  · simp only [List.map_map]
    conv_rhs => rw [← List.map_id tst]
    apply List.map_congr_left
    intro a _
    simp

/-! ### democratic heliocentric -/

/-- slot 0 of the DH / WHDS set is (total active mass, centre of mass) -/
theorem c12_dh_slot0 (m0 x0 : K) (act : List (K × K)) (tst : List K) :
    (dhFwdPos m0 x0 act tst).m0 = m0 + msum act ∧
    (dhFwdPos m0 x0 act tst).x0 = (m0 * x0 + mxsum act) / (m0 + msum act) ∧
    (dhFwdVel m0 x0 act tst).x0 = (m0 * x0 + mxsum act) / (m0 + msum act) ∧
    (whdsFwdVel m0 x0 act tst).x0 = (m0 * x0 + mxsum act) / (m0 + msum act) := by
  simp only [dhFwdPos, dhFwdVel, whdsFwdVel, comAcc_eq, sc_zero, sc_hdiv]
  simp [mxsum, msum] <;> ring_nf <;> simp

/-- DH positions: `to_inertial_pos ∘ to_dh = id`, ∀ N, ∀ N_active (needs total mass ≠ 0) -/
theorem c12_dh_pos_roundtrip (m0 x0 : K) (act : List (K × K)) (tst : List K)
    (hM : m0 + msum act ≠ 0) :
    let o := dhFwdPos m0 x0 act tst
    let b := dhInvPos o.m0 o.x0 ((act.map Prod.fst).zip o.act) o.tst
    b.x0 = x0 ∧ b.act = act.map Prod.snd ∧ b.tst = tst := by
  have hz := zip_map_fst act (fun p => p.2 - x0)
  have key : (m0 * x0 + mxsum act) / (m0 + msum act)
      - (mxsum act - x0 * msum act) / (m0 + msum act) = x0 := by
    field_simp; ring
  simp only [dhFwdPos, dhInvPos, comAcc_eq, sc_zero, sc_hdiv, sc_hsub, sc_hadd, dhSum_eq, hz,
    mxsum_shift]
  have e0 : (0 : K) + mxsum ((m0, x0) :: act) = m0 * x0 + mxsum act := by simp [mxsum]
  have e1 : (0 : K) + msum ((m0, x0) :: act) = m0 + msum act := by simp [msum]
  rw [e0, e1, zero_add, key]
  refine ⟨rfl, ?_, ?_⟩
  · simp [List.map_map, Function.comp_def]
  · simp [List.map_map, Function.comp_def]

/-- DH velocities: `v0` recovered from the COM velocity, others by adding it back.
    `m0 ≠ 0` is what `democraticheliocentric_to_inertial_posvel` divides by. -/
theorem c12_dh_vel_roundtrip (m0 v0 : K) (act : List (K × K)) (tst : List K)
    (hM : m0 + msum act ≠ 0) (h0 : m0 ≠ 0) :
    let o := dhFwdVel m0 v0 act tst
    let b := dhInvVel m0 o.x0 ((act.map Prod.fst).zip o.act) o.tst
    b.x0 = v0 ∧ b.act = act.map Prod.snd ∧ b.tst = tst := by
  have hz := fun c : K => zip_map_fst act (fun p => p.2 - c)
  simp only [dhFwdVel, dhInvVel, comAcc_eq, sc_zero, sc_hdiv, sc_hsub, sc_hadd, dhSum_eq, hz,
    mxsum_shift]
  have e0 : (0 : K) + mxsum ((m0, v0) :: act) = m0 * v0 + mxsum act := by simp [mxsum]
  have e1 : (0 : K) + msum ((m0, v0) :: act) = m0 + msum act := by simp [msum]
  rw [e0, e1, zero_add]
  refine ⟨?_, ?_, ?_⟩
  · field_simp; ring
  · simp [List.map_map, Function.comp_def]
  · simp [List.map_map, Function.comp_def]

/-! ### WHDS velocities -/

/-- WHDS velocities: `whds_to_inertial ∘ inertial_to_whds = id` -/
theorem c12_whds_vel_roundtrip (m0 v0 : K) (act : List (K × K)) (tst : List K)
    (hM : m0 + msum act ≠ 0) (h0 : m0 ≠ 0) (hw : WhdsNZ m0 act) :
    let o := whdsFwdVel m0 v0 act tst
    let b := whdsInvVel m0 o.x0 ((act.map Prod.fst).zip o.act) o.tst
    b.x0 = v0 ∧ b.act = act.map Prod.snd ∧ b.tst = tst := by
  have hz := fun c : K => zip_map_fst act (fun p => (m0 + p.1) / m0 * (p.2 - c))
  simp only [whdsFwdVel, whdsInvVel, comAcc_eq, sc_zero, sc_hdiv, sc_hsub, sc_hadd, sc_hmul,
    whdsSum_eq, hz]
  have e0 : (0 : K) + mxsum ((m0, v0) :: act) = m0 * v0 + mxsum act := by simp [mxsum]
  have e1 : (0 : K) + msum ((m0, v0) :: act) = m0 + msum act := by simp [msum]
  rw [e0, e1, zero_add, whds_sum_key m0 _ act h0 hw]
  refine ⟨?_, ?_, ?_⟩
  · field_simp; ring
  · rw [List.map_map]
    apply List.map_congr_left
    intro p hp
    have : m0 + p.1 ≠ 0 := hw p hp
    simp; field_simp; ring
  · simp [List.map_map, Function.comp_def]

/-! ### barycentric -/

/-- slot 0 of the barycentric set is (total active mass, centre of mass) -/
theorem c12_bary_slot0 (m0 x0 : K) (act : List (K × K)) (tst : List K) :
    (baryFwd m0 x0 act tst).m0 = m0 + msum act ∧
    (baryFwd m0 x0 act tst).x0 = (m0 * x0 + mxsum act) / (m0 + msum act) := by
  simp only [baryFwd, baryAcc_eq, sc_zero, sc_hdiv, sc_hadd, sc_hmul, sc_one]
  simp; ring

/-- barycentric: `to_inertial ∘ to_barycentric = id`, and the mass of particle 0 is
    recovered.  Hypotheses: total mass ≠ 0 and m0 ≠ 0 (the two divisors in the C code). -/
theorem c12_bary_roundtrip (m0 x0 : K) (act : List (K × K)) (tst : List K)
    (hM : m0 + msum act ≠ 0) (h0 : m0 ≠ 0) :
    let o := baryFwd m0 x0 act tst
    let b := baryInv o.m0 o.x0 ((act.map Prod.fst).zip o.act) o.tst
    b.m0 = m0 ∧ b.x0 = x0 ∧ b.act = act.map Prod.snd ∧ b.tst = tst := by
  have hz := fun c : K => zip_sub_add act c
  simp only [baryFwd, baryInv, baryAcc_eq, sc_zero, sc_hdiv, sc_hsub, sc_hadd, sc_hmul, sc_one, hz,
    zero_add]
  have hm : m0 + msum act - msum act = m0 := by ring
  refine ⟨hm, ?_, ?_, ?_⟩
  · rw [hm]; field_simp; ring
  · first | rfl | trivial | simp
  · simp [List.map_map, Function.comp_def]

/-! ### in-place DH maps of MERCURIUS and TRACE -/

/-- the stored `com_pos`/`com_vel` is the centre of mass (velocity) of the active particles -/
theorem c12_hybrid_com (m0 x0 : K) (act : List (K × K)) (tst : List K) :
    (hybFwdPos m0 x0 act tst).com = (m0 * x0 + mxsum act) / (m0 + msum act) ∧
    (hybFwdVel m0 x0 act tst).com = (m0 * x0 + mxsum act) / (m0 + msum act) := by
  simp only [hybFwdPos, hybFwdVel, hybAcc_eq, sc_zero, sc_hdiv]
  simp [mxsum, msum]

/-- `dh_to_inertial ∘ inertial_to_dh = id` on positions (particle 0 is rebuilt from the
    stored centre of mass; its own slot is ignored by the inverse) -/
theorem c12_hybrid_pos_roundtrip (m0 x0 : K) (act : List (K × K)) (tst : List K)
    (hM : m0 + msum act ≠ 0) :
    let o := hybFwdPos m0 x0 act tst
    let b := hybInvPos m0 o.com ((act.map Prod.fst).zip o.act) o.tst
    b.x0 = x0 ∧ b.act = act.map Prod.snd ∧ b.tst = tst := by
  have hz := zip_map_fst act (fun p => p.2 - x0)
  have hM' : msum act + m0 ≠ 0 := by rwa [add_comm]
  have key : (m0 * x0 + mxsum act) / (m0 + msum act)
      - (mxsum act - x0 * msum act) / (msum act + m0) = x0 := by
    field_simp; ring
  simp only [hybFwdPos, hybInvPos, hybAcc_eq, sc_zero, sc_hdiv, sc_hsub, sc_hadd, hz, mxsum_shift,
    msum_map_snd]
  have e0 : (0 : K) + mxsum ((m0, x0) :: act) = m0 * x0 + mxsum act := by simp [mxsum]
  have e1 : (0 : K) + msum ((m0, x0) :: act) = m0 + msum act := by simp [msum]
  rw [e0, e1, zero_add, zero_add, key]
  refine ⟨rfl, ?_, ?_⟩
  · simp [List.map_map, Function.comp_def]
  · simp [List.map_map, Function.comp_def]

theorem c12_hybrid_vel_roundtrip (m0 v0 : K) (act : List (K × K)) (tst : List K)
    (hM : m0 + msum act ≠ 0) (h0 : m0 ≠ 0) :
    let o := hybFwdVel m0 v0 act tst
    let b := hybInvVel m0 o.com ((act.map Prod.fst).zip o.act) o.tst
    b.x0 = v0 ∧ b.act = act.map Prod.snd ∧ b.tst = tst := by
  have hz := fun c : K => zip_map_fst act (fun p => p.2 - c)
  simp only [hybFwdVel, hybInvVel, hybAcc_eq, sc_zero, sc_hdiv, sc_hsub, sc_hadd, hz, mxsum_shift]
  have e0 : (0 : K) + mxsum ((m0, v0) :: act) = m0 * v0 + mxsum act := by simp [mxsum]
  have e1 : (0 : K) + msum ((m0, v0) :: act) = m0 + msum act := by simp [msum]
  rw [e0, e1, zero_add]
  refine ⟨?_, ?_, ?_⟩
  · field_simp; ring
  · simp [List.map_map, Function.comp_def]
  · simp [List.map_map, Function.comp_def]

/-! ### non-vacuity: a concrete three-body set with a zero-mass active body and a test
    particle meets every hypothesis (over ℚ) -/
example : SumsNZ (1 : ℚ) [(0, 2), (1/1000, 5)] ∧ WhdsNZ (1 : ℚ) [(0, 2), (1/1000, 5)] ∧
    (1 : ℚ) + msum [(0, 2), ((1:ℚ)/1000, 5)] ≠ 0 := by
  refine ⟨by norm_num [SumsNZ], ?_, by norm_num [msum]⟩
  intro p hp; simp at hp; rcases hp with rfl | rfl <;> norm_num

end RV.Transform
