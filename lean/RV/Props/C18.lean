import RV.Proofs.Layout
import RV.Gen.C18LayoutC
import RV.Gen.C18LayoutPy
import RV.Gen.C18Options
import RV.Gen.C18Ref
import RV.Gen.C18Protos
import RV.Gen.C18Descr
/-
  C18 — the Python classes mirror the C structures and options exactly.

  `T`/`O` are the tables regenerated on every run from the working tree of the code under
  test (RV/Gen/C18LayoutC: the C structures as laid out by the compiler; C18LayoutPy: the
  ctypes classes of the package; C18Options: C enumerations, Python dictionaries, property
  → field usage, function-pointer options; C18Ref: committed class map, accepted renames,
  option families, floors, and the exception lists generated from findings/C18.jsonl).

  The table theorems are decided by the kernel over the WHOLE tables.  The general theorems
  (∀ tables) say what a positive answer of the matcher means.

  Known findings: the full-strength statements `LayoutFull`, `NamesFull`, `NoShadowFull`,
  `OptionTiesFull` are kept below as `def … : Prop`; each `…_full_iff_findings_closed`
  theorem proves that the full statement holds exactly when none of the exceptions listed
  in findings/C18.jsonl is used any more.  The theorems named `…_partial` tolerate exactly
  those listed (structure, field, member, category) entries and nothing else.
-/
set_option linter.unusedVariables false
namespace RV.C18
open RV.Layout RV.Gen.C18

def T : Tables := ⟨cTab, pyTab, classMap⟩
def O : OptTables := ⟨cEnumRows, pyOptRows, cTab⟩
def rowsOf (t : StructTab) : Nat := (t.map (·.2.2.length)).foldl (· + ·) 0

/-! ### full-strength statements (hold iff the corresponding findings are closed) -/

/-- every ctypes field of every mapped class has the offset, size and kind of the C member at its position -/
def LayoutFull : Prop := allLayoutBad T = []
/-- every ctypes field is named like the C member it overlays (modulo `_` and the accepted renames) -/
def NamesFull : Prop := allBadNames T renames = []
/-- no ctypes field replaces a property of the same name -/
def NoShadowFull : Prop := pyShadowed = []
/-- every named-option property reads and writes the ctypes field laid over the C member holding the option -/
def OptionTiesFull : Prop :=
  optMap.all (fun f => optFieldTie T pyPropRows f n!"get" && optFieldTie T pyPropRows f n!"set") = true

/-! ### the extraction found what it must find -/

/-- the generated tables have the sizes the extractor counted, and at least the committed floor -/
theorem c18_counts :
    rowsOf cTab = cRowCount ∧ cTab.length = cStructCount ∧ rowsOf pyTab = pyRowCount ∧
    pyTab.length = pyStructCount ∧ cEnumRows.length = cEnumRowCount ∧ pyOptRows.length = pyOptRowCount ∧
    pyFnOptRows.length = pyFnOptRowCount ∧ cFunctions.length = cFunctionCount ∧
    floorClasses ≤ pyTab.length ∧ floorPyRows ≤ rowsOf pyTab ∧ floorCRows ≤ rowsOf cTab ∧
    floorCStructs ≤ cTab.length ∧ floorOptRows ≤ pyOptRows.length ∧ floorEnumRows ≤ cEnumRows.length ∧
    floorFnOptRows ≤ pyFnOptRows.length := by decide +kernel

/-- every ctypes.Structure class of the package is mapped to a C structure, and every mapped class and
    structure was found with members (so no class escapes the comparison) -/
theorem c18_every_class_mapped : allMapped T = true := by decide +kernel

/-! ### layout -/

/-- offsets, sizes and kinds agree for every field of every class, except the entries of
    findings/C18.jsonl (each tolerated only for its category: sign / pointee) -/
theorem c18_layout_all_structs_match_partial :
    subsetBad (allLayoutBad T) knownLayoutExceptions = true := by decide +kernel

theorem c18_layout_full_iff_findings_closed :
    LayoutFull ↔ (knownLayoutExceptions.filter (fun x => memBad x (allLayoutBad T))) = [] := by
  unfold LayoutFull; decide +kernel

/-- total sizes agree (a class reached only through a pointer may be shorter, never longer) -/
theorem c18_sizes_match : allSizesOk T = true := by decide +kernel

/-- names agree modulo the leading underscore and the committed renames, except the entries of findings/C18.jsonl -/
theorem c18_names_match_modulo_renames_partial :
    subsetTriples (allBadNames T renames) knownNameExceptions = true := by decide +kernel

theorem c18_names_full_iff_findings_closed :
    NamesFull ↔ (knownNameExceptions.filter (fun x => memTriple x.1 x.2.1 x.2.2 (allBadNames T renames))) = [] := by
  unfold NamesFull; decide +kernel

/-- every accepted rename is actually used (a stale rename would silently widen the convention) -/
theorem c18_renames_all_used :
    renames.all (fun r => memTriple r.1 r.2.1 r.2.2 (allBadNames T [])) = true := by decide +kernel

/-! ### options -/

/-- every name of every Python option dictionary has exactly one C enumerator of the same meaning
    (family prefix stripped, compared modulo case and punctuation — derived from the names on both
    sides) in the enumeration of the C member that holds the option, and the values are equal -/
theorem c18_options_forward : optMap.all (optForward O) = true := by decide +kernel

/-- the reverse map returns the name that was set: values and normalised names are pairwise distinct
    and every C enumerator carrying a dictionary value means the name stored with it -/
theorem c18_options_roundtrip : optMap.all (optRoundtrip O) = true := by decide +kernel

/-- getter and setter of every option property touch a ctypes field that the matcher lays over the C
    member of the family — except properties shadowed by a ctypes field, listed in findings/C18.jsonl -/
theorem c18_options_field_tie_partial :
    optMap.all (fun f => (optFieldTie T pyPropRows f n!"get" && optFieldTie T pyPropRows f n!"set")
                         || memPair f.cls f.prop knownShadowExceptions) = true := by decide +kernel

theorem c18_option_ties_full_iff_findings_closed :
    OptionTiesFull ↔ (optMap.filter (fun f => memPair f.cls f.prop knownShadowExceptions &&
        !(optFieldTie T pyPropRows f n!"get" && optFieldTie T pyPropRows f n!"set"))).length = 0 := by
  unfold OptionTiesFull; decide +kernel

/-- no ctypes field replaces a property of the same name, except the entries of findings/C18.jsonl -/
theorem c18_no_shadowed_property_partial : subsetPairs pyShadowed knownShadowExceptions = true := by
  decide +kernel

theorem c18_no_shadow_full_iff_findings_closed :
    NoShadowFull ↔ (knownShadowExceptions.filter (fun x => memPair x.1 x.2 pyShadowed)).length = 0 := by
  unfold NoShadowFull; decide +kernel

/-- every function-pointer option (collision resolvers, MERCURIUS L, TRACE S / S_peri) stores the
    exported symbol `family prefix ++ option name`, which the header declares, into a C member that is
    a function pointer -/
theorem c18_fn_options : pyFnOptRows.all (fnOptOk cTab cFunctions fnOptMap) = true := by decide +kernel

/-! ### full signatures (callbacks, declared restypes, foreign call sites) -/

/-- every foreign call site is sound: prototype known, declared restype (in force at the site) compatible with the
    C return type, or no restype where the C function returns int/void or the result is discarded; argument count and
    statically visible argument kinds fit the C parameters -/
def CallsFull : Prop := badCalls classMap cProtos pyCalls = []

/-- the extraction of prototypes / callbacks / declarations / call sites found what it must find -/
theorem c18_proto_counts :
    cProtos.length = cProtoCount ∧ cCallbacks.length = cCallbackCount ∧ pyCallbacks.length = pyCallbackCount ∧
    pyRestypeDecls.length = pyRestypeDeclCount ∧ pyCalls.length = pyCallCount ∧
    floorProtos ≤ cProtos.length ∧ floorCallbacks ≤ cCallbacks.length ∧ floorCallbacks ≤ pyCallbacks.length ∧
    floorRestypeDecls ≤ pyRestypeDecls.length ∧ floorCalls ≤ pyCalls.length := by decide +kernel

/-- every CFUNCTYPE field has the return kind, the number of arguments and the argument kinds (width, signedness,
    double, pointee class, by-value structure through the class map) of the C function-pointer member it lies over -/
theorem c18_callback_signatures : pyCallbacks.all (callbackOk T cCallbacks) = true := by decide +kernel

/-- … and every C function-pointer member of a mirrored structure has such a field -/
theorem c18_callbacks_all_mirrored :
    cCallbacks.all (fun c => classMap.any (fun e => nameEq e.2.1 c.owner) →
      pyCallbacks.any (fun p => optNameEq (structOf classMap p.owner) c.owner &&
                                optNameEq (pairedMember T p.owner p.field) c.field)) = true := by decide +kernel

/-- every `clibrebound.f.restype = T` names a function the headers declare and T mirrors its C return type -/
def RestypesFull : Prop := pyRestypeDecls.all (declOk classMap cProtos) = true

/-- every `clibrebound.f.restype = T` names a function the headers declare and T mirrors its C return type
    (double, integer of the same width and signedness, by-value structure through the class map, typed or untyped pointer),
    except at the sites of known findings -/
theorem c18_restype_declarations_match_partial :
    pyRestypeDecls.all (fun d => declOk classMap cProtos d || memPair d.fn d.site knownCallExceptions) = true := by decide +kernel

/-- no attribute other than `restype` is ever assigned on a foreign function (a misspelt `restype` is silently ignored
    by ctypes), except at the sites of known findings -/
theorem c18_no_stray_function_attributes_partial :
    pyOtherFnAttrs.all (fun a => memPair a.1 a.2.1 knownCallExceptions) = true := by decide +kernel

/-- every call site is sound, except those of known findings -/
theorem c18_foreign_calls_sound_partial :
    subsetPairs (badCalls classMap cProtos pyCalls) knownCallExceptions = true := by decide +kernel

theorem c18_calls_full_iff_findings_closed :
    CallsFull ↔ (knownCallExceptions.filter (fun x => memPair x.1 x.2 (badCalls classMap cProtos pyCalls))).length = 0 := by
  unfold CallsFull; decide +kernel

/-- what a sound call site means (∀ tables): the function is declared, and either a restype compatible with the C
    return type is in force, or none is and the C function returns `int`/`void`/a signed 4-byte enum or the value is unused -/
theorem c18_call_sound_meaning (cm : ClassMap) (protos : List Proto) (c : CallSite) (h : callWhy cm protos c = none) :
    ∃ p, (p ∈ protos ∧ p.name = c.fn) ∧
      ((∃ r, c.restype = some r ∧ kindOk cm p.ret r = true) ∨
       (c.restype = none ∧ (c.used = false ∨ retDefaultOk p.ret = true))) :=
  callWhy_none_sound cm protos c h

/-! ### enumerations are mirrored exactly (width and value range) -/

/-- every ctypes integer laid over a C enumeration member has the member's width and can represent every enumerator
    (so `REB_STATUS`, which has negative values, needs a signed field; an unsigned enumeration may be mirrored by either
    signedness only because all its values fit) -/
theorem c18_enum_fields_representable : classMap.all (classEnumFieldsOk T cEnumRows) = true := by decide +kernel

/-- the matcher does reject an unsigned field over an enumeration with negative values -/
example : enumFieldOk [(n!"E", n!"A", -1)] (⟨n!"x", 0, 4, .int false 4⟩, [⟨n!"x", 0, 4, .enm n!"E" true 4⟩]) = false := by
  decide +kernel

/-! ### the binary field descriptor list and the binary warnings table -/

/-- what `binary_field_descriptor_list()` returns is, entry by entry (id, dtype, name, offset, offset_N, element size) and
    in length, the C array `reb_binary_field_descriptor_list` of the loaded library read through the C-side layout,
    up to and including the terminating entry -/
theorem c18_descriptor_list_mirrored :
    descrListEq pyDescriptors cDescriptors = true ∧ nameEq (lastName cDescriptors) n!"end" = true ∧
    cDescriptors.length = cDescriptorCount ∧ floorDescriptors ≤ cDescriptors.length := by decide +kernel

/-- descriptor ids and names are unique and every dtype is an enumerator value of the C `dtype` enumeration -/
theorem c18_descriptor_ids_names_dtypes :
    distinctBy (fun a b => a.1 == b.1) cDescriptors = true ∧
    distinctBy (fun a b => nameEq a.2.2.1 b.2.2.1) cDescriptors = true ∧
    cDescriptors.all (fun d => (itemsOf n!"reb_binary_field_descriptor.dtype" cEnumRows).any (fun e => e.2 == d.2.1)) = true := by
  decide +kernel

/-- every row of BINARY_WARNINGS is exactly one enumerator of `enum reb_simulation_binary_error_codes`, is treated as
    a major error iff that enumerator is an `_ERROR_` one, and its message contains the phrase committed for the
    enumerator; ids are distinct; every non-zero C code has a row -/
theorem c18_binary_warnings_table :
    pyWarnings.all (warnOk (itemsOf n!"reb_simulation_binary_error_codes" cEnumRows) warnKeywords) = true ∧
    distinctBy (fun a b => a.2.1 == b.2.1) pyWarnings = true ∧
    (itemsOf n!"reb_simulation_binary_error_codes" cEnumRows).all
      (fun e => e.2 == 0 || pyWarnings.any (fun w => w.2.1 == e.2)) = true ∧
    pyWarnings.length = pyWarningCount ∧ floorWarnings ≤ pyWarnings.length := by decide +kernel

/-! ### composite option names -/

/-- within one property setter, literal names that select the same primary value (e.g. "wh", "whc", "whckl", … all
    select integrator "whfast") assign the same set of fields, so the tuple of C values a name stands for does not depend
    on what was set before -/
theorem c18_composite_setters_uniform :
    compositeUniform pyComposites = true ∧ pyComposites.length = pyCompositeCount := by decide +kernel

/-- the uniformity check does reject a sibling branch that forgets a field -/
example : compositeUniform [(n!"S", n!"integrator", n!"wh", [(n!"integrator", n!"'whfast'"), (n!"ri_whfast.corrector", n!"?")]),
    (n!"S", n!"integrator", n!"whckl", [(n!"integrator", n!"'whfast'"), (n!"ri_whfast.corrector", n!"17"), (n!"ri_whfast.kernel", n!"'lazy'")])] = false := by
  decide +kernel

/-! ### the option properties themselves: setter / getter model -/

/-- for every option property, with the normalisation its setter really applies (extracted from the AST): every name of
    its dictionary is accepted as written, stores the dictionary value and reads back as itself; every family has a setter spec -/
theorem c18_option_setters_roundtrip :
    pySetterSpecs.all (fun sp => dictRoundtrips sp.lowerCase sp.strip (itemsOf sp.dict pyOptRows)) = true ∧
    optMap.all (fun f => pySetterSpecs.any (fun sp => nameEq sp.cls f.cls && nameEq sp.prop f.prop && nameEq sp.dict f.dict)) = true := by
  decide +kernel

/-- last write wins (∀ dictionaries, ∀ histories): after any sequence of assignments, a successful assignment leaves the
    field with the value it stores on a fresh field -/
theorem c18_option_last_write_wins (lc : Bool) (strip : List Nat) (d : List (Name × Int)) (c0 c1 : Int)
    (hist : List OptArg) (a : OptArg) (v : Int) (h : setOpt lc strip d a = some v) :
    assignAll lc strip d c0 (hist ++ [a]) = v ∧ assign lc strip d c1 a = v :=
  assignAll_last lc strip d c0 c1 hist a v h

/-- set then get (∀ dictionaries with pairwise distinct values): an accepted string stores the value of its normal form
    and the getter returns that normal form -/
theorem c18_option_set_then_get (lc : Bool) (strip : List Nat) (d : List (Name × Int)) (s : Name) (v : Int)
    (h : setOpt lc strip d (.str s) = some v) (hd : d.Pairwise (fun a b => a.2 ≠ b.2)) :
    (normIn lc strip s, v) ∈ d ∧ getOpt d v = some (normIn lc strip s) :=
  set_then_get lc strip d s v h hd

/-- integers are stored as given; an unknown string leaves the field unchanged -/
theorem c18_option_int_and_unknown (lc : Bool) (strip : List Nat) (d : List (Name × Int)) (cur v : Int) (s : Name)
    (hs : lookupVal (normIn lc strip s) d = none) :
    assign lc strip d cur (.int v) = v ∧ assign lc strip d cur (.str s) = cur :=
  assign_int_and_unknown lc strip d cur v s hs

/-! ### attribute stores of the Python layer refer to C members -/

/-- every attribute that a method of a ctypes class stores on `self` is a ctypes field of that class (so the bytes of the
    C structure change), a property with a setter, or a committed Python-only attribute -/
def StoresFull : Prop := badStores pyTab pySetterProps pyOnlyAttrs pyAttrStores = []

/-- … except the stores of known findings; ctypes accepts any attribute name silently, so a misspelt field name
    (`simulationarchive_auto_steps`, `sim` for `_sim`) writes the instance `__dict__` instead of the structure -/
theorem c18_attribute_stores_hit_fields_partial :
    subsetPairs (badStores pyTab pySetterProps pyOnlyAttrs pyAttrStores) knownStoreExceptions = true ∧
    pyAttrStores.length = pyAttrStoreCount ∧ floorAttrStores ≤ pyAttrStores.length := by decide +kernel

theorem c18_stores_full_iff_findings_closed :
    StoresFull ↔ (knownStoreExceptions.filter (fun x => memPair x.1 x.2 (badStores pyTab pySetterProps pyOnlyAttrs pyAttrStores))).length = 0 := by
  unfold StoresFull; decide +kernel

/-- the check does reject a misspelt field and an unresolvable setattr -/
example : badStores [(n!"S", 8, [⟨n!"auto_step", 0, 8, .int false 8⟩])] [] [] [(n!"S", n!"save", n!"auto_steps"), (n!"S", n!"save", n!"auto_step"), (n!"S", n!"f", n!"?x")]
    = [(n!"S", n!"auto_steps"), (n!"S", n!"?x")] := by decide +kernel

/-! ### what the matcher's verdict means — for arbitrary tables -/

/-- soundness of the layout matcher (∀ class maps, ∀ field lists) -/
theorem c18_matcher_sound (cm : ClassMap) (pfx : Bool) (s : Name) (py c : List Field)
    (h : layoutBad cm pfx s py c = []) :
    ∃ runs : List (List Field), Forall₂ (Covers cm) py runs ∧
      (runs.flatten = c ∨ (pfx = true ∧ ∃ tail, runs.flatten ++ tail = c)) :=
  layoutBad_nil_sound cm pfx s py c h

/-- in a run accepted for a ctypes array, element `i` is the C member at `offset + i * element size` -/
theorem c18_run_elements (cm : ClassMap) (ek : Kind) (es off : Nat) (run : List Field)
    (h : RunAt cm ek es off run) (i : Nat) (hi : i < run.length) :
    run[i].off = off + i * es ∧ run[i].size = es ∧ kindOk cm run[i].kind ek = true :=
  runAt_get cm ek es off run h i hi

/-- kind compatibility is exact on scalars: a C integer only mirrors a ctypes integer of the same
    signedness and width, a double only a double, an embedded structure only the class mapped to it,
    and a function pointer never a data pointer -/
theorem c18_kind_exact (cm : ClassMap) :
    (∀ s n p, kindOk cm (.int s n) p = true → p = .int s n) ∧
    (∀ p, kindOk cm .f64 p = true → p = .f64) ∧
    (∀ s p, kindOk cm (.struct s) p = true → ∃ c, p = .struct c ∧ structOf cm c = some s) ∧
    (∀ r n p, kindOk cm (.fptr r n) (.ptr p) = false) :=
  ⟨kindOk_int cm, kindOk_f64 cm, kindOk_struct cm, kindOk_fptr_not_ptr cm⟩

/-- soundness of the option check (∀ tables) -/
theorem c18_options_forward_sound (o : OptTables) (f : OptFamily) (h : optForward o f = true) :
    ∃ en, enumOfMember o.cRows f.struct f.member = some en ∧
      ∀ it ∈ itemsOf f.dict o.pyOpts, ∃ e, (en, e, it.2) ∈ o.cEnums ∧
        (∃ rest, e = f.pre ++ rest ∧ norm rest = norm it.1) ∧
        ∀ e' ∈ itemsOf en o.cEnums, means f.pre it.1 e'.1 = true → e' = (e, it.2) :=
  optForward_sound o f h

theorem c18_options_roundtrip_sound (o : OptTables) (f : OptFamily) (h : optRoundtrip o f = true) :
    (itemsOf f.dict o.pyOpts).Pairwise (fun a b => a.2 ≠ b.2) ∧
    (itemsOf f.dict o.pyOpts).Pairwise (fun a b => norm a.1 ≠ norm b.1) :=
  optRoundtrip_sound o f h

/-! ### the two halves combined on the generated tables -/

/-- every mapped class whose comparison reports nothing really overlays its C structure: the C members
    split in order into one run per ctypes field with equal offset, size and compatible kind -/
theorem c18_layout_covers (e : Name × Name × Bool) (he : e ∈ classMap) (h : classLayoutBad T e = []) :
    ∃ runs : List (List Field), Forall₂ (Covers classMap) (fieldsOf e.1 pyTab) runs ∧
      (runs.flatten = fieldsOf e.2.1 cTab ∨ (e.2.2 = true ∧ ∃ tail, runs.flatten ++ tail = fieldsOf e.2.1 cTab)) :=
  layoutBad_nil_sound classMap e.2.2 e.2.1 _ _ h

/-- … which is the case for every class except those whose C structure is named in a known finding -/
theorem c18_layout_clean_classes :
    classMap.all (fun e => (classLayoutBad T e).isEmpty ||
                           knownLayoutExceptions.any (fun x => nameEq x.1 e.2.1)) = true := by
  decide +kernel

/-! ### the statements are not vacuous -/

example : fieldsOf n!"reb_particle" cTab ≠ [] := by decide +kernel
example : layoutBad classMap false n!"reb_particle" (fieldsOf n!"Particle" pyTab) (fieldsOf n!"reb_particle" cTab) = [] := by
  decide +kernel
/-- the matcher does reject a swapped pair of differently sized members -/
example : layoutBad [] false n!"s" [⟨n!"a", 0, 4, .int true 4⟩, ⟨n!"b", 8, 8, .f64⟩]
    [⟨n!"b", 0, 8, .f64⟩, ⟨n!"a", 8, 4, .int true 4⟩] ≠ [] := by decide +kernel
/-- … and, through the name check, a swapped pair of equally sized members (the F12 pattern) -/
example : badNames [] n!"s" [(⟨n!"a", 0, 4, .int true 4⟩, [⟨n!"b", 0, 4, .int true 4⟩])] ≠ [] := by decide +kernel
example : means n!"REB_SABA_" n!"10,6,4" n!"REB_SABA_10_6_4" = true := by decide +kernel
example : means n!"REB_SABA_" n!"10,4" n!"REB_SABA_10_6_4" = false := by decide +kernel

end RV.C18
