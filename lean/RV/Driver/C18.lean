import RV.Model.Layout
import RV.Gen.C18LayoutC
import RV.Gen.C18LayoutPy
import RV.Gen.C18Options
import RV.Gen.C18Ref
import RV.Gen.C18Protos
import RV.Gen.C18Descr
/-
  drv_c18 — runs the same matcher the theorems of RV/Props/C18.lean decide, natively, on the
  generated tables, and prints one line per class / option family / obligation so that a
  failing `decide` can be turned into the name of the disagreeing struct/field/option
  (the check then replays it on the real code).  Output lines (tab separated):
    LAYOUT <class> <struct> ok | BAD <pyfield> <cmember> <why>
    SIZE   <class> <struct> ok | BAD <pysize> <csize>
    MAPPED ok | BAD
    NAME   <struct> <pyfield> <cmember>          (one per name pair outside convention+renames)
    OPT    <dict> <struct>.<member> forward=<b> roundtrip=<b> tieget=<b> tieset=<b>
    OPTBAD <dict> <name> <value> <candidates>
    FNOPT  <class> <prop> <name> <symbol> ok|BAD
    SHADOW <class> <field>
    COUNT  <what> <n> <floor>
-/
namespace RV.Driver.C18
open RV.Layout RV.Gen.C18

def tables : Tables := ⟨cTab, pyTab, classMap⟩
def otables : OptTables := ⟨cEnumRows, pyOptRows, cTab⟩
def rowsOf (t : StructTab) : Nat := (t.map (·.2.2.length)).foldl (· + ·) 0

def b2s (b : Bool) : String := if b then "true" else "false"

/-- `SEQ <class> <prop> <start> <arg>…` with arg = `s:<string>` or `i:<int>`: run the setter model over the history and
    print the final field value and what the getter returns -/
def parseArg (t : String) : OptArg :=
  if t.startsWith "i:" then .int ((t.drop 2).toString.toInt?.getD 0)
  else .str ((t.drop 2).toString.toList.map Char.toNat)

def seqLine (toks : List String) : String :=
  match toks with
  | _ :: cls :: prop :: start :: args =>
    let c := cls.toList.map Char.toNat
    let p := prop.toList.map Char.toNat
    match pySetterSpecs.find? (fun sp => nameEq sp.cls c && nameEq sp.prop p) with
    | none => "SEQR\tnospec"
    | some sp =>
      let d := itemsOf sp.dict pyOptRows
      let v := assignAll sp.lowerCase sp.strip d (start.toInt?.getD 0) (args.map parseArg)
      let g := match getOpt d v with | some n => n.str | none => toString v
      s!"SEQR\t{v}\t{g}"
  | _ => "SEQR\tbad"

partial def seqLoop (h : IO.FS.Stream) (out : IO.FS.Stream) : IO Unit := do
  let line ← h.getLine
  if line.isEmpty then return ()
  let toks := (line.trimAscii.toString.splitOn " ").filter (· ≠ "")
  if toks.head? == some "SEQ" then out.putStrLn (seqLine toks)
  seqLoop h out

def main : IO Unit := do
  let out ← IO.getStdout
  seqLoop (← IO.getStdin) out
  for e in classMap do
    match classLayoutBad tables e with
    | [] => out.putStrLn s!"LAYOUT\t{e.1.str}\t{e.2.1.str}\tok"
    | l => for m in l do out.putStrLn s!"LAYOUT\t{e.1.str}\t{e.2.1.str}\tBAD\t{m.2.1.str}\t{m.2.2.1.str}\t{m.2.2.2.str}\t{b2s (memBad m knownLayoutExceptions)}"
    let ps := (sizeOf? e.1 pyTab).map toString |>.getD "?"
    let cs := (sizeOf? e.2.1 cTab).map toString |>.getD "?"
    if sizeOk tables e then out.putStrLn s!"SIZE\t{e.1.str}\t{e.2.1.str}\tok\t{ps}\t{cs}"
    else out.putStrLn s!"SIZE\t{e.1.str}\t{e.2.1.str}\tBAD\t{ps}\t{cs}"
  out.putStrLn s!"MAPPED\t{if allMapped tables then "ok" else "BAD"}"
  for e in pyTab do
    if (lookup e.1 classMap).isNone then out.putStrLn s!"UNMAPPED\t{e.1.str}"
  for e in classMap do
    if (lookup e.1 pyTab).isNone then out.putStrLn s!"MISSINGCLASS\t{e.1.str}"
    if (lookup e.2.1 cTab).isNone then out.putStrLn s!"MISSINGSTRUCT\t{e.2.1.str}"
  for n in allBadNames tables renames do
    out.putStrLn s!"NAME\t{n.1.str}\t{n.2.1.str}\t{n.2.2.str}\t{b2s (memTriple n.1 n.2.1 n.2.2 knownNameExceptions)}"
  for f in optMap do
    out.putStrLn s!"OPT\t{f.dict.str}\t{f.struct.str}.{f.member.str}\tforward={b2s (optForward otables f)}\troundtrip={b2s (optRoundtrip otables f)}\ttieget={b2s (optFieldTie tables pyPropRows f n!"get")}\ttieset={b2s (optFieldTie tables pyPropRows f n!"set")}\tshadow_known={b2s (memPair f.cls f.prop knownShadowExceptions)}"
    match enumOfMember cTab f.struct f.member with
    | none => out.putStrLn s!"OPTBAD\t{f.dict.str}\t-\t-\tC member {f.struct.str}.{f.member.str} is not an enumeration"
    | some en =>
      for it in itemsOf f.dict pyOptRows do
        let cand := meaning f.pre it.1 (itemsOf en cEnumRows)
        match cand with
        | [c] => if c.2 != it.2 then out.putStrLn s!"OPTBAD\t{f.dict.str}\t{it.1.str}\t{it.2}\t{c.1.str}={c.2}"
        | _ => out.putStrLn s!"OPTBAD\t{f.dict.str}\t{it.1.str}\t{it.2}\t{cand.map (·.1.str)}"
  for r in pyFnOptRows do
    out.putStrLn s!"FNOPT\t{r.1.str}\t{r.2.1.str}\t{r.2.2.1.str}\t{r.2.2.2.str}\t{if fnOptOk cTab cFunctions fnOptMap r then "ok" else "BAD"}"
  for s in pyShadowed do
    out.putStrLn s!"SHADOW\t{s.1.str}\t{s.2.str}\t{b2s (memPair s.1 s.2 knownShadowExceptions)}"
  for p in pyCallbacks do
    out.putStrLn s!"CALLBACK\t{p.owner.str}\t{p.field.str}\t{if callbackOk tables cCallbacks p then "ok" else "BAD"}"
  for d in pyRestypeDecls do
    out.putStrLn s!"RESTYPE\t{d.fn.str}\t{d.site.str}\t{if declOk classMap cProtos d then "ok" else "BAD"}"
  for a in pyOtherFnAttrs do
    out.putStrLn s!"FNATTR\t{a.1.str}\t{a.2.1.str}\t{a.2.2.str}\t{b2s (memPair a.1 a.2.1 knownCallExceptions)}"
  for c in pyCalls do
    match callWhy classMap cProtos c with
    | none => pure ()
    | some w => out.putStrLn s!"CALL\t{c.fn.str}\t{c.site.str}\tBAD\t{w.str}\t{b2s (memPair c.fn c.site knownCallExceptions)}"
  if !descrListEq pyDescriptors cDescriptors then
    out.putStrLn s!"DESCR\tpython list ({pyDescriptors.length} entries) differs from the C array ({cDescriptors.length} entries)"
  for w in pyWarnings do
    if !warnOk (itemsOf n!"reb_simulation_binary_error_codes" cEnumRows) warnKeywords w then
      out.putStrLn s!"WARN\tBINARY_WARNINGS row {w.2.1} does not match the C error codes"
  for e in classMap do
    if !classEnumFieldsOk tables cEnumRows e then
      out.putStrLn s!"ENUMFIELD\ta field of {e.1.str} cannot represent every enumerator of the C enumeration it lies over"
  for b in badStores pyTab pySetterProps pyOnlyAttrs pyAttrStores do
    out.putStrLn s!"STORE\t{b.1.str}\t{b.2.str}\t{b2s (memPair b.1 b.2 knownStoreExceptions)}"
  out.putStrLn s!"COUNT\tprotos\t{cProtos.length}\t{floorProtos}"
  out.putStrLn s!"COUNT\tcallbacks\t{pyCallbacks.length}\t{floorCallbacks}"
  out.putStrLn s!"COUNT\trestype_decls\t{pyRestypeDecls.length}\t{floorRestypeDecls}"
  out.putStrLn s!"COUNT\tcalls\t{pyCalls.length}\t{floorCalls}"
  out.putStrLn s!"COUNT\tclasses\t{pyTab.length}\t{floorClasses}"
  out.putStrLn s!"COUNT\tpy_rows\t{rowsOf pyTab}\t{floorPyRows}"
  out.putStrLn s!"COUNT\tc_rows\t{rowsOf cTab}\t{floorCRows}"
  out.putStrLn s!"COUNT\tc_structs\t{cTab.length}\t{floorCStructs}"
  out.putStrLn s!"COUNT\topt_rows\t{pyOptRows.length}\t{floorOptRows}"
  out.putStrLn s!"COUNT\tenum_rows\t{cEnumRows.length}\t{floorEnumRows}"
  out.putStrLn s!"COUNT\tfnopt_rows\t{pyFnOptRows.length}\t{floorFnOptRows}"
  out.flush

end RV.Driver.C18

def main : IO Unit := RV.Driver.C18.main
