import RV.Model.Layout
import RV.Gen.C18LayoutC
import RV.Gen.C18LayoutPy
import RV.Gen.C18Options
import RV.Gen.C18Ref
/-
  drv_c18 — runs the same matcher the theorems of RV/Props/C18.lean decide, natively, on the
  generated tables, and prints one line per class / option family / obligation so that a
  failing `decide` can be turned into the name of the disagreeing struct/field/option
  (the check then replays it on the real code).  Output lines (tab separated):
    LAYOUT <class> <struct> ok | BAD <pyfield> <cmember> <why>
    SIZE   <class> <struct> ok | BAD <pysize> <csize>
    MAPPED ok | BAD
    NAME   <struct> <pyfield> <cmember>          (one per name pair outside convention+renames)
    OPT    <dict> <struct>.<member> forward=<b> roundtrip=<b> tieget=<b> tieset=<b>
    OPTBAD <dict> <name> <value> <candidates>
    FNOPT  <class> <prop> <name> <symbol> ok|BAD
    SHADOW <class> <field>
    COUNT  <what> <n> <floor>
-/
namespace RV.Driver.C18
open RV.Layout RV.Gen.C18

def tables : Tables := ⟨cRows, cSizes, pyRows, pySizes, classMap⟩
def otables : OptTables := ⟨cEnumRows, pyOptRows, cRows⟩

def b2s (b : Bool) : String := if b then "true" else "false"

def main : IO Unit := do
  let out ← IO.getStdout
  for e in classMap do
    match classLayoutBad tables e with
    | [] => out.putStrLn s!"LAYOUT\t{e.1}\t{e.2.1}\tok"
    | l => for m in l do out.putStrLn s!"LAYOUT\t{e.1}\t{e.2.1}\tBAD\t{m.2.1}\t{m.2.2.1}\t{m.2.2.2}"
    let ps := (lookup e.1 pySizes).map toString |>.getD "?"
    let cs := (lookup e.2.1 cSizes).map toString |>.getD "?"
    if sizeOk tables e then out.putStrLn s!"SIZE\t{e.1}\t{e.2.1}\tok\t{ps}\t{cs}"
    else out.putStrLn s!"SIZE\t{e.1}\t{e.2.1}\tBAD\t{ps}\t{cs}"
  out.putStrLn s!"MAPPED\t{if allMapped tables then "ok" else "BAD"}"
  for e in pySizes do
    if (lookup e.1 classMap).isNone then out.putStrLn s!"UNMAPPED\t{e.1}"
  for n in allBadNames tables renames do
    out.putStrLn s!"NAME\t{n.1}\t{n.2.1}\t{n.2.2}"
  for f in optMap do
    out.putStrLn s!"OPT\t{f.dict}\t{f.struct}.{f.member}\tforward={b2s (optForward otables f)}\troundtrip={b2s (optRoundtrip otables f)}\ttieget={b2s (optFieldTie tables pyPropRows f "get")}\ttieset={b2s (optFieldTie tables pyPropRows f "set")}"
    match enumOfMember cRows f.struct f.member with
    | none => out.putStrLn s!"OPTBAD\t{f.dict}\t-\t-\tC member {f.struct}.{f.member} is not an enumeration"
    | some en =>
      for it in itemsOf f.dict pyOptRows do
        let cand := meaning f.pre it.1 (itemsOf en cEnumRows)
        match cand with
        | [c] => if c.2 != it.2 then out.putStrLn s!"OPTBAD\t{f.dict}\t{it.1}\t{it.2}\t{c.1}={c.2}"
        | _ => out.putStrLn s!"OPTBAD\t{f.dict}\t{it.1}\t{it.2}\t{cand.map (·.1)}"
  for r in pyFnOptRows do
    out.putStrLn s!"FNOPT\t{r.1}\t{r.2.1}\t{r.2.2.1}\t{r.2.2.2}\t{if fnOptOk cRows cFunctions fnOptMap r then "ok" else "BAD"}"
  for s in pyShadowed do
    out.putStrLn s!"SHADOW\t{s.1}\t{s.2}"
  out.putStrLn s!"COUNT\tclasses\t{pySizes.length}\t{floorClasses}"
  out.putStrLn s!"COUNT\tpy_rows\t{pyRows.length}\t{floorPyRows}"
  out.putStrLn s!"COUNT\tc_rows\t{cRows.length}\t{floorCRows}"
  out.putStrLn s!"COUNT\tc_structs\t{cSizes.length}\t{floorCStructs}"
  out.putStrLn s!"COUNT\topt_rows\t{pyOptRows.length}\t{floorOptRows}"
  out.putStrLn s!"COUNT\tenum_rows\t{cEnumRows.length}\t{floorEnumRows}"
  out.putStrLn s!"COUNT\tfnopt_rows\t{pyFnOptRows.length}\t{floorFnOptRows}"
  out.flush

end RV.Driver.C18

def main : IO Unit := RV.Driver.C18.main
