import RV.Model.Orbit
import RV.Gen.C11Args
import RV.Driver.Util
open RV RV.Driver RV.Orbit RV.OrbitArgs

def partOf : List String → Option (Part Float × List String)
  | x :: y :: z :: vx :: vy :: vz :: m :: r => some (⟨fl x, fl y, fl z, fl vx, fl vy, fl vz, fl m⟩, r)
  | _ => none

def partStr (p : Part Float) : String := hxs [p.x, p.y, p.z, p.vx, p.vy, p.vz, p.m]

def orbStr (o : Orb Float) : String :=
  hxs [o.d, o.v, o.h, o.P, o.n, o.a, o.e, o.inc, o.Omega, o.omega, o.pomega, o.f, o.M, o.l, o.theta,
       o.T, o.rhill, o.pal_h, o.pal_k, o.pal_ix, o.pal_iy, o.hx, o.hy, o.hz, o.ex, o.ey, o.ez]

def presenceOfBits (s : String) : Option Presence :=
  match s.toList.map (· == '1') with
  | [sim, m, r, hash, x, y, z, vx, vy, vz, primary, a, P, e, inc, Omega, omega, pomega, f, M, E, l,
     theta, T, h, k, ix, iy] =>
    some ⟨sim, m, r, hash, x, y, z, vx, vy, vz, primary, a, P, e, inc, Omega, omega, pomega, f, M, E, l,
          theta, T, h, k, ix, iy⟩
  | _ => none

/-- `name=hex` tokens -> FArgs; `primary=` takes 7 comma separated hex -/
def fargsOf (toks : List String) : FArgs Float :=
  toks.foldl (fun g tk =>
    match tk.splitOn "=" with
    | [k, v] =>
      let x := fl v
      match k with
      | "m" => { g with m := some x } | "x" => { g with x := some x } | "y" => { g with y := some x }
      | "z" => { g with z := some x } | "vx" => { g with vx := some x } | "vy" => { g with vy := some x }
      | "vz" => { g with vz := some x } | "a" => { g with a := some x } | "P" => { g with P := some x }
      | "e" => { g with e := some x } | "inc" => { g with inc := some x }
      | "Omega" => { g with Omega := some x } | "omega" => { g with omega := some x }
      | "pomega" => { g with pomega := some x } | "f" => { g with f := some x }
      | "M" => { g with M := some x } | "E" => { g with E := some x } | "l" => { g with l := some x }
      | "theta" => { g with theta := some x } | "T" => { g with T := some x }
      | "h" => { g with h := some x } | "k" => { g with k := some x } | "ix" => { g with ix := some x }
      | "iy" => { g with iy := some x }
      | "primary" =>
        match partOf (v.splitOn ",") with
        | some (p, _) => { g with primary := some p }
        | none => g
      | _ => g
    | _ => g) {}

def vr : Variant := RV.Gen.C11.variant

def step (toks : List String) : String :=
  match toks with
  | ["v", bits] =>
    match presenceOfBits bits with
    | some p => verdictStr (cValidate RV.Gen.C11.cTab p) ++ " " ++ verdictStr (pyValidate RV.Gen.C11.pyTab p)
    | none => "bad-op"
  | ["fmod", x, y] => hx (fmodFloat (fl x) (fl y))
  | ["mod2pi", x] => hx (mod2pi (fl x))
  | ["m2e", e, M] => hx (M_to_E vr (fl e) (fl M))
  | ["e2f", e, E] => hx (E_to_f (fl e) (fl E))
  | ["m2f", e, M] => hx (M_to_f vr (fl e) (fl M))
  | "fo" :: G :: rest =>
    match partOf rest with
    | some (pr, [m, a, e, inc, Om, om, f]) =>
      match fromOrbit vr (fl G) pr (fl m) (fl a) (fl e) (fl inc) (fl Om) (fl om) (fl f) with
      | .error err => s!"E{err.code}"
      | .ok p => partStr p
    | _ => "bad-op"
  | "op" :: G :: t0 :: rest =>
    match partOf rest with
    | some (p, rest2) =>
      match partOf rest2 with
      | some (pr, []) =>
        match orbitFromParticle vr (fl G) p pr (fl t0) with
        | .error n => s!"E{n}"
        | .ok o => orbStr o
      | _ => "bad-op"
    | none => "bad-op"
  | ["kpal", h, k, lam] =>
    let (p, q) := solveKeplerPal vr (fl h) (fl k) (fl lam)
    hxs [p, q]
  | "pal" :: G :: rest =>
    match partOf rest with
    | some (pr, [m, a, lam, k, h, ix, iy]) =>
      partStr (fromPal vr (fl G) pr (fl m) (fl a) (fl lam) (fl k) (fl h) (fl ix) (fl iy))
    | _ => "bad-op"
  | "p2pal" :: G :: rest =>
    match partOf rest with
    | some (p, rest2) =>
      match partOf rest2 with
      | some (pr, []) =>
        let o := particleToPal (fl G) p pr
        hxs [o.a, o.lambda, o.k, o.h, o.ix, o.iy]
      | _ => "bad-op"
    | none => "bad-op"
  | "pyfmt" :: G :: t :: rest =>
    match partOf rest with
    | some (com, kv) =>
      match frontPy vr RV.Gen.C11.pyTab (fl G) (fl t) com (fargsOf kv) with
      | .error n => s!"E{n}"
      | .ok p => partStr p
    | none => "bad-op"
  | "fmt" :: G :: t :: rest =>
    match partOf rest with
    | some (com, kv) =>
      match frontC vr RV.Gen.C11.cTab (fl G) (fl t) com (fargsOf kv) with
      | .error n => s!"E{n}"
      | .ok p => partStr p
    | none => "bad-op"
  | _ => "bad-op"

def main : IO Unit := runLines step
