import RV.Model.Gravity
import RV.Driver.Util
/-
  drv_c02: runs RV/Model/Gravity.lean on IEEE doubles.  One op per line, doubles as 16 hex
  digits; output = ax ay az of every particle (3N tokens) or `bad-op`.

    basic  N Na tp ignore shifted ngx ngy ngz G soft bsx bsy bsz  (m x y z)*N
    comp   N Na tp ignore G soft                                  (m x y z)*N
    jacobi N Na G                                                 (m x y z)*N
    shear  N Na tp ignore ngx ngy ngz G soft bsx bsy bsz OMEGA t  (m x y z)*N   (BASIC, shear ghost boxes)
    merc0  N Na tp Lkind G soft                                   (m x y z)*N dcrit*N
    merc1  N tp Lkind G soft encN encNa    (m x y z)*N dcrit*N map*encN (ax ay az)*N
    trace0 N Na tp G soft                                         (m x y z)*N ks
    trace1 N tp G soft encN encNa          (m x y z)*N ks map*encN (ax ay az)*N
    tree   N shifted ngx ngy ngz G soft theta2 bsx bsy bsz        (m x y z)*N nroots cells…
    treedata N                                                    (m x y z)*N nroots cells…  -> (m mx my mz) of every cell, preorder, after one refresh pass
  ks = one token of N*N characters '0'/'1' (current_Ks, row major);
  cells in preorder: `L pt remote m mx my mz` | `N w m mx my mz nkids` kids…
-/
open RV RV.Driver RV.Gravity

def nat (s : String) : Nat := s.toNat?.getD 0

/-! exact IEEE `fmod` on `Float` (Lean has none): integer arithmetic on mantissas
    (same construction as RV/Model/Orbit.lean) -/
def decompF (x : Float) : Nat × Int :=
  let b := x.toBits.toNat
  let ex := (b >>> 52) % 2048
  let fr := b % 2 ^ 52
  if ex == 0 then (fr, -1074) else (fr + 2 ^ 52, (ex : Int) - 1075)

def signBitF (x : Float) : Bool := x.toBits.toNat >>> 63 == 1

def fmodFloat (x y : Float) : Float :=
  if x.isNaN || y.isNaN || x.isInf || y == 0.0 then 0.0 / 0.0
  else if y.isInf then x
  else if x == 0.0 then x
  else
    let (mx, ex) := decompF x
    let (my, ey) := decompF y
    let (r, er) : Nat × Int :=
      if ex ≥ ey then ((mx * 2 ^ (ex - ey).toNat) % my, ey)
      else (mx % (my * 2 ^ (ey - ex).toNat), ex)
    let v := Float.scaleB (Float.ofNat r) er
    if signBitF x then -v else v

def bodies (t : Array String) (off n : Nat) : Array (Body Float) :=
  (Array.range n).map fun i =>
    { m := fl t[off + 4*i]!, p := ⟨fl t[off + 4*i + 1]!, fl t[off + 4*i + 2]!, fl t[off + 4*i + 3]!⟩ }

def floats (t : Array String) (off n : Nat) : Array Float :=
  (Array.range n).map fun i => fl t[off + i]!

def nats (t : Array String) (off n : Nat) : Array Nat :=
  (Array.range n).map fun i => nat t[off + i]!

def v3s (t : Array String) (off n : Nat) : Array (V3 Float) :=
  (Array.range n).map fun i => ⟨fl t[off + 3*i]!, fl t[off + 3*i + 1]!, fl t[off + 3*i + 2]!⟩

def outAcc (a : Array (V3 Float)) : String :=
  " ".intercalate (a.toList.map fun v => hx v.x ++ " " ++ hx v.y ++ " " ++ hx v.z)

def fgt (a b : Float) : Bool := a > b
def flt (a b : Float) : Bool := a < b

def lfun (kind : Nat) : Float → Float → Float :=
  match kind with
  | 0 => changeover flt polyMercury
  | 1 => changeover flt polyC4
  | _ => changeover flt polyC5

/-- parse one cell in preorder; returns the cell and the next offset -/
def parseCell (t : Array String) : Nat → Nat → Option (Cell Float × Nat)
  | 0, _ => none
  | fuel+1, off =>
    if t[off]! == "L" then
      some (.leaf (nat t[off+1]!) (nat t[off+2]! != 0) (fl t[off+3]!) ⟨fl t[off+4]!, fl t[off+5]!, fl t[off+6]!⟩, off + 7)
    else if t[off]! == "N" then
      let nk := nat t[off+6]!
      let rec kids (k : Nat) (off : Nat) (acc : List (Cell Float)) : Option (List (Cell Float) × Nat) :=
        match k with
        | 0 => some (acc.reverse, off)
        | k+1 => match parseCell t fuel off with
          | some (c, off') => kids k off' (c :: acc)
          | none => none
      match kids nk (off + 7) [] with
      | some (ks, off') => some (.node (fl t[off+1]!) (fl t[off+2]!) ⟨fl t[off+3]!, fl t[off+4]!, fl t[off+5]!⟩ ks, off')
      | none => none
    else none

def parseRoots (t : Array String) (n off : Nat) : Option (List (Cell Float)) :=
  let rec go (k off : Nat) (acc : List (Cell Float)) : Option (List (Cell Float)) :=
    match k with
    | 0 => some acc.reverse
    | k+1 => match parseCell t t.size off with
      | some (c, off') => go k off' (c :: acc)
      | none => none
  go n off []

def ksFun (s : String) (n : Nat) : Nat → Nat → Bool :=
  let a := s.toList.toArray
  fun i j => a[i * n + j]! == '1'

def step (toks : List String) : String :=
  let t := toks.toArray
  let sq := Float.sqrt
  match toks with
  | "basic" :: _ =>
    if t.size < 14 then "bad-op" else
    let n := nat t[1]!
    if t.size != 14 + 4*n then "bad-op" else
    let g := fl t[9]!
    let cfg : Cfg Float := { nActive := nat t[2]!, tpType := nat t[3]! != 0, ignore := nat t[4]!, soft := fl t[10]! }
    let gh := ghostList (nat t[5]! != 0) ⟨fl t[11]!, fl t[12]!, fl t[13]!⟩ (nat t[6]!) (nat t[7]!) (nat t[8]!)
    outAcc (accBasic (fun s _ _ => kernCube sq g s) cfg gh (bodies t 14 n))
  | "comp" :: _ =>
    if t.size < 7 then "bad-op" else
    let n := nat t[1]!
    if t.size != 7 + 4*n then "bad-op" else
    let g := fl t[5]!
    let cfg : Cfg Float := { nActive := nat t[2]!, tpType := nat t[3]! != 0, ignore := nat t[4]!, soft := fl t[6]! }
    outAcc (accComp (kernComp sq g) cfg (bodies t 7 n))
  | "jacobi" :: _ =>
    if t.size < 4 then "bad-op" else
    let n := nat t[1]!
    if t.size != 4 + 4*n then "bad-op" else
    let g := fl t[3]!
    outAcc (accJacobi (kernCube sq g) g sq (nat t[2]!) (bodies t 4 n) (Array.replicate n V3.zero))
  | "shear" :: _ =>
    if t.size < 15 then "bad-op" else
    let n := nat t[1]!
    if t.size != 15 + 4*n then "bad-op" else
    let g := fl t[8]!
    let cfg : Cfg Float := { nActive := nat t[2]!, tpType := nat t[3]! != 0, ignore := nat t[4]!, soft := fl t[9]! }
    let gh := ghostListShear fmodFloat ⟨fl t[10]!, fl t[11]!, fl t[12]!⟩ (fl t[13]!) (fl t[14]!) (nat t[5]!) (nat t[6]!) (nat t[7]!)
    outAcc (accBasic (fun s _ _ => kernCube sq g s) cfg gh (bodies t 15 n))
  | "merc0" :: _ =>
    if t.size < 7 then "bad-op" else
    let n := nat t[1]!
    if t.size != 7 + 5*n then "bad-op" else
    let g := fl t[5]!
    let cfg : Cfg Float := { nActive := nat t[2]!, tpType := nat t[3]! != 0, ignore := 2, soft := fl t[6]! }
    let dcrit := floats t (7 + 4*n) n
    outAcc (accMerc0 (prefMerc0 sq fgt (lfun (nat t[4]!)) g dcrit) cfg (bodies t 7 n))
  | "merc1" :: _ =>
    if t.size < 8 then "bad-op" else
    let n := nat t[1]!
    let encN := nat t[6]!
    if t.size != 8 + 8*n + encN then "bad-op" else
    let g := fl t[4]!
    let ps := bodies t 8 n
    let dcrit := floats t (8 + 4*n) n
    let map := nats t (8 + 5*n) encN
    let init := v3s t (8 + 5*n + encN) n
    let m0 := (ps[0]?.map (·.m)).getD 0.0
    outAcc (accEnc (prefMerc1 sq fgt (lfun (nat t[3]!)) g dcrit)
      (fun s => let r := sq s; (-g) / (r * r * r) * m0) (fun _ _ => false)
      (fl t[5]!) (nat t[2]! != 0) ps map encN (nat t[7]!) init)
  | "trace0" :: _ =>
    if t.size < 6 then "bad-op" else
    let n := nat t[1]!
    if t.size != 6 + 4*n + 1 then "bad-op" else
    let g := fl t[4]!
    let cfg : Cfg Float := { nActive := nat t[2]!, tpType := nat t[3]! != 0, ignore := 2, soft := fl t[5]! }
    let ks := ksFun t[6 + 4*n]! n
    outAcc (accTrace0 (fun s _ _ => kernCube sq g s) ks cfg (bodies t 6 n))
  | "trace1" :: _ =>
    if t.size < 7 then "bad-op" else
    let n := nat t[1]!
    let encN := nat t[5]!
    if t.size != 7 + 7*n + 1 + encN then "bad-op" else
    let g := fl t[3]!
    let ps := bodies t 7 n
    let ks := ksFun t[7 + 4*n]! n
    let map := nats t (8 + 4*n) encN
    let init := v3s t (8 + 4*n + encN) n
    let m0 := (ps[0]?.map (·.m)).getD 0.0
    outAcc (accEnc (fun s _ _ => kernCube sq g s)
      (fun s => let r := sq s; (-g) * m0 / (r * r * r)) (fun mi mj => !(ks mj mi))
      (fl t[4]!) (nat t[2]! != 0) ps map encN (nat t[6]!) init)
  | "tree" :: _ =>
    if t.size < 13 then "bad-op" else
    let n := nat t[1]!
    if t.size < 13 + 4*n then "bad-op" else
    let g := fl t[6]!
    let gh := ghostList (nat t[2]! != 0) ⟨fl t[9]!, fl t[10]!, fl t[11]!⟩ (nat t[3]!) (nat t[4]!) (nat t[5]!)
    let nroots := nat t[12 + 4*n]!
    match parseRoots t nroots (13 + 4*n) with
    | none => "bad-tree"
    | some roots =>
      outAcc (accTree (fun s => let r := sq s; (-g) / (r * r * r)) fgt (fl t[7]!) (fl t[8]!) gh roots (bodies t 12 n))
  | "treedata" :: _ =>
    if t.size < 3 then "bad-op" else
    let n := nat t[1]!
    if t.size < 3 + 4*n then "bad-op" else
    let nroots := nat t[2 + 4*n]!
    match parseRoots t nroots (3 + 4*n) with
    | none => "bad-tree"
    | some roots =>
      let ps := bodies t 2 n
      let out := cellDataLists (refreshCells (fun m => m > 0.0) ps roots)
      " ".intercalate (out.map fun d => hxs [d.1, d.2.x, d.2.y, d.2.z])
  | _ => "bad-op"

def main : IO Unit := runLines step
