import RV.Model.Transform
import RV.Model.Frame
import RV.Driver.Util
open RV RV.Driver RV.Transform

def outStr (o : Out Float) : String :=
  hxs ([o.m0, o.x0] ++ o.act ++ o.tst)

def houtStr (o : HOut Float) : String :=
  hxs ([o.com, o.x0] ++ o.act ++ o.tst)

/-- `op nact ntst m0 x0 (m x)*nact x*ntst` -/
def step (toks : List String) : String :=
  match toks with
  | op :: na :: _nt :: m0 :: x0 :: rest =>
    match na.toNat? with
    | none => "bad-op"
    | some na =>
      let act := pairs (rest.take (2*na))
      let tst := (rest.drop (2*na)).map fl
      let m0 := fl m0; let x0 := fl x0
      match op with
      | "jacFwd" => outStr (jacFwd m0 x0 act tst)
      | "jacInv" => outStr (jacInv m0 x0 act tst)
      | "dhFwdPos" => outStr (dhFwdPos m0 x0 act tst)
      | "dhFwdVel" => outStr (dhFwdVel m0 x0 act tst)
      | "dhInvPos" => outStr (dhInvPos m0 x0 act tst)
      | "dhInvVel" => outStr (dhInvVel m0 x0 act tst)
      | "whdsFwdVel" => outStr (whdsFwdVel m0 x0 act tst)
      | "whdsInvVel" => outStr (whdsInvVel m0 x0 act tst)
      | "baryFwd" => outStr (baryFwd m0 x0 act tst)
      | "baryInv" => outStr (baryInv m0 x0 act tst)
      | "hybFwdPos" => houtStr (hybFwdPos m0 x0 act tst)
      | "hybFwdVel" => houtStr (hybFwdVel m0 x0 act tst)
      | "hybInvPos" => houtStr (hybInvPos m0 x0 act tst)
      | "hybInvVel" => houtStr (hybInvVel m0 x0 act tst)
      -- public frame changes (tools.c): all particles as (m, x) pairs, no test-particle tail
      | "moveToHel" => hxs ((RV.Frame.moveToHel ((m0, x0) :: act)).map (·.2))
      | "moveToCom" => hxs ((RV.Frame.moveToCom ((m0, x0) :: act)).map (·.2))
      | "com" => let c := RV.Frame.com ((m0, x0) :: act); hxs [c.1, c.2]
      | _ => "bad-op"
  | _ => "bad-op"

def main : IO Unit := runLines step
