import RV.Model.Collision
import RV.Driver.Util
/-
  drv_c13: runs RV/Model/Collision.lean on IEEE doubles.  Line protocol (tokens separated by
  blanks, doubles as 16 hex digits):

    R seed n                      → n `new` indices of the shuffle, then the new seed
    S mode dt nInner <ring> <cand>→ k, then k × (p1 p2 gx gy gz gvx gvy gvz)
    F mode ks tree hybrid nActive nVar seed <variant: 5 flags of RmVariant + purge-flagged-at-end flag + clamp-N_active-in-tree-update flag> dt t <res> nInner <ring> <parts> <given>
                                  → seed' | calls | final state        (see `fullOut`)

    <ring>  = N_ghost_x N_ghost_y N_ghost_z, then 27 × 6 doubles (ghost boxes i,j,k = -1..1)
    <cand>  = n, then n × (ip x y z vx vy vz r)
    <parts> = n, then n × (id x y z vx vy vz m r lc)
    <given> = k, then k × (p1 p2 gbindex)          (mode given: pre-shuffle list; mode ordered: processing order)
    <res>   = script salt | zero | merge midflag teoflag G e0 (energy_offset before the search) | hs eps mcv eqmflag | halt   (merge with teoflag: output ends with `E <energy_offset>`)
-/
open RV RV.Driver RV.Collision
open RV.Tree (T Cell)

abbrev Tok := StateM (List String)

def tok : Tok String := do
  let l ← get
  match l with
  | [] => return ""
  | a :: r => set r; return a

def tNat : Tok Nat := do return (← tok).toNat?.getD 0
def tInt : Tok Int := do return (← tok).toInt?.getD 0
def tF : Tok Float := do return fl (← tok)

def tMany {α : Type} (p : Tok α) : Nat → Tok (List α)
  | 0 => return []
  | n+1 => do let a ← p; let r ← tMany p n; return a :: r

def tGB : Tok (GB Float) := do
  let x ← tF; let y ← tF; let z ← tF; let vx ← tF; let vy ← tF; let vz ← tF
  return ⟨x, y, z, vx, vy, vz⟩

/-- `ngx ngy ngz` (the simulation's N_ghost_x/y/z) followed by the 27 values of
    `reb_boundary_get_ghostbox(r,i,j,k)` for i,j,k = -1..1 (nested in this order); the ring
    the searches loop over is selected by the model's `ghostRing` -/
def tRing : Tok (List (GB Float)) := do
  let ngx ← tInt; let ngy ← tInt; let ngz ← tInt
  let tab ← tMany tGB 27
  return (ghostRing ngx ngy ngz).filterMap fun (a, b, c) =>
    tab[((a+1)*9 + (b+1)*3 + (c+1)).toNat]?

def tCand : Tok (Nat × Part Float) := do
  let ip ← tNat
  let x ← tF; let y ← tF; let z ← tF; let vx ← tF; let vy ← tF; let vz ← tF; let r ← tF
  return (ip, ⟨x, y, z, vx, vy, vz, 0.0, r, 0.0, ip, false⟩)

def tPart : Tok (Part Float) := do
  let id ← tNat
  let x ← tF; let y ← tF; let z ← tF; let vx ← tF; let vy ← tF; let vz ← tF
  let m ← tF; let r ← tF; let lc ← tF
  return ⟨x, y, z, vx, vy, vz, m, r, lc, id, false⟩

def gbStr (g : GB Float) : String := hxs [g.x, g.y, g.z, g.vx, g.vy, g.vz]

def collStr (c : Coll (GB Float)) : String := s!"{c.p1} {c.p2} {gbStr c.gb}"

def searchOut (l : List (Coll (GB Float))) : String :=
  " ".intercalate (toString l.length :: l.map collStr)

/-- outcome table of the scripted resolver; the same table is in rv/c13.py -/
def scriptTable : List Nat := [0, 1, 2, 3, 0, 5, 6, 1, 2, 0, 7, 0, 4, 2, 1, 3]

def scriptOut (salt a b : Nat) : Nat :=
  let h := (a * 2654435761 + b * 40503 + salt * 97 + 12345) % 4294967296
  let h := (h / 8192) ^^^ h
  scriptTable.getD (h % 16) 0

def scripted (salt : Nat) (s : Sim (Part Float)) (c : Coll (GB Float)) : Sim (Part Float) × Nat :=
  match lookup s c.p1, lookup s c.p2 with
  | some a, some b => (s, scriptOut salt a.id b.id)
  | _, _ => (s, 0)

def floatTrig : Trig Float := ⟨Float.atan2, Float.sin, Float.cos, Float.sqrt⟩

structure ResInfo where
  fn : Sim (Part Float) → Coll (GB Float) → Sim (Part Float) × Nat
  /-- merge with track_energy_offset: (massless-guard flag, G) -/
  eo : Option (Bool × Float × Float) := none

def tRes (t : Float) : Tok ResInfo := do
  match (← tok) with
  | "script" => do let salt ← tNat; return { fn := scripted salt }
  | "zero" => return { fn := fun s _ => (s, 0) }
  | "merge" => do
    let mid ← tNat; let teo ← tNat; let g ← tF; let e0 ← tF
    return { fn := merge (mid != 0) Float.cbrt t, eo := if teo != 0 then some (mid != 0, g, e0) else none }
  | "hs" => do
    let eps ← tF; let mcv ← tF; let eqm ← tNat
    return { fn := hardsphere (eqm != 0) floatTrig mcv t (fun _ => eps) }
  | _ => return { fn := halt t }

def partStr (p : Part Float) : String :=
  s!"{p.id} {if p.flagged then 1 else 0} " ++ hxs [p.x, p.y, p.z, p.vx, p.vy, p.vz, p.m, p.r, p.lc]

def callStr (k : Call (Part Float) (GB Float)) : String :=
  let ida := match k.a with | some p => (p.id : Int) | none => -1
  let idb := match k.b with | some p => (p.id : Int) | none => -1
  s!"{collStr k.c} {ida} {idb} {k.out}"

def fullOut (seed : UInt32) (sf : Sim (Part Float)) (calls : List (Call (Part Float) (GB Float))) : String :=
  " ".intercalate
    ([toString seed.toNat, toString calls.length] ++ calls.map callStr ++
     [toString sf.ps.length, toString sf.nActive, toString sf.err] ++ sf.ps.map partStr)

def tGiven (ring : List (GB Float)) : Tok (Coll (GB Float)) := do
  let p1 ← tInt; let p2 ← tInt; let g ← tNat
  return ⟨p1, p2, ring.getD g ⟨0.0, 0.0, 0.0, 0.0, 0.0, 0.0⟩⟩

def opF : Tok String := do
  let mode ← tok
  let ks ← tNat; let tree ← tNat; let hybrid ← tNat
  let nActive ← tInt; let nVar ← tNat; let seed ← tNat
  let vb ← tMany tNat 7
  let v : RmVariant := ⟨vb.getD 0 0 != 0, vb.getD 1 0 != 0, vb.getD 2 0 != 0, vb.getD 3 0 != 0, vb.getD 4 0 != 0⟩
  let dt ← tF; let t ← tF
  let res ← tRes t
  let nInner ← tNat
  let ring ← tRing
  let n ← tNat
  let parts ← tMany tPart n
  let k ← tNat
  let given ← tMany (tGiven ring) k
  let cand := (parts.take (parts.length - nVar)).zipIdx.map fun (p, i) => (i, p)
  let found := match mode with
    | "direct" => directSearch ring cand nInner
    | "line" => lineSearch dt ring cand
    | _ => given
  -- mode "ordered": the given list is the order in which the code processed the entries
  let (sh, seed') := if mode == "ordered" then (found, UInt32.ofNat seed) else shuffle (UInt32.ofNat seed) found
  let s0 : Sim (Part Float) := ⟨parts, nActive, nVar, tree != 0, hybrid != 0, 0⟩
  let (sf, calls) := processLoop v flagPart res.fn (ks != 0 || hybrid != 0) s0 sh
  let sf := if vb.getD 5 0 != 0 then purgeFlagged (vb.getD 6 0 != 0) sf else sf
  let eo := match res.eo with
    | some (mid, g, e0) => " E " ++ hx (energyOffsetOf Float.sqrt Float.cbrt g t mid e0 calls)
    | none => ""
  return fullOut seed' sf calls ++ eo

/-- all ordered pairs passing the LINE leaf test (what LINETREE reports when nothing is pruned):
    not part of the model, only the model's predicate `lineHit` applied to every ordered pair -/
def lineAll (dt : Float) (ring : List (GB Float)) (cand : List (Nat × Part Float)) : List (Coll (GB Float)) :=
  ring.flatMap fun gb => cand.flatMap fun (ip, p1) => cand.filterMap fun (jp, p2) =>
    if ip != jp && lineHit dt (shiftGB gb p1) p1.r p2 then some ⟨(ip : Int), (jp : Int), gb⟩ else none

def opS : Tok String := do
  let mode ← tok
  let dt ← tF
  let nInner ← tNat
  let ring ← tRing
  let n ← tNat
  let cand ← tMany tCand n
  match mode with
  | "direct" => return searchOut (directSearch ring cand nInner)
  | "line" => return searchOut (lineSearch dt ring cand)
  | "lineall" => return searchOut (lineAll dt ring cand)
  | _ => return "bad-mode"

/-- pre-order dump of one root cell as read back from the real code:
    `N` (NULL) | `L x y z w pt` (leaf) | `D x y z w` followed by the eight octants -/
partial def tTree : Tok (T Float) := do
  match (← tok) with
  | "L" => do
    let x ← tF; let y ← tF; let z ← tF; let w ← tF; let pt ← tNat
    return T.leaf ⟨x, y, z, w⟩ ⟨0.0, 0.0, 0.0, 0.0⟩ pt
  | "D" => do
    let x ← tF; let y ← tF; let z ← tF; let w ← tF
    let ch ← tMany tTree 8
    let v := ch.toArray
    return T.node ⟨x, y, z, w⟩ ⟨0.0, 0.0, 0.0, 0.0⟩ 0 (fun o => v.getD o.val T.nil)
  | _ => return T.nil

/-- `T mode dt maxR0 maxR1 <ring> <parts> nroots <trees>` → updated max_radius0/1, then the pending
    list of the TREE (`tree`) or LINETREE (`linetree`) search in the order of discovery -/
def opT : Tok String := do
  let mode ← tok
  let dt ← tF
  let m0 ← tF; let m1 ← tF
  let ring ← tRing
  let n ← tNat
  let parts ← tMany tPart n
  let nr ← tNat
  let roots ← tMany tTree nr
  let arr := parts.toArray
  let P : Nat → Part Float := fun i => arr.getD i default
  let (u0, u1) := updateMaxRadius m0 m1 (parts.map (·.r))
  let k : Float := 0.86602540378443
  let found := match mode with
    | "tree" => treeSearch k u1 ring P n roots
    | _ => lineTreeSearch Float.sqrt Float.abs k u1 dt ring P n roots
  return s!"{hx u0} {hx u1} " ++ searchOut found

/-- `B bx by bz tree teo clamp nActive <parts>` → what the end-of-step open boundary check (+ tree update) leaves for the
    collision search: N, N_active, then the identities in array order -/
def opB : Tok String := do
  let bx ← tF; let bY ← tF; let bz ← tF
  let tree ← tNat; let teo ← tNat; let clamp ← tNat; let nActive ← tInt
  let n ← tNat
  let parts ← tMany tPart n
  let s0 : Sim (Part Float) := ⟨parts, nActive, 0, tree != 0, false, 0⟩
  let s := searchInputOpen bx bY bz (teo != 0) (clamp != 0) s0
  return " ".intercalate ([toString s.ps.length, toString s.nActive] ++ s.ps.map (fun p => toString p.id))

/-- `G kind bx by bz omega t` → the 27 ghost boxes of `reb_boundary_get_ghostbox` (i,j,k = -1..1 nested), 6 doubles each -/
def opG : Tok String := do
  let kind ← tok
  let bx ← tF; let bY ← tF; let bz ← tF; let omega ← tF; let t ← tF
  let k : BKind := match kind with
    | "open" => .open | "periodic" => .periodic | "shear" => .shear | _ => .none
  return " ".intercalate ((ghostTable RV.Boundary.fmodFloat k bx bY bz omega t).map gbStr)

def opR : Tok String := do
  let seed ← tNat; let n ← tNat
  let (news, s') := drawNews n n (UInt32.ofNat seed)
  return " ".intercalate (news.map toString ++ [toString s'.toNat])

def step (toks : List String) : String :=
  match toks with
  | "R" :: r => (opR.run r).1
  | "S" :: r => (opS.run r).1
  | "F" :: r => (opF.run r).1
  | "T" :: r => (opT.run r).1
  | "B" :: r => (opB.run r).1
  | "G" :: r => (opG.run r).1
  | _ => "bad-op"

def main : IO Unit := runLines step
