import RV.Model.BinIO
def main : IO Unit := RV.BinIO.main
