import RV.Model.Persist
import RV.Gen.C05Descriptors
import RV.Driver.Util
/-
  drv_c05 — runs the field-level persistence model (RV/Model/Persist.lean) with the generated
  descriptor table on *real* field lists cut out of streams written by the compiled library.

  line protocol (tokens separated by blanks; a field list is `id hex id hex ...`, empty payload = `-`,
  two lists are separated by the token `|`):
    INFO                      → counts of the generated tables + executed consistency checks
    DEC  <fields>             → decode into an all-zero simulation, re-encode:   `W <warnings> F <fields>`
    LOAD self <fields>        → decode + post-load fix-ups (address `self`), re-encode
    LOADI self <init> | <fields> → same, but starting from the decoded `init` stream (a fresh simulation)
    CMP  <fields1> | <fields2> → return value of reb_binary_diff at field level: `0` / `1`
    DIFF <fields1> | <fields2> → `<CMP result> F <fields>`: return value and the field list reb_binary_diff writes with output_option 0 (difference stream)
    IDS  <fields>             → ids the model expects in a stream whose decoded content is <fields>
-/
open RV RV.Driver RV.Persist RV.Gen.C05

def hexDigit (c : Char) : Nat :=
  if '0' ≤ c ∧ c ≤ '9' then c.toNat - '0'.toNat
  else if 'a' ≤ c ∧ c ≤ 'f' then c.toNat - 'a'.toNat + 10
  else if 'A' ≤ c ∧ c ≤ 'F' then c.toNat - 'A'.toNat + 10 else 0

def hexToBytes (s : String) : Bytes :=
  if s = "-" then [] else
  let rec go : List Char → List UInt8 → List UInt8
    | a :: b :: r, acc => go r (UInt8.ofNat (hexDigit a * 16 + hexDigit b) :: acc)
    | _, acc => acc.reverse
  go s.toList []

def nib (n : Nat) : Char := if n < 10 then Char.ofNat (48 + n) else Char.ofNat (87 + n)

def bytesToHex (b : Bytes) : String :=
  if b.isEmpty then "-" else
  String.ofList (b.foldr (fun x acc => nib (x.toNat / 16) :: nib (x.toNat % 16) :: acc) [])

def parseFields : List String → List Field
  | a :: b :: r => (a.toNat!, hexToBytes b) :: parseFields r
  | _ => []

def showFields (fs : List Field) : String :=
  " ".intercalate (fs.map (fun f => toString f.1 ++ " " ++ bytesToHex f.2))

def showWarn : Warning → String
  | .unknownField id => "unknown:" ++ toString id
  | .pointers => "pointers"
  | .inconsistentSize id => "size:" ++ toString id

def showWarns (w : List Warning) : String :=
  if w.isEmpty then "none" else ",".intercalate (w.map showWarn)

def zeroSim : Sim := { mem := fun _ => [], heap := fun _ => none }

def splitBar (l : List String) : List String × List String :=
  (l.takeWhile (· ≠ "|"), (l.dropWhile (· ≠ "|")).drop 1)

def pSimOff : Nat := particleSimOff
def vSimOff : Nat := varCfgSimOff

def fpOf (fs : List Field) : Bool :=
  match findField fs special.fpIdWritten with
  | some b => leNat (b.take 4) ≠ 0
  | none => false

/-- executed (not kernel) consistency checks between name based code paths and the generated flags -/
def nameChecks : String :=
  let wallOk := (List.zip table tableNames).all (fun p => p.1.wall == p.2.startsWith wallPrefix)
  let cmpOk := (List.zip table tableNames).all (fun p =>
      match p.1.cmp with
      | 0 => !(cmpSpecFields.contains p.2)
      | k + 1 => cmpSpecFields[k]? == some p.2)
  let cnt := table.length == tableCount && members.length == membersCount && tableNames.length == tableCount
      && memberNames.length == membersCount && cmpSpecs.length == cmpSpecCount
  s!"wall={wallOk} cmp={cmpOk} counts={cnt}"

def step (toks : List String) : String :=
  match toks with
  | ["INFO"] =>
    s!"table={table.length} live={(live table).length} members={members.length} transient={transient.length} " ++
    s!"gaps={knownGaps.length} psz={particleSize} {nameChecks} pSim={pSimOff} vSim={vSimOff}"
  | "DEC" :: rest =>
    let fs := parseFields rest
    let r := decodeFields particleSize special table (zeroSim, []) fs
    "W " ++ showWarns r.2 ++ " F " ++ showFields (encode particleSize special table r.1 (fpOf fs))
  | "LOAD" :: self :: rest =>
    let fs := parseFields rest
    let r := load particleSize special table elem_reb_particle elem_reb_variational_configuration pSimOff vSimOff
      self.toNat! zeroSim fs
    "W " ++ showWarns r.2 ++ " F " ++ showFields (encode particleSize special table r.1 false)
  | "LOADI" :: self :: rest =>
    let (i, f) := splitBar rest
    let init := (decodeFields particleSize special table (zeroSim, []) (parseFields i)).1
    let fs := parseFields f
    let r := load particleSize special table elem_reb_particle elem_reb_variational_configuration pSimOff vSimOff
      self.toNat! init fs
    "W " ++ showWarns r.2 ++ " F " ++ showFields (encode particleSize special table r.1 false)
  | "CMP" :: rest =>
    let (a, b) := splitBar rest
    if compare special cmpSpecs table (parseFields a) (parseFields b) then "1" else "0"
  | "DIFF" :: rest =>
    let (a, b) := splitBar rest
    let fa := parseFields a
    let fb := parseFields b
    (if compare special cmpSpecs table fa fb then "1" else "0") ++ " F " ++ showFields (diffReport special cmpSpecs table fa fb)
  | _ => "bad-op"

def main : IO Unit := runLines step
