import RV.Model.Sync
import RV.Gen.C09Eos
import RV.Driver.Util
open RV RV.Driver RV.Sync

def b01 (s : String) : Bool := s == "1"
def bs (b : Bool) : String := if b then "1" else "0"

def coordOf : String → Option Coord
  | "0" => some .jacobi | "1" => some .dh | "2" => some .whds | "3" => some .bary | _ => none

def opOf : String → Option (Op Unit)
  | "s" => some .step | "y" => some .synchronize | "r" => some .read
  | "f" => some .setRecalc | "p" => some (.poke ()) | _ => none

def flagsStr (f : Flags) : String := s!"{bs f.isSync} {bs f.recalc} {bs f.allocated}"

def primsStr (ps : List Prim) : String := ",".intercalate (ps.map Prim.toString)

/-- one op token = one group of plan items; `i:n:k:exact:reverse:syncFirst` is an integrate call -/
def groupOf (tok : String) : Option (List DtOp) :=
  match opOf tok with
  | some o => some [.api o]
  | none =>
    if tok == "g" then some [.setRcrit] else
    if tok == "ms0" then some [.setSafe false] else if tok == "ms1" then some [.setSafe true] else
    if tok == "mk0" then some [.setKeep false] else if tok == "mk1" then some [.setKeep true] else
    match tok.splitOn ":" with
    | ["c", pre, post] =>
      some ((cbStepPlan (if b01 pre then some () else none) (if b01 post then some () else none)).map DtOp.api)
    | ["i", n, k, e, r, x, fo, rc] =>
      match n.toNat?, k.toNat? with
      | some n, some k => some (integratePlan n k (b01 e) (b01 r) (b01 x) (b01 fo) (b01 rc))
      | _, _ => none
    | _ => none

/-- a flag machine as the driver sees it: state `F` (options that can change mid-run + flags) -/
structure Machine (F : Type) where
  api : F → Op Unit → Except String (List String × F)
  apiForce : F → Op Unit → Except String (List String × F)   -- synchronize ignoring keep_unsynchronized
  setR : F → F                                                -- user sets recalculate_r_crit_this_timestep
  setSafe : Bool → F → F
  setKeep : Bool → F → F
  shw : F → String
  /-- what `reb_simulation_step` does after the post-timestep callback (`reb_simulation_rescale_var`) -/
  stepTail : F → List String × F := fun f => ([], f)

/-- run one group through a flag machine: prims (as strings) with the dt markers in between -/
def runGroup {F : Type} (M : Machine F) (defer : Bool) : F → List DtOp → List String → Except String (List String × F)
  | f, [], acc =>
    if defer then
      let (tl, f') := M.stepTail f
      .ok (acc.reverse ++ tl, f')
    else .ok (acc.reverse, f)
  | f, .setRcrit :: r, acc => runGroup M defer (M.setR f) r acc
  | f, .setSafe b :: r, acc => runGroup M defer (M.setSafe b f) r acc
  | f, .setKeep b :: r, acc => runGroup M defer (M.setKeep b f) r acc
  | f, .forceSync :: r, acc =>
    match M.apiForce f .synchronize with
    | .error e => .error e
    | .ok (ps, f') => runGroup M defer f' r (ps.reverse ++ acc)
  | f, .api o :: r, acc =>
    match M.api f o with
    | .error e => .error e
    | .ok (ps, f') =>
      match o with
      | .step =>
        -- without a post-timestep callback the rescaling follows the step at once
        let (tl, f'') := if defer then ([], f') else M.stepTail f'
        runGroup M defer f'' r ((ps ++ ["stepEnd"] ++ tl).reverse ++ acc)
      | .poke _ => runGroup M defer f' r ((ps ++ ["cbEdit"]).reverse ++ acc)
      | _ => runGroup M defer f' r (ps.reverse ++ acc)
  | f, .begin :: r, acc => runGroup M defer f r ("intBegin" :: acc)
  | f, .flipDt :: r, acc => runGroup M defer f r ("flipDt" :: acc)
  | f, .setDtLast :: r, acc => runGroup M defer f r ("setDtLast" :: acc)
  | f, .restoreDt :: r, acc => runGroup M defer f r ("restoreDt" :: acc)

/-- a group that is one step with callbacks (it contains the callbacks' edits) -/
def isCbGroup (g : List DtOp) : Bool :=
  g.any (fun d => match d with | .api (.poke _) => true | _ => false) &&
  g.any (fun d => match d with | .api .step => true | _ => false)

def runGroups {F : Type} (M : Machine F) : F → List (List DtOp) → List String → String
  | _, [], acc => ";".intercalate acc.reverse
  | f, g :: gs, acc =>
    match runGroup M (isCbGroup g) f g [] with
    | .error e => ";".intercalate (("error " ++ e) :: acc).reverse
    | .ok (ps, f') => runGroups M f' gs ((",".intercalate ps ++ "@" ++ M.shw f') :: acc)

def liftApi {C Fl P : Type} (f : C → Fl → Op Unit → Except String (List P × Fl)) (str : P → String) :
    C × Fl → Op Unit → Except String (List String × (C × Fl)) := fun x o =>
  match f x.1 x.2 o with
  | .error e => .error e
  | .ok (ps, f') => .ok (ps.map str, (x.1, f'))

def flagsStr2 (x : Config × Flags) : String := flagsStr x.2
def mflagsStr (f : MFlags) : String :=
  s!"{bs f.isSync} {bs f.recalc} {bs f.recalcR} {bs f.allocD} {bs f.allocT}"

def whMachine : Machine (Config × Flags) where
  api := liftApi (fun c f o => apiOps c f o) Prim.toString
  apiForce := fun x o => liftApi (fun c f o => apiOps { c with keep := false } f o) Prim.toString x o
  setR := id
  setSafe := fun b x => ({ x.1 with safe := b }, x.2)
  setKeep := fun b x => ({ x.1 with keep := b }, x.2)
  shw := fun x => flagsStr x.2

/-- state of the variational machine: configuration, source variant of rescale_var, flags, magnitudes -/
def varMachine : Machine ((Config × Bool) × (Flags × VMag)) where
  api := liftApi (fun c f o => (Except.ok (vCoreOpsR c.1 f.1 f.2 o) : Except String _)) Prim.toString
  apiForce := liftApi (fun c f o => (Except.ok (vCoreOpsR { c.1 with keep := false } f.1 f.2 o) : Except String _)) Prim.toString
  setR := id
  setSafe := fun b x => (({ x.1.1 with safe := b }, x.1.2), x.2)
  setKeep := fun b x => (({ x.1.1 with keep := b }, x.1.2), x.2)
  shw := fun x => flagsStr x.2.1 ++ " " ++ bs x.2.2.bigP
  stepTail := fun x =>
    let r := vStepTailR x.1.2 x.1.1 x.2.1 x.2.2
    -- the rescaling primitive is printed with the model's verdict: performed or not
    ([if r.2.2.2 then "vRescale=1" else "vRescale=0"], (x.1, (r.2.1, r.2.2.1)))

def sabaMachine : Machine (SabaConfig × Flags) where
  api := liftApi (fun c f o => sabaApiOps c f o) Prim.toString
  apiForce := liftApi (fun c f o => sabaApiOps { c with keep := false } f o) Prim.toString
  setR := id
  setSafe := fun b x => ({ x.1 with safe := b }, x.2)
  setKeep := fun b x => ({ x.1 with keep := b }, x.2)
  shw := fun x => flagsStr x.2

def mercMachine (coarse : Bool) : Machine (Bool × MFlags) where
  api := liftApi (fun sf f o => (Except.ok (if coarse then mOpOpsCoarse sf f o else mOpOps sf f o) : Except String _)) MPrim.toString
  apiForce := liftApi (fun sf f o => (Except.ok (if coarse then mOpOpsCoarse sf f o else mOpOps sf f o) : Except String _)) MPrim.toString
  setR := fun x => (x.1, mSetRcrit x.2)
  setSafe := fun b x => (b, x.2)
  setKeep := fun _ x => x
  shw := fun x => mflagsStr x.2

/-- the footprint table of the model (`transfer`) as a dependency matrix: row = output
    component, column = input component, `1` = may depend.  rv/c09.py tests it on the real
    primitives by perturbation. -/
def footPrims : List Prim :=
  [.fromInertial, .toInertial, .posJacobi, .posBary, .kepler (.frac 1 2), .com (.frac 1 2),
   .jump (.frac 1 2), .interaction (.frac 1 2), .updateAcc, .jerk, .jacAcc, .posJacobiAll,
   .jacAccAll, .toInertialAll]

def compsOf (k : Nat) (v : Bool) : Comps :=
  ⟨if k == 0 then v else !v, if k == 1 then v else !v, if k == 2 then v else !v,
   if k == 3 then v else !v, if k == 4 then v else !v, if k == 5 then v else !v⟩

def compGet (L : Comps) : Nat → Bool
  | 0 => L.pj | 1 => L.pos | 2 => L.vel | 3 => L.acc | 4 => L.saved | _ => L.tmp

def footRow (p : Prim) (j : Nat) : String :=
  String.join ((List.range 6).map fun k => if compGet (transfer p (compsOf k false)) j then "0" else "1")

def footStr : String :=
  " ".intercalate (footPrims.map fun p =>
    p.toString ++ "/" ++ "|".intercalate ((List.range 6).map (footRow p)))

def eopStr : Eos.EOp Float → String
  | .drift1 τ => "D:" ++ hx τ
  | .inter1 y v => "I1:" ++ hx y ++ ":" ++ hx v
  | .inter0 y v => "I0:" ++ hx y ++ ":" ++ hx v

/-- EOS: `E phi0 phi1 n safe isSync dt(hex) op*` with ops `s` / `y` / `r` -/
def runEos (phi0 phi1 n : Nat) (dt : Float) : Bool → Bool → List String → List String → String
  | _, _, [], acc => ";".intercalate acc.reverse
  | safe, b, o :: os, acc =>
    let safe' := if o == "ms0" then false else if o == "ms1" then true else safe
    let (ps, b') := match o with
      | "s" => Eos.part2 Gen.C09.eosTab phi0 phi1 n safe b dt
      | "y" => Eos.sync Gen.C09.eosTab phi0 phi1 n b dt
      | _ => ([], b)
    runEos phi0 phi1 n dt safe' b' os ((",".intercalate (ps.map eopStr) ++ "@" ++ bs b') :: acc)

/-- `W coord kernel corrector corrector2 safe keep c2fixed p1fix isSync recalc allocated op*` -/
def step (toks : List String) : String :=
  match toks with
  | "W" :: co :: ke :: cr :: c2 :: sa :: kp :: fx :: pf :: isy :: rc :: al :: ops =>
    match coordOf co, ke.toNat?, cr.toNat?, ops.mapM groupOf with
    | some co, some ke, some cr, some ops =>
      runGroups whMachine (⟨co, ke, cr, b01 c2, b01 sa, b01 kp, b01 fx, false, b01 pf⟩, ⟨b01 isy, b01 rc, b01 al⟩) ops []
    | _, _, _, _ => "bad-op"
  | "S" :: ty :: sa :: kp :: ci :: pf :: ps :: isy :: rc :: al :: ops =>
    match ty.toNat?, ops.mapM groupOf with
    | some ty, some ops => runGroups sabaMachine (⟨ty, b01 sa, b01 kp, b01 ci, b01 pf, b01 ps⟩, ⟨b01 isy, b01 rc, b01 al⟩) ops []
    | _, _ => "bad-op"
  | ["FOOT"] => footStr
  | "E" :: p0 :: p1 :: n :: sa :: isy :: dt :: ops =>
    match p0.toNat?, p1.toNat?, n.toNat? with
    | some p0, some p1, some n => runEos p0 p1 n (fl dt) (b01 sa) (b01 isy) ops []
    | _, _, _ => "bad-op"
  | "V" :: sa :: kp :: vf :: pf :: rf :: bg :: isy :: rc :: al :: ops =>
    match ops.mapM groupOf with
    | some ops => runGroups varMachine ((⟨.jacobi, 0, 0, false, b01 sa, b01 kp, false, b01 vf, b01 pf⟩, b01 rf), (⟨b01 isy, b01 rc, b01 al⟩, ⟨b01 bg, b01 bg⟩)) ops []
    | none => "bad-op"
  | "MC" :: sa :: isy :: rc :: rr :: ad :: atm :: ops =>
    match ops.mapM groupOf with
    | some ops => runGroups (mercMachine true) (b01 sa, ⟨b01 isy, b01 rc, b01 rr, b01 ad, b01 atm⟩) ops []
    | none => "bad-op"
  | "M" :: sa :: isy :: rc :: rr :: ad :: atm :: ops =>
    match ops.mapM groupOf with
    | some ops => runGroups (mercMachine false) (b01 sa, ⟨b01 isy, b01 rc, b01 rr, b01 ad, b01 atm⟩) ops []
    | none => "bad-op"
  | _ => "bad-op"

def main : IO Unit := runLines step
