import RV.Model.Sync
import RV.Driver.Util
open RV RV.Driver RV.Sync

def b01 (s : String) : Bool := s == "1"
def bs (b : Bool) : String := if b then "1" else "0"

def coordOf : String → Option Coord
  | "0" => some .jacobi | "1" => some .dh | "2" => some .whds | "3" => some .bary | _ => none

def opOf : String → Option (Op Unit)
  | "s" => some .step | "y" => some .synchronize | "r" => some .read
  | "f" => some .setRecalc | "p" => some (.poke ()) | _ => none

def flagsStr (f : Flags) : String := s!"{bs f.isSync} {bs f.recalc} {bs f.allocated}"

def primsStr (ps : List Prim) : String := ",".intercalate (ps.map Prim.toString)

/-- run the op list through the flag machine, one output segment per op -/
def runOps (c : Config) : Flags → List (Op Unit) → List String → String
  | _, [], acc => ";".intercalate acc.reverse
  | f, o :: os, acc =>
    match apiOps c f o with
    | .error e => ";".intercalate (("error " ++ e) :: acc).reverse
    | .ok (ps, f') => runOps c f' os ((primsStr ps ++ "@" ++ flagsStr f') :: acc)

/-- `W coord kernel corrector corrector2 safe keep isSync recalc allocated op*` -/
def step (toks : List String) : String :=
  match toks with
  | "W" :: co :: ke :: cr :: c2 :: sa :: kp :: isy :: rc :: al :: ops =>
    match coordOf co, ke.toNat?, cr.toNat?, ops.mapM opOf with
    | some co, some ke, some cr, some ops =>
      runOps ⟨co, ke, cr, b01 c2, b01 sa, b01 kp⟩ ⟨b01 isy, b01 rc, b01 al⟩ ops []
    | _, _, _, _ => "bad-op"
  | _ => "bad-op"

def main : IO Unit := runLines step
