import RV.Model.Dual
import RV.Model.Var
import RV.Driver.Util
import RV.Gen.C16Deriv
import RV.Gen.C16Dispatch
import RV.Gen.C16VarLoops
/-
  drv_c16 — line protocol driver for C16.  All numbers are IEEE doubles as 16 hex digits,
  counts are decimal.

    force  N G soft2 (m x y z)*N                          -> 3N   accBasicAll on Float
    forceI/var1I/ad1I  ign N G ...                          -> 3N   the same under gravity_ignore_terms = ign
    deriv <name> inputs (pal: G m M a lambda k h ix iy p q; orb: G m M a e inc Omega omega f) -> 7  generated RV/Gen/C16Deriv function
    palmap / orbmap (same inputs)                          -> 7    palMap / orbMap (constructors relative to the primary)
    megno (t dY dt_done)*                                   -> Ys Yss cov var meanY meanT megno lyapunov n   after the updates
    var1g / var2g N G soft2 ...                            -> 3N   loops over the kernels TRANSLATED from gravity.c (RV/Gen/C16VarLoops), softening included
    ad2soft N G soft2 ...                                  -> 3N   eps1eps2-part of the softened force on Dual (Dual Float)
    corrsched order inv dt na a*na nb b*nb                  -> "K a ; RR ; RV ; A ; I b ; …" schedule of reb_whfast_apply_corrector
    whjac/adwhjac G eta dt soft x y z dx dy dz             -> 6/3  WHFast Jacobi term and its variation / AD
    forceS/var1S/ad1S/ad2S  N_active tptype N G ...        -> 3N   the same with N_active < N (accBasicSplit/accVar1Split)
    var1   N G (m x y z)*N (dm dx dy dz)*N                -> 3N   accVar1 on Float (hand-derived loops)
    ad1    N G (m x y z)*N (dm dx dy dz)*N                -> 3N   ε-part of accBasicAll on Dual Float
    var1tp G x y z ddx ddy ddz M (m x y z)*M              -> 3    tpVar1
    ad1tp  (same)                                         -> 3    ε-part of tpForce on Dual Float
    var2   N G (m x y z)*N  a*N  b*N  dd*N                -> 3N   accVar2
    ad2    (same)                                         -> 3N   ε₁ε₂-part of accBasicAll on Dual (Dual Float)
    var2tp G x y z dd(3) k1(3) k2(3) M (m x y z)*M        -> 3    tpVar2
    ad2tp  (same)                                         -> 3
    com1   M n (m x dm dx)*n                              -> 1    comShift1
    adcom1 n (m x dm dx)*n                                -> 1    ε-part of Σmx/Σm
    com2   M n (m x ma xa mb xb mm xx)*n                  -> 1    comShift2
    adcom2 n (...)                                        -> 1    ε₁ε₂-part of Σmx/Σm
    rescale thr nReal sync ncfg (order index single lrescale)*ncfg nmem (x y z vx vy vz)*nmem
                                                          -> lrescale*ncfg warn1 warn2 mem(6*nmem)
-/
open RV RV.Driver RV.Var

def gps : List String → List (GP Float)
  | m :: x :: y :: z :: r => ⟨fl m, fl x, fl y, fl z⟩ :: gps r
  | _ => []

def v3s (l : List (V3 Float)) : String :=
  hxs (l.foldr (fun v acc => v.x :: v.y :: v.z :: acc) [])

def cD (a : Float) : Dual Float := Dual.const a
def cD2 (a : Float) : Dual2 Float := Dual.const (Dual.const a)
def gpD (p d : GP Float) : GP (Dual Float) := ⟨⟨p.m, d.m⟩, ⟨p.x, d.x⟩, ⟨p.y, d.y⟩, ⟨p.z, d.z⟩⟩
def gpD2 (p a b c : GP Float) : GP (Dual2 Float) :=
  ⟨⟨⟨p.m, a.m⟩, ⟨b.m, c.m⟩⟩, ⟨⟨p.x, a.x⟩, ⟨b.x, c.x⟩⟩, ⟨⟨p.y, a.y⟩, ⟨b.y, c.y⟩⟩, ⟨⟨p.z, a.z⟩, ⟨b.z, c.z⟩⟩⟩
def gpC (p : GP Float) : GP (Dual Float) := ⟨cD p.m, cD p.x, cD p.y, cD p.z⟩
def gpC2 (p : GP Float) : GP (Dual2 Float) := ⟨cD2 p.m, cD2 p.x, cD2 p.y, cD2 p.z⟩

def zip4 : List (GP Float) → List (GP Float) → List (GP Float) → List (GP Float) → List (RV2 Float)
  | p :: ps, a :: as, b :: bs, c :: cs => ⟨p, a, b, c⟩ :: zip4 ps as bs cs
  | _, _, _, _ => []

def sqrtF : Float → Float := Float.sqrt

def c1s : List String → List (C1 Float)
  | m :: x :: dm :: dx :: r => ⟨fl m, fl x, fl dm, fl dx⟩ :: c1s r
  | _ => []
def c2s : List String → List (C2 Float)
  | m :: x :: ma :: xa :: mb :: xb :: mm :: xx :: r =>
    ⟨fl m, fl x, fl ma, fl xa, fl mb, fl xb, fl mm, fl xx⟩ :: c2s r
  | _ => []

def p6s : List String → List (P6 Float)
  | x :: y :: z :: vx :: vy :: vz :: r => ⟨fl x, fl y, fl z, fl vx, fl vy, fl vz⟩ :: p6s r
  | _ => []

def vcs : Nat → List String → List (VC Float) × List String
  | 0, r => ([], r)
  | n+1, o :: i :: s :: l :: r =>
    let (t, r') := vcs n r
    (⟨o.toNat!, i.toNat!, s == "1", fl l⟩ :: t, r')
  | _, r => ([], r)

def floatDOps : DOps Float := { sin := Float.sin, cos := Float.cos, sqrt := Float.sqrt, fabs := Float.abs }

def floatOps : ROps Float :=
  { fabs := Float.abs, log := Float.log, gt := fun a b => a > b, lt := fun a b => a < b }

def step (toks : List String) : String :=
  match toks with
  | "force" :: n :: g :: s2 :: rest =>
    let n := n.toNat!
    v3s (accBasicAll (fl g) (fl s2) sqrtF ((gps rest).take n))
  | "var1" :: n :: g :: rest =>
    let n := n.toNat!
    let all := gps rest
    v3s (accVar1 (fl g) sqrtF ((all.take n).zip (all.drop n)))
  | "ad1" :: n :: g :: rest =>
    let n := n.toNat!
    let all := gps rest
    let ps := (List.zipWith gpD (all.take n) (all.drop n))
    v3s ((accBasicAll (cD (fl g)) (cD 0.0) (Dual.sqrtLift sqrtF) ps).map (fun v => ⟨v.x.eps, v.y.eps, v.z.eps⟩))
  | "forceI" :: ign :: n :: g :: s2 :: rest =>
    v3s (accBasicIgn ign.toNat! (fl g) (fl s2) sqrtF ((gps rest).take n.toNat!))
  | "var1I" :: ign :: n :: g :: rest =>
    let n := n.toNat!
    let all := gps rest
    v3s (accVar1Ign ign.toNat! (fl g) sqrtF ((all.take n).zip (all.drop n)))
  | "ad1I" :: ign :: n :: g :: rest =>
    let n := n.toNat!
    let all := gps rest
    let ps := (List.zipWith gpD (all.take n) (all.drop n))
    v3s ((accBasicIgn ign.toNat! (cD (fl g)) (cD 0.0) (Dual.sqrtLift sqrtF) ps).map (fun v => ⟨v.x.eps, v.y.eps, v.z.eps⟩))
  | ["whjac", g, eta, dt, soft, x, y, z, dx, dy, dz] =>
    v3s [whJacKick (fl g) (fl eta) (fl dt) (fl soft) sqrtF (fl x) (fl y) (fl z),
         whJacKickVar (fl g) (fl eta) (fl dt) (fl soft) sqrtF (fl x) (fl y) (fl z) (fl dx) (fl dy) (fl dz)]
  | ["adwhjac", g, eta, dt, _soft, x, y, z, dx, dy, dz] =>
    let v := whJacKick (cD (fl g)) (cD (fl eta)) (cD (fl dt)) (cD 0.0) (Dual.sqrtLift sqrtF) ⟨fl x, fl dx⟩ ⟨fl y, fl dy⟩ ⟨fl z, fl dz⟩
    v3s [⟨v.x.eps, v.y.eps, v.z.eps⟩]
  | "corrsched" :: order :: inv :: dt :: na :: rest =>
    let na := na.toNat!
    let as_ := (rest.take na).map fl
    let bs := (rest.drop (na + 1)).map fl
    let show1 : WOp Float → String
      | .kepler a => "K " ++ hx a
      | .refreshReal => "RR"
      | .refreshVar => "RV"
      | .acc => "A"
      | .interaction b => "I " ++ hx b
    " ; ".intercalate ((correctorPair order.toNat! (fl inv) (fl dt) as_ bs).map show1)
  | "deriv" :: name :: rest =>
    match RV.Gen.C16Deriv.byName floatDOps name (rest.map fl) with
    | some r => hxs [r.m, r.x, r.y, r.z, r.vx, r.vy, r.vz]
    | none => "bad-op"
  | ["palmap", g, m, mm, a, lam, k, h, ix, iy, p, q] =>
    let r := palMap floatDOps (fl g) (fl m) (fl mm) (fl a) (fl lam) (fl k) (fl h) (fl ix) (fl iy) (fl p) (fl q)
    hxs [r.m, r.x, r.y, r.z, r.vx, r.vy, r.vz]
  | ["orbmap", g, m, mm, a, e, inc, om1, om2, f] =>
    let r := orbMap floatDOps (fl g) (fl m) (fl mm) (fl a) (fl e) (fl inc) (fl om1) (fl om2) (fl f)
    hxs [r.m, r.x, r.y, r.z, r.vx, r.vy, r.vz]
  | ["dispatch1", v] =>
    match dispatch1 RV.Gen.C16Dispatch.variationTypes RV.Gen.C16Dispatch.shortcuts v with
    | some n => n
    | none => "ValueError"
  | ["dispatch2", v1, v2] =>
    match dispatch2 RV.Gen.C16Dispatch.variationTypes RV.Gen.C16Dispatch.shortcuts v1 v2 with
    | some n => n
    | none => "ValueError"
  | "megno" :: rest =>
    let rec trip : List String → List (Float × Float × Float)
      | a :: b :: c :: r => (fl a, fl b, fl c) :: trip r
      | _ => []
    let z := fun (x : Float) => x == 0.0
    let s := megnoRun z Megno.init (trip rest)
    let last := match (trip rest).getLast? with | some u => u.1 | none => 0.0
    hxs [s.Ys, s.Yss, s.cov, s.var, s.meanY, s.meanT, megnoOf z last s.Yss, lyapunovOf z s] ++ " " ++ toString s.n
  | ["derivcount"] => s!"{RV.Gen.C16Deriv.functionCount} {RV.Gen.C16Deriv.statementCount}"
  | "var1g" :: n :: g :: s2 :: rest =>
    let n := n.toNat!
    let all := gps rest
    let ps := (all.take n).zip (all.drop n)
    v3s (loopLF V3.add V3.zero (fun a b : RV1 Float => RV.Gen.C16VarLoops.var1Body sqrtF (fl g) (fl s2) a.1 b.1 a.2 b.2) [] [] ps)
  | "var2g" :: n :: g :: s2 :: rest =>
    let n := n.toNat!
    let all := gps rest
    let ps := zip4 (all.take n) ((all.drop n).take n) ((all.drop (2*n)).take n) (all.drop (3*n))
    v3s (loopEF V3.add (RV.Gen.C16VarLoops.var2Body sqrtF (fl g) (fl s2)) ps (ps.map (fun _ => V3.zero)))
  | "ad2soft" :: n :: g :: s2 :: rest =>
    let n := n.toNat!
    let all := gps rest
    let ps := (zip4 (all.take n) ((all.drop n).take n) ((all.drop (2*n)).take n) (all.drop (3*n))).map
      (fun q => gpD2 q.p q.da q.db q.dd)
    v3s ((accBasicAll (cD2 (fl g)) (cD2 (fl s2)) (Dual2.sqrtLift2 sqrtF) ps).map
      (fun v => ⟨v.x.eps.eps, v.y.eps.eps, v.z.eps.eps⟩))
  | "ad1soft" :: n :: g :: s2 :: rest =>
    let n := n.toNat!
    let all := gps rest
    let ps := (List.zipWith gpD (all.take n) (all.drop n))
    v3s ((accBasicAll (cD (fl g)) (cD (fl s2)) (Dual.sqrtLift sqrtF) ps).map (fun v => ⟨v.x.eps, v.y.eps, v.z.eps⟩))
  | "forceS" :: na :: tp :: n :: g :: s2 :: rest =>
    let all := (gps rest).take n.toNat!
    v3s (accBasicSplit (fl g) (fl s2) sqrtF (tp == "1") (all.take na.toNat!) (all.drop na.toNat!))
  | "var1S" :: na :: tp :: n :: g :: rest =>
    let n := n.toNat!
    let all := gps rest
    let ps := (all.take n).zip (all.drop n)
    v3s (accVar1Split (fl g) sqrtF (tp == "1") (ps.take na.toNat!) (ps.drop na.toNat!))
  | "var2S" :: na :: _tp :: n :: g :: rest =>
    let n := n.toNat!
    let all := gps rest
    let ps := zip4 (all.take n) ((all.drop n).take n) ((all.drop (2*n)).take n) (all.drop (3*n))
    v3s (accVar2Split (fl g) sqrtF (ps.take na.toNat!) (ps.drop na.toNat!))
  | "ad1S" :: na :: tp :: n :: g :: rest =>
    let n := n.toNat!
    let all := gps rest
    let ps := (List.zipWith gpD (all.take n) (all.drop n))
    v3s ((accBasicSplit (cD (fl g)) (cD 0.0) (Dual.sqrtLift sqrtF) (tp == "1") (ps.take na.toNat!) (ps.drop na.toNat!)).map
      (fun v => ⟨v.x.eps, v.y.eps, v.z.eps⟩))
  | "ad2S" :: na :: tp :: n :: g :: rest =>
    let n := n.toNat!
    let all := gps rest
    let ps := (zip4 (all.take n) ((all.drop n).take n) ((all.drop (2*n)).take n) (all.drop (3*n))).map
      (fun q => gpD2 q.p q.da q.db q.dd)
    v3s ((accBasicSplit (cD2 (fl g)) (cD2 0.0) (Dual2.sqrtLift2 sqrtF) (tp == "1") (ps.take na.toNat!) (ps.drop na.toNat!)).map
      (fun v => ⟨v.x.eps.eps, v.y.eps.eps, v.z.eps.eps⟩))
  | "var1tp" :: g :: x :: y :: z :: dx :: dy :: dz :: _m :: rest =>
    v3s [tpVar1 (fl g) sqrtF (fl x) (fl y) (fl z) (fl dx) (fl dy) (fl dz) (gps rest)]
  | "ad1tp" :: g :: x :: y :: z :: dx :: dy :: dz :: _m :: rest =>
    let v := tpForce (cD (fl g)) (cD 0.0) (Dual.sqrtLift sqrtF) ⟨fl x, fl dx⟩ ⟨fl y, fl dy⟩ ⟨fl z, fl dz⟩
      ((gps rest).map gpC)
    v3s [⟨v.x.eps, v.y.eps, v.z.eps⟩]
  | "var2" :: n :: g :: rest =>
    let n := n.toNat!
    let all := gps rest
    let ps := zip4 (all.take n) ((all.drop n).take n) ((all.drop (2*n)).take n) (all.drop (3*n))
    v3s (accVar2 (fl g) sqrtF ps)
  | "ad2" :: n :: g :: rest =>
    let n := n.toNat!
    let all := gps rest
    let ps := (zip4 (all.take n) ((all.drop n).take n) ((all.drop (2*n)).take n) (all.drop (3*n))).map
      (fun q => gpD2 q.p q.da q.db q.dd)
    v3s ((accBasicAll (cD2 (fl g)) (cD2 0.0) (Dual2.sqrtLift2 sqrtF) ps).map
      (fun v => ⟨v.x.eps.eps, v.y.eps.eps, v.z.eps.eps⟩))
  | "var2tp" :: g :: x :: y :: z :: cx :: cy :: cz :: ax :: ay :: az :: bx :: by' :: bz :: _m :: rest =>
    v3s [tpVar2 (fl g) sqrtF (fl x) (fl y) (fl z) ⟨fl cx, fl cy, fl cz⟩ ⟨fl ax, fl ay, fl az⟩
      ⟨fl bx, fl by', fl bz⟩ (gps rest)]
  | "ad2tp" :: g :: x :: y :: z :: cx :: cy :: cz :: ax :: ay :: az :: bx :: by' :: bz :: _m :: rest =>
    let d := fun (x a b c : String) => (⟨⟨fl x, fl a⟩, ⟨fl b, fl c⟩⟩ : Dual2 Float)
    let v := tpForce (cD2 (fl g)) (cD2 0.0) (Dual2.sqrtLift2 sqrtF) (d x ax bx cx) (d y ay by' cy) (d z az bz cz)
      ((gps rest).map gpC2)
    v3s [⟨v.x.eps.eps, v.y.eps.eps, v.z.eps.eps⟩]
  | "com1" :: m :: _n :: rest => hx (comShift1 (fl m) (c1s rest))
  | "adcom1" :: _n :: rest =>
    let l := (c1s rest).map (fun p => ((⟨p.m, p.dm⟩ : Dual Float), (⟨p.x, p.dx⟩ : Dual Float)))
    hx (comSimple l).eps
  | "com2" :: m :: _n :: rest => hx (comShift2 (fl m) (c2s rest))
  | "adcom2" :: _n :: rest =>
    let l := (c2s rest).map (fun p => ((⟨⟨p.m, p.ma⟩, ⟨p.mb, p.mm⟩⟩ : Dual2 Float),
                                        (⟨⟨p.x, p.xa⟩, ⟨p.xb, p.xx⟩⟩ : Dual2 Float)))
    hx (comSimple l).eps.eps
  | "rescale" :: thr :: nreal :: sync :: ncfg :: rest =>
    let (cfgs, r1) := vcs ncfg.toNat! rest
    match r1 with
    | nmem :: r2 =>
      let nmem := nmem.toNat!
      let arr := (p6s r2).toArray
      let mem := fun k => arr.getD k ⟨0, 0, 0, 0, 0, 0⟩
      let out := rescaleVar floatOps (fl thr) nreal.toNat! (sync == "1") mem cfgs
      let memOut := (List.range nmem).foldr (fun k acc =>
        let p := out.mem k
        p.x :: p.y :: p.z :: p.vx :: p.vy :: p.vz :: acc) []
      hxs (out.cfgs.map (·.lrescale)) ++ " " ++ (if out.warn1 then "1" else "0") ++ " " ++
        (if out.warn2 then "1" else "0") ++ " " ++ hxs memOut
    | _ => "bad-op"
  | _ => "bad-op"

def main : IO Unit := runLines step
