import RV.Model.Janus
import RV.Model.Reversal
import RV.Gen.C10Janus
import RV.Model.C10Saba
import RV.Gen.C01Saba
import RV.Driver.Util
/-
  drv_c10: runs the JANUS model (RV/Model/Janus.lean) on IEEE doubles / two's-complement
  int64, with the gamma tables and stage counts of RV/Gen/C10Janus.lean (bit patterns of the
  compiled constants), and its own direct-summation gravity replicated from
  gravity.c:139-179 (REB_GRAVITY_BASIC, no ghost boxes, all particles active) in the C
  operation order.  Also runs the LEAPFROG model of RV/Model/Reversal.lean.

  line protocol (doubles as 16 hex digits, ints as 16 hex digits two's complement):
    FORCE = <G> <softening> <N_active|-1> <testparticle_type> <k of the additional force a += -k x> <kv of the drag a += -kv v>
    janus <order> <scale_pos> <scale_vel> FORCE <every> <nseg> (<dt> <n>)*nseg <N> (m x y z vx vy vz)*N
    leapfrog FORCE <every> <nseg> (<dt> <n>)*nseg <N> (m x y z vx vy vz)*N
    sei <OMEGA> <OMEGAZ> FORCE <every> <nseg> (<dt> <n>)*nseg <N> (m x y z vx vy vz)*N
  answer: records separated by " | "; a JANUS record is 6N ints then 6N doubles
  (`p_int` and the particles after `to_double`), first record = state after `to_int`;
  then one record every <every> steps and at the end of each segment; "err" ends the
  answer when the model meets a conversion outside the int64 range.
-/
open RV RV.Driver RV.Janus RV.Reversal

/-- IEEE double / x86-64 instance.  `truncToInt` agrees with the C cast wherever the C
    cast is defined except at exactly -2^63 (also reported as out of range, to keep the
    range symmetric). -/
instance : JFloat Float where
  add := Float.add
  mul := Float.mul
  div := Float.div
  neg := Float.neg
  two := 2.0
  ofInt i := (Int64.ofBitVec i).toFloat
  truncToInt a := if a.abs < 9223372036854775808.0 then some a.toInt64.toBitVec else none

/-- the force configuration of a line: `<G> <softening> <N_active (-1 = all)> <testparticle_type> <k> <kv>`;
    `k ≠ 0` adds the velocity-independent additional force `a += (-k)*x` (installed on the real code
    as an `additional_forces` callback) -/
structure Force where
  G : Float
  soft2 : Float
  nActive : Option Nat
  tpType : Bool
  k : Float
  /-- velocity-dependent additional force `a += (-kv)*v` (drag): outside the reversal theorem -/
  kv : Float

def parseForce : List String → Option (Force × List String)
  | g :: soft :: na :: tp :: k :: kv :: r =>
    let soft := fl soft
    let na? : Option (Option Nat) := if na == "-1" then some none else na.toNat?.map some
    match na?, tp.toNat? with
    | some na, some tp => some (⟨fl g, soft*soft, na, tp != 0, fl k, fl kv⟩, r)
    | _, _ => none
  | _ => none

/-- gravity.c:139-222 REB_GRAVITY_BASIC (no OPENMP, `_gravity_ignore_terms==0`, no ghost boxes):
    active pairs `for i in 1..N_active-1, for j in 0..i-1`, then test particles
    `for i in max(N_active,1)..N-1, for j in 0..N_active-1` (back-reaction on the active particle only
    for `testparticle_type != 0`); accumulation order as in C.  Then the additional force. -/
def gravityBasic (f : Force) (ms : Array Float) (pos : List (V3 Float)) : List (V3 Float) := Id.run do
  let p := pos.toArray
  let n := p.size
  let na := match f.nActive with | some a => min a n | none => n
  let mut ax : Array Float := Array.replicate n 0.0
  let mut ay : Array Float := Array.replicate n 0.0
  let mut az : Array Float := Array.replicate n 0.0
  for i in [1:na] do
    for j in [0:i] do
      let pi := p[i]!
      let pj := p[j]!
      let dx := (0.0 + pi.x) - pj.x
      let dy := (0.0 + pi.y) - pj.y
      let dz := (0.0 + pi.z) - pj.z
      let r := Float.sqrt (dx*dx + dy*dy + dz*dz + f.soft2)
      let prefact := f.G / (r*r*r)
      let prefactj := (-prefact) * ms[j]!
      let prefacti := prefact * ms[i]!
      ax := ax.set! i (ax[i]! + prefactj*dx)
      ay := ay.set! i (ay[i]! + prefactj*dy)
      az := az.set! i (az[i]! + prefactj*dz)
      ax := ax.set! j (ax[j]! + prefacti*dx)
      ay := ay.set! j (ay[j]! + prefacti*dy)
      az := az.set! j (az[j]! + prefacti*dz)
  for i in [(max na 1):n] do
    for j in [0:na] do
      let pi := p[i]!
      let pj := p[j]!
      let dx := (0.0 + pi.x) - pj.x
      let dy := (0.0 + pi.y) - pj.y
      let dz := (0.0 + pi.z) - pj.z
      let r := Float.sqrt (dx*dx + dy*dy + dz*dz + f.soft2)
      let prefact := f.G / (r*r*r)
      let prefactj := (-prefact) * ms[j]!
      ax := ax.set! i (ax[i]! + prefactj*dx)
      ay := ay.set! i (ay[i]! + prefactj*dy)
      az := az.set! i (az[i]! + prefactj*dz)
      if f.tpType then
        let prefacti := prefact * ms[i]!
        ax := ax.set! j (ax[j]! + prefacti*dx)
        ay := ay.set! j (ay[j]! + prefacti*dy)
        az := az.set! j (az[j]! + prefacti*dz)
  if f.k != 0.0 then
    for i in [0:n] do
      let pi := p[i]!
      ax := ax.set! i (ax[i]! + (-f.k)*pi.x)
      ay := ay.set! i (ay[i]! + (-f.k)*pi.y)
      az := az.set! i (az[i]! + (-f.k)*pi.z)
  return (List.range n).map (fun i => ⟨ax[i]!, ay[i]!, az[i]!⟩)

/-- gravity + position-dependent additional force + drag, from the particle doubles `to_double` wrote -/
def accVOf (f : Force) (ms : Array Float) (d : List (PDbl Float)) : List (V3 Float) :=
  let a := gravityBasic f ms (d.map (fun q => ⟨q.x, q.y, q.z⟩))
  List.zipWith (fun (a : V3 Float) (q : PDbl Float) => ⟨a.x + (-f.kv)*q.vx, a.y + (-f.kv)*q.vy, a.z + (-f.kv)*q.vz⟩) a d

def hxI (i : I64) : String := toHex16 (UInt64.ofNat i.toNat)

def recJ (sp sv : Float) (s : List PInt) : String :=
  let ints := s.flatMap (fun p => [p.x, p.y, p.z, p.vx, p.vy, p.vz])
  let ds := (toDouble sp sv s).flatMap (fun (d : PDbl Float) => [d.x, d.y, d.z, d.vx, d.vy, d.vz])
  " ".intercalate (ints.map hxI ++ ds.map hx)

def schemeOfOrder (order : Nat) : Option (Scheme Float) :=
  match RV.Gen.C10.orderSwitch1.1.lookup order with
  | none => none
  | some name =>
    match RV.Gen.C10.tables.find? (fun t => t.name == name) with
    | none => none
    | some t => some ⟨t.order, t.stages, t.gammaBits.map Float.ofBits⟩

/-- parse `nseg (dt n)*nseg`, return the segments and the remaining tokens -/
def parseSegs : Nat → List String → Option (List (Float × Nat) × List String)
  | 0, r => some ([], r)
  | k+1, dt :: n :: r =>
    match n.toNat?, parseSegs k r with
    | some n, some (l, r') => some ((fl dt, n) :: l, r')
    | _, _ => none
  | _, _ => none

def parseParts : List String → List (Float × PDbl Float)
  | m :: x :: y :: z :: vx :: vy :: vz :: r => (fl m, ⟨fl x, fl y, fl z, fl vx, fl vy, fl vz⟩) :: parseParts r
  | _ => []

/-- run `n` steps, emitting a record every `every` steps (counted within the segment) and at the end -/
def runSeg (cfg : Cfg Float) (accV : Option (List (PDbl Float) → List (V3 Float))) (sch : Scheme Float) (dt : Float) (every : Nat) :
    Nat → Nat → List PInt → List String → (Option (List PInt)) × List String
  | 0, _, st, out => (some st, out)
  | n+1, k, st, out =>
    -- the full step as seen from outside: flag clear, N_allocated = N, particles = doubles of the grid
    let next : Option (List PInt) := match accV with
      | none => (stepFull cfg sch dt (toDouble cfg.scalePos cfg.scaleVel st) ⟨st, st.length, false⟩).map (·.1.pInt)
      | some av => stepV cfg av sch dt st
    match next with
    | none => (none, "err" :: out)
    | some st' =>
      let k' := k + 1
      let emit := n == 0 || (every != 0 && k' % every == 0)
      runSeg cfg accV sch dt every n k' st' (if emit then recJ cfg.scalePos cfg.scaleVel st' :: out else out)

def runSegs (cfg : Cfg Float) (accV : Option (List (PDbl Float) → List (V3 Float))) (sch : Scheme Float) (every : Nat) :
    List (Float × Nat) → List PInt → List String → List String
  | [], _, out => out
  | (dt, n) :: r, st, out =>
    match runSeg cfg accV sch dt every n 0 st out with
    | (some st', out') => runSegs cfg accV sch every r st' out'
    | (none, out') => out'

def janusLine (toks : List String) : String :=
  match toks with
  | order :: sp :: sv :: rest0 =>
    match parseForce rest0 with
    | some (force, every :: nseg :: rest) =>
      match order.toNat?, every.toNat?, nseg.toNat? with
      | some order, some every, some nseg =>
        match schemeOfOrder order, parseSegs nseg rest with
        | some sch, some (segs, _n :: ptoks) =>
          let parts := parseParts ptoks
          let ms := (parts.map Prod.fst).toArray
          let cfg : Cfg Float := ⟨fl sp, fl sv, gravityBasic force ms⟩
          -- the head of the first part1: N_allocated (0) != N, so the grid state is derived from the doubles
          match part1Sync cfg.scalePos cfg.scaleVel (parts.map Prod.snd) ⟨[], 0, false⟩ with
          | none => "err"
          | some js0 =>
            let accV := if force.kv == 0.0 then none else some (accVOf force ms)
            let out := runSegs cfg accV sch every segs js0.pInt [recJ cfg.scalePos cfg.scaleVel js0.pInt]
            " | ".intercalate out.reverse
        | none, _ => "bad-order"
        | _, _ => "bad-op"
      | _, _, _ => "bad-op"
    | _ => "bad-op"
  | _ => "bad-op"

/-- `janus1 <order> <scale_pos> <scale_vel> <G> <softening> <dt> <N> (m x y z vx vy vz as int64 hex)*N`:
    one step from a given grid state (used to compare single steps within a grid tolerance when a
    refactoring of the C code changed the rounding of an increment) -/
def parsePartsI : List String → List (Float × PInt)
  | m :: x :: y :: z :: vx :: vy :: vz :: r =>
    let i (t : String) : I64 := BitVec.ofNat 64 ((parseHex t).getD 0)
    (fl m, ⟨i x, i y, i z, i vx, i vy, i vz⟩) :: parsePartsI r
  | _ => []

def janus1Line (toks : List String) : String :=
  match toks with
  | order :: sp :: sv :: rest0 =>
    match parseForce rest0 with
    | some (force, dt :: _n :: ptoks) =>
      match order.toNat? with
      | some order =>
        match schemeOfOrder order with
        | some sch =>
          let parts := parsePartsI ptoks
          let ms := (parts.map Prod.fst).toArray
          let cfg : Cfg Float := ⟨fl sp, fl sv, gravityBasic force ms⟩
          match step cfg sch (fl dt) (parts.map Prod.snd) with
          | none => "err"
          | some st => " ".intercalate ((st.flatMap (fun p => [p.x, p.y, p.z, p.vx, p.vy, p.vz])).map hxI)
        | none => "bad-order"
      | none => "bad-op"
    | _ => "bad-op"
  | _ => "bad-op"

/-! ### leapfrog -/
def recL (s : List (LfP Float)) : String :=
  hxs (s.flatMap (fun p => [p.x.x, p.x.y, p.x.z, p.v.x, p.v.y, p.v.z]))

def lfSeg (stepf : List (LfP Float) → Option (List (LfP Float))) (every : Nat) :
    Nat → Nat → List (LfP Float) → List String → (Option (List (LfP Float))) × List String
  | 0, _, st, out => (some st, out)
  | n+1, k, st, out =>
    match stepf st with
    | none => (none, "err" :: out)
    | some st' =>
      let k' := k + 1
      let emit := n == 0 || (every != 0 && k' % every == 0)
      lfSeg stepf every n k' st' (if emit then recL st' :: out else out)

def lfSegs (stepOf : Float → List (LfP Float) → Option (List (LfP Float))) (every : Nat) :
    List (Float × Nat) → List (LfP Float) → List String → List String
  | [], _, out => out
  | (dt, n) :: r, st, out =>
    match lfSeg (stepOf dt) every n 0 st out with
    | (some st', out') => lfSegs stepOf every r st' out'
    | (none, out') => out'

def leapfrogLine (toks : List String) : String :=
  match parseForce toks with
  | some (force, every :: nseg :: rest) =>
    match every.toNat?, nseg.toNat? with
    | some every, some nseg =>
      match parseSegs nseg rest with
      | some (segs, _n :: ptoks) =>
        let parts := parseParts ptoks
        let ms := (parts.map Prod.fst).toArray
        let acc := gravityBasic force ms
        let st0 : List (LfP Float) := parts.map (fun (_, d) => ⟨⟨d.x, d.y, d.z⟩, ⟨d.vx, d.vy, d.vz⟩⟩)
        " | ".intercalate (lfSegs (lfStep acc) every segs st0 [recL st0]).reverse
      | _ => "bad-op"
    | _, _ => "bad-op"
  | _ => "bad-op"

/-- `sei <OMEGA> <OMEGAZ> <G> <softening> <every> <nseg> (<dt> <n>)*nseg <N> (m x y z vx vy vz)*N`:
    integrator_sei.c with `sin`, `tan` from libm; the constants are recomputed at the start of every
    segment (`lastdt != dt`) -/
def seiLine (toks : List String) : String :=
  match toks with
  | om :: omz :: rest0 =>
    match parseForce rest0 with
    | some (force, every :: nseg :: rest) =>
      match every.toNat?, nseg.toNat? with
      | some every, some nseg =>
        match parseSegs nseg rest with
        | some (segs, _n :: ptoks) =>
          let parts := parseParts ptoks
          let ms := (parts.map Prod.fst).toArray
          let acc := gravityBasic force ms
          let st0 : List (LfP Float) := parts.map (fun (_, d) => ⟨⟨d.x, d.y, d.z⟩, ⟨d.vx, d.vy, d.vz⟩⟩)
          let stepOf (dt : Float) := seiStep acc dt (seiInit Float.sin Float.tan (fl om) (fl omz) dt)
          " | ".intercalate (lfSegs stepOf every segs st0 [recL st0]).reverse
        | _ => "bad-op"
      | _, _ => "bad-op"
    | _ => "bad-op"
  | _ => "bad-op"

/-- `trunc <a>`: the cast alone (for the oddness / range exercise) -/
def truncLine (toks : List String) : String :=
  " ".intercalate (toks.map (fun t =>
    match (JFloat.truncToInt (fl t) : Option I64) with
    | some i => hxI i
    | none => "err"))

/-- `laws <a> <b>`: exercise the sign-symmetry hypotheses on `Float`:
    prints  (-a)*b, -(a*b), a*(-b), (-a)/b, -(a/b), a+b, b+a, trunc(-a), -trunc(a) -/
def lawsLine (toks : List String) : String :=
  match toks with
  | [a, b] =>
    let a := fl a; let b := fl b
    let t (x : Float) : String := match (JFloat.truncToInt x : Option I64) with | some i => hxI i | none => "err"
    let tn (x : Float) : String := match (JFloat.truncToInt x : Option I64) with | some i => hxI (-i) | none => "err"
    " ".intercalate [hx ((-a)*b), hx (-(a*b)), hx (a*(-b)), hx ((-a)/b), hx (-(a/b)), hx (a+b), hx (b+a), t (-a), tn a,
                     hx (JFloat.ofInt (match (JFloat.truncToInt a : Option I64) with | some i => i | none => 0#64) : Float)]
  | _ => "bad-op"

/-- `saba <type index>`: the operator list of one synchronized step of that SABA type according to the model
    RV/Model/C10Saba.lean run on the extracted tables: tokens `kind:num/den` (coefficient in units of dt) -/
def sabaLine (toks : List String) : String :=
  match toks with
  | [idx] =>
    match idx.toNat? with
    | some idx =>
      match RV.C01.Gen.sabaTypes.find? (fun t => t.2.1 == idx), RV.C01.Gen.sabaC[idx]?, RV.C01.Gen.sabaD[idx]? with
      | some t, some c, some d =>
        match RV.C10Saba.step t.2.2 c d with
        | some l => " ".intercalate (l.map (fun o => s!"{o.kind}:{o.a.num}/{o.a.den}"))
        | none => "err"
      | _, _, _ => "bad-type"
    | none => "bad-op"
  | _ => "bad-op"

def dispatch (toks : List String) : String :=
  match toks with
  | "janus" :: r => janusLine r
  | "janus1" :: r => janus1Line r
  | "leapfrog" :: r => leapfrogLine r
  | "sei" :: r => seiLine r
  | "trunc" :: r => truncLine r
  | "laws" :: r => lawsLine r
  | "saba" :: r => sabaLine r
  | _ => "bad-op"

def main : IO Unit := runLines dispatch
