import RV.Scalar
namespace RV.Driver
open RV

partial def loop (h : IO.FS.Stream) (out : IO.FS.Stream) (f : List String → String) : IO Unit := do
  let line ← h.getLine
  if line.isEmpty then return ()
  let toks := (line.trimAscii.toString.splitOn " ").filter (· ≠ "")
  out.putStrLn (f toks)
  loop h out f

def runLines (f : List String → String) : IO Unit := do
  let i ← IO.getStdin
  let o ← IO.getStdout
  loop i o f
  o.flush

def fl (s : String) : Float := floatOfHex s
def hx (f : Float) : String := floatToHex f
def hxs (l : List Float) : String := " ".intercalate (l.map hx)

/-- split a token list into (m,x) pairs -/
def pairs : List String → List (Float × Float)
  | a :: b :: r => (fl a, fl b) :: pairs r
  | _ => []

end RV.Driver
