import RV.Model.Conc
import RV.Driver.Util
open RV RV.Driver RV.Conc

/-- token → observed event; `name` or `name:0` / `name:1` (need_copy sampled by the shim) -/
def parseObs (t : String) : Option Obs :=
  let parts := t.splitOn ":"
  let nc : Option Bool := match parts with
    | [_, "1"] => some true
    | [_, "0"] => some false
    | _ => none
  let ev : Option Ev := match parts.head! with
    | "iEnter" => some .iEnter
    | "iChkBegin" => some .iChkBegin
    | "iChkSync" => some .iChkSync
    | "iChkEnd1" => some (.iChkEnd true)
    | "iChkEnd0" => some (.iChkEnd false)
    | "iSpin" => some .iSpin
    | "iLock" => some .iLock
    | "iStepBegin" => some .iStepBegin
    | "iStepEnd" => some .iStepEnd
    | "iUnlock" => some .iUnlock
    | "iEpiSync" => some .iEpiSync
    | "iLeave" => some .iLeave
    | "sLock" => some .sLock
    | "sSerBegin" => some .sSerBegin
    | "sSerEnd" => some .sSerEnd
    | "sUnlock" => some .sUnlock
    | "xStart" => some .xStart
    | "xStop" => some .xStop
    | "sStatic" => some .sStatic
    | "sDrop" => some .sDrop
    | "iHbBegin" => some .iHbBegin
    | "iHbEnd" => some .iHbEnd
    | "iShotUnlock" => some .iShotUnlock
    | "iShotLock" => some .iShotLock
    | "iSetFlag" => some .iSetFlag
    | "iClrFlag" => some .iClrFlag
    | "iSeeSrv1" => some (.iSeeSrv true)
    | "iSeeSrv0" => some (.iSeeSrv false)
    | "iSkipUnlock" => some .iSkipUnlock
    -- silent events may be given explicitly in `X` (exact run) lines only
    | "iSeeNC0" => some .iSeeNC0
    | "sReq" => some .sReq
    | "sSetNC" => some .sSetNC
    | "sClrNC" => some .sClrNC
    | "sSent" => some .sSent
    | _ => none
  ev.map (fun e => ⟨e, nc⟩)

def parseAll (ts : List String) : Except String (List Obs) :=
  ts.foldr (fun t acc => match acc, parseObs t with
    | .error e, _ => .error e
    | .ok _, none => .error t
    | .ok l, some o => .ok (o :: l)) (.ok [])

def phaseStr : Phase → String
  | .atBoundary => "B" | .inStep => "M" | .inAdjust => "A"

/-- `A id ev…`  observed trace through the acceptor →
      `id ACCEPT steps adj served phase ncands det|nondet clean|maybe-racy|racy noub|ub` | `id REJECT index token`
    `X id ev…`  exact run (all events given) → `id OK steps adj served phase` | `id STUCK index`
    `P id ev…`  exact run, then the integrator projection through the server-less machine →
      `id SAME` | `id DIFF` -/
def handle (toks : List String) : String :=
  match toks with
  | mode :: id :: evs =>
    match parseAll evs with
    | .error t => s!"{id} BAD {t}"
    | .ok obs =>
      match mode with
      | "A" =>
        match accept obs with
        | .error i => s!"{id} REJECT {i} {evs.getD i "?"}"
        | .ok cands =>
          match cands with
          | [] => s!"{id} REJECT {obs.length} end"
          | s :: _ =>
            -- all candidates differ only by silent server moves
            let same := cands.all (fun c => c.sim == s.sim && c.served == s.served && c.ipc == s.ipc)
            -- racy / ub: in SOME candidate explanation the server was started inside an unlocked iteration /
            -- the integrator unlocked a mutex it did not own (must-be: in ALL of them)
            let anyR := cands.any (·.racy); let allR := cands.all (·.racy)
            let anyU := cands.any (fun c => c.ub || c.memerr)
            let rs := if allR then "racy" else if anyR then "maybe-racy" else "clean"
            s!"{id} ACCEPT {s.sim.steps} {s.sim.adj} {s.served} {phaseStr s.sim.phase} {cands.length} {if same then "det" else "nondet"} {rs} {if anyU then "ub" else "noub"}"
      | "X" =>
        let rec go (s : State) (i : Nat) : List Obs → String
          | [] => s!"{id} OK {s.sim.steps} {s.sim.adj} {s.served} {phaseStr s.sim.phase}"
          | o :: os => match step s o.ev with
            | none => s!"{id} STUCK {i}"
            | some s' => go s' (i + 1) os
        go init 0 obs
      | "P" =>
        let tr := obs.map (·.ev)
        match run init tr with
        | none => s!"{id} STUCK"
        | some s =>
          if soloRun soloInit (projI tr) == some ⟨s.ipc, s.sim⟩ then s!"{id} SAME" else s!"{id} DIFF"
      | _ => s!"{id} BAD mode"
  | _ => "? BAD line"

def main : IO Unit := runLines handle
