import RV.Model.Rotation
import RV.Model.Frame
import RV.Model.Units
import RV.Model.UnitsState
import RV.Driver.Util
open RV RV.Driver RV.Rot RV.Frame RV.Units RV.UnitsState

/-! line protocol of `drv_c20`: `op hex*` → `hex*`; quaternions travel as `ix iy iz r` -/

def v3s (v : V3 Float) : String := hxs [v.x, v.y, v.z]
def qs (q : Quat Float) : String := hxs [q.ix, q.iy, q.iz, q.r]

def mkV : List Float → Option (V3 Float × List Float)
  | x :: y :: z :: r => some (⟨x, y, z⟩, r)
  | _ => none

def mkQ : List Float → Option (Quat Float × List Float)
  | ix :: iy :: iz :: r :: rest => some (⟨ix, iy, iz, r⟩, rest)
  | _ => none

def rows1 : List Float → List (Row1 Float)
  | m :: x :: dm :: dx :: r => ⟨m, x, dm, dx⟩ :: rows1 r
  | _ => []

def rows2 : List Float → List (Row2 Float)
  | m :: x :: ma :: xa :: mb :: xb :: ddm :: ddx :: r => ⟨m, x, ma, xa, mb, xb, ddm, ddx⟩ :: rows2 r
  | _ => []

def mxPairs : List Float → List (Float × Float)
  | m :: x :: r => (m, x) :: mxPairs r
  | _ => []

def exceptStr : Except Err (List Float) → String
  | .ok l => "ok " ++ hxs l
  | .error _ => "err -1"

/-! unit state machine: `useq gSI G0 op*` with ops
    `S idL idT idM L T M` | `S!` | `C idL idT idM L T M` | `C!` | `G g` | `A m x y z r vx vy vz ax ay az` -/
def parseUnitSys : List String → Option (UnitSys Float × List String)
  | a :: b :: c :: l :: t :: m :: r =>
    match a.toNat?, b.toNat?, c.toNat? with
    | some a, some b, some c => some (⟨a, b, c, fl l, fl t, fl m⟩, r)
    | _, _, _ => none
  | _ => none

partial def parseOps : List String → Option (List (UOp Float))
  | [] => some []
  | "S!" :: r => (parseOps r).map (fun l => UOp.setUnits none :: l)
  | "C!" :: r => (parseOps r).map (fun l => UOp.convert none :: l)
  | "S" :: r => match parseUnitSys r with
    | some (u, r') => (parseOps r').map (fun l => UOp.setUnits (some u) :: l)
    | none => none
  | "C" :: r => match parseUnitSys r with
    | some (u, r') => (parseOps r').map (fun l => UOp.convert (some u) :: l)
    | none => none
  | "G" :: g :: r => (parseOps r).map (fun l => UOp.setG (fl g) :: l)
  | "A" :: m :: x :: y :: z :: rr :: vx :: vy :: vz :: ax :: ay :: az :: r =>
    (parseOps r).map (fun l => UOp.add ⟨fl m, fl x, fl y, fl z, fl rr, fl vx, fl vy, fl vz, fl ax, fl ay, fl az⟩ :: l)
  | _ => none

def errCode : Option UErr → String
  | none => "ok"
  | some .badUnits => "bad"
  | some .populated => "populated"
  | some .unitsNotSet => "notset"

def pdataStr (p : PData Float) : String :=
  hxs [p.m, p.x, p.y, p.z, p.r, p.vx, p.vy, p.vz, p.ax, p.ay, p.az]

def useq (args : List String) : String :=
  match args with
  | g :: g0 :: ops =>
    match parseOps ops with
    | none => "bad-op"
    | some l =>
      let (s, st) := run (fl g) ⟨none, fl g0, []⟩ l
      let us := match s.units with
        | none => "none"
        | some u => s!"{u.idL},{u.idT},{u.idM}"
      " ".intercalate (st.map errCode) ++ " | " ++ us ++ " " ++ hx s.G ++ " " ++ toString s.parts.length ++
        " " ++ " ".intercalate (s.parts.map pdataStr)
  | _ => "bad-op"

def step (toks : List String) : String :=
  match toks with
  | [] => "bad-op"
  | op :: args =>
    let a := args.map fl
    let bad := "bad-op"
    match op with
    | "vmul" => match mkV a with
      | some (v, [s]) => v3s (vmul v s) | _ => bad
    | "vadd" => match mkV a with
      | some (v, r) => match mkV r with
        | some (w, []) => v3s (vadd v w) | _ => bad
      | _ => bad
    | "cross" => match mkV a with
      | some (v, r) => match mkV r with
        | some (w, []) => v3s (cross v w) | _ => bad
      | _ => bad
    | "dot" => match mkV a with
      | some (v, r) => match mkV r with
        | some (w, []) => hx (dot v w) | _ => bad
      | _ => bad
    | "len2" => match mkV a with
      | some (v, []) => hx (len2 v) | _ => bad
    | "normalize" => match mkV a with
      | some (v, []) => v3s (normalize v) | _ => bad
    | "qmul" => match mkQ a with
      | some (p, r) => match mkQ r with
        | some (q, []) => qs (qmul p q) | _ => bad
      | _ => bad
    | "qlen2" => match mkQ a with
      | some (q, []) => hx (qlen2 q) | _ => bad
    | "conj" => match mkQ a with
      | some (q, []) => qs (conj q) | _ => bad
    | "qnormalize" => match mkQ a with
      | some (q, []) => qs (qnormalize q) | _ => bad
    | "inverse" => match mkQ a with
      | some (q, []) => qs (inverse q) | _ => bad
    | "identity" => qs (qid : Quat Float)
    | "rotate" => match mkV a with
      | some (v, r) => match mkQ r with
        | some (q, []) => v3s (rotate v q) | _ => bad
      | _ => bad
    | "fromto" => match mkV a with
      | some (v, r) => match mkV r with
        | some (w, []) => qs (fromTo v w) | _ => bad
      | _ => bad
    | "fromtofixed" => match mkV a with
      | some (v, r) => match mkV r with
        | some (w, []) => qs (fromToFixed v w) | _ => bad
      | _ => bad
    | "fromtotau" => match a with
      | tau :: r => match mkV r with
        | some (v, r') => match mkV r' with
          | some (w, []) => qs (fromToFixedTau tau v w) | _ => bad
        | _ => bad
      | _ => bad
    | "newaxestau" => match a with
      | tau :: r => match mkV r with
        | some (v, r') => match mkV r' with
          | some (w, []) => qs (toNewAxesWith (fromToFixedTau tau) true v w) | _ => bad
        | _ => bad
      | _ => bad
    | "angleaxis" => match a with
      | ang :: r => match mkV r with
        | some (ax, []) => qs (angleAxis ang ax) | _ => bad
      | _ => bad
    | "newaxes00" => match mkV a with
      | some (v, r) => match mkV r with
        | some (w, []) => qs (toNewAxesWith fromTo false v w) | _ => bad
      | _ => bad
    | "newaxes10" => match mkV a with
      | some (v, r) => match mkV r with
        | some (w, []) => qs (toNewAxesWith fromToFixed false v w) | _ => bad
      | _ => bad
    | "newaxes01" => match mkV a with
      | some (v, r) => match mkV r with
        | some (w, []) => qs (toNewAxesWith fromTo true v w) | _ => bad
      | _ => bad
    | "newaxes11" => match mkV a with
      | some (v, r) => match mkV r with
        | some (w, []) => qs (toNewAxesWith fromToFixed true v w) | _ => bad
      | _ => bad
    | "orbit" => match a with
      | [o, i, w] => qs (orbit o i w) | _ => bad
    | "slerp" => match a with
      | eps :: h :: r => match mkQ r with
        | some (q1, r) => match mkQ r with
          | some (q2, [t]) => qs (slerp eps h q1 q2 t) | _ => bad
        | _ => bad
      | _ => bad
    | "useq" => useq args
    | "com" => let c := com (mxPairs a); hxs [c.1, c.2]
    | "tocom" => hxs ((moveToCom (mxPairs a)).map (·.2))
    | "tohel" => hxs ((moveToHel (mxPairs a)).map (·.2))
    | "tohelvar0" => hxs (moveToHelVar false a)
    | "tohelvar1" => hxs (moveToHelVar true a)
    | "var1" => match a with
      | M :: r => hxs (moveToComVar1 M (rows1 r)) | _ => bad
    | "var2" => match a with
      | M :: r => hxs (moveToComVar2 M (rows2 r)) | _ => bad
    | "imul" => match a with
      | s :: r => hxs (imul r s) | _ => bad
    | "iadd" => match args with
      | n :: _ => match n.toNat? with
        | some n => let r := a.drop 1; exceptStr (iadd (r.take n) (r.drop n))
        | none => bad
      | _ => bad
    | "isub" => match args with
      | n :: _ => match n.toNat? with
        | some n => let r := a.drop 1; exceptStr (isub (r.take n) (r.drop n))
        | none => bad
      | _ => bad
    | "cmass" => match a with
      | [m, o, n] => hx (convertMass m o n) | _ => bad
    | "clen" => match a with
      | [m, o, n] => hx (convertLength m o n) | _ => bad
    | "cvel" => match a with
      | [v, oL, oT, nL, nT] => hx (convertVel v oL oT nL nT) | _ => bad
    | "cacc" => match a with
      | [v, oL, oT, nL, nT] => hx (convertAcc v oL oT nL nT) | _ => bad
    | "cg" => match a with
      | [g, l, t, m] => hx (convertG g l t m) | _ => bad
    | _ => bad

def main : IO Unit := runLines step
