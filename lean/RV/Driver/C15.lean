import RV.Model.Boundary
import RV.Model.Tree
import RV.Model.TreeArr
import RV.Driver.Util
open RV RV.Driver

namespace C15
open RV.Tree RV.Boundary RV.TreeArr

/-- root-box layout (`reb_simulation_configure_box`) -/
structure Box where
  rs : Float
  nx : Nat
  ny : Nat
  nz : Nat
  /-- how an out-of-range root-box index is brought into range: `false` = `(i+N)%N` / `i%N` (particle.c:191-198,
      tree.c:86-92 as pinned), `true` = clamp to `[0,N-1]` (fixes/C15-N1-rootbox-face-reinsert.diff); rv/c15.py reads the rule off the source -/
  clamp : Bool := false

def Box.bx (b : Box) : Float := b.rs * Float.ofNat b.nx
def Box.bY (b : Box) : Float := b.rs * Float.ofNat b.ny
def Box.bz (b : Box) : Float := b.rs * Float.ofNat b.nz

/-- `(int)floor((x + boxsize/2.)/root_size)` -/
def cellIdx (x bs rs : Float) : Int := (Float.floor ((x + bs / 2.0) / rs)).toInt64.toInt

/-- `reb_get_rootbox_for_particle` -/
def clampIdx (i : Int) (n : Nat) : Int := if i < 0 then 0 else if i ≥ n then (n : Int) - 1 else i

/-- `(int)floor(x)` on doubles -/
def floorF (x : Float) : Int := (Float.floor x).toInt64.toInt

def rootIndex (b : Box) (p : Pt Float) : Int :=
  if b.clamp then (TreeArr.rootIdx floorF b.rs b.nx b.ny b.nz p : Nat) else
  let i := if b.clamp then clampIdx (cellIdx p.x b.bx b.rs) b.nx else (cellIdx p.x b.bx b.rs + b.nx).tmod b.nx
  let j := if b.clamp then clampIdx (cellIdx p.y b.bY b.rs) b.ny else (cellIdx p.y b.bY b.rs + b.ny).tmod b.ny
  let k := if b.clamp then clampIdx (cellIdx p.z b.bz b.rs) b.nz else (cellIdx p.z b.bz b.rs + b.nz).tmod b.nz
  (k * b.ny + j) * b.nx + i

/-- geometry of a new root node (tree.c:86-92) -/
def rootCell (b : Box) (p : Pt Float) : Cell Float :=
  if b.clamp then TreeArr.rootCellOf b.rs b.nx b.ny b.nz (TreeArr.rootIdx floorF b.rs b.nx b.ny b.nz p) else
  let i := if b.clamp then clampIdx (cellIdx p.x b.bx b.rs) b.nx else (cellIdx p.x b.bx b.rs).tmod b.nx
  let j := if b.clamp then clampIdx (cellIdx p.y b.bY b.rs) b.ny else (cellIdx p.y b.bY b.rs).tmod b.ny
  let k := if b.clamp then clampIdx (cellIdx p.z b.bz b.rs) b.nz else (cellIdx p.z b.bz b.rs).tmod b.nz
  { w := b.rs
    x := (-b.bx) / 2.0 + b.rs * (0.5 + Float.ofInt i)
    y := (-b.bY) / 2.0 + b.rs * (0.5 + Float.ofInt j)
    z := (-b.bz) / 2.0 + b.rs * (0.5 + Float.ofInt k) }

/-- `reb_tree_add_particle_to_tree` for particles 0..N-1 in index order -/
def buildForest (b : Box) (ps : Array (Pt Float)) (fuel : Nat) : Except String (Array (T Float)) := do
  let nroot := b.nx * b.ny * b.nz
  let psf : Nat → Pt Float := fun i => ps.getD i default
  let mut roots : Array (T Float) := Array.replicate nroot T.nil
  for pt in [0:ps.size] do
    let p := psf pt
    let ri := rootIndex b p
    if ri < 0 ∨ ri ≥ nroot then throw s!"err rootbox {pt}"
    let r := ri.toNat
    match add psf fuel (roots.getD r T.nil) (rootCell b p) pt with
    | .ok t => roots := roots.set! r t
    | .error .coincident => throw s!"err coincident {pt}"
    | .error .fuel => throw s!"err fuel {pt}"
  return roots

def mask (ch : Fin 8 → T Float) : Nat :=
  (List.finRange 8).foldl (fun a o => if isNil (ch o) then a else a + 2 ^ o.val) 0

def gravStr (g : Grav Float) : String := hxs [g.m, g.mx, g.my, g.mz]
def cellStr (c : Cell Float) : String := hxs [c.x, c.y, c.z, c.w]

/-- canonical pre-order dump: `ri depth oct x y z w pt mask m mx my mz` per cell -/
partial def dump (ri depth oct : Nat) (t : T Float) (acc : Array String) : Array String :=
  match t with
  | .nil => acc
  | .leaf c g q => acc.push s!"{ri} {depth} {oct} {cellStr c} {q} 0 {gravStr g}"
  | .node c g n ch =>
      let acc := acc.push s!"{ri} {depth} {oct} {cellStr c} {n} {mask ch} {gravStr g}"
      (List.finRange 8).foldl (fun a o => dump ri (depth+1) o.val (ch o) a) acc

def dumpForest (roots : Array (T Float)) : String := Id.run do
  let mut acc : Array String := #[]
  for h : i in [0:roots.size] do
    acc := dump i 0 0 roots[i] acc
  return s!"ok {acc.size} " ++ " ".intercalate acc.toList

/-- root cell from the root-box index (same float expression as `rootCell`) -/
def rootCellOfIndex (b : Box) (r : Nat) : Cell Float :=
  if b.clamp then TreeArr.rootCellOf b.rs b.nx b.ny b.nz r else
  let i := r % b.nx
  let j := (r / b.nx) % b.ny
  let k := r / (b.nx * b.ny)
  { w := b.rs
    x := (-b.bx) / 2.0 + b.rs * (0.5 + Float.ofNat i)
    y := (-b.bY) / 2.0 + b.rs * (0.5 + Float.ofNat j)
    z := (-b.bz) / 2.0 + b.rs * (0.5 + Float.ofNat k) }

/-- `x1 y1 z1 x2 y2 z2 m` per particle: where the tree was built, where the particle is now -/
def pts7 : List String → List (Pt Float × Pt Float)
  | a :: b :: c :: d :: e :: f :: g :: r => (⟨fl a, fl b, fl c, fl g⟩, ⟨fl d, fl e, fl f, fl g⟩) :: pts7 r
  | _ => []

/-- build the forest at the old positions, then `reb_simulation_update_tree` with the new ones;
    prints the new order of the particle array (original indices) and the dump -/
def runUpdate (b : Box) (fuel : Nat) (pp : Array (Pt Float × Pt Float)) : String :=
  match buildForest b (pp.map (·.1)) fuel with
  | .error e => e
  | .ok roots =>
    let arr : List (Nat × Pt Float) := (List.range pp.size).zip (pp.toList.map (·.2))
    let pos := fun (q : Nat × Pt Float) => q.2
    let flagged := fun (q : Nat × Pt Float) => q.2.y.isNaN
    let inBox := fun (q : Nat × Pt Float) => !(outside b.bx b.bY b.bz ⟨q.2.x, q.2.y, q.2.z, 0.0⟩)
    let ri := fun (p : Pt Float) => (rootIndex b p).toNat
    match updateA pos flagged inBox ri (rootCellOfIndex b) fuel roots.toList arr with
    | none => "err corrupt-index"
    | some (.error .coincident) => "err coincident"
    | some (.error .fuel) => "err fuel"
    | some (.ok (forest, arr')) =>
      let psf := psOf pos arr'
      let forest := forest.map (updGrav psf)
      "ord " ++ " ".intercalate (arr'.map fun q => toString q.1) ++ " " ++ dumpForest forest.toArray

def pts4 : List String → List (Pt Float)
  | a :: b :: c :: d :: r => ⟨fl a, fl b, fl c, fl d⟩ :: pts4 r
  | _ => []

def bp3 : List String → List (Boundary.P Float)
  | a :: b :: c :: r => ⟨fl a, fl b, fl c, 0.0⟩ :: bp3 r
  | _ => []

def bp4 : List String → List (Boundary.P Float)
  | a :: b :: c :: d :: r => ⟨fl a, fl b, fl c, fl d⟩ :: bp4 r
  | _ => []

def visitStr : Visit Float → String
  | .leaf q _ => s!"L{q}"
  | .cell g => s!"C{hx g.m}"

def step (toks : List String) : String :=
  match toks with
  | "tree" :: mode :: rs :: nx :: ny :: nz :: g :: fuel :: n :: rest =>
    match nx.toNat?, ny.toNat?, nz.toNat?, g.toNat?, fuel.toNat?, n.toNat? with
    | some nx, some ny, some nz, some g, some fuel, some n =>
      let b : Box := ⟨fl rs, nx, ny, nz, mode == "clamp"⟩
      let ps := (pts4 rest).toArray
      if ps.size ≠ n then "bad-count" else
      match buildForest b ps fuel with
      | .error e => e
      | .ok roots =>
        let psf : Nat → Pt Float := fun i => ps.getD i default
        let roots := if g = 1 then roots.map (updGrav psf) else roots
        dumpForest roots
    | _, _, _, _, _, _ => "bad-op"
  | "update" :: mode :: rs :: nx :: ny :: nz :: fuel :: n :: rest =>
    match nx.toNat?, ny.toNat?, nz.toNat?, fuel.toNat?, n.toNat? with
    | some nx, some ny, some nz, some fuel, some n =>
      let b : Box := ⟨fl rs, nx, ny, nz, mode == "clamp"⟩
      let pp := (pts7 rest).toArray
      if pp.size ≠ n then "bad-count" else runUpdate b fuel pp
    | _, _, _, _, _ => "bad-op"
  | "acc" :: mode :: rs :: nx :: ny :: nz :: fuel :: gG :: soft :: th :: n :: rest =>
    match nx.toNat?, ny.toNat?, nz.toNat?, fuel.toNat?, n.toNat? with
    | some nx, some ny, some nz, some fuel, some n =>
      let b : Box := ⟨fl rs, nx, ny, nz, mode == "clamp"⟩
      let ps := (pts4 rest).toArray
      if ps.size ≠ n then "bad-count" else
      match buildForest b ps fuel with
      | .error e => e
      | .ok roots =>
        let psf : Nat → Pt Float := fun i => ps.getD i default
        let forest := (roots.map (updGrav psf)).toList
        let s := fl soft
        let accs := (List.range n).map fun i => accForest Float.sqrt (fl gG) (s * s) (fl th) (psf i) i forest
        "ok " ++ hxs (accs.flatMap fun a => [a.ax, a.ay, a.az])
    | _, _, _, _, _ => "bad-op"
  | "walk" :: th :: gx :: gy :: gz :: pt :: rs :: nx :: ny :: nz :: fuel :: n :: rest =>
    match pt.toNat?, nx.toNat?, ny.toNat?, nz.toNat?, fuel.toNat?, n.toNat? with
    | some pt, some nx, some ny, some nz, some fuel, some n =>
      let b : Box := ⟨fl rs, nx, ny, nz, false⟩
      let ps := (pts4 rest).toArray
      if ps.size ≠ n then "bad-count" else
      match buildForest b ps fuel with
      | .error e => e
      | .ok roots =>
        let psf : Nat → Pt Float := fun i => ps.getD i default
        let roots := roots.map (updGrav psf)
        let vs := roots.toList.flatMap (walk (fl th) (fl gx) (fl gy) (fl gz) pt)
        "ok " ++ " ".intercalate (vs.map visitStr)
    | _, _, _, _, _, _ => "bad-op"
  | ["wrap", l, fuel, x] =>
    match fuel.toNat? with
    | some fuel => match wrap1 (fl l) fuel (fl x) with
      | some y => "ok " ++ hx y
      | none => "fuel"
    | none => "bad-op"
  | "periodic" :: bx :: bY :: bz :: fuel :: rest =>
    match fuel.toNat? with
    | some fuel => match periodic (fl bx) (fl bY) (fl bz) fuel (bp3 rest) with
      | some ps => "ok " ++ hxs (ps.flatMap fun p => [p.x, p.y, p.z])
      | none => "fuel"
    | none => "bad-op"
  | "shear" :: om :: t :: bx :: bY :: bz :: fuel :: rest =>
    match fuel.toNat? with
    | some fuel => match shear fmodFloat (fl om) (fl t) (fl bx) (fl bY) (fl bz) fuel (bp4 rest) with
      | some ps => "ok " ++ hxs (ps.flatMap fun p => [p.x, p.y, p.z, p.vy])
      | none => "fuel"
    | none => "bad-op"
  | "open" :: bx :: bY :: bz :: rest =>
    let ps := bp3 rest
    let tagged := (List.range ps.length).zip ps
    let out := fun (q : Nat × Boundary.P Float) => outside (fl bx) (fl bY) (fl bz) q.2
    let r := openLoop out 0 tagged
    "ok " ++ " ".intercalate (r.map fun q => toString q.1)
  | "opensorted" :: bx :: bY :: bz :: rest =>
    let ps := bp3 rest
    let tagged := (List.range ps.length).zip ps
    let out := fun (q : Nat × Boundary.P Float) => outside (fl bx) (fl bY) (fl bz) q.2
    let r := openLoopSorted out 0 tagged
    "ok " ++ " ".intercalate (r.map fun q => toString q.1)
  | "openmark" :: bx :: bY :: bz :: rest =>
    let ps := bp3 rest
    let out := outside (fl bx) (fl bY) (fl bz)
    let r := openMark out (fun p => { p with y := 0.0/0.0 }) ps
    "ok " ++ hxs (r.flatMap fun p => [p.x, p.y, p.z])
  | ["fmod", a, b] => "ok " ++ hx (fmodFloat (fl a) (fl b))
  | _ => "bad-op"

end C15

def main : IO Unit := runLines C15.step
