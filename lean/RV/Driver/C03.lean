import RV.Model.Kepler
import RV.Model.Kepler512
import RV.Driver.Util
open RV RV.Driver RV.Kepler

def b2s (b : Bool) (t f : String) : String := if b then t else f

def trStr (t : Trace) : String :=
  " ".intercalate [b2s t.elliptic "E" "H", b2s t.warn "W" "-", b2s t.quartic "Q" "N",
    b2s t.converged "C" "-", toString t.iters, b2s t.bisect "B" "-", toString t.bisectIters,
    b2s t.nanGuard "G" "-", toString t.maxHalvings]

def hangStr : Hang → String
  | .stumpff => "hang stumpff"
  | .bisect => "hang bisect"

def p6Str (p : P6 Float) : String := hxs [p.x, p.y, p.z, p.vx, p.vy, p.vz]

def mkP : List Float → Option (P6 Float)
  | [x, y, z, vx, vy, vz] => some ⟨x, y, z, vx, vy, vz⟩
  | _ => none

def coordOf : String → Option Coord
  | "jacobi" => some .jacobi
  | "dh" => some .dh
  | "whds" => some .whds
  | "bary" => some .bary
  | _ => none

/-- chunks of 7: m x y z vx vy vz -/
def parts7 : List Float → List (Float × P6 Float)
  | m :: x :: y :: z :: vx :: vy :: vz :: r => (m, ⟨x, y, z, vx, vy, vz⟩) :: parts7 r
  | _ => []

def step (toks : List String) : String :=
  match toks with
  | ["table"] => hxs ((List.finRange 35).map (fun i => (invfact i : Float)))
  | ["cs3", z] =>
    match stumpffCs3 (fl z) with
    | .error h => hangStr h
    | .ok (c, n) => hxs [c.c0, c.c1, c.c2, c.c3] ++ " " ++ toString n
  | ["cs6", z] =>
    match stumpffCs6 (fl z) with
    | .error h => hangStr h
    | .ok c => hxs [c.c0, c.c1, c.c2, c.c3, c.c4, c.c5]
  | "solve" :: M :: rest =>
    match rest.map fl with
    | [x, y, z, vx, vy, vz, dt] =>
      match solve (fl M) dt ⟨x, y, z, vx, vy, vz⟩ with
      | .error h => hangStr h
      | .ok s => p6Str s.p ++ " " ++ hx s.X ++ " " ++ trStr s.tr
    | _ => "bad-op"
  | "solve512" :: M :: rest =>
    match rest.map fl with
    | [x, y, z, vx, vy, vz, dt] => p6Str (solve512 (fl M) dt ⟨x, y, z, vx, vy, vz⟩)
    | _ => "bad-op"
  | "var" :: M :: rest =>
    match rest.map fl with
    | [x, y, z, vx, vy, vz, dt, dx, dy, dz, dvx, dvy, dvz] =>
      match solveVar (fl M) dt ⟨x, y, z, vx, vy, vz⟩ ⟨dx, dy, dz, dvx, dvy, dvz⟩ with
      | .error h => hangStr h
      | .ok (s, dp) => p6Str s.p ++ " " ++ p6Str dp ++ " " ++ trStr s.tr
    | _ => "bad-op"
  | "kstep" :: co :: G :: m0 :: pj0m :: nact :: dt :: rest =>
    match coordOf co, nact.toNat? with
    | some co, some nact =>
      let ps := parts7 (rest.map fl)
      let Ms := massParams co (fl G) (fl m0) (fl pj0m) nact (ps.map (·.1))
      let outs := (Ms.zip ps).map (fun (M, (_, p)) =>
        match solve M (fl dt) p with
        | .error h => hangStr h
        | .ok s => p6Str s.p)
      hxs Ms ++ " | " ++ " | ".intercalate outs
    | _, _ => "bad-op"
  | "hstep" :: G :: m0 :: dt :: rest =>
    let ps := parts7 (rest.map fl)
    let Ms := hybridMassParams (fl G) (fl m0) (ps.map (·.1))
    let outs := (Ms.zip ps).map (fun (M, (_, p)) =>
      match solve M (fl dt) p with
      | .error h => hangStr h
      | .ok s => p6Str s.p)
    hxs Ms ++ " | " ++ " | ".intercalate outs
  | "jump" :: which :: tpt :: nact :: dt :: m0 :: rest =>
    -- rest: (m v x)* for particles 1 … N-1, one component
    match nact.toNat? with
    | none => "bad-op"
    | some nact =>
      let rec trip : List Float → List (Float × Float × Float)
        | m :: v :: x :: r => (m, v, x) :: trip r
        | _ => []
      let ts := trip (rest.map fl)
      let mv := ts.map (fun t => (t.1, t.2.1))
      let xs := ts.map (fun t => t.2.2)
      let t1 := tpt == "1"
      if which == "mercurius" then hxs (mercuriusJump t1 nact (fl dt) (fl m0) mv xs)
      else hxs (traceJump t1 nact (fl dt) (fl m0) mv xs)
  | "wjump" :: coord :: nact :: dt :: m0 :: x0 :: v0 :: rest =>
    -- rest: (m v x)* for particles 1 … N_real-1 (one component), the first `nact` of them active
    match nact.toNat? with
    | none => "bad-op"
    | some nact =>
      let rec trip2 : List Float → List (Float × Float × Float)
        | m :: v :: x :: r => (m, v, x) :: trip2 r
        | _ => []
      let ts := trip2 (rest.map fl)
      let act := ts.take nact
      let tst := (ts.drop nact).map (fun t => t.2.2)
      let com := whfastComStep (fl dt) (fl x0) (fl v0)
      let r := if coord == "dh" then whfastJumpDH (fl dt) (fl m0) act tst
               else if coord == "whds" then whfastJumpWHDS (fl dt) (fl m0) act tst
               else (act.map (fun t => t.2.2), tst)
      hxs (com :: (r.1 ++ r.2))
  | _ => "bad-op"

def main : IO Unit := runLines step
