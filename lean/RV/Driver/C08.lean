import RV.Model.Integrate
import RV.Driver.Util
open RV RV.Driver RV.Integrate

/-
  line protocol of drv_c08 (one `reb_simulation_integrate` call per line):

    I kind exact tmax tmaxinf t dt dld status steps nOdes isBS fuel NB (mask:n)*NB NO (acc:dtdone:dtnew)*NO

  kind    once | halves | janus | adaptive
  mask    bit0 collision, bit1 user, bit2 escape, bit3 encounter, bit4 sigint, bit5 errMsg
  answer  outcome t dt dld steps status syncs nbeats (dt0 t1 dt1 dld1 st)*nbeats      (oldest beat first)
-/

def flagsOf (tok : String) : Flags :=
  match tok.splitOn ":" with
  | [m, n] =>
    let m := m.toNat!
    { collision := m % 2 == 1, user := (m / 2) % 2 == 1, escape := (m / 4) % 2 == 1,
      encounter := (m / 8) % 2 == 1, sigint := (m / 16) % 2 == 1, errMsg := (m / 32) % 2 == 1,
      n := n.toNat! }
  | _ => {}

def oracleOf (tok : String) : Bool × Float × Float :=
  match tok.splitOn ":" with
  | [a, d, n] => (a == "1", fl d, fl n)
  | _ => (true, 0.0 / 0.0, 0.0 / 0.0)

def beatStr (b : Beat Float) : String :=
  s!"{hx b.dt0} {hx b.t1} {hx b.dt1} {hx b.dld1} {b.st}"

def outStr (tag : String) (s : Sim Float) : String :=
  let beats := s.hist.reverse
  s!"{tag} {hx s.t} {hx s.dt} {hx s.dtLastDone} {s.stepsDone} {s.status} {s.syncs} {beats.length}" ++
    String.join (beats.map (fun b => " " ++ beatStr b))

def run (toks : List String) : String :=
  match toks with
  | "I" :: kind :: exact :: tmax :: tmaxinf :: t :: dt :: dld :: status :: steps :: nOdes :: isBS ::
      fuel :: nb :: rest =>
    match exact.toInt?, status.toInt?, steps.toNat?, nOdes.toNat?, fuel.toNat?, nb.toNat? with
    | some exact, some status, some steps, some nOdes, some fuel, some nb =>
      let fl0 := (rest.take nb).map flagsOf
      let rest := rest.drop nb
      match rest with
      | no :: rest =>
        match no.toNat? with
        | none => "bad-op"
        | some no =>
          let orc := ((rest.take no).map oracleOf).toArray
          let flags := fl0.toArray
          let lastN : Nat := match fl0.getLast? with | some f => f.n | none => 1
          let env : Nat → Flags := fun k => if h : k < flags.size then flags[k] else { n := lastN }
          let o : Nat → Bool × Float × Float := fun k => if h : k < orc.size then orc[k] else (true, 0.0 / 0.0, 0.0 / 0.0)
          let stepFn? : Option (StepFn Float) :=
            match kind with
            | "once" => some stepOnce
            | "halves" => some stepHalves
            | "janus" => some stepJanus
            | "adaptive" => some (stepAdaptive o)
            | _ => none
          match stepFn? with
          | none => "bad-kind"
          | some stepFn =>
            let s : Sim Float := { t := fl t, dt := fl dt, dtLastDone := fl dld, status := status,
                                   exactFinish := exact, stepsDone := steps, nOdes := nOdes,
                                   isBS := isBS == "1", syncs := 0, hist := [] }
            match integrate stepFn env fuel s (fl tmax) (tmaxinf == "1") with
            | .done s => outStr "done" s
            | .blocked s => outStr "blocked" s
            | .outOfFuel s => outStr "fuel" s
      | _ => "bad-op"
    | _, _, _, _, _, _ => "bad-op"
  | ["consts"] => s!"{hx (ScalarS.c1em12 : Float)} {hx (ScalarS.c1em200 : Float)}"
  | _ => "bad-op"

def main : IO Unit := runLines run
