import RV.Model.Integrate
import RV.Driver.Util
open RV RV.Driver RV.Integrate

/-
  line protocol of drv_c08 (one `reb_simulation_integrate` call per line):

    I kind exact tmax tmaxinf t dt dld status steps nOdes isBS fuel NB (mask:n)*NB NO (acc:dtdone:dtnew)*NO [NC (k:keys)*NC]

  keys    pre/wait, each a string over s (space), 1 (arrow-down), 5 (page-down): key presses delivered at boundary k
          before reb_check_exit is entered / while it waits (integrateP)

  tmaxinf bit mask: 1 tmax == +inf, 2 the source refuses NaN targets, 4 the source has the no-progress guard of addb1f3 (integrateG)
  kind    once | halves | janus | adaptive | ias15free (IAS15 controller model without forces, min_dt = dtdone of oracle entry 0)
  mask    bit0 collision, bit1 user, bit2 escape, bit3 encounter, bit4 sigint, bit5 errMsg, bit6 stepError
  answer  outcome t dt dld steps status syncs nbeats (dt0 t1 dt1 dld1 st)*nbeats      (oldest beat first)
-/

def flagsOf (tok : String) : Flags :=
  match tok.splitOn ":" with
  | [m, n] =>
    let m := m.toNat!
    { collision := m % 2 == 1, user := (m / 2) % 2 == 1, escape := (m / 4) % 2 == 1,
      encounter := (m / 8) % 2 == 1, sigint := (m / 16) % 2 == 1, errMsg := (m / 32) % 2 == 1,
      n := n.toNat!, stepError := (m / 64) % 2 == 1 }
  | _ => {}

def oracleOf (tok : String) : Bool × Float × Float :=
  match tok.splitOn ":" with
  | [a, d, n] => (a == "1", fl d, fl n)
  | _ => (true, 0.0 / 0.0, 0.0 / 0.0)

def beatStr (b : Beat Float) : String :=
  s!"{hx b.dt0} {hx b.t1} {hx b.dt1} {hx b.dld1} {b.st}"

def outStr (tag : String) (s : Sim Float) : String :=
  let beats := s.hist.reverse
  s!"{tag} {hx s.t} {hx s.dt} {hx s.dtLastDone} {s.stepsDone} {s.status} {s.syncs} {beats.length}" ++
    String.join (beats.map (fun b => " " ++ beatStr b))

def run (toks : List String) : String :=
  match toks with
  | "I" :: kind :: exact :: tmax :: tmaxinf :: t :: dt :: dld :: status :: steps :: nOdes :: isBS ::
      fuel :: nb :: rest =>
    match exact.toInt?, status.toInt?, steps.toNat?, nOdes.toNat?, fuel.toNat?, nb.toNat? with
    | some exact, some status, some steps, some nOdes, some fuel, some nb =>
      let fl0 := (rest.take nb).map flagsOf
      let rest := rest.drop nb
      match rest with
      | no :: rest =>
        match no.toNat? with
        | none => "bad-op"
        | some no =>
          let orc := ((rest.take no).map oracleOf).toArray
          let flags := fl0.toArray
          let lastN : Nat := match fl0.getLast? with | some f => f.n | none => 1
          let env : Nat → Flags := fun k => if h : k < flags.size then flags[k] else { n := lastN }
          let o : Nat → Bool × Float × Float := fun k => if h : k < orc.size then orc[k] else (true, 0.0 / 0.0, 0.0 / 0.0)
          let stepFn? : Option (StepFn Float) :=
            match kind with
            | "once" => some stepOnce
            | "halves" => some stepHalves
            | "janus" => some stepJanus
            | "adaptive" => some (stepAdaptive o)
            | "ias15free" =>
              -- force-free IAS15: the controller itself is the model; min_dt travels in the first oracle slot
              some (stepIAS15 (o 0).2.1 ias15RawFree 64)
            | _ => none
          match stepFn? with
          | none => "bad-kind"
          | some stepFn =>
            let s : Sim Float := { t := fl t, dt := fl dt, dtLastDone := fl dld, status := status,
                                   exactFinish := exact, stepsDone := steps, nOdes := nOdes,
                                   isBS := isBS == "1", syncs := 0, hist := [] }
            let ctlToks := rest.drop no
            let keysOf : String → List Ctl := fun ks => ks.toList.filterMap (fun ch =>
              if ch == 's' then some Ctl.space else if ch == '1' then some Ctl.step1
              else if ch == '5' then some Ctl.step50 else none)
            let sched : List (Nat × List Ctl × List Ctl) := match ctlToks with
              | _nc :: es => es.filterMap (fun e => match e.splitOn ":" with
                  | [k, ks] => match ks.splitOn "/" with
                    | [a, b] => some (k.toNat!, keysOf a, keysOf b)
                    | _ => none
                  | _ => none)
              | [] => []
            let ctl : Nat → List Ctl × List Ctl := fun k =>
              ((sched.filter (fun e => e.1 == k)).flatMap (fun e => e.2.1),
               (sched.filter (fun e => e.1 == k)).flatMap (fun e => e.2.2))
            -- tmaxinf token: bit0 tmax == +inf, bit1 the source refuses NaN targets, bit2 the source has the no-progress guard of addb1f3
            let tv := tmaxinf.toNat!
            let isInf := tv % 2 == 1
            let nanG := (tv / 2) % 2 == 1
            let guard3 := (tv / 4) % 2 == 1
            let res := if !ctlToks.isEmpty then integrateP stepFn env ctl fuel s (fl tmax) isInf
                       else if guard3 then (integrateG nanG stepFn env fuel s (fl tmax) isInf).1
                       else integrateN nanG stepFn env fuel s (fl tmax) isInf
            match res with
            | .done s => outStr "done" s
            | .blocked s => outStr "blocked" s
            | .outOfFuel s => outStr "fuel" s
      | _ => "bad-op"
    | _, _, _, _, _, _ => "bad-op"
  -- HB status user maxd mind n (x y z)*n : reb_run_heartbeat on n real particles -> new status
  | "HB" :: status :: user :: maxd :: mind :: n :: rest =>
    match status.toInt?, n.toNat? with
    | some status, some n =>
      let rec vecs : Nat → List String → List (V3 Float)
        | 0, _ => []
        | k + 1, x :: y :: z :: r => ⟨fl x, fl y, fl z⟩ :: vecs k r
        | _, _ => []
      let ps := vecs n rest
      let s : Sim Float := { t := 0.0, dt := 0.0, dtLastDone := 0.0, status := status, exactFinish := 1, stepsDone := 0,
                             nOdes := 0, isBS := false, syncs := 0, hist := [] }
      let s' := runHeartbeat s (heartbeatFlags (user == "1") (fl maxd) (fl mind) ps)
      s!"{s'.status}"
    | _, _ => "bad-op"
  -- CE t dt dld status exact tmax tmaxinf lastfull mask:n nOdes isBS : one reb_check_exit -> ret|blocked status dt lastfull syncs
  | ["CE", t, dt, dld, status, exact, tmax, tmaxinf, lf, fm, nOdes, isBS] =>
    match status.toInt?, exact.toInt?, nOdes.toNat? with
    | some status, some exact, some nOdes =>
      let s : Sim Float := { t := fl t, dt := fl dt, dtLastDone := fl dld, status := status, exactFinish := exact, stepsDone := 0,
                             nOdes := nOdes, isBS := isBS == "1", syncs := 0, hist := [] }
      match checkExit s (fl tmax) (tmaxinf == "1") (fl lf) (flagsOf fm) with
      | .ret s' lf' => s!"ret {s'.status} {hx s'.dt} {hx lf'} {s'.syncs}"
      | .blocked s' => s!"blocked {s'.status} {hx s'.dt} {hx (fl lf)} {s'.syncs}"
    | _, _, _ => "bad-op"
  | ["consts"] => s!"{hx (ScalarS.c1em12 : Float)} {hx (ScalarS.c1em200 : Float)}"
  | _ => "bad-op"

def main : IO Unit := runLines run
