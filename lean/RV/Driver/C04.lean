import RV.Model.Diag
import RV.Model.WHInt
import RV.Model.TraceCom
import RV.Model.WHJump
import RV.Driver.Util
/-
  drv_c04: runs RV/Model/Diag.lean on IEEE doubles.  Particles are `m x y z vx vy vz`.

    energy N Na tp G offset  parts*N            -> E
    angmom N                 parts*N            -> Lx Ly Lz
    com    N                 parts*N            -> m x y z vx vy vz
    lf     N Na tp ignore G soft dt nsteps parts*N  -> (x y z vx vy vz)*N   (LEAPFROG + BASIC)
    merge  G potential vcx vcy vcz  part part   -> m x y z vx vy vz dE
    tracecom N Nact dt rejected sx sy sz parts*N -> com_pos (3) com_vel (3) after one TRACE step (part2Com)
    whjump kind N Nact dt parts*N   -> (x y z)*N of p_jh after reb_whfast_jump_step (kind dh | whds) / reb_whfast_com_step (kind com); m = particles[i].m
    whint  N G soft dt m0 a0x a0y a0z (m ax ay az x y z vx vy vz)*(N-1)  -> (vx vy vz)*(N-1)   (reb_whfast_interaction_step, Jacobi)
-/
open RV RV.Driver RV.Gravity RV.Diag RV.WHInt RV.TraceCom

def nat (s : String) : Nat := s.toNat?.getD 0

def parts (t : Array String) (off n : Nat) : Array (Part Float) :=
  (Array.range n).map fun i =>
    let o := off + 7 * i
    { m := fl t[o]!, x := ⟨fl t[o+1]!, fl t[o+2]!, fl t[o+3]!⟩, v := ⟨fl t[o+4]!, fl t[o+5]!, fl t[o+6]!⟩ }

def fgt0 (a : Float) : Bool := a > 0.0

def outPart (p : Part Float) : String :=
  hxs [p.m, p.x.x, p.x.y, p.x.z, p.v.x, p.v.y, p.v.z]

def step (toks : List String) : String :=
  let t := toks.toArray
  let sq := Float.sqrt
  match toks with
  | "energy" :: _ =>
    if t.size < 6 then "bad-op" else
    let n := nat t[1]!
    if t.size != 6 + 7*n then "bad-op" else
    hx (energy sq (fl t[4]!) (fl t[5]!) (nat t[2]!) (nat t[3]! != 0) (parts t 6 n))
  | "angmom" :: _ =>
    if t.size < 2 then "bad-op" else
    let n := nat t[1]!
    if t.size != 2 + 7*n then "bad-op" else
    let l := angularMomentum (parts t 2 n)
    hxs [l.x, l.y, l.z]
  | "com" :: _ =>
    if t.size < 2 then "bad-op" else
    let n := nat t[1]!
    if t.size != 2 + 7*n then "bad-op" else
    outPart (com fgt0 (parts t 2 n))
  | "lf" :: _ =>
    if t.size < 9 then "bad-op" else
    let n := nat t[1]!
    if t.size != 9 + 7*n then "bad-op" else
    let g := fl t[5]!
    let cfg : Cfg Float := { nActive := nat t[2]!, tpType := nat t[3]! != 0, ignore := nat t[4]!, soft := fl t[6]! }
    let ps := lfSteps (fun s _ _ => kernCube sq g s) cfg [V3.zero] (fl t[7]!) (nat t[8]!) (parts t 9 n)
    " ".intercalate (ps.toList.map fun p => hxs [p.x.x, p.x.y, p.x.z, p.v.x, p.v.y, p.v.z])
  | "merge" :: _ =>
    if t.size != 6 + 14 then "bad-op" else
    let ps := parts t 6 2
    let o := merge sq (fl t[1]!) (nat t[2]! != 0) ⟨fl t[3]!, fl t[4]!, fl t[5]!⟩ ps[0]! ps[1]!
    outPart o.p ++ " " ++ hx o.dE
  | "tracecom" :: _ =>
    if t.size < 8 then "bad-op" else
    let n := nat t[1]!
    if t.size != 8 + 7*n then "bad-op" else
    let c := part2Com (fl t[3]!) (nat t[2]!) (nat t[4]! != 0) ⟨fl t[5]!, fl t[6]!, fl t[7]!⟩ (parts t 8 n)
    hxs [c.pos.x, c.pos.y, c.pos.z, c.vel.x, c.vel.y, c.vel.z]
  | "whjump" :: _ =>
    if t.size < 5 then "bad-op" else
    let n := nat t[2]!
    if t.size != 5 + 7*n then "bad-op" else
    let ph := parts t 5 n
    let dt := fl t[4]!
    let out := match t[1]! with
      | "dh" => RV.WHJump.jumpDH dt (nat t[3]!) n ph
      | "whds" => RV.WHJump.jumpWHDS dt (nat t[3]!) n ph
      | _ => RV.WHJump.comStep dt ph
    " ".intercalate (out.toList.map fun p => hxs [p.x.x, p.x.y, p.x.z])
  | "whint" :: _ =>
    if t.size < 9 then "bad-op" else
    let n := nat t[1]!
    if n == 0 || t.size != 9 + 10*(n-1) then "bad-op" else
    let idx := Array.range (n-1)
    let f := fun (i k : Nat) => fl t[9 + 10*i + k]!
    let bodies := (idx.map fun i => ({ m := f i 0, x := ⟨f i 4, f i 5, f i 6⟩, v := ⟨f i 7, f i 8, f i 9⟩ } : JB Float)).toList
    let accs := (idx.map fun i => (⟨f i 1, f i 2, f i 3⟩ : V3 Float)).toList
    let out := interactionJacobi sq (fl t[2]!) (fl t[3]!) (fl t[4]!) (fl t[5]!) ⟨fl t[6]!, fl t[7]!, fl t[8]!⟩ bodies accs
    " ".intercalate (out.map fun v => hxs [v.x, v.y, v.z])
  | _ => "bad-op"

def main : IO Unit := runLines step
