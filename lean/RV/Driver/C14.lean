import RV.Model.Particles
import RV.Model.ParticlesSide
import RV.Model.ParticlesLookup
/-
  drv_c14 — runs RV.Particles (the model of particle.c bookkeeping, reb_hash and the
  Python container index rules) on op lines produced by rv/c14.py.

  Stateful line protocol (one answer line per input line):
    variant a b c d e f g h      flags of the source under test (rangeFirst treeFirst lastClamp unsortedClamp resetTree
                                 dcritBounded dcritWithParticles evictClamp)
    new tree box forced merc     fresh simulation (0/1 flags)
    tupd q1,q2,..|-              reb_simulation_update_tree; the positions the walk evicts, in order (from the implementation)
    istep v0,v1,..               one MERCURIUS step: the dcrit array it left (bit patterns)
    ks re n idx | mercp1 zf safe synced rr rc nd n | side exact|grow slot0 skipEmpty alloc n   (RV.Particles.Side)
    add id hash geo              geo: 0 in box, 1 outside boundary, 2 outside tree box
    rm index ks
    rmh hash ks HINT
    get hash HINT
    sethash idx hash
    setactive k
    setnvar k                    (test set-up: r->N_var = k)
    rmall
    hash HEXBYTES                reb_hash of the byte string ("-" = empty)
    pyidx n k
    pyslice n start stop step    (start/stop "N" = None)
  HINT = the implementation's lookup table after the call ("h.i,h.i,…" or "-"): where C's
  qsort is free (equal hashes) the model follows the implementation iff the hinted table is
  a sorted permutation of the model's own unsorted table; otherwise it uses its own stable
  sort and the answer line says `hint=bad`.
  Answer: `OUT N N_active N_allocated N_var tree_root ps=… tbl=… tail=… dcrit=… rc=.. hint=…`
-/
open RV.Particles

namespace RV.Driver.C14

def insertE (e : Entry) : List Entry → List Entry
  | [] => [e]
  | x :: r => if e.hash ≤ x.hash then e :: x :: r else x :: insertE e r

/-- stable insertion sort by hash (the model's own choice where qsort is free) -/
def isort (l : List Entry) : List Entry := l.foldr insertE []

def sortedB : List Entry → Bool
  | a :: b :: r => decide (a.hash ≤ b.hash) && sortedB (b :: r)
  | _ => true

def hintSorter (hint : Option (List Entry)) : Sorter :=
  ⟨fun l => match hint with
    | some t => if sortedB t && t.isPerm l then t else isort l
    | none => isort l⟩

def hintStatus (hint : Option (List Entry)) (before after : List Entry) : String :=
  match hint with
  | none => "none"
  | some t => if after == t then (if before == after then "same" else "ok") else "bad"

def parseEntries (s : String) : Option (List Entry) :=
  if s = "-" then some [] else
  (s.splitOn ",").mapM fun tok =>
    match tok.splitOn "." with
    | [a, b] => do let h ← a.toNat?; let i ← b.toNat?; pure ⟨h, i⟩
    | _ => none

def parseNats (s : String) : Option (List Nat) :=
  if s = "-" then some [] else (s.splitOn ",").mapM fun tok => tok.toNat?

def outStr : Out → String
  | .ok => "ok" | .errOutsideBoundary => "errOutsideBoundary" | .errNoBox => "errNoBox"
  | .errOutsideTreeBox => "errOutsideTreeBox" | .errSameCoords => "errSameCoords" | .removed => "removed" | .lastRemoved => "lastRemoved"
  | .errRange => "errRange" | .errMegno => "errMegno" | .errTreeSorted => "errTreeSorted"
  | .errNotFound => "errNotFound" | .found i => s!"found:{i}" | .notFound => "notFound"
  | .done => "done" | .errIndex => "errIndex" | .fault => "FAULT"

def joinOr (l : List String) : String := if l.isEmpty then "-" else ",".intercalate l

def b2s (b : Bool) : String := if b then "1" else "0"

def digestMod : Nat := 2305843009213693951

/-- digest of the allocated-but-unused slots `N ≤ i < N_allocated` -/
def tailDigest (mem : List P) (n : Nat) : Nat :=
  let rec go : List P → Nat → Nat → Nat
    | [], _, acc => acc
    | p :: r, i, acc =>
      go r (i + 1) ((acc + (p.id * 1000003 + p.hash * 7 + (if p.flagged then 1 else 0) + 1) * (i + 1)) % digestMod)
  go (mem.drop n) n 0

def stateStr (c : State) : String :=
  let ps := (c.mem.take c.N).map fun p => s!"{p.id}.{p.hash}.{b2s p.flagged}"
  let tb := c.lookup.map fun e => s!"{e.hash}.{e.index}"
  let dc := c.dcrit.map toString
  s!"{c.N} {c.nActive} {c.nAlloc} {c.nVar} {b2s c.treeRoot} ps={joinOr ps} tbl={joinOr tb} tail={tailDigest c.mem c.N} dcrit={joinOr dc} rc={b2s c.recalcR}{b2s c.recalcC}"

def hexVal (c : Char) : Option Nat :=
  if '0' ≤ c ∧ c ≤ '9' then some (c.toNat - '0'.toNat)
  else if 'a' ≤ c ∧ c ≤ 'f' then some (c.toNat - 'a'.toNat + 10)
  else none

def hexBytes : List Char → Option (List UInt8)
  | [] => some []
  | a :: b :: r => do
    let x ← hexVal a; let y ← hexVal b; let t ← hexBytes r
    pure ((x * 16 + y).toUInt8 :: t)
  | _ => none

def optInt (s : String) : Option (Option Int) :=
  if s = "N" then some none else s.toInt?.map some

def geoOf : Nat → Geo
  | 1 => .outsideBoundary
  | 2 => .outsideTreeBox
  | _ => .inBox

structure DS where
  v : Variant
  c : State
  cap : Nat := 0      -- N_allocated_lookup, followed with RV.Particles.capAfterLookup

def bit (s : String) : Bool := s = "1"

def answer (d : DS) (c' : State) (o : Out) (hint : String) : DS × String :=
  ({ d with c := c' }, s!"{outStr o} {stateStr c'} cap={d.cap} hint={hint}")

def stepLine (d : DS) (toks : List String) : DS × String :=
  match toks with
  | ["variant", a, b, c, e, f, g, h, i] =>
    ({ d with v := ⟨bit a, bit b, bit c, bit e, bit f, bit g, bit h, bit i⟩ }, "variant-set")
  | ["new", t, b, f, m] =>
    let c := State.init (bit t) (bit b) (bit f) (bit m)
    answer { d with cap := 0 } c .done "none"
  | ["ks", re, n, idx] =>
    -- the TRACE current_Ks reshuffle on the matrix whose entry k is k: leading (n-1)x(n-1) block
    match n.toNat?, idx.toNat? with
    | some n, some idx =>
      (d, match RV.Particles.Side.reshuffle (bit re) n idx (RV.Particles.Side.idMatrix n) with
          | some out => joinOr ((out.take ((n - 1) * (n - 1))).map toString)
          | none => "fault")
    | _, _ => (d, "bad-op")
  | ["ksadd", cl, n, enc] =>
    -- TRACE current_Ks when a particle is added mid-step: old matrix entry k is k+2, unwritten cells -7, the first `enc`
    -- particles are in the encounter (the star, index 0, is not flagged)
    match n.toNat?, enc.toNat? with
    | some n, some enc =>
      let ks : List Int := (List.range ((n + 1) * (n + 1))).map fun k => if k < n * n then (k : Int) + 2 else -7
      (d, match RV.Particles.Side.ksAdd (bit cl) n ((List.range enc).drop 1) (0 : Int) 1 ks with
          | some out => joinOr (out.map toString)
          | none => "fault")
    | _, _ => (d, "bad-op")
  | ["mercp1", zf, safe, synced, rr, rcc, nd, n] =>
    -- MERCURIUS part1 on a dcrit array with nd written cells: was an unwritten cell read? new size, flags
    match nd.toNat?, n.toNat? with
    | some nd, some n =>
      let m : RV.Particles.Side.Merc := ⟨(List.range nd).map (fun i => some i), bit rr, bit rcc, bit safe, bit synced⟩
      let r := RV.Particles.Side.part1 (bit zf) m n (fun i => 1000 + i)
      (d, s!"uninit={b2s r.2} nd={r.1.dcrit.length} rr={b2s r.1.recalcR} rc={b2s r.1.recalcC} synced={b2s r.1.synced}")
    | _, _ => (d, "bad-op")
  | ["side", pol, s0, se, alloc, n] =>
    -- one step of an integrator with a per-particle side array
    match alloc.toNat?, n.toNat? with
    | some alloc, some n =>
      let k : RV.Particles.Side.Kind := ⟨if pol = "exact" then .exact else .growOnly, bit s0, bit se⟩
      let r := RV.Particles.Side.sideStep k ⟨alloc, n⟩ .step
      (d, s!"{r.1.alloc} {b2s r.2}")
    | _, _ => (d, "bad-op")
  | ["tupd", vs] =>
    match parseNats vs with
    | some visit => let (c', o) := treeUpdate d.v d.c visit; answer d c' o "none"
    | none => (d, "bad-op")
  | ["istep", vs] =>
    match parseNats vs with
    | some vals => let (c', o) := integratorStep d.c vals; answer d c' o "none"
    | none => (d, "bad-op")
  | ["add", id, h, g] =>
    match id.toNat?, h.toNat?, g.toNat? with
    | some id, some h, some g => let (c', o) := add d.c ⟨id, h, false⟩ (geoOf g); answer d c' o "none"
    | _, _, _ => (d, "bad-op")
  | ["rm", i, ks] =>
    match i.toInt? with
    | some i => let (c', o) := remove d.v d.c i (bit ks); answer d c' o "none"
    | none => (d, "bad-op")
  | ["rmh", h, ks, hint] =>
    match h.toNat?, parseEntries hint with
    | some h, some t =>
      let (c', o) := removeByHash d.v (hintSorter (some t)) d.c h (bit ks)
      answer { d with cap := capAfterLookup d.cap d.c h } c' o (hintStatus (some t) d.c.lookup c'.lookup)
    | _, _ => (d, "bad-op")
  | ["get", h, hint] =>
    match h.toNat?, parseEntries hint with
    | some h, some t =>
      let (c', o) := particleByHash (hintSorter (some t)) d.c h
      answer { d with cap := capAfterLookup d.cap d.c h } c' o (hintStatus (some t) d.c.lookup c'.lookup)
    | _, _ => (d, "bad-op")
  | ["sethash", i, h] =>
    match i.toNat?, h.toNat? with
    | some i, some h => let (c', o) := setHash d.c i h; answer d c' o "none"
    | _, _ => (d, "bad-op")
  | ["setactive", k] =>
    match k.toInt? with
    | some k => let (c', o) := setActive d.c k; answer d c' o "none"
    | none => (d, "bad-op")
  | ["setnvar", k] =>
    match k.toNat? with
    | some k => answer d { d.c with nVar := k } .done "none"
    | none => (d, "bad-op")
  | ["rmall"] => let (c', o) := removeAll d.v d.c; answer d c' o "none"
  | ["hash", hx] =>
    match (if hx = "-" then some [] else hexBytes hx.toList) with
    | some bs => (d, s!"{(rebHash bs).toNat}")
    | none => (d, "bad-op")
  | ["pyidx", n, k] =>
    match n.toNat?, k.toInt? with
    | some n, some k => (d, match pyIndex n k with | some i => s!"{i}" | none => "err")
    | _, _ => (d, "bad-op")
  | ["pyslice", n, a, b, s] =>
    match n.toNat?, optInt a, optInt b, s.toInt? with
    | some n, some a, some b, some s =>
      if s = 0 then (d, "err") else (d, joinOr ((pySlice n a b s).map toString))
    | _, _, _, _ => (d, "bad-op")
  | _ => (d, "bad-op")

partial def loop (h out : IO.FS.Stream) (d : DS) : IO Unit := do
  let line ← h.getLine
  if line.isEmpty then return ()
  let toks := (line.trimAscii.toString.splitOn " ").filter (· ≠ "")
  let (d', s) := stepLine d toks
  out.putStrLn s
  loop h out d'

end RV.Driver.C14

def main : IO Unit := do
  let i ← IO.getStdin
  let o ← IO.getStdout
  RV.Driver.C14.loop i o ⟨Variant.current, State.init false false false, 0⟩
  o.flush
